import Srctools.Proofs.C03Refine
import Srctools.Proofs.C03Total
/-! Refinement of `_handle_comment`, `_get_token` and the token loop: TokC → TokA. -/
set_option linter.unusedSimpArgs false
namespace TokC
open Tok

theorem handleComment_refine (o : Opts) (f : Nat) (s : Src) (line : Nat) (h : s.Inv)
    (hf : s.view.length < f) :
    ScanRel (handleComment o f s line) (commentA o s.view line) := by
  rcases next_spec s h with ⟨hv, s1, hn, -, -, -, -⟩ | ⟨c, s1, hn, hv, hi, -, -⟩
  · rw [handleComment, hn, hv]; exact ⟨rfl, rfl⟩
  · rw [handleComment, hn, hv]
    simp only [commentA]
    have hlen : s1.view.length < f := by rw [hv] at hf; simp at hf; omega
    by_cases h1 : c = '*'
    · simp only [h1, if_true]
      cases o.allowStarComments
      · exact ⟨rfl, rfl⟩
      · exact scanStarComment_refine line f s1 [] line hi hlen
    · by_cases h2 : c = '/'
      · simp only [h1, h2, if_false, ne_eq, not_true_eq_false]
        exact scanLineComment_refine f s1 [] line hi hlen
      · simp only [h1, h2, if_false, ne_eq, not_false_eq_true, if_true]
        exact ⟨rfl, rfl⟩

/-- Concrete token result vs abstract token result. -/
def ResRel : CRes → Res → Prop
  | .tok k v cst, .tok k' v' st r =>
    k = k' ∧ v = v' ∧ cst.line = st.line ∧ cst.lastCr = st.lastCr ∧ cst.src.view = r ∧ cst.src.Inv
  | .err e l _, .err e' l' => e = e' ∧ l = l'
  | _, _ => False

/-- The part of the concrete state the abstract tokenizer also has. -/
def CSt.abs (c : CSt) : St := { line := c.line, lastCr := c.lastCr }

theorem scan_tok_rel (k : Kind) : ∀ {rc : CScan (List Char)} {ra : Scan (List Char)}, ScanRel rc ra →
    ResRel (match rc with
            | .err e l s => .err e l s
            | .ok v l s2 => .tok k v { src := s2, line := l, lastCr := false })
           (match ra with
            | .err e l => .err e l
            | .ok v l rest => .tok k v { line := l, lastCr := false } rest) := by
  intro rc ra hr
  cases rc with
  | ok v l s2 =>
    cases ra with
    | ok v' l' r => obtain ⟨rfl, rfl, rfl, hinv⟩ := hr; exact ⟨rfl, rfl, rfl, rfl, rfl, hinv⟩
    | err e l' => exact hr.elim
  | err e l =>
    cases ra with
    | ok v' l' r => exact hr.elim
    | err e' l' => exact hr

theorem nextToken_refine (T : Tables) (o : Opts) (fold : Char → List Char) (fuel : Nat) (cst : CSt)
    (h : cst.src.Inv) (hf : cst.src.view.length < fuel) :
    ResRel (nextToken T o fold fuel cst) (Tok.nextToken T o fold fuel cst.abs cst.src.view) := by
  induction fuel generalizing cst with
  | zero => omega
  | succ fuel ih =>
    obtain ⟨s, line, lc⟩ := cst
    simp only [CSt.abs] at *
    rcases next_spec s h with ⟨hv, s1, hn, hv1, hi1, -, -⟩ | ⟨c, s1, hn, hv, hi, -, -⟩
    · rw [nextToken]; simp only [hn, hv]; rw [Tok.nextToken]
      exact ⟨rfl, rfl, rfl, rfl, hv1, hi1⟩
    · have hlen : s1.view.length < fuel := by rw [hv] at hf; simp at hf; omega
      have ihc : ∀ l b, ResRel (nextToken T o fold fuel { src := s1, line := l, lastCr := b })
          (Tok.nextToken T o fold fuel { line := l, lastCr := b } s1.view) :=
        fun l b => ih { src := s1, line := l, lastCr := b } hi hlen
      rw [nextToken]; simp only [hn, hv]
      cases hop : T.operator c with
      | some k =>
        rw [Tok.nextToken.eq_def]; simp only [hop]
        exact ⟨rfl, rfl, rfl, rfl, rfl, hi⟩
      | none =>
      simp only [hop]
      by_cases hs : c = '/'
      · subst hs
        rw [nextToken_slash _ _ _ _ _ _ hop]
        have e1 : ('/' : Char) ≠ '\r' := by decide
        have e2 : ('/' : Char) ≠ '\n' := by decide
        have e3 : ¬ (('/' : Char) = ' ' ∨ ('/' : Char) = '\t') := by decide
        simp only [e1, e2, e3, if_false, if_true]
        have hr := handleComment_refine o fuel s1 line hi hlen
        generalize handleComment o fuel s1 line = rc at hr ⊢
        generalize hca : commentA o s1.view line = ra at hr ⊢
        cases rc with
        | ok v l s2 =>
          cases ra with
          | ok v' l' r =>
            obtain ⟨rfl, rfl, rfl, hinv⟩ := hr
            simp only
            cases o.preserveComments
            · simp only [Bool.false_eq_true, if_false]
              exact ih { src := s2, line := l, lastCr := false } hinv
                (by
                  have hg := commentA_good o s1.view line
                  rw [hca] at hg
                  simp only [Scan.Good] at hg
                  show s2.view.length < fuel
                  omega)
            · exact ⟨rfl, rfl, rfl, rfl, rfl, hinv⟩
          | err e l' => exact hr.elim
        | err e l =>
          cases ra with
          | ok v' l' r => exact hr.elim
          | err e' l' => exact hr
      · rw [Tok.nextToken.eq_def]; simp only [hop, hs, if_false]
        by_cases h1 : c = '\r'
        · rw [if_pos h1, if_pos h1]; exact ⟨rfl, rfl, rfl, rfl, rfl, hi⟩
        simp only [h1, if_false]
        by_cases h2 : c = '\n'
        · rw [if_pos h2, if_pos h2]
          cases lc
          · simp only [Bool.false_eq_true, if_false]; exact ⟨rfl, rfl, rfl, rfl, rfl, hi⟩
          · simp only [if_true]; exact ihc _ _
        simp only [h2, if_false]
        by_cases h3 : c = ' ' ∨ c = '\t'
        · rw [if_pos h3, if_pos h3]; exact ihc _ _
        rw [if_neg h3, if_neg h3]
        by_cases h4 : c = '"'
        · rw [if_pos h4, if_pos h4]
          exact scan_tok_rel _ (handleString_refine T o.allowEscapes fuel s1 [] false line hi hlen)
        simp only [h4, if_false]
        by_cases h5 : c = '['
        · rw [if_pos h5, if_pos h5]
          cases o.stringBracket
          · exact ⟨rfl, rfl, rfl, rfl, rfl, hi⟩
          · exact scan_tok_rel _ (scanBracket_refine fuel s1 [] line hi hlen)
        simp only [h5, if_false]
        by_cases h6 : c = '('
        · rw [if_pos h6, if_pos h6]
          cases o.stringParens
          · exact ⟨rfl, rfl, rfl, rfl, rfl, hi⟩
          · exact scan_tok_rel _ (scanParen_refine fuel s1 [] line hi hlen)
        simp only [h6, if_false]
        by_cases h7 : c = Char.ofNat 65279 ∧ line = 1
        · rw [if_pos h7, if_pos h7]; exact ihc _ _
        rw [if_neg h7, if_neg h7]
        by_cases h8 : c = ':' ∧ o.colonOperator = true
        · rw [if_pos h8, if_pos h8]; exact ⟨rfl, rfl, rfl, rfl, rfl, hi⟩
        rw [if_neg h8, if_neg h8]
        by_cases h9 : c = '+' ∧ o.plusOperator = true
        · rw [if_pos h9, if_pos h9]; exact ⟨rfl, rfl, rfl, rfl, rfl, hi⟩
        rw [if_neg h9, if_neg h9]
        by_cases h10 : c = ']'
        · rw [if_pos h10, if_pos h10]
          cases o.stringBracket
          · exact ⟨rfl, rfl, rfl, rfl, rfl, hi⟩
          · exact ⟨rfl, rfl⟩
        simp only [h10, if_false]
        by_cases h11 : c = ')'
        · rw [if_pos h11, if_pos h11]
          cases o.stringParens
          · exact ⟨rfl, rfl, rfl, rfl, rfl, hi⟩
          · exact ⟨rfl, rfl⟩
        simp only [h11, if_false]
        by_cases h12 : c = '#'
        · rw [if_pos h12, if_pos h12]
          have hr := scanBare_refine T o fold fuel s1 [] line hi hlen
          generalize scanBare T o fold fuel s1 [] line = rc at hr ⊢
          cases rc with
          | ok v l s2 => obtain ⟨rfl, rfl, hvv, hinv⟩ := hr; exact ⟨rfl, rfl, rfl, rfl, hvv, hinv⟩
          | err e l => exact hr.elim
        simp only [h12, if_false]
        cases hb : T.bareDisallowed.contains c
        · simp only [Bool.not_false, if_true]
          have hr := scanBare_refine T o (fun x => [x]) fuel s1 [c] line hi hlen
          generalize scanBare T o (fun x => [x]) fuel s1 [c] line = rc at hr ⊢
          cases rc with
          | ok v l s2 => obtain ⟨rfl, rfl, hvv, hinv⟩ := hr; exact ⟨rfl, rfl, rfl, rfl, hvv, hinv⟩
          | err e l => exact hr.elim
        · simp only [Bool.not_true, Bool.false_eq_true, if_false]
          exact ⟨rfl, rfl⟩

theorem runAux_refine (T : Tables) (o : Opts) (fold : Char → List Char) (n : Nat) (cst : CSt)
    (acc : List Obs) (h : cst.src.Inv) :
    runAux T o fold n cst acc = Tok.runAux T o fold n cst.abs cst.src.view acc := by
  induction n generalizing cst acc with
  | zero => rfl
  | succ n ih =>
    rw [runAux, Tok.runAux]
    have hr := nextToken_refine T o fold (cst.src.view.length + 1) cst h (by omega)
    generalize nextToken T o fold (cst.src.view.length + 1) cst = rc at hr ⊢
    generalize Tok.nextToken T o fold (cst.src.view.length + 1) cst.abs cst.src.view = ra at hr ⊢
    cases rc with
    | tok k v cst' =>
      cases ra with
      | tok k' v' st' r =>
        obtain ⟨rfl, rfl, hl, hc, hv, hinv⟩ := hr
        have habs : cst'.abs = st' := by
          cases st'; simp only [CSt.abs] at *; rw [hl, hc]
        simp only
        rw [ih cst' _ hinv, habs, hv, hl]
      | err e l => exact hr.elim
    | err e l =>
      cases ra with
      | tok k' v' st' r => exact hr.elim
      | err e' l' => obtain ⟨rfl, rfl⟩ := hr; rfl

/-- The whole observable stream of the concrete tokenizer is that of the abstract tokenizer on
the characters still to be read. -/
theorem run_refine (T : Tables) (o : Opts) (fold : Char → List Char) (s : Src) (h : s.Inv) :
    run T o fold s = Tok.run T o fold s.view :=
  runAux_refine T o fold _ { src := s } [] h

end TokC

namespace Tok

theorem runAux_total (T : Tables) (hT : opsOK T = true) (o : Opts) (fold : Char → List Char)
    (n : Nat) : ∀ (st : St) (inp : List Char) (acc : List Obs), inp.length + 1 ≤ n →
      ∀ l, (runAux T o fold n st inp acc).err ≠ some (.outOfFuel, l) := by
  induction n with
  | zero => intro st inp acc h; omega
  | succ n ih =>
    intro st inp acc h l
    rw [runAux]
    have hg := nextToken_good T hT o fold (inp.length + 1) st inp (by omega)
    generalize nextToken T o fold (inp.length + 1) st inp = ra at hg ⊢
    cases ra with
    | err e l' =>
      simp only [Res.Good] at hg
      simp only
      intro heq
      injection heq with heq
      injection heq with h1 _
      exact hg h1
    | tok k v st' rest =>
      simp only
      by_cases hk : k = .eof
      · simp [hk]
      · rw [if_neg hk]
        rcases hg with ⟨h1, _, _⟩ | ⟨_, hlen⟩
        · exact absurd h1 hk
        · exact ih st' rest _ (by omega) l

end Tok
