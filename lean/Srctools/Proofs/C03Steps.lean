import Srctools.Proofs.C03Src
/-! The step bound: a potential argument on the chunk cursor.  `pot s = calls so far + 2 × characters
left`.  A successful `_next_char` lowers it by one, a push-back after it raises it by two, a read
at end of input raises it by one, a push-back after that leaves it alone.  Every loop of the
tokenizer re-reads a character at most once, so a whole `_get_token` does not raise the potential,
except by one for the read that discovers the end of input. -/

set_option linter.unusedSimpArgs false

namespace TokC
open Tok

/-- `_next_char` calls so far + twice the characters still to be read. -/
def Src.pot (s : Src) : Nat := s.calls + 2 * s.view.length

theorem calls_le_pot (s : Src) : s.calls ≤ s.pot := by unfold Src.pot; omega

/-- What one `_next_char` (and a push-back after it) does to the potential. -/
theorem next_pot (s : Src) (h : s.Inv) :
    (∃ s1, s.next = (none, s1) ∧ s1.Inv ∧ s1.back.Inv ∧ s1.pot = s.pot + 1 ∧
      s1.back.pot = s.pot + 1 ∧ s1.calls = s.calls + 1) ∨
    (∃ c s1, s.next = (some c, s1) ∧ s1.Inv ∧ s1.back.Inv ∧ s1.pot + 1 = s.pot ∧
      s1.back.pot = s.pot + 1 ∧ s1.calls = s.calls + 1) := by
  have hc := next_calls s
  rcases next_spec s h with ⟨hv, s1, hn, hv1, hi1, hb, hbi⟩ | ⟨c, s1, hn, hv, hi, hb, hbi⟩
  · left
    rw [hn] at hc
    simp only at hc
    refine ⟨s1, hn, hi1, hbi, ?_, ?_, hc⟩
    · simp only [Src.pot, hv, hv1, hc, List.length_nil]
    · simp only [Src.pot, hv, hb, back_calls, hc, List.length_nil]
  · right
    rw [hn] at hc
    simp only at hc
    refine ⟨c, s1, hn, hi, hbi, ?_, ?_, hc⟩
    · simp only [Src.pot, hv, hc, List.length_cons]; omega
    · simp only [Src.pot, hv, hb, back_calls, hc, List.length_cons]; omega

/-- Potential bound for a sub-scanner started at `s`: on success the cursor keeps the invariant and
the potential rose by at most `d`; on error at most `pot s + 1` calls were made. -/
def PotScan {α : Type} (s : Src) (d : Nat) : CScan α → Prop
  | .ok _ _ s' => s'.Inv ∧ s'.pot ≤ s.pot + d
  | .err _ _ s' => s'.calls ≤ s.pot + 1

theorem PotScan.mono {α : Type} {s t : Src} {d : Nat} {r : CScan α} (h : PotScan t d r)
    (hst : t.pot ≤ s.pot) : PotScan s d r := by
  cases r with
  | ok v l s' => exact ⟨h.1, by have := h.2; omega⟩
  | err e l s' => simp only [PotScan] at h ⊢; omega

theorem scanBracket_pot (f : Nat) (s : Src) (acc : List Char) (line : Nat) (h : s.Inv) :
    PotScan s 0 (scanBracket f s acc line) := by
  induction f generalizing s acc with
  | zero => rw [scanBracket]; exact Nat.le_succ_of_le (calls_le_pot s)
  | succ f ih =>
    rw [scanBracket]
    rcases next_pot s h with ⟨s1, hn, hi, -, hp, -, hc⟩ | ⟨c, s1, hn, hi, -, hp, -, hc⟩
    · rw [hn]; simp only [PotScan]; have := calls_le_pot s; omega
    · rw [hn]; simp only
      have hcl : s1.calls ≤ s.pot + 1 := by have := calls_le_pot s; omega
      split
      · exact ⟨hi, by omega⟩
      · split
        · exact hcl
        · split
          · exact hcl
          · exact (ih s1 _ hi).mono (by omega)

theorem scanParen_pot (f : Nat) (s : Src) (acc : List Char) (line : Nat) (h : s.Inv) :
    PotScan s 0 (scanParen f s acc line) := by
  induction f generalizing s acc line with
  | zero => rw [scanParen]; exact Nat.le_succ_of_le (calls_le_pot s)
  | succ f ih =>
    rw [scanParen]
    rcases next_pot s h with ⟨s1, hn, hi, -, hp, -, hc⟩ | ⟨c, s1, hn, hi, -, hp, -, hc⟩
    · rw [hn]; simp only [PotScan]; have := calls_le_pot s; omega
    · rw [hn]; simp only
      have hcl : s1.calls ≤ s.pot + 1 := by have := calls_le_pot s; omega
      split
      · exact ⟨hi, by omega⟩
      · split
        · exact (ih s1 _ _ hi).mono (by omega)
        · split
          · exact hcl
          · exact (ih s1 _ _ hi).mono (by omega)

theorem scanBare_pot (T : Tables) (o : Opts) (fold : Char → List Char) (f : Nat) (s : Src)
    (acc : List Char) (line : Nat) (h : s.Inv) :
    PotScan s 1 (scanBare T o fold f s acc line) := by
  induction f generalizing s acc with
  | zero => rw [scanBare]; exact Nat.le_succ_of_le (calls_le_pot s)
  | succ f ih =>
    rw [scanBare]
    rcases next_pot s h with ⟨s1, hn, hi, -, hp, -, hc⟩ | ⟨c, s1, hn, hi, hbi, hp, hbp, hc⟩
    · rw [hn]; exact ⟨hi, by omega⟩
    · rw [hn]; simp only
      split
      · exact ⟨hbi, by omega⟩
      · exact (ih s1 _ hi).mono (by omega)

theorem scanLineComment_pot (f : Nat) (s : Src) (acc : List Char) (line : Nat) (h : s.Inv) :
    PotScan s 1 (scanLineComment f s acc line) := by
  induction f generalizing s acc with
  | zero => rw [scanLineComment]; exact Nat.le_succ_of_le (calls_le_pot s)
  | succ f ih =>
    rw [scanLineComment]
    rcases next_pot s h with ⟨s1, hn, hi, hbi, hp, hbp, hc⟩ | ⟨c, s1, hn, hi, hbi, hp, hbp, hc⟩
    · rw [hn]; exact ⟨hbi, by omega⟩
    · rw [hn]; simp only
      split
      · exact ⟨hbi, by omega⟩
      · exact (ih s1 _ hi).mono (by omega)

theorem scanStarComment_pot (start : Nat) (f : Nat) (s : Src) (acc : List Char) (line : Nat)
    (h : s.Inv) : PotScan s 0 (scanStarComment start f s acc line) := by
  induction f generalizing s acc line with
  | zero => rw [scanStarComment]; exact Nat.le_succ_of_le (calls_le_pot s)
  | succ f ih =>
    rw [scanStarComment]
    rcases next_pot s h with ⟨s1, hn, hi, -, hp, -, hc⟩ | ⟨c, s1, hn, hi, -, hp, -, hc⟩
    · rw [hn]; simp only [PotScan]; have := calls_le_pot s; omega
    · rw [hn]; simp only
      split
      · exact (ih s1 _ _ hi).mono (by omega)
      · split
        · rcases next_pot s1 hi with ⟨s2, hn2, hi2, -, hp2, -, hc2⟩ | ⟨d, s2, hn2, hi2, hbi2, hp2, hbp2, hc2⟩
          · rw [hn2]; simp only [PotScan]; have := calls_le_pot s1; omega
          · rw [hn2]; simp only
            split
            · exact ⟨hi2, by omega⟩
            · exact (ih s2.back _ _ hbi2).mono (by omega)
        · exact (ih s1 _ _ hi).mono (by omega)

theorem handleString_pot (T : Tables) (a : Bool) (f : Nat) (s : Src) (acc : List Char) (lc : Bool)
    (line : Nat) (h : s.Inv) : PotScan s 0 (handleString T a f s acc lc line) := by
  induction f generalizing s acc lc line with
  | zero => rw [handleString]; exact Nat.le_succ_of_le (calls_le_pot s)
  | succ f ih =>
    rw [handleString]
    rcases next_pot s h with ⟨s1, hn, hi, -, hp, -, hc⟩ | ⟨c, s1, hn, hi, -, hp, -, hc⟩
    · rw [hn]; simp only [PotScan]; have := calls_le_pot s; omega
    · rw [hn]; simp only
      split
      · exact ⟨hi, by omega⟩
      · split
        · exact (ih s1 _ _ _ hi).mono (by omega)
        · split
          · split
            · exact (ih s1 _ _ _ hi).mono (by omega)
            · exact (ih s1 _ _ _ hi).mono (by omega)
          · split
            · rcases next_pot s1 hi with ⟨s2, hn2, hi2, -, hp2, -, hc2⟩ | ⟨e, s2, hn2, hi2, -, hp2, -, hc2⟩
              · rw [hn2]; simp only [PotScan]; have := calls_le_pot s1; omega
              · rw [hn2]; simp only
                split
                · exact (ih s2 _ _ _ hi2).mono (by omega)
                · split
                  · exact (ih s2 _ _ _ hi2).mono (by omega)
                  · exact (ih s2 _ _ _ hi2).mono (by omega)
            · exact (ih s1 _ _ _ hi).mono (by omega)

theorem handleComment_pot (o : Opts) (f : Nat) (s : Src) (line : Nat) (h : s.Inv) :
    PotScan s 0 (handleComment o f s line) := by
  rw [handleComment]
  rcases next_pot s h with ⟨s1, hn, hi, -, hp, -, hc⟩ | ⟨c, s1, hn, hi, -, hp, -, hc⟩
  · rw [hn]; simp only [PotScan]; have := calls_le_pot s; omega
  · rw [hn]; simp only
    have hcl : s1.calls ≤ s.pot + 1 := by have := calls_le_pot s; omega
    split
    · split
      · exact (scanStarComment_pot line f s1 [] line hi).mono (by omega)
      · exact hcl
    · split
      · exact hcl
      · have := scanLineComment_pot f s1 [] line hi
        cases hr : scanLineComment f s1 [] line with
        | ok v l s2 => rw [hr] at this; exact ⟨this.1, by have := this.2; omega⟩
        | err e l s2 => rw [hr] at this; simp only [PotScan] at this ⊢; omega

/-- Potential bound for one `_get_token` from state `cst`: a token leaves the invariant intact and
does not raise the potential — except EOF, whose discovering read costs one; an error is raised
after at most `pot + 1` calls. -/
def PotRes (cst : CSt) : CRes → Prop
  | .tok k _ cst' =>
    cst'.src.Inv ∧ (cst'.src.pot ≤ cst.src.pot ∨ (k = .eof ∧ cst'.src.pot ≤ cst.src.pot + 1))
  | .err _ _ s' => s'.calls ≤ cst.src.pot + 1

theorem PotRes.mono {a b : CSt} {r : CRes} (h : PotRes a r) (hab : a.src.pot ≤ b.src.pot) :
    PotRes b r := by
  cases r with
  | tok k v cst' =>
    refine ⟨h.1, ?_⟩
    rcases h.2 with h2 | ⟨h2, h3⟩
    · exact Or.inl (by omega)
    · exact Or.inr ⟨h2, by omega⟩
  | err e l s' => simp only [PotRes] at h ⊢; omega

/-- A scanner that may raise the potential by one, run after the token's first character (which
lowered it by one), gives a token that does not raise it. -/
theorem scan_tok_pot (k : Kind) (cst : CSt) (s1 : Src) (hp : s1.pot + 1 = cst.src.pot) :
    ∀ {rc : CScan (List Char)}, PotScan s1 1 rc →
      PotRes cst (match rc with
        | .err e l s => .err e l s
        | .ok v l s2 => .tok k v { src := s2, line := l, lastCr := false }) := by
  intro rc h
  cases rc with
  | ok v l s2 => exact ⟨h.1, Or.inl (by have := h.2; show s2.pot ≤ cst.src.pot; omega)⟩
  | err e l s2 => simp only [PotScan] at h; simp only [PotRes]; omega

theorem PotScan.weaken {α : Type} {s : Src} {r : CScan α} (h : PotScan s 0 r) : PotScan s 1 r := by
  cases r with
  | ok v l s' => exact ⟨h.1, by have := h.2; omega⟩
  | err e l s' => exact h

theorem nextToken_pot (T : Tables) (o : Opts) (fold : Char → List Char) (fuel : Nat) (cst : CSt)
    (h : cst.src.Inv) : PotRes cst (nextToken T o fold fuel cst) := by
  induction fuel generalizing cst with
  | zero => rw [nextToken]; exact Nat.le_succ_of_le (calls_le_pot _)
  | succ fuel ih =>
    obtain ⟨s, line, lc⟩ := cst
    simp only at h
    rw [nextToken]
    rcases next_pot s h with ⟨s1, hn, hi, -, hp, -, hc⟩ | ⟨c, s1, hn, hi, -, hp, -, hc⟩
    · simp only [hn]
      exact ⟨hi, Or.inr ⟨rfl, by show s1.pot ≤ s.pot + 1; omega⟩⟩
    · simp only [hn]
      have hps : s1.pot ≤ s.pot := by omega
      have here : ∀ k v l b, PotRes { src := s, line := line, lastCr := lc }
          (CRes.tok k v { src := s1, line := l, lastCr := b }) := by
        intro k v l b; exact ⟨hi, Or.inl hps⟩
      have ihc : ∀ l b, PotRes { src := s, line := line, lastCr := lc }
          (nextToken T o fold fuel { src := s1, line := l, lastCr := b }) :=
        fun l b => (ih { src := s1, line := l, lastCr := b } hi).mono hps
      have herr : ∀ e l, PotRes { src := s, line := line, lastCr := lc } (CRes.err e l s1) := by
        intro e l; have := calls_le_pot s; show s1.calls ≤ s.pot + 1; omega
      have hsc : ∀ (k : Kind) {rc : CScan (List Char)}, PotScan s1 1 rc →
          PotRes { src := s, line := line, lastCr := lc } (match rc with
            | .err e l s => .err e l s
            | .ok v l s2 => .tok k v { src := s2, line := l, lastCr := false }) :=
        fun k _ hr => scan_tok_pot k { src := s, line := line, lastCr := lc } s1 hp hr
      cases hop : T.operator c with
      | some k => exact here _ _ _ _
      | none =>
      simp only
      by_cases h1 : c = '\r'
      · rw [if_pos h1]; exact here _ _ _ _
      rw [if_neg h1]
      by_cases h2 : c = '\n'
      · rw [if_pos h2]
        cases lc
        · simp only [Bool.false_eq_true, if_false]; exact here _ _ _ _
        · simp only [if_true]; exact ihc _ _
      rw [if_neg h2]
      by_cases h3 : c = ' ' ∨ c = '\t'
      · rw [if_pos h3]; exact ihc _ _
      rw [if_neg h3]
      by_cases hs : c = '/'
      · rw [if_pos hs]
        have hcm := handleComment_pot o fuel s1 line hi
        generalize handleComment o fuel s1 line = rc at hcm ⊢
        cases rc with
        | err e l s2 => simp only [PotScan] at hcm; simp only; show s2.calls ≤ s.pot + 1; omega
        | ok v l s2 =>
          simp only
          have h2p : s2.pot ≤ s.pot := by have := hcm.2; omega
          split
          · exact ⟨hcm.1, Or.inl h2p⟩
          · exact (ih { src := s2, line := l, lastCr := false } hcm.1).mono h2p
      rw [if_neg hs]
      by_cases h4 : c = '"'
      · rw [if_pos h4]; exact hsc _ (handleString_pot T _ fuel s1 [] false line hi).weaken
      rw [if_neg h4]
      by_cases h5 : c = '['
      · rw [if_pos h5]
        cases o.stringBracket
        · exact here _ _ _ _
        · exact hsc _ (scanBracket_pot fuel s1 [] line hi).weaken
      rw [if_neg h5]
      by_cases h6 : c = '('
      · rw [if_pos h6]
        cases o.stringParens
        · exact here _ _ _ _
        · exact hsc _ (scanParen_pot fuel s1 [] line hi).weaken
      rw [if_neg h6]
      by_cases h7 : c = Char.ofNat 65279 ∧ line = 1
      · rw [if_pos h7]; exact ihc _ _
      rw [if_neg h7]
      by_cases h8 : c = ':' ∧ o.colonOperator = true
      · rw [if_pos h8]; exact here _ _ _ _
      rw [if_neg h8]
      by_cases h9 : c = '+' ∧ o.plusOperator = true
      · rw [if_pos h9]; exact here _ _ _ _
      rw [if_neg h9]
      by_cases h10 : c = ']'
      · rw [if_pos h10]
        cases o.stringBracket
        · exact here _ _ _ _
        · exact herr _ _
      rw [if_neg h10]
      by_cases h11 : c = ')'
      · rw [if_pos h11]
        cases o.stringParens
        · exact here _ _ _ _
        · exact herr _ _
      rw [if_neg h11]
      by_cases h12 : c = '#'
      · rw [if_pos h12]; exact hsc _ (scanBare_pot T o fold fuel s1 [] line hi)
      rw [if_neg h12]
      cases hb : T.bareDisallowed.contains c
      · simp only [Bool.not_false, if_true]
        exact hsc _ (scanBare_pot T o (fun x => [x]) fuel s1 [c] line hi)
      · simp only [Bool.not_true, Bool.false_eq_true, if_false]
        exact herr _ _

/-- The whole run makes at most `pot + 1` calls of `_next_char`. -/
theorem runCallsAux_le (T : Tables) (o : Opts) (fold : Char → List Char) (n : Nat) (cst : CSt)
    (h : cst.src.Inv) : runCallsAux T o fold n cst ≤ cst.src.pot + 1 := by
  induction n generalizing cst with
  | zero => rw [runCallsAux]; exact Nat.le_succ_of_le (calls_le_pot _)
  | succ n ih =>
    rw [runCallsAux]
    have hp := nextToken_pot T o fold (cst.src.view.length + 1) cst h
    generalize nextToken T o fold (cst.src.view.length + 1) cst = rc at hp ⊢
    cases rc with
    | err e l s => exact hp
    | tok k v cst' =>
      simp only
      obtain ⟨hi, hpp⟩ := hp
      split
      · have := calls_le_pot cst'.src
        rcases hpp with h1 | ⟨_, h1⟩ <;> omega
      · rename_i hk
        rcases hpp with h1 | ⟨h0, _⟩
        · have := ih cst' hi; omega
        · exact absurd h0 hk

end TokC
