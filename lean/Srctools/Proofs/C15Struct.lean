import Srctools.Proofs.C15
import Srctools.Model.C15File
import Mathlib.Tactic.Ring
/-!
# C15 — helper lemmas for the structural theorems (mipmap chain, `scale_down`, frame keys, layout)
-/
namespace C15

/-! ## mipmap chain -/

theorem shiftRight_two_pow (a k : Nat) (h : k ≤ a) : 2 ^ a >>> k = 2 ^ (a - k) := by
  rw [Nat.shiftRight_eq_div_pow, Nat.pow_div h (by decide)]

theorem ctorLevelsAux_pow (a : Nat) : ∀ (b fuel : Nat), a ≤ fuel →
    ctorLevelsAux fuel (2 ^ a) (2 ^ b)
      = (List.range (min a b + 1)).map (fun k => (2 ^ a >>> k, 2 ^ b >>> k)) := by
  induction a with
  | zero =>
    intro b fuel _
    cases fuel <;> simp [ctorLevelsAux]
  | succ a ih =>
    intro b fuel hf
    obtain ⟨f, rfl⟩ : ∃ f, fuel = f + 1 := ⟨fuel - 1, by omega⟩
    cases b with
    | zero => simp [ctorLevelsAux]
    | succ b =>
      have hw : ¬ (2 ^ (a + 1) ≤ 1) := by
        have := Nat.one_lt_two_pow (n := a + 1) (by omega); omega
      have hh : ¬ (2 ^ (b + 1) ≤ 1) := by
        have := Nat.one_lt_two_pow (n := b + 1) (by omega); omega
      have e1 : 2 ^ (a + 1) >>> 1 = 2 ^ a := by rw [shiftRight_two_pow _ _ (by omega)]; simp
      have e2 : 2 ^ (b + 1) >>> 1 = 2 ^ b := by rw [shiftRight_two_pow _ _ (by omega)]; simp
      rw [ctorLevelsAux]
      simp only [hw, hh, or_self, if_false, e1, e2]
      rw [ih b f (by omega)]
      have hm : min (a + 1) (b + 1) + 1 = (min a b + 1) + 1 := by omega
      rw [hm, List.range_succ_eq_map (n := min a b + 1)]
      simp only [List.map_cons, List.map_map, Nat.shiftRight_zero]
      congr 1
      apply List.map_congr_left
      intro k _
      simp only [Function.comp, Nat.succ_eq_add_one]
      rw [show k + 1 = 1 + k by omega, Nat.shiftRight_add, Nat.shiftRight_add, e1, e2]

theorem ctorLevels_pow (a b : Nat) :
    ctorLevels (2 ^ a) (2 ^ b)
      = (List.range (min a b + 1)).map (fun k => (2 ^ a >>> k, 2 ^ b >>> k)) :=
  ctorLevelsAux_pow a b (2 ^ a) (Nat.le_of_lt Nat.lt_two_pow_self)

/-! ## lists built by `map` over `range`, arrays -/

theorem toArray_getD (l : List Nat) (i : Nat) : l.toArray.getD i 0 = l.getD i 0 := by
  simp [Array.getD, List.getD_eq_getElem?_getD]
  split <;> simp_all

theorem range_map_getD (n : Nat) (f : Nat → Nat) (i : Nat) (hi : i < n) :
    ((List.range n).map f).getD i 0 = f i := by
  simp [List.getD_eq_getElem?_getD, hi]

theorem pxAt_eq (w : Nat) (img : List Nat) (x y ch : Nat) :
    pxAt w img x y ch = img.getD (4 * (w * y + x) + ch) 0 := by
  simp [pxAt]

theorem idx_lt (w h x y ch : Nat) (hx : x < w) (hy : y < h) (hc : ch < 4) :
    4 * (w * y + x) + ch < 4 * (w * h) := by
  have : w * y + x < w * h := by
    calc w * y + x < w * y + w := by omega
      _ = w * (y + 1) := by ring
      _ ≤ w * h := Nat.mul_le_mul_left w (by omega)
  omega

theorem idx_div (w x y ch : Nat) (hx : x < w) (hc : ch < 4) :
    (4 * (w * y + x) + ch) / 4 = w * y + x ∧ (4 * (w * y + x) + ch) % 4 = ch ∧
    (w * y + x) / w = y ∧ (w * y + x) % w = x := by
  have hw : 0 < w := by omega
  refine ⟨by omega, by omega, ?_, ?_⟩
  · rw [Nat.mul_add_div hw, Nat.div_eq_of_lt hx]; simp
  · rw [Nat.mul_add_mod, Nat.mod_eq_of_lt hx]

/-! ## frame keys and layout -/

theorem mem_depthSeq (flags minor depth d : Nat) :
    d ∈ depthSeq flags minor depth ↔ d < sideCount flags minor depth := by
  unfold depthSeq sideCount
  split
  · split <;> simp
  · simp

theorem mem_fileKeys (mc fc : Nat) (dseq : List Nat) (k : Nat × Nat × Nat) :
    k ∈ fileKeys mc fc dseq ↔ k.1 < fc ∧ k.2.1 ∈ dseq ∧ k.2.2 < mc := by
  obtain ⟨f, d, m⟩ := k
  simp only [fileKeys, List.mem_flatMap, List.mem_reverse, List.mem_range, List.mem_map,
    Prod.mk.injEq]
  constructor
  · rintro ⟨m', hm, f', hf, d', hd, rfl, rfl, rfl⟩
    exact ⟨hf, hd, hm⟩
  · rintro ⟨hf, hd, hm⟩
    exact ⟨m, hm, f, hf, d, hd, rfl, rfl, rfl⟩

theorem length_fileKeys (mc fc : Nat) (dseq : List Nat) :
    (fileKeys mc fc dseq).length = mc * (fc * dseq.length) := by
  simp [fileKeys, List.length_flatMap, List.map_const', List.sum_replicate_nat]

theorem layoutFrom_congr (fsz : Nat → Nat → Nat) (d1 d2 : Nat → Nat × Nat) :
    ∀ (ks : List (Nat × Nat × Nat)) (off : Nat), (∀ k ∈ ks, d1 k.2.2 = d2 k.2.2) →
      layoutFrom fsz d1 ks off = layoutFrom fsz d2 ks off := by
  intro ks
  induction ks with
  | nil => intro off _; rfl
  | cons k ks ih =>
    intro off h
    have hk := h k (by simp)
    simp only [layoutFrom, hk]
    rw [ih _ (fun k' hk' => h k' (by simp [hk']))]

/-- keys and offsets of a layout: the keys are the given ones, in order. -/
theorem layoutFrom_keys (fsz : Nat → Nat → Nat) (d : Nat → Nat × Nat) :
    ∀ (ks : List (Nat × Nat × Nat)) (off : Nat), (layoutFrom fsz d ks off).map (·.1) = ks := by
  intro ks
  induction ks with
  | nil => intro _; rfl
  | cons k ks ih => intro off; simp [layoutFrom, ih]

/-! ## little-endian fields -/

theorem leDecode_le (k n : Nat) : leDecode (le k n) = n % 256 ^ k := by
  induction k generalizing n with
  | zero => simp [le, leDecode, Nat.mod_one]
  | succ k ih =>
    simp only [le, leDecode, ih]
    rw [Nat.pow_succ, Nat.mul_comm (256 ^ k) 256, Nat.mod_mul, Nat.add_comm]

theorem length_le (k n : Nat) : (le k n).length = k := by
  induction k generalizing n with
  | zero => rfl
  | succ k ih => simp [le, ih]

/-! ## whole frames: chunking -/

theorem chunksAux_flatMap {α : Type} (n : Nat) (g : α → List Nat) :
    ∀ (qs : List α), (∀ q ∈ qs, (g q).length = n) → chunksAux n qs.length (qs.flatMap g) = qs.map g := by
  intro qs
  induction qs with
  | nil => intro _; rfl
  | cons q qs ih =>
    intro h
    have hq := h q (by simp)
    simp only [List.length_cons, List.flatMap_cons, List.map_cons, chunksAux]
    rw [List.take_left' hq, List.drop_left' hq, ih (fun q' hq' => h q' (by simp [hq']))]

theorem length_flatMap_const {α : Type} (n : Nat) (g : α → List Nat) :
    ∀ (qs : List α), (∀ q ∈ qs, (g q).length = n) → (qs.flatMap g).length = n * qs.length := by
  intro qs
  induction qs with
  | nil => intro _; simp
  | cons q qs ih =>
    intro h
    simp only [List.flatMap_cons, List.length_append, List.length_cons, h q (by simp),
      ih (fun q' hq' => h q' (by simp [hq']))]
    ring

theorem chunks_flatMap {α : Type} (n : Nat) (hn : 0 < n) (g : α → List Nat) (qs : List α)
    (h : ∀ q ∈ qs, (g q).length = n) : chunks n (qs.flatMap g) = qs.map g := by
  unfold chunks
  rw [if_neg (by omega), length_flatMap_const n g qs h, Nat.mul_div_cancel_left _ hn]
  exact chunksAux_flatMap n g qs h

theorem mem_of_mem_chunksAux (n : Nat) : ∀ (k : Nat) (l q : List Nat) (b : Nat),
    q ∈ chunksAux n k l → b ∈ q → b ∈ l := by
  intro k
  induction k with
  | zero => intro l q b h; simp [chunksAux] at h
  | succ k ih =>
    intro l q b h hb
    simp only [chunksAux, List.mem_cons] at h
    rcases h with rfl | h
    · exact List.mem_of_mem_take hb
    · exact List.mem_of_mem_drop (ih _ _ _ h hb)

theorem mem_of_mem_chunks (n : Nat) (l q : List Nat) (b : Nat) (h : q ∈ chunks n l) (hb : b ∈ q) :
    b ∈ l := by
  unfold chunks at h
  split at h
  · simp at h
  · exact mem_of_mem_chunksAux n _ l q b h hb

theorem ofList_valid (q : List Nat) (h : ∀ b ∈ q, b < 256) : (Px.ofList q).valid := by
  have g : ∀ i, q.getD i 0 < 256 := by
    intro i
    simp only [List.getD_eq_getElem?_getD]
    cases hi : q[i]? with
    | none => simp
    | some b => simpa using h b (List.mem_of_getElem? hi)
  exact ⟨g 0, g 1, g 2, g 3⟩

theorem flatMap_congr' {α β : Type} (l : List α) (f g : α → List β) (h : ∀ a ∈ l, f a = g a) :
    l.flatMap f = l.flatMap g := by
  induction l with
  | nil => rfl
  | cons a l ih =>
    simp only [List.flatMap_cons, h a (by simp), ih (fun a' ha' => h a' (by simp [ha']))]

end C15
