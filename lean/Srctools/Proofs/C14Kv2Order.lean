import Srctools.Proofs.C14Kv2Main
import Mathlib.Data.List.Perm.Basic
import Mathlib.Data.List.Count
/-! # C14 / KeyValues2, nested layout: the use-count pass and the emission order.

From the structure of a canonically numbered graph (`bfsOrdered`) — without assuming anything about
the emission — every element is written exactly once: at the top level when it is the root or is
referenced more than once, inline at its single use otherwise; and the nesting never exhausts the
fuel.  So `order g false` is a permutation of the element indices and `nestAllOK` holds. -/
namespace C14.Kv2
open C14 List

/-! ## references, kids, use counts -/

theorem kidsOfVals_eq (g : TGraph) (flat : Bool) (vals : List TVal) :
    kidsOfVals g flat vals = (vals.filterMap TVal.idx?).filter (fun j => !isRoot g flat j) := by
  induction vals with
  | nil => rfl
  | cons v vs ih =>
    cases v with
    | text s => simpa [kidsOfVals, TVal.idx?, List.filterMap_cons] using ih
    | ref r =>
      cases r with
      | null => simpa [kidsOfVals, TVal.idx?, List.filterMap_cons] using ih
      | stub u => simpa [kidsOfVals, TVal.idx?, List.filterMap_cons] using ih
      | idx j =>
        simp only [kidsOfVals, List.filterMap_cons, TVal.idx?] at ih ⊢
        by_cases hr : isRoot g flat j = true
        · simp [hr, List.filter_cons, ih]
        · simp [hr, List.filter_cons, ih]

theorem inlineKids_filter (g : TGraph) (flat : Bool) (e : TElem) :
    inlineKids g flat e = e.refs.filter (fun j => !isRoot g flat j) := by
  rw [inlineKids_eq]
  simp only [kidsOfAttrs, TElem.refs, kidsOfVals_eq]
  induction e.attrs with
  | nil => rfl
  | cons a as ih => simp [List.filter_append, ih]

/-- the inline children of the element at index `y`. -/
def kidsAt (g : TGraph) (y : Nat) : List Nat :=
  match g.elems[y]? with
  | some e => inlineKids g false e
  | none => []

theorem kidsAt_eq (g : TGraph) (y : Nat) :
    kidsAt g y = (refsAtT g y).filter (fun j => !isRoot g false j) := by
  unfold kidsAt refsAtT
  cases g.elems[y]? with
  | none => rfl
  | some e => exact inlineKids_filter g false e

/-- all references of the graph, element by element. -/
def allRefs (g : TGraph) : List Nat := (List.range g.elems.length).flatMap (refsAtT g)

theorem allRefs_eq (g : TGraph) : allRefs g = g.elems.flatMap TElem.refs := by
  unfold allRefs
  have : ∀ (l : List TElem), (List.range l.length).flatMap (fun i => match l[i]? with | some e => e.refs | none => [])
      = l.flatMap TElem.refs := by
    intro l
    induction l with
    | nil => rfl
    | cons e es ih =>
      rw [List.length_cons, List.range_succ_eq_map, List.flatMap_cons, List.flatMap_map]
      simp only [List.getElem?_cons_zero, Function.comp_def, List.getElem?_cons_succ, List.flatMap_cons]
      rw [ih]
  exact this g.elems

section counts
variable (T : Tables) (fold : Str → Str) (g : TGraph) (hwf : graphWf T fold g false = true)

include hwf in
/-- `use_count`: one for the root plus one per reference (references only occur in element-typed
attributes of a well-formed graph). -/
theorem useCount_eq (i : Nat) :
    useCount g i = (if i = 0 then 1 else 0) + (allRefs g).count i := by
  rw [allRefs_eq]
  unfold useCount
  congr 1
  simp only [graphWf, List.all_eq_true, Bool.and_eq_true] at hwf
  have hE : ∀ e ∈ g.elems, (e.attrs.flatMap fun a =>
      if a.type = .element then a.vals.filter (isIdx i) else []).length = e.refs.count i := by
    intro e he
    have hattrs := (hwf e he).2
    unfold TElem.refs
    have : ∀ (as : List TAttr), (∀ a ∈ as, ∀ v ∈ a.vals, valWf T fold g false a.type v = true) →
        (as.flatMap fun a => if a.type = .element then a.vals.filter (isIdx i) else []).length
          = (as.flatMap fun a => a.vals.filterMap TVal.idx?).count i := by
      intro as
      induction as with
      | nil => intro _; rfl
      | cons a as ih =>
        intro h
        simp only [List.flatMap_cons, List.length_append, List.count_append]
        rw [ih (fun b hb => h b (List.mem_cons_of_mem _ hb))]
        congr 1
        have hv := h a (List.mem_cons_self ..)
        have : ∀ (vals : List TVal), (∀ v ∈ vals, valWf T fold g false a.type v = true) →
            (if a.type = .element then vals.filter (isIdx i) else []).length
              = (vals.filterMap TVal.idx?).count i := by
          intro vals
          induction vals with
          | nil => intro _; split <;> rfl
          | cons v vs ihv =>
            intro h
            have h1 := ihv (fun w hw => h w (List.mem_cons_of_mem _ hw))
            have h0 := h v (List.mem_cons_self ..)
            cases v with
            | text s =>
              simp only [valWf, bne_iff_ne, ne_eq] at h0
              simp only [if_neg h0] at h1 ⊢
              simpa [TVal.idx?, List.filterMap_cons] using h1
            | ref r =>
              cases r with
              | null =>
                simp only [valWf, beq_iff_eq] at h0
                simp only [if_pos h0] at h1 ⊢
                simpa [TVal.idx?, List.filterMap_cons, isIdx] using h1
              | stub u =>
                simp only [valWf, Bool.and_eq_true, beq_iff_eq] at h0
                simp only [if_pos h0.1] at h1 ⊢
                simpa [TVal.idx?, List.filterMap_cons, isIdx] using h1
              | idx j =>
                simp only [valWf, Bool.and_eq_true, beq_iff_eq] at h0
                simp only [if_pos h0.1.1] at h1 ⊢
                by_cases hij : i = j
                · subst hij
                  simp [TVal.idx?, List.filter_cons, isIdx, h1]
                · have hji : ¬ j = i := fun e => hij e.symm
                  simp [TVal.idx?, List.filter_cons, isIdx, hij, hji, h1]
        exact this a.vals hv
    exact this e.attrs (fun a ha v hv => ((hattrs a ha).2) v hv)
  have : ∀ (l : List TElem), (∀ e ∈ l, (e.attrs.flatMap fun a =>
      if a.type = .element then a.vals.filter (isIdx i) else []).length = e.refs.count i) →
      (l.flatMap fun e => e.attrs.flatMap fun a =>
        if a.type = .element then a.vals.filter (isIdx i) else []).length = (l.flatMap TElem.refs).count i := by
    intro l
    induction l with
    | nil => intro _; rfl
    | cons e es ih =>
      intro h
      simp only [List.flatMap_cons, List.length_append, List.count_append]
      rw [h e (List.mem_cons_self ..), ih (fun b hb => h b (List.mem_cons_of_mem _ hb))]
  exact this g.elems hE

include hwf in
/-- references are in range. -/
theorem refs_lt {y j : Nat} (hj : j ∈ refsAtT g y) : j < g.elems.length := by
  unfold refsAtT at hj
  cases he : g.elems[y]? with
  | none => simp [he] at hj
  | some e =>
    simp only [he, TElem.refs, List.mem_flatMap, List.mem_filterMap] at hj
    obtain ⟨a, ha, v, hv, hvj⟩ := hj
    simp only [graphWf, List.all_eq_true, Bool.and_eq_true] at hwf
    have := ((hwf e (List.mem_of_getElem? he)).2 a ha).2 v hv
    cases v with
    | text s => simp [TVal.idx?] at hvj
    | ref r =>
      cases r with
      | null => simp [TVal.idx?] at hvj
      | stub u => simp [TVal.idx?] at hvj
      | idx k =>
        simp only [TVal.idx?, Option.some.injEq] at hvj
        subst hvj
        simp only [valWf, Bool.and_eq_true, decide_eq_true_eq] at this
        exact this.1.2

end counts

/-! ## a non-root element has exactly one reference -/

theorem le_sum_of_mem {l : List Nat} {a : Nat} (h : a ∈ l) : a ≤ l.sum := by
  induction l with
  | nil => cases h
  | cons c cs ih =>
    simp only [List.sum_cons]
    rcases List.mem_cons.mp h with rfl | h'
    · omega
    · have := ih h'; omega

theorem sum_two_le {l : List Nat} (f : Nat → Nat) (hn : l.Nodup) {a b : Nat} (ha : a ∈ l) (hb : b ∈ l)
    (hab : a ≠ b) : f a + f b ≤ (l.map f).sum := by
  induction l with
  | nil => cases ha
  | cons c cs ih =>
    simp only [List.map_cons, List.sum_cons]
    rw [List.nodup_cons] at hn
    rcases List.mem_cons.mp ha with rfl | ha'
    · rcases List.mem_cons.mp hb with rfl | hb'
      · exact absurd rfl hab
      · have : f b ≤ (cs.map f).sum := le_sum_of_mem (List.mem_map.mpr ⟨b, hb', rfl⟩)
        omega
    · rcases List.mem_cons.mp hb with rfl | hb'
      · have : f a ≤ (cs.map f).sum := le_sum_of_mem (List.mem_map.mpr ⟨a, ha', rfl⟩)
        omega
      · have := ih hn.2 ha' hb'
        omega

section struct
variable (T : Tables) (fold : Str → Str) (g : TGraph) (hwf : graphWf T fold g false = true)

include hwf in
theorem nonroot_count {x : Nat} (hx : isRoot g false x = false) : x ≠ 0 ∧ (allRefs g).count x ≤ 1 := by
  simp only [isRoot, Bool.false_or, Bool.or_eq_false_iff, beq_eq_false_iff_ne, ne_eq,
    decide_eq_false_iff_not, Nat.not_lt] at hx
  refine ⟨hx.1, ?_⟩
  have := useCount_eq T fold g hwf x
  rw [if_neg hx.1] at this
  omega

include hwf in
/-- the parent of a non-root element is unique, and holds exactly one reference to it. -/
theorem unique_parent {x p : Nat} (hx : isRoot g false x = false) (hp : p < g.elems.length)
    (hxp : x ∈ refsAtT g p) :
    (refsAtT g p).count x = 1 ∧ ∀ y, y < g.elems.length → y ≠ p → (refsAtT g y).count x = 0 := by
  have hc := (nonroot_count T fold g hwf hx).2
  unfold allRefs at hc
  rw [List.count_flatMap] at hc
  have hp1 : 1 ≤ (refsAtT g p).count x := List.count_pos_iff.mpr hxp
  have hsingle : ((refsAtT g p).count x) ≤ ((List.range g.elems.length).map (count x ∘ refsAtT g)).sum :=
    le_sum_of_mem (List.mem_map.mpr ⟨p, List.mem_range.mpr hp, rfl⟩)
  refine ⟨by omega, fun y hy hyp => ?_⟩
  have := sum_two_le (count x ∘ refsAtT g) List.nodup_range (List.mem_range.mpr hp) (List.mem_range.mpr hy)
    (fun e => hyp e.symm)
  simp only [Function.comp] at this
  omega

theorem mem_kidsAt {i k : Nat} (hk : k ∈ kidsAt g i) : k ∈ refsAtT g i ∧ isRoot g false k = false := by
  rw [kidsAt_eq, List.mem_filter] at hk
  exact ⟨hk.1, by simpa using hk.2⟩

include hwf in
/-- in a canonically numbered graph an inline child has a larger index than its parent. -/
theorem kid_gt (hb : bfsOrdered g = true) {i k : Nat} (hi : i < g.elems.length) (hk : k ∈ kidsAt g i) :
    i < k ∧ k < g.elems.length := by
  obtain ⟨hki, hnr⟩ := mem_kidsAt g hk
  have hkl := refs_lt T fold g hwf hki
  refine ⟨?_, hkl⟩
  have hk0 := (nonroot_count T fold g hwf hnr).1
  simp only [bfsOrdered, List.all_eq_true, List.mem_range, Bool.or_eq_true, beq_iff_eq,
    List.any_eq_true, List.contains_eq_mem, decide_eq_true_eq] at hb
  rcases hb k hkl with h0 | ⟨i', hi', hki'⟩
  · exact absurd h0 hk0
  · by_cases hii : i' = i
    · omega
    · have := (unique_parent T fold g hwf hnr hi hki).2 i' (by omega) hii
      have hpos : 0 < (refsAtT g i').count k := List.count_pos_iff.mpr hki'
      omega

include hwf in
/-- **`nestAllOK` derived**: the nesting below any element ends within `n - i` levels. -/
theorem nestOK_of_bfs (hb : bfsOrdered g = true) :
    ∀ (f i : Nat), i < g.elems.length → g.elems.length - i ≤ f → nestOK g false f i = true := by
  intro f
  induction f with
  | zero => intro i hi hf; omega
  | succ f ih =>
    intro i hi hf
    simp only [nestOK, List.getElem?_eq_getElem hi, List.all_eq_true]
    intro k hk
    have hk' : k ∈ kidsAt g i := by simpa [kidsAt, List.getElem?_eq_getElem hi] using hk
    obtain ⟨h1, h2⟩ := kid_gt T fold g hwf hb hi hk'
    exact ih k h2 (by omega)

include hwf in
theorem nestAllOK_of_bfs (hb : bfsOrdered g = true) : nestAllOK g false = true := by
  simp only [nestAllOK, List.all_eq_true, roots, List.mem_filter, List.mem_range]
  intro i hi
  exact nestOK_of_bfs T fold g hwf hb _ i hi.1 (by omega)

end struct

/-! ## every element is emitted exactly once -/

/-- how often `x` is an inline child of element `y`. -/
def cnt (g : TGraph) (x y : Nat) : Nat := (kidsAt g y).count x

theorem orderOf_succ (g : TGraph) (f r : Nat) (hr : r < g.elems.length) :
    orderOf g false (f + 1) r = r :: (kidsAt g r).flatMap (orderOf g false f) := by
  simp [orderOf, kidsAt, List.getElem?_eq_getElem hr]

theorem nestOK_succ (g : TGraph) (f r : Nat) (h : nestOK g false (f + 1) r = true) :
    r < g.elems.length ∧ ∀ k ∈ kidsAt g r, nestOK g false f k = true := by
  cases he : g.elems[r]? with
  | none => simp [nestOK, he] at h
  | some e =>
    have hr : r < g.elems.length := by
      rcases Nat.lt_or_ge r g.elems.length with h1 | h1
      · exact h1
      · rw [List.getElem?_eq_none h1] at he; cases he
    refine ⟨hr, ?_⟩
    simpa [nestOK, he, kidsAt] using h

theorem sum_zero_of {l : List Nat} (h : ∀ c ∈ l, c = 0) : l.sum = 0 := by
  induction l with
  | nil => rfl
  | cons a t ih =>
    simp only [List.sum_cons, h a (List.mem_cons_self ..), ih (fun c hc => h c (List.mem_cons_of_mem _ hc))]

theorem sum_map_ite (l : List Nat) (p : Nat) :
    (l.map (fun y => if y = p then 1 else 0)).sum = l.count p := by
  induction l with
  | nil => rfl
  | cons a t ih =>
    simp only [List.map_cons, List.sum_cons, List.count_cons, ih, beq_iff_eq]
    omega

/-- an element of the emission order below `r` is `r` itself or an inline child of an element of
that order (counted with multiplicity). -/
theorem count_orderOf (g : TGraph) (x : Nat) : ∀ (f r : Nat), nestOK g false f r = true →
    (orderOf g false f r).count x
      = (if r = x then 1 else 0) + ((orderOf g false f r).map (cnt g x)).sum := by
  intro f
  induction f with
  | zero => intro r h; simp [nestOK] at h
  | succ f ih =>
    intro r h
    obtain ⟨hr, hk⟩ := nestOK_succ g f r h
    rw [orderOf_succ g f r hr]
    have aux : ∀ (ks : List Nat), (∀ k ∈ ks, nestOK g false f k = true) →
        (ks.flatMap (orderOf g false f)).count x
          = ks.count x + ((ks.flatMap (orderOf g false f)).map (cnt g x)).sum := by
      intro ks
      induction ks with
      | nil => intro _; rfl
      | cons k ks ihk =>
        intro hks
        simp only [List.flatMap_cons, List.count_append, List.map_append, List.sum_append,
          List.count_cons, beq_iff_eq]
        rw [ih k (hks k (List.mem_cons_self ..)), ihk (fun j hj => hks j (List.mem_cons_of_mem _ hj))]
        omega
    simp only [List.count_cons, List.map_cons, List.sum_cons, beq_iff_eq]
    rw [aux _ hk]
    simp only [cnt]
    omega

theorem count_flatMap_orderOf (g : TGraph) (x f : Nat) : ∀ (ks : List Nat),
    (∀ k ∈ ks, nestOK g false f k = true) →
    (ks.flatMap (orderOf g false f)).count x
      = ks.count x + ((ks.flatMap (orderOf g false f)).map (cnt g x)).sum := by
  intro ks
  induction ks with
  | nil => intro _; rfl
  | cons k ks ihk =>
    intro hks
    simp only [List.flatMap_cons, List.count_append, List.map_append, List.sum_append,
      List.count_cons, beq_iff_eq]
    rw [count_orderOf g x f k (hks k (List.mem_cons_self ..)),
      ihk (fun j hj => hks j (List.mem_cons_of_mem _ hj))]
    omega

section once
variable (T : Tables) (fold : Str → Str) (g : TGraph) (hwf : graphWf T fold g false = true)
  (hb : bfsOrdered g = true)

include hwf hb in
/-- **every element is written exactly once** (at the top level, or inline at its single use). -/
theorem count_order_eq_one : ∀ x, x < g.elems.length → (order g false).count x = 1 := by
  have hn : ∀ k ∈ roots g false, nestOK g false (g.elems.length + 1) k = true := by
    simpa [nestAllOK] using nestAllOK_of_bfs T fold g hwf hb
  intro x
  induction x using Nat.strongRecOn with
  | ind x ih =>
    intro hx
    have hN : (order g false).count x
        = (roots g false).count x + ((order g false).map (cnt g x)).sum :=
      count_flatMap_orderOf g x (g.elems.length + 1) (roots g false) hn
    by_cases hroot : isRoot g false x = true
    · -- a top-level element is nobody's inline child
      have hz : ((order g false).map (cnt g x)).sum = 0 := by
        apply sum_zero_of
        intro c hc
        obtain ⟨y, _, rfl⟩ := List.mem_map.mp hc
        simp only [cnt]
        apply List.count_eq_zero_of_not_mem
        intro hm
        have := (mem_kidsAt g hm).2
        rw [hroot] at this; cases this
      have hr : (roots g false).count x = 1 := by
        have hnd : (roots g false).Nodup := List.Nodup.filter _ List.nodup_range
        rw [hnd.count, if_pos]
        simp only [roots, List.mem_filter, List.mem_range]; exact ⟨hx, hroot⟩
      omega
    · have hnr : isRoot g false x = false := by simpa using hroot
      have hx0 := (nonroot_count T fold g hwf hnr).1
      -- its parent p < x
      have hbo := hb
      simp only [bfsOrdered, List.all_eq_true, List.mem_range, Bool.or_eq_true, beq_iff_eq,
        List.any_eq_true, List.contains_eq_mem, decide_eq_true_eq] at hbo
      obtain ⟨p, hpx, hxp⟩ : ∃ p, p < x ∧ x ∈ refsAtT g p := by
        rcases hbo x hx with h0 | h
        · exact absurd h0 hx0
        · exact h
      have hpl : p < g.elems.length := by omega
      obtain ⟨hone, hzero⟩ := unique_parent T fold g hwf hnr hpl hxp
      have hr : (roots g false).count x = 0 := by
        apply List.count_eq_zero_of_not_mem
        simp only [roots, List.mem_filter, List.mem_range, not_and]
        intro _; simpa using hnr
      have hc : ∀ y, cnt g x y = if y = p then 1 else 0 := by
        intro y
        simp only [cnt, kidsAt_eq]
        rw [List.count_filter (by simpa using hnr)]
        by_cases hyp : y = p
        · rw [if_pos hyp, hyp, hone]
        · rw [if_neg hyp]
          rcases Nat.lt_or_ge y g.elems.length with hy | hy
          · exact hzero y hy hyp
          · simp [refsAtT, List.getElem?_eq_none hy]
      have hsum : ((order g false).map (cnt g x)).sum = (order g false).count p := by
        rw [show (cnt g x) = fun y => if y = p then 1 else 0 from funext hc, sum_map_ite]
      rw [hN, hr, hsum, ih p hpx hpl]

include hwf in
theorem order_lt {y : Nat} (hy : y ∈ order g false) : y < g.elems.length := by
  simp only [order, List.mem_flatMap] at hy
  obtain ⟨r, hr, hyr⟩ := hy
  have hrl : r < g.elems.length := by
    simp only [roots, List.mem_filter, List.mem_range] at hr; exact hr.1
  have : ∀ (f r : Nat), r < g.elems.length → ∀ y ∈ orderOf g false f r, y < g.elems.length := by
    intro f
    induction f with
    | zero => intro r _ y hy; simp [orderOf] at hy
    | succ f ih =>
      intro r hr y hy
      rw [orderOf_succ g f r hr] at hy
      rcases List.mem_cons.mp hy with rfl | hy
      · exact hr
      · obtain ⟨k, hk, hyk⟩ := List.mem_flatMap.mp hy
        exact ih k (refs_lt T fold g hwf (mem_kidsAt g hk).1) y hyk
  exact this _ r hrl y hyr

include hwf hb in
/-- **`orderOK` derived**: the emission order of the nested layout is a permutation of the
element indices. -/
theorem order_perm : (order g false).Perm (List.range g.elems.length) := by
  rw [List.perm_iff_count]
  intro x
  by_cases hx : x < g.elems.length
  · rw [count_order_eq_one T fold g hwf hb x hx, List.nodup_range.count,
      if_pos (List.mem_range.mpr hx)]
  · rw [List.count_eq_zero_of_not_mem (fun h => hx (order_lt T fold g hwf h)),
      List.count_eq_zero_of_not_mem (fun h => hx (List.mem_range.mp h))]

end once

end C14.Kv2
