import Srctools.Model.C20Vmt
/-! Helper lemmas for the VMT model: `Material.parse` on the tokens `Material.export` denotes. -/
set_option linter.unusedSimpArgs false
namespace C20.Vmt
open C01 (KV)

/-! ## single steps of `_parse_block` -/

theorem pb_nl (f : Nat) (name : List Char) (acc : List KV) (ts : List Tk) (ok : Bool) :
    parseBlock (f + 1) name acc ⟨tNl :: ts, ok⟩ = parseBlock f name acc ⟨ts, ok⟩ := by
  simp [parseBlock, TS.next, tNl, kNl, kClose, kEof]

theorem pb_close (f : Nat) (name : List Char) (acc : List KV) (ts : List Tk) (ok : Bool) :
    parseBlock (f + 1) name acc ⟨tClose :: ts, ok⟩ = some (KV.block name acc, ⟨ts, ok⟩) := by
  simp [parseBlock, TS.next, tClose, kClose]

theorem pb_leaf (f : Nat) (name : List Char) (acc : List KV) (n v : List Char) (ts : List Tk) (ok : Bool) :
    parseBlock (f + 1) name acc ⟨(kStr, n) :: (kStr, v) :: ts, ok⟩
      = parseBlock f name (acc ++ [KV.leaf n v]) ⟨ts, ok⟩ := by
  simp [parseBlock, TS.next, kStr, kNl, kClose, kEof]

theorem pb_head (f : Nat) (name : List Char) (acc : List KV) (n : List Char) (ts : List Tk) (ok : Bool) :
    parseBlock (f + 3) name acc ⟨(kStr, n) :: tNl :: tOpen :: ts, ok⟩
      = (parseBlock (f + 2) n [] ⟨ts, ok⟩).bind fun pb => parseBlock (f + 2) name (acc ++ [pb.1]) pb.2 := by
  simp [parseBlock, TS.next, skipNl, tNl, tOpen, kStr, kNl, kClose, kEof, kOpen]

/-! ## sizes -/

mutual
def sz : KV → Nat
  | KV.leaf _ _ => 3
  | KV.block _ cs => 6 + szl cs
def szl : List KV → Nat
  | [] => 0
  | t :: ts => sz t + szl ts
end

theorem sz_ge (t : KV) : 3 ≤ sz t := by cases t <;> simp [sz]; omega

theorem szl_ge (cs : List KV) : 2 * cs.length ≤ szl cs := by
  induction cs with
  | nil => simp [szl]
  | cons t ts ih => have := sz_ge t; simp [szl]; omega

/-! ## a whole element / list of elements inside a block -/

mutual
theorem pb_elem (t : KV) (f : Nat) (hf : sz t ≤ f + 2) (name : List Char) (acc : List KV) (rest : List Tk)
    (ok : Bool) :
    parseBlock (f + 2) name acc ⟨toksBlock t ++ rest, ok⟩ = parseBlock f name (acc ++ [t]) ⟨rest, ok⟩ := by
  match t with
  | KV.leaf n v =>
    simp only [toksBlock, List.cons_append, List.nil_append]
    rw [pb_leaf, pb_nl]
  | KV.block n cs =>
    simp only [sz] at hf
    have h2 := szl_ge cs
    -- f + 2 = g + 3
    obtain ⟨g, rfl⟩ : ∃ g, f = g + 1 := ⟨f - 1, by omega⟩
    simp only [toksBlock, List.cons_append, List.append_assoc]
    rw [show g + 1 + 2 = g + 3 from rfl, pb_head]
    -- inside: NL, the children, the closing brace
    obtain ⟨k, hk⟩ : ∃ k, g + 1 = (k + 1) + 2 * cs.length := ⟨g - 2 * cs.length, by omega⟩
    rw [show g + 2 = (g + 1) + 1 from rfl, pb_nl, hk, pb_list cs (k + 1) (by omega), pb_close]
    simp only [Option.bind_some, List.nil_append]
    rw [← hk, show g + 1 + 1 = (g + 1) + 1 from rfl, pb_nl]
theorem pb_list (cs : List KV) (f : Nat) (hf : szl cs ≤ f + 2 * cs.length) (name : List Char) (acc : List KV)
    (rest : List Tk) (ok : Bool) :
    parseBlock (f + 2 * cs.length) name acc ⟨toksBlocks cs ++ rest, ok⟩
      = parseBlock f name (acc ++ cs) ⟨rest, ok⟩ := by
  match cs with
  | [] => simp [toksBlocks]
  | c :: cs =>
    simp only [szl, List.length_cons] at hf
    have h3 := sz_ge c
    simp only [toksBlocks, List.length_cons, List.append_assoc]
    rw [show f + 2 * (cs.length + 1) = (f + 2 * cs.length) + 2 from by omega,
      pb_elem c (f + 2 * cs.length) (by omega), pb_list cs f (by omega)]
    simp
end


/-- the body of a block after its opening brace: newline, children, closing brace. -/
theorem pb_body (cs : List KV) (g : Nat) (hg : szl cs + 2 ≤ g) (n : List Char) (rest : List Tk) (ok : Bool) :
    parseBlock g n [] ⟨tNl :: (toksBlocks cs ++ tClose :: rest), ok⟩ = some (KV.block n cs, ⟨rest, ok⟩) := by
  have h2 := szl_ge cs
  obtain ⟨k, hk⟩ : ∃ k, g = ((k + 1) + 2 * cs.length) + 1 := ⟨g - 2 - 2 * cs.length, by omega⟩
  rw [hk, pb_nl, pb_list cs (k + 1) (by omega), pb_close]
  simp

/-! ## single steps of the parameter loop -/

section loop
variable (fold : Char → List Char)

theorem pl_nl (f : Nat) (m : Vmt) (ts : List Tk) (ok : Bool) :
    paramLoop fold (f + 1) m ⟨tNl :: ts, ok⟩ = paramLoop fold f m ⟨ts, ok⟩ := by
  rw [paramLoop]
  simp [TS.next, tNl, kNl, kClose, kEof]

theorem pl_param (f : Nat) (m : Vmt) (n v : List Char) (ts : List Tk) (ok : Bool) :
    paramLoop fold (f + 1) m ⟨(kStr, n) :: (kStr, v) :: ts, ok⟩
      = paramLoop fold f { m with params := setParam fold m.params n v } ⟨ts, ok⟩ := by
  rw [paramLoop]
  simp [TS.next, kStr, kNl, kClose, kEof, kFlag]

theorem pl_end (f : Nat) (m : Vmt) :
    paramLoop fold (f + 3) m ⟨[tClose, tNl, (kEof, [])], true⟩ = some m := by
  simp [paramLoop, TS.next, expectEof, skipNl, tClose, tNl, kStr, kNl, kClose, kEof, kFlag]

theorem pl_block (f : Nat) (m : Vmt) (n : List Char) (ts : List Tk) (ok : Bool)
    (hn : (foldStr fold n == kProxiesFolded) = false) :
    paramLoop fold (f + 3) m ⟨(kStr, n) :: tNl :: tOpen :: ts, ok⟩
      = (parseBlock (f + 2) n [] ⟨ts, ok⟩).bind fun pb =>
          paramLoop fold (f + 2) { m with blocks := m.blocks ++ [pb.1] } pb.2 := by
  have hn' : ¬ foldStr fold n = kProxiesFolded := by simpa using hn
  rw [paramLoop]
  simp [TS.next, skipNl, tNl, tOpen, kStr, kNl, kClose, kEof, kOpen, kFlag, hn']

theorem pl_proxies (f : Nat) (m : Vmt) (ts : List Tk) (ok : Bool)
    (hp : foldStr fold kProxies = kProxiesFolded) :
    paramLoop fold (f + 3) m ⟨(kStr, kProxies) :: tNl :: tOpen :: ts, ok⟩
      = (parseBlock (f + 2) kProxy [] ⟨ts, ok⟩).bind fun pb =>
          match pb.1 with
          | KV.block _ cs => paramLoop fold (f + 2) { m with proxies := m.proxies ++ cs } pb.2
          | KV.leaf .. => none := by
  rw [paramLoop]
  simp [TS.next, skipNl, tNl, tOpen, kStr, kNl, kClose, kEof, kOpen, kFlag, hp]
  rfl

theorem setParam_new (ps : List (List Char × List Char)) (n v : List Char)
    (h : ∀ p ∈ ps, foldStr fold p.1 ≠ foldStr fold n) : setParam fold ps n v = ps ++ [(n, v)] := by
  unfold setParam
  have : ps.any (fun p => foldStr fold p.1 == foldStr fold n) = false := by
    simp only [List.any_eq_false, beq_iff_eq]
    intro p hp; exact h p hp
  simp [this]

/-- the parameters: names pairwise distinct after case folding. -/
def distinctFold (ps : List (List Char × List Char)) : Prop :=
  (ps.map fun p => foldStr fold p.1).Pairwise (· ≠ ·)

theorem pl_params (ps : List (List Char × List Char)) (f : Nat) (m : Vmt) (rest : List Tk) (ok : Bool)
    (hd : distinctFold fold (m.params ++ ps)) :
    paramLoop fold (f + 2 * ps.length) m ⟨toksParams ps ++ rest, ok⟩
      = paramLoop fold f { m with params := m.params ++ ps } ⟨rest, ok⟩ := by
  induction ps generalizing m with
  | nil => simp [toksParams]
  | cons p ps ih =>
    obtain ⟨n, v⟩ := p
    simp only [toksParams, List.length_cons, List.cons_append]
    rw [show f + 2 * (ps.length + 1) = ((f + 2 * ps.length) + 1) + 1 from by omega, pl_param, pl_nl]
    have hnew : ∀ q ∈ m.params, foldStr fold q.1 ≠ foldStr fold n := by
      intro q hq
      unfold distinctFold at hd
      rw [List.map_append, List.pairwise_append] at hd
      exact hd.2.2 _ (List.mem_map_of_mem hq) _ (by simp)
    rw [setParam_new fold m.params n v hnew]
    have := ih { m with params := m.params ++ [(n, v)] } (by simpa [distinctFold] using hd)
    simpa using this

/-- top-level sub-blocks: really blocks, and not named `Proxies`. -/
def blockOK : KV → Prop
  | KV.block n _ => (foldStr fold n == kProxiesFolded) = false
  | KV.leaf .. => False

instance : (b : KV) → Decidable (blockOK fold b)
  | KV.block _ _ => by unfold blockOK; infer_instance
  | KV.leaf _ _ => isFalse (fun h => h)

theorem pl_blocks (bs : List KV) (hb : ∀ b ∈ bs, blockOK fold b) (f : Nat) (hf : szl bs ≤ f + 2 * bs.length)
    (m : Vmt) (rest : List Tk) (ok : Bool) :
    paramLoop fold (f + 2 * bs.length) m ⟨toksBlocks bs ++ rest, ok⟩
      = paramLoop fold f { m with blocks := m.blocks ++ bs } ⟨rest, ok⟩ := by
  induction bs generalizing m with
  | nil => simp [toksBlocks]
  | cons b bs ih =>
    have hb0 := hb b (by simp)
    match b, hb0 with
    | KV.block n cs, hn =>
      simp only [szl, sz, List.length_cons] at hf
      have h2 := szl_ge bs
      simp only [toksBlocks, toksBlock, List.length_cons, List.cons_append, List.append_assoc]
      obtain ⟨g, hg⟩ : ∃ g, f + 2 * (bs.length + 1) = g + 3 := ⟨f + 2 * bs.length - 1, by omega⟩
      rw [hg, pl_block fold g m n _ ok hn, pb_body cs (g + 2) (by omega)]
      simp only [Option.bind_some, List.nil_append]
      rw [show g + 2 = (f + 2 * bs.length) + 1 from by omega, pl_nl,
        ih (fun x hx => hb x (by simp [hx])) (by omega)]
      simp

end loop

/-- Representable material: a non-empty shader name, parameter names distinct after case folding,
sub-blocks that are blocks not called `Proxies`; `Proxies` folds to `proxies`. -/
structure VmtOK (fold : Char → List Char) (m : Vmt) : Prop where
  shader : m.shader ≠ []
  names : distinctFold fold m.params
  blocks : ∀ b ∈ m.blocks, blockOK fold b
  fold : foldStr fold kProxies = kProxiesFolded

theorem toksParams_length (ps : List (List Char × List Char)) : (toksParams ps).length = 3 * ps.length := by
  induction ps with
  | nil => rfl
  | cons p ps ih => obtain ⟨n, v⟩ := p; simp [toksParams, ih]; omega

mutual
theorem toksBlock_length (t : KV) : (toksBlock t).length = sz t := by
  match t with
  | KV.leaf _ _ => simp [toksBlock, sz]
  | KV.block _ cs => simp [toksBlock, sz, toksBlocks_length cs]; omega
theorem toksBlocks_length (ts : List KV) : (toksBlocks ts).length = szl ts := by
  match ts with
  | [] => simp [toksBlocks, szl]
  | t :: ts => simp [toksBlocks, szl, toksBlock_length t, toksBlocks_length ts]
end

/-- **Parser on the denoted tokens.** -/
theorem parseVmt_toks (fold : Char → List Char) (m : Vmt) (h : VmtOK fold m) :
    parseVmt fold (toksVmt m) true = some m := by
  obtain ⟨hsh, hnames, hblocks, hfold⟩ := h
  obtain ⟨shader, params, blocks, proxies⟩ := m
  simp only at hsh hnames hblocks
  have hL : (toksVmt ⟨shader, params, blocks, proxies⟩).length =
      7 + 3 * params.length + szl blocks + (if proxies.isEmpty then 0 else 7 + szl proxies) := by
    unfold toksVmt
    by_cases hp : proxies.isEmpty <;>
      simp [hp, toksParams_length, toksBlocks_length] <;> omega
  have hb2 := szl_ge blocks
  have hp2 := szl_ge proxies
  unfold parseVmt
  rw [hL]
  generalize hF : 7 + 3 * params.length + szl blocks + (if proxies.isEmpty then 0 else 7 + szl proxies) + 2 = F
  unfold toksVmt
  obtain ⟨F1, hF1⟩ : ∃ F1, F = F1 + 2 := ⟨F - 2, by omega⟩
  simp only [TS.next, hF1, skipNl, kStr, kNl, kOpen, tNl, tOpen, hsh, List.cons_append]
  simp only [Option.bind_some, show ((1 : Nat) = 2) = False by decide, if_false, ne_eq, not_true_eq_false,
    false_or, show ((6 : Nat) = 2) = False by decide, show ¬ ((6 : Nat) ≠ 6) by decide]
  simp only [hsh, if_false, if_true, Option.bind_some, not_true_eq_false]
  have hd0 : distinctFold fold (([] : List (List Char × List Char)) ++ params) := by simpa using hnames
  by_cases hp : proxies.isEmpty = true
  · have hpx : proxies = [] := by simpa using hp
    subst hpx
    simp only [List.isEmpty_nil, if_true] at hF ⊢
    change paramLoop fold (F1 + 2) _ ⟨tNl :: (toksParams params ++ (toksBlocks blocks ++ ([] ++ [tClose, tNl, (kEof, [])]))), true⟩ = _
    obtain ⟨A, hA⟩ : ∃ A, F1 + 1 = A + 2 * params.length := ⟨F1 + 1 - 2 * params.length, by omega⟩
    obtain ⟨B, hB⟩ : ∃ B, A = B + 2 * blocks.length := ⟨A - 2 * blocks.length, by omega⟩
    obtain ⟨C, hC⟩ : ∃ C, B = C + 3 := ⟨B - 3, by omega⟩
    rw [show F1 + 2 = (F1 + 1) + 1 from rfl, pl_nl, hA, pl_params fold params A _ _ true hd0, hB,
      pl_blocks fold blocks hblocks B (by omega), hC]
    simp only [List.nil_append]
    rw [pl_end]
  · have hpf : proxies.isEmpty = false := by simpa using hp
    simp only [hpf, Bool.false_eq_true, if_false] at hF ⊢
    change paramLoop fold (F1 + 2) _ ⟨tNl :: (toksParams params ++ (toksBlocks blocks ++
      ((tNl :: (kStr, kProxies) :: tNl :: tOpen :: tNl :: (toksBlocks proxies ++ [tClose, tNl])) ++
        [tClose, tNl, (kEof, [])]))), true⟩ = _
    obtain ⟨A, hA⟩ : ∃ A, F1 + 1 = A + 2 * params.length := ⟨F1 + 1 - 2 * params.length, by omega⟩
    obtain ⟨B, hB⟩ : ∃ B, A = B + 2 * blocks.length := ⟨A - 2 * blocks.length, by omega⟩
    obtain ⟨g, hg⟩ : ∃ g, B = (g + 3) + 1 := ⟨B - 4, by omega⟩
    obtain ⟨c, hc⟩ : ∃ c, g + 1 = c + 3 := ⟨g - 2, by omega⟩
    rw [show F1 + 2 = (F1 + 1) + 1 from rfl, pl_nl, hA, pl_params fold params A _ _ true hd0, hB,
      pl_blocks fold blocks hblocks B (by omega)]
    simp only [List.cons_append, List.append_assoc, List.nil_append]
    rw [hg, pl_nl, pl_proxies fold g _ _ true hfold, pb_body proxies (g + 2) (by omega)]
    simp only [Option.bind_some, List.nil_append]
    rw [show g + 2 = (g + 1) + 1 from rfl, pl_nl, hc, pl_end]

end C20.Vmt
