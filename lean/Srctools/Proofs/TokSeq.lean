import Srctools.Proofs.Tok
/-!
# A whole line of quoted, escaped strings tokenizes back to exactly those strings

`C02_inverse` is the law for one string at one token boundary.  This file lifts it to the form the
writers actually emit: any number of strings, each preceded by any amount of blank padding
(spaces / tabs — `"\t\"key\" \"value\""` is the VMF / KeyValues line), with no bound on the number
of strings, their lengths or the padding.  Helper lemmas only; the property statement is
`C02_sequence` in Props/C02.lean.
-/
namespace Tok

/-- Blank padding: only spaces and tabs. -/
def isBlank (ws : List Char) : Bool := ws.all (fun c => c == ' ' || c == '\t')

/-- Space and tab are not operator characters of the table. -/
def wsOK (T : Tables) : Bool := (T.operator ' ').isNone && (T.operator '\t').isNone

/-- The text of a line: for each `(padding, s)`, the padding, a quote, `escape_text(s)`, a quote. -/
def quotedSeq (T : Tables) (ml : Bool) : List (List Char × List Char) → List Char
  | [] => []
  | (ws, s) :: rest => ws ++ '"' :: (escapeText T ml s ++ '"' :: quotedSeq T ml rest)

/-- The expected observations: one STRING token per element (the line counter advancing by the raw
line feeds of its escaped text), then EOF. -/
def seqObs (T : Tables) (ml : Bool) : Nat → List (List Char × List Char) → List Obs
  | line, [] => [⟨Kind.eof.code, [], line⟩]
  | line, (_, s) :: rest =>
    ⟨Kind.string.code, s, line + (escapeText T ml s).count '\n'⟩
      :: seqObs T ml (line + (escapeText T ml s).count '\n') rest

/-- One quoted escaped string at a token boundary (the statement of `C02_inverse`, kept here so the
lemmas below do not depend on the property file). -/
theorem C02_inverse_aux (T : Tables) (h : escOK T = true) (o : Opts) (ho : o.allowEscapes = true)
    (fold : Char → List Char) (ml : Bool) (s rest : List Char) (st : St) (fuel : Nat) :
    nextToken T o fold (fuel + 1) st ('"' :: (escapeText T ml s ++ '"' :: rest))
      = .tok .string s
          { line := st.line + (escapeText T ml s).count '\n', lastCr := false } rest := by
  have F := escFacts h
  rw [nextToken]
  simp only [F.quoteNoOp]
  have e1 : ('"' : Char) ≠ '\r' := by decide
  have e2 : ('"' : Char) ≠ '\n' := by decide
  have e3 : ¬ (('"' : Char) = ' ' ∨ ('"' : Char) = '\t') := by decide
  have e4 : ('"' : Char) ≠ '/' := by decide
  simp only [e1, e2, e3, e4, if_false, ho, if_true]
  rw [handleString_escapeText F]
  simp

theorem nextToken_skip_blank (T : Tables) (o : Opts) (fold : Char → List Char) (c : Char)
    (hc : c = ' ' ∨ c = '\t') (hop : T.operator c = none) (fuel : Nat) (st : St) (cs : List Char) :
    nextToken T o fold (fuel + 1) st (c :: cs)
      = nextToken T o fold fuel { st with lastCr := false } cs := by
  rw [nextToken]
  simp only [hop]
  have e1 : c ≠ '\r' := by rcases hc with rfl | rfl <;> decide
  have e2 : c ≠ '\n' := by rcases hc with rfl | rfl <;> decide
  simp only [e1, e2, if_false, hc, if_true]

/-- Padding, then a quoted escaped string: read back as that string, whatever follows. -/
theorem nextToken_padded (T : Tables) (h : escOK T = true) (hw : wsOK T = true) (o : Opts)
    (ho : o.allowEscapes = true) (fold : Char → List Char) (ml : Bool) (s rest : List Char) :
    ∀ (ws : List Char), isBlank ws = true → ∀ (st : St) (fuel : Nat), ws.length < fuel →
    nextToken T o fold fuel st (ws ++ '"' :: (escapeText T ml s ++ '"' :: rest))
      = .tok .string s
          { line := st.line + (escapeText T ml s).count '\n', lastCr := false } rest := by
  intro ws
  induction ws with
  | nil =>
    intro _ st fuel hf
    obtain ⟨f, rfl⟩ : ∃ f, fuel = f + 1 := ⟨fuel - 1, by simp at hf; omega⟩
    simpa using C02_inverse_aux T h o ho fold ml s rest st f
  | cons c cs ih =>
    intro hb st fuel hf
    simp only [isBlank, List.all_cons, Bool.and_eq_true, Bool.or_eq_true, beq_iff_eq] at hb
    obtain ⟨f, rfl⟩ : ∃ f, fuel = f + 1 := ⟨fuel - 1, by simp at hf; omega⟩
    have hop : T.operator c = none := by
      simp only [wsOK, Bool.and_eq_true, Option.isNone_iff_eq_none] at hw
      rcases hb.1 with rfl | rfl
      · exact hw.1
      · exact hw.2
    rw [List.cons_append, nextToken_skip_blank T o fold c hb.1 hop]
    have := ih (by simpa [isBlank] using hb.2) { st with lastCr := false } f
      (by simp at hf; omega)
    simpa using this

theorem runAux_quotedSeq (T : Tables) (h : escOK T = true) (hw : wsOK T = true) (o : Opts)
    (ho : o.allowEscapes = true) (fold : Char → List Char) (ml : Bool) :
    ∀ (items : List (List Char × List Char)), (∀ p ∈ items, isBlank p.1 = true) →
    ∀ (n : Nat) (st : St) (acc : List Obs), items.length < n →
    runAux T o fold n st (quotedSeq T ml items) acc
      = { toks := acc.reverse ++ seqObs T ml st.line items, err := none } := by
  intro items
  induction items with
  | nil =>
    intro _ n st acc hn
    obtain ⟨m, rfl⟩ : ∃ m, n = m + 1 := ⟨n - 1, by simp at hn; omega⟩
    simp [quotedSeq, seqObs, runAux, nextToken, Kind.code]
  | cons p ps ih =>
    intro hb n st acc hn
    obtain ⟨ws, s⟩ := p
    obtain ⟨m, rfl⟩ : ∃ m, n = m + 1 := ⟨n - 1, by simp at hn; omega⟩
    have hws : isBlank ws = true := hb (ws, s) (by simp)
    rw [quotedSeq, runAux,
      nextToken_padded T h hw o ho fold ml s _ ws hws st _ (by simp; omega)]
    simp only [reduceCtorEq, if_false]
    rw [ih (fun q hq => hb q (by simp [hq])) m _ _ (by simp at hn; omega)]
    simp [seqObs]

end Tok
