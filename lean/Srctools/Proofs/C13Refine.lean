import Srctools.Proofs.C13Tree
import Srctools.Model.C13Spec
/-! Helper lemmas for C13, part 4: the simulation relation between the model and the specification. -/
namespace C13

/-- the archive part of an entry lies inside the file it points to -/
def InfoValid (archs : List (Nat × Bytes)) (footer : Bytes) (i : Info) : Prop :=
  i.archLen ≠ 0 → match i.archIndex with
    | none => i.offset + i.archLen ≤ footer.length
    | some j => ∃ b, archGet archs j = some b ∧ i.offset + i.archLen ≤ b.length

/-- every file of the tree reads back the bytes the specification holds, with the right checksum -/
def Agree (crc : Bytes → Nat) (archs : List (Nat × Bytes)) (footer : Bytes) (t : Tree) (m : KMap) : Prop :=
  ∀ k, match t.lookup k with
    | none => m k = none
    | some i => InfoValid archs footer i ∧ ∃ d, readInfo archs footer i = .ok d ∧ m k = some d ∧ i.crc = crc d

/-- numbered archives only ever grow at the end -/
def Extends (a a' : List (Nat × Bytes)) : Prop :=
  ∀ j b, archGet a j = some b → ∃ x, archGet a' j = some (b ++ x)

theorem extends_refl (a : List (Nat × Bytes)) : Extends a a := fun j b h => ⟨[], by simpa using h⟩

theorem valid_mono {a a' : List (Nat × Bytes)} {f : Bytes} {i : Info} (x : Bytes)
    (hv : InfoValid a f i) (he : Extends a a') :
    InfoValid a' (f ++ x) i ∧ readInfo a' (f ++ x) i = readInfo a f i := by
  unfold InfoValid readInfo at *
  by_cases hl : i.archLen = 0
  · simp [hl]
  · have hv := hv hl
    simp only [hl, ne_eq, not_false_eq_true, if_true, forall_const]
    cases hi : i.archIndex with
    | none =>
      simp only [hi] at hv ⊢
      refine ⟨by simp; omega, ?_⟩
      rw [slice_append_left _ _ _ _ hv]
    | some j =>
      simp only [hi] at hv ⊢
      obtain ⟨b, hb, hle⟩ := hv
      obtain ⟨y, hy⟩ := he j b hb
      refine ⟨⟨b ++ y, hy, by simp; omega⟩, ?_⟩
      simp only [hb, hy]
      rw [slice_append_left _ _ _ _ hle]

theorem agree_mono {crc : Bytes → Nat} {a a' : List (Nat × Bytes)} {f : Bytes} {t : Tree} {m : KMap} (x : Bytes)
    (h : Agree crc a f t m) (he : Extends a a') : Agree crc a' (f ++ x) t m := by
  intro k
  have hk := h k
  cases hl : t.lookup k with
  | none => simpa [hl] using hk
  | some i =>
    simp only [hl] at hk ⊢
    obtain ⟨hv, d, hr, hm, hc⟩ := hk
    have := valid_mono x hv he
    exact ⟨this.1, d, by rw [this.2]; exact hr, hm, hc⟩

theorem agree_mono' {crc : Bytes → Nat} {a a' : List (Nat × Bytes)} {f : Bytes} {t : Tree} {m : KMap}
    (h : Agree crc a f t m) (he : Extends a a') : Agree crc a' f t m := by
  have := agree_mono [] h he
  simpa using this

theorem agree_put {crc : Bytes → Nat} {a : List (Nat × Bytes)} {f : Bytes} {t : Tree} {m : KMap} {k : Key} {i : Info}
    {d : Bytes} (h : Agree crc a f t m) (hv : InfoValid a f i) (hr : readInfo a f i = .ok d) (hc : i.crc = crc d) :
    Agree crc a f (t.put k i) (m.update k (some d)) := by
  intro k'
  rw [lookup_put]
  unfold KMap.update
  by_cases hk : k = k'
  · simp only [hk, if_true]
    exact ⟨hv, d, hr, rfl, hc⟩
  · simp only [hk, if_false]
    exact h k'

theorem agree_del {crc : Bytes → Nat} {a : List (Nat × Bytes)} {f : Bytes} {t : Tree} {m : KMap} (k : Key)
    (hw : TreeWF t) (h : Agree crc a f t m) : Agree crc a f (t.del k) (m.update k none) := by
  intro k'
  rw [lookup_del hw]
  unfold KMap.update
  by_cases hk : k = k'
  · simp [hk]
  · simp only [hk, if_false]
    exact h k'

theorem agree_raw {crc : Bytes → Nat} {a : List (Nat × Bytes)} {f : Bytes} {t : Tree} {m : KMap}
    (hw : TreeWF t) (h : Agree crc a f t m) : Agree crc a f (rawTree t) m := by
  intro k
  rw [lookup_rawTree hw]
  exact h k

theorem agree_empty (crc : Bytes → Nat) (a : List (Nat × Bytes)) (f : Bytes) : Agree crc a f [] KMap.empty := by
  intro k; simp [Tree.lookup, AList.find, KMap.empty]

theorem agree_some {crc : Bytes → Nat} {a : List (Nat × Bytes)} {f : Bytes} {t : Tree} {m : KMap} (h : Agree crc a f t m)
    (k : Key) : (t.lookup k).isSome = (m k).isSome := by
  have := h k
  cases hl : t.lookup k with
  | none => simp [hl] at this; simp [this]
  | some i =>
    simp only [hl] at this
    obtain ⟨_, d, _, hm, _⟩ := this
    simp [hm]

/-! ## `FileInfo.write` keeps everything valid -/

theorem extends_archSet (a : List (Nat × Bytes)) (j : Nat) (x : Bytes) :
    Extends a (archSet a j ((archGet a j).getD [] ++ x)) := by
  intro k b hb
  by_cases hk : k = j
  · subst hk
    exact ⟨x, by rw [archGet_archSet_same, hb]; rfl⟩
  · exact ⟨[], by rw [archGet_archSet_other _ _ _ _ hk, hb]; simp⟩

theorem placeData_facts (crc : Bytes → Nat) (single : Bool) (lim : Option Nat) (a : List (Nat × Bytes)) (f : Bytes)
    (data : Bytes) (idx : Option Nat) (hidx : idxOK idx = true) :
    infoNorm (placeData crc single lim a f data idx).info = true
    ∧ InfoValid (placeData crc single lim a f data idx).archs (placeData crc single lim a f data idx).footer
        (placeData crc single lim a f data idx).info
    ∧ Extends a (placeData crc single lim a f data idx).archs
    ∧ ∃ x, (placeData crc single lim a f data idx).footer = f ++ x := by
  unfold placeData
  simp only
  split
  · rename_i hlen
    split
    · refine ⟨?_, ?_, extends_refl a, ⟨_, rfl⟩⟩
      · simp only [infoNorm, Bool.and_eq_true, bne_iff_ne, ne_eq, Bool.or_eq_true, beq_iff_eq]
        exact ⟨by simp, Or.inl hlen⟩
      · intro _; simp
    · rename_i j hj
      refine ⟨?_, ?_, extends_archSet a j _, ⟨[], by simp⟩⟩
      · have hj' : j ≠ DIR_ARCH_INDEX := by
          intro e
          by_cases hs : single = true
          · simp [hs] at hj
          · simp only [hs, if_false] at hj
            subst hj; subst e
            simp [idxOK] at hidx
        simp only [infoNorm, Bool.and_eq_true, bne_iff_ne, ne_eq, Option.some.injEq, Bool.or_eq_true, beq_iff_eq]
        exact ⟨hj', Or.inl hlen⟩
      · intro _
        exact ⟨_, archGet_archSet_same _ _ _, by simp⟩
  · refine ⟨by simp [infoNorm], ?_, extends_refl a, ⟨[], by simp⟩⟩
    intro h; exact absurd rfl h

theorem writeInfo_facts (crc : Bytes → Nat) (single : Bool) (lim : Option Nat) (a : List (Nat × Bytes)) (f : Bytes)
    (i : Info) (data : Bytes) (idx : Option Nat) (hidx : idxOK idx = true) (hn : infoNorm i = true)
    (hv : InfoValid a f i) :
    ∃ wr, writeInfo crc single lim a f i data idx = .ok wr
      ∧ infoNorm wr.info = true ∧ InfoValid wr.archs wr.footer wr.info
      ∧ readInfo wr.archs wr.footer wr.info = .ok data ∧ wr.info.crc = crc data
      ∧ Extends a wr.archs ∧ ∃ x, wr.footer = f ++ x := by
  have hread : ∃ d, readInfo a f i = .ok d := by
    unfold readInfo
    by_cases hl : i.archLen = 0
    · simp [hl]
    · have := hv hl
      simp only [hl, ne_eq, not_false_eq_true, if_true]
      cases hi : i.archIndex with
      | none => exact ⟨_, rfl⟩
      | some j =>
        simp only [hi] at this
        obtain ⟨b, hb, _⟩ := this
        simp [hb]
  obtain ⟨d0, hd0⟩ := hread
  unfold writeInfo
  cases hs : sameData crc a f i data with
  | error e =>
    unfold sameData at hs
    split at hs
    · simp [hd0] at hs
    · simp at hs
  | ok b =>
    cases b with
    | true =>
      have := sameData_true crc a f i data hs
      exact ⟨⟨i, f, a⟩, rfl, hn, hv, this.1, this.2, extends_refl a, ⟨[], by simp⟩⟩
    | false =>
      have h1 := placeData_facts crc single lim a f data idx hidx
      have h2 := readInfo_placeData crc single lim a f data idx
      exact ⟨_, rfl, h1.1, h1.2.1, h2.1, h2.2, h1.2.2.1, h1.2.2.2⟩

/-! ## the simulation relation -/

def DiskRel (crc : Bytes → Nat) (dirFile : Option Bytes) (archs : List (Nat × Bytes)) : Option (Option KMap) → Prop
  | none => dirFile = none
  | some none => dirFile = some []
  | some (some m) => ∃ t f, dirFile = some (encodeDir 1 t f) ∧ TreeWF t ∧ t.fits = true ∧ Agree crc archs f t m

def CurRel (crc : Bytes → Nat) (vpk : Option Vpk) (archs : List (Nat × Bytes)) : Option (Mode × KMap) → Prop
  | none => vpk = none
  | some (mode, m) => ∃ v, vpk = some v ∧ v.mode = mode ∧ v.version = 1 ∧ TreeWF v.tree
      ∧ Agree crc archs v.footer v.tree m

/-- model state `w` implements specification state `s` -/
def R (crc : Bytes → Nat) (w : World) (s : Spec) : Prop :=
  DiskRel crc w.dirFile w.archs s.disk ∧ CurRel crc w.vpk w.archs s.cur

theorem diskRel_mono {crc : Bytes → Nat} {df : Option Bytes} {a a' : List (Nat × Bytes)} {sd : Option (Option KMap)}
    (h : DiskRel crc df a sd) (he : Extends a a') : DiskRel crc df a' sd := by
  match sd, h with
  | none, h => exact h
  | some none, h => exact h
  | some (some m), ⟨t, f, h1, h2, h3, h4⟩ => exact ⟨t, f, h1, h2, h3, agree_mono' h4 he⟩

theorem strOK_of (s : Str) (h1 : isAsciiStr s = true) (h2 : partOK s = true) : strOK s = true := by
  simp only [isAsciiStr, List.all_eq_true, Bool.or_eq_true, decide_eq_true_eq, Bool.and_eq_true] at h1
  simp only [partOK, Bool.and_eq_true, Bool.not_eq_eq_eq_not, Bool.not_true, bne_iff_ne, ne_eq] at h2
  simp only [strOK, charOK, Bool.and_eq_true, List.all_eq_true, bne_iff_ne, ne_eq, Bool.or_eq_true, decide_eq_true_eq]
  refine ⟨fun c hc => ⟨?_, h1 c hc⟩, h2.2⟩
  intro e; subst e
  have : List.contains s 0 = true := by simp [hc]
  rw [this] at h2; exact absurd h2.1 (by simp)

theorem keyOK_of (k : Key) (h1 : keyAscii k = true) (h2 : nameClass k = true) : keyOK k = true := by
  simp only [keyAscii, Bool.and_eq_true] at h1
  simp only [nameClass, Bool.and_eq_true] at h2
  simp only [keyOK, Bool.and_eq_true]
  exact ⟨⟨strOK_of _ h1.1.1 h2.1.1, strOK_of _ h1.1.2 h2.1.2⟩, strOK_of _ h1.2 h2.2⟩

theorem infoNorm_empty (crc : Bytes → Nat) : infoNorm (emptyInfo crc) = true := by simp [infoNorm, emptyInfo]
theorem infoValid_empty (crc : Bytes → Nat) (a : List (Nat × Bytes)) (f : Bytes) : InfoValid a f (emptyInfo crc) := by
  intro h; exact absurd rfl h
theorem readInfo_empty (crc : Bytes → Nat) (a : List (Nat × Bytes)) (f : Bytes) : readInfo a f (emptyInfo crc) = .ok [] := by
  simp [readInfo, emptyInfo]

theorem decodeDir_nil : decodeDir [] = .error .struct := by simp [decodeDir]

theorem infoNorm_of_lookup {t : Tree} (h : TreeWF t) {k : Key} {i : Info} (hl : t.lookup k = some i) : infoNorm i = true := by
  rw [lookup_bind] at hl
  cases h1 : AList.find k.ext t with
  | none => simp [h1] at hl
  | some ds =>
    have w1 := h.2 _ (find_some_mem h1)
    simp only [h1, Option.bind_some] at hl
    cases h2 : AList.find k.dir ds with
    | none => simp [h2] at hl
    | some fs =>
      have w2 := w1.2.2 _ (find_some_mem h2)
      simp only [h2, Option.bind_some] at hl
      exact (w2.2.2 _ (find_some_mem hl)).2

theorem open_refines (crc : Bytes → Nat) {w : World} {s : Spec} (hR : R crc w s) (mode : Mode) (limit : Option Nat) :
    (openStep w mode limit).2 = (specStep s (.openVpk mode limit)).2
    ∧ R crc (openStep w mode limit).1 (specStep s (.openVpk mode limit)).1 := by
  have hblank : ∀ m : Mode, CurRel crc (some (blankVpk m limit)) w.archs (some (m, KMap.empty)) :=
    fun m => ⟨_, rfl, rfl, rfl, treeWF_nil, agree_empty crc _ _⟩
  obtain ⟨hd, hc⟩ := hR
  cases mode with
  | w => exact ⟨rfl, rfl, hblank .w⟩
  | r =>
    match hs : s.disk, hd with
    | none, hd =>
      simp only [DiskRel] at hd
      simp only [openStep, specStep, hd, hs, reduceCtorEq, if_false]
      exact ⟨trivial, rfl, rfl⟩
    | some none, hd =>
      simp only [DiskRel] at hd
      simp only [openStep, specStep, hd, hs, decodeDir_nil]
      exact ⟨trivial, rfl, rfl⟩
    | some (some m), ⟨t, f, h1, h2, h3, h4⟩ =>
      simp only [openStep, specStep, h1, hs, decodeDir_encodeDir t f h2 h3]
      refine ⟨trivial, ⟨t, f, rfl, h2, h3, h4⟩, ?_⟩
      exact ⟨_, rfl, rfl, rfl, treeWF_rawTree h2, agree_raw h2 h4⟩
  | a =>
    match hs : s.disk, hd with
    | none, hd =>
      simp only [DiskRel] at hd
      simp only [openStep, specStep, hd, hs, if_true]
      exact ⟨trivial, rfl, hblank .a⟩
    | some none, hd =>
      simp only [DiskRel] at hd
      simp only [openStep, specStep, hd, hs, decodeDir_nil]
      exact ⟨trivial, rfl, rfl⟩
    | some (some m), ⟨t, f, h1, h2, h3, h4⟩ =>
      simp only [openStep, specStep, h1, hs, decodeDir_encodeDir t f h2 h3]
      refine ⟨trivial, ⟨t, f, rfl, h2, h3, h4⟩, ?_⟩
      exact ⟨_, rfl, rfl, rfl, treeWF_rawTree h2, agree_raw h2 h4⟩

theorem newFileTree_eq {crc : Bytes → Nat} {a : List (Nat × Bytes)} {f : Bytes} {t : Tree} {m : KMap}
    (hA : Agree crc a f t m) (k : Key) :
    newFileTree crc t k = if ¬ keyAscii k then .error .nonascii else
      if (m k).isSome then .error .exists else .ok (t.put k (emptyInfo crc)) := by
  unfold newFileTree
  have hs := agree_some hA k
  by_cases ha : keyAscii k = true
  · simp only [ha, not_true_eq_false, if_false]
    cases hl : t.lookup k with
    | none => rw [hl] at hs; simp at hs; simp [hs]
    | some i => rw [hl] at hs; simp at hs; simp [← hs]
  · simp [ha]

theorem agree_put2 {crc : Bytes → Nat} {a : List (Nat × Bytes)} {f : Bytes} {t : Tree} {m : KMap} {k : Key} {i e : Info}
    {d : Bytes} (h : Agree crc a f t m) (hv : InfoValid a f i) (hr : readInfo a f i = .ok d) (hc : i.crc = crc d) :
    Agree crc a f ((t.put k e).put k i) (m.update k (some d)) := by
  intro k'
  rw [lookup_put, lookup_put]
  unfold KMap.update
  by_cases hk : k = k'
  · simp only [hk, if_true]
    exact ⟨hv, d, hr, rfl, hc⟩
  · simp only [hk, if_false]
    exact h k'

local macro "tr" : tactic => `(tactic| first | trivial | rfl)
local macro "hmode" h:ident : tactic => `(tactic| first | exact $h | rfl)

theorem isNone_of_isSome_false {α} {o : Option α} (h : o.isSome = false) : o.isNone = true := by
  cases o <;> simp_all
theorem isNone_of_isSome_true {α} {o : Option α} (h : o.isSome = true) : o.isNone = false := by
  cases o <;> simp_all

theorem keyOK_of_lookup {t : Tree} (hwf : TreeWF t) {k : Key} {i : Info} (hl : t.lookup k = some i) : keyOK k = true := by
  rw [lookup_bind] at hl
  cases h1 : AList.find k.ext t with
  | none => simp [h1] at hl
  | some ds =>
    have w1 := hwf.2 _ (find_some_mem h1)
    simp only [h1, Option.bind_some] at hl
    cases h2 : AList.find k.dir ds with
    | none => simp [h2] at hl
    | some fs =>
      have w2 := w1.2.2 _ (find_some_mem h2)
      simp only [h2, Option.bind_some] at hl
      have w3 := w2.2.2 _ (find_some_mem hl)
      simp only [keyOK, Bool.and_eq_true]
      exact ⟨⟨w2.1, w3.1⟩, w1.1⟩

theorem step_refines (crc : Bytes → Nat) {w : World} {s : Spec} (hR : R crc w s) (op : Op)
    (hop : opOK op = true) (hf : flushOK w op = true) :
    (step crc w op).2 = (specStep s op).2 ∧ R crc (step crc w op).1 (specStep s op).1 := by
  cases op with
  | openVpk mode limit => exact open_refines crc hR mode limit
  | newFile n =>
    obtain ⟨hd, hc⟩ := hR
    match hs : s.cur, hc with
    | none, hc =>
      simp only [CurRel] at hc
      simp only [step, specStep, hc, hs]
      exact ⟨by tr, hd, by rw [hs]; exact hc⟩
    | some (mode, m), ⟨v, hv, hm, hver, hwf, hA⟩ =>
      have hcur : CurRel crc w.vpk w.archs s.cur := by rw [hs]; exact ⟨v, hv, hm, hver, hwf, hA⟩
      simp only [step, specStep, hv, hs, hm, newFileTree_eq hA]
      cases hw : mode.writable with
      | false =>
        simp only [Bool.false_eq_true, not_false_eq_true, if_true]
        exact ⟨by tr, hd, hcur⟩
      | true =>
        cases ha : keyAscii (getFileParts n) with
        | false =>
          simp only [Bool.false_eq_true, not_false_eq_true, not_true_eq_false, if_true, if_false]
          exact ⟨by tr, hd, hcur⟩
        | true =>
          cases hx : (m (getFileParts n)).isSome with
          | true =>
            simp only [not_true_eq_false, if_true, if_false]
            exact ⟨by tr, hd, hcur⟩
          | false =>
            simp only [Bool.false_eq_true, not_true_eq_false, if_false]
            refine ⟨by tr, hd, ?_⟩
            refine ⟨_, rfl, by hmode hm, hver, treeWF_put hwf (keyOK_of _ ha hop) (infoNorm_empty crc), ?_⟩
            exact agree_put hA (infoValid_empty crc _ _) (readInfo_empty crc _ _) rfl
  | addFile n data idx =>
    obtain ⟨hd, hc⟩ := hR
    simp only [opOK, Bool.and_eq_true] at hop
    match hs : s.cur, hc with
    | none, hc =>
      simp only [CurRel] at hc
      simp only [step, specStep, hc, hs]
      exact ⟨by tr, hd, by rw [hs]; exact hc⟩
    | some (mode, m), ⟨v, hv, hm, hver, hwf, hA⟩ =>
      have hcur : CurRel crc w.vpk w.archs s.cur := by rw [hs]; exact ⟨v, hv, hm, hver, hwf, hA⟩
      simp only [step, specStep, hv, hs, hm, newFileTree_eq hA]
      cases hw : mode.writable with
      | false =>
        simp only [Bool.false_eq_true, not_false_eq_true, if_true]
        exact ⟨by tr, hd, hcur⟩
      | true =>
        cases ha : keyAscii (getFileParts n) with
        | false =>
          simp only [Bool.false_eq_true, not_false_eq_true, not_true_eq_false, if_true, if_false]
          exact ⟨by tr, hd, hcur⟩
        | true =>
          cases hx : (m (getFileParts n)).isSome with
          | true =>
            simp only [not_true_eq_false, if_true, if_false]
            exact ⟨by tr, hd, hcur⟩
          | false =>
            simp only [Bool.false_eq_true, not_true_eq_false, if_false]
            obtain ⟨wr, hwr, hn, hvl, hrd, hcrc, hext, x, hfoot⟩ :=
              writeInfo_facts crc w.single v.dirLimit w.archs v.footer (emptyInfo crc) data idx hop.2
                (infoNorm_empty crc) (infoValid_empty crc _ _)
            simp only [hwr]
            refine ⟨by tr, diskRel_mono hd hext, ?_⟩
            have hk := keyOK_of _ ha hop.1
            refine ⟨_, rfl, by hmode hm, hver, treeWF_put (treeWF_put hwf hk (infoNorm_empty crc)) hk hn, ?_⟩
            have hA' : Agree crc wr.archs wr.footer v.tree m := by rw [hfoot]; exact agree_mono x hA hext
            exact agree_put2 hA' hvl hrd hcrc
  | write n data idx =>
    obtain ⟨hd, hc⟩ := hR
    simp only [opOK] at hop
    match hs : s.cur, hc with
    | none, hc =>
      simp only [CurRel] at hc
      simp only [step, specStep, hc, hs]
      exact ⟨by tr, hd, by rw [hs]; exact hc⟩
    | some (mode, m), ⟨v, hv, hm, hver, hwf, hA⟩ =>
      have hcur : CurRel crc w.vpk w.archs s.cur := by rw [hs]; exact ⟨v, hv, hm, hver, hwf, hA⟩
      simp only [step, specStep, hv, hs, hm]
      have hsome := agree_some hA (getFileParts n)
      have hk := hA (getFileParts n)
      cases hl : v.tree.lookup (getFileParts n) with
      | none =>
        rw [hl] at hsome
        have hnone := isNone_of_isSome_false (by simpa using hsome.symm : (m (getFileParts n)).isSome = false)
        simp only [hnone, if_true]
        exact ⟨by tr, hd, hcur⟩
      | some i =>
        rw [hl] at hsome
        simp only [hl] at hk
        have hnone := isNone_of_isSome_true (by simpa using hsome.symm : (m (getFileParts n)).isSome = true)
        simp only [hnone, Bool.false_eq_true, if_false]
        cases hw : mode.writable with
        | false =>
          simp only [Bool.false_eq_true, not_false_eq_true, if_true]
          exact ⟨by tr, hd, hcur⟩
        | true =>
          simp only [not_true_eq_false, if_false]
          obtain ⟨wr, hwr, hn, hvl, hrd, hcrc, hext, x, hfoot⟩ :=
            writeInfo_facts crc w.single v.dirLimit w.archs v.footer i data idx hop
              (infoNorm_of_lookup hwf hl) hk.1
          simp only [hwr]
          refine ⟨by tr, diskRel_mono hd hext, ?_⟩
          refine ⟨_, rfl, by hmode hm, hver, treeWF_put hwf (keyOK_of_lookup hwf hl) hn, ?_⟩
          have hA' : Agree crc wr.archs wr.footer v.tree m := by rw [hfoot]; exact agree_mono x hA hext
          exact agree_put hA' hvl hrd hcrc
  | del n =>
    obtain ⟨hd, hc⟩ := hR
    match hs : s.cur, hc with
    | none, hc =>
      simp only [CurRel] at hc
      simp only [step, specStep, hc, hs]
      exact ⟨by tr, hd, by rw [hs]; exact hc⟩
    | some (mode, m), ⟨v, hv, hm, hver, hwf, hA⟩ =>
      have hcur : CurRel crc w.vpk w.archs s.cur := by rw [hs]; exact ⟨v, hv, hm, hver, hwf, hA⟩
      simp only [step, specStep, hv, hs, hm]
      have hsome := agree_some hA (getFileParts n)
      cases hw : mode.writable with
      | false =>
        simp only [Bool.false_eq_true, not_false_eq_true, if_true]
        exact ⟨by tr, hd, hcur⟩
      | true =>
        simp only [not_true_eq_false, if_false]
        cases hl : v.tree.lookup (getFileParts n) with
        | none =>
          rw [hl] at hsome
          have hnone := isNone_of_isSome_false (by simpa using hsome.symm : (m (getFileParts n)).isSome = false)
          simp only [hnone, if_true]
          exact ⟨by tr, hd, hcur⟩
        | some i =>
          rw [hl] at hsome
          have hnone := isNone_of_isSome_true (by simpa using hsome.symm : (m (getFileParts n)).isSome = true)
          simp only [hnone, Bool.false_eq_true, if_false]
          exact ⟨by tr, hd, ⟨_, rfl, by hmode hm, hver, treeWF_del hwf _, agree_del _ hwf hA⟩⟩
  | flush =>
    obtain ⟨hd, hc⟩ := hR
    match hs : s.cur, hc with
    | none, hc =>
      simp only [CurRel] at hc
      simp only [step, specStep, hc, hs]
      exact ⟨by tr, hd, by rw [hs]; exact hc⟩
    | some (mode, m), ⟨v, hv, hm, hver, hwf, hA⟩ =>
      have hcur : CurRel crc w.vpk w.archs s.cur := by rw [hs]; exact ⟨v, hv, hm, hver, hwf, hA⟩
      simp only [flushOK, hv, hm, hver] at hf
      simp only [step, specStep, flushStep, hv, hs, hm, hver]
      cases hw : mode.writable with
      | false =>
        simp only [Bool.false_eq_true, not_false_eq_true, if_true]
        exact ⟨by tr, hd, hcur⟩
      | true =>
        have hfit : v.tree.fits = true := by simpa [hw] using hf
        simp only [not_true_eq_false, if_false, gt_iff_lt, Nat.lt_irrefl, hfit]
        refine ⟨by tr, ⟨v.tree, v.footer, rfl, hwf, hfit, hA⟩, ?_⟩
        exact ⟨v, rfl, hm, hver, hwf, hA⟩
  | exit exc =>
    obtain ⟨hd, hc⟩ := hR
    match hs : s.cur, hc with
    | none, hc =>
      simp only [CurRel] at hc
      simp only [step, specStep, hc, hs]
      exact ⟨by tr, hd, by rw [hs]; exact hc⟩
    | some (mode, m), ⟨v, hv, hm, hver, hwf, hA⟩ =>
      have hcur : CurRel crc w.vpk w.archs s.cur := by rw [hs]; exact ⟨v, hv, hm, hver, hwf, hA⟩
      cases exc with
      | true =>
        simp only [step, specStep, hv, hs, if_true]
        exact ⟨by tr, hd, hcur⟩
      | false =>
      simp only [flushOK, hv, hm, hver] at hf
      simp only [step, specStep, flushStep, hv, hs, hm, hver, Bool.false_eq_true, if_false]
      cases hw : mode.writable with
      | false =>
        simp only [Bool.false_eq_true, not_false_eq_true, if_true]
        exact ⟨by tr, hd, hcur⟩
      | true =>
        have hfit : v.tree.fits = true := by simpa [hw] using hf
        simp only [not_true_eq_false, if_false, gt_iff_lt, Nat.lt_irrefl, hfit]
        refine ⟨by tr, ⟨v.tree, v.footer, rfl, hwf, hfit, hA⟩, ?_⟩
        exact ⟨v, rfl, hm, hver, hwf, hA⟩
  | has n =>
    obtain ⟨hd, hc⟩ := hR
    match hs : s.cur, hc with
    | none, hc =>
      simp only [CurRel] at hc
      simp only [step, specStep, hc, hs]
      exact ⟨by tr, hd, by rw [hs]; exact hc⟩
    | some (mode, m), ⟨v, hv, hm, hver, hwf, hA⟩ =>
      have hcur : CurRel crc w.vpk w.archs s.cur := by rw [hs]; exact ⟨v, hv, hm, hver, hwf, hA⟩
      simp only [step, specStep, hv, hs]
      have hsome := agree_some hA (getFileParts n)
      cases hl : v.tree.lookup (getFileParts n) with
      | none =>
        rw [hl] at hsome
        have : (m (getFileParts n)).isSome = false := by simpa using hsome.symm
        simp only [this, Bool.false_eq_true, if_false]
        exact ⟨by tr, hd, hcur⟩
      | some i =>
        rw [hl] at hsome
        have : (m (getFileParts n)).isSome = true := by simpa using hsome.symm
        simp only [this, if_true]
        exact ⟨by tr, hd, hcur⟩

/-! ## whole histories, and what related states look like from outside -/

theorem run_refines (crc : Bytes → Nat) : ∀ (ops : List Op) (w : World) (s : Spec), R crc w s →
    (∀ op ∈ ops, opOK op = true) → runFits crc w ops = true →
    (run crc w ops).2 = (specRun s ops).2 ∧ R crc (run crc w ops).1 (specRun s ops).1 := by
  intro ops
  induction ops with
  | nil => intro w s hR _ _; exact ⟨rfl, hR⟩
  | cons op ops ih =>
    intro w s hR hok hfit
    simp only [runFits, Bool.and_eq_true] at hfit
    have h1 := step_refines crc hR op (hok op (by simp)) hfit.1
    have h2 := ih (step crc w op).1 (specStep s op).1 h1.2 (fun o ho => hok o (by simp [ho])) hfit.2
    simp only [run, specRun]
    exact ⟨by rw [h1.1, h2.1], h2.2⟩

theorem R_init (crc : Bytes → Nat) (single : Bool) : R crc (World.init single) Spec.init := ⟨rfl, rfl⟩

theorem R_read {crc : Bytes → Nat} {w : World} {s : Spec} (hR : R crc w s) (k : Key) : w.read k = s.read k := by
  obtain ⟨_, hc⟩ := hR
  match hs : s.cur, hc with
  | none, hc =>
    simp only [CurRel] at hc
    simp [World.read, Spec.read, hc, hs]
  | some (mode, m), ⟨v, hv, _, _, _, hA⟩ =>
    simp only [World.read, Spec.read, hv, hs]
    have := hA k
    cases hl : v.tree.lookup k with
    | none => simp only [hl] at this; simp [this]
    | some i =>
      simp only [hl] at this
      obtain ⟨_, d, hr, hm, _⟩ := this
      simp [hr, hm]

theorem lookup_of_mem_entries {t : Tree} (hwf : TreeWF t) {k : Key} {i : Info} (h : (k, i) ∈ t.entries) :
    t.lookup k = some i := by
  unfold Tree.entries at h
  rw [List.mem_flatMap] at h
  obtain ⟨⟨e, ds⟩, h1, h⟩ := h
  rw [List.mem_flatMap] at h
  obtain ⟨⟨d, fs⟩, h2, h⟩ := h
  rw [List.mem_map] at h
  obtain ⟨⟨n, j⟩, h3, h⟩ := h
  injection h with hk hi
  subst hk; subst hi
  have w1 := hwf.2 _ h1
  have w2 := w1.2.2 _ h2
  rw [lookup_bind]
  simp [find_of_mem hwf.1 h1, find_of_mem w1.2.1 h2, find_of_mem w2.2.1 h3]

theorem mem_entries_of_lookup {t : Tree} {k : Key} {i : Info} (h : t.lookup k = some i) : (k, i) ∈ t.entries := by
  rw [lookup_bind] at h
  cases h1 : AList.find k.ext t with
  | none => simp [h1] at h
  | some ds =>
    simp only [h1, Option.bind_some] at h
    cases h2 : AList.find k.dir ds with
    | none => simp [h2] at h
    | some fs =>
      simp only [h2, Option.bind_some] at h
      exact mem_entries (find_some_mem h1) (find_some_mem h2) (find_some_mem h)

theorem verifyAll_true (crc : Bytes → Nat) (a : List (Nat × Bytes)) (f : Bytes) (l : List (Key × Info))
    (h : ∀ x ∈ l, verifyInfo crc a f x.2 = .ok true) : verifyAll crc a f l = .ok true := by
  induction l with
  | nil => rfl
  | cons x xs ih =>
    obtain ⟨k, i⟩ := x
    have hx : verifyInfo crc a f i = .ok true := h (k, i) (by simp)
    simp only [verifyAll, hx]
    exact ih (fun y hy => h y (by simp [hy]))

theorem R_verify {crc : Bytes → Nat} {w : World} {s : Spec} (hR : R crc w s) : w.verifyAll crc = .ok true := by
  obtain ⟨_, hc⟩ := hR
  match hs : s.cur, hc with
  | none, hc =>
    simp only [CurRel] at hc
    simp [World.verifyAll, hc]
  | some (mode, m), ⟨v, hv, _, _, hwf, hA⟩ =>
    simp only [World.verifyAll, hv]
    apply verifyAll_true
    intro x hx
    have hl := lookup_of_mem_entries hwf (k := x.1) (i := x.2) hx
    have := hA x.1
    simp only [hl] at this
    obtain ⟨_, d, hr, _, hcrc⟩ := this
    simp [verifyInfo, hr, hcrc]

theorem R_keys {crc : Bytes → Nat} {w : World} {s : Spec} (hR : R crc w s) (k : Key) :
    k ∈ w.keys ↔ (s.read k).isSome = true := by
  rw [← R_read hR k]
  obtain ⟨_, hc⟩ := hR
  match hs : s.cur, hc with
  | none, hc =>
    simp only [CurRel] at hc
    simp [World.keys, World.read, hc]
  | some (mode, m), ⟨v, hv, _, _, hwf, hA⟩ =>
    simp only [World.keys, World.read, hv, List.mem_map]
    constructor
    · rintro ⟨⟨k', i⟩, hm, rfl⟩
      simp [lookup_of_mem_entries hwf hm]
    · intro h
      cases hl : v.tree.lookup k with
      | none => simp [hl] at h
      | some i => exact ⟨(k, i), mem_entries_of_lookup hl, rfl⟩

/-! ## decidability of the well-formedness predicates (for the non-vacuity examples) -/

instance (fs : Files) : Decidable (FilesWF fs) := by unfold FilesWF Distinct; infer_instance
instance (ds : Dirs) : Decidable (DirsWF ds) := by unfold DirsWF Distinct; infer_instance
instance (t : Tree) : Decidable (TreeWF t) := by unfold TreeWF Distinct; infer_instance

/-- frame: a write leaves every other valid entry readable with the same contents -/
theorem writeInfo_frame (crc : Bytes → Nat) (single : Bool) (lim : Option Nat) (a : List (Nat × Bytes)) (f : Bytes)
    (i : Info) (data : Bytes) (idx : Option Nat) (hidx : idxOK idx = true) (hn : infoNorm i = true)
    (hv : InfoValid a f i) (wr : Written) (h : writeInfo crc single lim a f i data idx = .ok wr)
    (i' : Info) (hv' : InfoValid a f i') :
    InfoValid wr.archs wr.footer i' ∧ readInfo wr.archs wr.footer i' = readInfo a f i' := by
  obtain ⟨wr', hwr, _, _, _, _, hext, x, hfoot⟩ := writeInfo_facts crc single lim a f i data idx hidx hn hv
  rw [h] at hwr
  injection hwr with hwr
  subst hwr
  rw [hfoot]
  exact valid_mono x hv' hext

end C13
