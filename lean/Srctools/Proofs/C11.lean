import Srctools.Model.C11
import Srctools.Proofs.StructCodec
/-!
# Proofs for C11 (core only)

* finders: `Finder.call_spec`, `EFinder.call_spec`
* run-length coding: `rle_roundtrip`, `rle_roundtrip_in_stream`
* texture-name table: `tex_roundtrip`, `texFold_too_long`
* visibility lump: `vis_roundtrip`
-/
namespace C11
open StructCodec

section finders
variable {α κ : Type} [DecidableEq κ]

theorem lastIdxFrom_spec (p : α → Bool) (l : List α) (i j : Nat) (h : lastIdxFrom p i l = some j) :
    i ≤ j ∧ ∃ y, l[j - i]? = some y ∧ p y = true := by
  induction l generalizing i with
  | nil => simp [lastIdxFrom] at h
  | cons x xs ih =>
    simp only [lastIdxFrom] at h
    split at h
    · rename_i j' hj
      injection h with h; subst h
      obtain ⟨h1, y, hy, hp⟩ := ih (i + 1) hj
      refine ⟨by omega, y, ?_, hp⟩
      have : j' - i = (j' - (i + 1)) + 1 := by omega
      rw [this, List.getElem?_cons_succ]; exact hy
    · split at h
      · rename_i hp
        injection h with h; subst h
        exact ⟨Nat.le_refl _, x, by simp, hp⟩
      · cases h

/-- Soundness invariant of the dict of a `find_or_insert` closure. -/
def Finder.Inv (key : α → κ) (f : Finder α κ) : Prop :=
  ∀ k i, f.dict k = some i → ∃ y, f.list[i]? = some y ∧ key y = k

theorem Finder.mk'_inv (key : α → κ) (l : List α) : (Finder.mk' key l).Inv key := by
  intro k i h
  obtain ⟨_, y, hy, hp⟩ := lastIdxFrom_spec _ l 0 i h
  exact ⟨y, by simpa [Finder.mk'] using hy, by simpa using hp⟩

theorem Finder.call_spec (key : α → κ) (f : Finder α κ) (hf : f.Inv key) (x : α) :
    let r := f.call key x
    (∃ y, r.2.list[r.1]? = some y ∧ key y = key x) ∧ f.list <+: r.2.list ∧ r.2.Inv key := by
  unfold Finder.call
  split
  · rename_i i hi
    exact ⟨hf _ _ hi, List.prefix_refl _, hf⟩
  · rename_i hi
    refine ⟨⟨x, by simp, rfl⟩, List.prefix_append _ _, ?_⟩
    intro k i h
    simp only at h
    split at h
    · rename_i hk
      injection h with h; subst h; subst hk
      exact ⟨x, by simp, rfl⟩
    · obtain ⟨y, hy, hk⟩ := hf k i h
      refine ⟨y, ?_, hk⟩
      have hlt : i < f.list.length := by
        rcases Nat.lt_or_ge i f.list.length with h | h
        · exact h
        · rw [List.getElem?_eq_none h] at hy; cases hy
      simp [List.getElem?_append_left hlt, hy]

theorem zip_all_keys (key : α → κ) (items s : List α) (hlen : s.length = items.length)
    (h : ((List.zip items s).all fun p => key p.1 == key p.2) = true) :
    s.map key = items.map key := by
  induction items generalizing s with
  | nil => cases s <;> simp_all
  | cons a as ih =>
    cases s with
    | nil => simp at hlen
    | cons b bs =>
      simp only [List.zip_cons_cons, List.all_cons, Bool.and_eq_true, beq_iff_eq] at h
      simp only [List.map_cons, List.cons.injEq]
      exact ⟨h.1.symm, ih bs (by simpa using hlen) h.2⟩

theorem zipMatches_spec (key : α → κ) (l items : List α) (i : Nat)
    (hb : i + items.length ≤ l.length) (h : zipMatches key l items i = true) :
    ((l.drop i).take items.length).map key = items.map key := by
  apply zip_all_keys key items _ _ h
  simp; omega

theorem EFinder.call_spec (key : α → κ) (f : EFinder α κ) (items : List α) :
    let r := f.call true key items
    ((r.2.list.drop r.1).take items.length).map key = items.map key ∧ f.list <+: r.2.list := by
  unfold EFinder.call
  cases items with
  | nil => simp
  | cons x xs =>
    simp only
    split
    · rename_i i hi
      have := List.find?_some hi
      simp only [candidateOk, Bool.not_true, Bool.false_or, Bool.and_eq_true, decide_eq_true_eq] at this
      exact ⟨zipMatches_spec key f.list (x :: xs) i this.1 this.2, List.prefix_refl _⟩
    · exact ⟨by simp, List.prefix_append _ _⟩

theorem getElem?_of_prefix {l l' : List α} (h : l <+: l') {i : Nat} {y : α} (hy : l[i]? = some y) : l'[i]? = some y := by
  obtain ⟨t, rfl⟩ := h
  have hlt : i < l.length := by
    rcases Nat.lt_or_ge i l.length with h | h
    · exact h
    · rw [List.getElem?_eq_none h] at hy; cases hy
  rw [List.getElem?_append_left hlt]; exact hy

/-- every index handed out by `callAll` addresses, in the *final* list, an element with the key of
the corresponding argument; the initial list is a prefix of the final one -/
theorem Finder.callAll_spec (key : α → κ) : ∀ (xs : List α) (f : Finder α κ), f.Inv key →
    (Finder.callAll key f xs).1.length = xs.length ∧ f.list <+: (Finder.callAll key f xs).2.list ∧
    ∀ k (hk : k < xs.length), ∃ i y, (Finder.callAll key f xs).1[k]? = some i ∧
      (Finder.callAll key f xs).2.list[i]? = some y ∧ key y = key xs[k] := by
  intro xs
  induction xs with
  | nil => intro f _; exact ⟨rfl, List.prefix_refl _, fun k hk => absurd hk (Nat.not_lt_zero _)⟩
  | cons x xs ih =>
    intro f hf
    have hs := Finder.call_spec key f hf x
    obtain ⟨hl, hpre, hall⟩ := ih (f.call key x).2 hs.2.2
    refine ⟨by simp [Finder.callAll, hl], List.IsPrefix.trans hs.2.1 hpre, ?_⟩
    intro k hk
    cases k with
    | zero =>
      obtain ⟨y, hy, hky⟩ := hs.1
      exact ⟨(f.call key x).1, y, by simp [Finder.callAll], getElem?_of_prefix hpre hy, hky⟩
    | succ k =>
      obtain ⟨i, y, h1, h2, h3⟩ := hall k (by simpa using hk)
      exact ⟨i, y, by simpa [Finder.callAll] using h1, h2, by simpa using h3⟩

end finders

/-! ## run-length coding -/


theorem emitZeros_zero : emitZeros 0 = [] := by rw [emitZeros]; simp
theorem emitZeros_pos (n : Nat) (h : 0 < n) :
    emitZeros n = 0 :: UInt8.ofNat (min 255 n) :: emitZeros (n - 255) := by
  rw [emitZeros]; simp [Nat.ne_of_gt h]

theorem zeros_add (a b : Nat) : zeros (a + b) = zeros a ++ zeros b := by
  simp [zeros, List.replicate_append_replicate]

theorem u8_min (n : Nat) : (UInt8.ofNat (min 255 n)).toNat = min 255 n := by
  rw [UInt8.toNat_ofNat']; omega

theorem u8_min_ne (n : Nat) (h : 0 < n) : UInt8.ofNat (min 255 n) ≠ 0 := by
  intro h0
  have := congrArg UInt8.toNat h0
  rw [u8_min] at this
  simp at this; omega

theorem decAux_nz (ret : Nat) (head : Bool) (n : Nat) (b : UInt8) (rest : Bytes)
    (hb : b ≠ 0) (hlt : ¬ (ret ≤ n)) :
    decAux ret head n (b :: rest) =
      match decAux ret false (n + 1) rest with
      | .ok r => .ok (b :: r)
      | .error e => .error e := by
  rw [decAux.eq_def]
  simp only [hb, hlt, decide_false, Bool.and_false, Bool.false_eq_true, if_false, ne_eq,
    not_false_eq_true, if_true]
  cases decAux ret false (n + 1) rest <;> rfl

/-- decoding `post` at output position `m` cannot fail, whatever the loop state -/
def Good (ret m : Nat) (post : Bytes) : Prop := ∀ h, ∃ r, decAux ret h m post = .ok r

theorem good_nil (ret m : Nat) : Good ret m [] := fun _ => ⟨[], by simp [decAux]⟩

theorem dec_emitZeros (ret : Nat) (run : Nat) : ∀ (n : Nat) (head : Bool) (post : Bytes),
    n + run ≤ ret → Good ret (n + run) post →
    ∃ r h', decAux ret head n (emitZeros run ++ post) = .ok (zeros run ++ r) ∧
      decAux ret h' (n + run) post = .ok r := by
  induction run using Nat.strongRecOn with
  | _ run ih =>
    intro n head post hle hg
    by_cases h0 : run = 0
    · subst h0
      obtain ⟨r, hr⟩ := hg head
      exact ⟨r, head, by simpa [emitZeros_zero, zeros] using hr, hr⟩
    · have hpos : 0 < run := Nat.pos_of_ne_zero h0
      rw [emitZeros_pos run hpos]
      have hlt : ¬ (ret ≤ n) := by omega
      obtain ⟨r, h', hr, hr'⟩ := ih (run - 255) (by omega) (n + min 255 run) true post (by omega)
        (by have : n + min 255 run + (run - 255) = n + run := by omega
            rw [this]; exact hg)
      refine ⟨r, h', ?_, ?_⟩
      · simp only [List.cons_append, decAux, hlt, decide_false, Bool.and_false, Bool.false_eq_true,
          if_false, ne_eq, not_true_eq_false, u8_min, hr]
        have : run = min 255 run + (run - 255) := by omega
        conv => rhs; rw [this, zeros_add]
        simp
      · have : n + min 255 run + (run - 255) = n + run := by omega
        rw [this] at hr'; exact hr'

theorem dec_enc_aux (ret : Nat) (d : Bytes) : ∀ (run n : Nat) (head : Bool) (post : Bytes),
    n + run + d.length ≤ ret → Good ret (n + run + d.length) post →
    ∃ r h', decAux ret head n (encAux run d ++ post) = .ok (zeros run ++ d ++ r) ∧
      decAux ret h' (n + run + d.length) post = .ok r := by
  induction d with
  | nil =>
    intro run n head post hle hg
    simpa [encAux] using dec_emitZeros ret run n head post (by simpa using hle) (by simpa using hg)
  | cons b rest ih =>
    intro run n head post hle hg
    simp only [List.length_cons] at hle hg
    by_cases hb : b = 0
    · subst hb
      simp only [encAux, if_true]
      obtain ⟨r, h', hr, hr'⟩ := ih (run + 1) n head post (by omega)
        (by have : n + (run + 1) + rest.length = n + run + (rest.length + 1) := by omega
            rw [this]; exact hg)
      refine ⟨r, h', ?_, ?_⟩
      · rw [hr, zeros_add]; simp [zeros]
      · have : n + (run + 1) + rest.length = n + run + (rest.length + 1) := by omega
        simpa [this] using hr'
    · simp only [encAux, hb, if_false, List.append_assoc, List.cons_append]
      -- first the pending zeros, then the byte `b`, then the rest
      obtain ⟨r, h', hr, hr'⟩ := ih 0 (n + run + 1) false post (by omega)
        (by have : n + run + 1 + 0 + rest.length = n + run + (rest.length + 1) := by omega
            rw [this]; exact hg)
      have hlt : ¬ (ret ≤ n + run) := by omega
      have hstep : ∀ h, decAux ret h (n + run) (b :: (encAux 0 rest ++ post)) = .ok (b :: (rest ++ r)) := by
        intro h
        rw [decAux_nz ret h (n + run) b _ hb hlt, hr]
        simp [zeros]
      obtain ⟨r2, h2, hr2, hr2'⟩ := dec_emitZeros ret run n head (b :: (encAux 0 rest ++ post)) (by omega)
        (fun h => ⟨_, hstep h⟩)
      rw [hstep h2] at hr2'
      injection hr2' with hr2'
      subst hr2'
      refine ⟨r, h', ?_, ?_⟩
      · rw [hr2]
      · have : n + run + 1 + 0 + rest.length = n + run + (rest.length + 1) := by omega
        simpa [this] using hr'

/-- `runlength_decode(runlength_encode(d)) == d` (default arguments: start 0, no cluster bound;
the code bounds the output by `1 << 128` bytes). -/
theorem rle_roundtrip (d : Bytes) (h : d.length ≤ 2 ^ 128) :
    rleDecode (rleEncode d) 0 none = .ok d := by
  obtain ⟨r, h', hr, hr'⟩ := dec_enc_aux (2 ^ 128) d 0 0 true [] (by simpa using h) (good_nil _ _)
  simp only [decAux] at hr'
  injection hr' with hr'
  subst hr'
  simp only [List.append_nil, zeros, List.replicate_zero, List.nil_append] at hr
  simp only [rleDecode, retBytes, List.drop_zero, rleEncode, hr]
  rw [List.take_of_length_le h]

/-- A well-formed RLE stream: every zero marker is followed by its count byte. -/
def wfStream : Bytes → Bool
  | [] => true
  | b :: rest =>
    if b ≠ 0 then wfStream rest
    else match rest with
      | [] => false
      | _ :: r => wfStream r

theorem wfStream_nz (b : UInt8) (rest : Bytes) (hb : b ≠ 0) : wfStream (b :: rest) = wfStream rest := by
  rw [wfStream.eq_def]; simp [hb]

theorem wfStream_z (z : UInt8) (rest : Bytes) : wfStream (0 :: z :: rest) = wfStream rest := by
  rw [wfStream.eq_def]; simp

theorem decAux_z (ret : Nat) (head : Bool) (n : Nat) (z : UInt8) (rest : Bytes) (hlt : ¬ (ret ≤ n)) :
    decAux ret head n (0 :: z :: rest) =
      match decAux ret true (n + z.toNat) rest with
      | .ok r => .ok (zeros z.toNat ++ r)
      | .error e => .error e := by
  rw [decAux.eq_def]
  simp only [hlt, decide_false, Bool.and_false, Bool.false_eq_true, if_false, ne_eq,
    not_true_eq_false]
  cases decAux ret true (n + z.toNat) rest <;> rfl

theorem decAux_stop (ret : Nat) (n : Nat) (s : Bytes) (h : ret ≤ n) : decAux ret true n s = .ok [] := by
  cases s with
  | nil => simp [decAux]
  | cons b rest => rw [decAux.eq_def]; simp [h]

theorem good_of_wf (ret : Nat) : ∀ (k : Nat) (s : Bytes), s.length ≤ k → wfStream s = true →
    ∀ m, Good ret m s := by
  intro k
  induction k with
  | zero =>
    intro s hs _ m
    have : s = [] := List.eq_nil_of_length_eq_zero (by omega)
    subst this; exact good_nil _ _
  | succ k ih =>
    intro s hs hw m h
    cases s with
    | nil => exact good_nil _ _ h
    | cons b rest =>
      by_cases hstop : (h && decide (ret ≤ m)) = true
      · exact ⟨[], by rw [decAux.eq_def]; simp [hstop]⟩
      · by_cases hb : b = 0
        · subst hb
          cases rest with
          | nil => simp [wfStream] at hw
          | cons z rest' =>
            rw [wfStream_z] at hw
            obtain ⟨r, hr⟩ := ih rest' (by simp at hs; omega) hw (m + z.toNat) true
            refine ⟨zeros z.toNat ++ r, ?_⟩
            rw [decAux.eq_def]
            simp only [hstop, Bool.false_eq_true, if_false, ne_eq, not_true_eq_false, hr]
        · rw [wfStream_nz b rest hb] at hw
          obtain ⟨r, hr⟩ := ih rest (by simp at hs; omega) hw (m + 1) false
          refine ⟨b :: r, ?_⟩
          rw [decAux.eq_def]
          simp only [hstop, Bool.false_eq_true, if_false, ne_eq, hb, not_false_eq_true, if_true, hr]

theorem wfStream_append : ∀ (k : Nat) (a b : Bytes), a.length ≤ k → wfStream a = true → wfStream b = true →
    wfStream (a ++ b) = true := by
  intro k
  induction k with
  | zero =>
    intro a b ha _ hb
    have : a = [] := List.eq_nil_of_length_eq_zero (by omega)
    subst this; simpa using hb
  | succ k ih =>
    intro a b ha hwa hwb
    cases a with
    | nil => simpa using hwb
    | cons x rest =>
      by_cases hx : x = 0
      · subst hx
        cases rest with
        | nil => simp [wfStream] at hwa
        | cons z rest' =>
          rw [wfStream_z] at hwa
          simp only [List.cons_append]
          rw [wfStream_z]
          exact ih rest' b (by simp at ha; omega) hwa hwb
      · rw [wfStream_nz x rest hx] at hwa
        simp only [List.cons_append]
        rw [wfStream_nz x _ hx]
        exact ih rest b (by simp at ha; omega) hwa hwb

theorem wfStream_emitZeros (run : Nat) : wfStream (emitZeros run) = true := by
  induction run using Nat.strongRecOn with
  | _ run ih =>
    by_cases h0 : run = 0
    · subst h0; simp [emitZeros_zero, wfStream]
    · rw [emitZeros_pos run (Nat.pos_of_ne_zero h0), wfStream_z]
      exact ih (run - 255) (by omega)

theorem wfStream_encAux (d : Bytes) : ∀ run, wfStream (encAux run d) = true := by
  induction d with
  | nil => intro run; simpa [encAux] using wfStream_emitZeros run
  | cons b rest ih =>
    intro run
    by_cases hb : b = 0
    · subst hb; simpa [encAux] using ih (run + 1)
    · simp only [encAux, hb, if_false]
      apply wfStream_append _ _ _ (Nat.le_refl _) (wfStream_emitZeros run)
      rw [wfStream_nz b _ hb]; exact ih 0

theorem wfStream_rleEncode (d : Bytes) : wfStream (rleEncode d) = true := wfStream_encAux d 0

/-- **Row inside the visibility lump.** A row of exactly `ceil(m / 8)` bytes, encoded and embedded
at offset `|pre|` of a buffer whose tail is a well-formed RLE stream (e.g. further rows), is decoded
exactly by `runlength_decode(data, |pre|, m)`. -/
theorem rle_roundtrip_in_stream (pre post d : Bytes) (m : Nat) (hd : d.length = (m + 7) / 8)
    (hpost : wfStream post = true) :
    rleDecode (pre ++ (rleEncode d ++ post)) pre.length (some m) = .ok d := by
  obtain ⟨r, h', hr, _⟩ := dec_enc_aux ((m + 7) / 8) d 0 0 true post (by simp [hd])
    (good_of_wf _ _ post (Nat.le_refl _) hpost _)
  simp only [zeros, List.replicate_zero, List.nil_append] at hr
  simp only [rleDecode, retBytes, List.drop_left, rleEncode, hr]
  rw [List.take_left' hd]

/-! ## texture-name table -/

theorem nulIdx_append (name : Bytes) (rest : Bytes) (h : (0 : UInt8) ∉ name) :
    nulIdx (name ++ 0 :: rest) = some name.length := by
  induction name with
  | nil => simp [nulIdx]
  | cons b bs ih =>
    have hb : b ≠ 0 := fun e => h (by simp [e])
    have hbs : (0 : UInt8) ∉ bs := fun e => h (by simp [e])
    simp [nulIdx, hb, ih hbs]

/-- reading at an offset where `name ++ [0]` starts returns `name` -/
theorem texReadOne_of_prefix (limit : Nat) (data : Bytes) (off : Nat) (name : Bytes)
    (hn : (0 : UInt8) ∉ name) (hl : name.length < limit)
    (hp : name ++ [0] <+: data.drop off) : texReadOne limit data off = .ok name := by
  obtain ⟨t, ht⟩ := hp
  unfold texReadOne
  rw [← ht]
  have h1 : ((name ++ [0] ++ t).take limit) = name ++ 0 :: (t.take (limit - name.length - 1)) := by
    rw [List.append_assoc, List.take_append]
    have : List.take limit name = name := List.take_of_length_le (by omega)
    rw [this]
    congr 1
    have : limit - name.length = (limit - name.length - 1) + 1 := by omega
    rw [this]; simp
  rw [h1, nulIdx_append name _ hn]
  simp

theorem findSubFrom_spec (needle : Bytes) : ∀ (hay : Bytes) (i j : Nat),
    findSubFrom needle i hay = some j → i ≤ j ∧ needle <+: hay.drop (j - i) := by
  intro hay
  induction hay with
  | nil =>
    intro i j h
    simp only [findSubFrom] at h
    split at h
    · rename_i he; injection h with h; subst h
      simp [List.isEmpty_iff.mp he]
    · cases h
  | cons x xs ih =>
    intro i j h
    simp only [findSubFrom] at h
    split at h
    · rename_i hp; injection h with h; subst h
      simp only [Nat.le_refl, Nat.sub_self, List.drop_zero, true_and]
      exact List.isPrefixOf_iff_prefix.mp hp
    · obtain ⟨h1, h2⟩ := ih (i + 1) j h
      refine ⟨by omega, ?_⟩
      have : j - i = (j - (i + 1)) + 1 := by omega
      rw [this, List.drop_succ_cons]; exact h2

theorem prefix_drop_append (s data x : Bytes) (j : Nat) (hs : s ≠ []) (h : s <+: data.drop j) :
    s <+: (data ++ x).drop j := by
  have hj : j ≤ data.length := by
    rcases Nat.lt_or_ge data.length j with hlt | hge
    · rw [List.drop_eq_nil_of_le (Nat.le_of_lt hlt)] at h
      exact absurd (List.prefix_nil.mp h) hs
    · exact hge
  rw [List.drop_append_of_le_length hj]
  exact List.IsPrefix.trans h (List.prefix_append _ _)

/-- invariant of the writer's state: every recorded offset points at its name followed by NUL -/
def TexInv (data : Bytes) : List Nat → List Bytes → Prop
  | [], [] => True
  | o :: os, n :: ns => (n ++ [0] <+: data.drop o) ∧ TexInv data os ns
  | _, _ => False

theorem TexInv_append (data x : Bytes) : ∀ (os : List Nat) (ns : List Bytes),
    TexInv data os ns → TexInv (data ++ x) os ns := by
  intro os
  induction os with
  | nil => intro ns h; cases ns <;> simp_all [TexInv]
  | cons o os ih =>
    intro ns h
    cases ns with
    | nil => simp [TexInv] at h
    | cons n ns =>
      simp only [TexInv] at h ⊢
      exact ⟨prefix_drop_append _ _ _ _ (by simp) h.1, ih ns h.2⟩

theorem TexInv_snoc (data : Bytes) (o : Nat) (n : Bytes) (hp : n ++ [0] <+: data.drop o) :
    ∀ (os : List Nat) (ns : List Bytes), TexInv data os ns → TexInv data (os ++ [o]) (ns ++ [n]) := by
  intro os
  induction os with
  | nil => intro ns h; cases ns <;> simp_all [TexInv]
  | cons o' os ih =>
    intro ns h
    cases ns with
    | nil => simp [TexInv] at h
    | cons n' ns =>
      simp only [TexInv, List.cons_append] at h ⊢
      exact ⟨h.1, ih ns h.2⟩

theorem texFold_spec (limit : Nat) : ∀ (names done : List Bytes) (data : Bytes) (offs : List Nat),
    (∀ n ∈ names, n.length < limit) → TexInv data offs done →
    ∃ data' offs', texFold limit (data, offs) names = .ok (data', offs') ∧ TexInv data' offs' (done ++ names) := by
  intro names
  induction names with
  | nil => intro done data offs _ h; exact ⟨data, offs, rfl, by simpa using h⟩
  | cons n ns ih =>
    intro done data offs hl hinv
    have hn : n.length < limit := hl n (by simp)
    cases hf : findSubFrom (n ++ [0]) 0 data with
    | some i =>
      obtain ⟨_, hp⟩ := findSubFrom_spec _ _ _ _ hf
      obtain ⟨d', o', h1, h2⟩ := ih (done ++ [n]) data (offs ++ [i]) (fun m hm => hl m (by simp [hm]))
        (TexInv_snoc data i n (by simpa using hp) offs done hinv)
      refine ⟨d', o', ?_, by simpa using h2⟩
      simp only [texFold, texStep, Nat.not_le.mpr hn, if_false, hf]
      exact h1
    | none =>
      obtain ⟨d', o', h1, h2⟩ := ih (done ++ [n]) (data ++ (n ++ [0])) (offs ++ [data.length])
        (fun m hm => hl m (by simp [hm]))
        (TexInv_snoc _ _ n (by simp) offs done (TexInv_append data _ offs done hinv))
      refine ⟨d', o', ?_, by simpa using h2⟩
      simp only [texFold, texStep, Nat.not_le.mpr hn, if_false, hf]
      exact h1

theorem texRead_of_inv (limit : Nat) (data : Bytes) : ∀ (offs : List Nat) (names : List Bytes),
    (∀ n ∈ names, n.length < limit ∧ (0 : UInt8) ∉ n) → TexInv data offs names →
    texRead limit data offs = .ok names := by
  intro offs
  induction offs with
  | nil => intro names _ h; cases names <;> simp_all [TexInv, texRead]
  | cons o os ih =>
    intro names hn h
    cases names with
    | nil => simp [TexInv] at h
    | cons n ns =>
      simp only [TexInv] at h
      have h1 := texReadOne_of_prefix limit data o n (hn n (by simp)).2 (hn n (by simp)).1 h.1
      have h2 := ih ns (fun m hm => hn m (by simp [hm])) h.2
      simp [texRead, h1, h2]

/-- **Texture-name table round trip**: NUL-free names shorter than the limit are read back exactly,
whatever de-duplication (`bytes.find`, including matches inside other names) the writer did. -/
theorem tex_roundtrip (limit : Nat) (names : List Bytes)
    (hn : ∀ n ∈ names, n.length < limit ∧ (0 : UInt8) ∉ n) :
    ∃ data offs, texWrite limit names = .ok (data, offs) ∧ texRead limit data offs = .ok names := by
  obtain ⟨data, offs, h1, h2⟩ := texFold_spec limit names [] [] [] (fun n h => (hn n h).1) trivial
  exact ⟨data, offs, h1, texRead_of_inv limit data offs names hn (by simpa using h2)⟩

theorem texFold_too_long (limit : Nat) : ∀ (names : List Bytes) (st : Bytes × List Nat),
    (∃ n ∈ names, limit ≤ n.length) → texFold limit st names = .error .tooLong := by
  intro names
  induction names with
  | nil => intro st h; obtain ⟨n, hn, _⟩ := h; cases hn
  | cons n ns ih =>
    intro st h
    by_cases hl : limit ≤ n.length
    · simp [texFold, texStep, hl]
    · have hex : ∃ m ∈ ns, limit ≤ m.length := by
        obtain ⟨m, hm, hml⟩ := h
        rcases List.mem_cons.mp hm with rfl | hm'
        · exact absurd hml hl
        · exact ⟨m, hm', hml⟩
      simp only [texFold, texStep, hl, if_false]
      cases findSubFrom (n ++ [0]) 0 st.1 <;> exact ih _ hex


/-! ## visibility lump -/

theorem rle_roundtrip_at (data : Bytes) (start : Nat) (d post : Bytes) (m : Nat)
    (hd : d.length = (m + 7) / 8) (hpost : wfStream post = true)
    (h : data.drop start = rleEncode d ++ post) : rleDecode data start (some m) = .ok d := by
  obtain ⟨r, h', hr, _⟩ := dec_enc_aux ((m + 7) / 8) d 0 0 true post (by simp [hd])
    (good_of_wf _ _ post (Nat.le_refl _) hpost _)
  simp only [zeros, List.replicate_zero, List.nil_append] at hr
  simp only [rleDecode, retBytes, h, rleEncode, hr]
  rw [List.take_left' hd]

theorem wfStream_visRows : ∀ (ps as : List Bytes) (off : Nat), wfStream (visRows off ps as).2 = true := by
  intro ps
  induction ps with
  | nil => intro as off; simp [visRows, wfStream]
  | cons p ps ih =>
    intro as off
    cases as with
    | nil => simp [visRows, wfStream]
    | cons a as =>
      simp only [visRows]
      rw [List.append_assoc]
      apply wfStream_append _ _ _ (Nat.le_refl _) (wfStream_rleEncode p)
      exact wfStream_append _ _ _ (Nat.le_refl _) (wfStream_rleEncode a) (ih as _)

theorem mapError_ok {ε ε' α : Type} (f : ε → ε') (r : Except ε α) (b : α) (h : r.mapError f = .ok b) : r = .ok b := by
  cases r with
  | ok x => simpa [Except.mapError] using h
  | error x => simp [Except.mapError] at h

theorem bind_ok {ε α β : Type} (x : Except ε α) (f : α → Except ε β) (b : β) (h : x.bind f = .ok b) :
    ∃ a, x = .ok a ∧ f a = .ok b := by
  cases x with
  | ok a => exact ⟨a, rfl, h⟩
  | error e => simp [Except.bind] at h

theorem map_ok {ε α β : Type} (x : Except ε α) (f : α → β) (b : β) (h : x.map f = .ok b) :
    ∃ a, x = .ok a ∧ b = f a := by
  cases x with
  | ok a => exact ⟨a, rfl, by simpa [Except.map] using h.symm⟩
  | error e => simp [Except.map] at h

theorem pack32_ok {n : Nat} {b : Bytes} (h : pack32 n = .ok b) : packInt 4 true (n : Int) = .ok b :=
  mapError_ok _ _ _ h

theorem pack32_spec {n : Nat} {b : Bytes} (h : pack32 n = .ok b) :
    b.length = 4 ∧ unpackInt 4 true b = (n : Int) :=
  ⟨packInt_length (pack32_ok h), unpackInt_packInt 4 (by decide) true _ _ (pack32_ok h)⟩

theorem visEntry_ok {p a : Nat} {e : Bytes} (h : visEntry (p, a) = .ok e) :
    ∃ bp ba, pack32 p = .ok bp ∧ pack32 a = .ok ba ∧ e = bp ++ ba := by
  obtain ⟨bp, h1, h2⟩ := bind_ok _ _ _ h
  obtain ⟨ba, h3, h4⟩ := map_ok _ _ _ h2
  exact ⟨bp, ba, h1, h3, h4⟩

theorem catOk_cons_ok {x : Except LumpErr Bytes} {xs : List (Except LumpErr Bytes)} {t : Bytes}
    (h : catOk (x :: xs) = .ok t) : ∃ b r, x = .ok b ∧ catOk xs = .ok r ∧ t = b ++ r := by
  simp only [catOk] at h
  cases x with
  | error e => simp at h
  | ok b =>
    simp only at h
    cases hr : catOk xs with
    | error e => simp [hr] at h
    | ok r => simp only [hr] at h; exact ⟨b, r, rfl, rfl, by simpa using h.symm⟩

theorem visReadRows_spec (count : Nat) (data : Bytes) : ∀ (ps as : List Bytes) (off i : Nat) (tbl : Bytes),
    ps.length = as.length →
    (∀ r ∈ ps, r.length = (count + 7) / 8) → (∀ r ∈ as, r.length = (count + 7) / 8) →
    visTable (visRows off ps as).1 = .ok tbl →
    (data.drop (4 + 8 * i)).take (8 * ps.length) = tbl →
    data.drop off = (visRows off ps as).2 →
    visReadRows data count ps.length i = .ok (ps, as) := by
  intro ps
  induction ps with
  | nil =>
    intro as off i tbl hl _ _ _ _ _
    cases as with
    | nil => simp [visReadRows]
    | cons _ _ => simp at hl
  | cons p ps ih =>
    intro as off i tbl hl hp ha htbl hent hrows
    cases as with
    | nil => simp at hl
    | cons a as =>
      simp only [visRows] at htbl hrows
      simp only [visTable, List.map_cons] at htbl
      obtain ⟨e, tbl', he, htl, htbl⟩ := catOk_cons_ok htbl
      obtain ⟨bp, ba, hbp, hba, hee⟩ := visEntry_ok he
      subst hee
      obtain ⟨lbp, ubp⟩ := pack32_spec hbp
      obtain ⟨lba, uba⟩ := pack32_spec hba
      have hent8 : (data.drop (4 + 8 * i)).take 8 = bp ++ ba := by
        have h8 : 8 ≤ 8 * (p :: ps).length := by simp; omega
        have := congrArg (List.take 8) hent
        rw [List.take_take, Nat.min_eq_left h8] at this
        rw [this, htbl, List.take_left' (by simp [lbp, lba])]
      have hrest : (data.drop (4 + 8 * (i + 1))).take (8 * ps.length) = tbl' := by
        have := congrArg (List.drop 8) hent
        rw [List.drop_take, List.drop_drop] at this
        have e1 : 4 + 8 * i + 8 = 4 + 8 * (i + 1) := by omega
        have e2 : 8 * (p :: ps).length - 8 = 8 * ps.length := by simp; omega
        rw [e1, e2] at this
        rw [this, htbl, List.drop_left' (by simp [lbp, lba])]
      have hrp : rleDecode data off (some count) = .ok p := by
        apply rle_roundtrip_at data off p _ count (hp p (by simp)) _ (by rw [hrows, List.append_assoc])
        exact wfStream_append _ _ _ (Nat.le_refl _) (wfStream_rleEncode a) (wfStream_visRows ps as _)
      have hdrop2 : data.drop (off + (rleEncode p).length) = rleEncode a ++ (visRows (off + (rleEncode p).length + (rleEncode a).length) ps as).2 := by
        rw [← List.drop_drop, hrows, List.append_assoc, List.drop_left]
      have hra : rleDecode data (off + (rleEncode p).length) (some count) = .ok a :=
        rle_roundtrip_at data _ a _ count (ha a (by simp)) (wfStream_visRows ps as _) hdrop2
      have hdrop3 : data.drop (off + (rleEncode p).length + (rleEncode a).length) = (visRows (off + (rleEncode p).length + (rleEncode a).length) ps as).2 := by
        rw [← List.drop_drop, hdrop2, List.drop_left]
      have hih := ih as (off + (rleEncode p).length + (rleEncode a).length) (i + 1) tbl' (by simpa using hl)
        (fun r hr => hp r (by simp [hr])) (fun r hr => ha r (by simp [hr])) htl hrest hdrop3
      simp only [List.length_cons, visReadRows, hent8]
      have hl8 : ¬ ((bp ++ ba).length < 8) := by simp [lbp, lba]
      simp only [hl8, if_false, List.take_left' lbp, List.drop_left' lbp, ubp, uba]
      have hnn : ¬ (((off : Nat) : Int) < 0 ∨ ((off + (rleEncode p).length : Nat) : Int) < 0) := by omega
      simp only [hnn, if_false, Int.toNat_natCast, hrp, hra, hih]

theorem catOk_length8 : ∀ (l : List (Nat × Nat)) (tbl : Bytes), visTable l = .ok tbl → tbl.length = 8 * l.length := by
  intro l
  induction l with
  | nil => intro tbl h; simp [visTable, catOk] at h; subst h; rfl
  | cons x xs ih =>
    intro tbl h
    obtain ⟨p, a⟩ := x
    simp only [visTable, List.map_cons] at h
    obtain ⟨e, t, he, ht, htbl⟩ := catOk_cons_ok h
    obtain ⟨bp, ba, hbp, hba, hee⟩ := visEntry_ok he
    subst hee; subst htbl
    simp [(pack32_spec hbp).1, (pack32_spec hba).1, ih t ht]; omega

theorem visRows_length : ∀ (ps as : List Bytes) (off : Nat), ps.length = as.length →
    (visRows off ps as).1.length = ps.length := by
  intro ps
  induction ps with
  | nil => intro as off _; simp [visRows]
  | cons p ps ih =>
    intro as off hl
    cases as with
    | nil => simp at hl
    | cons a as => simp [visRows, ih as _ (by simpa using hl)]

/-- **Visibility lump round trip.** If `_lmp_write_visibility` succeeds (all offsets fit `int32`) on
`n` clusters whose rows all have `ceil(n/8)` bytes, `_lmp_read_visibility` returns the same rows. -/
theorem vis_roundtrip (pvs pas : List Bytes) (data : Bytes)
    (hp : ∀ r ∈ pvs, r.length = (pvs.length + 7) / 8) (ha : ∀ r ∈ pas, r.length = (pvs.length + 7) / 8)
    (h : visWrite pvs pas = .ok data) : visRead data = .ok (pvs, pas) := by
  unfold visWrite at h
  split at h
  · cases h
  · rename_i hl
    have hl : pvs.length = pas.length := by simpa using hl
    obtain ⟨hdr, hh, h⟩ := bind_ok _ _ _ h
    obtain ⟨tbl, ht, h⟩ := map_ok _ _ _ h
    obtain ⟨lh, uh⟩ := pack32_spec hh
    have ltbl : tbl.length = 8 * pvs.length := by
      rw [catOk_length8 _ _ ht, visRows_length _ _ _ hl]
    subst h
    unfold visRead
    have hlen : ¬ ((hdr ++ tbl ++ (visRows (4 + 8 * pvs.length) pvs pas).2).length < 4) := by simp [lh]
    rw [if_neg hlen]
    have htake : (hdr ++ tbl ++ (visRows (4 + 8 * pvs.length) pvs pas).2).take 4 = hdr := by
      rw [List.append_assoc, List.take_left' lh]
    simp only [htake, uh]
    rw [if_neg (by omega), Int.toNat_natCast]
    apply visReadRows_spec pvs.length _ pvs pas (4 + 8 * pvs.length) 0 tbl hl hp ha ht
    · simp only [Nat.mul_zero, Nat.add_zero]
      rw [List.append_assoc, List.drop_left' lh, List.take_left' ltbl]
    · rw [show 4 + 8 * pvs.length = (hdr ++ tbl).length by simp [lh, ltbl], List.drop_left]

end C11
