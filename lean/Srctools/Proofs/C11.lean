import Srctools.Model.C11
import Srctools.Proofs.StructCodec
/-!
# Proofs for C11 (core only)

* finders: `Finder.call_spec`, `EFinder.call_spec`
* run-length coding: `rle_roundtrip`, `rle_roundtrip_in_stream`
-/
namespace C11
open StructCodec

section finders
variable {α κ : Type} [DecidableEq κ]

theorem lastIdxFrom_spec (p : α → Bool) (l : List α) (i j : Nat) (h : lastIdxFrom p i l = some j) :
    i ≤ j ∧ ∃ y, l[j - i]? = some y ∧ p y = true := by
  induction l generalizing i with
  | nil => simp [lastIdxFrom] at h
  | cons x xs ih =>
    simp only [lastIdxFrom] at h
    split at h
    · rename_i j' hj
      injection h with h; subst h
      obtain ⟨h1, y, hy, hp⟩ := ih (i + 1) hj
      refine ⟨by omega, y, ?_, hp⟩
      have : j' - i = (j' - (i + 1)) + 1 := by omega
      rw [this, List.getElem?_cons_succ]; exact hy
    · split at h
      · rename_i hp
        injection h with h; subst h
        exact ⟨Nat.le_refl _, x, by simp, hp⟩
      · cases h

/-- Soundness invariant of the dict of a `find_or_insert` closure. -/
def Finder.Inv (key : α → κ) (f : Finder α κ) : Prop :=
  ∀ k i, f.dict k = some i → ∃ y, f.list[i]? = some y ∧ key y = k

theorem Finder.mk'_inv (key : α → κ) (l : List α) : (Finder.mk' key l).Inv key := by
  intro k i h
  obtain ⟨_, y, hy, hp⟩ := lastIdxFrom_spec _ l 0 i h
  exact ⟨y, by simpa [Finder.mk'] using hy, by simpa using hp⟩

theorem Finder.call_spec (key : α → κ) (f : Finder α κ) (hf : f.Inv key) (x : α) :
    let r := f.call key x
    (∃ y, r.2.list[r.1]? = some y ∧ key y = key x) ∧ f.list <+: r.2.list ∧ r.2.Inv key := by
  unfold Finder.call
  split
  · rename_i i hi
    exact ⟨hf _ _ hi, List.prefix_refl _, hf⟩
  · rename_i hi
    refine ⟨⟨x, by simp, rfl⟩, List.prefix_append _ _, ?_⟩
    intro k i h
    simp only at h
    split at h
    · rename_i hk
      injection h with h; subst h; subst hk
      exact ⟨x, by simp, rfl⟩
    · obtain ⟨y, hy, hk⟩ := hf k i h
      refine ⟨y, ?_, hk⟩
      have hlt : i < f.list.length := by
        rcases Nat.lt_or_ge i f.list.length with h | h
        · exact h
        · rw [List.getElem?_eq_none h] at hy; cases hy
      simp [List.getElem?_append_left hlt, hy]

theorem zip_all_keys (key : α → κ) (items s : List α) (hlen : s.length = items.length)
    (h : ((List.zip items s).all fun p => key p.1 == key p.2) = true) :
    s.map key = items.map key := by
  induction items generalizing s with
  | nil => cases s <;> simp_all
  | cons a as ih =>
    cases s with
    | nil => simp at hlen
    | cons b bs =>
      simp only [List.zip_cons_cons, List.all_cons, Bool.and_eq_true, beq_iff_eq] at h
      simp only [List.map_cons, List.cons.injEq]
      exact ⟨h.1.symm, ih bs (by simpa using hlen) h.2⟩

theorem zipMatches_spec (key : α → κ) (l items : List α) (i : Nat)
    (hb : i + items.length ≤ l.length) (h : zipMatches key l items i = true) :
    ((l.drop i).take items.length).map key = items.map key := by
  apply zip_all_keys key items _ _ h
  simp; omega

theorem EFinder.call_spec (key : α → κ) (f : EFinder α κ) (items : List α) :
    let r := f.call true key items
    ((r.2.list.drop r.1).take items.length).map key = items.map key ∧ f.list <+: r.2.list := by
  unfold EFinder.call
  cases items with
  | nil => simp
  | cons x xs =>
    simp only
    split
    · rename_i i hi
      have := List.find?_some hi
      simp only [candidateOk, Bool.not_true, Bool.false_or, Bool.and_eq_true, decide_eq_true_eq] at this
      exact ⟨zipMatches_spec key f.list (x :: xs) i this.1 this.2, List.prefix_refl _⟩
    · exact ⟨by simp, List.prefix_append _ _⟩

end finders

/-! ## run-length coding -/


theorem emitZeros_zero : emitZeros 0 = [] := by rw [emitZeros]; simp
theorem emitZeros_pos (n : Nat) (h : 0 < n) :
    emitZeros n = 0 :: UInt8.ofNat (min 255 n) :: emitZeros (n - 255) := by
  rw [emitZeros]; simp [Nat.ne_of_gt h]

theorem zeros_add (a b : Nat) : zeros (a + b) = zeros a ++ zeros b := by
  simp [zeros, List.replicate_append_replicate]

theorem u8_min (n : Nat) : (UInt8.ofNat (min 255 n)).toNat = min 255 n := by
  rw [UInt8.toNat_ofNat']; omega

theorem u8_min_ne (n : Nat) (h : 0 < n) : UInt8.ofNat (min 255 n) ≠ 0 := by
  intro h0
  have := congrArg UInt8.toNat h0
  rw [u8_min] at this
  simp at this; omega

theorem decAux_nz (ret : Nat) (head : Bool) (n : Nat) (b : UInt8) (rest : Bytes)
    (hb : b ≠ 0) (hlt : ¬ (ret ≤ n)) :
    decAux ret head n (b :: rest) =
      match decAux ret false (n + 1) rest with
      | .ok r => .ok (b :: r)
      | .error e => .error e := by
  rw [decAux.eq_def]
  simp only [hb, hlt, decide_false, Bool.and_false, Bool.false_eq_true, if_false, ne_eq,
    not_false_eq_true, if_true]
  cases decAux ret false (n + 1) rest <;> rfl

/-- decoding `post` at output position `m` cannot fail, whatever the loop state -/
def Good (ret m : Nat) (post : Bytes) : Prop := ∀ h, ∃ r, decAux ret h m post = .ok r

theorem good_nil (ret m : Nat) : Good ret m [] := fun _ => ⟨[], by simp [decAux]⟩

theorem dec_emitZeros (ret : Nat) (run : Nat) : ∀ (n : Nat) (head : Bool) (post : Bytes),
    n + run ≤ ret → Good ret (n + run) post →
    ∃ r h', decAux ret head n (emitZeros run ++ post) = .ok (zeros run ++ r) ∧
      decAux ret h' (n + run) post = .ok r := by
  induction run using Nat.strongRecOn with
  | _ run ih =>
    intro n head post hle hg
    by_cases h0 : run = 0
    · subst h0
      obtain ⟨r, hr⟩ := hg head
      exact ⟨r, head, by simpa [emitZeros_zero, zeros] using hr, hr⟩
    · have hpos : 0 < run := Nat.pos_of_ne_zero h0
      rw [emitZeros_pos run hpos]
      have hlt : ¬ (ret ≤ n) := by omega
      obtain ⟨r, h', hr, hr'⟩ := ih (run - 255) (by omega) (n + min 255 run) true post (by omega)
        (by have : n + min 255 run + (run - 255) = n + run := by omega
            rw [this]; exact hg)
      refine ⟨r, h', ?_, ?_⟩
      · simp only [List.cons_append, decAux, hlt, decide_false, Bool.and_false, Bool.false_eq_true,
          if_false, ne_eq, not_true_eq_false, u8_min, hr]
        have : run = min 255 run + (run - 255) := by omega
        conv => rhs; rw [this, zeros_add]
        simp
      · have : n + min 255 run + (run - 255) = n + run := by omega
        rw [this] at hr'; exact hr'

theorem dec_enc_aux (ret : Nat) (d : Bytes) : ∀ (run n : Nat) (head : Bool) (post : Bytes),
    n + run + d.length ≤ ret → Good ret (n + run + d.length) post →
    ∃ r h', decAux ret head n (encAux run d ++ post) = .ok (zeros run ++ d ++ r) ∧
      decAux ret h' (n + run + d.length) post = .ok r := by
  induction d with
  | nil =>
    intro run n head post hle hg
    simpa [encAux] using dec_emitZeros ret run n head post (by simpa using hle) (by simpa using hg)
  | cons b rest ih =>
    intro run n head post hle hg
    simp only [List.length_cons] at hle hg
    by_cases hb : b = 0
    · subst hb
      simp only [encAux, if_true]
      obtain ⟨r, h', hr, hr'⟩ := ih (run + 1) n head post (by omega)
        (by have : n + (run + 1) + rest.length = n + run + (rest.length + 1) := by omega
            rw [this]; exact hg)
      refine ⟨r, h', ?_, ?_⟩
      · rw [hr, zeros_add]; simp [zeros]
      · have : n + (run + 1) + rest.length = n + run + (rest.length + 1) := by omega
        simpa [this] using hr'
    · simp only [encAux, hb, if_false, List.append_assoc, List.cons_append]
      -- first the pending zeros, then the byte `b`, then the rest
      obtain ⟨r, h', hr, hr'⟩ := ih 0 (n + run + 1) false post (by omega)
        (by have : n + run + 1 + 0 + rest.length = n + run + (rest.length + 1) := by omega
            rw [this]; exact hg)
      have hlt : ¬ (ret ≤ n + run) := by omega
      have hstep : ∀ h, decAux ret h (n + run) (b :: (encAux 0 rest ++ post)) = .ok (b :: (rest ++ r)) := by
        intro h
        rw [decAux_nz ret h (n + run) b _ hb hlt, hr]
        simp [zeros]
      obtain ⟨r2, h2, hr2, hr2'⟩ := dec_emitZeros ret run n head (b :: (encAux 0 rest ++ post)) (by omega)
        (fun h => ⟨_, hstep h⟩)
      rw [hstep h2] at hr2'
      injection hr2' with hr2'
      subst hr2'
      refine ⟨r, h', ?_, ?_⟩
      · rw [hr2]
      · have : n + run + 1 + 0 + rest.length = n + run + (rest.length + 1) := by omega
        simpa [this] using hr'

/-- `runlength_decode(runlength_encode(d)) == d` (default arguments: start 0, no cluster bound;
the code bounds the output by `1 << 128` bytes). -/
theorem rle_roundtrip (d : Bytes) (h : d.length ≤ 2 ^ 128) :
    rleDecode (rleEncode d) 0 none = .ok d := by
  obtain ⟨r, h', hr, hr'⟩ := dec_enc_aux (2 ^ 128) d 0 0 true [] (by simpa using h) (good_nil _ _)
  simp only [decAux] at hr'
  injection hr' with hr'
  subst hr'
  simp only [List.append_nil, zeros, List.replicate_zero, List.nil_append] at hr
  simp only [rleDecode, retBytes, List.drop_zero, rleEncode, hr]
  rw [List.take_of_length_le h]

/-- A well-formed RLE stream: every zero marker is followed by its count byte. -/
def wfStream : Bytes → Bool
  | [] => true
  | b :: rest =>
    if b ≠ 0 then wfStream rest
    else match rest with
      | [] => false
      | _ :: r => wfStream r

theorem wfStream_nz (b : UInt8) (rest : Bytes) (hb : b ≠ 0) : wfStream (b :: rest) = wfStream rest := by
  rw [wfStream.eq_def]; simp [hb]

theorem wfStream_z (z : UInt8) (rest : Bytes) : wfStream (0 :: z :: rest) = wfStream rest := by
  rw [wfStream.eq_def]; simp

theorem decAux_z (ret : Nat) (head : Bool) (n : Nat) (z : UInt8) (rest : Bytes) (hlt : ¬ (ret ≤ n)) :
    decAux ret head n (0 :: z :: rest) =
      match decAux ret true (n + z.toNat) rest with
      | .ok r => .ok (zeros z.toNat ++ r)
      | .error e => .error e := by
  rw [decAux.eq_def]
  simp only [hlt, decide_false, Bool.and_false, Bool.false_eq_true, if_false, ne_eq,
    not_true_eq_false]
  cases decAux ret true (n + z.toNat) rest <;> rfl

theorem decAux_stop (ret : Nat) (n : Nat) (s : Bytes) (h : ret ≤ n) : decAux ret true n s = .ok [] := by
  cases s with
  | nil => simp [decAux]
  | cons b rest => rw [decAux.eq_def]; simp [h]

theorem good_of_wf (ret : Nat) : ∀ (k : Nat) (s : Bytes), s.length ≤ k → wfStream s = true →
    ∀ m, Good ret m s := by
  intro k
  induction k with
  | zero =>
    intro s hs _ m
    have : s = [] := List.eq_nil_of_length_eq_zero (by omega)
    subst this; exact good_nil _ _
  | succ k ih =>
    intro s hs hw m h
    cases s with
    | nil => exact good_nil _ _ h
    | cons b rest =>
      by_cases hstop : (h && decide (ret ≤ m)) = true
      · exact ⟨[], by rw [decAux.eq_def]; simp [hstop]⟩
      · by_cases hb : b = 0
        · subst hb
          cases rest with
          | nil => simp [wfStream] at hw
          | cons z rest' =>
            rw [wfStream_z] at hw
            obtain ⟨r, hr⟩ := ih rest' (by simp at hs; omega) hw (m + z.toNat) true
            refine ⟨zeros z.toNat ++ r, ?_⟩
            rw [decAux.eq_def]
            simp only [hstop, Bool.false_eq_true, if_false, ne_eq, not_true_eq_false, hr]
        · rw [wfStream_nz b rest hb] at hw
          obtain ⟨r, hr⟩ := ih rest (by simp at hs; omega) hw (m + 1) false
          refine ⟨b :: r, ?_⟩
          rw [decAux.eq_def]
          simp only [hstop, Bool.false_eq_true, if_false, ne_eq, hb, not_false_eq_true, if_true, hr]

theorem wfStream_append : ∀ (k : Nat) (a b : Bytes), a.length ≤ k → wfStream a = true → wfStream b = true →
    wfStream (a ++ b) = true := by
  intro k
  induction k with
  | zero =>
    intro a b ha _ hb
    have : a = [] := List.eq_nil_of_length_eq_zero (by omega)
    subst this; simpa using hb
  | succ k ih =>
    intro a b ha hwa hwb
    cases a with
    | nil => simpa using hwb
    | cons x rest =>
      by_cases hx : x = 0
      · subst hx
        cases rest with
        | nil => simp [wfStream] at hwa
        | cons z rest' =>
          rw [wfStream_z] at hwa
          simp only [List.cons_append]
          rw [wfStream_z]
          exact ih rest' b (by simp at ha; omega) hwa hwb
      · rw [wfStream_nz x rest hx] at hwa
        simp only [List.cons_append]
        rw [wfStream_nz x _ hx]
        exact ih rest b (by simp at ha; omega) hwa hwb

theorem wfStream_emitZeros (run : Nat) : wfStream (emitZeros run) = true := by
  induction run using Nat.strongRecOn with
  | _ run ih =>
    by_cases h0 : run = 0
    · subst h0; simp [emitZeros_zero, wfStream]
    · rw [emitZeros_pos run (Nat.pos_of_ne_zero h0), wfStream_z]
      exact ih (run - 255) (by omega)

theorem wfStream_encAux (d : Bytes) : ∀ run, wfStream (encAux run d) = true := by
  induction d with
  | nil => intro run; simpa [encAux] using wfStream_emitZeros run
  | cons b rest ih =>
    intro run
    by_cases hb : b = 0
    · subst hb; simpa [encAux] using ih (run + 1)
    · simp only [encAux, hb, if_false]
      apply wfStream_append _ _ _ (Nat.le_refl _) (wfStream_emitZeros run)
      rw [wfStream_nz b _ hb]; exact ih 0

theorem wfStream_rleEncode (d : Bytes) : wfStream (rleEncode d) = true := wfStream_encAux d 0

/-- **Row inside the visibility lump.** A row of exactly `ceil(m / 8)` bytes, encoded and embedded
at offset `|pre|` of a buffer whose tail is a well-formed RLE stream (e.g. further rows), is decoded
exactly by `runlength_decode(data, |pre|, m)`. -/
theorem rle_roundtrip_in_stream (pre post d : Bytes) (m : Nat) (hd : d.length = (m + 7) / 8)
    (hpost : wfStream post = true) :
    rleDecode (pre ++ (rleEncode d ++ post)) pre.length (some m) = .ok d := by
  obtain ⟨r, h', hr, _⟩ := dec_enc_aux ((m + 7) / 8) d 0 0 true post (by simp [hd])
    (good_of_wf _ _ post (Nat.le_refl _) hpost _)
  simp only [zeros, List.replicate_zero, List.nil_append] at hr
  simp only [rleDecode, retBytes, List.drop_left, rleEncode, hr]
  rw [List.take_left' hd]

end C11
