import Srctools.Proofs.C15Struct
/-!
# C15 — lemmas for the file-level round trip `readFile (fileBytes …) = view`
-/
namespace C15

/-! ## slices, fields -/

theorem slice_append_left (a b : List Nat) (off n : Nat) (h : off + n ≤ a.length) :
    slice (a ++ b) off n = slice a off n := by
  unfold slice
  rw [List.drop_append_of_le_length (by omega), List.take_append_of_le_length (by simp; omega)]

theorem slice_append_right (a b : List Nat) (off n : Nat) (h : a.length ≤ off) :
    slice (a ++ b) off n = slice b (off - a.length) n := by
  unfold slice
  obtain ⟨i, rfl⟩ : ∃ i, off = a.length + i := ⟨off - a.length, by omega⟩
  rw [List.drop_append]
  simp [List.drop_of_length_le]

theorem slice_prefix (a b : List Nat) : slice (a ++ b) 0 a.length = a := by
  simp [slice]

theorem slice_mid (p a b : List Nat) : slice (p ++ a ++ b) p.length a.length = a := by
  rw [List.append_assoc, slice_append_right _ _ _ _ (Nat.le_refl _)]
  simp [slice]

theorem slice_mid' (p a b : List Nat) (n : Nat) (hn : n = a.length) :
    slice (p ++ (a ++ b)) p.length n = a := by
  subst hn
  rw [slice_append_right _ _ _ _ (Nat.le_refl _)]
  simp [slice]

theorem leDecode_le' (k n : Nat) (h : n < 256 ^ k) : leDecode (le k n) = n := by
  rw [leDecode_le, Nat.mod_eq_of_lt h]

@[simp] theorem length_le' (k n : Nat) : (le k n).length = k := length_le k n
@[simp] theorem length_zeros (n : Nat) : (zeros n).length = n := by simp [zeros]

theorem splitW_flatten (fs : List (List Nat)) (rest : List Nat) :
    splitW (fs.map List.length) (fs.flatten ++ rest) = some (fs, rest) := by
  induction fs with
  | nil => simp [splitW]
  | cons f fs ih =>
    simp only [List.map_cons, List.flatten_cons, List.append_assoc, splitW, List.length_append]
    rw [if_neg (by omega), List.drop_left, List.take_left, ih]

/-- `splitW` on explicitly given widths. -/
theorem splitW_of (ws : List Nat) (fs : List (List Nat)) (rest l : List Nat)
    (hw : ws = fs.map List.length) (hl : l = fs.flatten ++ rest) : splitW ws l = some (fs, rest) := by
  subst hw hl; exact splitW_flatten fs rest

theorem u32At_mid (p rest : List Nat) (n : Nat) (h : n < 256 ^ 4) :
    u32At (p ++ (le 4 n ++ rest)) p.length = .ok n := by
  unfold u32At
  rw [if_pos (by simp), slice_mid' p (le 4 n) rest 4 (by simp), leDecode_le' 4 n h]
  rfl

/-! ## particle sheet -/

/-- what a sheet frame reads back as: version 0 stores one coordinate set, repeated four times. -/
def normFrame (ver : Nat) (fr : SheetFrame) : SheetFrame :=
  if ver = 1 then fr
  else ⟨fr.dur, fr.coords.take 16 ++ fr.coords.take 16 ++ fr.coords.take 16 ++ fr.coords.take 16⟩

def normSeq (ver : Nat) (s : SheetSeq) : SheetSeq := { s with frames := s.frames.map (normFrame ver) }

def frameWF (fr : SheetFrame) : Bool := fr.dur.length == 4 && fr.coords.length == 64

def seqWF (s : SheetSeq) : Bool :=
  decide (s.num < 64) && s.duration.length == 4 && decide (s.frames.length < 256 ^ 4) && s.frames.all frameWF

theorem parseFrames_bytes (ver : Nat) (hver : ver ≤ 1) (frs : List SheetFrame)
    (hwf : frs.all frameWF = true) (rest : List Nat) :
    parseFrames ver frs.length ((frs.map (sheetFrameBytes ver)).flatten ++ rest)
      = .ok (frs.map (normFrame ver), rest) := by
  induction frs with
  | nil => simp [parseFrames]; rfl
  | cons fr frs ih =>
    simp only [List.all_cons, Bool.and_eq_true, frameWF, beq_iff_eq] at hwf
    obtain ⟨⟨hd, hc⟩, hrest⟩ := hwf
    have hv : ver = 0 ∨ ver = 1 := by omega
    simp only [List.length_cons, List.map_cons, List.flatten_cons, List.append_assoc, parseFrames,
      sheetFrameBytes]
    rcases hv with rfl | rfl
    · have hl : ¬ ((fr.dur ++ (fr.coords.take 16 ++ ((frs.map (sheetFrameBytes 0)).flatten ++ rest))).length
          < 4 + 16) := by simp [hd, hc]; omega
      simp only [if_true, Nat.zero_ne_one, if_false, hl]
      have t4 : (fr.dur ++ (fr.coords.take 16 ++ ((frs.map (sheetFrameBytes 0)).flatten ++ rest))).take 4
          = fr.dur := by rw [List.take_append_of_le_length (by omega)]; simp [← hd]
      have d4 : ∀ x : List Nat, (fr.dur ++ x).drop 4 = x := by intro x; rw [← hd]; simp
      have e20 : (fr.dur ++ (fr.coords.take 16 ++ ((frs.map (sheetFrameBytes 0)).flatten ++ rest))).drop (4 + 16)
          = (frs.map (sheetFrameBytes 0)).flatten ++ rest := by
        rw [← List.drop_drop, d4]
        have : (fr.coords.take 16).length = 16 := by simp [hc]
        rw [← this]; simp
      have c16 : ((fr.dur ++ (fr.coords.take 16 ++ ((frs.map (sheetFrameBytes 0)).flatten ++ rest))).drop 4).take 16
          = fr.coords.take 16 := by
        rw [d4]
        have : (fr.coords.take 16).length = 16 := by simp [hc]
        rw [← this]; simp
      rw [t4, c16, e20, ih hrest]
      simp [normFrame]; rfl
    · have hl : ¬ ((fr.dur ++ (fr.coords ++ ((frs.map (sheetFrameBytes 1)).flatten ++ rest))).length
          < 4 + 64) := by simp [hd, hc]; omega
      simp only [if_true, Nat.one_ne_zero, if_false, hl]
      have t4 : (fr.dur ++ (fr.coords ++ ((frs.map (sheetFrameBytes 1)).flatten ++ rest))).take 4
          = fr.dur := by rw [List.take_append_of_le_length (by omega)]; simp [← hd]
      have d4 : ∀ x : List Nat, (fr.dur ++ x).drop 4 = x := by intro x; rw [← hd]; simp
      have e68 : (fr.dur ++ (fr.coords ++ ((frs.map (sheetFrameBytes 1)).flatten ++ rest))).drop (4 + 64)
          = (frs.map (sheetFrameBytes 1)).flatten ++ rest := by
        rw [← List.drop_drop, d4, ← hc]; simp
      have c64 : ((fr.dur ++ (fr.coords ++ ((frs.map (sheetFrameBytes 1)).flatten ++ rest))).drop 4).take 64
          = fr.coords := by rw [d4, ← hc]; simp
      rw [t4, c64, e68, ih hrest]
      simp [normFrame]; rfl

theorem parseSeqs_bytes (ver : Nat) (hver : ver ≤ 1) (seqs : List SheetSeq) :
    ∀ (seen : List Nat) (rest : List Nat), seqs.all seqWF = true → (seqs.map (·.num)).Nodup →
      (∀ s ∈ seqs, s.num ∉ seen) →
      parseSeqs ver seqs.length seen ((seqs.map (sheetSeqBytes ver)).flatten ++ rest)
        = .ok (seqs.map (normSeq ver)) := by
  induction seqs with
  | nil => intro seen rest _ _ _; rfl
  | cons s ss ih =>
    intro seen rest hwf hnd hdis
    simp only [List.all_cons, Bool.and_eq_true, seqWF, beq_iff_eq, decide_eq_true_eq] at hwf
    obtain ⟨⟨⟨⟨hnum, hdur⟩, hfl⟩, hfr⟩, hrest⟩ := hwf
    simp only [List.map_cons, List.nodup_cons] at hnd
    have hsplit : splitW [4, 3, 1, 4, 4]
        ((List.map (sheetSeqBytes ver) (s :: ss)).flatten ++ rest)
        = some ([le 4 s.num, zeros 3, [if s.clamp then 1 else 0], le 4 s.frames.length, s.duration],
            (s.frames.map (sheetFrameBytes ver)).flatten ++
              ((ss.map (sheetSeqBytes ver)).flatten ++ rest)) := by
      apply splitW_of
      · simp [hdur]
      · simp [sheetSeqBytes, List.append_assoc]
    simp only [List.length_cons, parseSeqs, hsplit]
    rw [leDecode_le' 4 s.num (by omega), leDecode_le' 4 _ hfl]
    have h64 : ¬ s.num ≥ 64 := by omega
    have hseen : seen.contains s.num = false := by
      simpa using hdis s (by simp)
    simp only [h64, if_false, hseen, Bool.false_eq_true]
    rw [parseFrames_bytes ver hver s.frames hfr]
    simp only []
    rw [ih (s.num :: seen) rest hrest hnd.2 (by
      intro s' hs'
      simp only [List.mem_cons, not_or]
      refine ⟨?_, hdis s' (by simp [hs'])⟩
      intro h
      exact hnd.1 (List.mem_map.mpr ⟨s', hs', h⟩))]
    simp only [List.map_cons, normSeq]
    cases hc : s.clamp <;> simp [leDecode, pure, Except.pure]

def sheetWF (seqs : List SheetSeq) : Bool :=
  decide (seqs.length ≤ 64) && seqs.all seqWF && decide ((seqs.map (·.num)).Nodup)

theorem parseSheet_sheetData (seqs : List SheetSeq) (ver : Nat) (hver : ver ≤ 1)
    (hwf : sheetWF seqs = true) : parseSheet (sheetData seqs ver) = .ok (seqs.map (normSeq ver)) := by
  simp only [sheetWF, Bool.and_eq_true, decide_eq_true_eq] at hwf
  obtain ⟨⟨hlen, hall⟩, hnd⟩ := hwf
  have hsplit : splitW [4, 4] (sheetData seqs ver)
      = some ([le 4 ver, le 4 seqs.length], (seqs.map (sheetSeqBytes ver)).flatten ++ []) := by
    apply splitW_of
    · simp
    · simp [sheetData, List.append_assoc]
  simp only [parseSheet, hsplit]
  rw [leDecode_le' 4 ver (by omega), leDecode_le' 4 seqs.length (by omega)]
  simp only [show ¬ ver > 1 by omega, show ¬ seqs.length > 64 by omega, if_false]
  exact parseSeqs_bytes ver hver seqs [] [] hall hnd (by simp)

/-! ## resource table -/

/-- what a resource reads back as: bit `0x02` of the flags is the storage kind. -/
def normRes (r : Res) : Res :=
  if r.isBytes then { r with flags := r.flags &&& 0xFD, ival := 0 }
  else { r with flags := r.flags ||| 2, data := [] }

def resWF (r : Res) : Bool :=
  r.id.length == 3 && decide (r.flags < 256) && decide (r.ival < 256 ^ 4) &&
    decide (r.data.length < 256 ^ 4) && r.id != idLow && r.id != idHigh && r.id != idSheet

theorem flag_facts : ∀ f, f < 256 →
    (f &&& 0xFD) &&& 2 = 0 ∧ (f ||| 2) &&& 2 ≠ 0 ∧ f &&& 0xFD < 256 ∧ f ||| 2 < 256 := by
  decide +kernel

abbrev Entry := List Nat × Nat × Nat

def encEntry (e : Entry) : List Nat := e.1 ++ [e.2.1] ++ le 4 e.2.2

def entryWF (e : Entry) : Bool := e.1.length == 3 && decide (e.2.1 < 256) && decide (e.2.2 < 256 ^ 4)

/-- the table entries of the resources, data blocks starting at `start`. -/
def entriesFrom (start : Nat) : List Res → List Entry
  | [] => []
  | r :: rs =>
    if r.isBytes then (r.id, r.flags &&& 0xFD, start) :: entriesFrom (start + 4 + r.data.length) rs
    else (r.id, r.flags ||| 2, r.ival) :: entriesFrom start rs

def stored (e : Entry) : Res := ⟨e.1, e.2.1, false, e.2.2, []⟩

theorem resEntries_eq (rs : List Res) : ∀ start,
    resEntries rs (resOffsets start rs) = (entriesFrom start rs).map encEntry := by
  induction rs with
  | nil => intro _; rfl
  | cons r rs ih =>
    intro start
    by_cases hb : r.isBytes
    · simp [resEntries, resOffsets, entriesFrom, hb, ih, resEntry, encEntry]
    · simp [resEntries, resOffsets, entriesFrom, hb, ih, resEntry, encEntry]

theorem readEntries_enc (es : List Entry) (hwf : es.all entryWF = true) (rest : List Nat) :
    readEntries es.length ((es.map encEntry).flatten ++ rest) = .ok es := by
  induction es with
  | nil => rfl
  | cons e es ih =>
    obtain ⟨id, fl, dat⟩ := e
    simp only [List.all_cons, Bool.and_eq_true, entryWF, beq_iff_eq, decide_eq_true_eq] at hwf
    obtain ⟨⟨⟨hid, hfl⟩, hdat⟩, hrest⟩ := hwf
    have hsplit : splitW [3, 1, 4] ((List.map encEntry ((id, fl, dat) :: es)).flatten ++ rest)
        = some ([id, [fl], le 4 dat], (es.map encEntry).flatten ++ rest) := by
      apply splitW_of
      · simp [hid]
      · simp [encEntry, List.append_assoc]
    simp only [List.length_cons, readEntries, hsplit, ih hrest]
    rw [leDecode_le' 4 dat hdat]
    simp [leDecode]; rfl

theorem procEntries_plain (es : List Entry) :
    ∀ (acc : List Res) (lo hi : Option Nat) (es' : List Entry),
      (∀ e ∈ es, e.1 ≠ idLow ∧ e.1 ≠ idHigh) → ((acc.map (·.id)) ++ es.map (·.1)).Nodup →
      procEntries (es ++ es') acc lo hi = procEntries es' (acc ++ es.map stored) lo hi := by
  induction es with
  | nil => intro acc lo hi es' _ _; simp
  | cons e es ih =>
    intro acc lo hi es' hres hnd
    obtain ⟨id, fl, dat⟩ := e
    have h1 := hres (id, fl, dat) (by simp)
    have hnot : acc.any (fun r => r.id == id) = false := by
      rw [List.any_eq_false]
      intro r hr heq
      have : id ∈ acc.map (·.id) := List.mem_map.mpr ⟨r, hr, by simpa using heq⟩
      have hd := (List.nodup_append.mp hnd).2.2 id this id (by simp)
      exact hd rfl
    simp only [List.cons_append, procEntries, hnot, Bool.false_eq_true, if_false]
    have hl : (id == idLow) = false := by simpa using h1.1
    have hh : (id == idHigh) = false := by simpa using h1.2
    simp only [hl, hh, Bool.false_eq_true, if_false]
    have e : (⟨id, fl, false, dat, []⟩ : Res) = stored (id, fl, dat) := rfl
    rw [e, ih (acc ++ [stored (id, fl, dat)]) lo hi es'
      (fun e he => hres e (by simp [he]))
      (by
        simp only [List.map_append, List.map_cons, List.map_nil, List.append_assoc,
          List.singleton_append, stored]
        simpa using hnd)]
    simp [stored]

theorem resolveAll_append (file : List Nat) (a b : List Res) (a' b' : List Res)
    (ha : resolveAll file a = .ok a') (hb : resolveAll file b = .ok b') :
    resolveAll file (a ++ b) = .ok (a' ++ b') := by
  induction a generalizing a' with
  | nil => simp [resolveAll, pure, Except.pure] at ha; subst ha; simpa using hb
  | cons r rs ih =>
    simp only [resolveAll] at ha
    cases hr : resolveRes file r with
    | error e => simp [hr] at ha
    | ok r' =>
      cases hrs : resolveAll file rs with
      | error e => simp [hr, hrs] at ha
      | ok rs' =>
        simp [hr, hrs, pure, Except.pure] at ha
        subst ha
        simp [resolveAll, hr, ih rs' hrs, pure, Except.pure]

theorem resolveAll_blocks (rs : List Res) : ∀ (file pre post : List Nat),
    file = pre ++ ((resBlocks rs).flatten ++ post) → rs.all resWF = true →
    resolveAll file ((entriesFrom pre.length rs).map stored) = .ok (rs.map normRes) := by
  induction rs with
  | nil => intro _ _ _ _ _; rfl
  | cons r rs ih =>
    intro file pre post hfile hwf
    simp only [List.all_cons, Bool.and_eq_true] at hwf
    obtain ⟨hr, hrest⟩ := hwf
    simp only [resWF, Bool.and_eq_true, beq_iff_eq, decide_eq_true_eq] at hr
    obtain ⟨⟨⟨⟨⟨⟨hid, hfl⟩, hiv⟩, hdl⟩, _⟩, _⟩, _⟩ := hr
    have F := flag_facts r.flags hfl
    by_cases hb : r.isBytes
    · have hfile' : file = pre ++ (le 4 r.data.length ++ (r.data ++ ((resBlocks rs).flatten ++ post))) := by
        rw [hfile]; simp [resBlocks, hb, List.append_assoc]
      have hres : resolveRes file (stored (r.id, r.flags &&& 0xFD, pre.length)) = .ok (normRes r) := by
        simp only [resolveRes, stored, F.1, if_true]
        rw [hfile', u32At_mid pre _ _ hdl]
        simp only []
        have : slice (pre ++ (le 4 r.data.length ++ (r.data ++ ((resBlocks rs).flatten ++ post))))
            (pre.length + 4) r.data.length = r.data := by
          have := slice_mid' (pre ++ le 4 r.data.length) r.data ((resBlocks rs).flatten ++ post)
            r.data.length rfl
          simpa [List.append_assoc] using this
        rw [this]
        simp [normRes, hb, pure, Except.pure]
      have hrec := ih file (pre ++ (le 4 r.data.length ++ r.data)) post
        (by rw [hfile']; simp [List.append_assoc]) hrest
      simp only [List.length_append, length_le'] at hrec
      simp only [entriesFrom, hb, if_true, List.map_cons, resolveAll, hres]
      rw [show pre.length + 4 + r.data.length = pre.length + (4 + r.data.length) by omega, hrec]
      rfl
    · have hfile' : file = pre ++ ((resBlocks rs).flatten ++ post) := by
        rw [hfile]; simp [resBlocks, hb]
      have hres : resolveRes file (stored (r.id, r.flags ||| 2, r.ival)) = .ok (normRes r) := by
        simp only [resolveRes, stored, F.2.1, if_false]
        simp [normRes, hb, pure, Except.pure]
      simp only [entriesFrom, hb, Bool.false_eq_true, if_false, List.map_cons, resolveAll, hres,
        ih file pre post hfile' hrest]
      rfl

theorem entriesFrom_ids (rs : List Res) : ∀ start, (entriesFrom start rs).map (·.1) = rs.map (·.id) := by
  induction rs with
  | nil => intro _; rfl
  | cons r rs ih => intro start; by_cases hb : r.isBytes <;> simp [entriesFrom, hb, ih]

theorem entriesFrom_length (rs : List Res) : ∀ start, (entriesFrom start rs).length = rs.length := by
  induction rs with
  | nil => intro _; rfl
  | cons r rs ih => intro start; by_cases hb : r.isBytes <;> simp [entriesFrom, hb, ih]

theorem any_id_false (l : List Res) (x : List Nat) (h : x ∉ l.map (·.id)) :
    l.any (fun r => r.id == x) = false := by
  rw [List.any_eq_false]
  intro r hr heq
  exact h (List.mem_map.mpr ⟨r, hr, by simpa using heq⟩)

theorem entriesFrom_wf (rs : List Res) : ∀ start, rs.all resWF = true →
    start + (resBlocks rs).flatten.length < 256 ^ 4 → (entriesFrom start rs).all entryWF = true := by
  induction rs with
  | nil => intro _ _ _; rfl
  | cons r rs ih =>
    intro start hwf hb
    simp only [List.all_cons, Bool.and_eq_true] at hwf
    obtain ⟨hr, hrest⟩ := hwf
    have hr' := hr
    simp only [resWF, Bool.and_eq_true, beq_iff_eq, decide_eq_true_eq] at hr'
    obtain ⟨⟨⟨⟨⟨⟨hid, hfl⟩, hiv⟩, hdl⟩, _⟩, _⟩, _⟩ := hr'
    have F := flag_facts r.flags hfl
    by_cases hbt : r.isBytes
    · simp only [resBlocks, hbt, if_true, List.flatten_cons, List.length_append, length_le'] at hb
      simp only [entriesFrom, hbt, if_true, List.all_cons, Bool.and_eq_true]
      refine ⟨?_, ih _ hrest (by omega)⟩
      simp [entryWF, hid, F.2.2.1]; omega
    · simp only [resBlocks, hbt, Bool.false_eq_true, if_false] at hb
      simp only [entriesFrom, hbt, Bool.false_eq_true, if_false, List.all_cons, Bool.and_eq_true]
      refine ⟨?_, ih _ hrest hb⟩
      simp [entryWF, hid, F.2.2.2]; omega

theorem entries_bytes_length (es : List Entry) (h : es.all entryWF = true) :
    ((es.map encEntry).flatten).length = 8 * es.length := by
  induction es with
  | nil => rfl
  | cons e es ih =>
    simp only [List.all_cons, Bool.and_eq_true, entryWF, beq_iff_eq, decide_eq_true_eq] at h
    simp only [List.map_cons, List.flatten_cons, List.length_append, ih h.2, encEntry, h.1.1.1,
      List.length_cons, List.length_nil, length_le']
    omega

/-- every entry of the resource table, in file order. -/
def allEntries (v : Vtf) (minor sheetVer lowLen : Nat) : List Entry :=
  entriesFrom (headerSize v minor) v.res ++
    ([(idLow, 0, lowOff v minor sheetVer), (idHigh, 0, lowOff v minor sheetVer + lowLen)] ++
      (if hasSheetRes v then [(idSheet, 0, sheetOff v minor)] else []))

theorem allEntries_length (v : Vtf) (minor sheetVer lowLen : Nat) :
    (allEntries v minor sheetVer lowLen).length = resCount v := by
  simp only [allEntries, List.length_append, entriesFrom_length, resCount]
  split <;> simp

theorem resTable_eq (v : Vtf) (minor sheetVer lowLen : Nat) (hm : minor ≥ 3) :
    resTable v minor sheetVer lowLen = zeros 3 ++ (le 4 (resCount v) ++ (zeros 8 ++
      ((allEntries v minor sheetVer lowLen).map encEntry).flatten)) := by
  simp only [resTable, hm, if_true, allEntries, resEntries_eq, List.map_append, List.flatten_append]
  split <;> simp [encEntry, List.append_assoc]

/-- well-formedness of the resource / sheet part (decidable). -/
def resPartWF (v : Vtf) (minor sheetVer lowLen : Nat) : Bool :=
  v.res.all resWF && decide ((v.res.map (·.id)).Nodup) && sheetWF v.sheet && decide (sheetVer ≤ 1) &&
    decide (lowOff v minor sheetVer + lowLen < 256 ^ 4) &&
    decide ((sheetData v.sheet sheetVer).length < 256 ^ 4)

theorem normRes_id (r : Res) : (normRes r).id = r.id := by
  unfold normRes; split <;> rfl

theorem readResources_ok (v : Vtf) (minor sheetVer lowLen : Nat) (H tail file : List Nat)
    (hm : minor ≥ 3) (hH : H.length = preLen minor)
    (hfile : file = H ++ (resTable v minor sheetVer lowLen ++
      ((resBlocks v.res).flatten ++ (sheetBlock v minor sheetVer ++ tail))))
    (hwf : resPartWF v minor sheetVer lowLen = true) :
    readResources file (resTable v minor sheetVer lowLen ++
        ((resBlocks v.res).flatten ++ (sheetBlock v minor sheetVer ++ tail)))
      = .ok (v.res.map normRes, v.sheet.map (normSeq sheetVer), some (lowOff v minor sheetVer),
             some (lowOff v minor sheetVer + lowLen)) := by
  simp only [resPartWF, Bool.and_eq_true, decide_eq_true_eq] at hwf
  obtain ⟨⟨⟨⟨⟨hres, hnd⟩, hsheet⟩, hsv⟩, hoff⟩, hslen⟩ := hwf
  -- offsets
  have hLow : lowOff v minor sheetVer
      = headerSize v minor + ((resBlocks v.res).flatten.length + (sheetBlock v minor sheetVer).length) := by
    simp [lowOff, dataBlocks, hm]
  have hSheetOff : sheetOff v minor = headerSize v minor + (resBlocks v.res).flatten.length := by
    simp [sheetOff, hm]
  have hHS : headerSize v minor = preLen minor + 15 + 8 * resCount v := by simp [headerSize, hm]
  -- the table
  have hE1wf : (entriesFrom (headerSize v minor) v.res).all entryWF = true :=
    entriesFrom_wf v.res _ hres (by omega)
  have hAllwf : (allEntries v minor sheetVer lowLen).all entryWF = true := by
    simp only [allEntries, List.all_append, Bool.and_eq_true]
    refine ⟨hE1wf, ?_, ?_⟩
    · simp [entryWF, idLow, idHigh]; omega
    · split
      · simp [entryWF, idSheet]; omega
      · rfl
  have hTlen : (resTable v minor sheetVer lowLen).length = 15 + 8 * resCount v := by
    rw [resTable_eq v minor sheetVer lowLen hm]
    simp [entries_bytes_length _ hAllwf, allEntries_length]; omega
  have hcount : resCount v < 256 ^ 4 := by omega
  rw [resTable_eq v minor sheetVer lowLen hm]
  have hsplit : splitW [3, 4, 8]
      (zeros 3 ++ (le 4 (resCount v) ++ (zeros 8 ++ ((allEntries v minor sheetVer lowLen).map encEntry).flatten)) ++
        ((resBlocks v.res).flatten ++ (sheetBlock v minor sheetVer ++ tail)))
      = some ([zeros 3, le 4 (resCount v), zeros 8],
          ((allEntries v minor sheetVer lowLen).map encEntry).flatten ++
            ((resBlocks v.res).flatten ++ (sheetBlock v minor sheetVer ++ tail))) := by
    apply splitW_of
    · simp
    · simp [List.append_assoc]
  simp only [readResources, hsplit, leDecode_le' 4 _ hcount]
  rw [← allEntries_length v minor sheetVer lowLen, readEntries_enc _ hAllwf]
  simp only []
  -- the loop over the entries
  have hids : ∀ e ∈ entriesFrom (headerSize v minor) v.res, e.1 ≠ idLow ∧ e.1 ≠ idHigh := by
    intro e he
    have : e.1 ∈ v.res.map (·.id) := by
      rw [← entriesFrom_ids v.res (headerSize v minor)]; exact List.mem_map.mpr ⟨e, he, rfl⟩
    obtain ⟨r, hr, hre⟩ := List.mem_map.mp this
    have hw := List.all_eq_true.mp hres r hr
    simp only [resWF, Bool.and_eq_true, bne_iff_ne, ne_eq] at hw
    rw [← hre]; exact ⟨hw.1.1.2, hw.1.2⟩
  have hstoredIds : ((entriesFrom (headerSize v minor) v.res).map stored).map (·.id) = v.res.map (·.id) := by
    rw [← entriesFrom_ids v.res (headerSize v minor), List.map_map]; rfl
  have hnotin : ∀ x, (∀ r ∈ v.res, r.id ≠ x) →
      ((entriesFrom (headerSize v minor) v.res).map stored).any (fun r => r.id == x) = false := by
    intro x hx
    apply any_id_false
    rw [hstoredIds]
    intro hmem
    obtain ⟨r, hr, hre⟩ := List.mem_map.mp hmem
    exact hx r hr hre
  have hresIds : ∀ r ∈ v.res, r.id ≠ idLow ∧ r.id ≠ idHigh ∧ r.id ≠ idSheet := by
    intro r hr
    have hw := List.all_eq_true.mp hres r hr
    simp only [resWF, Bool.and_eq_true, bne_iff_ne, ne_eq] at hw
    exact ⟨hw.1.1.2, hw.1.2, hw.2⟩
  have hplain := procEntries_plain (entriesFrom (headerSize v minor) v.res) [] none none
    ([(idLow, 0, lowOff v minor sheetVer), (idHigh, 0, lowOff v minor sheetVer + lowLen)] ++
      (if hasSheetRes v then [(idSheet, 0, sheetOff v minor)] else []))
    hids (by simpa [entriesFrom_ids] using hnd)
  simp only [List.nil_append] at hplain
  -- data blocks of the plain resources
  have hblocks : resolveAll file ((entriesFrom (headerSize v minor) v.res).map stored)
      = .ok (v.res.map normRes) := by
    have := resolveAll_blocks v.res file (H ++ resTable v minor sheetVer lowLen)
      (sheetBlock v minor sheetVer ++ tail) (by rw [hfile]; simp [List.append_assoc]) hres
    simpa [hH, hTlen, hHS, Nat.add_assoc] using this
  have hnoSheet : ∀ r ∈ v.res.map normRes, ¬ (r.id == idSheet) = true := by
    intro r hr
    obtain ⟨r0, hr0, rfl⟩ := List.mem_map.mp hr
    simpa [normRes_id] using (hresIds r0 hr0).2.2
  unfold allEntries
  rw [hplain]
  by_cases hs : hasSheetRes v
  · -- with a particle sheet
    have hSB : sheetBlock v minor sheetVer
        = le 4 (sheetData v.sheet sheetVer).length ++ sheetData v.sheet sheetVer := by
      simp [sheetBlock, hm, hs]
    simp only [hs, if_true, List.cons_append, List.nil_append, procEntries,
      hnotin idLow (fun r hr => (hresIds r hr).1), hnotin idHigh (fun r hr => (hresIds r hr).2.1),
      Bool.false_eq_true, if_false, beq_self_eq_true, if_true,
      show (idHigh == idLow) = false by decide, show (idSheet == idLow) = false by decide,
      show (idSheet == idHigh) = false by decide, hnotin idSheet (fun r hr => (hresIds r hr).2.2),
      pure, Except.pure]
    have hsheetRes : resolveAll file [⟨idSheet, 0, false, sheetOff v minor, []⟩]
        = .ok [⟨idSheet, 0, true, 0, sheetData v.sheet sheetVer⟩] := by
      have hf2 : file = (H ++ resTable v minor sheetVer lowLen ++ (resBlocks v.res).flatten) ++
          (le 4 (sheetData v.sheet sheetVer).length ++ (sheetData v.sheet sheetVer ++ tail)) := by
        rw [hfile, hSB]; simp [List.append_assoc]
      have hlen2 : (H ++ resTable v minor sheetVer lowLen ++ (resBlocks v.res).flatten).length
          = sheetOff v minor := by
        simp [hH, hTlen, hSheetOff, hHS]; omega
      have hu : u32At file (sheetOff v minor) = .ok (sheetData v.sheet sheetVer).length := by
        rw [hf2, ← hlen2]; exact u32At_mid _ _ _ hslen
      have hsl : slice file (sheetOff v minor + 4) (sheetData v.sheet sheetVer).length
          = sheetData v.sheet sheetVer := by
        have hf3 : file = (H ++ resTable v minor sheetVer lowLen ++ (resBlocks v.res).flatten ++
            le 4 (sheetData v.sheet sheetVer).length) ++ (sheetData v.sheet sheetVer ++ tail) := by
          rw [hf2]; simp [List.append_assoc]
        have hl3 : (H ++ resTable v minor sheetVer lowLen ++ (resBlocks v.res).flatten ++
            le 4 (sheetData v.sheet sheetVer).length).length = sheetOff v minor + 4 := by
          rw [List.length_append, hlen2]; simp
        rw [hf3, ← hl3]
        exact slice_mid' _ _ _ _ rfl
      simp [resolveAll, resolveRes, hu, hsl, pure, Except.pure]
    rw [resolveAll_append file _ _ _ _ hblocks hsheetRes]
    simp only []
    have hfind : (v.res.map normRes ++ [(⟨idSheet, 0, true, 0, sheetData v.sheet sheetVer⟩ : Res)]).find?
        (fun r => r.id == idSheet) = some ⟨idSheet, 0, true, 0, sheetData v.sheet sheetVer⟩ := by
      rw [List.find?_append, List.find?_eq_none.mpr hnoSheet]; simp
    have hfilter : (v.res.map normRes ++ [(⟨idSheet, 0, true, 0, sheetData v.sheet sheetVer⟩ : Res)]).filter
        (fun r => r.id != idSheet) = v.res.map normRes := by
      rw [List.filter_append, List.filter_eq_self.mpr (by
        intro r hr; simpa [bne_iff_ne] using hnoSheet r hr)]
      simp
    simp only [hfind, hfilter, Bool.not_true, Bool.false_eq_true, if_false,
      parseSheet_sheetData v.sheet sheetVer hsv hsheet]
  · -- without
    have hempty : v.sheet = [] := by
      simpa [hasSheetRes] using hs
    simp only [hs, Bool.false_eq_true, if_false, List.append_nil, procEntries,
      hnotin idLow (fun r hr => (hresIds r hr).1), hnotin idHigh (fun r hr => (hresIds r hr).2.1),
      beq_self_eq_true, if_true, show (idHigh == idLow) = false by decide, pure, Except.pure]
    rw [hblocks]
    simp only [List.find?_eq_none.mpr hnoSheet, hempty, List.map_nil]

/-! ## the fixed header and the whole file -/

def hdrWF (v : Vtf) (minor : Nat) : Bool :=
  decide (minor ≤ 5) && decide (v.width < 65536) && decide (v.height < 65536) &&
  decide (v.flags < 256 ^ 4) && decide (v.frameCount < 65536) && decide (v.firstFrame < 65536) &&
  v.refl.length == 12 && v.bump.length == 4 && decide (v.mipCount < 256) &&
  decide (v.low.w < 256) && decide (v.low.h < 256) && decide (v.depth < 65536) &&
  decide (v.fmt ≤ 29) && decide (v.fmt ≠ 27) && decide (v.lowFmt ≤ 29)

/-- **Well-formedness of what is written** (decidable): every header field fits its width, the
float fields have their 12 / 4 bytes, the formats exist, resource ids are three bytes, distinct and
not reserved, flags are bytes, inline values / block lengths / file offsets fit 32 bits, the sheet
has at most 64 sequences with distinct numbers below 64 and frames of 4 + 64 bytes. -/
def fileWF (v : Vtf) (minor sheetVer lowLen : Nat) : Bool :=
  hdrWF v minor && resPartWF v minor sheetVer lowLen

def viewDepth (v : Vtf) (minor : Nat) : Nat :=
  if minor ≥ 2 then (if v.depth = 0 then 1 else v.depth) else 1

/-- What `VTF.read` sees in the file written for `v`: the header fields as they are, resources with
the storage-kind bit normalised, sheet frames as the sheet version stores them, and the frame table
laid out from the header counts after the thumbnail (`lowLen` bytes). -/
def viewOf (v : Vtf) (minor sheetVer lowLen : Nat) : View :=
  { verMinor := minor, headerSize := headerSize v minor, width := v.width, height := v.height,
    flags := v.flags, frameCount := v.frameCount, firstFrame := v.firstFrame, refl := v.refl,
    bump := v.bump, fmt := v.fmt, mipCount := v.mipCount, lowFmt := v.lowFmt, lowW := v.low.w,
    lowH := v.low.h, depth := viewDepth v minor,
    res := if minor ≥ 3 then v.res.map normRes else [],
    sheet := if minor ≥ 3 then v.sheet.map (normSeq sheetVer) else [],
    lowOff := if v.lowFmt ≠ fmtNone then some (lowOff v minor sheetVer) else none,
    frames := layoutFrom (frameSize (fmtOf v.fmt)) (readerDims v.width v.height)
      (fileKeys v.mipCount v.frameCount (depthSeq v.flags minor (viewDepth v minor)))
      (lowOff v minor sheetVer + lowLen),
    headerOnly := decide (v.fmt = 24 ∨ v.fmt = 25) }

/-- the header fields after signature and version. -/
def hdrRest (v : Vtf) (minor : Nat) (asw : Bool) : List (List Nat) :=
  [le 4 (headerSize v minor), le 2 v.width, le 2 v.height,
   le 4 v.flags, le 2 v.frameCount, le 2 v.firstFrame, zeros 4, v.refl, zeros 4, v.bump,
   le 4 (binValue v.fmt asw), le 1 v.mipCount, le 4 (binValue v.lowFmt asw), le 1 v.low.w,
   le 1 v.low.h] ++ (if minor ≥ 2 then [le 2 v.depth] else [])

theorem hdrFields_eq (v : Vtf) (minor : Nat) (asw : Bool) :
    hdrFields v minor asw = [86, 84, 70, 0] :: le 4 7 :: le 4 minor :: hdrRest v minor asw := rfl

theorem format_facts : ∀ f, f ≤ 29 → ∀ asw : Bool,
    formatOrder (binValue f asw) = some f ∧ binValue f asw < 256 ^ 4 := by
  decide +kernel

theorem hdr_length (v : Vtf) (minor : Nat) (asw : Bool) (hr : v.refl.length = 12)
    (hb : v.bump.length = 4) : (hdrFields v minor asw).flatten.length = preLen minor := by
  simp only [hdrFields, preLen]
  split <;> simp [hr, hb]

theorem readFile_fileBytes (v : Vtf) (minor sheetVer : Nat) (asw : Bool) (lowBytes : List Nat)
    (blocks : List (List Nat)) (hwf : fileWF v minor sheetVer lowBytes.length = true)
    (hlow : minor < 3 → lowBytes.length = frameSize (fmtOf v.lowFmt) v.low.w v.low.h) :
    readFile (fileBytes v minor sheetVer asw lowBytes blocks)
      = .ok (viewOf v minor sheetVer lowBytes.length) := by
  have hwf0 := hwf
  simp only [fileWF, hdrWF, Bool.and_eq_true, decide_eq_true_eq, beq_iff_eq] at hwf
  obtain ⟨⟨⟨⟨⟨⟨⟨⟨⟨⟨⟨⟨⟨⟨⟨hminor, hw⟩, hh⟩, hfl⟩, hfc⟩, hff⟩, hrl⟩, hbl⟩, hmc⟩, hlw⟩, hlh⟩, hdep⟩, hfmt⟩,
    hfmt27⟩, hlfmt⟩, hresWF⟩ := hwf
  have hres' := hresWF
  simp only [resPartWF, Bool.and_eq_true, decide_eq_true_eq] at hres'
  have hoff : lowOff v minor sheetVer + lowBytes.length < 256 ^ 4 := hres'.1.2
  have hhs : headerSize v minor < 256 ^ 4 := by
    have : headerSize v minor ≤ lowOff v minor sheetVer := by simp [lowOff]
    omega
  set T := resTable v minor sheetVer lowBytes.length ++
    (dataBlocks v minor sheetVer ++ (lowBytes ++ blocks.flatten)) with hT
  have hfile : fileBytes v minor sheetVer asw lowBytes blocks
      = (hdrFields v minor asw).flatten ++ T := by
    simp [fileBytes, hT, List.append_assoc]
  have hfile2 : fileBytes v minor sheetVer asw lowBytes blocks
      = [[86, 84, 70, 0], le 4 7, le 4 minor].flatten ++ ((hdrRest v minor asw).flatten ++ T) := by
    rw [hfile, hdrFields_eq]; simp [List.append_assoc]
  have hs0 : splitW [4, 4, 4] (fileBytes v minor sheetVer asw lowBytes blocks)
      = some ([[86, 84, 70, 0], le 4 7, le 4 minor], (hdrRest v minor asw).flatten ++ T) :=
    splitW_of _ _ _ _ (by simp) hfile2
  have hs1 : splitW (hdrWidths minor) ((hdrRest v minor asw).flatten ++ T)
      = some (hdrRest v minor asw, T) := by
    apply splitW_of _ _ _ _ _ rfl
    simp only [hdrWidths, hdrRest]
    split <;> simp [hrl, hbl]
  have F1 := format_facts v.fmt hfmt asw
  have F2 := format_facts v.lowFmt hlfmt asw
  unfold readFile
  simp only [hs0]
  rw [leDecode_le' 4 7 (by decide), leDecode_le' 4 minor (by omega)]
  simp only [ne_eq, not_true_eq_false, if_false, hs1]
  -- the body
  have hrr : (if minor ≥ 3 then readResources (fileBytes v minor sheetVer asw lowBytes blocks) T
      else pure ([], [], some (headerSize v minor),
        some (headerSize v minor + frameSize (fmtOf v.lowFmt) v.low.w v.low.h)))
      = .ok (if minor ≥ 3 then v.res.map normRes else [],
             if minor ≥ 3 then v.sheet.map (normSeq sheetVer) else [],
             some (lowOff v minor sheetVer), some (lowOff v minor sheetVer + lowBytes.length)) := by
    by_cases hm : minor ≥ 3
    · simp only [hm, if_true]
      have hTT : T = resTable v minor sheetVer lowBytes.length ++
          ((resBlocks v.res).flatten ++ (sheetBlock v minor sheetVer ++ (lowBytes ++ blocks.flatten))) := by
        simp [hT, dataBlocks, hm, List.append_assoc]
      rw [hTT]
      exact readResources_ok v minor sheetVer lowBytes.length _ _ _ hm
        (hdr_length v minor asw hrl hbl) (by rw [hfile, hTT]) hresWF
    · have hm' : minor < 3 := by omega
      have hlo : lowOff v minor sheetVer = headerSize v minor := by
        simp [lowOff, dataBlocks, sheetBlock, hm]
      simp only [hm, if_false, hlo, hlow hm']
      rfl
  by_cases h2 : minor ≥ 2
  · have hR : hdrRest v minor asw = [le 4 (headerSize v minor), le 2 v.width, le 2 v.height,
        le 4 v.flags, le 2 v.frameCount, le 2 v.firstFrame, zeros 4, v.refl, zeros 4, v.bump,
        le 4 (binValue v.fmt asw), le 1 v.mipCount, le 4 (binValue v.lowFmt asw), le 1 v.low.w,
        le 1 v.low.h, le 2 v.depth] := by simp [hdrRest, h2]
    rw [hR]
    simp only [readBody]
    rw [leDecode_le' 4 _ F1.2, leDecode_le' 4 _ F2.2, F1.1, F2.1]
    simp only [leDecode_le' 4 _ hhs, leDecode_le' 2 _ hw, leDecode_le' 2 _ hh, leDecode_le' 4 _ hfl,
      leDecode_le' 2 _ hfc, leDecode_le' 2 _ hff, leDecode_le' 1 _ hmc, leDecode_le' 1 _ hlw,
      leDecode_le' 1 _ hlh, leDecode_le' 2 _ hdep, fmtNone, hfmt27, if_false, hrr]
    by_cases hl27 : v.lowFmt = 27
    · simp [viewOf, viewDepth, h2, hl27, fmtNone, pure, Except.pure, hminor]
    · simp [viewOf, viewDepth, h2, hl27, fmtNone, pure, Except.pure, hminor]
  · have hR : hdrRest v minor asw = [le 4 (headerSize v minor), le 2 v.width, le 2 v.height,
        le 4 v.flags, le 2 v.frameCount, le 2 v.firstFrame, zeros 4, v.refl, zeros 4, v.bump,
        le 4 (binValue v.fmt asw), le 1 v.mipCount, le 4 (binValue v.lowFmt asw), le 1 v.low.w,
        le 1 v.low.h] := by simp [hdrRest, h2]
    rw [hR]
    simp only [readBody]
    rw [leDecode_le' 4 _ F1.2, leDecode_le' 4 _ F2.2, F1.1, F2.1]
    simp only [leDecode_le' 4 _ hhs, leDecode_le' 2 _ hw, leDecode_le' 2 _ hh, leDecode_le' 4 _ hfl,
      leDecode_le' 2 _ hfc, leDecode_le' 2 _ hff, leDecode_le' 1 _ hmc, leDecode_le' 1 _ hlw,
      leDecode_le' 1 _ hlh, fmtNone, hfmt27, if_false, hrr]
    by_cases hl27 : v.lowFmt = 27
    · simp [viewOf, viewDepth, h2, hl27, fmtNone, pure, Except.pure, hminor]
    · simp [viewOf, viewDepth, h2, hl27, fmtNone, pure, Except.pure, hminor]

/-! ## the image data -/

theorem forall2_imp {α β : Type} {R S : α → β → Prop} (h : ∀ a b, R a b → S a b) :
    ∀ {l₁ : List α} {l₂ : List β}, List.Forall₂ R l₁ l₂ → List.Forall₂ S l₁ l₂ := by
  intro l₁ l₂ hf
  induction hf with
  | nil => exact .nil
  | cons hab _ ih => exact .cons (h _ _ hab) ih

theorem mapM_ok_forall2 {α β : Type} (f : α → Except Err β) :
    ∀ (l : List α) (r : List β), l.mapM f = .ok r → List.Forall₂ (fun a b => f a = .ok b) l r := by
  intro l
  induction l with
  | nil => intro r h; simp [pure, Except.pure] at h; subst h; exact .nil
  | cons a l ih =>
    intro r h
    rw [List.mapM_cons] at h
    cases ha : f a with
    | error e => simp [ha, bind, Except.bind] at h
    | ok b =>
      cases hl : l.mapM f with
      | error e => simp [ha, hl, bind, Except.bind] at h
      | ok bs =>
        simp [ha, hl, bind, Except.bind, pure, Except.pure] at h
        subst h
        exact .cons ha (ih bs hl)

theorem chunksAux_length (n : Nat) : ∀ (k : Nat) (l : List Nat), (chunksAux n k l).length = k := by
  intro k
  induction k with
  | zero => intro _; rfl
  | succ k ih => intro l; simp [chunksAux, ih]

theorem saveImg_length (c : Codec) (px : List Nat) :
    (saveImg c px).length = c.save.length * (px.length / 4) := by
  unfold saveImg
  rw [length_flatMap_const c.save.length _ _ (fun q _ => by simp [saveF])]
  simp [chunks, chunksAux_length]

theorem codec_size_facts : ∀ i, i < 30 → (codecOf i).hasSave = true →
    (fmtOf i).size = 8 * (codecOf i).save.length ∧ (fmtOf i).compressed = false := by
  decide +kernel

theorem codecOf_default (i : Nat) (h : ¬ i < 30) : (codecOf i).hasSave = false := by
  have : codecs.length = 30 := by decide
  simp [codecOf, List.getD_eq_getElem?_getD, List.getElem?_eq_none (by omega : codecs.length ≤ i)]
  rfl

theorem encodeFrame_ok (fmt : Nat) (fr : FrameM) (bs : List Nat) (h : encodeFrame fmt fr = .ok bs) :
    bs = saveImg (codecOf fmt) (fr.data.getD (blank fr.w fr.h)) ∧
    (fr.data.getD (blank fr.w fr.h)).length = 4 * fr.w * fr.h ∧
    (codecOf fmt).hasSave = true ∧ bs.length = frameSize (fmtOf fmt) fr.w fr.h := by
  unfold encodeFrame at h
  simp only [] at h
  split at h
  · simp [throw, throwThe, MonadExceptOf.throw] at h
  · rename_i hlen
    split at h
    · simp [throw, throwThe, MonadExceptOf.throw] at h
    · rename_i hs
      simp only [Bool.not_eq_true, Bool.not_eq_false'] at hs
      simp only [pure, Except.pure, Except.ok.injEq] at h
      have hlen' : (fr.data.getD (blank fr.w fr.h)).length = 4 * fr.w * fr.h := by
        simpa using hlen
      have hi : fmt < 30 := by
        by_contra hc
        rw [codecOf_default fmt hc] at hs
        exact absurd hs (by decide)
      have F := codec_size_facts fmt hi hs
      refine ⟨h.symm, hlen', hs, ?_⟩
      rw [← h, saveImg_length, hlen', frameSize, F.2]
      simp only [Bool.false_eq_true, if_false, F.1]
      rw [show 4 * fr.w * fr.h / 4 = fr.w * fr.h by
        rw [Nat.mul_assoc, Nat.mul_div_cancel_left _ (by decide : 0 < 4)]]
      rw [show 8 * (codecOf fmt).save.length * fr.w * fr.h = 8 * ((codecOf fmt).save.length * (fr.w * fr.h)) by ring,
        Nat.mul_div_cancel_left _ (by decide : 0 < 8)]

/-- the blocks of a list laid out one after the other are found at the running offsets. -/
theorem layout_slices (fsz : Nat → Nat → Nat) (dims : Nat → Nat × Nat) :
    ∀ (ks : List Key) (bs : List (List Nat)) (pre post file : List Nat),
      List.Forall₂ (fun k b => b.length = fsz (dims k.2.2).1 (dims k.2.2).2) ks bs →
      file = pre ++ (bs.flatten ++ post) →
      List.Forall₂ (fun (e : Key × Nat × Nat × Nat) b => slice file e.2.2.2 (fsz e.2.1 e.2.2.1) = b)
        (layoutFrom fsz dims ks pre.length) bs := by
  intro ks
  induction ks with
  | nil => intro bs pre post file h _; cases h; exact .nil
  | cons k ks ih =>
    intro bs pre post file h hfile
    cases h with
    | cons hb hrest =>
      rename_i b bs'
      simp only [layoutFrom]
      refine .cons ?_ ?_
      · simp only []
        rw [hfile, ← hb]
        simpa [List.append_assoc] using slice_mid' pre b (bs'.flatten ++ post) b.length rfl
      · have := ih bs' (pre ++ b) post file hrest (by rw [hfile]; simp [List.append_assoc])
        simpa [hb] using this

theorem layout_slices_keys (fsz : Nat → Nat → Nat) (dims : Nat → Nat × Nat) (Q : Key → List Nat → Prop) :
    ∀ (ks : List Key) (bs : List (List Nat)) (pre post file : List Nat),
      List.Forall₂ (fun k b => b.length = fsz (dims k.2.2).1 (dims k.2.2).2 ∧ Q k b) ks bs →
      file = pre ++ (bs.flatten ++ post) →
      List.Forall₂ (fun (e : Key × Nat × Nat × Nat) k => e.1 = k ∧ (e.2.1, e.2.2.1) = dims k.2.2 ∧
          ∃ b, Q k b ∧ slice file e.2.2.2 (fsz e.2.1 e.2.2.1) = b)
        (layoutFrom fsz dims ks pre.length) ks := by
  intro ks
  induction ks with
  | nil => intro bs pre post file h _; exact .nil
  | cons k ks ih =>
    intro bs pre post file h hfile
    cases h with
    | cons hb hrest =>
      rename_i b bs'
      simp only [layoutFrom]
      refine .cons ⟨rfl, rfl, b, hb.2, ?_⟩ ?_
      · simp only []
        rw [hfile, ← hb.1]
        simpa [List.append_assoc] using slice_mid' pre b (bs'.flatten ++ post) b.length rfl
      · have := ih bs' (pre ++ b) post file hrest (by rw [hfile]; simp [List.append_assoc])
        simpa [hb.1] using this

theorem resTable_length (v : Vtf) (minor sheetVer lowLen : Nat) (hm : minor ≥ 3)
    (hwf : resPartWF v minor sheetVer lowLen = true) :
    (resTable v minor sheetVer lowLen).length = 15 + 8 * resCount v := by
  simp only [resPartWF, Bool.and_eq_true, decide_eq_true_eq] at hwf
  obtain ⟨⟨⟨⟨⟨hres, _⟩, _⟩, _⟩, hoff⟩, _⟩ := hwf
  have hLow : lowOff v minor sheetVer
      = headerSize v minor + ((resBlocks v.res).flatten.length + (sheetBlock v minor sheetVer).length) := by
    simp [lowOff, dataBlocks, hm]
  have hSheetOff : sheetOff v minor = headerSize v minor + (resBlocks v.res).flatten.length := by
    simp [sheetOff, hm]
  have hE1wf : (entriesFrom (headerSize v minor) v.res).all entryWF = true :=
    entriesFrom_wf v.res _ hres (by omega)
  have hAllwf : (allEntries v minor sheetVer lowLen).all entryWF = true := by
    simp only [allEntries, List.all_append, Bool.and_eq_true]
    refine ⟨hE1wf, ?_, ?_⟩
    · simp [entryWF, idLow, idHigh]; omega
    · split
      · simp [entryWF, idSheet]; omega
      · rfl
  rw [resTable_eq v minor sheetVer lowLen hm]
  simp [entries_bytes_length _ hAllwf, allEntries_length]; omega

theorem prefix_length (v : Vtf) (minor sheetVer : Nat) (asw : Bool) (lowLen : Nat)
    (hwf : fileWF v minor sheetVer lowLen = true) :
    ((hdrFields v minor asw).flatten ++ resTable v minor sheetVer lowLen ++
      dataBlocks v minor sheetVer).length = lowOff v minor sheetVer := by
  simp only [fileWF, hdrWF, Bool.and_eq_true, decide_eq_true_eq, beq_iff_eq] at hwf
  obtain ⟨⟨⟨⟨⟨⟨⟨⟨⟨⟨⟨⟨⟨⟨⟨_, _⟩, _⟩, _⟩, _⟩, _⟩, hrl⟩, hbl⟩, _⟩, _⟩, _⟩, _⟩, _⟩, _⟩, _⟩, hresWF⟩ := hwf
  simp only [List.length_append, hdr_length v minor asw hrl hbl, lowOff, headerSize]
  by_cases hm : minor ≥ 3
  · rw [resTable_length v minor sheetVer lowLen hm hresWF]
    simp [hm]; omega
  · simp [hm, resTable]

def lowLen (v : Vtf) : Nat := frameSize (fmtOf v.lowFmt) v.low.w v.low.h

/-- every frame that will be written has the size the reader computes from the header. -/
def framesWF (v : Vtf) (minor : Nat) : Bool :=
  (fileKeys v.mipCount v.frameCount (depthSeq v.flags minor v.depth)).all fun k =>
    match lookupFrame v.frames k with
    | some fr => fr.w == (readerDims v.width v.height k.2.2).1 && fr.h == (readerDims v.width v.height k.2.2).2
    | none => true

/-- **Well-formedness of an object about to be written** (decidable): `fileWF`, frame sizes as the
reader will compute them, depth at least 1 (and exactly 1 before 7.2). -/
def saveWF (v : Vtf) (minor sheetVer : Nat) : Bool :=
  fileWF v minor sheetVer (lowLen v) && framesWF v minor && decide (1 ≤ v.depth) &&
    decide (minor < 2 → v.depth = 1)

theorem load_dims (fr : FrameM) : fr.load.w = fr.w ∧ fr.load.h = fr.h := by
  unfold FrameM.load; split <;> exact ⟨rfl, rfl⟩

theorem load_data_some (fr : FrameM) : ∃ d, fr.load.data = some d := by
  unfold FrameM.load; split <;> exact ⟨_, rfl⟩

theorem lowLen_none (v : Vtf) (h : v.lowFmt = fmtNone) : lowLen v = 0 := by
  simp [lowLen, h, fmtNone, fmtOf, formats, frameSize]

theorem assemble_roundtrip (v : Vtf) (minor sheetVer : Nat) (asw : Bool) (file : List Nat)
    (h : assemble v minor sheetVer asw = .ok file) (hwf : saveWF v minor sheetVer = true) :
    readFile file = .ok (viewOf v minor sheetVer (lowLen v)) ∧
    (v.lowFmt ≠ fmtNone → slice file (lowOff v minor sheetVer) (lowLen v)
        = saveImg (codecOf v.lowFmt) (v.low.load.data.getD [])) ∧
    List.Forall₂ (fun (e : Key × Nat × Nat × Nat) k => e.1 = k ∧
        (e.2.1, e.2.2.1) = readerDims v.width v.height k.2.2 ∧
        ∃ fr, frameFor v k = .ok fr ∧ (fr.w, fr.h) = readerDims v.width v.height k.2.2 ∧
          slice file e.2.2.2 (frameSize (fmtOf v.fmt) e.2.1 e.2.2.1)
            = saveImg (codecOf v.fmt) (fr.load.data.getD []))
      (viewOf v minor sheetVer (lowLen v)).frames
      (fileKeys v.mipCount v.frameCount (depthSeq v.flags minor v.depth)) := by
  simp only [saveWF, Bool.and_eq_true, decide_eq_true_eq] at hwf
  obtain ⟨⟨⟨hfw, hfr⟩, hd1⟩, hd2⟩ := hwf
  have hvd : viewDepth v minor = v.depth := by
    unfold viewDepth
    split
    · rw [if_neg (by omega)]
    · exact (hd2 (by omega)).symm
  -- take `assemble` apart
  unfold assemble at h
  cases hlowE : encodeLow v with
  | error e => simp [hlowE] at h
  | ok lowBytes =>
    cases hblk : (fileKeys v.mipCount v.frameCount (depthSeq v.flags minor v.depth)).mapM (encodeKey v) with
    | error e => simp [hlowE, hblk] at h
    | ok blocks =>
      simp only [hlowE, hblk, Except.ok.injEq] at h
      subst h
      unfold encodeLow at hlowE
      -- the thumbnail
      have hlowlen : lowBytes.length = lowLen v ∧ (v.lowFmt ≠ fmtNone →
          lowBytes = saveImg (codecOf v.lowFmt) (v.low.load.data.getD [])) := by
        by_cases hn : v.lowFmt = fmtNone
        · simp only [hn, ne_eq, not_true_eq_false, if_false, Except.ok.injEq] at hlowE
          subst hlowE
          exact ⟨(lowLen_none v hn).symm, fun h => absurd hn h⟩
        · simp only [ne_eq, hn, not_false_eq_true, if_true] at hlowE
          have E := encodeFrame_ok _ _ _ hlowE
          obtain ⟨d, hdd⟩ := load_data_some v.low
          refine ⟨by rw [E.2.2.2, (load_dims v.low).1, (load_dims v.low).2]; rfl, fun _ => ?_⟩
          rw [E.1, hdd]; rfl
      have hwf' : fileWF v minor sheetVer lowBytes.length = true := by rw [hlowlen.1]; exact hfw
      have hread := readFile_fileBytes v minor sheetVer asw lowBytes blocks hwf'
        (fun _ => hlowlen.1)
      rw [hlowlen.1] at hread
      refine ⟨hread, ?_, ?_⟩
      · intro hn
        rw [← (hlowlen.2 hn), ← hlowlen.1]
        have : fileBytes v minor sheetVer asw lowBytes blocks
            = ((hdrFields v minor asw).flatten ++ resTable v minor sheetVer lowBytes.length ++
                dataBlocks v minor sheetVer) ++ (lowBytes ++ blocks.flatten) := by
          simp [fileBytes, List.append_assoc]
        rw [this]
        have hl := prefix_length v minor sheetVer asw lowBytes.length hwf'
        rw [← hl]
        exact slice_mid' _ _ _ _ rfl
      · -- the frames
        have hF := mapM_ok_forall2 _ _ _ hblk
        have hF' : List.Forall₂ (fun (k : Key) b =>
            b.length = frameSize (fmtOf v.fmt) (readerDims v.width v.height k.2.2).1
              (readerDims v.width v.height k.2.2).2 ∧
            ∃ fr, frameFor v k = .ok fr ∧ (fr.w, fr.h) = readerDims v.width v.height k.2.2 ∧
              b = saveImg (codecOf v.fmt) (fr.load.data.getD []))
            (fileKeys v.mipCount v.frameCount (depthSeq v.flags minor v.depth)) blocks := by
          have hmem : ∀ k ∈ fileKeys v.mipCount v.frameCount (depthSeq v.flags minor v.depth),
              ∀ fr, frameFor v k = .ok fr → (fr.w, fr.h) = readerDims v.width v.height k.2.2 := by
            intro k hk fr hfk
            have hw := List.all_eq_true.mp hfr k hk
            unfold frameFor at hfk
            cases hlk : lookupFrame v.frames k with
            | some fr0 =>
              simp only [hlk, pure, Except.pure, Except.ok.injEq] at hfk
              subst hfk
              simp only [hlk, Bool.and_eq_true, beq_iff_eq] at hw
              exact Prod.ext hw.1 hw.2
            | none =>
              simp only [hlk] at hfk
              split at hfk
              · simp only [pure, Except.pure, Except.ok.injEq] at hfk
                subst hfk; rfl
              · simp [throw, throwThe, MonadExceptOf.throw] at hfk
          have : ∀ (ks : List Key) (bs : List (List Nat)),
              (∀ k ∈ ks, k ∈ fileKeys v.mipCount v.frameCount (depthSeq v.flags minor v.depth)) →
              List.Forall₂ (fun k b => encodeKey v k = Except.ok b) ks bs →
              List.Forall₂ (fun (k : Key) b =>
                b.length = frameSize (fmtOf v.fmt) (readerDims v.width v.height k.2.2).1
                  (readerDims v.width v.height k.2.2).2 ∧
                ∃ fr, frameFor v k = .ok fr ∧ (fr.w, fr.h) = readerDims v.width v.height k.2.2 ∧
                  b = saveImg (codecOf v.fmt) (fr.load.data.getD [])) ks bs := by
            intro ks bs hsub hf2
            induction hf2 with
            | nil => exact .nil
            | @cons k b ks' bs' hkb _ ih =>
              refine .cons ?_ (ih (fun k' hk' => hsub k' (by simp [hk'])))
              unfold encodeKey at hkb
              cases hfk : frameFor v k with
              | error e => simp [hfk] at hkb
              | ok fr =>
                simp only [hfk] at hkb
                have E := encodeFrame_ok _ _ _ hkb
                have hd := hmem k (hsub k (by simp)) fr hfk
                obtain ⟨d, hdd⟩ := load_data_some fr
                refine ⟨?_, fr, rfl, hd, ?_⟩
                · rw [E.2.2.2, (load_dims fr).1, (load_dims fr).2, ← hd]
                · rw [E.1, hdd]; rfl
          exact this _ _ (fun _ hk => hk) hF
        have hpre : fileBytes v minor sheetVer asw lowBytes blocks
            = ((hdrFields v minor asw).flatten ++ resTable v minor sheetVer lowBytes.length ++
                dataBlocks v minor sheetVer ++ lowBytes) ++ (blocks.flatten ++ []) := by
          simp [fileBytes, List.append_assoc]
        have hL := layout_slices_keys (frameSize (fmtOf v.fmt)) (readerDims v.width v.height)
          (fun k b => ∃ fr, frameFor v k = .ok fr ∧ (fr.w, fr.h) = readerDims v.width v.height k.2.2 ∧
              b = saveImg (codecOf v.fmt) (fr.load.data.getD []))
          _ _ _ [] _ hF' hpre
        have hplen : ((hdrFields v minor asw).flatten ++ resTable v minor sheetVer lowBytes.length ++
            dataBlocks v minor sheetVer ++ lowBytes).length = lowOff v minor sheetVer + lowLen v := by
          rw [List.length_append, prefix_length v minor sheetVer asw lowBytes.length hwf', hlowlen.1]
        rw [hplen] at hL
        have hframes : (viewOf v minor sheetVer (lowLen v)).frames
            = layoutFrom (frameSize (fmtOf v.fmt)) (readerDims v.width v.height)
                (fileKeys v.mipCount v.frameCount (depthSeq v.flags minor v.depth))
                (lowOff v minor sheetVer + lowLen v) := by
          simp [viewOf, hvd]
        rw [hframes]
        refine forall2_imp ?_ hL
        rintro e k ⟨h1, h2, b, ⟨fr, hfk, hdim, hb⟩, hsl⟩
        exact ⟨h1, h2, fr, hfk, hdim, by rw [hsl, hb]⟩

end C15
