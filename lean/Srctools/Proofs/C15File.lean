import Srctools.Proofs.C15Struct
/-!
# C15 — lemmas for the file-level round trip `readFile (fileBytes …) = view`
-/
namespace C15

/-! ## slices, fields -/

theorem slice_append_left (a b : List Nat) (off n : Nat) (h : off + n ≤ a.length) :
    slice (a ++ b) off n = slice a off n := by
  unfold slice
  rw [List.drop_append_of_le_length (by omega), List.take_append_of_le_length (by simp; omega)]

theorem slice_append_right (a b : List Nat) (off n : Nat) (h : a.length ≤ off) :
    slice (a ++ b) off n = slice b (off - a.length) n := by
  unfold slice
  obtain ⟨i, rfl⟩ : ∃ i, off = a.length + i := ⟨off - a.length, by omega⟩
  rw [List.drop_append]
  simp [List.drop_of_length_le]

theorem slice_prefix (a b : List Nat) : slice (a ++ b) 0 a.length = a := by
  simp [slice]

theorem slice_mid (p a b : List Nat) : slice (p ++ a ++ b) p.length a.length = a := by
  rw [List.append_assoc, slice_append_right _ _ _ _ (Nat.le_refl _)]
  simp [slice]

theorem slice_mid' (p a b : List Nat) (n : Nat) (hn : n = a.length) :
    slice (p ++ (a ++ b)) p.length n = a := by
  subst hn
  rw [slice_append_right _ _ _ _ (Nat.le_refl _)]
  simp [slice]

theorem leDecode_le' (k n : Nat) (h : n < 256 ^ k) : leDecode (le k n) = n := by
  rw [leDecode_le, Nat.mod_eq_of_lt h]

@[simp] theorem length_le' (k n : Nat) : (le k n).length = k := length_le k n
@[simp] theorem length_zeros (n : Nat) : (zeros n).length = n := by simp [zeros]

theorem splitW_flatten (fs : List (List Nat)) (rest : List Nat) :
    splitW (fs.map List.length) (fs.flatten ++ rest) = some (fs, rest) := by
  induction fs with
  | nil => simp [splitW]
  | cons f fs ih =>
    simp only [List.map_cons, List.flatten_cons, List.append_assoc, splitW, List.length_append]
    rw [if_neg (by omega), List.drop_left, List.take_left, ih]

/-- `splitW` on explicitly given widths. -/
theorem splitW_of (ws : List Nat) (fs : List (List Nat)) (rest l : List Nat)
    (hw : ws = fs.map List.length) (hl : l = fs.flatten ++ rest) : splitW ws l = some (fs, rest) := by
  subst hw hl; exact splitW_flatten fs rest

theorem u32At_mid (p rest : List Nat) (n : Nat) (h : n < 256 ^ 4) :
    u32At (p ++ (le 4 n ++ rest)) p.length = .ok n := by
  unfold u32At
  rw [if_pos (by simp), slice_mid' p (le 4 n) rest 4 (by simp), leDecode_le' 4 n h]
  rfl

/-! ## particle sheet -/

/-- what a sheet frame reads back as: version 0 stores one coordinate set, repeated four times. -/
def normFrame (ver : Nat) (fr : SheetFrame) : SheetFrame :=
  if ver = 1 then fr
  else ⟨fr.dur, fr.coords.take 16 ++ fr.coords.take 16 ++ fr.coords.take 16 ++ fr.coords.take 16⟩

def normSeq (ver : Nat) (s : SheetSeq) : SheetSeq := { s with frames := s.frames.map (normFrame ver) }

def frameWF (fr : SheetFrame) : Bool := fr.dur.length == 4 && fr.coords.length == 64

def seqWF (s : SheetSeq) : Bool :=
  decide (s.num < 64) && s.duration.length == 4 && decide (s.frames.length < 256 ^ 4) && s.frames.all frameWF

theorem parseFrames_bytes (ver : Nat) (hver : ver ≤ 1) (frs : List SheetFrame)
    (hwf : frs.all frameWF = true) (rest : List Nat) :
    parseFrames ver frs.length ((frs.map (sheetFrameBytes ver)).flatten ++ rest)
      = .ok (frs.map (normFrame ver), rest) := by
  induction frs with
  | nil => simp [parseFrames]; rfl
  | cons fr frs ih =>
    simp only [List.all_cons, Bool.and_eq_true, frameWF, beq_iff_eq] at hwf
    obtain ⟨⟨hd, hc⟩, hrest⟩ := hwf
    have hv : ver = 0 ∨ ver = 1 := by omega
    simp only [List.length_cons, List.map_cons, List.flatten_cons, List.append_assoc, parseFrames,
      sheetFrameBytes]
    rcases hv with rfl | rfl
    · have hl : ¬ ((fr.dur ++ (fr.coords.take 16 ++ ((frs.map (sheetFrameBytes 0)).flatten ++ rest))).length
          < 4 + 16) := by simp [hd, hc]; omega
      simp only [if_true, Nat.zero_ne_one, if_false, hl]
      have t4 : (fr.dur ++ (fr.coords.take 16 ++ ((frs.map (sheetFrameBytes 0)).flatten ++ rest))).take 4
          = fr.dur := by rw [List.take_append_of_le_length (by omega)]; simp [← hd]
      have d4 : ∀ x : List Nat, (fr.dur ++ x).drop 4 = x := by intro x; rw [← hd]; simp
      have e20 : (fr.dur ++ (fr.coords.take 16 ++ ((frs.map (sheetFrameBytes 0)).flatten ++ rest))).drop (4 + 16)
          = (frs.map (sheetFrameBytes 0)).flatten ++ rest := by
        rw [← List.drop_drop, d4]
        have : (fr.coords.take 16).length = 16 := by simp [hc]
        rw [← this]; simp
      have c16 : ((fr.dur ++ (fr.coords.take 16 ++ ((frs.map (sheetFrameBytes 0)).flatten ++ rest))).drop 4).take 16
          = fr.coords.take 16 := by
        rw [d4]
        have : (fr.coords.take 16).length = 16 := by simp [hc]
        rw [← this]; simp
      rw [t4, c16, e20, ih hrest]
      simp [normFrame]; rfl
    · have hl : ¬ ((fr.dur ++ (fr.coords ++ ((frs.map (sheetFrameBytes 1)).flatten ++ rest))).length
          < 4 + 64) := by simp [hd, hc]; omega
      simp only [if_true, Nat.one_ne_zero, if_false, hl]
      have t4 : (fr.dur ++ (fr.coords ++ ((frs.map (sheetFrameBytes 1)).flatten ++ rest))).take 4
          = fr.dur := by rw [List.take_append_of_le_length (by omega)]; simp [← hd]
      have d4 : ∀ x : List Nat, (fr.dur ++ x).drop 4 = x := by intro x; rw [← hd]; simp
      have e68 : (fr.dur ++ (fr.coords ++ ((frs.map (sheetFrameBytes 1)).flatten ++ rest))).drop (4 + 64)
          = (frs.map (sheetFrameBytes 1)).flatten ++ rest := by
        rw [← List.drop_drop, d4, ← hc]; simp
      have c64 : ((fr.dur ++ (fr.coords ++ ((frs.map (sheetFrameBytes 1)).flatten ++ rest))).drop 4).take 64
          = fr.coords := by rw [d4, ← hc]; simp
      rw [t4, c64, e68, ih hrest]
      simp [normFrame]; rfl

theorem parseSeqs_bytes (ver : Nat) (hver : ver ≤ 1) (seqs : List SheetSeq) :
    ∀ (seen : List Nat) (rest : List Nat), seqs.all seqWF = true → (seqs.map (·.num)).Nodup →
      (∀ s ∈ seqs, s.num ∉ seen) →
      parseSeqs ver seqs.length seen ((seqs.map (sheetSeqBytes ver)).flatten ++ rest)
        = .ok (seqs.map (normSeq ver)) := by
  induction seqs with
  | nil => intro seen rest _ _ _; rfl
  | cons s ss ih =>
    intro seen rest hwf hnd hdis
    simp only [List.all_cons, Bool.and_eq_true, seqWF, beq_iff_eq, decide_eq_true_eq] at hwf
    obtain ⟨⟨⟨⟨hnum, hdur⟩, hfl⟩, hfr⟩, hrest⟩ := hwf
    simp only [List.map_cons, List.nodup_cons] at hnd
    have hsplit : splitW [4, 3, 1, 4, 4]
        ((List.map (sheetSeqBytes ver) (s :: ss)).flatten ++ rest)
        = some ([le 4 s.num, zeros 3, [if s.clamp then 1 else 0], le 4 s.frames.length, s.duration],
            (s.frames.map (sheetFrameBytes ver)).flatten ++
              ((ss.map (sheetSeqBytes ver)).flatten ++ rest)) := by
      apply splitW_of
      · simp [hdur]
      · simp [sheetSeqBytes, List.append_assoc]
    simp only [List.length_cons, parseSeqs, hsplit]
    rw [leDecode_le' 4 s.num (by omega), leDecode_le' 4 _ hfl]
    have h64 : ¬ s.num ≥ 64 := by omega
    have hseen : seen.contains s.num = false := by
      simpa using hdis s (by simp)
    simp only [h64, if_false, hseen, Bool.false_eq_true]
    rw [parseFrames_bytes ver hver s.frames hfr]
    simp only []
    rw [ih (s.num :: seen) rest hrest hnd.2 (by
      intro s' hs'
      simp only [List.mem_cons, not_or]
      refine ⟨?_, hdis s' (by simp [hs'])⟩
      intro h
      exact hnd.1 (List.mem_map.mpr ⟨s', hs', h⟩))]
    simp only [List.map_cons, normSeq]
    cases hc : s.clamp <;> simp [leDecode, pure, Except.pure]

def sheetWF (seqs : List SheetSeq) : Bool :=
  decide (seqs.length ≤ 64) && seqs.all seqWF && decide ((seqs.map (·.num)).Nodup)

theorem parseSheet_sheetData (seqs : List SheetSeq) (ver : Nat) (hver : ver ≤ 1)
    (hwf : sheetWF seqs = true) : parseSheet (sheetData seqs ver) = .ok (seqs.map (normSeq ver)) := by
  simp only [sheetWF, Bool.and_eq_true, decide_eq_true_eq] at hwf
  obtain ⟨⟨hlen, hall⟩, hnd⟩ := hwf
  have hsplit : splitW [4, 4] (sheetData seqs ver)
      = some ([le 4 ver, le 4 seqs.length], (seqs.map (sheetSeqBytes ver)).flatten ++ []) := by
    apply splitW_of
    · simp
    · simp [sheetData, List.append_assoc]
  simp only [parseSheet, hsplit]
  rw [leDecode_le' 4 ver (by omega), leDecode_le' 4 seqs.length (by omega)]
  simp only [show ¬ ver > 1 by omega, show ¬ seqs.length > 64 by omega, if_false]
  exact parseSeqs_bytes ver hver seqs [] [] hall hnd (by simp)

end C15
