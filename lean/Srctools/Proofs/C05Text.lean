import Srctools.Proofs.C05Round
set_option exponentiation.threshold 3000
/-! C05, third proofs file: `float(format_float(x))` and `parse_vec_str(str(v))`. -/
namespace B64


theorem digitsVal_append (a b : List Char) : digitsVal (a ++ b) = digitsVal a * 10 ^ b.length + digitsVal b := by
  induction b using List.reverseRecOn generalizing a with
  | nil => simp [digitsVal]
  | append_singleton t c ih =>
    rw [← List.append_assoc, digitsVal_snoc, digitsVal_snoc, ih]
    simp only [List.length_append, List.length_singleton, Nat.pow_succ]
    ring

theorem lower_digit (c : Char) (h : isDigit c = true) : lower c = c := by
  unfold lower
  unfold isDigit at h
  have h1 : '0' ≤ c ∧ c ≤ '9' := by simpa using h
  have : ¬ ('A' ≤ c ∧ c ≤ 'Z') := by
    intro ⟨ha, _⟩
    have k1 : c.val ≤ ('9' : Char).val := h1.2
    have k2 : ('A' : Char).val ≤ c.val := ha
    have k3 : ('9' : Char).val < ('A' : Char).val := by decide
    exact absurd (Nat.lt_of_le_of_lt (UInt32.le_iff_toNat_le.1 k1) (UInt32.lt_iff_toNat_lt.1 k3))
      (Nat.not_lt.2 (UInt32.le_iff_toNat_le.1 k2))
  simp [this]

/-- text that starts with a digit is none of `inf`, `infinity`, `nan` -/
theorem not_special (d : Char) (t : List Char) (hd : isDigit d = true) :
    ((d :: t).map lower == ['i', 'n', 'f'] || (d :: t).map lower == ['i', 'n', 'f', 'i', 'n', 'i', 't', 'y']) = false ∧
    ((d :: t).map lower == ['n', 'a', 'n']) = false := by
  have hl := lower_digit d hd
  have hi : d ≠ 'i' := by intro h; rw [h] at hd; exact absurd hd (by decide)
  have hn : d ≠ 'n' := by intro h; rw [h] at hd; exact absurd hd (by decide)
  simp only [List.map_cons, hl]
  refine ⟨?_, ?_⟩
  · simp [hi]
  · simp [hn]

/-- `float()` of plain decimal text `[-]D[.F]` (digits `D` non-empty, `F` digits): the correctly rounded value of
`±(D.F)` -/
theorem parseDec_parts (s : Bool) (D F : List Char) (hD : D ≠ []) (hDd : ∀ c ∈ D, isDigit c = true)
    (hFd : ∀ c ∈ F, isDigit c = true) :
    parseDec ((if s then ['-'] else []) ++ D ++ (if F = [] then [] else '.' :: F)) =
      some (rnd s (digitsVal (D ++ F) * U) (10 ^ F.length)) := by
  obtain ⟨d, t, rfl⟩ : ∃ d t, D = d :: t := by
    cases D with
    | nil => exact absurd rfl hD
    | cons d t => exact ⟨d, t, rfl⟩
  have hd : isDigit d = true := hDd d (by simp)
  have hdm : d ≠ '-' := by intro h; rw [h] at hd; exact absurd hd (by decide)
  have hdp : d ≠ '+' := by intro h; rw [h] at hd; exact absurd hd (by decide)
  have hdot : isDigit '.' = false := by decide
  -- after the sign
  have body : ∀ sg : Bool, parseBody sg (d :: t ++ (if F = [] then [] else '.' :: F)) =
      some (decimalVal sg (digitsVal (d :: t ++ F)) (-(F.length : Int))) := by
    intro sg
    unfold parseBody
    obtain ⟨n1, n2⟩ := not_special d (t ++ (if F = [] then [] else '.' :: F)) hd
    simp only [List.cons_append] at n1 n2 ⊢
    simp only [n1, n2, Bool.false_eq_true, if_false]
    have htw := tw_all isDigit (d :: t) (if F = [] then [] else '.' :: F) hDd
    have hdw := dw_all isDigit (d :: t) (if F = [] then [] else '.' :: F) hDd
    simp only [List.cons_append] at htw hdw
    rw [htw, hdw]
    by_cases hF0 : F = []
    · subst hF0
      simp
    · simp only [hF0, if_false, List.takeWhile_cons, hdot, Bool.false_eq_true, List.append_nil, List.dropWhile_cons]
      have h1 : F.takeWhile isDigit = F := by
        have := tw_all isDigit F [] hFd
        simpa using this
      have h2 : F.dropWhile isDigit = [] := by
        have := dw_all isDigit F [] hFd
        simpa using this
      simp [h1, h2]
  -- the correctly rounded value, whatever branch `decimalVal` takes
  have hdv : ∀ sg : Bool, decimalVal sg (digitsVal (d :: t ++ F)) (-(F.length : Int)) =
      rnd sg (digitsVal (d :: t ++ F) * U) (10 ^ F.length) := by
    intro sg
    unfold decimalVal
    by_cases hm : digitsVal (d :: t ++ F) = 0
    · simp only [hm, beq_self_eq_true, if_true, Nat.zero_mul]
      unfold rnd
      simp only [roundMag_zero]
      have : 0 < maxMag := by decide +kernel
      simp [this]
    · have hm' : (digitsVal (d :: t ++ F) == 0) = false := by simpa using hm
      simp only [hm', Bool.false_eq_true, if_false]
      by_cases hF0 : F.length = 0
      · simp [hF0]
      · have : ¬ (-(F.length : Int) ≥ 0) := by omega
        simp only [this, if_false]
        have : (-(-(F.length : Int))).toNat = F.length := by simp
        rw [this]
  unfold parseDec
  cases s with
  | true =>
    simp only [if_true, List.cons_append, List.nil_append, splitSign]
    have h1 := body true
    have h2 := hdv true
    simp only [List.cons_append] at h1 h2
    rw [← h2]; exact h1
  | false =>
    simp only [Bool.false_eq_true, if_false, List.nil_append]
    have hsplit : splitSign (d :: t ++ (if F = [] then [] else '.' :: F)) = (false, d :: t ++ (if F = [] then [] else '.' :: F)) := by
      simp only [List.cons_append]
      unfold splitSign
      split
      · rename_i r heq
        simp only [List.cons.injEq] at heq; exact absurd heq.1 hdm
      · rename_i r heq
        simp only [List.cons.injEq] at heq; exact absurd heq.1 hdp
      · rfl
    rw [hsplit, ← hdv false]
    exact body false

/-- every finite double leaves room for 1.0 below 2^1024 -/
theorem rep_add_U (m : Nat) (h : Rep m) (hlt : m < maxMag) : m + U ≤ maxMag := by
  rcases Nat.lt_or_ge m (2 ^ 2097) with hs | hb
  · have : (2 : Nat) ^ 2097 + U ≤ maxMag := by decide +kernel
    omega
  · obtain ⟨j, hj⟩ := rep_multiple m 2045 h hb
    have hj53 : j < 2 ^ 53 := by
      by_contra hc
      have : 2 ^ 2045 * 2 ^ 53 ≤ 2 ^ 2045 * j := Nat.mul_le_mul_left _ (Nat.le_of_not_lt hc)
      have e : (2 : Nat) ^ 2045 * 2 ^ 53 = maxMag := by decide +kernel
      omega
    have : 2 ^ 2045 * (j + 1) ≤ 2 ^ 2045 * 2 ^ 53 := Nat.mul_le_mul_left _ hj53
    have e : (2 : Nat) ^ 2045 * 2 ^ 53 = maxMag := by decide +kernel
    have hU : U ≤ 2 ^ 2045 := by decide +kernel
    rw [Nat.mul_add, Nat.mul_one] at this
    omega

/-- **`float(format_float(x))`**: the text parses, to the representable value nearest to the printed decimal, which
is within 1e-6 of `x + 0.0`. -/
theorem parse_formatFloat (x : Val) (s : Bool) (m : Nat) (hadd : add x zero = .fin s m) (hrep : Rep m)
    (hlt : m < maxMag) :
    ∃ p, parseDec (formatFloat x) = some (.fin s p) ∧ Rep p ∧
      (∀ r, Rep r → abs ((p : Rat) / (U : Rat) - abs (decVal (formatFloat x))) ≤ abs ((r : Rat) / (U : Rat) - abs (decVal (formatFloat x)))) ∧
      |(p : Rat) / (U : Rat) - (m : Rat) / (U : Rat)| ≤ 1 / 1000000 := by
  have hU := U_posQ
  obtain ⟨D, F, hDe, hFe, hD1, hD2, hF, _, _⟩ := strip_fmt6 s m
  have hFd : ∀ c ∈ F, isDigit c = true := by
    rcases hF with h | ⟨_, h⟩
    · rw [h]; intro c hc; cases hc
    · exact h
  have hclose := formatFloat_close x s m hadd
  rw [formatFloat_eq x s m hadd, ← hDe, ← hFe] at hclose ⊢
  rw [parseDec_parts s D F hD1 hD2 hFd]
  rw [decVal_parts s D F hD1 hD2] at hclose ⊢
  set mant := digitsVal (D ++ F) with hmant
  have h10 : (0 : Rat) < ((10 ^ F.length : Nat) : Rat) := by positivity
  -- value of the text
  have hval : ((digitsVal D : Nat) : Rat) + ((digitsVal F : Nat) : Rat) / ((10 ^ F.length : Nat) : Rat) =
      (mant : Rat) / ((10 ^ F.length : Nat) : Rat) := by
    rw [hmant, digitsVal_append]
    push_cast
    field_simp
  rw [hval] at hclose ⊢
  have habs : |(if s then (-1 : Rat) else 1) * ((mant : Rat) / ((10 ^ F.length : Nat) : Rat))| = (mant : Rat) / ((10 ^ F.length : Nat) : Rat) := by
    have : (0 : Rat) ≤ (mant : Rat) / ((10 ^ F.length : Nat) : Rat) := div_nonneg (Nat.cast_nonneg _) (le_of_lt h10)
    cases s
    · simp only [Bool.false_eq_true, if_false, one_mul]; exact abs_of_nonneg this
    · simp only [if_true, neg_one_mul, abs_neg]; exact abs_of_nonneg this
  rw [habs]
  -- |mant/10^j - m/U| ≤ 5e-7
  have hc2 : |(mant : Rat) / ((10 ^ F.length : Nat) : Rat) - (m : Rat) / (U : Rat)| ≤ 5 / 10000000 := by
    unfold ratOf at hclose
    cases s with
    | false => simpa using hclose
    | true =>
      have e : (-1 : Rat) * ((mant : Rat) / ((10 ^ F.length : Nat) : Rat)) - -1 * ((m : Rat) / (U : Rat)) =
          -((mant : Rat) / ((10 ^ F.length : Nat) : Rat) - (m : Rat) / (U : Rat)) := by ring
      simp only [if_true] at hclose
      rw [e, abs_neg] at hclose; exact hclose
  set p := roundMag (mant * U) (10 ^ F.length) with hp
  have hpos10 : 0 < 10 ^ F.length := Nat.pow_pos (by decide)
  have hprep : Rep p := roundMag_rep' _ _ hpos10
  -- nearest, in real units
  have hscale : ∀ r : Nat, |(r : Rat) / (U : Rat) - (mant : Rat) / ((10 ^ F.length : Nat) : Rat)| =
      |(r : Rat) - ((mant * U : Nat) : Rat) / ((10 ^ F.length : Nat) : Rat)| / (U : Rat) := by
    intro r
    have : (r : Rat) / (U : Rat) - (mant : Rat) / ((10 ^ F.length : Nat) : Rat) =
        ((r : Rat) - ((mant * U : Nat) : Rat) / ((10 ^ F.length : Nat) : Rat)) / (U : Rat) := by
      push_cast; field_simp
    rw [this, abs_div, abs_of_pos hU]
  have hnear : ∀ r, Rep r → |(p : Rat) / (U : Rat) - (mant : Rat) / ((10 ^ F.length : Nat) : Rat)| ≤
      |(r : Rat) / (U : Rat) - (mant : Rat) / ((10 ^ F.length : Nat) : Rat)| := by
    intro r hr
    rw [hscale p, hscale r]
    exact div_le_div_of_nonneg_right (roundMag_nearest (mant * U) (10 ^ F.length) r hpos10 hr) (le_of_lt hU)
  have hpm : |(p : Rat) / (U : Rat) - (m : Rat) / (U : Rat)| ≤ 1 / 1000000 := by
    have h1 := hnear m hrep
    have h2 : |(m : Rat) / (U : Rat) - (mant : Rat) / ((10 ^ F.length : Nat) : Rat)| ≤ 5 / 10000000 := by
      rw [abs_sub_comm]; exact hc2
    have h3 : (p : Rat) / (U : Rat) - (m : Rat) / (U : Rat) =
        ((p : Rat) / (U : Rat) - (mant : Rat) / ((10 ^ F.length : Nat) : Rat)) + ((mant : Rat) / ((10 ^ F.length : Nat) : Rat) - (m : Rat) / (U : Rat)) := by ring
    rw [h3]
    refine le_trans (abs_add_le _ _) ?_
    linarith
  -- no overflow
  have hpl : p < maxMag := by
    have hmU := rep_add_U m hrep hlt
    have h1 : (p : Rat) / (U : Rat) ≤ (m : Rat) / (U : Rat) + 1 / 1000000 := by
      have := (abs_le.1 hpm).2; linarith
    have h2 : (p : Rat) ≤ (m : Rat) + (U : Rat) / 1000000 := by
      have := mul_le_mul_of_nonneg_right h1 (le_of_lt hU)
      have e1 : (p : Rat) / (U : Rat) * (U : Rat) = (p : Rat) := by field_simp
      have e2 : ((m : Rat) / (U : Rat) + 1 / 1000000) * (U : Rat) = (m : Rat) + (U : Rat) / 1000000 := by field_simp
      rw [e1, e2] at this; exact this
    have h3 : (p : Rat) < ((m + U : Nat) : Rat) := by
      push_cast
      have : (U : Rat) / 1000000 < (U : Rat) := by
        rw [div_lt_iff₀ (by norm_num)]; linarith
      linarith
    have : p < m + U := by exact_mod_cast h3
    omega
  refine ⟨p, ?_, hprep, hnear, hpm⟩
  unfold rnd
  simp only [← hp, hpl, if_true]



/-- neither white space nor a bracket -/
def tokChar (c : Char) : Bool :=
  !isSpace c && !(c == '(' || c == '{' || c == '[' || c == '<') && !(c == ')' || c == '}' || c == ']' || c == '>')

theorem digit_toNat (c : Char) (h : isDigit c = true) : 48 ≤ c.toNat ∧ c.toNat ≤ 57 := by
  unfold isDigit at h
  have h1 : '0' ≤ c ∧ c ≤ '9' := by simpa using h
  have k1 : ('0' : Char).val ≤ c.val := h1.1
  have k2 : c.val ≤ ('9' : Char).val := h1.2
  exact ⟨UInt32.le_iff_toNat_le.1 k1, UInt32.le_iff_toNat_le.1 k2⟩

theorem tokChar_of_toNat (c : Char) (h1 : 48 ≤ c.toNat) (h2 : c.toNat ≤ 57) : tokChar c = true := by
  have ne : ∀ k : Char, k.toNat < 48 ∨ 57 < k.toNat → (c == k) = false := by
    intro k hk
    cases hq : (c == k)
    · rfl
    · have : c = k := by simpa using hq
      subst this; omega
  unfold tokChar isSpace
  rw [ne ' ' (by decide), ne '\t' (by decide), ne '\n' (by decide), ne '\r' (by decide), ne '(' (by decide), ne '{' (by decide),
    ne '[' (by decide), ne '<' (by decide), ne ')' (by decide), ne '}' (by decide), ne ']' (by decide), ne '>' (by decide)]
  have a1 : (c.toNat == 11) = false := by simp; omega
  have a2 : (c.toNat == 12) = false := by simp; omega
  have a3 : (decide (28 ≤ c.toNat) && decide (c.toNat ≤ 31)) = false := by simp; omega
  simp [a1, a2, a3]

theorem tokChar_of_plain (c : Char) (h : plainChar c = true) : tokChar c = true := by
  unfold plainChar at h
  simp only [Bool.or_eq_true, beq_iff_eq] at h
  rcases h with (h | h) | h
  · subst h; decide
  · subst h; decide
  · obtain ⟨h1, h2⟩ := digit_toNat c h
    exact tokChar_of_toNat c h1 h2

theorem tok_not_space (c : Char) (h : tokChar c = true) : isSpace c = false := by
  unfold tokChar at h
  simp only [Bool.and_eq_true, Bool.not_eq_true'] at h
  exact h.1.1

theorem go_token (w rest cur : List Char) (acc : List (List Char)) (hw : ∀ c ∈ w, isSpace c = false) :
    splitWs.go (w ++ rest) cur acc = splitWs.go rest (w.reverse ++ cur) acc := by
  induction w generalizing cur with
  | nil => rfl
  | cons a t ih =>
    have ha : isSpace a = false := hw a (by simp)
    simp only [List.cons_append, splitWs.go, ha, Bool.false_eq_true, if_false]
    rw [ih (a :: cur) (fun c hc => hw c (by simp [hc]))]
    simp

/-- `str.split()` of three space-free tokens separated by single spaces -/
theorem splitWs_three (a b c : List Char) (ha : a ≠ []) (hb : b ≠ []) (hc : c ≠ [])
    (ta : ∀ x ∈ a, isSpace x = false) (tb : ∀ x ∈ b, isSpace x = false) (tc : ∀ x ∈ c, isSpace x = false) :
    splitWs (a ++ ' ' :: (b ++ ' ' :: c)) = [a, b, c] := by
  have hsp : isSpace ' ' = true := by decide
  have ra : a.reverse ≠ [] := by simpa using ha
  have rb : b.reverse ≠ [] := by simpa using hb
  have rc : c.reverse ≠ [] := by simpa using hc
  unfold splitWs
  rw [go_token a _ [] [] ta]
  simp only [List.append_nil, splitWs.go, hsp, if_true]
  have e1 : a.reverse.isEmpty = false := by
    cases h : a.reverse with
    | nil => exact absurd h ra
    | cons _ _ => rfl
  simp only [e1, Bool.false_eq_true, if_false, List.reverse_reverse]
  rw [go_token b _ [] _ tb]
  simp only [List.append_nil, splitWs.go, hsp, if_true]
  have e2 : b.reverse.isEmpty = false := by
    cases h : b.reverse with
    | nil => exact absurd h rb
    | cons _ _ => rfl
  simp only [e2, Bool.false_eq_true, if_false, List.reverse_reverse]
  have := go_token c [] [] [b, a] tc
  simp only [List.append_nil] at this
  rw [this]
  simp only [splitWs.go]
  have e3 : c.reverse.isEmpty = false := by
    cases h : c.reverse with
    | nil => exact absurd h rc
    | cons _ _ => rfl
  simp [e3]


theorem tok_brackets (x : Char) (h : tokChar x = true) :
    (x == '(' || x == '{' || x == '[' || x == '<') = false ∧ (x == ')' || x == '}' || x == ']' || x == '>') = false := by
  unfold tokChar at h
  simp only [Bool.and_eq_true, Bool.not_eq_true'] at h
  exact ⟨h.1.2, h.2⟩

/-- `parse_vec_str` of three tokens (no white space, no brackets inside) separated by single spaces: nothing is
stripped, no bracket is removed, the text splits into exactly the three tokens, each goes through `float()`. -/
theorem parseVecStr_three (a b c : List Char) (ha : a ≠ []) (hb : b ≠ []) (hc : c ≠ [])
    (ta : ∀ x ∈ a, tokChar x = true) (tb : ∀ x ∈ b, tokChar x = true) (tc : ∀ x ∈ c, tokChar x = true) :
    parseVecStr (a ++ ' ' :: (b ++ ' ' :: c)) =
      match parseDec a, parseDec b, parseDec c with
      | some x, some y, some z => some (x, y, z)
      | _, _, _ => none := by
  obtain ⟨a0, a', rfl⟩ : ∃ a0 a', a = a0 :: a' := by
    cases a with
    | nil => exact absurd rfl ha
    | cons x t => exact ⟨x, t, rfl⟩
  have ha0 : tokChar a0 = true := ta a0 (by simp)
  -- last character
  obtain ⟨cl, c', hcr⟩ : ∃ cl c', c.reverse = cl :: c' := by
    cases h : c.reverse with
    | nil => have : c = [] := by simpa using h
             exact absurd this hc
    | cons x t => exact ⟨x, t, rfl⟩
  have hcl : tokChar cl = true := tc cl (by
    have : cl ∈ c.reverse := by rw [hcr]; simp
    simpa using this)
  have hlrev : ((a0 :: a') ++ ' ' :: (b ++ ' ' :: c)).reverse = cl :: (c' ++ ' ' :: (b.reverse ++ ' ' :: (a0 :: a').reverse)) := by
    simp only [List.reverse_append, List.reverse_cons, hcr, List.append_assoc, List.cons_append, List.nil_append]
  have hstrip : stripWs ((a0 :: a') ++ ' ' :: (b ++ ' ' :: c)) = (a0 :: a') ++ ' ' :: (b ++ ' ' :: c) := by
    unfold stripWs
    have h1 : ((a0 :: a') ++ ' ' :: (b ++ ' ' :: c)).dropWhile isSpace = (a0 :: a') ++ ' ' :: (b ++ ' ' :: c) := by
      simp only [List.cons_append, List.dropWhile_cons, tok_not_space a0 ha0, Bool.false_eq_true, if_false]
    rw [h1, hlrev]
    simp only [List.dropWhile_cons, tok_not_space cl hcl, Bool.false_eq_true, if_false]
    rw [← hlrev, List.reverse_reverse]
  have hb1 := (tok_brackets a0 ha0).1
  have hb2 := (tok_brackets cl hcl).2
  have e1 : dropOpen ((a0 :: a') ++ ' ' :: (b ++ ' ' :: c)) = (a0 :: a') ++ ' ' :: (b ++ ' ' :: c) := by
    unfold dropOpen
    simp only [List.cons_append, hb1, Bool.false_eq_true, if_false]
  have e2 : dropClose ((a0 :: a') ++ ' ' :: (b ++ ' ' :: c)) = (a0 :: a') ++ ' ' :: (b ++ ' ' :: c) := by
    unfold dropClose
    rw [hlrev]; simp only [hb2, Bool.false_eq_true, if_false]
  unfold parseVecStr
  rw [hstrip, e1, e2, splitWs_three (a0 :: a') b c ha hb hc (fun x hx => tok_not_space x (ta x hx))
    (fun x hx => tok_not_space x (tb x hx)) (fun x hx => tok_not_space x (tc x hx))]
  rfl


theorem formatFloat_ne_nil (x : Val) (s : Bool) (m : Nat) (hadd : add x zero = .fin s m) : formatFloat x ≠ [] := by
  obtain ⟨D, F, hDe, _, hD1, _, _, _, _⟩ := strip_fmt6 s m
  rw [formatFloat_eq x s m hadd, ← hDe]
  intro h
  have h1 := (List.append_eq_nil_iff.1 h).1
  exact hD1 (List.append_eq_nil_iff.1 h1).2

/-- one component: text of a finite double parses back to a finite double within 1e-6 -/
theorem roundtrip_bits (w : UInt64) (hfin : (decode w).isFinite = true) :
    ∃ v, parseDec (formatFloat (decode w)) = some v ∧ v.isFinite = true ∧
      |valQ v - valQ (decode w)| ≤ 1 / 1000000 := by
  cases hd : decode w with
  | inf s => rw [hd] at hfin; cases hfin
  | nan => rw [hd] at hfin; cases hfin
  | fin s m =>
    obtain ⟨hrep, hlt⟩ := decode_rep w s m hd
    have hadd := add_zero_decode w s m hd
    rw [hd] at hadd
    by_cases hm : m = 0
    · subst hm
      simp only [if_true] at hadd
      obtain ⟨p, hp, _, _, hc⟩ := parse_formatFloat (.fin s 0) false 0 hadd hrep hlt
      refine ⟨.fin false p, hp, rfl, ?_⟩
      have e : valQ (Val.fin s 0) = 0 := by unfold valQ ratOf; cases s <;> simp
      rw [e]
      unfold valQ ratOf
      simpa using hc
    · simp only [hm, if_false] at hadd
      obtain ⟨p, hp, _, _, hc⟩ := parse_formatFloat (.fin s m) s m hadd hrep hlt
      refine ⟨.fin s p, hp, rfl, ?_⟩
      unfold valQ ratOf
      cases s with
      | false => simpa using hc
      | true =>
        have e : (-1 : Rat) * ((p : Rat) / (U : Rat)) - -1 * ((m : Rat) / (U : Rat)) = -((p : Rat) / (U : Rat) - (m : Rat) / (U : Rat)) := by ring
        simp only [if_true]
        rw [e, abs_neg]; exact hc

theorem formatFloat_tok (w : UInt64) (hfin : (decode w).isFinite = true) :
    formatFloat (decode w) ≠ [] ∧ ∀ c ∈ formatFloat (decode w), tokChar c = true := by
  have hf := add_zero_decode_finite w hfin
  refine ⟨?_, fun c hc => tokChar_of_plain c ((formatFloat_shape _ hf).2 c hc)⟩
  cases hadd : add (decode w) zero with
  | fin s m => exact formatFloat_ne_nil _ s m hadd
  | inf s => rw [hadd] at hf; cases hf
  | nan => rw [hadd] at hf; cases hf

/-- **`parse_vec_str(str(v))`** for three finite doubles: the text is accepted as coded (nothing stripped, no bracket
removed, split into exactly three tokens) and every component comes back as a finite double within 1e-6. -/
theorem vec_roundtrip (wx wy wz : UInt64) (hx : (decode wx).isFinite = true) (hy : (decode wy).isFinite = true)
    (hz : (decode wz).isFinite = true) :
    ∃ vx vy vz, parseVecStr (vecStr (decode wx) (decode wy) (decode wz)) = some (vx, vy, vz) ∧
      (vx.isFinite = true ∧ |valQ vx - valQ (decode wx)| ≤ 1 / 1000000) ∧
      (vy.isFinite = true ∧ |valQ vy - valQ (decode wy)| ≤ 1 / 1000000) ∧
      (vz.isFinite = true ∧ |valQ vz - valQ (decode wz)| ≤ 1 / 1000000) := by
  obtain ⟨vx, px, fx, cx⟩ := roundtrip_bits wx hx
  obtain ⟨vy, py, fy, cy⟩ := roundtrip_bits wy hy
  obtain ⟨vz, pz, fz, cz⟩ := roundtrip_bits wz hz
  obtain ⟨nx, tx⟩ := formatFloat_tok wx hx
  obtain ⟨ny, ty⟩ := formatFloat_tok wy hy
  obtain ⟨nz, tz⟩ := formatFloat_tok wz hz
  refine ⟨vx, vy, vz, ?_, ⟨fx, cx⟩, ⟨fy, cy⟩, ⟨fz, cz⟩⟩
  unfold vecStr
  rw [parseVecStr_three _ _ _ nx ny nz tx ty tz, px, py, pz]

end B64
