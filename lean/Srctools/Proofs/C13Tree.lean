import Srctools.Proofs.C13Codec
/-! Helper lemmas for C13, part 3: `Tree.put` / `Tree.del` / canonical form versus `Tree.lookup` and `TreeWF`. -/
namespace C13

theorem find_map_val {α β} (g : Str × α → β) (l : AList α) (k : Str) :
    AList.find k (l.map (fun x => (x.1, g x))) = (AList.find k l).map (fun v => g (k, v)) := by
  induction l with
  | nil => rfl
  | cons x xs ih =>
    obtain ⟨k1, v1⟩ := x
    by_cases h : k1 = k
    · subst h; simp [AList.find]
    · simp [AList.find, h, ih]

theorem find_filter {α} (p : Str × α → Bool) (l : AList α) (hd : Distinct l) (k : Str) :
    AList.find k (l.filter p) = match AList.find k l with
      | some v => if p (k, v) then some v else none
      | none => none := by
  induction l with
  | nil => rfl
  | cons x xs ih =>
    obtain ⟨k1, v1⟩ := x
    rw [distinct_cons] at hd
    by_cases h : k1 = k
    · subst h
      by_cases hp : p (k1, v1) = true
      · simp [List.filter_cons, hp, AList.find]
      · simp only [List.filter_cons, hp, AList.find, if_true]
        simp only [Bool.false_eq_true, if_false]
        rw [find_eq_none_iff]
        intro hm
        exact hd.1 (List.Sublist.subset ((List.filter_sublist).map _) hm)
    · by_cases hp : p (k1, v1) = true
      · simp [List.filter_cons, hp, AList.find, h, ih hd.2]
      · simp [List.filter_cons, hp, AList.find, h, ih hd.2]

/-! ## lookup after put -/

theorem lookup_bind (t : Tree) (k : Key) :
    t.lookup k = (AList.find k.ext t).bind (fun ds => (AList.find k.dir ds).bind (fun fs => AList.find k.name fs)) := by
  unfold Tree.lookup
  cases AList.find k.ext t with
  | none => rfl
  | some ds =>
    simp only [Option.bind_some]
    cases AList.find k.dir ds <;> rfl

theorem key_ne_of_name {d n e d' n' e' : Str} (h : n ≠ n') : ¬ ((⟨d, n, e⟩ : Key) = ⟨d', n', e'⟩) := by
  intro hk; injection hk with _ b _; exact h b
theorem key_ne_of_dir {d n e d' n' e' : Str} (h : d ≠ d') : ¬ ((⟨d, n, e⟩ : Key) = ⟨d', n', e'⟩) := by
  intro hk; injection hk with a _ _; exact h a
theorem key_ne_of_ext {d n e d' n' e' : Str} (h : e ≠ e') : ¬ ((⟨d, n, e⟩ : Key) = ⟨d', n', e'⟩) := by
  intro hk; injection hk with _ _ c; exact h c

theorem lookup_put (t : Tree) (k k' : Key) (i : Info) :
    (t.put k i).lookup k' = if k = k' then some i else t.lookup k' := by
  obtain ⟨d, n, e⟩ := k
  obtain ⟨d', n', e'⟩ := k'
  rw [lookup_bind, lookup_bind]
  simp only [Tree.put]
  by_cases he : e = e'
  · subst he
    by_cases hd : d = d'
    · subst hd
      by_cases hn : n = n'
      · subst hn; simp [find_set]
      · simp only [key_ne_of_name hn, if_false]
        cases h1 : AList.find e t with
        | none => simp [find_set, hn, AList.find]
        | some ds =>
          cases h2 : AList.find d ds with
          | none => simp [find_set, hn, AList.find, h2]
          | some fs => simp [find_set, hn, h2]
    · simp only [key_ne_of_dir hd, if_false]
      cases h1 : AList.find e t with
      | none => simp [find_set, hd, AList.find]
      | some ds => simp [find_set, hd]
  · simp only [key_ne_of_ext he, if_false]
    simp [find_set, he]

/-! ## well-formedness is preserved -/

def keyOK (k : Key) : Bool := strOK k.dir && strOK k.name && strOK k.ext

theorem filesWF_nil : FilesWF [] := ⟨by simp [Distinct], by simp⟩
theorem dirsWF_nil : DirsWF [] := ⟨by simp [Distinct], by simp⟩
theorem treeWF_nil : TreeWF [] := ⟨by simp [Distinct], by simp⟩

theorem filesWF_set {fs : Files} (h : FilesWF fs) {n : Str} {i : Info} (hn : strOK n = true) (hi : infoNorm i = true) :
    FilesWF (AList.set n i fs) := by
  refine ⟨distinct_set _ _ _ h.1, ?_⟩
  intro x hx
  rcases mem_set hx with e | e
  · subst e; exact ⟨hn, hi⟩
  · exact h.2 x e

theorem dirsWF_set {ds : Dirs} (h : DirsWF ds) {d : Str} {fs : Files} (hd : strOK d = true) (hf : FilesWF fs) :
    DirsWF (AList.set d fs ds) := by
  refine ⟨distinct_set _ _ _ h.1, ?_⟩
  intro x hx
  rcases mem_set hx with e | e
  · subst e; exact ⟨hd, hf⟩
  · exact h.2 x e

theorem treeWF_set {t : Tree} (h : TreeWF t) {e : Str} {ds : Dirs} (he : strOK e = true) (hd : DirsWF ds) :
    TreeWF (AList.set e ds t) := by
  refine ⟨distinct_set _ _ _ h.1, ?_⟩
  intro x hx
  rcases mem_set hx with e' | e'
  · subst e'; exact ⟨he, hd⟩
  · exact h.2 x e'

theorem dirsWF_of_find {t : Tree} (h : TreeWF t) (e : Str) : DirsWF ((AList.find e t).getD []) := by
  cases hf : AList.find e t with
  | none => exact dirsWF_nil
  | some ds => exact (h.2 _ (find_some_mem hf)).2

theorem filesWF_of_find {ds : Dirs} (h : DirsWF ds) (d : Str) : FilesWF ((AList.find d ds).getD []) := by
  cases hf : AList.find d ds with
  | none => exact filesWF_nil
  | some fs => exact (h.2 _ (find_some_mem hf)).2

theorem treeWF_put {t : Tree} (h : TreeWF t) {k : Key} {i : Info} (hk : keyOK k = true) (hi : infoNorm i = true) :
    TreeWF (t.put k i) := by
  simp only [keyOK, Bool.and_eq_true] at hk
  unfold Tree.put
  have h1 := dirsWF_of_find h k.ext
  have h2 := filesWF_of_find h1 k.dir
  exact treeWF_set h hk.2 (dirsWF_set h1 hk.1.1 (filesWF_set h2 hk.1.2 hi))

theorem mem_of_mem_erase {α} {k : Str} {l : AList α} {x : Str × α} (h : x ∈ AList.erase k l) : x ∈ l :=
  (erase_sublist k l).subset h

theorem filesWF_erase {fs : Files} (h : FilesWF fs) (n : Str) : FilesWF (AList.erase n fs) :=
  ⟨distinct_erase _ _ h.1, fun x hx => h.2 x (mem_of_mem_erase hx)⟩

theorem dirsWF_erase {ds : Dirs} (h : DirsWF ds) (d : Str) : DirsWF (AList.erase d ds) :=
  ⟨distinct_erase _ _ h.1, fun x hx => h.2 x (mem_of_mem_erase hx)⟩

theorem treeWF_erase {t : Tree} (h : TreeWF t) (e : Str) : TreeWF (AList.erase e t) :=
  ⟨distinct_erase _ _ h.1, fun x hx => h.2 x (mem_of_mem_erase hx)⟩

theorem del_none1 {t : Tree} {k : Key} (h1 : AList.find k.ext t = none) : t.del k = t := by
  unfold Tree.del; simp only [h1]

theorem del_none2 {t : Tree} {k : Key} {ds : Dirs} (h1 : AList.find k.ext t = some ds)
    (h2 : AList.find k.dir ds = none) : t.del k = t := by
  unfold Tree.del; simp only [h1, h2]

theorem del_some {t : Tree} {k : Key} {ds : Dirs} {fs : Files} (h1 : AList.find k.ext t = some ds)
    (h2 : AList.find k.dir ds = some fs) : t.del k =
      if AList.erase k.name fs = [] then
        (if AList.erase k.dir ds = [] then AList.erase k.ext t else AList.set k.ext (AList.erase k.dir ds) t)
      else AList.set k.ext (AList.set k.dir (AList.erase k.name fs) ds) t := by
  unfold Tree.del; simp only [h1, h2]

theorem treeWF_del {t : Tree} (h : TreeWF t) (k : Key) : TreeWF (t.del k) := by
  cases h1 : AList.find k.ext t with
  | none => rw [del_none1 h1]; exact h
  | some ds =>
    have w1 := h.2 _ (find_some_mem h1)
    cases h2 : AList.find k.dir ds with
    | none => rw [del_none2 h1 h2]; exact h
    | some fs =>
      have w2 := w1.2.2 _ (find_some_mem h2)
      rw [del_some h1 h2]
      split
      · split
        · exact treeWF_erase h _
        · exact treeWF_set h w1.1 (dirsWF_erase w1.2 _)
      · exact treeWF_set h w1.1 (dirsWF_set w1.2 w2.1 (filesWF_erase w2.2 _))

theorem lookup_del {t : Tree} (h : TreeWF t) (k k' : Key) :
    (t.del k).lookup k' = if k = k' then none else t.lookup k' := by
  obtain ⟨d, n, e⟩ := k
  obtain ⟨d', n', e'⟩ := k'
  cases h1 : AList.find e t with
  | none =>
    rw [del_none1 (k := ⟨d, n, e⟩) h1]
    split
    · rename_i hk; injection hk with a b c; subst a; subst b; subst c; simp [lookup_bind, h1]
    · rfl
  | some ds =>
    have w1 := h.2 _ (find_some_mem h1)
    cases h2 : AList.find d ds with
    | none =>
      rw [del_none2 (k := ⟨d, n, e⟩) h1 h2]
      split
      · rename_i hk; injection hk with a b c; subst a; subst b; subst c; simp [lookup_bind, h1, h2]
      · rfl
    | some fs =>
      have w2 := w1.2.2 _ (find_some_mem h2)
      rw [del_some (k := ⟨d, n, e⟩) h1 h2]
      simp only
      by_cases he : e = e'
      · subst he
        by_cases hd : d = d'
        · subst hd
          have hfe := find_erase n n' fs w2.2.1
          by_cases hn : n = n'
          · subst hn
            simp only [if_true] at hfe ⊢
            split
            · split
              · simp [lookup_bind, find_erase _ _ _ h.1]
              · simp [lookup_bind, find_set, find_erase _ _ _ w1.2.1]
            · simp [lookup_bind, find_set, hfe]
          · simp only [hn, if_false] at hfe
            simp only [key_ne_of_name hn, if_false]
            split
            · rename_i hnil
              rw [hnil] at hfe
              have hnone : AList.find n' fs = none := by rw [← hfe]; rfl
              split
              · simp [lookup_bind, find_erase _ _ _ h.1, h1, h2, hnone]
              · simp [lookup_bind, find_set, find_erase _ _ _ w1.2.1, h1, h2, hnone]
            · simp [lookup_bind, find_set, hfe, h1, h2]
        · simp only [key_ne_of_dir hd, if_false]
          split
          · split
            · rename_i hnil
              have hfe := find_erase d d' ds w1.2.1
              simp only [hd, if_false] at hfe
              rw [hnil] at hfe
              have hnone : AList.find d' ds = none := by rw [← hfe]; rfl
              simp [lookup_bind, find_erase _ _ _ h.1, h1, hnone]
            · simp [lookup_bind, find_set, find_erase _ _ _ w1.2.1, hd, h1]
          · simp [lookup_bind, find_set, hd, h1]
      · simp only [key_ne_of_ext he, if_false]
        split
        · split
          · simp [lookup_bind, find_erase _ _ _ h.1, he]
          · simp [lookup_bind, find_set, he]
        · simp [lookup_bind, find_set, he]

/-! ## the canonical form has the same content -/

theorem find_rawDirs {ds : Dirs} (h : Distinct ds) (d : Str) :
    AList.find d (rawDirs ds) = match AList.find d ds with
      | none => none
      | some fs => if fs = [] then none else some (sortA fs) := by
  unfold rawDirs
  rw [find_map_val (fun x => sortA x.2), find_filter _ _ (distinct_sortA _ h), find_sortA _ h]
  cases AList.find d ds with
  | none => rfl
  | some fs => by_cases hf : fs = [] <;> simp [hf]

theorem find_rawTree {t : Tree} (h : Distinct t) (e : Str) :
    AList.find e (rawTree t) = match AList.find e t with
      | none => none
      | some ds => if ds = [] then none else some (rawDirs ds) := by
  unfold rawTree
  rw [find_map_val (fun x => rawDirs x.2), find_filter _ _ (distinct_sortA _ h), find_sortA _ h]
  cases AList.find e t with
  | none => rfl
  | some ds => by_cases hf : ds = [] <;> simp [hf]

theorem lookup_rawTree {t : Tree} (h : TreeWF t) (k : Key) : Tree.lookup (rawTree t) k = t.lookup k := by
  rw [lookup_bind, lookup_bind, find_rawTree h.1]
  cases h1 : AList.find k.ext t with
  | none => rfl
  | some ds =>
    have w1 := h.2 _ (find_some_mem h1)
    by_cases hds : ds = []
    · subst hds; simp [AList.find]
    · simp only [hds, if_false, Option.bind_some]
      rw [find_rawDirs w1.2.1]
      cases h2 : AList.find k.dir ds with
      | none => rfl
      | some fs =>
        have w2 := w1.2.2 _ (find_some_mem h2)
        by_cases hfs : fs = []
        · subst hfs; simp [AList.find]
        · simp only [hfs, if_false, Option.bind_some]
          exact find_sortA _ w2.2.1 _

theorem treeWF_rawTree {t : Tree} (h : TreeWF t) : TreeWF (rawTree t) := by
  refine ⟨distinct_rawTree t h.1, ?_⟩
  intro x hx
  obtain ⟨ds, h1, h2, _⟩ := mem_rawTree hx
  have w1 := h.2 _ h1
  refine ⟨w1.1, ?_⟩
  rw [h2]
  refine ⟨distinct_rawDirs ds w1.2.1, ?_⟩
  intro y hy
  obtain ⟨fs, h3, h4, _⟩ := mem_rawDirs hy
  have w2 := w1.2.2 _ h3
  refine ⟨w2.1, ?_⟩
  rw [h4]
  exact ⟨distinct_sortA _ w2.2.1, fun z hz => w2.2.2 z (mem_sortA.mp hz)⟩

end C13
