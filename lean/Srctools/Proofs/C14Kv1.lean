import Srctools.Model.C14
/-! # Lemmas for the KeyValues1 bridge (`from_kv1` / `to_kv1`). -/
namespace C14

theorem innerOK_ok : ∀ t : KV, t.innerOK = true → t.ok = true
  | .leaf .., _ => rfl
  | .block none _, h => by simp [KV.innerOK] at h
  | .block (some _) cs, h => by simpa [KV.innerOK, KV.ok] using h

theorem setItem_fresh (fold : Str → Str) (name value : Str) (acc : List (Str × Str))
    (h : ∀ p ∈ acc, fold p.1 ≠ fold name) : setItem fold name value acc = acc ++ [(name, value)] := by
  induction acc with
  | nil => rfl
  | cons p ps ih =>
    obtain ⟨n, v⟩ := p
    have hn : fold n ≠ fold name := h (n, v) (List.mem_cons_self ..)
    simp only [setItem, if_neg hn, List.cons_append]
    rw [ih (fun q hq => h q (List.mem_cons_of_mem _ hq))]

def leafPair : KV → Str × Str
  | .leaf n v => (n, v)
  | .block .. => ([], [])

/-- with no clash the inline attributes are exactly the leaves, in order. -/
theorem foldl_inline (fold : Str → Str) (cs : List KV) (acc : List (Str × Str)) (seen : List Str)
    (hleaf : ∀ c ∈ cs, c.isBlock = false) (hclash : leafClash fold cs seen = false)
    (hseen : ∀ p ∈ acc, fold p.1 ∈ seen) :
    cs.foldl (insertStep fold) acc = acc ++ cs.map leafPair := by
  induction cs generalizing acc seen with
  | nil => simp
  | cons c cs ih =>
    cases c with
    | block n ch => exact absurd (hleaf _ (List.mem_cons_self ..)) (by simp [KV.isBlock])
    | leaf n v =>
      simp only [leafClash, Bool.or_eq_false_iff, List.contains_eq_mem, decide_eq_false_iff_not] at hclash
      obtain ⟨⟨_, hns⟩, hrest⟩ := hclash
      have hfresh : ∀ p ∈ acc, fold p.1 ≠ fold n := fun p hp e => hns (e ▸ hseen p hp)
      simp only [List.foldl_cons, insertStep, List.map_cons, leafPair]
      rw [setItem_fresh fold n v acc hfresh]
      rw [ih (acc ++ [(n, v)]) (fold n :: seen) (fun c hc => hleaf c (List.mem_cons_of_mem _ hc)) hrest]
      · simp
      · intro p hp
        rcases List.mem_append.mp hp with h | h
        · exact List.mem_cons_of_mem _ (hseen p h)
        · simp only [List.mem_singleton] at h; subst h; exact List.mem_cons_self ..

theorem map_leaf_back (cs : List KV) (hleaf : ∀ c ∈ cs, c.isBlock = false) :
    (cs.map leafPair).map (fun p => KV.leaf p.1 p.2) = cs := by
  induction cs with
  | nil => rfl
  | cons c cs ih =>
    cases c with
    | block n ch => exact absurd (hleaf _ (List.mem_cons_self ..)) (by simp [KV.isBlock])
    | leaf n v =>
      simp only [List.map_cons, leafPair]
      rw [ih (fun c hc => hleaf c (List.mem_cons_of_mem _ hc))]

theorem innerOKList_mem : ∀ (cs : List KV), innerOKList cs = true → ∀ c ∈ cs, c.innerOK = true
  | [], _, c, hc => by simp at hc
  | d :: ds, h, c, hc => by
    simp only [innerOKList, Bool.and_eq_true] at h
    rcases List.mem_cons.mp hc with rfl | hc
    · exact h.1
    · exact innerOKList_mem ds h.2 c hc

mutual
theorem toKv1_fromKv1 (fold : Str → Str) : ∀ t : KV, t.ok = true → toKv1 (fromKv1 fold t) = t
  | .leaf n v, _ => by simp [fromKv1, toKv1]
  | .block n cs, h => by
    have hcs : innerOKList cs = true := by simpa [KV.ok] using h
    unfold fromKv1
    simp only
    split
    · -- children nested under `subkeys`
      cases n with
      | none => simp [toKv1, toKv1List_fromKv1List fold cs hcs]
      | some x => simp [toKv1, toKv1List_fromKv1List fold cs hcs]
    · -- leaves inlined as attributes
      rename_i hno
      simp only [Bool.or_eq_true, not_or, Bool.not_eq_true, Bool.and_eq_false_iff] at hno
      obtain ⟨⟨hclash, _⟩, hnb⟩ := hno
      have hleaf : ∀ c ∈ cs, c.isBlock = false := by
        intro c hc
        have := List.any_eq_false.mp hnb c hc
        simpa using this
      have hfold : cs.foldl (insertStep fold) [] = cs.map leafPair := by
        simpa using foldl_inline fold cs [] [] hleaf hclash (by simp)
      rw [hfold]
      cases n with
      | none => simp [toKv1, map_leaf_back cs hleaf]
      | some x => simp [toKv1, map_leaf_back cs hleaf]
theorem toKv1List_fromKv1List (fold : Str → Str) :
    ∀ cs : List KV, innerOKList cs = true → toKv1List (fromKv1List fold cs) = cs
  | [], _ => by simp [fromKv1List, toKv1List]
  | c :: cs, h => by
    simp only [innerOKList, Bool.and_eq_true] at h
    simp only [fromKv1List, toKv1List]
    rw [toKv1_fromKv1 fold c (innerOK_ok c h.1), toKv1List_fromKv1List fold cs h.2]
end

end C14
