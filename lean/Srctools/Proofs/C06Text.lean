import Srctools.Proofs.C06
import Srctools.Model.C06Text
import Srctools.Proofs.C01
/-! # C06 — the text level: lexing and parsing the text `VMF.export` writes

Generic part: for every layout tree `tt` whose raw pieces are plain and whose unquoted block
headers are identifiers (`ttOK`), the tokenizer model turns `ttText tt` into exactly the tokens of
the keyvalues tree `ttKV tt` (up to line numbers), and the `Keyvalues.parse` machine of C01 builds
that tree.  Tables = the ones generated from the current source. -/
set_option linter.unusedSimpArgs false
set_option linter.unusedVariables false
set_option linter.unusedSectionVars false
open Tok
namespace C06

abbrev TT0 : Tables := Gen.Tok.tables

theorem escF : EscFacts TT0 := escFacts C02_gen_ok
theorem kvOK_tables : C01.kvOK TT0 = true := by decide
theorem kvF : C01.KvFacts TT0 := C01.kvFacts kvOK_tables

/-! ## plain text -/

theorem escChar_plain (ml : Bool) (c : Char) (h : plainC c = true) : escChar TT0 ml c = [c] := by
  simp only [plainC, Bool.not_eq_true', Bool.or_eq_false_iff, beq_eq_false_iff_ne, ne_eq] at h
  obtain ⟨⟨⟨⟨⟨⟨⟨⟨⟨h1, h2⟩, h3⟩, h4⟩, h5⟩, h6⟩, h7⟩, h8⟩, h9⟩, h10⟩ := h
  unfold escChar
  split
  · rfl
  · rename_i hex
    have hq : c ≠ '?' ∧ c ≠ '/' := by
      constructor <;> (intro e; subst e; apply hex; cases ml <;> decide)
    have f : ∀ k : Nat, c ≠ Char.ofNat k → (Char.ofNat k == c) = false := by
      intro k hk; simp only [beq_eq_false_iff_ne, ne_eq]; exact fun e => hk e.symm
    have : TT0.invSym c = none := by
      simp only [Tables.invSym, TT0, Gen.Tok.tables, List.reverse_cons, List.reverse_nil, List.nil_append,
        List.cons_append, Option.map_eq_none_iff, List.find?_cons, List.find?_nil,
        f 63 hq.1, f 92 h2, f 47 hq.2, f 39 h10, f 34 h1, f 7 h9, f 12 h8, f 13 h7, f 8 h6, f 11 h5, f 9 h4, f 10 h3]
    rw [this]

theorem escapeText_plain (ml : Bool) (s : Str) (h : plainStr s = true) : escapeText TT0 ml s = s := by
  induction s with
  | nil => rfl
  | cons c cs ih =>
    simp only [plainStr, List.all_cons, Bool.and_eq_true] at h
    simp only [escapeText, escChar_plain ml c h.1]
    rw [ih (by simpa [plainStr] using h.2)]
    rfl

theorem plain_no_nl (s : Str) (h : plainStr s = true) : s.count '\n' = 0 := by
  rw [List.count_eq_zero]
  intro hm
  simp only [plainStr, List.all_eq_true] at h
  have := h _ hm
  simp [plainC] at this


/-! ## fields -/

def pieceOK : Piece → Bool
  | .raw s => plainStr s
  | .esc _ _ => true

def segOK (g : Seg) : Bool := g.all pieceOK

/-- raw line feeds inside the written field (only `escape_text(…, True)` leaves any) -/
def nl (g : Seg) : Nat := (segText TT0 g).count '\n'

theorem hs_esc (ml : Bool) (s t acc : Str) (line : Nat) :
    handleString TT0 true (escapeText TT0 ml s ++ t) acc false line
      = handleString TT0 true t (s.reverse ++ acc) false (line + (escapeText TT0 ml s).count '\n') := by
  induction s generalizing acc line with
  | nil => simp [escapeText]
  | cons c cs ih =>
    simp only [escapeText, List.append_assoc]
    rw [handleString_escChar escF, ih]
    simp [List.count_append, Nat.add_assoc]

theorem hs_piece (p : Piece) (hp : pieceOK p = true) (t acc : Str) (line : Nat) :
    handleString TT0 true (p.text TT0 ++ t) acc false line
      = handleString TT0 true t (p.val.reverse ++ acc) false (line + (p.text TT0).count '\n') := by
  cases p with
  | esc ml s => exact hs_esc ml s t acc line
  | raw s =>
    simp only [pieceOK] at hp
    have := hs_esc false s t acc line
    rw [escapeText_plain false s hp] at this
    exact this

theorem hs_seg (g : Seg) (hg : segOK g = true) (t acc : Str) (line : Nat) :
    handleString TT0 true (segText TT0 g ++ t) acc false line
      = handleString TT0 true t ((segVal g).reverse ++ acc) false (line + nl g) := by
  induction g generalizing acc line with
  | nil => simp [segText, segVal, nl]
  | cons p ps ih =>
    simp only [segOK, List.all_cons, Bool.and_eq_true] at hg
    simp only [segText, segVal, nl, List.flatMap_cons, List.append_assoc] at ih ⊢
    rw [hs_piece p hg.1, ih (by simpa [segOK] using hg.2)]
    simp [List.count_append, Nat.add_assoc]

/-- a quoted field is read back as one STRING token with the value the field denotes -/
theorem next_seg (o : Opts) (ho : o.allowEscapes = true) (fold : Char → List Char) (g : Seg)
    (hg : segOK g = true) (rest : Str) (st : St) (fuel : Nat) :
    nextToken TT0 o fold (fuel + 1) st ('"' :: (segText TT0 g ++ '"' :: rest))
      = .tok .string (segVal g) { line := st.line + nl g, lastCr := false } rest := by
  rw [nextToken]
  simp only [escF.quoteNoOp]
  have e1 : ('"' : Char) ≠ '\r' := by decide
  have e2 : ('"' : Char) ≠ '\n' := by decide
  have e3 : ¬ (('"' : Char) = ' ' ∨ ('"' : Char) = '\t') := by decide
  have e4 : ('"' : Char) ≠ '/' := by decide
  simp only [e1, e2, e3, e4, if_false, ho, if_true]
  rw [hs_seg g hg]
  simp [handleString_cons]

theorem isWs_tabs (d : Nat) : C01.isWs (tabs d) := by
  intro c hc
  simp only [tabs, List.mem_replicate] at hc
  exact Or.inr hc.2

section run
variable (o : Opts) (ho : o.allowEscapes = true) (fold : Char → List Char)
include ho

theorem run_seg (ws : Str) (hws : C01.isWs ws) (g : Seg) (hg : segOK g = true) (rest : Str) (n l : Nat)
    (acc : List Obs) :
    runAux TT0 o fold (n + 1) ⟨l, false⟩ (ws ++ '"' :: (segText TT0 g ++ '"' :: rest)) acc
      = runAux TT0 o fold n ⟨l + nl g, false⟩ rest (⟨1, segVal g, l + nl g⟩ :: acc) := by
  rw [runAux, List.length_append, Nat.add_assoc, C01.next_skipWs kvF o fold ws hws]
  rw [List.length_cons, next_seg o ho fold g hg rest ⟨l, false⟩]
  simp [Kind.code]

end run


/-! ## bare block headers -/

/-- a character of an identifier: `[0-9A-Za-z_]` -/
def bareC (c : Char) : Bool :=
  (48 ≤ c.toNat && c.toNat ≤ 57) || (65 ≤ c.toNat && c.toNat ≤ 90) || (97 ≤ c.toNat && c.toNat ≤ 122) ||
  c.toNat == 95

def bareName (n : Str) : Bool := !n.isEmpty && n.all bareC

theorem bareC_ne (c : Char) (h : bareC c = true) (k : Nat) (hk : bareC (Char.ofNat k) = false) :
    c ≠ Char.ofNat k := by
  intro e; rw [e, hk] at h; cases h

theorem bareC_notEnd (o : Opts) (hc : o.colonOperator = false) (hp : o.plusOperator = false) (c : Char)
    (h : bareC c = true) : isBareEnd TT0 o c = false ∧ TT0.operator c = none := by
  have f : ∀ k : Nat, bareC (Char.ofNat k) = false → (Char.ofNat k == c) = false ∧ (c == Char.ofNat k) = false := by
    intro k hk
    have := bareC_ne c h k hk
    constructor <;> simp only [beq_eq_false_iff_ne, ne_eq]
    · exact fun e => this e.symm
    · exact this
  constructor
  · simp only [isBareEnd, hc, hp, Bool.and_false, Bool.or_false, TT0, Gen.Tok.tables, List.contains_cons,
      List.contains_nil, (f 9 (by decide)).2, (f 10 (by decide)).2, (f 13 (by decide)).2, (f 32 (by decide)).2,
      (f 34 (by decide)).2, (f 39 (by decide)).2, (f 40 (by decide)).2, (f 41 (by decide)).2, (f 44 (by decide)).2,
      (f 59 (by decide)).2, (f 61 (by decide)).2, (f 91 (by decide)).2, (f 93 (by decide)).2, (f 123 (by decide)).2,
      (f 125 (by decide)).2]
  · simp only [Tables.operator, TT0, Gen.Tok.tables, List.find?_cons, List.find?_nil,
      (f 123 (by decide)).1, (f 125 (by decide)).1, (f 61 (by decide)).1, (f 44 (by decide)).1, Option.bind_none]

theorem scanBare_ident (o : Opts) (hc : o.colonOperator = false) (hp : o.plusOperator = false)
    (cs rest acc : Str) (h : cs.all bareC = true) :
    scanBare TT0 o (fun x => [x]) (cs ++ '\n' :: rest) acc = ((cs.reverse ++ acc).reverse, '\n' :: rest) := by
  induction cs generalizing acc with
  | nil =>
    have : isBareEnd TT0 o '\n' = true := by
      simp [isBareEnd, TT0, Gen.Tok.tables]
    simp [scanBare, this]
  | cons c r ih =>
    simp only [List.all_cons, Bool.and_eq_true] at h
    simp only [List.cons_append, scanBare, (bareC_notEnd o hc hp c h.1).1, Bool.false_eq_true, if_false]
    rw [ih _ h.2]
    simp

theorem next_bare (o : Opts) (hc : o.colonOperator = false) (hp : o.plusOperator = false)
    (fold : Char → List Char) (n : Str) (hn : bareName n = true) (rest : Str) (l fuel : Nat) :
    nextToken TT0 o fold (fuel + 1) ⟨l, false⟩ (n ++ '\n' :: rest)
      = .tok .string n ⟨l, false⟩ ('\n' :: rest) := by
  cases n with
  | nil => simp [bareName] at hn
  | cons c cs =>
    simp only [bareName, List.isEmpty_cons, Bool.not_false, Bool.true_and, List.all_cons, Bool.and_eq_true] at hn
    obtain ⟨h1, h2⟩ := bareC_notEnd o hc hp c hn.1
    have ne : ∀ k : Nat, bareC (Char.ofNat k) = false → c ≠ Char.ofNat k := fun k hk => bareC_ne c hn.1 k hk
    have hbd : TT0.bareDisallowed.contains c = false := by
      simpa [isBareEnd, hc, hp] using h1
    rw [List.cons_append, nextToken]
    simp only [h2]
    have a1 : c ≠ '\r' := ne 13 (by decide)
    have a2 : c ≠ '\n' := ne 10 (by decide)
    have a3 : ¬ (c = ' ' ∨ c = '\t') := by
      intro h; rcases h with h | h
      · exact ne 32 (by decide) h
      · exact ne 9 (by decide) h
    have a4 : c ≠ '/' := ne 47 (by decide)
    have a5 : c ≠ '"' := ne 34 (by decide)
    have a6 : c ≠ '[' := ne 91 (by decide)
    have a7 : c ≠ '(' := ne 40 (by decide)
    have a8 : c ≠ Char.ofNat 0xFEFF := ne 0xFEFF (by decide)
    have a9 : c ≠ ':' := ne 58 (by decide)
    have a10 : c ≠ '+' := ne 43 (by decide)
    have a11 : c ≠ ']' := ne 93 (by decide)
    have a12 : c ≠ ')' := ne 41 (by decide)
    have a13 : c ≠ '#' := ne 35 (by decide)
    simp only [a1, a2, a3, a4, a5, a6, a7, a8, a9, a10, a11, a12, a13, if_false, false_and, hbd, Bool.not_false,
      if_true]
    rw [scanBare_ident o hc hp cs rest [c] hn.2]
    simp


/-! ## the token stream of a layout tree -/

mutual
/-- raw pieces are plain; unquoted block headers are identifiers, quoted ones plain -/
def ttOK : TT → Bool
  | .leaf _ n v => segOK n && segOK v
  | .block _ q n kids => (if q then plainStr n else bareName n) && ttOKList kids
def ttOKList : List TT → Bool
  | [] => true
  | t :: ts => ttOK t && ttOKList ts
end

mutual
def ttLines : TT → Nat
  | .leaf _ n v => nl n + nl v + 1
  | .block _ _ _ kids => 3 + ttLinesList kids
def ttLinesList : List TT → Nat
  | [] => 0
  | t :: ts => ttLines t + ttLinesList ts
end

mutual
/-- the tokens (kind, value, line after the token) of the text of a node that starts on line `l` -/
def ttToks (l : Nat) : TT → List Obs
  | .leaf _ n v => [⟨1, segVal n, l + nl n⟩, ⟨1, segVal v, l + nl n + nl v⟩, ⟨2, ['\n'], l + nl n + nl v + 1⟩]
  | .block _ _ n kids =>
    ⟨1, n, l⟩ :: ⟨2, ['\n'], l + 1⟩ :: ⟨6, ['{'], l + 1⟩ :: ⟨2, ['\n'], l + 2⟩ ::
      (ttToksList (l + 2) kids ++ [⟨7, ['}'], l + 2 + ttLinesList kids⟩, ⟨2, ['\n'], l + 3 + ttLinesList kids⟩])
def ttToksList (l : Nat) : List TT → List Obs
  | [] => []
  | t :: ts => ttToks l t ++ ttToksList (l + ttLines t) ts
end

section lexTree
variable (o : Opts) (ho : o.allowEscapes = true) (hc : o.colonOperator = false) (hp : o.plusOperator = false)
  (fold : Char → List Char)
include ho hc hp

theorem run_bare (ws : Str) (hws : C01.isWs ws) (n : Str) (hn : bareName n = true) (rest : Str) (k l : Nat)
    (acc : List Obs) :
    runAux TT0 o fold (k + 1) ⟨l, false⟩ (ws ++ (n ++ '\n' :: rest)) acc
      = runAux TT0 o fold k ⟨l, false⟩ ('\n' :: rest) (⟨1, n, l⟩ :: acc) := by
  rw [runAux, List.length_append, Nat.add_assoc, C01.next_skipWs kvF o fold ws hws]
  rw [List.length_append, List.length_cons, show n.length + (rest.length + 1) + 1 = (n.length + rest.length + 1) + 1 from by omega,
    next_bare o hc hp fold n hn rest l]
  simp [Kind.code]

/-- the header line of a block (bare or quoted) is one STRING token -/
theorem run_header (d : Nat) (q : Bool) (n : Str) (hq : (if q then plainStr n else bareName n) = true)
    (rest : Str) (k l : Nat) (acc : List Obs) :
    runAux TT0 o fold (k + 1) ⟨l, false⟩ (tabs d ++ ((if q then '"' :: (n ++ ['"']) else n) ++ '\n' :: rest)) acc
      = runAux TT0 o fold k ⟨l, false⟩ ('\n' :: rest) (⟨1, n, l⟩ :: acc) := by
  cases q with
  | false =>
    simp only [Bool.false_eq_true, if_false] at hq ⊢
    exact run_bare o ho hc hp fold (tabs d) (isWs_tabs d) n hq rest k l acc
  | true =>
    simp only [if_true] at hq ⊢
    have hg : segOK [Piece.raw n] = true := by simp [segOK, pieceOK, hq]
    have := run_seg o ho fold (tabs d) (isWs_tabs d) [Piece.raw n] hg ('\n' :: rest) k l acc
    have hnl : nl [Piece.raw n] = 0 := by
      simp [nl, segText, Piece.text, plain_no_nl n hq]
    simp only [segText, segVal, Piece.text, Piece.val, List.flatMap_cons, List.flatMap_nil, List.append_nil, hnl,
      Nat.add_zero] at this
    simpa using this

mutual
theorem lex_tt (t : TT) (ht : ttOK t = true) (l k : Nat) (rest : Str) (acc : List Obs) :
    runAux TT0 o fold (k + (ttToks l t).length) ⟨l, false⟩ (ttText TT0 t ++ rest) acc
      = runAux TT0 o fold k ⟨l + ttLines t, false⟩ rest ((ttToks l t).reverse ++ acc) := by
  match t with
  | .leaf d n v =>
    simp only [ttOK, Bool.and_eq_true] at ht
    simp only [ttText, ttToks, ttLines, List.length_cons, List.length_nil, List.append_assoc, List.cons_append,
      List.nil_append]
    rw [show k + (0 + 1 + 1 + 1) = (k + 2) + 1 from by omega, run_seg o ho fold (tabs d) (isWs_tabs d) n ht.1,
      show k + 2 = (k + 1) + 1 from rfl]
    have := run_seg o ho fold [' '] (by intro c hc; simp at hc; exact Or.inl hc) v ht.2
    simp only [List.singleton_append] at this
    rw [this, C01.run_newline kvF o fold]
    simp [Nat.add_assoc]
  | .block d q n kids =>
    simp only [ttOK, Bool.and_eq_true] at ht
    simp only [ttText, ttToks, ttLines, List.length_cons, List.length_append, List.length_nil, List.append_assoc,
      List.cons_append, List.nil_append]
    rw [show k + (ttToksList (l + 2) kids).length.succ.succ.succ.succ.succ.succ =
        (((((k + 2) + (ttToksList (l + 2) kids).length) + 1) + 1) + 1) + 1 from by omega]
    rw [run_header o ho hc hp fold d q n ht.1, C01.run_newline kvF o fold]
    have hbo := C01.run_braceOpen kvF o fold (tabs d) [] (isWs_tabs d) C01.isWs_nil
    simp only [List.nil_append] at hbo
    rw [hbo, C01.run_newline kvF o fold, show l + 1 + 1 = l + 2 from rfl, lex_ttList kids ht.2,
      show k + 2 = (k + 1) + 1 from rfl]
    have hbc := C01.run_braceClose kvF o fold (tabs d) [] (isWs_tabs d) C01.isWs_nil
    simp only [List.nil_append] at hbc
    rw [hbc, C01.run_newline kvF o fold]
    rw [show l + 2 + ttLinesList kids + 1 = l + 3 + ttLinesList kids from by omega,
      show l + (3 + ttLinesList kids) = l + 3 + ttLinesList kids from by omega]
    simp
theorem lex_ttList (ts : List TT) (ht : ttOKList ts = true) (l k : Nat) (rest : Str) (acc : List Obs) :
    runAux TT0 o fold (k + (ttToksList l ts).length) ⟨l, false⟩ (ttTextList TT0 ts ++ rest) acc
      = runAux TT0 o fold k ⟨l + ttLinesList ts, false⟩ rest ((ttToksList l ts).reverse ++ acc) := by
  match ts with
  | [] => simp [ttTextList, ttToksList, ttLinesList]
  | t :: ts =>
    simp only [ttOKList, Bool.and_eq_true] at ht
    simp only [ttTextList, ttToksList, ttLinesList, List.length_append, List.append_assoc]
    rw [show k + ((ttToks l t).length + (ttToksList (l + ttLines t) ts).length) =
        (k + (ttToksList (l + ttLines t) ts).length) + (ttToks l t).length from by omega,
      lex_tt t ht.1, lex_ttList ts ht.2]
    simp [Nat.add_assoc]
end

end lexTree


/-! ## the whole token stream -/

mutual
theorem ttToks_len (t : TT) (ht : ttOK t = true) (l : Nat) : (ttToks l t).length ≤ (ttText TT0 t).length := by
  match t with
  | .leaf d n v => simp [ttText, ttToks]; omega
  | .block d q n kids =>
    simp only [ttOK, Bool.and_eq_true] at ht
    have := ttToksList_len kids ht.2 (l + 2)
    have hh : 1 ≤ (if q then '"' :: (n ++ ['"']) else n).length := by
      cases q with
      | true => simp
      | false =>
        have := ht.1
        simp only [Bool.false_eq_true, if_false, bareName, Bool.and_eq_true, Bool.not_eq_true'] at this ⊢
        cases n with
        | nil => simp at this
        | cons c cs => simp
    simp [ttText, ttToks]; omega
theorem ttToksList_len (ts : List TT) (ht : ttOKList ts = true) (l : Nat) :
    (ttToksList l ts).length ≤ (ttTextList TT0 ts).length := by
  match ts with
  | [] => simp [ttTextList, ttToksList]
  | t :: ts =>
    simp only [ttOKList, Bool.and_eq_true] at ht
    have h1 := ttToks_len t ht.1 l
    have h2 := ttToksList_len ts ht.2 (l + ttLines t)
    simp [ttTextList, ttToksList]; omega
end

theorem run_ttTextList (o : Opts) (ho : o.allowEscapes = true) (hc : o.colonOperator = false)
    (hp : o.plusOperator = false) (fold : Char → List Char) (ts : List TT) (ht : ttOKList ts = true) :
    run TT0 o fold (ttTextList TT0 ts)
      = { toks := ttToksList 1 ts ++ [⟨0, [], 1 + ttLinesList ts⟩], err := none } := by
  unfold run
  have hlen := ttToksList_len ts ht 1
  obtain ⟨k, hk⟩ : ∃ k, (ttTextList TT0 ts).length + 2 = (k + 1) + (ttToksList 1 ts).length :=
    ⟨(ttTextList TT0 ts).length + 1 - (ttToksList 1 ts).length, by omega⟩
  have h := lex_ttList o ho hc hp fold ts ht 1 (k + 1) [] []
  rw [List.append_nil] at h
  rw [hk]
  show runAux TT0 o fold (k + 1 + (ttToksList 1 ts).length) ⟨1, false⟩ _ [] = _
  rw [h, C01.run_eof]
  simp

end C06

namespace C01

/-- two results that differ at most in the line number attached to an error -/
def relR : PResult → PResult → Prop
  | .root a, .root b => a = b
  | .single a, .single b => a = b
  | .err e _, .err e' _ => e = e'
  | _, _ => False

def relO : Out → Out → Prop
  | .cont a, .cont b => a = b
  | .done a, .done b => relR a b
  | _, _ => False

theorem relR_refl (r : PResult) : relR r r := by cases r <;> simp [relR]
theorem relO_refl (r : Out) : relO r r := by cases r <;> simp [relO, relR_refl]

theorem stepTop_lines (po : ParseOpts) (ps : PState) (k : Nat) (v : List Char) (l l' : Nat) :
    relO (stepTop po ps ⟨k, v, l⟩) (stepTop po ps ⟨k, v, l'⟩) := by
  unfold stepTop
  simp only []
  repeat' split
  all_goals first | exact relO_refl _ | simp [relO, relR]

theorem step_lines (po : ParseOpts) (fold : Char → List Char) (ps : PState) (k : Nat) (v : List Char) (l l' : Nat) :
    relO (step po fold ps ⟨k, v, l⟩) (step po fold ps ⟨k, v, l'⟩) := by
  unfold step
  simp only []
  repeat' split
  all_goals first | exact relO_refl _ | exact stepTop_lines _ _ _ _ _ _ | simp [relO, relR]

end C01
namespace C01

/-- same kinds and values, possibly different line numbers -/
def sameKV : List Obs → List Obs → Prop
  | [], [] => True
  | a :: as, b :: bs => a.kind = b.kind ∧ a.value = b.value ∧ sameKV as bs
  | _, _ => False

theorem parseToks_lines (po : ParseOpts) (fold : Char → List Char) (ps : PState) (ts ts' : List Obs)
    (h : sameKV ts ts') : relR (parseToks po fold ps ts none) (parseToks po fold ps ts' none) := by
  induction ts generalizing ps ts' with
  | nil =>
    cases ts' with
    | nil => exact relR_refl _
    | cons b bs => simp [sameKV] at h
  | cons a as ih =>
    cases ts' with
    | nil => simp [sameKV] at h
    | cons b bs =>
      obtain ⟨hk, hv, hr⟩ := h
      cases a with
      | mk ka va la =>
      cases b with
      | mk kb vb lb =>
      simp only at hk hv
      subst hk hv
      have hs := step_lines po fold ps ka va la lb
      simp only [parseToks]
      cases h1 : step po fold ps ⟨ka, va, la⟩ with
      | done r =>
        cases h2 : step po fold ps ⟨ka, va, lb⟩ with
        | done r' => rw [h1, h2] at hs; simpa [relO] using hs
        | cont p' => rw [h1, h2] at hs; simp [relO] at hs
      | cont p =>
        cases h2 : step po fold ps ⟨ka, va, lb⟩ with
        | done r' => rw [h1, h2] at hs; simp [relO] at hs
        | cont p' =>
          rw [h1, h2] at hs
          simp only [relO] at hs
          subst hs
          exact ih p bs hr

theorem relR_root {r : PResult} {a : List KV} (h : relR r (.root a)) : r = .root a := by
  cases r <;> simp_all [relR]

end C01

namespace C06

/-! ## from the token stream to the tree (C01's parser machine) -/

mutual
/-- the same tree as a C01 keyvalues tree -/
def convKV : KV → C01.KV
  | .leaf n v => .leaf n v
  | .block n cs => .block n (convList cs)
def convList : List KV → List C01.KV
  | [] => []
  | t :: ts => convKV t :: convList ts
end

theorem sameKV_append {a b c d : List Obs} (h1 : C01.sameKV a b) (h2 : C01.sameKV c d) :
    C01.sameKV (a ++ c) (b ++ d) := by
  induction a generalizing b with
  | nil => cases b with
    | nil => simpa using h2
    | cons x xs => simp [C01.sameKV] at h1
  | cons x xs ih =>
    cases b with
    | nil => simp [C01.sameKV] at h1
    | cons y ys => exact ⟨h1.1, h1.2.1, ih h1.2.2⟩

mutual
theorem sameKV_tt (t : TT) (l l' : Nat) : C01.sameKV (ttToks l t) (C01.toksKV l' (convKV (ttKV t))) := by
  match t with
  | .leaf d n v => simp [ttToks, ttKV, convKV, C01.toksKV, C01.sameKV]
  | .block d q n kids =>
    simp only [ttToks, ttKV, convKV, C01.toksKV]
    refine ⟨rfl, rfl, rfl, rfl, rfl, rfl, rfl, rfl, ?_⟩
    exact sameKV_append (sameKV_ttList kids _ _) (by simp [C01.sameKV])
theorem sameKV_ttList (ts : List TT) (l l' : Nat) :
    C01.sameKV (ttToksList l ts) (C01.toksList l' (convList (ttKVList ts))) := by
  match ts with
  | [] => simp [ttToksList, ttKVList, convList, C01.toksList, C01.sameKV]
  | t :: ts =>
    simp only [ttToksList, ttKVList, convList, C01.toksList]
    exact sameKV_append (sameKV_tt t _ _) (sameKV_ttList ts _ _)
end

/-- **Parsing the text of a layout tree gives its keyvalues tree.** -/
theorem parse_ttTextList (po : C01.ParseOpts) (hesc : po.allowEscapes = true) (hsb : po.singleBlock = false)
    (fold : Char → List Char) (ts : List TT) (ht : ttOKList ts = true)
    (hok : C01.okList po (convList (ttKVList ts)) = true) :
    C01.parse TT0 po fold (ttTextList TT0 ts) = .root (convList (ttKVList ts)) := by
  unfold C01.parse C01.parseRun
  rw [run_ttTextList (C01.tokOpts po) (by simpa [C01.tokOpts] using hesc) rfl rfl fold ts ht]
  apply C01.relR_root
  have hs : C01.sameKV (ttToksList 1 ts ++ [⟨0, [], 1 + ttLinesList ts⟩])
      (C01.toksList 1 (convList (ttKVList ts)) ++ [⟨0, [], 0⟩]) :=
    sameKV_append (sameKV_ttList ts 1 1) (by simp [C01.sameKV])
  have := C01.parseToks_lines po fold C01.initState _ _ hs
  have e : C01.parseToks po fold C01.initState (C01.toksList 1 (convList (ttKVList ts)) ++ [⟨0, [], 0⟩]) none
      = .root (convList (ttKVList ts)) := by
    unfold C01.initState
    rw [C01.parse_list po fold _ hok 1 _ [] (Or.inl hsb) false]
    simp [C01.parseToks, C01.step, C01.stepTop, C01.kEof, C01.finish]
  rw [e] at this
  exact this

end C06
