import Srctools.Proofs.C06
import Srctools.Model.C06Text
import Srctools.Proofs.C01
/-! # C06 — the text level: lexing and parsing the text `VMF.export` writes

Generic part: for every layout tree `tt` whose raw pieces are plain and whose unquoted block
headers are identifiers (`ttOK`), the tokenizer model turns `ttText tt` into exactly the tokens of
the keyvalues tree `ttKV tt` (up to line numbers), and the `Keyvalues.parse` machine of C01 builds
that tree.  Tables = the ones generated from the current source. -/
set_option linter.unusedSimpArgs false
set_option linter.unusedVariables false
set_option linter.unusedSectionVars false
open Tok
namespace C06

abbrev TT0 : Tables := Gen.Tok.tables

theorem escF : EscFacts TT0 := escFacts C02_gen_ok
theorem kvOK_tables : C01.kvOK TT0 = true := by decide
theorem kvF : C01.KvFacts TT0 := C01.kvFacts kvOK_tables

/-! ## plain text -/

theorem escChar_plain (ml : Bool) (c : Char) (h : plainC c = true) : escChar TT0 ml c = [c] := by
  simp only [plainC, Bool.not_eq_true', Bool.or_eq_false_iff, beq_eq_false_iff_ne, ne_eq] at h
  obtain ⟨⟨⟨⟨⟨⟨⟨⟨⟨h1, h2⟩, h3⟩, h4⟩, h5⟩, h6⟩, h7⟩, h8⟩, h9⟩, h10⟩ := h
  unfold escChar
  split
  · rfl
  · rename_i hex
    have hq : c ≠ '?' ∧ c ≠ '/' := by
      constructor <;> (intro e; subst e; apply hex; cases ml <;> decide)
    have f : ∀ k : Nat, c ≠ Char.ofNat k → (Char.ofNat k == c) = false := by
      intro k hk; simp only [beq_eq_false_iff_ne, ne_eq]; exact fun e => hk e.symm
    have : TT0.invSym c = none := by
      simp only [Tables.invSym, TT0, Gen.Tok.tables, List.reverse_cons, List.reverse_nil, List.nil_append,
        List.cons_append, Option.map_eq_none_iff, List.find?_cons, List.find?_nil,
        f 63 hq.1, f 92 h2, f 47 hq.2, f 39 h10, f 34 h1, f 7 h9, f 12 h8, f 13 h7, f 8 h6, f 11 h5, f 9 h4, f 10 h3]
    rw [this]

theorem escapeText_plain (ml : Bool) (s : Str) (h : plainStr s = true) : escapeText TT0 ml s = s := by
  induction s with
  | nil => rfl
  | cons c cs ih =>
    simp only [plainStr, List.all_cons, Bool.and_eq_true] at h
    simp only [escapeText, escChar_plain ml c h.1]
    rw [ih (by simpa [plainStr] using h.2)]
    rfl

theorem plain_no_nl (s : Str) (h : plainStr s = true) : s.count '\n' = 0 := by
  rw [List.count_eq_zero]
  intro hm
  simp only [plainStr, List.all_eq_true] at h
  have := h _ hm
  simp [plainC] at this


/-! ## fields -/

def pieceOK : Piece → Bool
  | .raw s => plainStr s
  | .esc _ _ => true

def segOK (g : Seg) : Bool := g.all pieceOK

/-- raw line feeds inside the written field (only `escape_text(…, True)` leaves any) -/
def nl (g : Seg) : Nat := (segText TT0 g).count '\n'

theorem hs_esc (ml : Bool) (s t acc : Str) (line : Nat) :
    handleString TT0 true (escapeText TT0 ml s ++ t) acc false line
      = handleString TT0 true t (s.reverse ++ acc) false (line + (escapeText TT0 ml s).count '\n') := by
  induction s generalizing acc line with
  | nil => simp [escapeText]
  | cons c cs ih =>
    simp only [escapeText, List.append_assoc]
    rw [handleString_escChar escF, ih]
    simp [List.count_append, Nat.add_assoc]

theorem hs_piece (p : Piece) (hp : pieceOK p = true) (t acc : Str) (line : Nat) :
    handleString TT0 true (p.text TT0 ++ t) acc false line
      = handleString TT0 true t (p.val.reverse ++ acc) false (line + (p.text TT0).count '\n') := by
  cases p with
  | esc ml s => exact hs_esc ml s t acc line
  | raw s =>
    simp only [pieceOK] at hp
    have := hs_esc false s t acc line
    rw [escapeText_plain false s hp] at this
    exact this

theorem hs_seg (g : Seg) (hg : segOK g = true) (t acc : Str) (line : Nat) :
    handleString TT0 true (segText TT0 g ++ t) acc false line
      = handleString TT0 true t ((segVal g).reverse ++ acc) false (line + nl g) := by
  induction g generalizing acc line with
  | nil => simp [segText, segVal, nl]
  | cons p ps ih =>
    simp only [segOK, List.all_cons, Bool.and_eq_true] at hg
    simp only [segText, segVal, nl, List.flatMap_cons, List.append_assoc] at ih ⊢
    rw [hs_piece p hg.1, ih (by simpa [segOK] using hg.2)]
    simp [List.count_append, Nat.add_assoc]

/-- a quoted field is read back as one STRING token with the value the field denotes -/
theorem next_seg (o : Opts) (ho : o.allowEscapes = true) (fold : Char → List Char) (g : Seg)
    (hg : segOK g = true) (rest : Str) (st : St) (fuel : Nat) :
    nextToken TT0 o fold (fuel + 1) st ('"' :: (segText TT0 g ++ '"' :: rest))
      = .tok .string (segVal g) { line := st.line + nl g, lastCr := false } rest := by
  rw [nextToken]
  simp only [escF.quoteNoOp]
  have e1 : ('"' : Char) ≠ '\r' := by decide
  have e2 : ('"' : Char) ≠ '\n' := by decide
  have e3 : ¬ (('"' : Char) = ' ' ∨ ('"' : Char) = '\t') := by decide
  have e4 : ('"' : Char) ≠ '/' := by decide
  simp only [e1, e2, e3, e4, if_false, ho, if_true]
  rw [hs_seg g hg]
  simp [handleString_cons]

theorem isWs_tabs (d : Nat) : C01.isWs (tabs d) := by
  intro c hc
  simp only [tabs, List.mem_replicate] at hc
  exact Or.inr hc.2

section run
variable (o : Opts) (ho : o.allowEscapes = true) (fold : Char → List Char)
include ho

theorem run_seg (ws : Str) (hws : C01.isWs ws) (g : Seg) (hg : segOK g = true) (rest : Str) (n l : Nat)
    (acc : List Obs) :
    runAux TT0 o fold (n + 1) ⟨l, false⟩ (ws ++ '"' :: (segText TT0 g ++ '"' :: rest)) acc
      = runAux TT0 o fold n ⟨l + nl g, false⟩ rest (⟨1, segVal g, l + nl g⟩ :: acc) := by
  rw [runAux, List.length_append, Nat.add_assoc, C01.next_skipWs kvF o fold ws hws]
  rw [List.length_cons, next_seg o ho fold g hg rest ⟨l, false⟩]
  simp [Kind.code]

end run


/-! ## bare block headers -/

/-- a character of an identifier: `[0-9A-Za-z_]` -/
def bareC (c : Char) : Bool :=
  (48 ≤ c.toNat && c.toNat ≤ 57) || (65 ≤ c.toNat && c.toNat ≤ 90) || (97 ≤ c.toNat && c.toNat ≤ 122) ||
  c.toNat == 95

def bareName (n : Str) : Bool := !n.isEmpty && n.all bareC

theorem bareC_ne (c : Char) (h : bareC c = true) (k : Nat) (hk : bareC (Char.ofNat k) = false) :
    c ≠ Char.ofNat k := by
  intro e; rw [e, hk] at h; cases h

theorem bareC_notEnd (o : Opts) (hc : o.colonOperator = false) (hp : o.plusOperator = false) (c : Char)
    (h : bareC c = true) : isBareEnd TT0 o c = false ∧ TT0.operator c = none := by
  have f : ∀ k : Nat, bareC (Char.ofNat k) = false → (Char.ofNat k == c) = false ∧ (c == Char.ofNat k) = false := by
    intro k hk
    have := bareC_ne c h k hk
    constructor <;> simp only [beq_eq_false_iff_ne, ne_eq]
    · exact fun e => this e.symm
    · exact this
  constructor
  · simp only [isBareEnd, hc, hp, Bool.and_false, Bool.or_false, TT0, Gen.Tok.tables, List.contains_cons,
      List.contains_nil, (f 9 (by decide)).2, (f 10 (by decide)).2, (f 13 (by decide)).2, (f 32 (by decide)).2,
      (f 34 (by decide)).2, (f 39 (by decide)).2, (f 40 (by decide)).2, (f 41 (by decide)).2, (f 44 (by decide)).2,
      (f 59 (by decide)).2, (f 61 (by decide)).2, (f 91 (by decide)).2, (f 93 (by decide)).2, (f 123 (by decide)).2,
      (f 125 (by decide)).2]
  · simp only [Tables.operator, TT0, Gen.Tok.tables, List.find?_cons, List.find?_nil,
      (f 123 (by decide)).1, (f 125 (by decide)).1, (f 61 (by decide)).1, (f 44 (by decide)).1, Option.bind_none]

theorem scanBare_ident (o : Opts) (hc : o.colonOperator = false) (hp : o.plusOperator = false)
    (cs rest acc : Str) (h : cs.all bareC = true) :
    scanBare TT0 o (fun x => [x]) (cs ++ '\n' :: rest) acc = ((cs.reverse ++ acc).reverse, '\n' :: rest) := by
  induction cs generalizing acc with
  | nil =>
    have : isBareEnd TT0 o '\n' = true := by
      simp [isBareEnd, TT0, Gen.Tok.tables]
    simp [scanBare, this]
  | cons c r ih =>
    simp only [List.all_cons, Bool.and_eq_true] at h
    simp only [List.cons_append, scanBare, (bareC_notEnd o hc hp c h.1).1, Bool.false_eq_true, if_false]
    rw [ih _ h.2]
    simp

theorem next_bare (o : Opts) (hc : o.colonOperator = false) (hp : o.plusOperator = false)
    (fold : Char → List Char) (n : Str) (hn : bareName n = true) (rest : Str) (l fuel : Nat) :
    nextToken TT0 o fold (fuel + 1) ⟨l, false⟩ (n ++ '\n' :: rest)
      = .tok .string n ⟨l, false⟩ ('\n' :: rest) := by
  cases n with
  | nil => simp [bareName] at hn
  | cons c cs =>
    simp only [bareName, List.isEmpty_cons, Bool.not_false, Bool.true_and, List.all_cons, Bool.and_eq_true] at hn
    obtain ⟨h1, h2⟩ := bareC_notEnd o hc hp c hn.1
    have ne : ∀ k : Nat, bareC (Char.ofNat k) = false → c ≠ Char.ofNat k := fun k hk => bareC_ne c hn.1 k hk
    have hbd : TT0.bareDisallowed.contains c = false := by
      simpa [isBareEnd, hc, hp] using h1
    rw [List.cons_append, nextToken]
    simp only [h2]
    have a1 : c ≠ '\r' := ne 13 (by decide)
    have a2 : c ≠ '\n' := ne 10 (by decide)
    have a3 : ¬ (c = ' ' ∨ c = '\t') := by
      intro h; rcases h with h | h
      · exact ne 32 (by decide) h
      · exact ne 9 (by decide) h
    have a4 : c ≠ '/' := ne 47 (by decide)
    have a5 : c ≠ '"' := ne 34 (by decide)
    have a6 : c ≠ '[' := ne 91 (by decide)
    have a7 : c ≠ '(' := ne 40 (by decide)
    have a8 : c ≠ Char.ofNat 0xFEFF := ne 0xFEFF (by decide)
    have a9 : c ≠ ':' := ne 58 (by decide)
    have a10 : c ≠ '+' := ne 43 (by decide)
    have a11 : c ≠ ']' := ne 93 (by decide)
    have a12 : c ≠ ')' := ne 41 (by decide)
    have a13 : c ≠ '#' := ne 35 (by decide)
    simp only [a1, a2, a3, a4, a5, a6, a7, a8, a9, a10, a11, a12, a13, if_false, false_and, hbd, Bool.not_false,
      if_true]
    rw [scanBare_ident o hc hp cs rest [c] hn.2]
    simp


/-! ## the token stream of a layout tree -/

mutual
/-- raw pieces are plain; names contain no CR/LF; unquoted block headers are identifiers, quoted
ones plain -/
def ttOK : TT → Bool
  | .leaf _ n v => segOK n && segOK v && noNlStr (segVal n)
  | .block _ q n kids => (if q then plainStr n else bareName n) && ttOKList kids
def ttOKList : List TT → Bool
  | [] => true
  | t :: ts => ttOK t && ttOKList ts
end

mutual
def ttLines : TT → Nat
  | .leaf _ n v => nl n + nl v + 1
  | .block _ _ _ kids => 3 + ttLinesList kids
def ttLinesList : List TT → Nat
  | [] => 0
  | t :: ts => ttLines t + ttLinesList ts
end

mutual
/-- the tokens (kind, value, line after the token) of the text of a node that starts on line `l` -/
def ttToks (l : Nat) : TT → List Obs
  | .leaf _ n v => [⟨1, segVal n, l + nl n⟩, ⟨1, segVal v, l + nl n + nl v⟩, ⟨2, ['\n'], l + nl n + nl v + 1⟩]
  | .block _ _ n kids =>
    ⟨1, n, l⟩ :: ⟨2, ['\n'], l + 1⟩ :: ⟨6, ['{'], l + 1⟩ :: ⟨2, ['\n'], l + 2⟩ ::
      (ttToksList (l + 2) kids ++ [⟨7, ['}'], l + 2 + ttLinesList kids⟩, ⟨2, ['\n'], l + 3 + ttLinesList kids⟩])
def ttToksList (l : Nat) : List TT → List Obs
  | [] => []
  | t :: ts => ttToks l t ++ ttToksList (l + ttLines t) ts
end

section lexTree
variable (o : Opts) (ho : o.allowEscapes = true) (hc : o.colonOperator = false) (hp : o.plusOperator = false)
  (fold : Char → List Char)
include ho hc hp

theorem run_bare (ws : Str) (hws : C01.isWs ws) (n : Str) (hn : bareName n = true) (rest : Str) (k l : Nat)
    (acc : List Obs) :
    runAux TT0 o fold (k + 1) ⟨l, false⟩ (ws ++ (n ++ '\n' :: rest)) acc
      = runAux TT0 o fold k ⟨l, false⟩ ('\n' :: rest) (⟨1, n, l⟩ :: acc) := by
  rw [runAux, List.length_append, Nat.add_assoc, C01.next_skipWs kvF o fold ws hws]
  rw [List.length_append, List.length_cons, show n.length + (rest.length + 1) + 1 = (n.length + rest.length + 1) + 1 from by omega,
    next_bare o hc hp fold n hn rest l]
  simp [Kind.code]

/-- the header line of a block (bare or quoted) is one STRING token -/
theorem run_header (d : Nat) (q : Bool) (n : Str) (hq : (if q then plainStr n else bareName n) = true)
    (rest : Str) (k l : Nat) (acc : List Obs) :
    runAux TT0 o fold (k + 1) ⟨l, false⟩ (tabs d ++ ((if q then '"' :: (n ++ ['"']) else n) ++ '\n' :: rest)) acc
      = runAux TT0 o fold k ⟨l, false⟩ ('\n' :: rest) (⟨1, n, l⟩ :: acc) := by
  cases q with
  | false =>
    simp only [Bool.false_eq_true, if_false] at hq ⊢
    exact run_bare o ho hc hp fold (tabs d) (isWs_tabs d) n hq rest k l acc
  | true =>
    simp only [if_true] at hq ⊢
    have hg : segOK [Piece.raw n] = true := by simp [segOK, pieceOK, hq]
    have := run_seg o ho fold (tabs d) (isWs_tabs d) [Piece.raw n] hg ('\n' :: rest) k l acc
    have hnl : nl [Piece.raw n] = 0 := by
      simp [nl, segText, Piece.text, plain_no_nl n hq]
    simp only [segText, segVal, Piece.text, Piece.val, List.flatMap_cons, List.flatMap_nil, List.append_nil, hnl,
      Nat.add_zero] at this
    simpa using this

mutual
theorem lex_tt (t : TT) (ht : ttOK t = true) (l k : Nat) (rest : Str) (acc : List Obs) :
    runAux TT0 o fold (k + (ttToks l t).length) ⟨l, false⟩ (ttText TT0 t ++ rest) acc
      = runAux TT0 o fold k ⟨l + ttLines t, false⟩ rest ((ttToks l t).reverse ++ acc) := by
  match t with
  | .leaf d n v =>
    simp only [ttOK, Bool.and_eq_true] at ht
    simp only [ttText, ttToks, ttLines, List.length_cons, List.length_nil, List.append_assoc, List.cons_append,
      List.nil_append]
    rw [show k + (0 + 1 + 1 + 1) = (k + 2) + 1 from by omega, run_seg o ho fold (tabs d) (isWs_tabs d) n ht.1.1,
      show k + 2 = (k + 1) + 1 from rfl]
    have := run_seg o ho fold [' '] (by intro c hc; simp at hc; exact Or.inl hc) v ht.1.2
    simp only [List.singleton_append] at this
    rw [this, C01.run_newline kvF o fold]
    simp [Nat.add_assoc]
  | .block d q n kids =>
    simp only [ttOK, Bool.and_eq_true] at ht
    simp only [ttText, ttToks, ttLines, List.length_cons, List.length_append, List.length_nil, List.append_assoc,
      List.cons_append, List.nil_append]
    rw [show k + (ttToksList (l + 2) kids).length.succ.succ.succ.succ.succ.succ =
        (((((k + 2) + (ttToksList (l + 2) kids).length) + 1) + 1) + 1) + 1 from by omega]
    rw [run_header o ho hc hp fold d q n ht.1, C01.run_newline kvF o fold]
    have hbo := C01.run_braceOpen kvF o fold (tabs d) [] (isWs_tabs d) C01.isWs_nil
    simp only [List.nil_append] at hbo
    rw [hbo, C01.run_newline kvF o fold, show l + 1 + 1 = l + 2 from rfl, lex_ttList kids ht.2,
      show k + 2 = (k + 1) + 1 from rfl]
    have hbc := C01.run_braceClose kvF o fold (tabs d) [] (isWs_tabs d) C01.isWs_nil
    simp only [List.nil_append] at hbc
    rw [hbc, C01.run_newline kvF o fold]
    rw [show l + 2 + ttLinesList kids + 1 = l + 3 + ttLinesList kids from by omega,
      show l + (3 + ttLinesList kids) = l + 3 + ttLinesList kids from by omega]
    simp
theorem lex_ttList (ts : List TT) (ht : ttOKList ts = true) (l k : Nat) (rest : Str) (acc : List Obs) :
    runAux TT0 o fold (k + (ttToksList l ts).length) ⟨l, false⟩ (ttTextList TT0 ts ++ rest) acc
      = runAux TT0 o fold k ⟨l + ttLinesList ts, false⟩ rest ((ttToksList l ts).reverse ++ acc) := by
  match ts with
  | [] => simp [ttTextList, ttToksList, ttLinesList]
  | t :: ts =>
    simp only [ttOKList, Bool.and_eq_true] at ht
    simp only [ttTextList, ttToksList, ttLinesList, List.length_append, List.append_assoc]
    rw [show k + ((ttToks l t).length + (ttToksList (l + ttLines t) ts).length) =
        (k + (ttToksList (l + ttLines t) ts).length) + (ttToks l t).length from by omega,
      lex_tt t ht.1, lex_ttList ts ht.2]
    simp [Nat.add_assoc]
end

end lexTree


/-! ## the whole token stream -/

mutual
theorem ttToks_len (t : TT) (ht : ttOK t = true) (l : Nat) : (ttToks l t).length ≤ (ttText TT0 t).length := by
  match t with
  | .leaf d n v => simp [ttText, ttToks]; omega
  | .block d q n kids =>
    simp only [ttOK, Bool.and_eq_true] at ht
    have := ttToksList_len kids ht.2 (l + 2)
    have hh : 1 ≤ (if q then '"' :: (n ++ ['"']) else n).length := by
      cases q with
      | true => simp
      | false =>
        have := ht.1
        simp only [Bool.false_eq_true, if_false, bareName, Bool.and_eq_true, Bool.not_eq_true'] at this ⊢
        cases n with
        | nil => simp at this
        | cons c cs => simp
    simp [ttText, ttToks]; omega
theorem ttToksList_len (ts : List TT) (ht : ttOKList ts = true) (l : Nat) :
    (ttToksList l ts).length ≤ (ttTextList TT0 ts).length := by
  match ts with
  | [] => simp [ttTextList, ttToksList]
  | t :: ts =>
    simp only [ttOKList, Bool.and_eq_true] at ht
    have h1 := ttToks_len t ht.1 l
    have h2 := ttToksList_len ts ht.2 (l + ttLines t)
    simp [ttTextList, ttToksList]; omega
end

theorem run_ttTextList (o : Opts) (ho : o.allowEscapes = true) (hc : o.colonOperator = false)
    (hp : o.plusOperator = false) (fold : Char → List Char) (ts : List TT) (ht : ttOKList ts = true) :
    run TT0 o fold (ttTextList TT0 ts)
      = { toks := ttToksList 1 ts ++ [⟨0, [], 1 + ttLinesList ts⟩], err := none } := by
  unfold run
  have hlen := ttToksList_len ts ht 1
  obtain ⟨k, hk⟩ : ∃ k, (ttTextList TT0 ts).length + 2 = (k + 1) + (ttToksList 1 ts).length :=
    ⟨(ttTextList TT0 ts).length + 1 - (ttToksList 1 ts).length, by omega⟩
  have h := lex_ttList o ho hc hp fold ts ht 1 (k + 1) [] []
  rw [List.append_nil] at h
  rw [hk]
  show runAux TT0 o fold (k + 1 + (ttToksList 1 ts).length) ⟨1, false⟩ _ [] = _
  rw [h, C01.run_eof]
  simp

end C06

namespace C01

/-- two results that differ at most in the line number attached to an error -/
def relR : PResult → PResult → Prop
  | .root a, .root b => a = b
  | .single a, .single b => a = b
  | .err e _, .err e' _ => e = e'
  | _, _ => False

def relO : Out → Out → Prop
  | .cont a, .cont b => a = b
  | .done a, .done b => relR a b
  | _, _ => False

theorem relR_refl (r : PResult) : relR r r := by cases r <;> simp [relR]
theorem relO_refl (r : Out) : relO r r := by cases r <;> simp [relO, relR_refl]

theorem stepTop_lines (po : ParseOpts) (ps : PState) (k : Nat) (v : List Char) (l l' : Nat) :
    relO (stepTop po ps ⟨k, v, l⟩) (stepTop po ps ⟨k, v, l'⟩) := by
  unfold stepTop
  simp only []
  repeat' split
  all_goals first | exact relO_refl _ | simp [relO, relR]

theorem step_lines (po : ParseOpts) (fold : Char → List Char) (ps : PState) (k : Nat) (v : List Char) (l l' : Nat) :
    relO (step po fold ps ⟨k, v, l⟩) (step po fold ps ⟨k, v, l'⟩) := by
  unfold step
  simp only []
  repeat' split
  all_goals first | exact relO_refl _ | exact stepTop_lines _ _ _ _ _ _ | simp [relO, relR]

end C01
namespace C01

/-- same kinds and values, possibly different line numbers -/
def sameKV : List Obs → List Obs → Prop
  | [], [] => True
  | a :: as, b :: bs => a.kind = b.kind ∧ a.value = b.value ∧ sameKV as bs
  | _, _ => False

theorem parseToks_lines (po : ParseOpts) (fold : Char → List Char) (ps : PState) (ts ts' : List Obs)
    (h : sameKV ts ts') : relR (parseToks po fold ps ts none) (parseToks po fold ps ts' none) := by
  induction ts generalizing ps ts' with
  | nil =>
    cases ts' with
    | nil => exact relR_refl _
    | cons b bs => simp [sameKV] at h
  | cons a as ih =>
    cases ts' with
    | nil => simp [sameKV] at h
    | cons b bs =>
      obtain ⟨hk, hv, hr⟩ := h
      cases a with
      | mk ka va la =>
      cases b with
      | mk kb vb lb =>
      simp only at hk hv
      subst hk hv
      have hs := step_lines po fold ps ka va la lb
      simp only [parseToks]
      cases h1 : step po fold ps ⟨ka, va, la⟩ with
      | done r =>
        cases h2 : step po fold ps ⟨ka, va, lb⟩ with
        | done r' => rw [h1, h2] at hs; simpa [relO] using hs
        | cont p' => rw [h1, h2] at hs; simp [relO] at hs
      | cont p =>
        cases h2 : step po fold ps ⟨ka, va, lb⟩ with
        | done r' => rw [h1, h2] at hs; simp [relO] at hs
        | cont p' =>
          rw [h1, h2] at hs
          simp only [relO] at hs
          subst hs
          exact ih p bs hr

theorem relR_root {r : PResult} {a : List KV} (h : relR r (.root a)) : r = .root a := by
  cases r <;> simp_all [relR]

end C01

namespace C06

/-! ## from the token stream to the tree (C01's parser machine) -/

mutual
/-- the same tree as a C01 keyvalues tree -/
def convKV : KV → C01.KV
  | .leaf n v => .leaf n v
  | .block n cs => .block n (convList cs)
def convList : List KV → List C01.KV
  | [] => []
  | t :: ts => convKV t :: convList ts
end

theorem sameKV_append {a b c d : List Obs} (h1 : C01.sameKV a b) (h2 : C01.sameKV c d) :
    C01.sameKV (a ++ c) (b ++ d) := by
  induction a generalizing b with
  | nil => cases b with
    | nil => simpa using h2
    | cons x xs => simp [C01.sameKV] at h1
  | cons x xs ih =>
    cases b with
    | nil => simp [C01.sameKV] at h1
    | cons y ys => exact ⟨h1.1, h1.2.1, ih h1.2.2⟩

mutual
theorem sameKV_tt (t : TT) (l l' : Nat) : C01.sameKV (ttToks l t) (C01.toksKV l' (convKV (ttKV t))) := by
  match t with
  | .leaf d n v => simp [ttToks, ttKV, convKV, C01.toksKV, C01.sameKV]
  | .block d q n kids =>
    simp only [ttToks, ttKV, convKV, C01.toksKV]
    refine ⟨rfl, rfl, rfl, rfl, rfl, rfl, rfl, rfl, ?_⟩
    exact sameKV_append (sameKV_ttList kids _ _) (by simp [C01.sameKV])
theorem sameKV_ttList (ts : List TT) (l l' : Nat) :
    C01.sameKV (ttToksList l ts) (C01.toksList l' (convList (ttKVList ts))) := by
  match ts with
  | [] => simp [ttToksList, ttKVList, convList, C01.toksList, C01.sameKV]
  | t :: ts =>
    simp only [ttToksList, ttKVList, convList, C01.toksList]
    exact sameKV_append (sameKV_tt t _ _) (sameKV_ttList ts _ _)
end

/-- **Parsing the text of a layout tree gives its keyvalues tree.** -/
theorem parse_ttTextList (po : C01.ParseOpts) (hesc : po.allowEscapes = true) (hsb : po.singleBlock = false)
    (fold : Char → List Char) (ts : List TT) (ht : ttOKList ts = true)
    (hok : C01.okList po (convList (ttKVList ts)) = true) :
    C01.parse TT0 po fold (ttTextList TT0 ts) = .root (convList (ttKVList ts)) := by
  unfold C01.parse C01.parseRun
  rw [run_ttTextList (C01.tokOpts po) (by simpa [C01.tokOpts] using hesc) rfl rfl fold ts ht]
  apply C01.relR_root
  have hs : C01.sameKV (ttToksList 1 ts ++ [⟨0, [], 1 + ttLinesList ts⟩])
      (C01.toksList 1 (convList (ttKVList ts)) ++ [⟨0, [], 0⟩]) :=
    sameKV_append (sameKV_ttList ts 1 1) (by simp [C01.sameKV])
  have := C01.parseToks_lines po fold C01.initState _ _ hs
  have e : C01.parseToks po fold C01.initState (C01.toksList 1 (convList (ttKVList ts)) ++ [⟨0, [], 0⟩]) none
      = .root (convList (ttKVList ts)) := by
    unfold C01.initState
    rw [C01.parse_list po fold _ hok 1 _ [] (Or.inl hsb) false]
    simp [C01.parseToks, C01.step, C01.stepTop, C01.kEof, C01.finish]
  rw [e] at this
  exact this




/-! ## the layout tree denotes the exported tree -/

@[simp] theorem ttKV_tRaw (d : Nat) (n : String) (v : Str) : ttKV (tRaw d n v) = kLeaf n v := by
  simp [tRaw, ttKV, segVal, Piece.val, kLeaf]
@[simp] theorem ttKV_tEsc (d : Nat) (n : String) (v : Str) : ttKV (tEsc d n v) = kLeaf n v := by
  simp [tEsc, ttKV, segVal, Piece.val, kLeaf]
@[simp] theorem ttKV_tInt (d : Nat) (n : String) (i : Int) : ttKV (tInt d n i) = kInt n i := by
  simp [tInt, kInt]
@[simp] theorem ttKV_tBool (d : Nat) (n : String) (b : Bool) : ttKV (tBool d n b) = kBool n b := by
  simp [tBool, kBool]
@[simp] theorem ttKV_tBlock (d : Nat) (n : String) (kids : List TT) :
    ttKV (tBlock d n kids) = kBlock n (ttKVList kids) := by
  simp [tBlock, ttKV, kBlock]
@[simp] theorem ttKVList_nil : ttKVList [] = [] := rfl
@[simp] theorem ttKVList_cons (t : TT) (ts : List TT) : ttKVList (t :: ts) = ttKV t :: ttKVList ts := rfl
@[simp] theorem ttKVList_append (a b : List TT) : ttKVList (a ++ b) = ttKVList a ++ ttKVList b := by
  induction a with
  | nil => rfl
  | cons x xs ih => simp [ih]
theorem ttKVList_map {α} (f : α → TT) (l : List α) : ttKVList (l.map f) = l.map (fun a => ttKV (f a)) := by
  induction l with
  | nil => rfl
  | cons x xs ih => simp [ih]

mutual
theorem ttKV_vis (d : Nat) : (v : Vis) → ttKV (ttVis d v) = exportVisAux v
  | .mk name id color children => by
    simp only [ttVis, ttKV, exportVisAux, ttKVList_cons, ttKV_tEsc, ttKV_tInt, ttKV_tRaw]
    rw [ttKV_visList (d + 1) children]
theorem ttKV_visList (d : Nat) : (vs : List Vis) → ttKVList (ttVisList d vs) = exportVisAux.exportVisList vs
  | [] => rfl
  | v :: vs => by
    simp only [ttVisList, exportVisAux.exportVisList, ttKVList_cons]
    rw [ttKV_vis d v, ttKV_visList d vs]
end

theorem ttKV_view (title : String) (v : View) : ttKV (ttView title v) = exportView title v := by
  cases v with
  | v3 p a => simp [ttView, exportView]
  | v2 ax u w z =>
    simp only [ttView, exportView]
    by_cases h0 : ax = 0
    · subst h0; simp
    · by_cases h1 : ax = 1
      · subst h1; simp
      · by_cases h2 : ax = 2
        · subst h2; simp
        · simp [h0, h1, h2]

theorem ttKV_views (ts : List String) (vs : List View) : ttKVList (ttViews ts vs) = exportViews ts vs := by
  induction ts generalizing vs with
  | nil => cases vs <;> rfl
  | cons t r ih =>
    cases vs with
    | nil => rfl
    | cons v w => simp [ttViews, exportViews, ttKV_view, ih]

theorem ttKV_rows (d y : Nat) (rows : List (List Str)) : ttKVList (ttRowsFrom d y rows) = rowLeavesFrom y rows := by
  induction rows generalizing y with
  | nil => rfl
  | cons r rs ih => simp [ttRowsFrom, rowLeavesFrom, ttKV, segVal, Piece.val, rowName, ih]

theorem ttKV_rowset (d : Nat) (name : String) (size : Nat) (verts : List DVert) (toks : DVert → List Str) :
    ttKV (ttRowset d name size verts toks) = kBlock name (rowsetKids size verts toks) := by
  simp [ttRowset, rowsetKids, rowLeaves, ttKV_rows]

theorem ttKV_disp (d : Nat) (mb : Bool) (dp : Disp) : ttKV (ttDisp d mb dp) = exportDisp mb dp := by
  simp only [ttDisp, exportDisp, dispKidsOf, dispHead, ttKV_tBlock, ttKVList_append, ttKVList_cons, ttKVList_nil,
    ttKV_tInt, ttKV_tRaw, ttKV_tBool, ttKV_rowset, triKids, rowLeaves, ttKV_rows]
  cases mb && hasBlend dp.verts <;> simp [ttKV_rowset]

theorem ttKV_points (d i : Nat) (pts : List V3) : ttKVList (ttPointsFrom d i pts) = pointLeaves i pts := by
  induction pts generalizing i with
  | nil => rfl
  | cons p ps ih => simp [ttPointsFrom, pointLeaves, ih]

theorem ttKV_side (d : Nat) (mb : Bool) (s : Side) : ttKV (ttSide d mb s) = exportSide mb s := by
  simp only [ttSide, exportSide, ttKV_tBlock, ttKVList_append, ttKVList_cons, ttKVList_nil, ttKV_tInt, ttKV_tRaw,
    ttKV_tEsc]
  cases hp : s.points <;> cases hd : s.disp <;>
    simp [ttKV, ttKV_points, exportPoints, kBlock, lit, ttKV_disp] <;>
    (split <;> simp [ttKV_disp])


theorem ttKV_maybeHidden (d : Nat) (h : Bool) (f : Nat → TT) (k : KV) (hf : ∀ d', ttKV (f d') = k) :
    ttKV (ttMaybeHidden d h f) = maybeHidden h k := by
  cases h <;> simp [ttMaybeHidden, maybeHidden, hf]

theorem ttKV_solidEditor (d : Nat) (ig : Bool) (s : Solid) :
    ttKVList (ttSolidEditor d ig s) = solidEditor ig s := by
  unfold ttSolidEditor solidEditor
  cases ig <;> cases s.group <;> cases s.cordon <;> simp [ttKVList_map]

theorem ttKV_solid (d : Nat) (mb ig : Bool) (s : Solid) : ttKV (ttSolid d mb ig s) = exportSolid mb ig s := by
  unfold ttSolid exportSolid
  apply ttKV_maybeHidden
  intro d'
  simp [ttSolidBlock, solidBlock, ttKVList_map, ttKV_side, ttKV_solidEditor]

theorem ttKV_fix (d : Nat) (f : Fix) : ttKV (ttFix d f) = exportFix f := by
  simp [ttFix, exportFix, ttKV, segVal, Piece.val]

theorem ttKV_out (d : Nat) (o : Out) : ttKV (ttOut d o) = exportOut o := by
  simp [ttOut, exportOut, ttKV, segVal, Piece.val]

theorem ttKV_group (d : Nat) (g : Group) : ttKV (ttGroup d g) = exportGroup g := by
  simp [ttGroup, exportGroup]

theorem ttKV_entEditor (d : Nat) (w : Bool) (e : Ent) : ttKVList (ttEntEditor d w e) = entEditor w e := by
  unfold ttEntEditor entEditor
  cases w <;> cases e.comments.isEmpty <;> simp [ttKVList_map]

theorem ttKV_ent (d : Nat) (mb w : Bool) (groups : List Group) (e : Ent) :
    ttKV (ttEnt d mb w groups e) = exportEnt mb w groups e := by
  unfold ttEnt exportEnt
  apply ttKV_maybeHidden
  intro d'
  unfold ttEntBlock entBlock ttEntKids entKids
  cases w <;> cases e.outputs.isEmpty <;>
    simp [ttKVList_map, ttKV_fix, ttKV_solid, ttKV_out, ttKV_group, ttKV_entEditor, ttKV, segVal, Piece.val]

theorem ttKV_cam (d : Nat) (c : Cam) : ttKV (ttCam d c) = exportCam c := by simp [ttCam, exportCam]
theorem ttKV_cordon (d : Nat) (c : Cordon) : ttKV (ttCordon d c) = exportCordon c := by
  simp [ttCordon, exportCordon]

/-- **The layout tree of the text denotes the exported tree.** -/
theorem ttKV_exportTT (o : ExportOpts) (m : VMap) : ttKVList (exportTT o m) = exportTree o m := by
  have hvis : ttKVList (ttVisList 1 m.vis) = m.vis.map exportVis := by
    rw [ttKV_visList]
    induction m.vis with
    | nil => rfl
    | cons v vs ih => simp [exportVisAux.exportVisList, exportVis, ih]
  have hview : ttKVList (ttViewKids m) = viewKids m := by
    unfold ttViewKids viewKids
    cases m.instVis <;> cases m.views <;> simp [ttKV_views]
  have hcam : ttKVList (ttCamKids m) = camKids m := by
    simp [ttCamKids, camKids, ttKVList_map, ttKV_cam]
  have hcord : ttKVList (ttCordonKids m) = cordonKids m := by
    unfold ttCordonKids cordonKids
    cases m.cordons.isEmpty <;> simp [ttKVList_map, ttKV_cordon]
  unfold exportTT exportTree rootOf
  cases o.minimal <;> cases decide (m.quickhide > 0) <;>
    simp [ttVerKids, verKids, hvis, hview, hcam, hcord, ttKVList_map, ttKV_ent]



/-! ## the layout tree of a well-formed map is well-formed text -/

@[simp] theorem plainStr_nil : plainStr [] = true := rfl
@[simp] theorem plainStr_cons (c : Char) (s : Str) : plainStr (c :: s) = (plainC c && plainStr s) := rfl
@[simp] theorem plainStr_append (a b : Str) : plainStr (a ++ b) = (plainStr a && plainStr b) := by
  simp [plainStr, List.all_append]

theorem plainStr_showNat (n : Nat) : plainStr (showNat n) = true := by
  simp only [plainStr, List.all_eq_true]
  intro c hc
  have := showNat_all_digit n
  simp only [List.all_eq_true] at this
  have hd := this c hc
  simp only [Char.isDigit, Bool.and_eq_true, decide_eq_true_eq] at hd
  simp only [plainC, Bool.not_eq_true', Bool.or_eq_false_iff, beq_eq_false_iff_ne, ne_eq]
  refine ⟨⟨⟨⟨⟨⟨⟨⟨⟨?_, ?_⟩, ?_⟩, ?_⟩, ?_⟩, ?_⟩, ?_⟩, ?_⟩, ?_⟩, ?_⟩ <;> (intro e; subst e; revert hd; decide)

theorem plainStr_showInt (i : Int) : plainStr (showInt i) = true := by
  cases i with
  | ofNat n => exact plainStr_showNat n
  | negSucc n => simp [showInt, plainStr_showNat]; decide

theorem plainStr_boolStr (b : Bool) : plainStr (boolStr b) = true := by cases b <;> decide

theorem plainStr_pad2 (i : Int) : plainStr (pad2 (showInt i)) = true := by
  unfold pad2; split <;> simp [plainStr_showInt]; decide

theorem plainStr_unwords (l : List Str) (h : ∀ t ∈ l, plainStr t = true) : plainStr (unwords l) = true := by
  induction l with
  | nil => rfl
  | cons a r ih =>
    cases r with
    | nil => simpa [unwords, joinWith] using h a (by simp)
    | cons b r' =>
      have := ih (fun t ht => h t (by simp [ht]))
      simp only [unwords, joinWith, sp, plainStr_append, plainStr_cons, plainStr_nil, Bool.and_true] at this ⊢
      simp [h a (by simp), this]
      decide

theorem plainStr_v3 {v : V3} (h : V3OK v = true) : plainStr v.str = true := by
  obtain ⟨hx, hy, hz⟩ := v3ok_parts h
  apply plainStr_unwords
  intro t ht
  simp only [V3.toks, List.mem_cons, List.mem_nil_iff, or_false] at ht
  rcases ht with rfl | rfl | rfl <;> exact tok_plain (by assumption)

theorem plainStr_wrap (o c : Char) (s : Str) (ho : plainC o = true) (hc : plainC c = true) (hs : plainStr s = true) :
    plainStr (wrap o c s) = true := by simp [wrap, ho, hc, hs]

theorem plainStr_uv {a : UV} (h : UVOK a = true) : plainStr a.str = true := by
  simp only [UVOK, Bool.and_eq_true] at h
  obtain ⟨⟨⟨⟨hx, hy⟩, hz⟩, ho⟩, hs⟩ := h
  rw [UV.str_eq]
  apply plainStr_unwords
  intro t ht
  simp only [List.mem_cons, List.mem_nil_iff, or_false] at ht
  rcases ht with rfl | rfl | rfl | rfl | rfl
  · simp [tok_plain hx]; decide
  · exact tok_plain hy
  · exact tok_plain hz
  · simp [tok_plain ho]; decide
  · exact tok_plain hs

theorem noNl_of_plain (s : Str) (h : plainStr s = true) : noNlStr s = true := by
  simp only [plainStr, List.all_eq_true] at h
  simp only [noNlStr, Bool.not_eq_true', Bool.or_eq_false_iff, List.contains_eq_mem, decide_eq_false_iff_not]
  constructor <;> (intro hm; have := h _ hm; simp [plainC] at this)

@[simp] theorem noNlStr_append (a b : Str) : noNlStr (a ++ b) = (noNlStr a && noNlStr b) := by
  simp only [noNlStr, List.contains_eq_mem, List.mem_append]
  by_cases h1 : '\n' ∈ a <;> by_cases h2 : '\n' ∈ b <;> by_cases h3 : '\r' ∈ a <;> by_cases h4 : '\r' ∈ b <;>
    simp [h1, h2, h3, h4]

/-! ### `ttOK` of the line constructors -/

@[simp] theorem ttOK_tRaw (d : Nat) (n : String) (v : Str) :
    ttOK (tRaw d n v) = (plainStr n.toList && plainStr v) := by
  simp only [tRaw, ttOK, segOK, pieceOK, List.all_cons, List.all_nil, Bool.and_true, segVal, Piece.val,
    List.flatMap_cons, List.flatMap_nil, List.append_nil]
  by_cases h : plainStr n.toList = true
  · simp [h, noNl_of_plain _ h]
  · simp [h]
@[simp] theorem ttOK_tEsc (d : Nat) (n : String) (v : Str) : ttOK (tEsc d n v) = plainStr n.toList := by
  simp only [tEsc, ttOK, segOK, pieceOK, List.all_cons, List.all_nil, Bool.and_true, segVal, Piece.val,
    List.flatMap_cons, List.flatMap_nil, List.append_nil]
  by_cases h : plainStr n.toList = true
  · simp [h, noNl_of_plain _ h]
  · simp [h]
@[simp] theorem ttOK_tInt (d : Nat) (n : String) (i : Int) : ttOK (tInt d n i) = plainStr n.toList := by
  simp [tInt, plainStr_showInt]
@[simp] theorem ttOK_tBool (d : Nat) (n : String) (b : Bool) : ttOK (tBool d n b) = plainStr n.toList := by
  simp [tBool, plainStr_boolStr]
@[simp] theorem ttOK_tBlock (d : Nat) (n : String) (kids : List TT) :
    ttOK (tBlock d n kids) = (bareName n.toList && ttOKList kids) := by
  simp [tBlock, ttOK]
@[simp] theorem ttOKList_nil : ttOKList [] = true := rfl
@[simp] theorem ttOKList_cons (t : TT) (ts : List TT) : ttOKList (t :: ts) = (ttOK t && ttOKList ts) := rfl
@[simp] theorem ttOKList_append (a b : List TT) : ttOKList (a ++ b) = (ttOKList a && ttOKList b) := by
  induction a with
  | nil => rfl
  | cons x xs ih => simp [ih, Bool.and_assoc]
theorem ttOKList_map {α} (f : α → TT) (l : List α) (h : ∀ a ∈ l, ttOK (f a) = true) :
    ttOKList (l.map f) = true := by
  induction l with
  | nil => rfl
  | cons x xs ih => simp [h x (by simp), ih (fun a ha => h a (by simp [ha]))]

mutual
theorem ttOK_vis (d : Nat) : (v : Vis) → VisOK v = true → ttOK (ttVis d v) = true
  | .mk name id color children, h => by
    simp only [VisOK, Bool.and_eq_true] at h
    simp only [ttVis, ttOK, Bool.false_eq_true, if_false, ttOKList_cons, ttOK_tEsc, ttOK_tInt, ttOK_tRaw,
      plainStr_v3 h.1, ttOK_visList (d + 1) children h.2, Bool.and_true]
    decide
theorem ttOK_visList (d : Nat) : (vs : List Vis) → VisListOK vs = true → ttOKList (ttVisList d vs) = true
  | [], _ => rfl
  | v :: vs, h => by
    simp only [VisListOK, Bool.and_eq_true] at h
    simp [ttVisList, ttOK_vis d v h.1, ttOK_visList d vs h.2]
end

theorem plain_big1 : plainStr (lit "65536") = true := by decide
theorem plain_big2 : plainStr (lit "-65536") = true := by decide

theorem ttOK_view (title : String) (hb : bareName title.toList = true) (v : View) (h : ViewOK v = true) :
    ttOK (ttView title v) = true := by
  cases v with
  | v3 p a =>
    simp only [ViewOK, Bool.and_eq_true] at h
    have w1 := plainStr_wrap '(' ')' p.str (by decide) (by decide) (plainStr_v3 h.1)
    have w2 := plainStr_wrap '[' ']' a.str (by decide) (by decide) (plainStr_v3 h.2)
    simp [ttView, hb, w1, w2, plainC]
  | v2 ax u w z =>
    simp only [ViewOK, Bool.and_eq_true, decide_eq_true_eq, Bool.not_eq_true'] at h
    obtain ⟨⟨⟨⟨⟨hax, hu⟩, hw⟩, hz⟩, _⟩, _⟩ := h
    have pu := tok_plain hu
    have pw := tok_plain hw
    have pz := tok_plain hz
    have p1 : plainStr (wrap '(' ')' (unwords [lit "65536", u, w])) = true :=
      plainStr_wrap _ _ _ (by decide) (by decide) (plainStr_unwords _ (by
        intro t ht; simp at ht; rcases ht with rfl | rfl | rfl <;> first | exact plain_big1 | assumption))
    have p2 : plainStr (wrap '(' ')' (unwords [u, lit "-65536", w])) = true :=
      plainStr_wrap _ _ _ (by decide) (by decide) (plainStr_unwords _ (by
        intro t ht; simp at ht; rcases ht with rfl | rfl | rfl <;> first | exact plain_big2 | assumption))
    have p3 : plainStr (wrap '(' ')' (unwords [u, w, lit "65536"])) = true :=
      plainStr_wrap _ _ _ (by decide) (by decide) (plainStr_unwords _ (by
        intro t ht; simp at ht; rcases ht with rfl | rfl | rfl <;> first | exact plain_big1 | assumption))
    simp only [ttView, ttOK_tBlock, hb, Bool.true_and, ttOKList_append, ttOKList_cons, ttOKList_nil, ttOK_tRaw, pz]
    have ax3 : ax = 0 ∨ ax = 1 ∨ ax = 2 := by omega
    rcases ax3 with rfl | rfl | rfl <;> simp [p1, p2, p3, plainC]


theorem ttOK_rows (d y : Nat) (rows : List (List Str)) (h : ∀ r ∈ rows, ∀ t ∈ r, plainStr t = true) :
    ttOKList (ttRowsFrom d y rows) = true := by
  induction rows generalizing y with
  | nil => rfl
  | cons r rs ih =>
    have hr := plainStr_unwords r (h r (by simp))
    have hrow : noNlStr ('r' :: 'o' :: 'w' :: showNat y) = true := noNl_of_plain _ (by simp [plainStr_showNat, plainC])
    simp [ttRowsFrom, ttOK, segOK, pieceOK, segVal, Piece.val, plainStr_showNat, hr, hrow,
      ih (y + 1) (fun q hq => h q (by simp [hq])), plainC, lit]

theorem rows_plain (size n : Nat) (verts : List DVert) (sel : List DVert → List DVert)
    (hsel : ∀ r, ∀ v ∈ sel r, v ∈ r) (toks : DVert → List Str)
    (h : ∀ v ∈ verts, ∀ t ∈ toks v, plainStr t = true) :
    ∀ r ∈ (rowsOf size n verts).map (fun r => (sel r).flatMap toks), ∀ t ∈ r, plainStr t = true := by
  intro r hr t ht
  simp only [List.mem_map] at hr
  obtain ⟨row, hrow, rfl⟩ := hr
  simp only [List.mem_flatMap] at ht
  obtain ⟨v, hv, htv⟩ := ht
  exact h v (rowsOf_mem size n verts row hrow v (hsel row v hv)) t htv

theorem ttOK_rowset (d : Nat) (name : String) (hb : bareName name.toList = true) (size : Nat) (verts : List DVert)
    (toks : DVert → List Str) (h : ∀ v ∈ verts, ∀ t ∈ toks v, plainStr t = true) :
    ttOK (ttRowset d name size verts toks) = true := by
  simp only [ttRowset, ttOK_tBlock, hb, Bool.true_and]
  exact ttOK_rows _ _ _ (rows_plain size size verts id (fun _ _ hv => hv) toks h)

theorem plain_v3toks {v : V3} (h : V3OK v = true) : ∀ t ∈ v.toks, plainStr t = true := by
  obtain ⟨hx, hy, hz⟩ := v3ok_parts h
  intro t ht
  simp only [V3.toks, List.mem_cons, List.mem_nil_iff, or_false] at ht
  rcases ht with rfl | rfl | rfl <;> exact tok_plain (by assumption)

theorem plain_v4toks {v : V4} (h : V4OK v = true) : ∀ t ∈ v.toks, plainStr t = true := by
  obtain ⟨hx, hy, hz, hw⟩ := v4ok_parts h
  intro t ht
  simp only [V4.toks, List.mem_cons, List.mem_nil_iff, or_false] at ht
  rcases ht with rfl | rfl | rfl | rfl <;> exact tok_plain (by assumption)

theorem ttOK_disp (d : Nat) (mb : Bool) (dp : Disp) (h : DispOK dp = true) : ttOK (ttDisp d mb dp) = true := by
  simp only [DispOK, Bool.and_eq_true, decide_eq_true_eq, List.all_eq_true] at h
  obtain ⟨⟨⟨⟨⟨⟨⟨hp1, hp4⟩, hpos⟩, helev⟩, hcoll⟩, hal⟩, hlen⟩, hv⟩ := h
  have parts : ∀ s ∈ dp.verts, V3OK s.normal = true ∧ TokOK s.dist = true ∧ V3OK s.offset = true ∧
      V3OK s.offsetNorm = true ∧ TokOK s.alpha = true ∧ V4OK s.blend = true ∧ V4OK s.malpha = true := by
    intro s hs
    have := hv s hs
    simp only [DVertOK, Bool.and_eq_true] at this
    obtain ⟨⟨⟨⟨⟨⟨⟨⟨⟨a1, a2⟩, a3⟩, a4⟩, a5⟩, _⟩, _⟩, a8⟩, a9⟩, _⟩ := this
    exact ⟨a1, a2, a3, a4, a5, a8, a9⟩
  have r1 := ttOK_rowset (d + 2) "normals" (by decide) (dispSize dp.power) dp.verts (·.normal.toks)
    (fun v hv' => plain_v3toks (parts v hv').1)
  have r2 := ttOK_rowset (d + 2) "distances" (by decide) (dispSize dp.power) dp.verts (fun v => [v.dist])
    (fun v hv' t ht => by simp at ht; subst ht; exact tok_plain (parts v hv').2.1)
  have r3 := ttOK_rowset (d + 2) "offsets" (by decide) (dispSize dp.power) dp.verts (·.offset.toks)
    (fun v hv' => plain_v3toks (parts v hv').2.2.1)
  have r4 := ttOK_rowset (d + 2) "offset_normals" (by decide) (dispSize dp.power) dp.verts (·.offsetNorm.toks)
    (fun v hv' => plain_v3toks (parts v hv').2.2.2.1)
  have r5 := ttOK_rowset (d + 2) "alphas" (by decide) (dispSize dp.power) dp.verts (fun v => [v.alpha])
    (fun v hv' t ht => by simp at ht; subst ht; exact tok_plain (parts v hv').2.2.2.2.1)
  have r6 : ttOKList (ttRowsFrom (d + 2) 0 ((rowsOf (dispSize dp.power) (dispSize dp.power - 1) dp.verts).map
      fun r => (r.take (dispSize dp.power - 1)).flatMap triToks)) = true :=
    ttOK_rows _ _ _ (rows_plain _ _ dp.verts (fun r => r.take (dispSize dp.power - 1))
      (fun _ _ hv' => List.mem_of_mem_take hv') triToks (fun v _ t ht => by
        simp only [triToks, List.mem_cons, List.mem_nil_iff, or_false] at ht
        rcases ht with rfl | rfl <;> exact plainStr_showInt _))
  have r7 : plainStr (unwords (dp.allowed.map showInt)) = true :=
    plainStr_unwords _ (fun t ht => by
      simp only [List.mem_map] at ht
      obtain ⟨i, _, rfl⟩ := ht
      exact plainStr_showInt i)
  have m1 := ttOK_rowset (d + 2) "multiblend" (by decide) (dispSize dp.power) dp.verts (·.blend.toks)
    (fun v hv' => plain_v4toks (parts v hv').2.2.2.2.2.1)
  have m2 := ttOK_rowset (d + 2) "alphablend" (by decide) (dispSize dp.power) dp.verts (·.malpha.toks)
    (fun v hv' => plain_v4toks (parts v hv').2.2.2.2.2.2)
  have mc : ∀ (i : Nat) (name : String), bareName name.toList = true →
      ttOK (ttRowset (d + 2) name (dispSize dp.power) dp.verts (colorToks i)) = true := by
    intro i name hb
    exact ttOK_rowset _ name hb _ _ _ (fun v hv' => by
      rw [colorToks_eq]; exact plain_v3toks (colorOf_ok i v (hv v hv')))
  have wpos := plainStr_wrap '[' ']' dp.pos.str (by decide) (by decide) (plainStr_v3 hpos)
  simp only [ttDisp, ttOK_tBlock, ttOKList_append, ttOKList_cons, ttOKList_nil, ttOK_tInt, ttOK_tRaw, ttOK_tBool,
    r1, r2, r3, r4, r5, r6, r7, wpos, tok_plain helev]
  cases mb && hasBlend dp.verts <;>
    simp [m1, m2, mc 0 "multiblend_color_0" (by decide), mc 1 "multiblend_color_1" (by decide),
      mc 2 "multiblend_color_2" (by decide), mc 3 "multiblend_color_3" (by decide), plainC, bareName, bareC]


theorem ttOK_points (d i : Nat) (pts : List V3) (h : ∀ p ∈ pts, V3OK p = true) :
    ttOKList (ttPointsFrom d i pts) = true := by
  induction pts generalizing i with
  | nil => rfl
  | cons p ps ih =>
    simp [ttPointsFrom, plainStr_showNat, plainStr_v3 (h p (by simp)), ih (i + 1) (fun q hq => h q (by simp [hq])),
      plainC]

theorem ttOK_side (d : Nat) (mb : Bool) (s : Side) (h : SideOK1 s = true) : ttOK (ttSide d mb s) = true := by
  simp only [SideOK1, Bool.and_eq_true] at h
  obtain ⟨⟨hc, hp⟩, hd⟩ := h
  simp only [SideCoreOK, Bool.and_eq_true] at hc
  obtain ⟨⟨⟨⟨⟨h0, h1⟩, h2⟩, hu⟩, hv⟩, hr⟩ := hc
  have wplane : plainStr (wrap '(' ')' s.p0.str ++ ' ' :: wrap '(' ')' s.p1.str ++ ' ' :: wrap '(' ')' s.p2.str) = true := by
    simp [plainStr_wrap _ _ _ (show plainC '(' = true by decide) (show plainC ')' = true by decide) (plainStr_v3 h0),
      plainStr_wrap _ _ _ (show plainC '(' = true by decide) (show plainC ')' = true by decide) (plainStr_v3 h1),
      plainStr_wrap _ _ _ (show plainC '(' = true by decide) (show plainC ')' = true by decide) (plainStr_v3 h2), plainC]
  have w0 := plainStr_wrap '(' ')' s.p0.str (by decide) (by decide) (plainStr_v3 h0)
  have w1 := plainStr_wrap '(' ')' s.p1.str (by decide) (by decide) (plainStr_v3 h1)
  have w2 := plainStr_wrap '(' ')' s.p2.str (by decide) (by decide) (plainStr_v3 h2)
  have hpts : ∀ pts, s.points = some pts →
      ttOK (TT.block (d + 1) true (lit "point_data") (tInt (d + 2) "numpts" pts.length :: ttPointsFrom (d + 2) 0 pts)) = true := by
    intro pts e
    rw [e] at hp
    simp only [List.all_eq_true] at hp
    simp [ttOK, ttOK_points _ _ pts hp, plainC, lit]
  have hdsp : ∀ dp, s.disp = some dp → ttOK (ttDisp d mb dp) = true := by
    intro dp e
    rw [e] at hd
    exact ttOK_disp d mb dp hd
  unfold ttSide
  cases hps : s.points with
  | none =>
    cases hds : s.disp with
    | none =>
      simp [w0, w1, w2, plainStr_uv hu, plainStr_uv hv, tok_plain hr, plainC, bareName, bareC]
    | some dp =>
      simp only [ttOK_tBlock, ttOKList_append, ttOKList_cons, ttOKList_nil, ttOK_tInt, ttOK_tRaw, ttOK_tEsc, wplane,
        plainStr_uv hu, plainStr_uv hv, tok_plain hr]
      split <;> simp [hdsp _ hds, plainC, bareName, bareC]
  | some pts =>
    cases hds : s.disp with
    | none =>
      simp [w0, w1, w2, plainStr_uv hu, plainStr_uv hv, tok_plain hr, hpts _ hps, plainC, bareName, bareC]
    | some dp =>
      simp only [ttOK_tBlock, ttOKList_append, ttOKList_cons, ttOKList_nil, ttOK_tInt, ttOK_tRaw, ttOK_tEsc, wplane,
        plainStr_uv hu, plainStr_uv hv, tok_plain hr]
      split <;> simp [hdsp _ hds, hpts _ hps, plainC, bareName, bareC]

theorem ttOK_maybeHidden (d : Nat) (h : Bool) (f : Nat → TT) (hf : ∀ d', ttOK (f d') = true) :
    ttOK (ttMaybeHidden d h f) = true := by
  cases h <;> simp [ttMaybeHidden, hf, bareName, bareC]

theorem ttOK_solid (d : Nat) (mb ig : Bool) (s : Solid) (h : SolidOK1 s = true) : ttOK (ttSolid d mb ig s) = true := by
  simp only [SolidOK1, Bool.and_eq_true, List.all_eq_true] at h
  apply ttOK_maybeHidden
  intro d'
  have hsides : ttOKList (s.sides.map (ttSide (d' + 1) mb)) = true :=
    ttOKList_map _ _ (fun sd hsd => ttOK_side _ mb sd (h.1 sd hsd))
  have hvis : ttOKList ((isort intLe s.visIds).map (tInt (d' + 2) "visgroupid")) = true :=
    ttOKList_map _ _ (fun _ _ => by simp [plainC])
  have hed : ttOKList (ttSolidEditor (d' + 2) ig s) = true := by
    unfold ttSolidEditor
    cases ig <;> cases s.group <;> cases s.cordon <;> simp [plainStr_v3 h.2, hvis, plainC]
  simp [ttSolidBlock, hsides, hed, plainC, bareName, bareC]

theorem ttOK_fix (d : Nat) (f : Fix) (h : FixOK f = true) : ttOK (ttFix d f) = true := by
  simp only [FixOK, Bool.and_eq_true] at h
  have hname : noNlStr ('r' :: 'e' :: 'p' :: 'l' :: 'a' :: 'c' :: 'e' :: pad2 (showInt f.id)) = true :=
    noNl_of_plain _ (by simp [plainStr_pad2, plainC])
  simp [ttFix, ttOK, segOK, pieceOK, segVal, Piece.val, plainStr_pad2, h.2, hname, plainC, lit]

theorem plainC_sep (b : Bool) : plainC (outSep b) = true := by cases b <;> decide

theorem ttOK_out (d : Nat) (o : Out) (h : OutOK o = true) : ttOK (ttOut d o) = true := by
  simp only [OutOK, Bool.and_eq_true] at h
  have hd := tok_plain h.1.1.1.2
  simp [ttOut, ttOK, segOK, pieceOK, segVal, Piece.val, plainC_sep, hd, plainStr_showInt, h.2]

theorem ttOK_group (d : Nat) (g : Group) (h : GroupOK g = true) : ttOK (ttGroup d g) = true := by
  simp only [GroupOK] at h
  simp [ttGroup, plainStr_v3 h, plainC, bareName, bareC]

theorem ttOK_ent (d : Nat) (mb w : Bool) (groups : List Group) (e : Ent) (h : EntOK1 e)
    (hg : ∀ g ∈ groups, GroupOK g = true) : ttOK (ttEnt d mb w groups e) = true := by
  apply ttOK_maybeHidden
  intro d'
  have hkeys : ttOKList ((isort keyLe e.keys).map (fun kv => TT.leaf (d' + 1) [.esc false kv.1] [.esc false kv.2])) = true :=
    ttOKList_map _ _ (fun kv hkv => by
      simp [ttOK, segOK, pieceOK, segVal, Piece.val, h.keyNl kv ((mem_isort _ _ _).mp hkv)])
  have hfix : ttOKList ((isort fixLe e.fixup).map (ttFix (d' + 1))) = true :=
    ttOKList_map _ _ (fun f hf => ttOK_fix _ f (h.fixes f ((mem_isort _ _ _).mp hf)))
  have hsol : ttOKList (e.solids.map (ttSolid (d' + 1) mb w)) = true :=
    ttOKList_map _ _ (fun s hs => ttOK_solid _ mb w s (h.solids s hs))
  have hout : ttOKList (e.outputs.map (ttOut (d' + 1 + 1))) = true :=
    ttOKList_map _ _ (fun o ho => ttOK_out _ o (h.outs o ho))
  have hgrp : ttOKList (groups.map (ttGroup (d' + 1))) = true :=
    ttOKList_map _ _ (fun g hg' => ttOK_group _ g (hg g hg'))
  have hed : ttOKList (ttEntEditor (d' + 1 + 1) w e) = true := by
    unfold ttEntEditor
    have h1 : ttOKList ((isort intLe e.groups).map (tInt (d' + 1 + 1) "groupid")) = true :=
      ttOKList_map _ _ (fun _ _ => by simp [plainC])
    have h2 : ttOKList ((isort intLe e.visIds).map (tInt (d' + 1 + 1) "visgroupid")) = true :=
      ttOKList_map _ _ (fun _ _ => by simp [plainC])
    cases w <;> cases e.comments.isEmpty <;> simp [plainStr_v3 h.color, h1, h2, plainC]
  unfold ttEntBlock ttEntKids
  cases w <;> cases e.outputs.isEmpty <;>
    simp [hkeys, hfix, hsol, hout, hgrp, hed, plainC, bareName, bareC]

theorem ttOK_cam (d : Nat) (c : Cam) (h : CamOK c = true) : ttOK (ttCam d c) = true := by
  simp only [CamOK, Bool.and_eq_true] at h
  simp [ttCam, plainStr_wrap _ _ _ (show plainC '[' = true by decide) (show plainC ']' = true by decide) (plainStr_v3 h.1),
    plainStr_wrap _ _ _ (show plainC '[' = true by decide) (show plainC ']' = true by decide) (plainStr_v3 h.2),
    plainC, bareName, bareC]

theorem ttOK_cordon (d : Nat) (c : Cordon) (h : CordonOK c = true) : ttOK (ttCordon d c) = true := by
  simp only [CordonOK, Bool.and_eq_true] at h
  simp [ttCordon, plainStr_wrap _ _ _ (show plainC '(' = true by decide) (show plainC ')' = true by decide) (plainStr_v3 h.1),
    plainStr_wrap _ _ _ (show plainC '(' = true by decide) (show plainC ')' = true by decide) (plainStr_v3 h.2),
    plainC, bareName, bareC]

/-- **The text of a well-formed map is well-formed**: every field written without escaping is
plain, every unquoted block header an identifier. -/
theorem ttOK_exportTT (o : ExportOpts) (m : VMap) (h : MapOK1 m) : ttOKList (exportTT o m) = true := by
  have hvis := ttOK_visList 1 m.vis h.vis
  have hview : ttOKList (ttViewKids m) = true := by
    unfold ttViewKids
    cases hiv : m.instVis <;> cases hvv : m.views
    · simp [plainC]
    · have := h.views
      rw [hvv] at this
      obtain ⟨a, b, c, d, rfl, ha, hb, hc, hd⟩ := this
      simp [ttViews, viewTitles, ttOK_view "v0" (by decide) a ha, ttOK_view "v1" (by decide) b hb,
        ttOK_view "v2" (by decide) c hc, ttOK_view "v3" (by decide) d hd, plainC, bareName, bareC]
    · simp [plainC]
    · have := h.views
      rw [hvv] at this
      obtain ⟨a, b, c, d, rfl, ha, hb, hc, hd⟩ := this
      simp [ttViews, viewTitles, ttOK_view "v0" (by decide) a ha, ttOK_view "v1" (by decide) b hb,
        ttOK_view "v2" (by decide) c hc, ttOK_view "v3" (by decide) d hd, plainC, bareName, bareC]
  have hcam : ttOKList (ttCamKids m) = true := by
    simp [ttCamKids, ttOKList_map _ _ (fun c hc => ttOK_cam 1 c (h.cams c hc)), plainC]
  have hcord : ttOKList (ttCordonKids m) = true := by
    unfold ttCordonKids
    cases m.cordons.isEmpty <;>
      simp [ttOKList_map _ _ (fun c hc => ttOK_cordon 1 c (h.cordons c hc)), plainC]
  have hworld := ttOK_ent 0 o.multiblend true m.groups (spawnForExport o m) (entOK1_spawnForExport o m h.spawn) h.groups
  have hents : ttOKList (m.ents.map (ttEnt 0 o.multiblend false [])) = true :=
    ttOKList_map _ _ (fun e he => ttOK_ent 0 _ false [] e (h.ents e he) (by simp))
  unfold exportTT
  cases o.minimal <;> cases decide (m.quickhide > 0) <;>
    simp [ttVerKids, hvis, hview, hcam, hcord, hworld, hents, plainC, bareName, bareC]



/-! ## the parser admits every name of well-formed text -/

theorem hasNl_false_of_noNl (s : Str) (h : noNlStr s = true) : C01.hasNl s = false := by
  simpa [noNlStr, C01.hasNl] using h

theorem bareName_plain (n : Str) (h : bareName n = true) : plainStr n = true := by
  simp only [bareName, Bool.and_eq_true, List.all_eq_true] at h
  simp only [plainStr, List.all_eq_true]
  intro c hc
  have hb := h.2 c hc
  simp only [plainC, Bool.not_eq_true', Bool.or_eq_false_iff, beq_eq_false_iff_ne, ne_eq]
  refine ⟨⟨⟨⟨⟨⟨⟨⟨⟨?_, ?_⟩, ?_⟩, ?_⟩, ?_⟩, ?_⟩, ?_⟩, ?_⟩, ?_⟩, ?_⟩ <;> (intro e; subst e; revert hb; decide)

mutual
theorem okKV_tt (po : C01.ParseOpts) (hv : po.newlineValues = true) (t : TT) (ht : ttOK t = true) :
    C01.okKV po (convKV (ttKV t)) = true := by
  match t with
  | .leaf d n v =>
    simp only [ttOK, Bool.and_eq_true] at ht
    simp [ttKV, convKV, C01.okKV, C01.keyOk, C01.valOk, hv, hasNl_false_of_noNl _ ht.2]
  | .block d q n kids =>
    simp only [ttOK, Bool.and_eq_true] at ht
    have hn : noNlStr n = true := by
      cases q with
      | true => exact noNl_of_plain n (by simpa using ht.1)
      | false => exact noNl_of_plain n (bareName_plain n (by simpa using ht.1))
    simp [ttKV, convKV, C01.okKV, C01.keyOk, hasNl_false_of_noNl _ hn, okList_tt po hv kids ht.2]
theorem okList_tt (po : C01.ParseOpts) (hv : po.newlineValues = true) (ts : List TT) (ht : ttOKList ts = true) :
    C01.okList po (convList (ttKVList ts)) = true := by
  match ts with
  | [] => rfl
  | t :: ts =>
    simp only [ttOKList, Bool.and_eq_true] at ht
    simp [ttKVList, convList, C01.okList, okKV_tt po hv t ht.1, okList_tt po hv ts ht.2]
end

/-- **Text level.** Lexing and parsing the text `VMF.export` writes for a well-formed map, with
the tokenizer and `Keyvalues.parse` models of C02/C03/C01 (any flag environment, `single_line`
either way, `newline_keys` either way), yields exactly the exported tree. -/
theorem parse_exportText (po : C01.ParseOpts) (hesc : po.allowEscapes = true) (hsb : po.singleBlock = false)
    (hv : po.newlineValues = true) (fold : Char → List Char) (o : ExportOpts) (m : VMap) (h : MapOK1 m) :
    C01.parse TT0 po fold (exportText o m) = .root (convList (exportTree o m)) := by
  have hok := ttOK_exportTT o m h
  have := parse_ttTextList po hesc hsb fold (exportTT o m) hok (okList_tt po hv _ hok)
  rw [ttKV_exportTT] at this
  exact this

end C06
