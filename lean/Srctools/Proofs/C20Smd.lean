import Srctools.Model.C20Smd
/-! Helper lemmas for the SMD model: splitting a line into its fields, reading a vertex line
back, the bone numbering of an already ordered list. -/
set_option linter.unusedSimpArgs false
namespace C20.Smd
open B64 (splitWs isSpace)

/-! ## `bytes.split()` on fields joined by single white-space characters -/

theorem go_word (w rest cur : List Char) (acc : List (List Char)) (hw : ∀ c ∈ w, isSpace c = false) :
    splitWs.go (w ++ rest) cur acc = splitWs.go rest (w.reverse ++ cur) acc := by
  induction w generalizing cur with
  | nil => rfl
  | cons a t ih =>
    have ha : isSpace a = false := hw a (by simp)
    simp only [List.cons_append, splitWs.go, ha, Bool.false_eq_true, if_false]
    rw [ih (a :: cur) (fun c hc => hw c (by simp [hc]))]
    simp

/-- a field: not empty, no white space -/
def fieldOK (f : Str) : Prop := f ≠ [] ∧ ∀ c ∈ f, isSpace c = false

instance (f : Str) : Decidable (fieldOK f) := by unfold fieldOK; infer_instance

/-- fields each followed by one white-space character -/
def joinSep : List (Str × Char) → List Char
  | [] => []
  | (f, c) :: r => f ++ c :: joinSep r

theorem go_joinSep (ps : List (Str × Char)) (h : ∀ p ∈ ps, fieldOK p.1 ∧ isSpace p.2 = true)
    (acc : List (List Char)) :
    splitWs.go (joinSep ps) [] acc = acc.reverse ++ ps.map (·.1) := by
  induction ps generalizing acc with
  | nil => simp [joinSep, splitWs.go]
  | cons p ps ih =>
    obtain ⟨f, c⟩ := p
    obtain ⟨⟨hne, hns⟩, hc⟩ := h (f, c) (by simp)
    simp only at hne hns hc
    simp only [joinSep]
    rw [go_word f (c :: joinSep ps) [] acc hns]
    have hemp : (f.reverse ++ []).isEmpty = false := by
      cases f with
      | nil => exact absurd rfl hne
      | cons a t => simp
    simp only [splitWs.go, hc, if_true, hemp, Bool.false_eq_true, if_false, List.append_nil, List.reverse_reverse]
    rw [ih (fun q hq => h q (by simp [hq]))]
    simp [hne]

theorem splitWs_joinSep (ps : List (Str × Char)) (h : ∀ p ∈ ps, fieldOK p.1 ∧ isSpace p.2 = true) :
    splitWs (joinSep ps) = ps.map (·.1) := by
  unfold splitWs
  rw [go_joinSep ps h []]
  simp


/-! ## one vertex line -/

def linkPairs : List (Str × Str) → List (Str × Char)
  | [] => []
  | [(b, w)] => [(b, ' '), (w, '\n')]
  | (b, w) :: r => (b, ' ') :: (w, ' ') :: linkPairs r

theorem links_join (f : Str) (ls : List (Str × Str)) (h : ls ≠ []) :
    f ++ (linksText ls ++ ['\n']) = joinSep ((f, ' ') :: linkPairs ls) := by
  induction ls generalizing f with
  | nil => exact absurd rfl h
  | cons l r ih =>
    obtain ⟨b, w⟩ := l
    cases r with
    | nil => simp [linksText, linkPairs, joinSep]
    | cons l2 r2 =>
      have := ih w (by simp)
      simp only [linksText, linkPairs, joinSep, List.cons_append, List.append_assoc] at this ⊢
      rw [this]

theorem linkPairs_fields (ls : List (Str × Str)) : (linkPairs ls).map (·.1) = linkFields ls := by
  induction ls with
  | nil => rfl
  | cons l r ih =>
    obtain ⟨b, w⟩ := l
    cases r with
    | nil => simp [linkPairs, linkFields]
    | cons l2 r2 => simp only [linkPairs, linkFields, List.map_cons] at ih ⊢; rw [ih]

theorem linkPairs_ok (ls : List (Str × Str)) (h : ∀ l ∈ ls, fieldOK l.1 ∧ fieldOK l.2) :
    ∀ p ∈ linkPairs ls, fieldOK p.1 ∧ isSpace p.2 = true := by
  induction ls with
  | nil => intro p hp; cases hp
  | cons l r ih =>
    obtain ⟨b, w⟩ := l
    have hb := h (b, w) (by simp)
    cases r with
    | nil =>
      intro p hp
      simp only [linkPairs, List.mem_cons, List.not_mem_nil, or_false] at hp
      rcases hp with rfl | rfl
      · exact ⟨hb.1, (by decide : isSpace ' ' = true)⟩
      · exact ⟨hb.2, (by decide : isSpace '\n' = true)⟩
    | cons l2 r2 =>
      intro p hp
      simp only [linkPairs, List.mem_cons] at hp
      rcases hp with rfl | rfl | hp
      · exact ⟨hb.1, (by decide : isSpace ' ' = true)⟩
      · exact ⟨hb.2, (by decide : isSpace ' ' = true)⟩
      · exact ih (fun x hx => h x (by simp [hx])) p (by simpa [linkPairs] using hp)

theorem pairUp_linkFields (ls : List (Str × Str)) : pairUp (linkFields ls) = some ls := by
  induction ls with
  | nil => rfl
  | cons l r ih => obtain ⟨b, w⟩ := l; simp [linkFields, pairUp, ih]

theorem linkFields_length (ls : List (Str × Str)) : (linkFields ls).length = 2 * ls.length := by
  induction ls with
  | nil => rfl
  | cons l r ih => obtain ⟨b, w⟩ := l; simp [linkFields, ih]; omega

theorem parseNat_natText (n : Nat) (h : n < 10) : parseNat (natText n) = some n := by
  have : n = 0 ∨ n = 1 ∨ n = 2 ∨ n = 3 ∨ n = 4 ∨ n = 5 ∨ n = 6 ∨ n = 7 ∨ n = 8 ∨ n = 9 := by omega
  rcases this with rfl | rfl | rfl | rfl | rfl | rfl | rfl | rfl | rfl | rfl <;> decide

theorem natText_ok (n : Nat) (h : n < 10) : fieldOK (natText n) := by
  have : n = 0 ∨ n = 1 ∨ n = 2 ∨ n = 3 ∨ n = 4 ∨ n = 5 ∨ n = 6 ∨ n = 7 ∨ n = 8 ∨ n = 9 := by omega
  rcases this with rfl | rfl | rfl | rfl | rfl | rfl | rfl | rfl | rfl | rfl <;> decide

/-- Representable vertex: every number text is a non-empty blank-free field, at least one and
fewer than ten bone links, every link bone an index of the file. -/
structure VxOK (known : Str → Bool) (vx : Vertex) : Prop where
  pos : fieldOK vx.pos.1 ∧ fieldOK vx.pos.2.1 ∧ fieldOK vx.pos.2.2
  norm : fieldOK vx.norm.1 ∧ fieldOK vx.norm.2.1 ∧ fieldOK vx.norm.2.2
  uv : fieldOK vx.u ∧ fieldOK vx.v
  links : vx.links ≠ [] ∧ vx.links.length < 10
  each : ∀ l ∈ vx.links, fieldOK l.1 ∧ fieldOK l.2 ∧ known l.1 = true

theorem headBone_ok {known : Str → Bool} {vx : Vertex} (h : VxOK known vx) :
    fieldOK (headBone vx) ∧ known (headBone vx) = true := by
  obtain ⟨_, _, _, ⟨hne, _⟩, he⟩ := h
  unfold headBone
  cases hl : vx.links with
  | nil => exact absurd hl hne
  | cons l r =>
    have := he l (by rw [hl]; simp)
    simpa using ⟨this.1, this.2.2⟩

/-- the fields `bytes.split()` finds in the written line -/
theorem split_vertexLine {known : Str → Bool} (vx : Vertex) (h : VxOK known vx) :
    splitWs (vertexLine vx) = vertexFields vx := by
  have hb := (headBone_ok h).1
  obtain ⟨⟨p1, p2, p3⟩, ⟨n1, n2, n3⟩, ⟨hu, hv⟩, ⟨hne, hlt⟩, he⟩ := h
  have sp : isSpace ' ' = true := by decide
  have tb : isSpace '\t' = true := by decide
  have nl : isSpace '\n' = true := by decide
  unfold vertexLine vertexFields
  by_cases hm : vx.links.length > 1
  · simp only [hm, if_true]
    have hj := links_join (natText vx.links.length) vx.links hne
    have e : headBone vx ++ '\t' :: (vx.pos.1 ++ ' ' :: (vx.pos.2.1 ++ ' ' :: (vx.pos.2.2 ++ '\t' ::
        (vx.norm.1 ++ ' ' :: (vx.norm.2.1 ++ ' ' :: (vx.norm.2.2 ++ '\t' :: (vx.u ++ ' ' :: (vx.v ++
          ((' ' :: (natText vx.links.length ++ linksText vx.links)) ++ ['\n'])))))))))
        = joinSep ([(headBone vx, '\t'), (vx.pos.1, ' '), (vx.pos.2.1, ' '), (vx.pos.2.2, '\t'), (vx.norm.1, ' '),
            (vx.norm.2.1, ' '), (vx.norm.2.2, '\t'), (vx.u, ' '), (vx.v, ' ')] ++
            ((natText vx.links.length, ' ') :: linkPairs vx.links)) := by
      simp only [joinSep, List.cons_append, List.nil_append, List.append_assoc]
      have hj' := hj
      simp only [joinSep] at hj'
      rw [← hj']
    rw [e, splitWs_joinSep]
    · simp [linkPairs_fields]
    · intro p hp
      rcases List.mem_append.mp hp with hp | hp
      · simp only [List.mem_cons, List.not_mem_nil, or_false] at hp
        rcases hp with rfl | rfl | rfl | rfl | rfl | rfl | rfl | rfl | rfl <;> simp [*]
      · rcases List.mem_cons.mp hp with rfl | hp
        · exact ⟨natText_ok _ hlt, sp⟩
        · exact linkPairs_ok vx.links (fun l hl => ⟨(he l hl).1, (he l hl).2.1⟩) p hp
  · simp only [hm, if_false, List.nil_append, List.append_nil]
    have e : headBone vx ++ '\t' :: (vx.pos.1 ++ ' ' :: (vx.pos.2.1 ++ ' ' :: (vx.pos.2.2 ++ '\t' ::
        (vx.norm.1 ++ ' ' :: (vx.norm.2.1 ++ ' ' :: (vx.norm.2.2 ++ '\t' :: (vx.u ++ ' ' :: (vx.v ++ ['\n']))))))))
        = joinSep [(headBone vx, '\t'), (vx.pos.1, ' '), (vx.pos.2.1, ' '), (vx.pos.2.2, '\t'), (vx.norm.1, ' '),
            (vx.norm.2.1, ' '), (vx.norm.2.2, '\t'), (vx.u, ' '), (vx.v, '\n')] := by
      simp [joinSep]
    rw [e, splitWs_joinSep]
    · simp
    · intro p hp
      simp only [List.mem_cons, List.not_mem_nil, or_false] at hp
      rcases hp with rfl | rfl | rfl | rfl | rfl | rfl | rfl | rfl | rfl <;> simp [*]

/-- **One vertex line**: read back as `normVertex`. -/
theorem parse_vertexLine (known : Str → Bool) (vx : Vertex) (h : VxOK known vx) :
    parseVertexLine known (vertexLine vx) = some (normVertex vx) := by
  unfold parseVertexLine
  rw [split_vertexLine vx h]
  have hk := (headBone_ok h).2
  obtain ⟨_, _, _, ⟨hne, hlt⟩, he⟩ := h
  unfold vertexFields normVertex
  by_cases hm : vx.links.length > 1
  · simp only [hm, if_true, List.cons_append, List.nil_append, parseVertexFields, hk, Bool.not_true,
      Bool.false_eq_true, if_false, parseNat_natText _ hlt, List.length_cons, linkFields_length,
      pairUp_linkFields]
    have hall : (vx.links.all fun l => known l.1) = true := by
      simp only [List.all_eq_true]; intro l hl; exact (he l hl).2.2
    have hemp : vx.links.isEmpty = false := by
      cases hl : vx.links with
      | nil => exact absurd hl hne
      | cons a r => rfl
    simp [hall, hemp]
    omega
  · simp [hm, parseVertexFields, hk]


/-! ## bone numbering -/

/-- every bone's parent is absent or named earlier (in `idx` or among the preceding bones) -/
def topoFrom (idx : List Str) : List Bone → Prop
  | [] => True
  | b :: bs => (match b.parent with | none => True | some p => p ∈ idx) ∧ topoFrom (idx ++ [b.name]) bs

instance : (idx : List Str) → (bs : List Bone) → Decidable (topoFrom idx bs)
  | _, [] => isTrue trivial
  | idx, b :: bs =>
    have := instDecidableTopoFrom (idx ++ [b.name]) bs
    by unfold topoFrom; cases b.parent <;> infer_instance

/-- one pass numbers an already ordered list completely, in list order -/
theorem pass_topo (idx : List Str) (bs : List Bone) (h : topoFrom idx bs) :
    pass idx bs = (idx ++ bs.map (·.name), []) := by
  induction bs generalizing idx with
  | nil => simp [pass]
  | cons b bs ih =>
    obtain ⟨hp, ht⟩ := h
    obtain ⟨name, parent⟩ := b
    cases parent with
    | none =>
      simp only [pass, if_true]
      rw [ih _ ht]; simp
    | some p =>
      have hc : idx.contains p = true := by simpa using hp
      simp only [pass, hc, if_true]
      rw [ih _ ht]; simp

theorem filter_ne_of_not_mem (bs : List Bone) (n : Str) (h : n ∉ bs.map (·.name)) :
    bs.filter (fun c => c.name != n) = bs := by
  induction bs with
  | nil => rfl
  | cons c cs ih =>
    have hc : c.name ≠ n := fun e => h (by simp [e])
    have := ih (fun e => h (by simp [List.mem_map] at e ⊢; exact Or.inr e))
    simp [List.filter_cons, hc, this]

theorem dedup_nodup (bs : List Bone) (h : (bs.map (·.name)).Nodup) : dedup bs = bs := by
  induction bs with
  | nil => rfl
  | cons b bs ih =>
    have h2 : b.name ∉ bs.map (·.name) ∧ (bs.map (·.name)).Nodup := List.nodup_cons.mp h
    simp only [dedup, ih h2.2, filter_ne_of_not_mem bs b.name h2.1]

/-- **Numbering of an ordered skeleton.** When names are distinct and every parent precedes its
children (as in a parsed file, whose bones come in index order), `Mesh.export` numbers the bones in
exactly that order: exporting a parsed mesh again reproduces the numbering. -/
theorem numberBones_ordered (bs : List Bone) (hn : (bs.map (·.name)).Nodup) (ht : topoFrom [] bs) :
    numberBones bs = some (bs.map (·.name)) := by
  unfold numberBones
  rw [dedup_nodup bs hn]
  cases bs with
  | nil => rfl
  | cons b r =>
    have hp := pass_topo [] (b :: r) ht
    simp only [List.length_cons, numberLoop, hp, List.length_nil]
    simp [numberLoop]

end C20.Smd
