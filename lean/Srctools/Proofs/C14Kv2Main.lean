import Srctools.Proofs.C14Kv2Resolve
/-! # C14 / KeyValues2: decidable table predicates ⇒ the facts the proofs use; packaged theorem. -/
namespace C14.Kv2
open C14 Tok List

/-! ## type-name table -/

theorem flatMap_id_of (cfold : Char → List Char) (s : Str) (h : ∀ c ∈ s, cfold c = [c]) :
    s.flatMap cfold = s := by
  induction s with
  | nil => rfl
  | cons c cs ih =>
    simp only [List.flatMap_cons, h c (List.mem_cons_self ..)]
    rw [ih (fun d hd => h d (List.mem_cons_of_mem _ hd))]; rfl

theorem mem_all_vt (t : VT) : t ∈ VT.all := by cases t <;> simp [VT.all]

theorem nameFacts (T : Tables) (hT : namesOK T = true) (cfold : Char → List Char)
    (hf : ∀ c ∈ nameChars T, cfold c = [c]) : NameFacts T (fun s => s.flatMap cfold) := by
  simp only [namesOK, Bool.and_eq_true, List.all_eq_true, Option.isNone_iff_eq_none, beq_iff_eq,
    bne_iff_ne, ne_eq] at hT
  obtain ⟨hall, hel⟩ := hT
  have hname : ∀ t, ∀ c ∈ typeName T t, cfold c = [c] := fun t c hc =>
    hf c (by simp only [nameChars, List.mem_append, List.mem_flatMap]; exact .inl (.inl (.inl ⟨t, mem_all_vt t, hc⟩)))
  have harr : ∀ c ∈ arrayLit, cfold c = [c] := fun c hc =>
    hf c (by simp only [nameChars, List.mem_append]; exact .inl (.inl (.inr hc)))
  refine ⟨fun t => flatMap_id_of cfold _ (hname t), fun t => flatMap_id_of cfold _ ?_,
    flatMap_id_of cfold _ ?_, flatMap_id_of cfold _ ?_, fun t => (hall t (mem_all_vt t)).1.1.1.1,
    fun t => (hall t (mem_all_vt t)).1.1.1.2, fun t => (hall t (mem_all_vt t)).1.1.2,
    fun t => ⟨(hall t (mem_all_vt t)).1.2, (hall t (mem_all_vt t)).2⟩, hel⟩
  · intro c hc
    rcases List.mem_append.mp hc with h | h
    · exact hname t c h
    · exact harr c h
  · intro c hc; exact hf c (by simp only [nameChars, List.mem_append]; exact .inl (.inr hc))
  · intro c hc; exact hf c (by simp only [nameChars, List.mem_append]; exact .inr hc)

/-! ## strings written without escaping -/

theorem escChar_plain (E : Tok.Tables) (h : E.escapes.all (fun p => !isHexDash p.2) = true) (c : Char)
    (hc : isHexDash c = true) : escChar E false c = [c] := by
  unfold escChar
  split
  · rfl
  · cases hi : E.invSym c with
    | none => rfl
    | some sym =>
      have hm := Tok.invSym_mem hi
      have := List.all_eq_true.mp h _ hm
      simp [hc] at this

theorem uuidOK_chars {u : Str} (h : uuidOK u = true) : ∀ c ∈ u, isHexDash c = true := by
  intro c hc
  simp only [uuidOK, Bool.and_eq_true, List.all_eq_true, List.mem_filter, bne_iff_ne, ne_eq] at h
  by_cases hd : c = '-'
  · subst hd; rfl
  · have := h.2 c ⟨hc, hd⟩
    simp only [isHexDash, Bool.or_eq_true] at this ⊢
    rcases this with (h1 | h1) | h1
    · exact .inl (.inl (.inr h1))
    · exact .inl (.inr h1)
    · exact .inr h1

theorem plainFacts (E : Tok.Tables) (T : Tables) (h : plainOK E T = true) : PlainFacts E T := by
  simp only [plainOK, Bool.and_eq_true, List.all_eq_true, beq_iff_eq] at h
  obtain ⟨⟨hl, hn⟩, hx⟩ := h
  refine ⟨hl _ (by simp), hl _ (by simp), hl _ (by simp), hl _ (by simp), hl _ (by simp),
    fun t => (hn t (mem_all_vt t)).1, fun t => (hn t (mem_all_vt t)).2, fun u hu => ?_⟩
  have hx' : E.escapes.all (fun p => !isHexDash p.2) = true := List.all_eq_true.mpr hx
  have hc := uuidOK_chars hu
  clear hu
  induction u with
  | nil => rfl
  | cons c cs ih =>
    simp only [escapeText, escChar_plain E hx' c (hc c (List.mem_cons_self ..))]
    rw [ih (fun d hd => hc d (List.mem_cons_of_mem _ hd))]; rfl

/-! ## the flat layout: every element is a root -/

theorem isRoot_flat (g : TGraph) (i : Nat) : isRoot g true i = true := by simp [isRoot]

theorem kidsOfVals_flat (g : TGraph) (vals : List TVal) : kidsOfVals g true vals = [] := by
  induction vals with
  | nil => rfl
  | cons v vs ih =>
    cases v with
    | text s => simpa [kidsOfVals] using ih
    | ref r => cases r <;> simpa [kidsOfVals, isRoot_flat] using ih

theorem inlineKids_flat (g : TGraph) (e : TElem) : inlineKids g true e = [] := by
  rw [inlineKids_eq]
  simp [kidsOfAttrs, kidsOfVals_flat]

theorem nestOK_flat (g : TGraph) (fuel i : Nat) (hi : i < g.elems.length) :
    nestOK g true (fuel + 1) i = true := by
  simp [nestOK, List.getElem?_eq_getElem hi, inlineKids_flat]

theorem roots_flat (g : TGraph) : roots g true = List.range g.elems.length := by
  simp [roots, isRoot_flat]

theorem order_flat (g : TGraph) : order g true = List.range g.elems.length := by
  unfold order
  rw [roots_flat]
  have h1 : ∀ i, i < g.elems.length → orderOf g true (g.elems.length + 1) i = [i] := by
    intro i hi
    simp [orderOf, List.getElem?_eq_getElem hi, inlineKids_flat]
  have : ∀ (l : List Nat), (∀ i ∈ l, i < g.elems.length) →
      l.flatMap (orderOf g true (g.elems.length + 1)) = l := by
    intro l
    induction l with
    | nil => intro _; rfl
    | cons i is ih =>
      intro h
      rw [List.flatMap_cons, h1 i (h i (List.mem_cons_self ..)),
        ih (fun j hj => h j (List.mem_cons_of_mem _ hj))]
      rfl
  exact this _ (fun i hi => List.mem_range.mp hi)

theorem order_head (g : TGraph) (flat : Bool) (hne : g.elems ≠ [])
    (hn : ∀ i ∈ roots g flat, nestOK g flat (g.elems.length + 1) i = true) :
    (order g flat).head? = some 0 := by
  have hpos : 0 < g.elems.length := List.length_pos_iff.mpr hne
  have hr : ∃ t, roots g flat = 0 :: t := by
    unfold roots
    obtain ⟨m, hm⟩ : ∃ m, g.elems.length = m + 1 := ⟨g.elems.length - 1, by omega⟩
    rw [hm, List.range_succ_eq_map]
    have h0 : isRoot g flat 0 = true := by simp [isRoot]
    exact ⟨_, by rw [List.filter_cons, if_pos h0]⟩
  obtain ⟨t, ht⟩ := hr
  have h0 : 0 ∈ roots g flat := by rw [ht]; exact List.mem_cons_self ..
  obtain ⟨t', ht'⟩ := orderOf_cons g flat _ 0 (hn 0 h0)
  simp [order, ht, ht']

end C14.Kv2
