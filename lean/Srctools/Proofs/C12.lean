import Srctools.Model.C12
/-!
# C12 — lemmas about the AtomicWriter model

1. the directory as a finite map (`get_put`, `get_del`);
2. `replay` of script prefixes;
3. the *global* single-writer invariant `InvS` (the directory described exactly, relative to the
   initial one) and its preservation by `step`;
4. the *local* invariant `Good` (what one writer needs of the directory), its preservation by the
   writer's own step, its stability under changes of other names, and the frame (`step_frame`):
   a step changes only the destination, the temp file it owns, or a temp name that did not exist.
   Two writers are then composed rely/guarantee style (`inv2_step`).
-/
namespace C12

/-! ## directory as a finite map -/

theorem get_del (fs : FS) (x y : Name) : get (del fs x) y = if x = y then none else get fs y := by
  induction fs with
  | nil => simp [del, get]
  | cons p r ih =>
    obtain ⟨z, b⟩ := p
    by_cases hzx : z = x
    · subst hzx
      simp only [del, if_true, ih, get]
      by_cases hxy : z = y <;> simp [hxy]
    · simp only [del, hzx, if_false, get, ih]
      by_cases hzy : z = y
      · subst hzy
        have : ¬ x = z := fun h => hzx h.symm
        simp [this]
      · simp [hzy]

theorem get_put (fs : FS) (x : Name) (b : Bytes) (y : Name) :
    get (put fs x b) y = if x = y then some b else get fs y := by
  simp only [put, get, get_del]
  by_cases h : x = y <;> simp [h]

theorem get_put_self (fs : FS) (x : Name) (b : Bytes) : get (put fs x b) x = some b := by
  simp [get_put]

theorem get_put_ne (fs : FS) {x y : Name} (b : Bytes) (h : x ≠ y) : get (put fs x b) y = get fs y := by
  simp [get_put, h]

theorem get_del_self (fs : FS) (x : Name) : get (del fs x) x = none := by simp [get_del]

theorem get_del_ne (fs : FS) {x y : Name} (h : x ≠ y) : get (del fs x) y = get fs y := by
  simp [get_del, h]

theorem tmp_ne_of_not_isTmp {d : Name} (h : d.isTmp = false) (n : Nat) : Name.tmp n ≠ d := by
  intro e; subst e; simp [Name.isTmp] at h

/-! ## script prefixes -/

theorem replay_take_succ (script : List BOp) (k : Nat) (op : BOp) (h : script[k]? = some op) :
    replay (script.take (k + 1)) = applyOp op (replay (script.take k)) := by
  have hk : k < script.length := by
    rcases Nat.lt_or_ge k script.length with h' | h'
    · exact h'
    · rw [List.getElem?_eq_none h'] at h; cases h
  have : script.take (k + 1) = script.take k ++ [op] := by
    rw [List.take_add_one, h]; rfl
  simp [replay, this, List.foldl_append]

theorem replay_take_all (script : List BOp) (k : Nat) (h : script.length ≤ k) :
    replay (script.take k) = replay script := by
  rw [List.take_of_length_le h]

theorem getElem?_lt {α} {l : List α} {k : Nat} {a : α} (h : l[k]? = some a) : k < l.length := by
  rcases Nat.lt_or_ge k l.length with h' | h'
  · exact h'
  · rw [List.getElem?_eq_none h'] at h; cases h

/-! ## local invariant of one writer -/

/-- What one writer needs of the directory. `old` is the destination's state when it started. -/
def Good (cfg : Cfg) (old : Option Bytes) (fs : FS) : PC → Prop
  | .mkdir => get fs cfg.dest = old
  | .create _ => get fs cfg.dest = old
  | .body n k pos =>
      get fs cfg.dest = old ∧ k < cfg.script.length ∧
      get fs (.tmp n) = some (replay (cfg.script.take k)).1 ∧ pos = (replay (cfg.script.take k)).2
  | .close n none => get fs cfg.dest = old ∧ get fs (.tmp n) = some (finalContent cfg.script)
  | .close n (some o) => get fs cfg.dest = old ∧ (get fs (.tmp n)).isSome = true ∧ o ≠ .ok
  | .replace n => get fs cfg.dest = old ∧ get fs (.tmp n) = some (finalContent cfg.script)
  | .unlink n o _ => get fs cfg.dest = old ∧ (get fs (.tmp n)).isSome = true ∧ o ≠ .ok
  | .done .ok => get fs cfg.dest = some (finalContent cfg.script)
  | .done .raisedBody => get fs cfg.dest = old
  | .done .raisedOS => get fs cfg.dest = old

theorem good_owns_isSome {cfg : Cfg} {old : Option Bytes} {fs : FS} {pc : PC} {n : Nat}
    (h : Good cfg old fs pc) (ho : pc.owns = some n) : (get fs (.tmp n)).isSome = true := by
  cases pc with
  | mkdir => simp [PC.owns] at ho
  | create m => simp [PC.owns] at ho
  | done o => simp [PC.owns] at ho
  | body m k pos => simp [PC.owns] at ho; subst ho; simp [Good] at h; simp [h.2.2.1]
  | close m e =>
    simp [PC.owns] at ho; subst ho
    cases e with
    | none => simp [Good] at h; simp [h.2]
    | some o => simp [Good] at h; exact h.2.1
  | replace m => simp [PC.owns] at ho; subst ho; simp [Good] at h; simp [h.2]
  | unlink m o sw => simp [PC.owns] at ho; subst ho; simp [Good] at h; exact h.2.1

theorem good_afterOp (cfg : Cfg) (old : Option Bytes) (fs : FS) (n k pos : Nat)
    (hd : get fs cfg.dest = old)
    (hc : get fs (.tmp n) = some (replay (cfg.script.take k)).1)
    (hp : pos = (replay (cfg.script.take k)).2) :
    Good cfg old fs (afterOp cfg n k pos) := by
  unfold afterOp
  split
  · simp [Good, hd, hc]
  · split
    · rename_i h2; simp [Good, hd, hc, hp, h2]
    · rename_i h2
      have : cfg.script.length ≤ k := Nat.le_of_not_lt h2
      rw [replay_take_all _ _ this] at hc
      simp [Good, hd, hc, finalContent]

/-- **Own step.** A writer's step preserves its local invariant. -/
theorem good_step (cfg : Cfg) (old : Option Bytes) (hd : cfg.dest.isTmp = false) (f : Fault) (fs : FS)
    (pc : PC) (h : Good cfg old fs pc) :
    Good cfg old (step cfg f fs pc).1 (step cfg f fs pc).2.1 := by
  have hne : ∀ n, Name.tmp n ≠ cfg.dest := tmp_ne_of_not_isTmp hd
  cases pc with
  | mkdir => simpa [step, Good] using h
  | done o => simpa [step] using h
  | create n =>
    simp only [Good] at h
    cases f with
    | eexist => simp [step, Good, h]
    | enoent => simp [step, Good, h]
    | eio => simp [step, Good, h]
    | none =>
      simp only [step]
      split
      · simp [Good, h]
      · apply good_afterOp
        · rw [get_put_ne _ _ (hne n)]; exact h
        · simp [get_put_self, replay]
        · simp [replay]
  | body n k pos =>
    obtain ⟨h1, h2, h3, h4⟩ := h
    simp only [step]
    cases hop : cfg.script[k]? with
    | none => rw [List.getElem?_eq_none_iff] at hop; omega
    | some op =>
      have hr := replay_take_succ _ _ _ hop
      cases op with
      | write d =>
        simp only
        split
        · apply good_afterOp
          · rw [get_put_ne _ _ (hne n)]; exact h1
          · rw [get_put_self, hr, h3, h4]; simp [applyOp]
          · rw [hr, h4]; simp [applyOp]
        · rename_i hf
          simp [Good, h1, h3]
      | seek p =>
        simp only
        split
        · apply good_afterOp
          · exact h1
          · rw [hr, h3]; simp [applyOp]
          · rw [hr]; simp [applyOp]
        · simp [Good, h1, h3]
  | close n e =>
    simp only [step]
    split
    · cases e with
      | none => simpa [Good] using h
      | some o => simpa [Good] using h
    · have hs : (get fs (.tmp n)).isSome = true := good_owns_isSome h rfl
      have hdest : get fs cfg.dest = old := by
        cases e with
        | none => exact h.1
        | some o => exact h.1
      split <;> simp [Good, hs, hdest]
  | replace n =>
    obtain ⟨h1, h2⟩ := h
    simp only [step]
    split
    · simp only [h2]
      simp [Good, get_put_self]
    · split <;> simp [Good, h1, h2]
  | unlink n o sw =>
    obtain ⟨h1, h2, h3⟩ := h
    simp only [step]
    split
    · cases hg : get fs (.tmp n) with
      | none => simp [hg] at h2
      | some c =>
        simp only
        cases o with
        | ok => exact absurd rfl h3
        | raisedBody => simp [Good, get_del_ne _ (hne n), h1]
        | raisedOS => simp [Good, get_del_ne _ (hne n), h1]
    · split
      · cases o with
        | ok => exact absurd rfl h3
        | raisedBody => simp [Good, h1]
        | raisedOS => simp [Good, h1]
      · simp [Good, h1]

/-- **Stability.** The local invariant only depends on the destination and the owned temp file. -/
theorem good_stable (cfg : Cfg) (old : Option Bytes) (fs fs' : FS) (pc : PC) (h : Good cfg old fs pc)
    (hd : get fs' cfg.dest = get fs cfg.dest)
    (ht : ∀ n, pc.owns = some n → get fs' (.tmp n) = get fs (.tmp n)) : Good cfg old fs' pc := by
  cases pc with
  | mkdir => simpa [Good, hd] using h
  | create n => simpa [Good, hd] using h
  | done o => cases o <;> simpa [Good, hd] using h
  | body n k pos => have := ht n rfl; simpa [Good, hd, this] using h
  | close n e => have := ht n rfl; cases e <;> simpa [Good, hd, this] using h
  | replace n => have := ht n rfl; simpa [Good, hd, this] using h
  | unlink n o sw => have := ht n rfl; simpa [Good, hd, this] using h

theorem afterOp_owns (cfg : Cfg) (n k pos : Nat) : (afterOp cfg n k pos).owns = some n := by
  unfold afterOp; split
  · rfl
  · split <;> rfl

/-- **Frame (guarantee).** A step changes only the destination, the temp file the writer owns, or
a temp name that did not exist (exclusive create). -/
theorem step_frame (cfg : Cfg) (hx : cfg.impl.exclusive = true) (f : Fault) (fs : FS) (pc : PC) (x : Name) :
    get (step cfg f fs pc).1 x = get fs x ∨ x = cfg.dest ∨
      (∃ n, x = .tmp n ∧ (pc.owns = some n ∨ (pc = .create n ∧ get fs x = none))) := by
  cases pc with
  | mkdir => simp [step]
  | done o => simp [step]
  | create n =>
    cases f with
    | eexist => simp [step]
    | enoent => simp [step]
    | eio => simp [step]
    | none =>
      simp only [step, hx, Bool.true_and]
      split
      · simp
      · rename_i hnone
        by_cases hxn : Name.tmp n = x
        · subst hxn
          right; right
          refine ⟨n, rfl, Or.inr ⟨rfl, ?_⟩⟩
          simpa using hnone
        · left; exact get_put_ne _ _ hxn
  | body n k pos =>
    simp only [step]
    cases hop : cfg.script[k]? with
    | none => simp
    | some op =>
      cases op with
      | write d =>
        simp only
        split
        · by_cases hxn : Name.tmp n = x
          · subst hxn; right; right; exact ⟨n, rfl, Or.inl rfl⟩
          · left; exact get_put_ne _ _ hxn
        · simp
      | seek p => simp only; split <;> simp
  | close n e =>
    simp only [step]
    split
    · cases e <;> simp
    · split <;> simp
  | replace n =>
    simp only [step]
    split
    · cases hg : get fs (.tmp n) with
      | none => simp
      | some c =>
        simp only
        by_cases hxd : cfg.dest = x
        · right; left; exact hxd.symm
        · by_cases hxn : Name.tmp n = x
          · subst hxn; right; right; exact ⟨n, rfl, Or.inl rfl⟩
          · left; rw [get_put_ne _ _ hxd, get_del_ne _ hxn]
    · split <;> simp
  | unlink n o sw =>
    simp only [step]
    split
    · cases hg : get fs (.tmp n) with
      | none => simp
      | some c =>
        simp only
        by_cases hxn : Name.tmp n = x
        · subst hxn; right; right; exact ⟨n, rfl, Or.inl rfl⟩
        · left; exact get_del_ne _ hxn
    · split <;> simp

/-- **Only the rename touches the destination.** -/
theorem step_dest (cfg : Cfg) (hd : cfg.dest.isTmp = false) (f : Fault) (fs : FS) (pc : PC)
    (h : get (step cfg f fs pc).1 cfg.dest ≠ get fs cfg.dest) : ∃ n, pc = .replace n ∧ f = .none := by
  have hne : ∀ n, Name.tmp n ≠ cfg.dest := tmp_ne_of_not_isTmp hd
  cases pc with
  | mkdir => simp [step] at h
  | done o => simp [step] at h
  | create n =>
    cases f with
    | eexist => simp [step] at h
    | enoent => simp [step] at h
    | eio => simp [step] at h
    | none =>
      simp only [step] at h
      split at h
      · simp at h
      · exact absurd (get_put_ne _ _ (hne n)) h
  | body n k pos =>
    simp only [step] at h
    cases hop : cfg.script[k]? with
    | none => simp [hop] at h
    | some op =>
      rw [hop] at h
      cases op with
      | write d =>
        simp only at h
        split at h
        · exact absurd (get_put_ne _ _ (hne n)) h
        · simp at h
      | seek p => simp only at h; split at h <;> simp at h
  | close n e =>
    simp only [step] at h
    split at h
    · cases e <;> simp at h
    · split at h <;> simp at h
  | replace n =>
    refine ⟨n, rfl, ?_⟩
    simp only [step] at h
    split at h
    · assumption
    · split at h <;> simp at h
  | unlink n o sw =>
    simp only [step] at h
    split at h
    · cases hg : get fs (.tmp n) with
      | none => simp [hg] at h
      | some c => rw [hg] at h; exact absurd (get_del_ne _ (hne n)) h
    · split at h <;> simp at h

/-- A writer acquires a temp file only by creating a name that did not exist. -/
theorem step_owns (cfg : Cfg) (hx : cfg.impl.exclusive = true) (f : Fault) (fs : FS) (pc : PC) (n : Nat)
    (h : (step cfg f fs pc).2.1.owns = some n) :
    pc.owns = some n ∨ (pc = .create n ∧ get fs (.tmp n) = none) := by
  cases pc with
  | mkdir => simp [step, PC.owns] at h
  | done o => simp [step, PC.owns] at h
  | create m =>
    cases f with
    | eexist => simp [step, PC.owns] at h
    | enoent => simp [step, PC.owns] at h
    | eio => simp [step, PC.owns] at h
    | none =>
      simp only [step, hx, Bool.true_and] at h
      split at h
      · simp [PC.owns] at h
      · rename_i hnone
        rw [afterOp_owns] at h
        injection h with h; subst h
        right; exact ⟨rfl, by simpa using hnone⟩
  | body m k pos =>
    left
    simp only [step] at h
    cases hop : cfg.script[k]? with
    | none => rw [hop] at h; simpa [PC.owns] using h
    | some op =>
      rw [hop] at h
      cases op with
      | write d =>
        simp only at h
        split at h
        · rw [afterOp_owns] at h; simpa [PC.owns] using h
        · simpa [PC.owns] using h
      | seek p =>
        simp only at h
        split at h
        · rw [afterOp_owns] at h; simpa [PC.owns] using h
        · simpa [PC.owns] using h
  | close m e =>
    left
    simp only [step] at h
    split at h
    · cases e <;> simpa [PC.owns] using h
    · split at h <;> simp [PC.owns] at h ⊢ <;> exact h
  | replace m =>
    left
    simp only [step] at h
    split at h
    · cases hg : get fs (.tmp m) with
      | none => rw [hg] at h; simp only at h; split at h <;> simp [PC.owns] at h ⊢ <;> exact h
      | some c => rw [hg] at h; simp [PC.owns] at h
    · split at h <;> simp [PC.owns] at h ⊢ <;> exact h
  | unlink m o sw =>
    simp only [step] at h
    split at h
    · cases hg : get fs (.tmp m) with
      | none => rw [hg] at h; simp [PC.owns] at h
      | some c => rw [hg] at h; simp [PC.owns] at h
    · split at h <;> simp [PC.owns] at h

/-- The temp file index an operation acts on. -/
def Op.target : Op → Option Nat
  | .mkdir => none
  | .create n => some n
  | .write n _ => some n
  | .seek n _ => some n
  | .close n => some n
  | .replace n => some n
  | .unlink n => some n

/-- Every operation acts on the temp file the writer owns, except a `create` probe, which succeeds
only on a name that did not exist. -/
theorem step_event (cfg : Cfg) (hx : cfg.impl.exclusive = true) (f : Fault) (fs : FS) (pc : PC) (e : Event)
    (h : (step cfg f fs pc).2.2 = some e) (n : Nat) (ht : e.op.target = some n) :
    pc.owns = some n ∨ (pc = .create n ∧ e.op = .create n ∧ (e.res = .ok → get fs (.tmp n) = none)) := by
  cases pc with
  | mkdir => simp [step] at h; subst h; simp [Op.target] at ht
  | done o => simp [step] at h
  | create m =>
    right
    cases f with
    | eexist => simp [step] at h; subst h; simp [Op.target] at ht; subst ht; simp
    | enoent => simp [step] at h; subst h; simp [Op.target] at ht; subst ht; simp
    | eio => simp [step] at h; subst h; simp [Op.target] at ht; subst ht; simp
    | none =>
      simp only [step, hx, Bool.true_and] at h
      split at h
      · simp at h; subst h; simp [Op.target] at ht; subst ht; simp
      · rename_i hnone
        simp at h; subst h; simp [Op.target] at ht; subst ht
        simpa using hnone
  | body m k pos =>
    left
    simp only [step] at h
    cases hop : cfg.script[k]? with
    | none => rw [hop] at h; simp at h
    | some op =>
      rw [hop] at h
      cases op with
      | write d =>
        simp only at h
        split at h <;> (simp at h; subst h; simpa [Op.target, PC.owns] using ht)
      | seek p =>
        simp only at h
        split at h <;> (simp at h; subst h; simpa [Op.target, PC.owns] using ht)
  | close m ex =>
    left
    simp only [step] at h
    split at h
    · cases ex <;> (simp at h; subst h; simpa [Op.target, PC.owns] using ht)
    · split at h <;> (simp at h; subst h; simpa [Op.target, PC.owns] using ht)
  | replace m =>
    left
    simp only [step] at h
    split at h
    · cases hg : get fs (.tmp m) with
      | none => rw [hg] at h; simp at h; subst h; simpa [Op.target, PC.owns] using ht
      | some c => rw [hg] at h; simp at h; subst h; simpa [Op.target, PC.owns] using ht
    · split at h <;> (simp at h; subst h; simpa [Op.target, PC.owns] using ht)
  | unlink m o sw =>
    left
    simp only [step] at h
    split at h
    · cases hg : get fs (.tmp m) with
      | none => rw [hg] at h; simp at h; subst h; simpa [Op.target, PC.owns] using ht
      | some c => rw [hg] at h; simp at h; subst h; simpa [Op.target, PC.owns] using ht
    · split at h <;> (simp at h; subst h; simpa [Op.target, PC.owns] using ht)

/-! ## rely/guarantee composition -/

/-- Writer `a` performs a step while writer `b` stands still: both local invariants, the
disjointness of the owned temp files and the bystanders are preserved. -/
theorem rg_step (ca cb : Cfg) (olda oldb : Option Bytes) (hxa : ca.impl.exclusive = true)
    (hda : ca.dest.isTmp = false) (hdb : cb.dest.isTmp = false) (hne : ca.dest ≠ cb.dest)
    (f : Fault) (fs : FS) (pca pcb : PC) (ga : Good ca olda fs pca) (gb : Good cb oldb fs pcb)
    (disj : ∀ n1 n2, pca.owns = some n1 → pcb.owns = some n2 → n1 ≠ n2) :
    Good ca olda (step ca f fs pca).1 (step ca f fs pca).2.1 ∧
    Good cb oldb (step ca f fs pca).1 pcb ∧
    (∀ n1 n2, (step ca f fs pca).2.1.owns = some n1 → pcb.owns = some n2 → n1 ≠ n2) ∧
    (∀ x : Name, x.isTmp = false → x ≠ ca.dest → get (step ca f fs pca).1 x = get fs x) := by
  refine ⟨good_step ca olda hda f fs pca ga, ?_, ?_, ?_⟩
  · apply good_stable cb oldb fs _ pcb gb
    · rcases step_frame ca hxa f fs pca cb.dest with h | h | ⟨n, h, _⟩
      · exact h
      · exact absurd h.symm hne
      · exact absurd h.symm (tmp_ne_of_not_isTmp hdb n)
    · intro n2 ho
      rcases step_frame ca hxa f fs pca (.tmp n2) with h | h | ⟨n, h, h' | ⟨_, h'⟩⟩
      · exact h
      · exact absurd h (tmp_ne_of_not_isTmp hda n2)
      · injection h with h; subst h; exact absurd rfl (disj _ _ h' ho)
      · have := good_owns_isSome gb ho
        rw [h'] at this; simp at this
  · intro n1 n2 h1 h2
    rcases step_owns ca hxa f fs pca n1 h1 with h | ⟨_, h⟩
    · exact disj _ _ h h2
    · intro e; subst e
      have := good_owns_isSome gb h2
      rw [h] at this; simp at this
  · intro x hx hxd
    rcases step_frame ca hxa f fs pca x with h | h | ⟨n, h, _⟩
    · exact h
    · exact absurd h hxd
    · subst h; simp [Name.isTmp] at hx

/-! ## two writers: the invariant of the composed system -/

structure TwoOK (c1 c2 : Cfg) : Prop where
  x1 : c1.impl.exclusive = true
  x2 : c2.impl.exclusive = true
  d1 : c1.dest.isTmp = false
  d2 : c2.dest.isTmp = false
  ne : c1.dest ≠ c2.dest

structure Inv2 (c1 c2 : Cfg) (fs0 : FS) (s : Sys) : Prop where
  g1 : Good c1 (get fs0 c1.dest) s.fs s.pc1
  g2 : Good c2 (get fs0 c2.dest) s.fs s.pc2
  disj : ∀ n1 n2, s.pc1.owns = some n1 → s.pc2.owns = some n2 → n1 ≠ n2
  frame : ∀ x : Name, x.isTmp = false → x ≠ c1.dest → x ≠ c2.dest → get s.fs x = get fs0 x

theorem inv2_init (c1 c2 : Cfg) (fs0 : FS) : Inv2 c1 c2 fs0 (Sys.init fs0) :=
  ⟨rfl, rfl, by intro n1 n2 h; simp [Sys.init, PC.owns] at h, fun _ _ _ _ => rfl⟩

theorem inv2_step {c1 c2 : Cfg} (ok : TwoOK c1 c2) {fs0 : FS} (who : Bool) (f : Fault) {s : Sys}
    (h : Inv2 c1 c2 fs0 s) : Inv2 c1 c2 fs0 (step2 c1 c2 who f s) := by
  cases who with
  | false =>
    obtain ⟨a, b, c, d⟩ := rg_step c1 c2 _ _ ok.x1 ok.d1 ok.d2 ok.ne f s.fs s.pc1 s.pc2 h.g1 h.g2 h.disj
    exact ⟨a, b, c, fun x hx h1 h2 => (d x hx h1).trans (h.frame x hx h1 h2)⟩
  | true =>
    obtain ⟨a, b, c, d⟩ := rg_step c2 c1 _ _ ok.x2 ok.d2 ok.d1 (fun e => ok.ne e.symm) f s.fs s.pc2 s.pc1
      h.g2 h.g1 (fun n1 n2 h1 h2 e => h.disj n2 n1 h2 h1 e.symm)
    exact ⟨b, a, fun n1 n2 h1 h2 e => c n2 n1 h2 h1 e.symm,
      fun x hx h1 h2 => (d x hx h2).trans (h.frame x hx h1 h2)⟩

theorem inv2_run {c1 c2 : Cfg} (ok : TwoOK c1 c2) {fs0 : FS} (sched : List (Bool × Fault)) :
    ∀ {s : Sys}, Inv2 c1 c2 fs0 s → Inv2 c1 c2 fs0 (run2 c1 c2 sched s) := by
  induction sched with
  | nil => intro s h; exact h
  | cons p rest ih => intro s h; obtain ⟨w, f⟩ := p; exact ih (inv2_step ok w f h)

/-- A step of one writer never acts on the temp file the other one holds, except by probing its
name with an exclusive create that fails. -/
theorem step2_event {c1 c2 : Cfg} (ok : TwoOK c1 c2) {fs0 : FS} {s : Sys} (h : Inv2 c1 c2 fs0 s)
    (who : Bool) (f : Fault) (e : Event)
    (he : (step2 c1 c2 who f s).trace = (who, e) :: s.trace) (n : Nat) (ht : e.op.target = some n)
    (hown : (if who then s.pc1 else s.pc2).owns = some n) :
    e.op = .create n ∧ e.res ≠ .ok := by
  cases who with
  | false =>
    simp only [step2, Bool.false_eq_true, if_false] at he hown
    have hev : (step c1 f s.fs s.pc1).2.2 = some e := by
      cases hr : (step c1 f s.fs s.pc1).2.2 with
      | none => rw [hr] at he; exact absurd he.symm (List.cons_ne_self _ _)
      | some e' => rw [hr] at he; simp at he; rw [he]
    rcases step_event c1 ok.x1 f s.fs s.pc1 e hev n ht with h1 | ⟨_, h2, h3⟩
    · exact absurd rfl (h.disj _ _ h1 hown)
    · refine ⟨h2, fun hok => ?_⟩
      have := good_owns_isSome h.g2 hown
      rw [h3 hok] at this; simp at this
  | true =>
    simp only [step2, if_true] at he hown
    have hev : (step c2 f s.fs s.pc2).2.2 = some e := by
      cases hr : (step c2 f s.fs s.pc2).2.2 with
      | none => rw [hr] at he; exact absurd he.symm (List.cons_ne_self _ _)
      | some e' => rw [hr] at he; simp at he; rw [he]
    rcases step_event c2 ok.x2 f s.fs s.pc2 e hev n ht with h1 | ⟨_, h2, h3⟩
    · exact absurd rfl (h.disj _ _ hown h1)
    · refine ⟨h2, fun hok => ?_⟩
      have := good_owns_isSome h.g1 hown
      rw [h3 hok] at this; simp at this

/-! ## single writer: the directory described exactly -/

def Same (fs fs0 : FS) : Prop := ∀ x, get fs x = get fs0 x
def SameBut (fs fs0 : FS) (y : Name) : Prop := ∀ x, x ≠ y → get fs x = get fs0 x

/-- Operation `p` was attempted and raised. -/
def FailedAt (tr : List Event) (p : Op) : Prop := ∃ e ∈ tr, e.op = p ∧ e.res ≠ .ok

/-- Why `tmp_n` may remain: its unlink raised, or the code has no guard on the failing close/replace. -/
def Leak (impl : Impl) (tr : List Event) (n : Nat) : Prop :=
  FailedAt tr (.unlink n) ∨ (impl.closeGuard = false ∧ FailedAt tr (.close n)) ∨
    (impl.replaceGuard = false ∧ FailedAt tr (.replace n))

theorem FailedAt.mono {tr : List Event} {p : Op} (e : Event) (h : FailedAt tr p) : FailedAt (e :: tr) p := by
  obtain ⟨x, hx, h⟩ := h; exact ⟨x, List.mem_cons_of_mem _ hx, h⟩

theorem FailedAt.head (tr : List Event) (p : Op) (r : Res) (h : r ≠ .ok) : FailedAt (⟨p, r⟩ :: tr) p :=
  ⟨⟨p, r⟩, List.mem_cons_self, rfl, h⟩

theorem Fault.res_ne_ok {f : Fault} (h : f ≠ .none) : f.res ≠ .ok := by
  cases f <;> simp [Fault.res] at h ⊢

/-- Global invariant of a single writer started in directory `fs0`. -/
def InvS (cfg : Cfg) (fs0 : FS) (s : St) : Prop :=
  match s.pc with
  | .mkdir => Same s.fs fs0
  | .create _ => Same s.fs fs0
  | .body n k pos =>
      get fs0 (.tmp n) = none ∧ SameBut s.fs fs0 (.tmp n) ∧ k < cfg.script.length ∧
      get s.fs (.tmp n) = some (replay (cfg.script.take k)).1 ∧ pos = (replay (cfg.script.take k)).2
  | .close n none =>
      get fs0 (.tmp n) = none ∧ SameBut s.fs fs0 (.tmp n) ∧ get s.fs (.tmp n) = some (finalContent cfg.script)
  | .close n (some o) =>
      get fs0 (.tmp n) = none ∧ SameBut s.fs fs0 (.tmp n) ∧ (get s.fs (.tmp n)).isSome = true ∧ o ≠ .ok
  | .replace n =>
      get fs0 (.tmp n) = none ∧ SameBut s.fs fs0 (.tmp n) ∧ get s.fs (.tmp n) = some (finalContent cfg.script)
  | .unlink n o _ =>
      get fs0 (.tmp n) = none ∧ SameBut s.fs fs0 (.tmp n) ∧ (get s.fs (.tmp n)).isSome = true ∧ o ≠ .ok
  | .done .ok => get s.fs cfg.dest = some (finalContent cfg.script) ∧ SameBut s.fs fs0 cfg.dest
  | .done _ =>
      Same s.fs fs0 ∨ ∃ n, get fs0 (.tmp n) = none ∧ SameBut s.fs fs0 (.tmp n) ∧
        (get s.fs (.tmp n)).isSome = true ∧ Leak cfg.impl s.trace n

theorem invS_afterOp (cfg : Cfg) (fs0 fs : FS) (tr : List Event) (n k pos : Nat)
    (h0 : get fs0 (.tmp n) = none) (hs : SameBut fs fs0 (.tmp n))
    (hc : get fs (.tmp n) = some (replay (cfg.script.take k)).1)
    (hp : pos = (replay (cfg.script.take k)).2) :
    InvS cfg fs0 ⟨fs, afterOp cfg n k pos, tr⟩ := by
  unfold afterOp
  split
  · simp [InvS, h0, hs, hc]
  · split
    · rename_i h2; simp [InvS, h0, hs, hc, hp, h2]
    · rename_i h2
      have : cfg.script.length ≤ k := Nat.le_of_not_lt h2
      rw [replay_take_all _ _ this] at hc
      simp [InvS, h0, hs, hc, finalContent]

theorem sameBut_put {fs fs0 : FS} {y : Name} (b : Bytes) (h : SameBut fs fs0 y) : SameBut (put fs y b) fs0 y :=
  fun x hx => (get_put_ne _ _ (Ne.symm hx)).trans (h x hx)

theorem same_sameBut {fs fs0 : FS} (y : Name) (h : Same fs fs0) : SameBut fs fs0 y := fun x _ => h x

theorem invS_step (cfg : Cfg) (hx : cfg.impl.exclusive = true) (hd : cfg.dest.isTmp = false) (fs0 : FS)
    (f : Fault) (s : St) (h : InvS cfg fs0 s) : InvS cfg fs0 (stepSt cfg f s) := by
  have hne : ∀ n, Name.tmp n ≠ cfg.dest := tmp_ne_of_not_isTmp hd
  obtain ⟨fs, pc, tr⟩ := s
  cases pc with
  | mkdir => simpa [stepSt, step, InvS] using h
  | done o => simpa [stepSt, step, InvS] using h
  | create n =>
    simp only [InvS] at h
    cases f with
    | eexist => simpa [stepSt, step, InvS] using h
    | enoent => simp [stepSt, step, InvS]; exact Or.inl h
    | eio => simp [stepSt, step, InvS]; exact Or.inl h
    | none =>
      simp only [stepSt, step, hx, Bool.true_and]
      split
      · simpa [InvS] using h
      · rename_i hnone
        have hn : get fs (.tmp n) = none := by simpa using hnone
        apply invS_afterOp
        · rw [← h]; exact hn
        · exact sameBut_put _ (same_sameBut _ h)
        · simp [get_put_self, replay]
        · simp [replay]
  | body n k pos =>
    obtain ⟨h0, hs, h2, h3, h4⟩ := h
    simp only [stepSt, step]
    cases hop : cfg.script[k]? with
    | none => rw [List.getElem?_eq_none_iff] at hop; omega
    | some op =>
      have hr := replay_take_succ _ _ _ hop
      cases op with
      | write d =>
        simp only
        split
        · apply invS_afterOp
          · exact h0
          · exact sameBut_put _ hs
          · rw [get_put_self, hr, h3, h4]; simp [applyOp]
          · rw [hr, h4]; simp [applyOp]
        · simp [InvS, h0, hs, h3]
      | seek p =>
        simp only
        split
        · apply invS_afterOp
          · exact h0
          · exact hs
          · rw [hr, h3]; simp [applyOp]
          · rw [hr]; simp [applyOp]
        · simp [InvS, h0, hs, h3]
  | close n e =>
    have hcommon : get fs0 (.tmp n) = none ∧ SameBut fs fs0 (.tmp n) ∧ (get fs (.tmp n)).isSome = true := by
      cases e with
      | none => simp only [InvS] at h; simp [h.1, h.2.1, h.2.2]
      | some o => simp only [InvS] at h; exact ⟨h.1, h.2.1, h.2.2.1⟩
    simp only [stepSt, step]
    split
    · cases e with
      | none => simpa [InvS] using h
      | some o => simpa [InvS] using h
    · rename_i hf
      split
      · simp [InvS, hcommon]
      · rename_i hg
        simp only [InvS]
        right
        refine ⟨n, hcommon.1, hcommon.2.1, hcommon.2.2, Or.inr (Or.inl ⟨by simpa using hg, ?_⟩)⟩
        exact FailedAt.head _ _ _ (Fault.res_ne_ok hf)
  | replace n =>
    obtain ⟨h0, hs, h2⟩ := h
    simp only [stepSt, step]
    split
    · simp only [h2]
      simp only [InvS]
      refine ⟨get_put_self _ _ _, fun x hxd => ?_⟩
      rw [get_put_ne _ _ (Ne.symm hxd)]
      by_cases hxn : Name.tmp n = x
      · subst hxn; rw [get_del_self, h0]
      · rw [get_del_ne _ hxn]; exact hs x (Ne.symm hxn)
    · rename_i hf
      split
      · simp [InvS, h0, hs, h2]
      · rename_i hg
        simp only [InvS]
        right
        refine ⟨n, h0, hs, by simp [h2], Or.inr (Or.inr ⟨by simpa using hg, ?_⟩)⟩
        exact FailedAt.head _ _ _ (Fault.res_ne_ok hf)
  | unlink n o sw =>
    obtain ⟨h0, hs, h2, h3⟩ := h
    simp only [stepSt, step]
    have hleak : ∀ (o' : Outcome), o' ≠ .ok → f ≠ .none →
        InvS cfg fs0 ⟨fs, .done o', ⟨.unlink n, f.res⟩ :: tr⟩ := by
      intro o' ho' hf
      have : Same fs fs0 ∨ ∃ m, get fs0 (.tmp m) = none ∧ SameBut fs fs0 (.tmp m) ∧
          (get fs (.tmp m)).isSome = true ∧ Leak cfg.impl (⟨.unlink n, f.res⟩ :: tr) m :=
        Or.inr ⟨n, h0, hs, h2, Or.inl (FailedAt.head _ _ _ (Fault.res_ne_ok hf))⟩
      cases o' with
      | ok => exact absurd rfl ho'
      | raisedBody => simpa [InvS] using this
      | raisedOS => simpa [InvS] using this
    split
    · cases hg : get fs (.tmp n) with
      | none => simp [hg] at h2
      | some c =>
        simp only
        have hsame : Same (del fs (.tmp n)) fs0 := by
          intro x
          by_cases hxn : Name.tmp n = x
          · subst hxn; rw [get_del_self, h0]
          · rw [get_del_ne _ hxn]; exact hs x (Ne.symm hxn)
        cases o with
        | ok => exact absurd rfl h3
        | raisedBody => simp only [InvS]; exact Or.inl hsame
        | raisedOS => simp only [InvS]; exact Or.inl hsame
    · rename_i hf
      split
      · exact hleak o h3 hf
      · exact hleak .raisedOS (by simp) hf

theorem invS_run (cfg : Cfg) (hx : cfg.impl.exclusive = true) (hd : cfg.dest.isTmp = false) (fs0 : FS) :
    ∀ (k : Nat) (plan : List Fault) (s : St), InvS cfg fs0 s → InvS cfg fs0 (run cfg k plan s) := by
  intro k
  induction k with
  | zero => intro plan s h; simpa [run] using h
  | succ k ih =>
    intro plan s h
    cases plan with
    | nil => simp only [run]; exact ih _ _ (invS_step cfg hx hd fs0 _ s h)
    | cons f rest => simp only [run]; exact ih _ _ (invS_step cfg hx hd fs0 _ s h)

theorem invS_init (cfg : Cfg) (fs0 : FS) : InvS cfg fs0 (St.init fs0) := fun _ => rfl

/-! ## helpers for the property statements -/

/-- No `unlink` in the trace raised (decidable form of "the clean-up itself did not fail"). -/
def noFailedUnlink (tr : List Event) : Bool :=
  tr.all fun e => match e.op with
    | .unlink _ => e.res == .ok
    | _ => true

theorem not_failedAt_unlink {tr : List Event} (h : noFailedUnlink tr = true) (n : Nat) :
    ¬ FailedAt tr (.unlink n) := by
  rintro ⟨e, he, hop, hres⟩
  have := List.all_eq_true.mp h e he
  rw [hop] at this
  simp at this
  exact hres this

theorem good_dest {cfg : Cfg} {old : Option Bytes} {fs : FS} {pc : PC} (h : Good cfg old fs pc) :
    (pc = .done .ok → get fs cfg.dest = some (finalContent cfg.script)) ∧
    (pc ≠ .done .ok → get fs cfg.dest = old) := by
  cases pc with
  | mkdir => simpa [Good] using h
  | create n => simpa [Good] using h
  | body n k pos => simp [Good] at h; simp [h.1]
  | close n e => cases e <;> (simp [Good] at h; simp [h.1])
  | replace n => simp [Good] at h; simp [h.1]
  | unlink n o sw => simp [Good] at h; simp [h.1]
  | done o => cases o <;> simpa [Good] using h

end C12
