import Srctools.Model.C14Text
/-! # C14: round trips of the integer / fixed-format text conversions. -/
namespace C14.Text
open C14

theorem digit_fin : ∀ d : Fin 10, digitVal? (digitChar d) = some d.val ∧ digitChar d ≠ '-' ∧
    isWsChar (digitChar d) = false := by decide

theorem digit_ok {d : Nat} (h : d < 10) : digitVal? (digitChar d) = some d ∧ digitChar d ≠ '-' ∧
    isWsChar (digitChar d) = false := digit_fin ⟨d, h⟩

theorem parseNatAux_append (acc : Nat) (a b : Str) :
    parseNatAux acc (a ++ b) = (parseNatAux acc a).bind (fun x => parseNatAux x b) := by
  induction a generalizing acc with
  | nil => rfl
  | cons c cs ih =>
    simp only [List.cons_append, parseNatAux]
    cases digitVal? c with
    | none => rfl
    | some d => exact ih _

theorem fmtNat_lt (n : Nat) (h : n < 10) : fmtNat n = [digitChar n] := by
  rw [fmtNat, if_pos h]

theorem fmtNat_ge (n : Nat) (h : ¬ n < 10) : fmtNat n = fmtNat (n / 10) ++ [digitChar (n % 10)] := by
  rw [fmtNat, if_neg h]

theorem parseNatAux_fmtNat (n : Nat) : parseNatAux 0 (fmtNat n) = some n := by
  induction n using Nat.strongRecOn with
  | ind n ih =>
    by_cases h : n < 10
    · rw [fmtNat_lt n h]
      simp [parseNatAux, (digit_ok h).1]
    · rw [fmtNat_ge n h, parseNatAux_append, ih (n / 10) (by omega)]
      simp only [Option.bind_some, parseNatAux, (digit_ok (Nat.mod_lt n (by decide : 0 < 10))).1]
      congr 1; omega

/-- every character of `str(n)` is a decimal digit. -/
theorem fmtNat_digits (n : Nat) : ∀ c ∈ fmtNat n, ∃ d, d < 10 ∧ c = digitChar d := by
  induction n using Nat.strongRecOn with
  | ind n ih =>
    intro c hc
    by_cases h : n < 10
    · rw [fmtNat_lt n h] at hc
      simp only [List.mem_singleton] at hc
      exact ⟨n, h, hc⟩
    · rw [fmtNat_ge n h] at hc
      rcases List.mem_append.mp hc with h1 | h1
      · exact ih (n / 10) (by omega) c h1
      · simp only [List.mem_singleton] at h1
        exact ⟨n % 10, Nat.mod_lt n (by decide), h1⟩

theorem fmtNat_ne_nil (n : Nat) : fmtNat n ≠ [] := by
  by_cases h : n < 10
  · rw [fmtNat_lt n h]; simp
  · rw [fmtNat_ge n h]; simp

/-- `int(str(n)) = n`. -/
theorem parseNat_fmtNat (n : Nat) : parseNat (fmtNat n) = some n := by
  unfold parseNat
  have := fmtNat_ne_nil n
  cases hf : fmtNat n with
  | nil => exact absurd hf this
  | cons c cs =>
    have h := parseNatAux_fmtNat n
    rw [hf] at h
    simpa using h

theorem parseInt_digits (s : Str) (h : ∀ c ∈ s, c ≠ '-') (hne : s ≠ []) :
    parseInt s = (parseNat s).map fun n => (n : Int) := by
  cases s with
  | nil => exact absurd rfl hne
  | cons c cs =>
    have hc : c ≠ '-' := h c (List.mem_cons_self ..)
    unfold parseInt
    split
    · rename_i ds heq
      simp only [List.cons.injEq] at heq
      exact absurd heq.1 hc
    · rfl

/-- **int**: `int(str(i)) = i` for every integer. -/
theorem parseInt_fmtInt (i : Int) : parseInt (fmtInt i) = some i := by
  unfold fmtInt
  by_cases h : i < 0
  · rw [if_pos h]
    simp only [parseInt, parseNat_fmtNat, Option.map_some]
    have : ((-i).toNat : Int) = -i := Int.toNat_of_nonneg (by omega)
    simp [this]
  · rw [if_neg h, parseInt_digits _ _ (fmtNat_ne_nil _), parseNat_fmtNat]
    · have : (i.toNat : Int) = i := Int.toNat_of_nonneg (by omega)
      simp [this]
    · intro c hc
      obtain ⟨d, hd, rfl⟩ := fmtNat_digits _ c hc
      exact (digit_ok hd).2.1

/-- the bool table maps `"0"` to False and `"1"` to True (decidable). -/
def boolOK (T : Tables) : Bool :=
  (T.boolLookup.find? (·.1 == ['0'])).map (·.2) == some false &&
  (T.boolLookup.find? (·.1 == ['1'])).map (·.2) == some true

/-- **bool**: `BOOL_LOOKUP[bool_as_int(b).casefold()] = b`. -/
theorem parseBool_fmtBool (T : Tables) (hT : boolOK T = true) (fold : Str → Str)
    (h0 : fold ['0'] = ['0']) (h1 : fold ['1'] = ['1']) (b : Bool) :
    parseBool T fold (fmtBool b) = some b := by
  simp only [boolOK, Bool.and_eq_true, beq_iff_eq] at hT
  cases b
  · simpa [parseBool, fmtBool, h0] using hT.1
  · simpa [parseBool, fmtBool, h1] using hT.2

/-! ## colour -/

theorem splitAux_word (w : Str) (hw : ∀ c ∈ w, isWsChar c = false) (cur : Str) (rest : Str) :
    splitAux (w ++ rest) cur = splitAux rest (w.reverse ++ cur) := by
  induction w generalizing cur with
  | nil => rfl
  | cons c cs ih =>
    simp only [List.cons_append, splitAux, hw c (List.mem_cons_self ..), Bool.false_eq_true, if_false]
    rw [ih (fun d hd => hw d (List.mem_cons_of_mem _ hd))]
    simp

/-- a non-empty word followed by a blank. -/
theorem splitWs_word_sp (w : Str) (hw : ∀ c ∈ w, isWsChar c = false) (hne : w ≠ []) (rest : Str) :
    splitAux (w ++ ' ' :: rest) [] = w :: splitAux rest [] := by
  rw [splitAux_word w hw]
  have : (w.reverse ++ []).isEmpty = false := by
    cases w with
    | nil => exact absurd rfl hne
    | cons c cs => simp
  simp only [splitAux, show isWsChar ' ' = true from rfl, if_true, this, Bool.false_eq_true, if_false]
  simp

theorem splitWs_word_end (w : Str) (hw : ∀ c ∈ w, isWsChar c = false) (hne : w ≠ []) :
    splitAux w [] = [w] := by
  have := splitAux_word w hw [] []
  simp only [List.append_nil] at this
  rw [this]
  cases w with
  | nil => exact absurd rfl hne
  | cons c cs => simp [splitAux]

theorem fmtNat_noWs (n : Nat) : ∀ c ∈ fmtNat n, isWsChar c = false := by
  intro c hc
  obtain ⟨d, hd, rfl⟩ := fmtNat_digits n c hc
  exact (digit_ok hd).2.2

theorem parseInt_fmtNat (n : Nat) : parseInt (fmtNat n) = some (n : Int) := by
  have := parseInt_fmtInt (n : Int)
  have hn : ¬ ((n : Int) < 0) := by omega
  simpa [fmtInt, hn] using this

theorem clamp_nat (n : Nat) (h : n ≤ 255) : clamp (n : Int) = n := by
  unfold clamp
  rw [if_neg (by omega), if_neg (by omega)]
  simp

/-- **color**: parsing `"r g b a"` gives back the four bytes. -/
theorem parseColor_fmtColor (r g b a : Nat) (hr : r ≤ 255) (hg : g ≤ 255) (hb : b ≤ 255) (ha : a ≤ 255) :
    parseColor (fmtColor r g b a) = some (r, g, b, a) := by
  unfold parseColor fmtColor splitWs
  rw [splitWs_word_sp _ (fmtNat_noWs r) (fmtNat_ne_nil r), splitWs_word_sp _ (fmtNat_noWs g) (fmtNat_ne_nil g),
    splitWs_word_sp _ (fmtNat_noWs b) (fmtNat_ne_nil b), splitWs_word_end _ (fmtNat_noWs a) (fmtNat_ne_nil a)]
  simp only [parseInt_fmtNat, clamp_nat r hr, clamp_nat g hg, clamp_nat b hb, clamp_nat a ha]

/-! ## binary blobs as hex -/

theorem hex_fin : ∀ d : Fin 16, hexVal? (hexChar d) = some d.val ∧ isWsChar (hexChar d) = false := by
  decide

theorem hexByte_parse (b : UInt8) (rest : Str) :
    parseHex (hexByte b ++ rest) = (parseHex rest).map fun bs => b :: bs := by
  have h1 := hex_fin ⟨b.toNat / 16, by have := b.toNat_lt; omega⟩
  have h2 := hex_fin ⟨b.toNat % 16, Nat.mod_lt _ (by decide)⟩
  simp only at h1 h2
  simp only [hexByte, List.cons_append, List.nil_append, parseHex, h1.2, Bool.false_eq_true, if_false,
    h1.1, h2.1]
  have : UInt8.ofNat (b.toNat / 16 * 16 + b.toNat % 16) = b := by
    rw [Nat.div_add_mod']; exact UInt8.ofNat_toNat
  rw [this]

/-- **binary**: `bytes.fromhex(b.hex(' ', 1).upper()) = b`. -/
theorem parseHex_fmtHex (bs : Bytes) : parseHex (fmtHex bs) = some bs := by
  induction bs with
  | nil => rfl
  | cons b rest ih =>
    cases rest with
    | nil =>
      have := hexByte_parse b []
      simpa [fmtHex, parseHex] using this
    | cons c cs =>
      have h := hexByte_parse b (' ' :: fmtHex (c :: cs))
      simp only [fmtHex] at h ⊢
      rw [h]
      have : parseHex (' ' :: fmtHex (c :: cs)) = parseHex (fmtHex (c :: cs)) := by
        rw [parseHex.eq_def]; simp [show isWsChar ' ' = true from rfl]
      rw [this, ih]; rfl

end C14.Text
