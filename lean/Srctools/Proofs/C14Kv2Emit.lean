import Srctools.Proofs.C14Kv2Lex
import Srctools.Proofs.C14Kv2Parse
/-! # C14 / KeyValues2: the emitted text lexes to the token stream of the emitted tree.

`ptree g flat cull fuel i` is the parsed-element tree that the text of element `i` denotes: inline
children nested, elements written at the top level (and stubs) referenced by UUID.
`lex_elem`: the tokenizer turns `emitElem …` into `S type :: toksBody (ptree …)`. -/
namespace C14.Kv2
open Tok C14

/-- `"` + s + `"` without escaping (how ids, type names and UUIDs are written). -/
def rawq (s : Str) : Str := '"' :: (s ++ ['"'])

/-- the text of these strings is written raw; it must be its own `escape_text`. -/
structure PlainFacts (E : Tok.Tables) (T : Tables) : Prop where
  idL : escapeText E false idLit = idLit
  elementidL : escapeText E false elementidLit = elementidLit
  nameL : escapeText E false nameLit = nameLit
  stringL : escapeText E false stringLit = stringLit
  elemL : escapeText E false elemLit = elemLit
  names : ∀ t, escapeText E false (typeName T t) = typeName T t
  arrays : ∀ t, escapeText E false (typeName T t ++ arrayLit) = typeName T t ++ arrayLit
  uuid : ∀ u, uuidOK u = true → escapeText E false u = u

theorem rawq_eq_quote {E : Tok.Tables} {s : Str} (h : escapeText E false s = s) : rawq s = quote E s := by
  simp [rawq, quote, h]

theorem escapeText_nil (E : Tok.Tables) : escapeText E false [] = [] := rfl

/-! ## the tree denoted by the text -/

def pval (g : TGraph) (flat : Bool) (sub : Nat → PElem) : TVal → PVal
  | .text s => .text s
  | .ref .null => .null
  | .ref (.stub u) => .uuid u
  | .ref (.idx j) => if isRoot g flat j then .uuid (uuidAt g j) else .inline (sub j)

def pattr (g : TGraph) (flat : Bool) (sub : Nat → PElem) (a : TAttr) : PAttr :=
  .mk a.name a.type a.isArray (a.vals.map (pval g flat sub))

def ptree (g : TGraph) (flat cull : Bool) : Nat → Nat → PElem
  | 0, _ => .mk [] [] none []
  | fuel + 1, i =>
    match g.elems[i]? with
    | none => .mk [] [] none []
    | some e => .mk e.type e.name (if !cull || isRoot g flat i then some e.uuid else none)
        (e.attrs.map (pattr g flat (ptree g flat cull fuel)))

section
variable {E : Tok.Tables} (hE : escOK E = true) (F : LexFacts E) (o : Opts) (ho : o.allowEscapes = true)
  (hb : o.stringBracket = false) (fold : Char → List Char) {T : Tables} (P : PlainFacts E T)

theorem LexK.cons {a b c : List Char} {t : Nat × Str} {k : Toks}
    (h1 : LexK E o fold a [t] b) (h2 : LexK E o fold b k c) : LexK E o fold a (t :: k) c :=
  LexK.append o fold h1 h2

include hE F ho in
theorem lex_rawq (ws : List Char) (hws : C01.isWs ws) (s rest : List Char)
    (hp : escapeText E false s = s) : LexK E o fold (ws ++ (rawq s ++ rest)) [S s] rest := by
  rw [rawq_eq_quote hp]; exact lex_quote hE F o ho fold ws hws s rest

theorem isWs_sp : C01.isWs [' '] := by intro c hc; simp at hc; exact Or.inl hc
theorem isWs_tab {ind : Str} (h : C01.isWs ind) : C01.isWs (ind ++ ['\t']) :=
  C01.isWs_append h (by intro c hc; simp at hc; exact Or.inr hc)
theorem isWs_tab2 {ind : Str} (h : C01.isWs ind) : C01.isWs (ind ++ ['\t', '\t']) :=
  C01.isWs_append h (by intro c hc; simp at hc; rcases hc with rfl | rfl <;> exact Or.inr rfl)

include hE F ho hb P in
/-- an element reference that is not written inline: `"element" "<uuid or empty>"`. -/
theorem lex_ref_uuid (ws : List Char) (hws : C01.isWs ws) (u : Str)
    (hu : escapeText E false u = u) (rest : List Char) :
    LexK E o fold (ws ++ (rawq elemLit ++ ([' '] ++ (rawq u ++ rest)))) [S elemLit, S u] rest :=
  (lex_rawq hE F o ho fold ws hws elemLit _ P.elemL).cons o fold
    (lex_rawq hE F o ho fold [' '] isWs_sp u rest hu)

end

/-! ## token pieces as functions of the tree -/

/-- the tokens of one value (array item, or scalar value with its type name). -/
def valToks (T : Tables) (t : VT) (arr : Bool) : PVal → Toks
  | .null => [S elemLit, S []]
  | .uuid u => [S elemLit, S u]
  | .inline e => S e.type :: toksBody T e
  | .text s => if arr then [S s] else [S (typeName T t), S s]

def sepToks (arr : Bool) (last : Bool) : Toks := if arr then (if last then [NL] else [CM, NL]) else [NL]

theorem toksVals_cons (T : Tables) (t : VT) (arr : Bool) (v : PVal) (rest : List PVal) :
    toksVals T t arr (v :: rest) = valToks T t arr v ++ sepToks arr rest.isEmpty ++ toksVals T t arr rest := by
  cases v <;> simp [toksVals, valToks, sepToks]

def attrToks (T : Tables) : PAttr → Toks
  | .mk n t arr vals =>
    if arr then [S n, S (typeName T t ++ arrayLit), NL, BKO, NL] ++ toksVals T t true vals ++ [BKC, NL]
    else S n :: toksVals T t false vals

theorem toksAttrs_cons (T : Tables) (a : PAttr) (rest : List PAttr) :
    toksAttrs T (a :: rest) = attrToks T a ++ toksAttrs T rest := by
  cases a; simp [toksAttrs, attrToks]

theorem toksAttrs_map (T : Tables) {α : Type} (f : α → PAttr) (l : List α) :
    toksAttrs T (l.map f) = l.flatMap fun a => attrToks T (f a) := by
  induction l with
  | nil => simp [toksAttrs]
  | cons a as ih => simp [toksAttrs_cons, ih]

/-! ## references, items, attributes (parametric in how a child element is written) -/

section pieces
variable {E : Tok.Tables} (hE : escOK E = true) (F : LexFacts E) (o : Opts) (ho : o.allowEscapes = true)
  (hb : o.stringBracket = false) (fold : Char → List Char) {T : Tables} (P : PlainFacts E T)
  (g : TGraph) (flat : Bool) (child : Nat → Str → Str) (sub : Nat → PElem)

/-- the text written for inline child `j` lexes to the tokens of the tree `sub j`. -/
def ChildOK (E : Tok.Tables) (o : Opts) (fold : Char → List Char) (T : Tables)
    (child : Nat → Str → Str) (sub : Nat → PElem) (j : Nat) : Prop :=
  ∀ (ind ws rest : List Char), C01.isWs ind → C01.isWs ws →
    LexK E o fold (ws ++ (child j ind ++ rest)) (S (sub j).type :: toksBody T (sub j)) rest

/-- a value can be lexed: UUIDs are UUID text, an inline child is handled by `ChildOK`. -/
def ValLexOK (E : Tok.Tables) (o : Opts) (fold : Char → List Char) (T : Tables) (g : TGraph) (flat : Bool)
    (child : Nat → Str → Str) (sub : Nat → PElem) : TVal → Prop
  | .text _ => True
  | .ref .null => True
  | .ref (.stub u) => uuidOK u = true
  | .ref (.idx j) => if isRoot g flat j then uuidOK (uuidAt g j) = true else ChildOK E o fold T child sub j

include hE F ho P in
theorem lex_ref (ind : Str) (hind : C01.isWs ind) (ws : List Char) (hws : C01.isWs ws) (r : TRef)
    (t : VT) (arr : Bool) (hr : ValLexOK E o fold T g flat child sub (.ref r)) (rest : List Char) :
    LexK E o fold (ws ++ (refText g flat child r ind ++ rest))
      (valToks T t arr (pval g flat sub (.ref r))) rest := by
  cases r with
  | null =>
    have : refText g flat child .null ind = rawq elemLit ++ ([' '] ++ rawq []) := rfl
    rw [this]
    simp only [List.append_assoc, pval, valToks]
    exact (lex_rawq hE F o ho fold ws hws elemLit _ P.elemL).cons o fold
      (lex_rawq hE F o ho fold [' '] isWs_sp [] rest (escapeText_nil E))
  | stub u =>
    have : refText g flat child (.stub u) ind = rawq elemLit ++ ([' '] ++ rawq u) := by
      simp [refText, rawq, elemLit]
    rw [this]
    simp only [List.append_assoc, pval, valToks]
    exact (lex_rawq hE F o ho fold ws hws elemLit _ P.elemL).cons o fold
      (lex_rawq hE F o ho fold [' '] isWs_sp u rest (P.uuid u hr))
  | idx j =>
    simp only [ValLexOK] at hr
    by_cases hroot : isRoot g flat j = true
    · rw [if_pos hroot] at hr
      have : refText g flat child (.idx j) ind = rawq elemLit ++ ([' '] ++ rawq (uuidAt g j)) := by
        simp [refText, hroot, rawq, elemLit]
      rw [this]
      simp only [List.append_assoc, pval, hroot, if_true, valToks]
      exact (lex_rawq hE F o ho fold ws hws elemLit _ P.elemL).cons o fold
        (lex_rawq hE F o ho fold [' '] isWs_sp _ rest (P.uuid _ hr))
    · rw [if_neg hroot] at hr
      have : refText g flat child (.idx j) ind = child j ind := by simp [refText, hroot]
      rw [this]
      simp only [pval, hroot, Bool.false_eq_true, if_false, valToks]
      exact hr ind ws rest hind hws

include hE F ho hb P in
/-- the items of an array attribute. -/
theorem lex_items (ia : Str) (hia : C01.isWs ia) (t : VT) (vals : List TVal)
    (hv : ∀ v ∈ vals, ValLexOK E o fold T g flat child sub v) (rest : List Char) :
    LexK E o fold (emitItems E g flat child ia vals ++ rest)
      (toksVals T t true (vals.map (pval g flat sub))) rest := by
  induction vals with
  | nil => simpa [emitItems, toksVals] using LexK.nil o fold rest
  | cons v vs ih =>
    have ih' := ih (fun w hw => hv w (List.mem_cons_of_mem _ hw))
    have hv0 := hv v (List.mem_cons_self ..)
    simp only [emitItems, List.map_cons, toksVals_cons, List.append_assoc, List.isEmpty_map]
    refine LexK.append o fold (b := (if vs.isEmpty then crlf else ',' :: crlf) ++ (emitItems E g flat child ia vs ++ rest)) ?_
      (LexK.append o fold ?_ ih')
    · cases v with
      | ref r => exact lex_ref hE F o ho fold P g flat child sub ia hia ia hia r t true hv0 _
      | text s =>
        simp only [pval, valToks, if_true]
        exact lex_quote hE F o ho fold ia hia s _
    · by_cases hemp : vs.isEmpty = true
      · simp only [hemp, if_true, sepToks, crlf, List.cons_append, List.nil_append]
        exact lex_crlf F o fold _
      · simp only [hemp, Bool.false_eq_true, if_false, sepToks, crlf, List.cons_append, List.nil_append]
        exact (lex_punct F o hb fold [] C01.isWs_nil .comma _).cons o fold (lex_crlf F o fold _)

end pieces

/-! ## attributes and elements -/

theorem uuidAt_ok {g : TGraph} (hg : lexWf g = true) {j : Nat} (hj : j < g.elems.length) :
    uuidOK (uuidAt g j) = true := by
  simp only [lexWf, List.all_eq_true, Bool.and_eq_true] at hg
  have := (hg g.elems[j] (List.getElem_mem hj)).1
  simpa [uuidAt, List.getElem?_eq_getElem hj] using this

theorem flatMap_lexK {E : Tok.Tables} (o : Opts) (fold : Char → List Char) {α : Type} (l : List α)
    (f : α → List Char) (k : α → Toks)
    (h : ∀ a ∈ l, ∀ rest, LexK E o fold (f a ++ rest) (k a) rest) (rest : List Char) :
    LexK E o fold (l.flatMap f ++ rest) (l.flatMap k) rest := by
  induction l with
  | nil => simpa using LexK.nil o fold rest
  | cons a as ih =>
    simp only [List.flatMap_cons, List.append_assoc]
    exact LexK.append o fold (h a (List.mem_cons_self ..) _)
      (ih (fun b hb => h b (List.mem_cons_of_mem _ hb)))

section elems
variable {E : Tok.Tables} (hE : escOK E = true) (F : LexFacts E) (o : Opts) (ho : o.allowEscapes = true)
  (hb : o.stringBracket = false) (fold : Char → List Char) {T : Tables} (P : PlainFacts E T)
  (g : TGraph) (flat : Bool)

include hE F ho hb P in
theorem lex_attr (child : Nat → Str → Str) (sub : Nat → PElem) (ic ia : Str) (hic : C01.isWs ic)
    (hia : C01.isWs ia) (a : TAttr) (hshape : a.isArray = true ∨ a.vals.length = 1)
    (hv : ∀ v ∈ a.vals, ValLexOK E o fold T g flat child sub v) (rest : List Char) :
    LexK E o fold (emitAttr E T g flat child ic ia a ++ rest) (attrToks T (pattr g flat sub a)) rest := by
  obtain ⟨n, t, arr, vals⟩ := a
  simp only at hshape hv
  cases arr with
  | true =>
    have htext : emitAttr E T g flat child ic ia ⟨n, t, true, vals⟩ ++ rest
        = ic ++ (quote E n ++ ([' '] ++ (rawq (typeName T t ++ arrayLit) ++ ('\r' :: '\n' ::
            (ic ++ Punct.brackOpen.char :: ('\r' :: '\n' :: (emitItems E g flat child ia vals ++
              (ic ++ Punct.brackClose.char :: ('\r' :: '\n' :: rest))))))))) := by
      simp [emitAttr, rawq, arrayLit, crlf, Punct.char]
    have htoks : attrToks T (pattr g flat sub ⟨n, t, true, vals⟩)
        = S n :: S (typeName T t ++ arrayLit) :: NL :: (Punct.brackOpen.code, [Punct.brackOpen.char]) :: NL ::
            (toksVals T t true (vals.map (pval g flat sub)) ++
              [(Punct.brackClose.code, [Punct.brackClose.char]), NL]) := by
      simp [pattr, attrToks, BKO, BKC, Punct.code, Punct.char, kBRACK_OPEN, kBRACK_CLOSE]
    rw [htext, htoks]
    refine (lex_quote hE F o ho fold _ hic n _).cons o fold ?_
    refine (lex_rawq hE F o ho fold [' '] isWs_sp _ _ (P.arrays t)).cons o fold ?_
    refine (lex_crlf F o fold _).cons o fold ?_
    refine (lex_punct F o hb fold _ hic .brackOpen _).cons o fold ?_
    refine (lex_crlf F o fold _).cons o fold ?_
    refine LexK.append o fold
      (lex_items hE F o ho hb fold P g flat child sub _ hia t vals hv _) ?_
    refine (lex_punct F o hb fold _ hic .brackClose _).cons o fold ?_
    exact lex_crlf F o fold _
  | false =>
    have hone : vals.length = 1 := by
      rcases hshape with h | h
      · exact absurd h (by decide)
      · exact h
    match vals, hone, hv with
    | [v], _, hv =>
      have hv0 := hv v (List.mem_cons_self ..)
      cases v with
      | ref r =>
        have htext : emitAttr E T g flat child ic ia ⟨n, t, false, [.ref r]⟩ ++ rest
            = ic ++ (quote E n ++ ([' '] ++ (refText g flat child r ic ++ ('\r' :: '\n' :: rest)))) := by
          simp [emitAttr, crlf]
        have htoks : attrToks T (pattr g flat sub ⟨n, t, false, [.ref r]⟩)
            = S n :: (valToks T t false (pval g flat sub (.ref r)) ++ [NL]) := by
          simp only [pattr, attrToks, Bool.false_eq_true, if_false, List.map_cons, List.map_nil]
          rw [toksVals_cons]
          simp [sepToks, toksVals]
        rw [htext, htoks]
        refine (lex_quote hE F o ho fold _ hic n _).cons o fold ?_
        refine LexK.append o fold
          (lex_ref hE F o ho fold P g flat child sub _ hic [' '] isWs_sp r t false hv0 _) ?_
        exact lex_crlf F o fold _
      | text s =>
        have htext : emitAttr E T g flat child ic ia ⟨n, t, false, [.text s]⟩ ++ rest
            = ic ++ (quote E n ++ ([' '] ++ (rawq (typeName T t) ++ ([' '] ++ (quote E s ++
                ('\r' :: '\n' :: rest)))))) := by
          simp [emitAttr, crlf, rawq]
        have htoks : attrToks T (pattr g flat sub ⟨n, t, false, [.text s]⟩)
            = [S n, S (typeName T t), S s, NL] := by
          simp [pattr, attrToks, toksVals, pval]
        rw [htext, htoks]
        refine (lex_quote hE F o ho fold _ hic n _).cons o fold ?_
        refine (lex_rawq hE F o ho fold [' '] isWs_sp _ _ (P.names t)).cons o fold ?_
        refine (lex_quote hE F o ho fold [' '] isWs_sp s _).cons o fold ?_
        exact lex_crlf F o fold _

end elems

theorem ptree_succ (g : TGraph) (flat cull : Bool) (fuel i : Nat) (e : TElem) (he : g.elems[i]? = some e) :
    ptree g flat cull (fuel + 1) i = .mk e.type e.name (if !cull || isRoot g flat i then some e.uuid else none)
        (e.attrs.map (pattr g flat (ptree g flat cull fuel))) := by
  simp [ptree, he]

theorem emitElem_succ (E : Tok.Tables) (T : Tables) (g : TGraph) (flat cull : Bool) (fuel : Nat)
    (indent : Str) (i : Nat) (e : TElem) (he : g.elems[i]? = some e) :
    emitElem E T g flat cull (fuel + 1) indent i =
      quote E e.type ++ crlf ++ indent ++ ['{'] ++ crlf ++
      (if !cull || isRoot g flat i then (indent ++ ['\t']) ++ ['"', 'i', 'd', '"', ' ', '"', 'e', 'l', 'e', 'm', 'e', 'n', 't', 'i', 'd', '"', ' ', '"'] ++ e.uuid ++ ['"'] ++ crlf else []) ++
      (indent ++ ['\t']) ++ ['"', 'n', 'a', 'm', 'e', '"', ' ', '"', 's', 't', 'r', 'i', 'n', 'g', '"', ' '] ++ quote E e.name ++ crlf ++
      (e.attrs.flatMap (emitAttr E T g flat (fun j ind => emitElem E T g flat cull fuel ind j)
        (indent ++ ['\t']) (indent ++ ['\t', '\t']))) ++
      indent ++ ['}'] := by
  simp [emitElem, he]

section elem
variable {E : Tok.Tables} (hE : escOK E = true) (F : LexFacts E) (o : Opts) (ho : o.allowEscapes = true)
  (hb : o.stringBracket = false) (fold : Char → List Char) {T : Tables} (P : PlainFacts E T)
  (g : TGraph) (flat cull : Bool) (hg : lexWf g = true)

include hE F ho hb P hg in
/-- **element block**: the text of element `i` (with everything nested in it) lexes to its type
name followed by the tokens of the tree it denotes. -/
theorem lex_elem : ∀ (fuel i : Nat), nestOK g flat fuel i = true → ∀ (ind ws rest : List Char),
    C01.isWs ind → C01.isWs ws →
    LexK E o fold (ws ++ (emitElem E T g flat cull fuel ind i ++ rest))
      (S (ptree g flat cull fuel i).type :: toksBody T (ptree g flat cull fuel i)) rest := by
  intro fuel
  induction fuel with
  | zero => intro i h; simp [nestOK] at h
  | succ fuel ih =>
    intro i hn ind ws rest hind hws
    cases he : g.elems[i]? with
    | none => simp [nestOK, he] at hn
    | some e =>
      simp only [nestOK, he, List.all_eq_true] at hn
      have hic := isWs_tab hind
      have hia := isWs_tab2 hind
      have hmem : e ∈ g.elems := List.mem_of_getElem? he
      have hgw := hg
      simp only [lexWf, List.all_eq_true, Bool.and_eq_true, Bool.or_eq_true, beq_iff_eq] at hgw
      obtain ⟨hu, hattrs⟩ := hgw e hmem
      -- the attributes
      have hA : ∀ rest', LexK E o fold
          (e.attrs.flatMap (emitAttr E T g flat (fun j ind => emitElem E T g flat cull fuel ind j)
            (ind ++ ['\t']) (ind ++ ['\t', '\t'])) ++ rest')
          (toksAttrs T (e.attrs.map (pattr g flat (ptree g flat cull fuel)))) rest' := by
        intro rest'
        rw [toksAttrs_map]
        apply flatMap_lexK
        intro a ha rest''
        obtain ⟨hshape, hvals⟩ := hattrs a ha
        apply lex_attr hE F o ho hb fold P g flat _ _ _ _ hic hia a hshape
        intro v hv
        have hvw := hvals v hv
        cases v with
        | text s => trivial
        | ref r =>
          cases r with
          | null => trivial
          | stub u => simpa [ValLexOK] using hvw
          | idx j =>
            simp only [decide_eq_true_eq] at hvw
            simp only [ValLexOK]
            by_cases hroot : isRoot g flat j = true
            · rw [if_pos hroot]; exact uuidAt_ok hg hvw
            · rw [if_neg hroot]
              intro ind' ws' rest3 hi' hw'
              apply ih j _ ind' ws' rest3 hi' hw'
              apply hn j
              simp only [inlineKids, List.mem_flatMap, List.mem_filterMap]
              exact ⟨a, ha, .ref (.idx j), hv, by simp [hroot]⟩
      rw [emitElem_succ E T g flat cull fuel ind i e he, ptree_succ g flat cull fuel i e he]
      simp only [PElem.type]
      by_cases hc : (!cull || isRoot g flat i) = true
      · have htext : quote E e.type ++ crlf ++ ind ++ ['{'] ++ crlf ++
            (if (!cull || isRoot g flat i) = true then (ind ++ ['\t']) ++ ['"', 'i', 'd', '"', ' ', '"', 'e', 'l', 'e', 'm', 'e', 'n', 't', 'i', 'd', '"', ' ', '"'] ++ e.uuid ++ ['"'] ++ crlf else []) ++
            (ind ++ ['\t']) ++ ['"', 'n', 'a', 'm', 'e', '"', ' ', '"', 's', 't', 'r', 'i', 'n', 'g', '"', ' '] ++ quote E e.name ++ crlf ++
            (e.attrs.flatMap (emitAttr E T g flat (fun j ind => emitElem E T g flat cull fuel ind j)
              (ind ++ ['\t']) (ind ++ ['\t', '\t']))) ++ ind ++ ['}'] ++ rest
            = quote E e.type ++ ('\r' :: '\n' :: (ind ++ Punct.braceOpen.char :: ('\r' :: '\n' ::
              ((ind ++ ['\t']) ++ (rawq idLit ++ ([' '] ++ (rawq elementidLit ++ ([' '] ++ (rawq e.uuid ++
                ('\r' :: '\n' :: ((ind ++ ['\t']) ++ (rawq nameLit ++ ([' '] ++ (rawq stringLit ++ ([' '] ++
                  (quote E e.name ++ ('\r' :: '\n' :: (e.attrs.flatMap (emitAttr E T g flat
                    (fun j ind => emitElem E T g flat cull fuel ind j) (ind ++ ['\t']) (ind ++ ['\t', '\t'])) ++
                    (ind ++ Punct.braceClose.char :: rest))))))))))))))))))) := by
          simp [hc, crlf, rawq, idLit, elementidLit, nameLit, stringLit, Punct.char]
        have htoks : (S e.type :: toksBody T (.mk e.type e.name
              (if (!cull || isRoot g flat i) = true then some e.uuid else none)
              (e.attrs.map (pattr g flat (ptree g flat cull fuel)))))
            = S e.type :: NL :: (Punct.braceOpen.code, [Punct.braceOpen.char]) :: NL :: S idLit ::
              S elementidLit :: S e.uuid :: NL :: S nameLit :: S stringLit :: S e.name :: NL ::
              (toksAttrs T (e.attrs.map (pattr g flat (ptree g flat cull fuel))) ++
                [(Punct.braceClose.code, [Punct.braceClose.char])]) := by
          simp [toksBody, hc, BO, BC, Punct.code, Punct.char, kBRACE_OPEN, kBRACE_CLOSE]
        rw [htext, htoks]
        refine (lex_quote hE F o ho fold ws hws e.type _).cons o fold ?_
        refine (lex_crlf F o fold _).cons o fold ?_
        refine (lex_punct F o hb fold _ hind .braceOpen _).cons o fold ?_
        refine (lex_crlf F o fold _).cons o fold ?_
        refine (lex_rawq hE F o ho fold _ hic _ _ P.idL).cons o fold ?_
        refine (lex_rawq hE F o ho fold [' '] isWs_sp _ _ P.elementidL).cons o fold ?_
        refine (lex_rawq hE F o ho fold [' '] isWs_sp _ _ (P.uuid _ hu)).cons o fold ?_
        refine (lex_crlf F o fold _).cons o fold ?_
        refine (lex_rawq hE F o ho fold _ hic _ _ P.nameL).cons o fold ?_
        refine (lex_rawq hE F o ho fold [' '] isWs_sp _ _ P.stringL).cons o fold ?_
        refine (lex_quote hE F o ho fold [' '] isWs_sp e.name _).cons o fold ?_
        refine (lex_crlf F o fold _).cons o fold ?_
        refine LexK.append o fold (hA _) ?_
        exact lex_punct F o hb fold _ hind .braceClose _
      · have htext : quote E e.type ++ crlf ++ ind ++ ['{'] ++ crlf ++
            (if (!cull || isRoot g flat i) = true then (ind ++ ['\t']) ++ ['"', 'i', 'd', '"', ' ', '"', 'e', 'l', 'e', 'm', 'e', 'n', 't', 'i', 'd', '"', ' ', '"'] ++ e.uuid ++ ['"'] ++ crlf else []) ++
            (ind ++ ['\t']) ++ ['"', 'n', 'a', 'm', 'e', '"', ' ', '"', 's', 't', 'r', 'i', 'n', 'g', '"', ' '] ++ quote E e.name ++ crlf ++
            (e.attrs.flatMap (emitAttr E T g flat (fun j ind => emitElem E T g flat cull fuel ind j)
              (ind ++ ['\t']) (ind ++ ['\t', '\t']))) ++ ind ++ ['}'] ++ rest
            = quote E e.type ++ ('\r' :: '\n' :: (ind ++ Punct.braceOpen.char :: ('\r' :: '\n' ::
              ((ind ++ ['\t']) ++ (rawq nameLit ++ ([' '] ++ (rawq stringLit ++ ([' '] ++
                  (quote E e.name ++ ('\r' :: '\n' :: (e.attrs.flatMap (emitAttr E T g flat
                    (fun j ind => emitElem E T g flat cull fuel ind j) (ind ++ ['\t']) (ind ++ ['\t', '\t'])) ++
                    (ind ++ Punct.braceClose.char :: rest)))))))))))) := by
          simp [hc, crlf, rawq, nameLit, stringLit, Punct.char]
        have htoks : (S e.type :: toksBody T (.mk e.type e.name
              (if (!cull || isRoot g flat i) = true then some e.uuid else none)
              (e.attrs.map (pattr g flat (ptree g flat cull fuel)))))
            = S e.type :: NL :: (Punct.braceOpen.code, [Punct.braceOpen.char]) :: NL ::
              S nameLit :: S stringLit :: S e.name :: NL ::
              (toksAttrs T (e.attrs.map (pattr g flat (ptree g flat cull fuel))) ++
                [(Punct.braceClose.code, [Punct.braceClose.char])]) := by
          simp [toksBody, hc, BO, BC, Punct.code, Punct.char, kBRACE_OPEN, kBRACE_CLOSE]
        rw [htext, htoks]
        refine (lex_quote hE F o ho fold ws hws e.type _).cons o fold ?_
        refine (lex_crlf F o fold _).cons o fold ?_
        refine (lex_punct F o hb fold _ hind .braceOpen _).cons o fold ?_
        refine (lex_crlf F o fold _).cons o fold ?_
        refine (lex_rawq hE F o ho fold _ hic _ _ P.nameL).cons o fold ?_
        refine (lex_rawq hE F o ho fold [' '] isWs_sp _ _ P.stringL).cons o fold ?_
        refine (lex_quote hE F o ho fold [' '] isWs_sp e.name _).cons o fold ?_
        refine (lex_crlf F o fold _).cons o fold ?_
        refine LexK.append o fold (hA _) ?_
        exact lex_punct F o hb fold _ hind .braceClose _

end elem

end C14.Kv2
