import Srctools.Model.C16Ent
import Srctools.Proofs.C16KVFinal
/-!
# C16 (iv, continued) — specification helpers for whole entities and files

Token sequences `exportEnt` / `exportFile` are claimed to lex to, and the normal form `parseEnt` returns.
Not part of the modelled code.
-/
namespace C16.KV
open Tok C16

def helperToks (h : Helper) : List Tk :=
  tkNl :: (if h.name = sHalfGridSnap then [(.string, h.name)]
    else [(.string, h.name), (.parenArgs, joinWith commaSp h.args)])

def writtenHelpers (c : ExpCfg) (tab : EntTab) (e : EntRec) : List Helper :=
  e.helpers.filter fun h => !(tab.extHelpers.contains h.name && !c.ext)

def basesToks (c : ExpCfg) (e : EntRec) : List Tk :=
  if e.bases.isEmpty then []
  else [(.string, if e.alias && c.ext then sAliasof else sBase), (.parenArgs, joinWith commaSp e.bases)]

/-- `bodyToks` without the closing bracket. -/
def bodyLinesToks (c : ExpCfg) (items : List Item) : List Tk :=
  let kvs := items.filter Item.isKV
  let ins := items.filter Item.isInp
  let outs := items.filter Item.isOut
  kvs.flatMap (itemToks c)
    ++ (if ins.isEmpty then [] else tkNl :: tkNl :: ins.flatMap (itemToks c))
    ++ (if outs.isEmpty then [] else tkNl :: tkNl :: outs.flatMap (itemToks c))

def resLineToks (tab : EntTab) (r : Res) : List Tk :=
  (.string, tab.resNames.getD r.typ []) :: (.string, r.file)
    :: ((if !r.tags.isEmpty then tagsToks r.tags else []) ++ [tkNl])

def resToks (c : ExpCfg) (tab : EntTab) (e : EntRec) : List Tk :=
  match e.res with
  | some l => if c.ext then [tkNl, (.string, sResources), tkNl, tkOpen, tkNl] ++ l.flatMap (resLineToks tab) ++ [tkClose, tkNl] else []
  | none => []

/-- Tokens of `exportEnt c tab P e` AFTER the `@Kind` keyword token. -/
def entToks (c : ExpCfg) (tab : EntTab) (P : ParseCfg) (e : EntRec) : List Tk :=
  basesToks c e ++ (writtenHelpers c tab e).flatMap helperToks
    ++ (if e.helpers.isEmpty then [] else [tkNl])
    ++ [tkEq, (.string, e.classname)]
    ++ (if e.desc.isEmpty then [] else tkColon :: lsToks c c.ext e.desc)
    ++ [tkNl, tkOpen, tkNl]
    ++ bodyLinesToks c (entItems P e)
    ++ resToks c tab e
    ++ [tkClose, tkNl]

def kindTok (tab : EntTab) (e : EntRec) : Tk := (.string, '@' :: (tab.kinds.getD e.kind ([], [])).1)

/-- Tokens of `exportFile c tab P ents` (before the final EOF). -/
def fileToks (c : ExpCfg) (tab : EntTab) (P : ParseCfg) (ents : List EntRec) : List Tk :=
  ents.flatMap fun e => tkNl :: kindTok tab e :: entToks c tab P e

/-- The helper as `parseEnt` returns it. -/
def normHelper (h : Helper) : Helper :=
  if h.name = sHalfGridSnap then { h with args := [] } else { h with args := helperArgs (joinWith commaSp h.args) }

def normRes (c : ExpCfg) (r : Res) : Res := { r with tags := effTags c r.tags }

/-- The entity as it is read back from its exported text (the documented decay). -/
def normEnt (c : ExpCfg) (tab : EntTab) (P : ParseCfg) (e : EntRec) : ParsedEnt :=
  { kind := e.kind, classname := strip e.classname, bases := e.bases,
    alias := !e.bases.isEmpty && e.alias && c.ext,
    helpers := (writtenHelpers c tab e).map normHelper,
    desc := if e.desc.isEmpty then [] else lsRead c c.ext e.desc,
    items := (entItems P e).map (normItem P c),
    res := match e.res with
      | some l => if c.ext then some (l.map (normRes c)) else none
      | none => none }

end C16.KV
