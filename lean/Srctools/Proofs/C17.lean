import Srctools.Model.C17
import Mathlib.Tactic.Ring
import Mathlib.Tactic.LinearCombination
/-! # C17 — helper lemmas (geometry over commutative rings / fields) -/
namespace C17

section Ring
variable {K : Type} [CommRing K]

/-- `R·Rᵀ = 1`: the rows of `R` are orthonormal. -/
def Orth (R : M3 K) : Prop := R.mul R.transpose = M3.one

theorem Orth.eqs {R : M3 K} (h : Orth R) :
    (R.aa * R.aa + R.ab * R.ab + R.ac * R.ac = 1 ∧ R.aa * R.ba + R.ab * R.bb + R.ac * R.bc = 0 ∧
     R.aa * R.ca + R.ab * R.cb + R.ac * R.cc = 0) ∧
    (R.ba * R.aa + R.bb * R.ab + R.bc * R.ac = 0 ∧ R.ba * R.ba + R.bb * R.bb + R.bc * R.bc = 1 ∧
     R.ba * R.ca + R.bb * R.cb + R.bc * R.cc = 0) ∧
    (R.ca * R.aa + R.cb * R.ab + R.cc * R.ac = 0 ∧ R.ca * R.ba + R.cb * R.bb + R.cc * R.bc = 0 ∧
     R.ca * R.ca + R.cb * R.cb + R.cc * R.cc = 1) := by
  have h' := h
  simp only [Orth, M3.mul, M3.transpose, M3.one, M3.mk.injEq] at h'
  obtain ⟨h1, h2, h3, h4, h5, h6, h7, h8, h9⟩ := h'
  exact ⟨⟨h1, h2, h3⟩, ⟨h4, h5, h6⟩, ⟨h7, h8, h9⟩⟩

/-- Rotation by an orthogonal matrix preserves the dot product. -/
theorem dot_rot {R : M3 K} (h : Orth R) (p q : V3 K) : (rot R p).dot (rot R q) = p.dot q := by
  obtain ⟨⟨h1, h2, h3⟩, ⟨h4, h5, h6⟩, ⟨h7, h8, h9⟩⟩ := h.eqs
  simp only [rot, V3.dot]
  linear_combination (p.x * q.x) * h1 + (p.x * q.y) * h2 + (p.x * q.z) * h3 + (p.y * q.x) * h4 +
    (p.y * q.y) * h5 + (p.y * q.z) * h6 + (p.z * q.x) * h7 + (p.z * q.y) * h8 + (p.z * q.z) * h9

theorem rot_mul (A B : M3 K) (p : V3 K) : rot B (rot A p) = rot (A.mul B) p := by
  simp only [rot, M3.mul, V3.mk.injEq]
  refine ⟨?_, ?_, ?_⟩ <;> ring

theorem place_comp (P₁ P₂ : Placement K) (p : V3 K) :
    place P₂ (place P₁ p) = place (P₁.comp P₂) p := by
  simp only [place, Placement.comp, rot, M3.mul, V3.add, V3.mk.injEq]
  refine ⟨?_, ?_, ?_⟩ <;> ring

theorem rot_one (p : V3 K) : rot M3.one p = p := by
  cases p; simp only [rot, M3.one, V3.mk.injEq]
  refine ⟨?_, ?_, ?_⟩ <;> ring

theorem place_id (p : V3 K) : place Placement.id p = p := by
  cases p; simp only [place, Placement.id, rot, M3.one, V3.zero, V3.add, V3.mk.injEq]
  refine ⟨?_, ?_, ?_⟩ <;> ring

theorem mul_one' (m : M3 K) : m.mul M3.one = m := by
  cases m; simp only [M3.mul, M3.one, M3.mk.injEq]
  refine ⟨?_, ?_, ?_, ?_, ?_, ?_, ?_, ?_, ?_⟩ <;> ring

theorem one_mul' (m : M3 K) : M3.one.mul m = m := by
  cases m; simp only [M3.mul, M3.one, M3.mk.injEq]
  refine ⟨?_, ?_, ?_, ?_, ?_, ?_, ?_, ?_, ?_⟩ <;> ring

theorem mul_assoc' (A B C : M3 K) : (A.mul B).mul C = A.mul (B.mul C) := by
  simp only [M3.mul, M3.mk.injEq]
  refine ⟨?_, ?_, ?_, ?_, ?_, ?_, ?_, ?_, ?_⟩ <;> ring

theorem transpose_mul (A B : M3 K) : (A.mul B).transpose = B.transpose.mul A.transpose := by
  simp only [M3.mul, M3.transpose, M3.mk.injEq]
  refine ⟨?_, ?_, ?_, ?_, ?_, ?_, ?_, ?_, ?_⟩ <;> ring

omit [CommRing K] in
theorem transpose_transpose (A : M3 K) : A.transpose.transpose = A := by
  cases A; rfl

theorem orth_one : Orth (M3.one : M3 K) := by
  simp only [Orth, M3.mul, M3.transpose, M3.one, M3.mk.injEq]
  refine ⟨?_, ?_, ?_, ?_, ?_, ?_, ?_, ?_, ?_⟩ <;> ring

/-- Products of orthogonal matrices are orthogonal (nested instances). -/
theorem Orth.mul {A B : M3 K} (hA : Orth A) (hB : Orth B) : Orth (A.mul B) := by
  unfold Orth at *
  rw [transpose_mul, mul_assoc', ← mul_assoc' B, hB, one_mul', hA]

theorem det_mul (A B : M3 K) : (A.mul B).det = A.det * B.det := by
  simp only [M3.det, det3, M3.mul, V3.cross, V3.dot]; ring

theorem det_transpose (A : M3 K) : A.transpose.det = A.det := by
  simp only [M3.det, det3, M3.transpose, V3.cross, V3.dot]; ring

theorem det_one : (M3.one : M3 K).det = 1 := by
  simp only [M3.det, det3, M3.one, V3.cross, V3.dot]; ring

/-- An orthogonal matrix has determinant ±1. -/
theorem Orth.det_sq {R : M3 K} (h : Orth R) : R.det * R.det = 1 := by
  have := det_mul R R.transpose
  rw [h, det_one, det_transpose] at this
  exact this.symm

/-- adjugate (transpose of the cofactor matrix) -/
def M3.adj (R : M3 K) : M3 K :=
  ⟨R.bb * R.cc - R.bc * R.cb, R.ac * R.cb - R.ab * R.cc, R.ab * R.bc - R.ac * R.bb,
   R.bc * R.ca - R.ba * R.cc, R.aa * R.cc - R.ac * R.ca, R.ac * R.ba - R.aa * R.bc,
   R.ba * R.cb - R.bb * R.ca, R.ab * R.ca - R.aa * R.cb, R.aa * R.bb - R.ab * R.ba⟩

def M3.smul (c : K) (A : M3 K) : M3 K :=
  ⟨c * A.aa, c * A.ab, c * A.ac, c * A.ba, c * A.bb, c * A.bc, c * A.ca, c * A.cb, c * A.cc⟩

theorem adj_mul (R : M3 K) : R.adj.mul R = M3.smul R.det M3.one := by
  simp only [M3.adj, M3.mul, M3.smul, M3.one, M3.det, det3, V3.cross, V3.dot, M3.mk.injEq]
  refine ⟨?_, ?_, ?_, ?_, ?_, ?_, ?_, ?_, ?_⟩ <;> ring

theorem smul_mul (c : K) (A B : M3 K) : (M3.smul c A).mul B = M3.smul c (A.mul B) := by
  simp only [M3.mul, M3.smul, M3.mk.injEq]
  refine ⟨?_, ?_, ?_, ?_, ?_, ?_, ?_, ?_, ?_⟩ <;> ring

theorem smul_smul (c d : K) (A : M3 K) : M3.smul c (M3.smul d A) = M3.smul (c * d) A := by
  simp only [M3.smul, M3.mk.injEq]
  refine ⟨?_, ?_, ?_, ?_, ?_, ?_, ?_, ?_, ?_⟩ <;> ring

theorem one_smul (A : M3 K) : M3.smul 1 A = A := by
  cases A; simp only [M3.smul, M3.mk.injEq]
  refine ⟨?_, ?_, ?_, ?_, ?_, ?_, ?_, ?_, ?_⟩ <;> ring

/-- Over a commutative ring, `R·Rᵀ = 1` implies `Rᵀ·R = 1`. -/
theorem Orth.transpose {R : M3 K} (h : Orth R) : Orth R.transpose := by
  unfold Orth at *
  rw [transpose_transpose]
  have e1 : R.adj = M3.smul R.det R.transpose := by
    calc R.adj = R.adj.mul M3.one := (mul_one' _).symm
      _ = (R.adj.mul R).mul R.transpose := by rw [mul_assoc', h]
      _ = M3.smul R.det R.transpose := by rw [adj_mul, smul_mul, one_mul']
  have e2 : M3.smul R.det (R.transpose.mul R) = M3.smul R.det M3.one := by
    rw [← smul_mul, ← e1, adj_mul]
  have e3 := congrArg (M3.smul R.det) e2
  rw [smul_smul, smul_smul, Orth.det_sq h, one_smul, one_smul] at e3
  exact e3
/-- Affine maps send planes to planes: the plane equation is multiplied by `det R`. -/
theorem planeEq3_place (P : Placement K) (p0 p1 p2 q : V3 K) :
    planeEq3 (place P p0) (place P p1) (place P p2) (place P q) = P.R.det * planeEq3 p0 p1 p2 q := by
  simp only [planeEq3, det3, M3.det, place, rot, V3.add, V3.sub, V3.cross, V3.dot]; ring

/-- The face normal `(p1-p0) × (p2-p0)` is rotated with the face (times `det R`, = 1 for a rotation):
its dot product with any rotated vector is preserved. -/
theorem normal_place (P : Placement K) (p0 p1 p2 w : V3 K) :
    (((place P p1).sub (place P p0)).cross ((place P p2).sub (place P p0))).dot (rot P.R w)
      = P.R.det * (((p1.sub p0).cross (p2.sub p0)).dot w) := by
  simp only [M3.det, det3, place, rot, V3.add, V3.sub, V3.cross, V3.dot]; ring

/-! ### `Matrix.from_angle` is a rotation whenever the six numbers are cosines/sines -/

def Trig.Unit (a : Trig K) : Prop :=
  a.cp * a.cp + a.sp * a.sp = 1 ∧ a.cy * a.cy + a.sy * a.sy = 1 ∧ a.cr * a.cr + a.sr * a.sr = 1

/-- The coded formula is roll · pitch · yaw (row-vector convention). -/
theorem fromTrig_factor (a : Trig K) : fromTrig a = ((rollM a).mul (pitchM a)).mul (yawM a) := by
  simp only [fromTrig, rollM, pitchM, yawM, M3.mul, M3.mk.injEq]
  refine ⟨?_, ?_, ?_, ?_, ?_, ?_, ?_, ?_, ?_⟩ <;> ring

theorem orth_yawM {a : Trig K} (h : a.Unit) : Orth (yawM a) ∧ Orth (yawM a).transpose := by
  obtain ⟨_, hy, _⟩ := h
  constructor <;>
  · simp only [Orth, yawM, M3.mul, M3.transpose, M3.one, M3.mk.injEq]
    refine ⟨?_, ?_, ?_, ?_, ?_, ?_, ?_, ?_, ?_⟩ <;> first | ring1 | linear_combination hy

theorem orth_pitchM {a : Trig K} (h : a.Unit) : Orth (pitchM a) ∧ Orth (pitchM a).transpose := by
  obtain ⟨hp, _, _⟩ := h
  constructor <;>
  · simp only [Orth, pitchM, M3.mul, M3.transpose, M3.one, M3.mk.injEq]
    refine ⟨?_, ?_, ?_, ?_, ?_, ?_, ?_, ?_, ?_⟩ <;> first | ring1 | linear_combination hp

theorem orth_rollM {a : Trig K} (h : a.Unit) : Orth (rollM a) ∧ Orth (rollM a).transpose := by
  obtain ⟨_, _, hr⟩ := h
  constructor <;>
  · simp only [Orth, rollM, M3.mul, M3.transpose, M3.one, M3.mk.injEq]
    refine ⟨?_, ?_, ?_, ?_, ?_, ?_, ?_, ?_, ?_⟩ <;> first | ring1 | linear_combination hr

theorem orth_fromTrig {a : Trig K} (h : a.Unit) :
    Orth (fromTrig a) ∧ Orth (fromTrig a).transpose := by
  rw [fromTrig_factor]
  refine ⟨((orth_rollM h).1.mul (orth_pitchM h).1).mul (orth_yawM h).1, ?_⟩
  rw [transpose_mul, transpose_mul]
  exact (orth_yawM h).2.mul ((orth_pitchM h).2.mul (orth_rollM h).2)

theorem det_fromTrig {a : Trig K} (h : a.Unit) : (fromTrig a).det = 1 := by
  obtain ⟨hp, hy, hr⟩ := h
  have e : (fromTrig a).det = (a.cp * a.cp + a.sp * a.sp) * (a.cy * a.cy + a.sy * a.sy) *
      (a.cr * a.cr + a.sr * a.sr) := by
    simp only [fromTrig, M3.det, det3, V3.cross, V3.dot]; ring
  rw [e, hp, hy, hr]; ring

/-! ### displacement vectors: directions rotate without the offset -/

theorem placeDir_comp (P₁ P₂ : Placement K) (v : V3 K) :
    placeDir P₂ (placeDir P₁ v) = placeDir (P₁.comp P₂) v := by
  simp only [placeDir, Placement.comp]; exact rot_mul _ _ v

theorem placeDir_id (v : V3 K) : placeDir Placement.id v = v := rot_one v

/-- A direction is a difference of positions: the origin cancels. -/
theorem place_sub (P : Placement K) (a b : V3 K) :
    (place P a).sub (place P b) = placeDir P (a.sub b) := by
  simp only [place, placeDir, rot, V3.add, V3.sub, V3.mk.injEq]
  refine ⟨?_, ?_, ?_⟩ <;> ring

theorem DispVert.localise_comp (P₁ P₂ : Placement K) (d : DispVert K) :
    DispVert.localise P₂ (DispVert.localise P₁ d) = DispVert.localise (P₁.comp P₂) d := by
  simp only [DispVert.localise, placeDir_comp]

theorem DispVert.localise_id (d : DispVert K) : DispVert.localise Placement.id d = d := by
  cases d; simp only [DispVert.localise, placeDir_id]

theorem Disp.localise_comp (P₁ P₂ : Placement K) (d : Disp K) :
    Disp.localise P₂ (Disp.localise P₁ d) = Disp.localise (P₁.comp P₂) d := by
  simp only [Disp.localise, place_comp, List.map_map, Disp.mk.injEq, true_and]
  apply List.map_congr_left
  intro v _
  exact DispVert.localise_comp P₁ P₂ v

theorem Disp.localise_id (d : Disp K) : Disp.localise Placement.id d = d := by
  cases d with | mk pos verts =>
  have : DispVert.localise (Placement.id : Placement K) = id := funext DispVert.localise_id
  simp only [Disp.localise, place_id, this, List.map_id]

/-- The world position of a displaced vertex moves with the geometry. -/
theorem dispPoint_place (P : Placement K) (d : DispVert K) (elev : K) (base : V3 K) :
    (DispVert.localise P d).point elev (place P base) = place P (d.point elev base) := by
  simp only [DispVert.point, DispVert.localise, placeDir, place, rot, V3.add, V3.smul, V3.mk.injEq]
  refine ⟨?_, ?_, ?_⟩ <;> ring

end Ring

section Field
variable {K : Type} [Field K]

theorem localiseAxis_id (ax : UVAxis K) : localiseAxis Placement.id ax = ax := by
  cases ax with | mk d off s =>
  cases d
  simp only [localiseAxis, Placement.id, rot, M3.one, V3.zero, V3.dot, UVAxis.mk.injEq, V3.mk.injEq]
  refine ⟨⟨?_, ?_, ?_⟩, ?_, trivial⟩ <;> ring

/-- Texture coordinates are carried along by the placement. -/
theorem texCoord_localise {P : Placement K} (h : Orth P.R) (ax : UVAxis K) (p : V3 K) :
    texCoord (localiseAxis P ax) (place P p) = texCoord ax p := by
  have hd := dot_rot h p ax.dir
  simp only [rot, V3.dot] at hd
  simp only [texCoord, localiseAxis, place, rot, V3.dot, V3.add]
  linear_combination (ax.scale)⁻¹ * hd

/-- Localising twice = localising by the composed placement (nested instances). -/
theorem localiseAxis_comp {P₁ P₂ : Placement K} (h : Orth P₂.R) (ax : UVAxis K) :
    localiseAxis P₂ (localiseAxis P₁ ax) = localiseAxis (P₁.comp P₂) ax := by
  have hd := dot_rot h (rot P₁.R ax.dir) P₁.o
  simp only [rot, V3.dot] at hd
  simp only [localiseAxis, Placement.comp, place, rot, M3.mul, V3.dot, V3.add, UVAxis.mk.injEq, V3.mk.injEq]
  refine ⟨⟨?_, ?_, ?_⟩, ?_, trivial⟩
  · ring
  · ring
  · ring
  · linear_combination (ax.scale)⁻¹ * hd

theorem Side.localise_id (s : Side K) : Side.localise Placement.id s = s := by
  cases s with | mk p0 p1 p2 u v d =>
  have hd : Option.map (Disp.localise (Placement.id : Placement K)) d = d := by
    cases d with
    | none => rfl
    | some d => simp only [Option.map_some, Disp.localise_id]
  simp only [Side.localise, place_id, localiseAxis_id, hd]

theorem Side.localise_comp {P₁ P₂ : Placement K} (h : Orth P₂.R) (s : Side K) :
    Side.localise P₂ (Side.localise P₁ s) = Side.localise (P₁.comp P₂) s := by
  have hd : Option.map (Disp.localise P₂) (Option.map (Disp.localise P₁) s.disp)
      = Option.map (Disp.localise (P₁.comp P₂)) s.disp := by
    cases s.disp with
    | none => rfl
    | some d => simp only [Option.map_some, Disp.localise_comp]
  simp only [Side.localise, place_comp, localiseAxis_comp h, hd]

theorem Solid.localise_id (b : Solid K) : Solid.localise Placement.id b = b := by
  have : Side.localise (Placement.id : Placement K) = id := funext Side.localise_id
  simp only [Solid.localise, this, List.map_id]

theorem Solid.localise_comp {P₁ P₂ : Placement K} (h : Orth P₂.R) (b : Solid K) :
    Solid.localise P₂ (Solid.localise P₁ b) = Solid.localise (P₁.comp P₂) b := by
  simp only [Solid.localise, List.map_map]
  congr 1
  funext s
  exact Side.localise_comp h s

end Field
end C17
