import Srctools.Model.StructCodec
/-!
# Proofs about StructCodec (core only; no Mathlib needed)

`unpack_pack` — `unpack fmt (pack fmt vs) = canon fmt vs`;  `unpack_pack_canonical` — identity on
values already in unpacked form; `pack_intsFit` — a successful pack never received an out-of-range
integer (no truncation); `packStr_truncates` — `ns` truncates silently; `unpackMany_packMany`.
-/
namespace StructCodec

theorem leBytes_length (k n : Nat) : (leBytes k n).length = k := by
  induction k generalizing n with
  | zero => rfl
  | succ k ih => simp [leBytes, ih]

theorem u8_ofNat_toNat (n : Nat) : (UInt8.ofNat (n % 256)).toNat = n % 256 := by
  simp [UInt8.toNat_ofNat']

theorem leNat_leBytes (k n : Nat) : leNat (leBytes k n) = n % 256 ^ k := by
  induction k generalizing n with
  | zero => simp [leBytes, leNat, Nat.mod_one]
  | succ k ih =>
    simp only [leBytes, leNat, ih, u8_ofNat_toNat]
    rw [Nat.pow_succ, Nat.mul_comm (256^k) 256, Nat.mod_mul]

theorem pow256 (k : Nat) : (256 : Nat) ^ k = 2 ^ (8 * k) := by
  rw [show (256 : Nat) = 2 ^ 8 from rfl, ← Nat.pow_mul]

/-- Integer round trip: a packed integer is read back unchanged. -/
theorem unpackInt_packInt (k : Nat) (hk : 0 < k) (s : Bool) (v : Int) (bs : Bytes)
    (h : packInt k s v = .ok bs) : unpackInt k s bs = v := by
  unfold packInt at h
  split at h
  · rename_i hr
    injection h with h
    subst h
    unfold unpackInt
    simp only [leNat_leBytes, pow256]
    have hM : (2 : Int) ^ (8 * k) = 2 * 2 ^ (8 * k - 1) := by
      have : 8 * k = (8 * k - 1) + 1 := by omega
      conv => lhs; rw [this, Int.pow_succ]
      omega
    have hH : (0 : Int) < 2 ^ (8 * k - 1) := Int.pow_pos (by decide)
    have hw0 : 0 ≤ v % (2 : Int) ^ (8 * k) := Int.emod_nonneg _ (by omega)
    have hwlt : v % (2 : Int) ^ (8 * k) < (2 : Int) ^ (8 * k) := Int.emod_lt_of_pos _ (by omega)
    have hcast : (((v % (2 : Int) ^ (8 * k)).toNat % 2 ^ (8 * k) : Nat) : Int) = v % (2 : Int) ^ (8 * k) := by
      have h1 := Int.toNat_of_nonneg hw0
      have h2 : (v % (2 : Int) ^ (8 * k)).toNat < 2 ^ (8 * k) := by
        have : ((2 ^ (8 * k) : Nat) : Int) = (2 : Int) ^ (8 * k) := by simp
        omega
      rw [Nat.mod_eq_of_lt h2]; exact h1
    rw [hcast]
    cases s with
    | false =>
      simp only [inRange, intLo, intHi, Bool.false_eq_true, if_false, Bool.and_eq_true, decide_eq_true_eq] at hr
      simp only [Bool.false_and, Bool.false_eq_true, if_false]
      exact Int.emod_eq_of_lt hr.1 hr.2
    | true =>
      simp only [inRange, intLo, intHi, if_true, Bool.and_eq_true, decide_eq_true_eq] at hr
      simp only [Bool.true_and, decide_eq_true_eq]
      by_cases hv : 0 ≤ v
      · have : v % (2 : Int) ^ (8 * k) = v := Int.emod_eq_of_lt hv (by omega)
        rw [this]; split <;> omega
      · have : v % (2 : Int) ^ (8 * k) = v + 2 ^ (8 * k) := by
          rw [Int.emod_eq_add_self_emod]
          exact Int.emod_eq_of_lt (by omega) (by omega)
        rw [this]; split <;> omega
  · cases h

theorem packInt_length {k : Nat} {s : Bool} {v : Int} {bs : Bytes} (h : packInt k s v = .ok bs) :
    bs.length = k := by
  unfold packInt at h
  split at h
  · injection h with h; subst h; exact leBytes_length _ _
  · cases h

theorem packInt_inRange {k : Nat} {s : Bool} {v : Int} {bs : Bytes} (h : packInt k s v = .ok bs) :
    inRange k s v = true := by
  unfold packInt at h
  split at h
  · assumption
  · cases h

/-- An integer outside the field's range is rejected. -/
theorem packInt_out_of_range {k : Nat} {s : Bool} {v : Int} (h : inRange k s v = false) :
    packInt k s v = .error .range := by
  simp [packInt, h]

theorem intInfo_size {f : FieldFmt} {k : Nat} {s : Bool} (h : f.intInfo = some (k, s)) :
    f.size = k ∧ 0 < k ∧ f.isValue = true := by
  cases f <;> simp [FieldFmt.intInfo] at h <;> (obtain ⟨rfl, rfl⟩ := h; simp [FieldFmt.size, FieldFmt.isValue])

theorem zeros_length (n : Nat) : (zeros n).length = n := by simp [zeros]

theorem packStr_length (n : Nat) (b : Bytes) : (packStr n b).length = n := by
  simp [packStr, zeros]; omega

/-- `ns` silently truncates a longer value (as CPython). -/
theorem packStr_truncates (n : Nat) (b : Bytes) (h : n ≤ b.length) : packStr n b = b.take n := by
  simp [packStr, zeros, Nat.sub_eq_zero_of_le h]

/-- `ns` pads a shorter value with NULs. -/
theorem packStr_pads (n : Nat) (b : Bytes) (h : b.length ≤ n) : packStr n b = b ++ zeros (n - b.length) := by
  simp [packStr, List.take_of_length_le h]

theorem packStr_exact (n : Nat) (b : Bytes) (h : b.length = n) : packStr n b = b := by
  rw [packStr_pads n b (by omega)]; simp [h, zeros]

theorem packField_length {f : FieldFmt} {v : Val} {b : Bytes} (h : packField f v = .ok b) :
    b.length = f.size := by
  unfold packField at h
  split at h
  · rename_i k s hi
    have := (intInfo_size hi).1
    split at h
    · rw [this]; exact packInt_length h
    · rw [this]; exact packInt_length h
    · cases h
  · split at h <;> cases h <;> simp [FieldFmt.size, leBytes_length, packStr_length]

theorem u32_roundtrip (bits : UInt32) : UInt32.ofNat (leNat (leBytes 4 bits.toNat)) = bits := by
  rw [leNat_leBytes]
  have : bits.toNat < 256 ^ 4 := by have := bits.toNat_lt; omega
  rw [Nat.mod_eq_of_lt this]; simp

theorem u64_roundtrip (bits : UInt64) : UInt64.ofNat (leNat (leBytes 8 bits.toNat)) = bits := by
  rw [leNat_leBytes]
  have : bits.toNat < 256 ^ 8 := by have := bits.toNat_lt; omega
  rw [Nat.mod_eq_of_lt this]; simp

/-- One field: what is read back is the canonical form of what was packed. -/
theorem unpackField_packField {f : FieldFmt} {v : Val} {b : Bytes}
    (h : packField f v = .ok b) : unpackField f b = canonField f v := by
  unfold packField at h
  unfold unpackField canonField
  split at h
  · rename_i k s hi
    have hk := (intInfo_size hi).2.1
    simp only [hi]
    split at h
    · rw [unpackInt_packInt k hk s _ _ h]
    · rw [unpackInt_packInt k hk s _ _ h]
    · cases h
  · rename_i hi
    simp only [hi]
    split at h <;> cases h <;> simp [u32_roundtrip, u64_roundtrip, leNat] <;> (split <;> simp_all)

theorem size_cons (f : FieldFmt) (fs : Fmt) : size (f :: fs) = f.size + size fs := by
  simp [size]

theorem pack_length {fmt : Fmt} {vs : List Val} {bs : Bytes} (h : pack fmt vs = .ok bs) :
    bs.length = size fmt := by
  induction fmt generalizing vs bs with
  | nil =>
    cases vs <;> simp [pack] at h
    subst h; rfl
  | cons f fs ih =>
    rw [size_cons]
    cases f with
    | pad n =>
      simp only [pack] at h
      split at h
      · rename_i r hr; injection h with h; subst h
        simp [zeros_length, ih hr, FieldFmt.size]
      · cases h
    | _ =>
      all_goals
        cases vs with
        | nil => simp [pack] at h
        | cons v vs' =>
          simp only [pack] at h
          split at h
          · cases h
          · rename_i b hb
            split at h
            · rename_i r hr; injection h with h; subst h
              simp [packField_length hb, ih hr]
            · cases h

/-- `unpackAux` on the output of `pack` returns the canonical values. -/
theorem unpackAux_pack {fmt : Fmt} {vs : List Val} {bs : Bytes} (h : pack fmt vs = .ok bs) :
    unpackAux fmt bs = .ok (canon fmt vs) := by
  induction fmt generalizing vs bs with
  | nil => simp [unpackAux, canon]
  | cons f fs ih =>
    cases f with
    | pad n =>
      simp only [pack] at h
      split at h
      · rename_i r hr; injection h with h; subst h
        have hl : (zeros n).length = n := zeros_length n
        simp only [unpackAux, FieldFmt.size, List.length_append, hl, canon, FieldFmt.isValue]
        rw [if_neg (by omega), List.drop_left' hl, ih hr]
        simp
      · cases h
    | _ =>
      all_goals
        cases vs with
        | nil => simp [pack] at h
        | cons v vs' =>
          simp only [pack] at h
          split at h
          · cases h
          · rename_i b hb
            split at h
            · rename_i r hr; injection h with h; subst h
              have hl := packField_length hb
              simp only [unpackAux, List.length_append, canon]
              rw [if_neg (by omega), List.drop_left' hl, ih hr, List.take_left' hl,
                  unpackField_packField hb]
              simp [FieldFmt.isValue]
            · cases h

/-- **Round trip.** Whenever `pack` succeeds, `unpack` of the bytes returns the canonical form of
the packed values (bools for `?`, ints for integer fields, `ns` values cut/padded to `n` bytes). -/
theorem unpack_pack {fmt : Fmt} {vs : List Val} {bs : Bytes} (h : pack fmt vs = .ok bs) :
    unpack fmt bs = .ok (canon fmt vs) := by
  unfold unpack
  rw [if_pos (pack_length h)]
  exact unpackAux_pack h

theorem canonField_of_canonical {f : FieldFmt} {v : Val} (h : canonicalField f v = true) :
    canonField f v = v := by
  unfold canonicalField at h
  unfold canonField
  split
  · rename_i hi; simp only [hi] at h
    split at h <;> simp_all
  · rename_i hi; simp only [hi] at h
    split at h <;> simp_all
    rename_i n b; exact packStr_exact n b h

theorem canon_of_canonical {fmt : Fmt} {vs : List Val} (h : canonical fmt vs = true) :
    canon fmt vs = vs := by
  induction fmt generalizing vs with
  | nil => cases vs <;> simp_all [canonical, canon]
  | cons f fs ih =>
    cases f with
    | pad n => simp only [canonical] at h; simp only [canon]; exact ih h
    | _ =>
      all_goals
        cases vs with
        | nil => simp [canonical] at h
        | cons v vs' =>
          simp only [canonical, Bool.and_eq_true] at h
          simp only [canon, canonField_of_canonical h.1, ih h.2]

/-- **Round trip, identity form.** Values already in unpacked form (ints in integer fields, bools
in `?`, `ns` values of exactly `n` bytes, floats as representable bit patterns) are read back
unchanged. -/
theorem unpack_pack_canonical {fmt : Fmt} {vs : List Val} {bs : Bytes}
    (h : pack fmt vs = .ok bs) (hc : canonical fmt vs = true) : unpack fmt bs = .ok vs := by
  rw [unpack_pack h, canon_of_canonical hc]

/-- **No integer truncation.** If `pack` succeeds, every integer given to an integer field was
within the field's range; equivalently an out-of-range integer makes `pack` fail. -/
theorem pack_intsFit {fmt : Fmt} {vs : List Val} {bs : Bytes} (h : pack fmt vs = .ok bs) :
    intsFit fmt vs = true := by
  induction fmt generalizing vs bs with
  | nil => simp [intsFit]
  | cons f fs ih =>
    cases f with
    | pad n =>
      simp only [pack] at h
      split at h
      · rename_i r hr; simp only [intsFit]; exact ih hr
      · cases h
    | _ =>
      all_goals
        cases vs with
        | nil => simp [intsFit]
        | cons v vs' =>
          simp only [pack] at h
          split at h
          · cases h
          · rename_i b hb
            split at h
            · rename_i r hr
              simp only [intsFit, Bool.and_eq_true]
              refine ⟨?_, ih hr⟩
              cases v <;> simp [FieldFmt.intInfo]
              all_goals
                simp only [packField, FieldFmt.intInfo] at hb
                exact packInt_inRange hb
            · cases h

theorem pack_error_of_not_intsFit {fmt : Fmt} {vs : List Val} (h : intsFit fmt vs = false) :
    ∃ e, pack fmt vs = .error e := by
  cases hp : pack fmt vs with
  | ok bs => rw [pack_intsFit hp] at h; cases h
  | error e => exact ⟨e, rfl⟩

/-! ### arrays of records -/

theorem packMany_length {fmt : Fmt} {recs : List (List Val)} {bs : Bytes}
    (h : packMany fmt recs = .ok bs) : bs.length = recs.length * size fmt := by
  induction recs generalizing bs with
  | nil => simp [packMany] at h; subst h; simp
  | cons r rs ih =>
    simp only [packMany] at h
    split at h
    · cases h
    · rename_i b hb
      split at h
      · rename_i t ht; injection h with h; subst h
        simp [pack_length hb, ih ht, Nat.succ_mul]; omega
      · cases h

theorem unpackManyAux_packMany {fmt : Fmt} (hs : 0 < size fmt) {recs : List (List Val)} {bs : Bytes}
    (h : packMany fmt recs = .ok bs) :
    unpackManyAux fmt recs.length bs = .ok (recs.map (canon fmt)) := by
  induction recs generalizing bs with
  | nil => simp [packMany] at h; subst h; simp [unpackManyAux]
  | cons r rs ih =>
    simp only [packMany] at h
    split at h
    · cases h
    · rename_i b hb
      split at h
      · rename_i t ht; injection h with h; subst h
        have hl := pack_length hb
        have hne : (b ++ t).isEmpty = false := by
          cases b with
          | nil => simp at hl; omega
          | cons _ _ => rfl
        simp only [List.length_cons, unpackManyAux, hne, Bool.false_eq_true, if_false]
        rw [List.take_left' hl, List.drop_left' hl, unpack_pack hb, ih ht]
        simp
      · cases h

/-- **Record arrays.** `iter_unpack` of the concatenation of packed records returns the records. -/
theorem unpackMany_packMany {fmt : Fmt} (hs : 0 < size fmt) {recs : List (List Val)} {bs : Bytes}
    (h : packMany fmt recs = .ok bs) : unpackMany fmt bs = .ok (recs.map (canon fmt)) := by
  unfold unpackMany
  rw [if_neg (by omega), packMany_length h, Nat.mul_div_cancel _ hs]
  exact unpackManyAux_packMany hs h

/-! ### `rstrip(b'\0')` of a padded name -/

theorem rstrip0_append_zeros (b : Bytes) (n : Nat) (h : b.getLast? ≠ some 0) :
    rstrip0 (b ++ zeros n) = b := by
  unfold rstrip0 zeros
  rw [List.reverse_append, List.reverse_replicate]
  have : ∀ (k : Nat) (l : Bytes), List.dropWhile (· == (0 : UInt8)) (List.replicate k 0 ++ l) = List.dropWhile (· == 0) l := by
    intro k l; induction k with
    | zero => simp
    | succ k ih => simp [List.replicate_succ, ih]
  rw [this]
  cases hb : b.reverse with
  | nil => simp [List.reverse_eq_nil_iff.mp hb]
  | cons x xs =>
    have hx : x ≠ 0 := by
      intro hx0; apply h
      rw [← List.head?_reverse, hb, hx0]; rfl
    rw [List.dropWhile_cons, if_neg (by simpa using hx), ← hb, List.reverse_reverse]

/-! ### normal form of a format -/

theorem zeros_append (a b : Nat) : zeros a ++ zeros b = zeros (a + b) := by
  simp [zeros, List.replicate_append_replicate]

theorem size_normalize (f : Fmt) : size (normalize f) = size f := by
  induction f with
  | nil => rfl
  | cons x fs ih =>
    cases x with
    | pad n =>
      simp only [normalize]
      split
      · rename_i m r hr
        rw [size_cons, size_cons, ← ih, hr, size_cons]; simp [FieldFmt.size]; omega
      · split
        · rename_i h0; subst h0; rw [size_cons, ih]; simp [FieldFmt.size]
        · rw [size_cons, size_cons, ih]
    | _ => all_goals simp only [normalize, size_cons, ih]

theorem pack_pad (n : Nat) (fs : Fmt) (vs : List Val) :
    pack (.pad n :: fs) vs = match pack fs vs with
      | .ok r => .ok (zeros n ++ r)
      | .error e => .error e := by
  simp only [pack]
  cases pack fs vs <;> rfl

theorem pack_normalize (f : Fmt) : ∀ vs, pack (normalize f) vs = pack f vs := by
  induction f with
  | nil => intro vs; rfl
  | cons x fs ih =>
    intro vs
    cases x with
    | pad n =>
      simp only [normalize]
      rw [pack_pad n fs vs, ← ih vs]
      split
      · rename_i m r hr
        rw [hr, pack_pad, pack_pad]
        cases pack r vs with
        | ok b => simp [← zeros_append]
        | error e => rfl
      · split
        · rename_i h0; subst h0
          cases pack (normalize fs) vs with
          | ok b => simp [zeros]
          | error e => rfl
        · rw [pack_pad]
    | _ =>
      all_goals
        simp only [normalize]
        cases vs with
        | nil => simp [pack]
        | cons v vs' => simp only [pack, ih vs']

theorem unpackAux_pad (n : Nat) (fs : Fmt) (bs : Bytes) :
    unpackAux (.pad n :: fs) bs = if bs.length < n then .error .size else unpackAux fs (bs.drop n) := by
  simp only [unpackAux, FieldFmt.size, FieldFmt.isValue]
  by_cases h : bs.length < n
  · simp [h]
  · simp only [h, if_false]
    cases unpackAux fs (bs.drop n) <;> simp

theorem unpackAux_normalize (f : Fmt) : ∀ bs, unpackAux (normalize f) bs = unpackAux f bs := by
  induction f with
  | nil => intro bs; rfl
  | cons x fs ih =>
    intro bs
    cases x with
    | pad n =>
      simp only [normalize]
      rw [unpackAux_pad n fs bs, ← ih]
      split
      · rename_i m r hr
        rw [hr, unpackAux_pad, unpackAux_pad]
        by_cases h1 : bs.length < n
        · simp [h1]; omega
        · simp only [h1, if_false, List.length_drop, List.drop_drop]
          by_cases h2 : bs.length - n < m
          · simp [h2]; omega
          · simp only [h2, if_false]
            rw [if_neg (by omega), Nat.add_comm n m]
      · split
        · rename_i h0; subst h0; simp
        · rw [unpackAux_pad]
    | _ =>
      all_goals
        simp only [normalize, unpackAux, ih]

theorem unpack_normalize (f : Fmt) (bs : Bytes) : unpack (normalize f) bs = unpack f bs := by
  simp only [unpack, size_normalize, unpackAux_normalize]

/-- Formats with the same normal form (pads merged, empty pads dropped) are interchangeable: the
reader may use one and the writer the other. -/
theorem unpack_pack_of_normalize_eq {fr fw : Fmt} (hn : normalize fr = normalize fw)
    {vs : List Val} {bs : Bytes} (h : pack fw vs = .ok bs) : unpack fr bs = .ok (canon fw vs) := by
  rw [← unpack_normalize fr, hn, unpack_normalize]
  exact unpack_pack h


theorem unpackManyAux_congr {f g : Fmt} (hu : ∀ bs, unpack f bs = unpack g bs) (hs : size f = size g) :
    ∀ n bs, unpackManyAux f n bs = unpackManyAux g n bs := by
  intro n
  induction n with
  | zero => intro bs; rfl
  | succ n ih => intro bs; simp only [unpackManyAux, hu, hs, ih]

theorem unpackMany_of_normalize_eq {fr fw : Fmt} (hn : normalize fr = normalize fw) (bs : Bytes) :
    unpackMany fr bs = unpackMany fw bs := by
  have hs : size fr = size fw := by rw [← size_normalize fr, hn, size_normalize]
  have hu : ∀ bs, unpack fr bs = unpack fw bs := fun bs => by
    rw [← unpack_normalize fr, hn, unpack_normalize]
  simp only [unpackMany, hs, unpackManyAux_congr hu hs]


/-! ### canonical form depends only on the shapes of the values -/

inductive Shape where
  | int | f32 | f64 | bool | bytes (n : Nat)
deriving DecidableEq, Repr

def Val.shape : Val → Shape
  | .int _ => .int
  | .f32 _ => .f32
  | .f64 _ => .f64
  | .bool _ => .bool
  | .bytes b => .bytes b.length

def canonicalFieldS (f : FieldFmt) (s : Shape) : Bool :=
  match f.intInfo with
  | some _ => match s with
    | .int => true
    | _ => false
  | none =>
    match f, s with
    | .f32, .f32 => true
    | .f64, .f64 => true
    | .bool, .bool => true
    | .str n, .bytes m => m == n
    | _, _ => false

def canonicalS : Fmt → List Shape → Bool
  | [], ss => ss.isEmpty
  | f :: fs, ss =>
    match f with
    | .pad _ => canonicalS fs ss
    | _ => match ss with
      | [] => false
      | s :: ss' => canonicalFieldS f s && canonicalS fs ss'

theorem canonicalField_shape (f : FieldFmt) (v : Val) : canonicalField f v = canonicalFieldS f v.shape := by
  unfold canonicalField canonicalFieldS
  cases h : f.intInfo <;> cases v <;> cases f <;> simp_all [Val.shape, FieldFmt.intInfo]

theorem canonical_shapes (fmt : Fmt) (vs : List Val) : canonical fmt vs = canonicalS fmt (vs.map Val.shape) := by
  induction fmt generalizing vs with
  | nil => cases vs <;> simp [canonical, canonicalS]
  | cons f fs ih =>
    cases f with
    | pad n => simp only [canonical, canonicalS]; exact ih vs
    | _ =>
      all_goals
        cases vs with
        | nil => simp [canonical, canonicalS]
        | cons v vs' => simp only [canonical, canonicalS, List.map_cons, canonicalField_shape, ih vs']

end StructCodec
