import Srctools.Proofs.C16EntSpec
/-!
# C16 (iv, continued) — the entity / file PARSER on the specification token sequences

`parseEnt` / `parseFile` (Model/C16Ent.lean), run on `entToks` / `fileToks` (Proofs/C16EntSpec.lean), return the
normal form `normEnt`.

* `helperArgs_join`, `normHelper_id` — `[a.strip() for a in ', '.join(args).split(',')] = args`
* `PH` + `PH_nl/_eq/_helper/_half/_helpers/_bases` — the header loop (fuel `> 2 * tokens`: a helper written without
  arguments is added when the NEXT token is looked at a second time), `hdrAfter`, `flush_hdrAfter`
* `PD` + `PD_plusChain/_end/_desc` — the description loop
* `PBE` + `PBE_item/_items/_section/_lines/_res`, `PR` + `PR_line/_lines` — the body loop with `@resources`
  (the single lines are `parse_kv` / `parse_io` of Proofs/C16KVParse.lean), `bodyOrder_entItems`
* `parse_ent`, `parse_file(_run)`; hypotheses `EntParseOK` (`BasesOK`, `HelperParseOK`, `ResBlockOK`, `ItemParseOK`),
  `FileParseOK` — all decidable; evaluated non-vacuity examples at the end.
-/
namespace C16.KV
open Tok C16

/-! ## `helperArgs (', '.join(args)) = args` -/

theorem splitComma_ne_nil : ∀ s : Str, splitComma s ≠ [] := by
  intro s
  induction s with
  | nil => simp [splitComma]
  | cons c t ih =>
    rw [splitComma]
    split
    · simp
    · split <;> simp

theorem splitComma_cons_of {c : Char} {t h : Str} {r : List Str} (e : splitComma t = h :: r) :
    splitComma (c :: t) = if c = ',' then [] :: h :: r else (c :: h) :: r := by
  rw [splitComma, e]

theorem splitComma_nocomma : ∀ a : Str, ',' ∉ a → splitComma a = [a] := by
  intro a
  induction a with
  | nil => intro _; rfl
  | cons c t ih =>
    intro h
    have hc : c ≠ ',' := fun e => h (e ▸ List.mem_cons_self ..)
    have ht : ',' ∉ t := fun e => h (List.mem_cons_of_mem _ e)
    rw [splitComma_cons_of (ih ht), if_neg hc]

theorem splitComma_append : ∀ (a rest : Str), ',' ∉ a →
    splitComma (a ++ ',' :: rest) = a :: splitComma rest := by
  intro a
  induction a with
  | nil =>
    intro rest _
    cases e : splitComma rest with
    | nil => exact absurd e (splitComma_ne_nil rest)
    | cons h r => rw [List.nil_append, splitComma_cons_of e, if_pos rfl]
  | cons c t ih =>
    intro rest h
    have hc : c ≠ ',' := fun e => h (e ▸ List.mem_cons_self ..)
    have ht : ',' ∉ t := fun e => h (List.mem_cons_of_mem _ e)
    rw [List.cons_append, splitComma_cons_of (ih rest ht), if_neg hc]

theorem joinWith_cons_cons (sep : Str) (x : Char) (q : Str) (ps : List Str) :
    joinWith sep ((x :: q) :: ps) = x :: joinWith sep (q :: ps) := by
  cases ps <;> simp [joinWith]

theorem splitComma_join : ∀ (ps : List Str) (p : Str), ',' ∉ p → (∀ a ∈ ps, ',' ∉ a) →
    splitComma (joinWith commaSp (p :: ps)) = p :: ps.map (' ' :: ·) := by
  intro ps
  induction ps with
  | nil => intro p hp _; simpa [joinWith] using splitComma_nocomma p hp
  | cons q ps ih =>
    intro p hp h
    have e : joinWith commaSp (p :: q :: ps) = p ++ ',' :: joinWith commaSp ((' ' :: q) :: ps) := by
      rw [joinWith_cons_cons]; simp [joinWith, commaSp]
    have hq : ',' ∉ ' ' :: q := by
      intro hm
      rcases List.mem_cons.mp hm with h1 | h1
      · exact absurd h1 (by decide)
      · exact h q (List.mem_cons_self ..) h1
    rw [e, splitComma_append _ _ hp, ih (' ' :: q) hq (fun a ha => h a (List.mem_cons_of_mem _ ha))]
    simp

theorem strip_blank_cons (q : Str) : strip (' ' :: q) = strip q := by
  unfold strip lstrip
  rw [List.dropWhile_cons_of_pos (by decide)]

/-- The arguments of a helper are read back from their `', '`-joined text. -/
theorem helperArgs_join {l : List Str} (h : ∀ a ∈ l, ',' ∉ a ∧ strip a = a) (hne : l ≠ [[]]) :
    helperArgs (joinWith commaSp l) = l := by
  cases l with
  | nil => decide
  | cons p ps =>
    have e : (splitComma (joinWith commaSp (p :: ps))).map strip = p :: ps := by
      rw [splitComma_join ps p (h p (List.mem_cons_self ..)).1
        (fun a ha => (h a (List.mem_cons_of_mem _ ha)).1)]
      simp only [List.map_cons, List.map_map, (h p (List.mem_cons_self ..)).2]
      congr 1
      conv => rhs; rw [← List.map_id ps]
      apply List.map_congr_left
      intro a ha
      simp only [Function.comp, strip_blank_cons, (h a (List.mem_cons_of_mem _ ha)).2, id]
    unfold helperArgs
    simp only [e]
    rw [if_neg hne]

theorem normHelper_id {h : Helper} (ha : ∀ a ∈ h.args, ',' ∉ a ∧ strip a = a) (hne : h.args ≠ [[]])
    (hn : h.name ≠ sHalfGridSnap) : normHelper h = h := by
  unfold normHelper
  rw [if_neg hn, helperArgs_join ha hne]

/-! ## the header loop -/

/-- With any fuel above twice the number of tokens the header loop on `ts` from `st` returns `x`
(a helper without arguments costs one extra step). -/
def PH (P : ParseCfg) (tab : EntTab) (defined : List Str) (ts : List Tk) (st : HdrSt) (x : HdrSt × List Tk) : Prop :=
  ∀ f, 2 * ts.length < f → parseHeader P tab defined f ts st = .ok x

section header
variable {P : ParseCfg} {tab : EntTab} {defined : List Str}

theorem ph_nl (v : Str) (rest : List Tk) (st : HdrSt) (f : Nat) :
    parseHeader P tab defined (f + 1) ((.newline, v) :: rest) st = parseHeader P tab defined f rest st := rfl

theorem ph_eq (v : Str) (rest : List Tk) (st : HdrSt) (f : Nat) :
    parseHeader P tab defined (f + 1) ((.equals, v) :: rest) st = .ok (st, rest) := rfl

theorem ph_string (v : Str) (rest : List Tk) (st : HdrSt) (f : Nat) :
    parseHeader P tab defined (f + 1) ((.string, v) :: rest) st =
      match st.ht with
      | none =>
        if tab.helperTypes.contains v then parseHeader P tab defined f rest { st with ht := some v }
        else parseHeader P tab defined f rest { st with hc := some v }
      | some t =>
        parseHeader P tab defined f ((.string, v) :: rest)
          { st with ht := none, helpers := st.helpers ++ [{ name := t, args := [] }] } := rfl

theorem ph_paren (v : Str) (rest : List Tk) (st : HdrSt) (f : Nat) :
    parseHeader P tab defined (f + 1) ((.parenArgs, v) :: rest) st =
      if st.ht.isNone && st.hc.isNone then .error (.unexpected .parenArgs)
      else
        let args := helperArgs v
        let (ht, hc, alias) :=
          if st.hc = some sAliasof then (some sBase, none, true) else (st.ht, st.hc, st.alias)
        match hc with
        | some cn =>
          parseHeader P tab defined f rest
            { st with ht := none, hc := none, alias := alias, helpers := st.helpers ++ [{ name := cn, args := args }] }
        | none =>
          match ht with
          | none => .error (.unexpected .parenArgs)
          | some t =>
            if t = sBase then
              if args.all (fun b => defined.contains (P.foldStr b)) then
                let bases := args.foldl (fun acc b =>
                  if acc.any (fun x => P.foldStr x == P.foldStr b) then acc else acc ++ [b]) st.bases
                parseHeader P tab defined f rest { st with ht := none, hc := none, alias := alias, bases := bases }
              else .error .unknownType
            else if t = sAutovis then .error .snippet
            else
              parseHeader P tab defined f rest
                { st with ht := none, hc := none, alias := alias, helpers := st.helpers ++ [{ name := t, args := args }] } := rfl

/-- The states between two helpers: `pend` is a known helper type still waiting for its arguments. -/
def hS (pend : Option Str) (B : List Str) (A : Bool) (H : List Helper) : HdrSt :=
  { ht := pend, hc := none, bases := B, alias := A, helpers := H }

/-- The helper list once the pending helper has been added without arguments. -/
def flush (pend : Option Str) (H : List Helper) : List Helper :=
  match pend with
  | none => H
  | some t => H ++ [{ name := t, args := [] }]

/-- A helper name that is written with parentheses reads back as that helper. -/
def HelperNameOK (tab : EntTab) (n : Str) : Prop :=
  (tab.helperTypes.contains n = true → n ≠ sBase ∧ n ≠ sAutovis) ∧
  (tab.helperTypes.contains n = false → n ≠ sAliasof)

instance (tab : EntTab) (n : Str) : Decidable (HelperNameOK tab n) := by unfold HelperNameOK; infer_instance

theorem ph_flush (v : Str) (rest : List Tk) (t : Str) (B : List Str) (A : Bool) (H : List Helper) (f : Nat) :
    parseHeader P tab defined (f + 1) ((.string, v) :: rest) (hS (some t) B A H)
      = parseHeader P tab defined f ((.string, v) :: rest) (hS none B A (flush (some t) H)) := by
  rw [ph_string]; rfl

theorem ph_helper {n : Str} (hn : HelperNameOK tab n) (v : Str) (tl : List Tk) (B : List Str) (A : Bool)
    (H : List Helper) (f : Nat) :
    parseHeader P tab defined (f + 2) ((.string, n) :: (.parenArgs, v) :: tl) (hS none B A H)
      = parseHeader P tab defined f tl (hS none B A (H ++ [{ name := n, args := helperArgs v }])) := by
  rw [ph_string]
  cases hk : tab.helperTypes.contains n
  · have h1 := hn.2 hk
    simp only [hS, Bool.false_eq_true, if_false, ph_paren, Option.isNone_none, Option.isNone_some,
      Bool.and_false, Option.some.injEq, h1]
  · obtain ⟨h1, h2⟩ := hn.1 hk
    simp only [hS, if_true, ph_paren, Option.isNone_none, Option.isNone_some, Bool.false_and,
      Bool.false_eq_true, if_false, reduceCtorEq, h1, h2]

theorem ph_known {n : Str} (hk : tab.helperTypes.contains n = true) (tl : List Tk) (B : List Str) (A : Bool)
    (H : List Helper) (f : Nat) :
    parseHeader P tab defined (f + 1) ((.string, n) :: tl) (hS none B A H)
      = parseHeader P tab defined f tl (hS (some n) B A H) := by
  rw [ph_string]
  simp only [hS, hk, if_true]

theorem PH_nl {v : Str} {rest : List Tk} {st : HdrSt} {x : HdrSt × List Tk}
    (h : PH P tab defined rest st x) : PH P tab defined ((.newline, v) :: rest) st x := by
  intro f hf
  cases f with
  | zero => omega
  | succ f => rw [ph_nl]; exact h f (by simp only [List.length_cons] at hf; omega)

theorem PH_eq (v : Str) (rest : List Tk) (st : HdrSt) :
    PH P tab defined ((.equals, v) :: rest) st (st, rest) := by
  intro f hf
  cases f with
  | zero => omega
  | succ f => rw [ph_eq]

theorem PH_helper {n : Str} (hn : HelperNameOK tab n) (v : Str) (tl : List Tk) (pend : Option Str)
    (B : List Str) (A : Bool) (H : List Helper) (x : HdrSt × List Tk)
    (h : PH P tab defined tl (hS none B A (flush pend H ++ [{ name := n, args := helperArgs v }])) x) :
    PH P tab defined (tkNl :: (.string, n) :: (.parenArgs, v) :: tl) (hS pend B A H) x := by
  intro f hf
  simp only [List.length_cons] at hf
  cases pend with
  | none =>
    obtain ⟨g, rfl⟩ : ∃ g, f = g + 3 := ⟨f - 3, by omega⟩
    rw [tkNl, ph_nl, ph_helper hn]; exact h g (by omega)
  | some t =>
    obtain ⟨g, rfl⟩ : ∃ g, f = g + 4 := ⟨f - 4, by omega⟩
    rw [tkNl, ph_nl, ph_flush, ph_helper hn]; exact h g (by omega)

theorem PH_half {n : Str} (hk : tab.helperTypes.contains n = true) (tl : List Tk)
    (pend : Option Str) (B : List Str) (A : Bool) (H : List Helper) (x : HdrSt × List Tk)
    (h : PH P tab defined tl (hS (some n) B A (flush pend H)) x) :
    PH P tab defined (tkNl :: (.string, n) :: tl) (hS pend B A H) x := by
  intro f hf
  simp only [List.length_cons] at hf
  cases pend with
  | none =>
    obtain ⟨g, rfl⟩ : ∃ g, f = g + 2 := ⟨f - 2, by omega⟩
    rw [tkNl, ph_nl, ph_known hk]; exact h g (by omega)
  | some t =>
    obtain ⟨g, rfl⟩ : ∃ g, f = g + 3 := ⟨f - 3, by omega⟩
    rw [tkNl, ph_nl, ph_flush, ph_known hk]; exact h g (by omega)

/-- The hypothesis on one written helper: `halfgridsnap` (written bare) must be a known helper type. -/
def HelperParseOK (tab : EntTab) (h : Helper) : Prop :=
  if h.name = sHalfGridSnap then tab.helperTypes.contains sHalfGridSnap = true else HelperNameOK tab h.name

instance (tab : EntTab) (h : Helper) : Decidable (HelperParseOK tab h) := by unfold HelperParseOK; infer_instance

/-- Pending helper and helper list after the written helpers `ws`. -/
def hdrAfter : Option Str → List Helper → List Helper → Option Str × List Helper
  | pend, H, [] => (pend, H)
  | pend, H, h :: ws =>
    if h.name = sHalfGridSnap then hdrAfter (some h.name) (flush pend H) ws
    else hdrAfter none (flush pend H ++ [{ name := h.name, args := helperArgs (joinWith commaSp h.args) }]) ws

theorem flush_hdrAfter : ∀ (ws : List Helper) (pend : Option Str) (H : List Helper),
    flush (hdrAfter pend H ws).1 (hdrAfter pend H ws).2 = flush pend H ++ ws.map normHelper := by
  intro ws
  induction ws with
  | nil => intro pend H; simp [hdrAfter]
  | cons h ws ih =>
    intro pend H
    rw [hdrAfter]
    by_cases hh : h.name = sHalfGridSnap
    · rw [if_pos hh, ih]
      simp [flush, normHelper, hh]
    · rw [if_neg hh, ih]
      simp [flush, normHelper, hh]

theorem PH_helpers (tl : List Tk) (B : List Str) (A : Bool) (x : HdrSt × List Tk) :
    ∀ (ws : List Helper) (pend : Option Str) (H : List Helper), (∀ h ∈ ws, HelperParseOK tab h) →
    PH P tab defined tl (hS (hdrAfter pend H ws).1 B A (hdrAfter pend H ws).2) x →
    PH P tab defined (ws.flatMap helperToks ++ tl) (hS pend B A H) x := by
  intro ws
  induction ws with
  | nil => intro pend H _ h; simpa [hdrAfter] using h
  | cons w ws ih =>
    intro pend H hok h
    have hw := hok w (List.mem_cons_self ..)
    have hws : ∀ h ∈ ws, HelperParseOK tab h := fun g hg => hok g (List.mem_cons_of_mem _ hg)
    rw [hdrAfter] at h
    rw [List.flatMap_cons, List.append_assoc]
    unfold HelperParseOK at hw
    unfold helperToks
    by_cases hh : w.name = sHalfGridSnap
    · rw [if_pos hh] at hw h ⊢
      rw [← hh] at hw
      exact PH_half hw _ _ _ _ _ _ (ih _ _ hws h)
    · rw [if_neg hh] at hw h ⊢
      exact PH_helper hw _ _ _ _ _ _ _ (ih _ _ hws h)

theorem dedupe_fold : ∀ (l acc : List Str), (l.map P.foldStr).Nodup →
    (∀ b ∈ l, ∀ x ∈ acc, P.foldStr x ≠ P.foldStr b) →
    l.foldl (fun acc b => if acc.any (fun x => P.foldStr x == P.foldStr b) then acc else acc ++ [b]) acc
      = acc ++ l := by
  intro l
  induction l with
  | nil => intro acc _ _; simp
  | cons b l ih =>
    intro acc hnd hacc
    rw [List.map_cons] at hnd
    obtain ⟨h1, h2⟩ := List.nodup_cons.mp hnd
    have hany : acc.any (fun x => P.foldStr x == P.foldStr b) = false := by
      rw [List.any_eq_false]
      intro x hx
      simpa using hacc b (List.mem_cons_self ..) x hx
    rw [List.foldl_cons, hany]
    simp only [Bool.false_eq_true, if_false]
    rw [ih (acc ++ [b]) h2]
    · simp
    · intro b' hb' x hx
      rcases List.mem_append.mp hx with hx | hx
      · exact hacc b' (List.mem_cons_of_mem _ hb') x hx
      · have : x = b := by simpa using hx
        subst this
        intro e
        exact h1 (e ▸ List.mem_map_of_mem hb')

/-- The hypotheses on the `base(…)` / `aliasof(…)` list. -/
def BasesOK (P : ParseCfg) (c : ExpCfg) (tab : EntTab) (defined : List Str) (e : EntRec) : Prop :=
  e.bases ≠ [] →
    (if e.alias && c.ext then tab.helperTypes.contains sAliasof = false
      else tab.helperTypes.contains sBase = true) ∧
    helperArgs (joinWith commaSp e.bases) = e.bases ∧
    (∀ b ∈ e.bases, defined.contains (P.foldStr b) = true) ∧
    (e.bases.map P.foldStr).Nodup

instance (P : ParseCfg) (c : ExpCfg) (tab : EntTab) (defined : List Str) (e : EntRec) :
    Decidable (BasesOK P c tab defined e) := by unfold BasesOK; infer_instance

/-- `BasesOK` from the readable form: clean names (no comma, no outer blanks), not the single empty name. -/
theorem BasesOK_of {c : ExpCfg} {e : EntRec}
    (hkw : if e.alias && c.ext then tab.helperTypes.contains sAliasof = false
      else tab.helperTypes.contains sBase = true)
    (hclean : ∀ b ∈ e.bases, ',' ∉ b ∧ strip b = b) (hne : e.bases ≠ [[]])
    (hdef : ∀ b ∈ e.bases, defined.contains (P.foldStr b) = true)
    (hnd : (e.bases.map P.foldStr).Nodup) : BasesOK P c tab defined e :=
  fun _ => ⟨hkw, helperArgs_join hclean hne, hdef, hnd⟩

theorem PH_bases {c : ExpCfg} {e : EntRec} (hb : BasesOK P c tab defined e) (tl : List Tk) (x : HdrSt × List Tk)
    (h : PH P tab defined tl (hS none e.bases (!e.bases.isEmpty && e.alias && c.ext) []) x) :
    PH P tab defined (basesToks c e ++ tl) {} x := by
  unfold basesToks
  cases hbs : e.bases with
  | nil =>
    rw [hbs] at h
    have e0 : ({} : HdrSt) = hS none [] false [] := rfl
    rw [e0]
    simpa using h
  | cons b0 bs =>
    have hne : e.bases ≠ [] := by rw [hbs]; exact List.cons_ne_nil _ _
    obtain ⟨hkw, hargs, hdef, hnd⟩ := hb hne
    have hall : (e.bases.all fun b => defined.contains (P.foldStr b)) = true := by
      rw [List.all_eq_true]; exact hdef
    have hfold := dedupe_fold (P := P) e.bases [] hnd (by intro _ _ x hx; cases hx)
    rw [← hbs]
    have hemp : e.bases.isEmpty = false := by rw [hbs]; rfl
    rw [hemp] at h ⊢
    simp only [Bool.false_eq_true, if_false, List.cons_append, List.nil_append, Bool.not_false,
      Bool.true_and] at h ⊢
    intro f hf
    simp only [List.length_cons] at hf
    obtain ⟨g, rfl⟩ : ∃ g, f = g + 2 := ⟨f - 2, by omega⟩
    cases ha : (e.alias && c.ext)
    · rw [ha] at hkw h
      simp only [Bool.false_eq_true, if_false] at hkw ⊢
      have e0 : ({} : HdrSt) = hS none [] false [] := rfl
      rw [e0, ph_known hkw, ph_paren]
      simp only [hS, Option.isNone_some, Bool.false_and, Bool.false_eq_true, if_false, reduceCtorEq,
        if_true, hargs, hall, hfold, List.nil_append]
      exact h g (by omega)
    · rw [ha] at hkw h
      simp only [if_true] at hkw ⊢
      rw [ph_string]
      simp only [hkw, Bool.false_eq_true, if_false, ph_paren]
      simp only [Option.isNone_some, Option.isNone_none, Bool.and_false, Bool.false_eq_true, if_false,
        if_true, hargs, hall, hfold, List.nil_append]
      exact h g (by omega)

theorem hdrAfter_pend : ∀ (ws : List Helper) (pend : Option Str) (H : List Helper),
    (pend = none ∨ pend = some sHalfGridSnap) →
    ((hdrAfter pend H ws).1 = none ∨ (hdrAfter pend H ws).1 = some sHalfGridSnap) := by
  intro ws
  induction ws with
  | nil => intro pend H h; exact h
  | cons w ws ih =>
    intro pend H _
    rw [hdrAfter]
    by_cases hh : w.name = sHalfGridSnap
    · rw [if_pos hh]; exact ih _ _ (Or.inr (by rw [hh]))
    · rw [if_neg hh]; exact ih _ _ (Or.inl rfl)

end header

/-! ## the description loop -/

def PD (ts : List Tk) (d : Option (List Str)) (x : Str × List Tk) : Prop :=
  ∀ f, ts.length < f → parseDesc f ts d = .ok x

theorem pd_nl (v : Str) (rest : List Tk) (d : Option (List Str)) (f : Nat) :
    parseDesc (f + 1) ((.newline, v) :: rest) d = parseDesc f rest d := rfl

theorem pd_open (v : Str) (rest : List Tk) (d : Option (List Str)) (f : Nat) :
    parseDesc (f + 1) ((.brackOpen, v) :: rest) d = .ok ((d.getD []).flatten, rest) := rfl

theorem pd_colon (v : Str) (rest : List Tk) (f : Nat) :
    parseDesc (f + 1) ((.colon, v) :: rest) none = parseDesc f rest (some []) := rfl

theorem pd_string (v : Str) (rest : List Tk) (f : Nat) :
    parseDesc (f + 1) ((.string, v) :: rest) (some []) = parseDesc f rest (some [v]) := rfl

theorem pd_plus (v w q : Str) (rest : List Tk) (d : Str) (ds : List Str) (f : Nat) :
    parseDesc (f + 1) ((.plus, v) :: (.newline, w) :: (.string, q) :: rest) (some (d :: ds))
      = parseDesc f rest (some (d :: (ds ++ [q]))) := rfl

theorem PD_end (rest : List Tk) (d : Option (List Str)) :
    PD (tkNl :: tkOpen :: rest) d ((d.getD []).flatten, rest) := by
  intro f hf
  simp only [List.length_cons] at hf
  obtain ⟨g, rfl⟩ : ∃ g, f = g + 2 := ⟨f - 2, by omega⟩
  rw [tkNl, pd_nl, tkOpen, pd_open]

theorem PD_plusChain : ∀ (qs : List Str) (d : Str) (ds : List Str) (tl : List Tk) (x : Str × List Tk),
    PD tl (some (d :: (ds ++ qs))) x → PD (plusChain qs ++ tl) (some (d :: ds)) x := by
  intro qs
  induction qs with
  | nil => intro d ds tl x h; simpa [plusChain] using h
  | cons q qs ih =>
    intro d ds tl x h f hf
    simp only [plusChain, List.cons_append, List.length_cons] at hf ⊢
    cases f with
    | zero => omega
    | succ f =>
      rw [pd_plus]
      apply ih d (ds ++ [q]) tl x
      · simpa [List.append_assoc] using h
      · omega

/-- The description loop on `: "description"⏎[` (or just `⏎[`). -/
theorem PD_desc {c : ExpCfg} {desc : Str} (hd : desc ≠ [] → lsPieces c c.ext desc ≠ []) (rest : List Tk) :
    PD ((if desc.isEmpty then [] else tkColon :: lsToks c c.ext desc) ++ tkNl :: tkOpen :: rest) none
      (if desc.isEmpty then [] else lsRead c c.ext desc, rest) := by
  cases he : desc.isEmpty
  · simp only [Bool.false_eq_true, if_false]
    have hne := hd (ne_nil_of_isEmpty_false he)
    unfold lsToks lsRead
    cases hp : lsPieces c c.ext desc with
    | nil => exact absurd hp hne
    | cons p qs =>
      intro f hf
      simp only [chainToks, List.cons_append, List.length_cons] at hf ⊢
      obtain ⟨g, rfl⟩ : ∃ g, f = g + 2 := ⟨f - 2, by omega⟩
      rw [tkColon, pd_colon, pd_string]
      have := PD_plusChain qs p [] (tkNl :: tkOpen :: rest) _ (PD_end rest (some (p :: ([] ++ qs))))
      exact this g (by omega)
  · simp only [if_true, List.nil_append]
    exact PD_end rest none

/-! ## the body loop with `@resources` -/

/-- With any fuel above the number of tokens the body loop on `ts` returns `x`. -/
def PBE (P : ParseCfg) (tab : EntTab) (ts : List Tk) (acc : List Item) (res : Option (List Res))
    (x : (List Item × Option (List Res)) × List Tk) : Prop :=
  ∀ f, ts.length < f → parseBodyE P tab f ts acc res = .ok x

section body
variable {P : ParseCfg} {tab : EntTab}

theorem pbe_close (v : Str) (rest : List Tk) (acc : List Item) (res : Option (List Res)) (f : Nat) :
    parseBodyE P tab (f + 1) ((.brackClose, v) :: rest) acc res = .ok ((acc, res), rest) := rfl

theorem pbe_nl (v : Str) (rest : List Tk) (acc : List Item) (res : Option (List Res)) (f : Nat) :
    parseBodyE P tab (f + 1) ((.newline, v) :: rest) acc res = parseBodyE P tab f rest acc res := rfl

theorem pbe_string (v : Str) (rest : List Tk) (acc : List Item) (res : Option (List Res)) (f : Nat) :
    parseBodyE P tab (f + 1) ((.string, v) :: rest) acc res =
      if P.foldStr v = sInput then
        match parseIO P rest with
        | .error e => .error e
        | .ok ((tags, io), rest') => parseBodyE P tab f rest' (acc ++ [.inp tags io]) res
      else if P.foldStr v = sOutput then
        match parseIO P rest with
        | .error e => .error e
        | .ok ((tags, io), rest') => parseBodyE P tab f rest' (acc ++ [.out tags io]) res
      else if P.foldStr v = sResources then
        match expectKind .brackOpen rest with
        | none => .error (.unexpected .brackOpen)
        | some (_, rest1) =>
          match parseResLoop P tab (rest1.length + 1) rest1 (res.getD []) with
          | .error e => .error e
          | .ok (l, rest2) => parseBodyE P tab f rest2 acc (some l)
      else
        match parseKV P v rest with
        | .error e => .error e
        | .ok ((tags, kv), rest') => parseBodyE P tab f rest' (acc ++ [.kv tags kv]) res := rfl

theorem PBE_nl {v : Str} {rest : List Tk} {acc : List Item} {res : Option (List Res)}
    {x : (List Item × Option (List Res)) × List Tk}
    (h : PBE P tab rest acc res x) : PBE P tab ((.newline, v) :: rest) acc res x := by
  intro f hf
  cases f with
  | zero => omega
  | succ f => rw [pbe_nl]; exact h f (by simp only [List.length_cons] at hf; omega)

theorem PBE_close (v : Str) (rest : List Tk) (acc : List Item) (res : Option (List Res)) :
    PBE P tab ((.brackClose, v) :: rest) acc res ((acc, res), rest) := by
  intro f hf
  cases f with
  | zero => omega
  | succ f => rw [pbe_close]

theorem PBE_item {c : ExpCfg} {it : Item} (hit : ItemParseOK P c it) (tl : List Tk)
    (htl : tl.head?.map (·.1) ≠ some Kind.plus) (acc : List Item) (res : Option (List Res))
    (x : (List Item × Option (List Res)) × List Tk)
    (h : PBE P tab tl (acc ++ [normItem P c it]) res x) : PBE P tab (itemToks c it ++ tl) acc res x := by
  intro f hf
  cases f with
  | zero => omega
  | succ f =>
    cases it with
    | kv tags k =>
      obtain ⟨hk, h1, h2, h3⟩ := hit
      have e : itemToks c (.kv tags k) = (.string, k.name) :: (kvToks c tags k).tail := rfl
      rw [e] at hf ⊢
      rw [List.cons_append, pbe_string, if_neg h1, if_neg h2, if_neg h3, parse_kv hk htl]
      simp only [normItem] at h
      have hlen := kvToks_tail_length c tags k
      simp only [List.length_cons, List.length_append] at hf
      unfold kvRest
      by_cases hl : k.typ = c.tt.spawnflags ∨ k.typ = c.tt.choices
      · rw [if_pos hl]
        cases f with
        | zero => omega
        | succ f' => simp only [tkNl, pbe_nl]; exact h f' (by omega)
      · rw [if_neg hl]; exact h f (by omega)
    | inp tags io =>
      obtain ⟨hio, h1⟩ := hit
      have e : itemToks c (.inp tags io) = (.string, sInput) :: (ioToks c sInput tags io).tail := rfl
      rw [e] at hf ⊢
      rw [List.cons_append, pbe_string, if_pos h1, parse_io hio htl]
      simp only [List.length_cons, List.length_append] at hf
      exact h f (by omega)
    | out tags io =>
      obtain ⟨hio, h1⟩ := hit
      have e : itemToks c (.out tags io) = (.string, sOutput) :: (ioToks c sOutput tags io).tail := rfl
      rw [e] at hf ⊢
      have hne : sOutput ≠ sInput := by decide
      rw [List.cons_append, pbe_string, h1, if_neg hne, if_pos rfl, parse_io hio htl]
      simp only [List.length_cons, List.length_append] at hf
      exact h f (by omega)

theorem PBE_items {c : ExpCfg} (T : List Tk) (hT : T.head?.map (·.1) ≠ some Kind.plus)
    (res : Option (List Res)) (x : (List Item × Option (List Res)) × List Tk) :
    ∀ (l : List Item) (acc : List Item),
    (∀ it ∈ l, ItemParseOK P c it) → PBE P tab T (acc ++ l.map (normItem P c)) res x →
    PBE P tab (l.flatMap (itemToks c) ++ T) acc res x := by
  intro l
  induction l with
  | nil => intro acc _ h; simpa using h
  | cons it l ih =>
    intro acc hl h
    rw [List.flatMap_cons, List.append_assoc]
    apply PBE_item (hl it (List.mem_cons_self ..)) _ (head_lines' _ (itemToks_head c) l T hT)
    apply ih _ (fun g hg => hl g (List.mem_cons_of_mem _ hg))
    simpa [List.append_assoc] using h

theorem PBE_section {c : ExpCfg} (l : List Item) (hl : ∀ it ∈ l, ItemParseOK P c it)
    (T : List Tk) (hT : T.head?.map (·.1) ≠ some Kind.plus) (acc : List Item) (res : Option (List Res))
    (x : (List Item × Option (List Res)) × List Tk)
    (h : PBE P tab T (acc ++ l.map (normItem P c)) res x) : PBE P tab (sectionToks c l ++ T) acc res x := by
  unfold sectionToks
  cases l with
  | nil => simpa using h
  | cons it l =>
    simp only [List.isEmpty_cons, Bool.false_eq_true, if_false, List.cons_append, tkNl]
    exact PBE_nl (PBE_nl (PBE_items T hT res x _ acc hl h))

theorem bodyLinesToks_append (c : ExpCfg) (items : List Item) (T : List Tk) :
    bodyLinesToks c items ++ T = (items.filter Item.isKV).flatMap (itemToks c) ++
      (sectionToks c (items.filter Item.isInp) ++ (sectionToks c (items.filter Item.isOut) ++ T)) := by
  simp [bodyLinesToks, sectionToks, List.append_assoc]

/-- The body lines, up to whatever follows them (`T`: the `@resources` block or the closing bracket). -/
theorem PBE_lines {c : ExpCfg} {items : List Item} (h : ∀ it ∈ items, ItemParseOK P c it)
    (T : List Tk) (hT : T.head?.map (·.1) ≠ some Kind.plus) (res : Option (List Res))
    (x : (List Item × Option (List Res)) × List Tk)
    (hx : PBE P tab T ((bodyOrder items).map (normItem P c)) res x) :
    PBE P tab (bodyLinesToks c items ++ T) [] res x := by
  have hsub : ∀ p : Item → Bool, ∀ it ∈ items.filter p, ItemParseOK P c it :=
    fun p it hit => h it (List.mem_filter.mp hit).1
  have h3 := sectionToks_head c (items.filter Item.isOut) _ hT
  have h2 := sectionToks_head c (items.filter Item.isInp) _ h3
  rw [bodyLinesToks_append]
  apply PBE_items _ h2 _ _ _ [] (hsub _)
  apply PBE_section _ (hsub _) _ h3
  apply PBE_section _ (hsub _) _ hT
  simpa [bodyOrder, List.append_assoc] using hx

/-! ### the `@resources` block -/

/-- With any fuel above the number of tokens the resources loop on `ts` returns `x`. -/
def PR (P : ParseCfg) (tab : EntTab) (ts : List Tk) (acc : List Res) (x : List Res × List Tk) : Prop :=
  ∀ f, ts.length < f → parseResLoop P tab f ts acc = .ok x

theorem PR.run {ts : List Tk} {acc : List Res} {x : List Res × List Tk} (h : PR P tab ts acc x) :
    parseResLoop P tab (ts.length + 1) ts acc = .ok x := h _ (Nat.lt_succ_self _)

theorem pr_nl (v : Str) (rest : List Tk) (acc : List Res) (f : Nat) :
    parseResLoop P tab (f + 1) ((.newline, v) :: rest) acc = parseResLoop P tab f rest acc := rfl

theorem pr_close (v : Str) (rest : List Tk) (acc : List Res) (f : Nat) :
    parseResLoop P tab (f + 1) ((.brackClose, v) :: rest) acc = .ok (acc, rest) := rfl

theorem pr_string (v : Str) (rest : List Tk) (acc : List Res) (f : Nat) :
    parseResLoop P tab (f + 1) ((.string, v) :: rest) acc =
      match lookupRes P tab v with
      | none => .error .unknownType
      | some ty =>
        match expectKind .string rest with
        | none => .error (.unexpected .string)
        | some (file, rest1) =>
          match rest1 with
          | (.brackOpen, _) :: rest2 =>
            match readTags P rest2 [] false with
            | .error e => .error e
            | .ok (tags, rest3) => parseResLoop P tab f rest3 (acc ++ [{ file := file, typ := ty, tags := tags }])
          | _ :: rest2 => parseResLoop P tab f rest2 (acc ++ [{ file := file, typ := ty, tags := [] }])
          | [] => .ok (acc ++ [{ file := file, typ := ty, tags := [] }], []) := rfl

theorem PR_nl {v : Str} {rest : List Tk} {acc : List Res} {x : List Res × List Tk}
    (h : PR P tab rest acc x) : PR P tab ((.newline, v) :: rest) acc x := by
  intro f hf
  cases f with
  | zero => omega
  | succ f => rw [pr_nl]; exact h f (by simp only [List.length_cons] at hf; omega)

theorem PR_close (v : Str) (rest : List Tk) (acc : List Res) :
    PR P tab ((.brackClose, v) :: rest) acc (acc, rest) := by
  intro f hf
  cases f with
  | zero => omega
  | succ f => rw [pr_close]

/-- The hypotheses on one resource line: the written type name is found again, the tags read back. -/
def ResParseOK (P : ParseCfg) (c : ExpCfg) (tab : EntTab) (r : Res) : Prop :=
  lookupRes P tab (tab.resNames.getD r.typ []) = some r.typ ∧ TagsParseOK P c r.tags

instance (P : ParseCfg) (c : ExpCfg) (tab : EntTab) (r : Res) : Decidable (ResParseOK P c tab r) := by
  unfold ResParseOK; infer_instance

theorem PR_line {c : ExpCfg} {r : Res} (hr : ResParseOK P c tab r) (hext : c.ext = true) (tl : List Tk)
    (acc : List Res) (x : List Res × List Tk) (h : PR P tab tl (acc ++ [normRes c r]) x) :
    PR P tab (resLineToks tab r ++ tl) acc x := by
  obtain ⟨hlook, htags⟩ := hr
  intro f hf
  unfold resLineToks at hf ⊢
  unfold normRes at h
  rw [effTags_ext hext] at h
  cases f with
  | zero => omega
  | succ f =>
    rw [List.cons_append, pr_string, hlook]
    cases ht : r.tags with
    | nil =>
      rw [ht] at hf h
      simp only [List.isEmpty_nil, Bool.not_true, Bool.false_eq_true, if_false, List.nil_append,
        List.cons_append, expectKind, if_true, tkNl, List.length_cons] at hf ⊢
      have e : ({ file := r.file, typ := r.typ, tags := [] } : Res) = { r with tags := [] } := rfl
      rw [e]
      exact h f (by omega)
    | cons a b =>
      rw [← ht]
      have hemp : r.tags.isEmpty = false := by rw [ht]; rfl
      rw [hemp] at hf
      simp only [hemp, Bool.not_false, if_true, tagsToks, tkOpen, List.cons_append, List.append_assoc,
        List.nil_append, expectKind, readTags_tags htags hext, List.length_cons, List.length_append] at hf ⊢
      cases f with
      | zero => omega
      | succ f' =>
        rw [tkNl, pr_nl]
        exact h f' (by omega)

theorem PR_lines {c : ExpCfg} (hext : c.ext = true) (tl : List Tk) (x : List Res × List Tk) :
    ∀ (l : List Res) (acc : List Res), (∀ r ∈ l, ResParseOK P c tab r) →
    PR P tab tl (acc ++ l.map (normRes c)) x → PR P tab (l.flatMap (resLineToks tab) ++ tl) acc x := by
  intro l
  induction l with
  | nil => intro acc _ h; simpa using h
  | cons r l ih =>
    intro acc hl h
    rw [List.flatMap_cons, List.append_assoc]
    apply PR_line (hl r (List.mem_cons_self ..)) hext
    apply ih _ (fun g hg => hl g (List.mem_cons_of_mem _ hg))
    simpa [List.append_assoc] using h

/-- The hypotheses on the `@resources` block (only written with `custom_syntax`). -/
def ResBlockOK (P : ParseCfg) (c : ExpCfg) (tab : EntTab) (e : EntRec) : Prop :=
  match e.res with
  | some l => c.ext = true → P.foldStr sResources = sResources ∧ ∀ r ∈ l, ResParseOK P c tab r
  | none => True

instance (P : ParseCfg) (c : ExpCfg) (tab : EntTab) (e : EntRec) : Decidable (ResBlockOK P c tab e) := by
  unfold ResBlockOK; split <;> infer_instance

/-- What `parseEnt` returns for the resources. -/
def normResOpt (c : ExpCfg) (e : EntRec) : Option (List Res) :=
  match e.res with
  | some l => if c.ext then some (l.map (normRes c)) else none
  | none => none

/-- The `@resources` block (or nothing) followed by the closing bracket of the entity. -/
theorem PBE_res {c : ExpCfg} {e : EntRec} (hr : ResBlockOK P c tab e) (rest : List Tk) (acc : List Item) :
    PBE P tab (resToks c tab e ++ tkClose :: rest) acc none ((acc, normResOpt c e), rest) := by
  unfold resToks normResOpt
  unfold ResBlockOK at hr
  cases hres : e.res with
  | none => simp only [List.nil_append]; exact PBE_close _ _ _ _
  | some l =>
    rw [hres] at hr
    by_cases hext : c.ext = true
    · obtain ⟨hfold, hl⟩ := hr hext
      simp only [hext, if_true]
      have hpr : PR P tab (tkNl :: (l.flatMap (resLineToks tab) ++ tkClose :: tkNl :: tkClose :: rest)) []
          (l.map (normRes c), tkNl :: tkClose :: rest) := by
        apply PR_nl
        apply PR_lines hext _ _ l [] hl
        simpa [tkClose] using PR_close (P := P) (tab := tab) [']'] (tkNl :: tkClose :: rest) (l.map (normRes c))
      have h1 : sResources ≠ sInput := by decide
      have h2 : sResources ≠ sOutput := by decide
      intro f hf
      simp only [List.cons_append, List.nil_append, List.append_assoc, List.length_cons, List.length_append] at hf ⊢
      obtain ⟨g, rfl⟩ : ∃ g, f = g + 4 := ⟨f - 4, by omega⟩
      rw [tkNl, pbe_nl, pbe_string, hfold, if_neg h1, if_neg h2, if_pos rfl]
      have := hpr.run
      simp only [tkNl, tkClose] at this
      simp only [expectKind, tkOpen, tkClose, reduceCtorEq, if_false, if_true, Option.getD_none, this,
        pbe_nl, pbe_close]
    · simp only [hext, Bool.false_eq_true, if_false, List.nil_append]
      exact PBE_close _ _ _ _

theorem PBE.run {ts : List Tk} {acc : List Item} {res : Option (List Res)}
    {x : (List Item × Option (List Res)) × List Tk} (h : PBE P tab ts acc res x) :
    parseBodyE P tab (ts.length + 1) ts acc res = .ok x := h _ (Nat.lt_succ_self _)

theorem resToks_head (c : ExpCfg) (tab : EntTab) (e : EntRec) (rest : List Tk) :
    (resToks c tab e ++ tkClose :: rest).head?.map (·.1) ≠ some Kind.plus := by
  unfold resToks
  cases e.res with
  | none => simp [tkClose]
  | some l => by_cases hext : c.ext = true <;> simp [hext, tkClose, tkNl]

end body

/-! ## the items of an entity are written in the order they are read -/

theorem bodyOrder_entItems (P : ParseCfg) (e : EntRec) : bodyOrder (entItems P e) = entItems P e := by
  unfold bodyOrder entItems
  generalize sortGroups (orderList P e) e.groups = gs
  have hA : ∀ it ∈ gs.flatMap (fun g => g.variants.map fun v => Item.kv v.1 v.2),
      it.isKV = true ∧ it.isInp = false ∧ it.isOut = false := by
    intro it hit
    obtain ⟨g, _, hg⟩ := List.mem_flatMap.mp hit
    obtain ⟨v, _, rfl⟩ := List.mem_map.mp hg
    exact ⟨rfl, rfl, rfl⟩
  have hB : ∀ it ∈ e.inputs.map (fun v => Item.inp v.1 v.2),
      it.isKV = false ∧ it.isInp = true ∧ it.isOut = false := by
    intro it hit
    obtain ⟨v, _, rfl⟩ := List.mem_map.mp hit
    exact ⟨rfl, rfl, rfl⟩
  have hC : ∀ it ∈ e.outputs.map (fun v => Item.out v.1 v.2),
      it.isKV = false ∧ it.isInp = false ∧ it.isOut = true := by
    intro it hit
    obtain ⟨v, _, rfl⟩ := List.mem_map.mp hit
    exact ⟨rfl, rfl, rfl⟩
  generalize gs.flatMap (fun g => g.variants.map fun v => Item.kv v.1 v.2) = A at hA ⊢
  generalize e.inputs.map (fun v => Item.inp v.1 v.2) = B at hB ⊢
  generalize e.outputs.map (fun v => Item.out v.1 v.2) = C at hC ⊢
  have f1 : ∀ (p : Item → Bool) (l : List Item), (∀ it ∈ l, p it = true) → l.filter p = l :=
    fun p l h => List.filter_eq_self.mpr h
  have f0 : ∀ (p : Item → Bool) (l : List Item), (∀ it ∈ l, p it = false) → l.filter p = [] :=
    fun p l h => List.filter_eq_nil_iff.mpr (fun a ha => by simp [h a ha])
  simp only [List.filter_append]
  rw [f1 _ A (fun it h => (hA it h).1), f0 _ B (fun it h => (hB it h).1), f0 _ C (fun it h => (hC it h).1),
    f0 _ A (fun it h => (hA it h).2.1), f1 _ B (fun it h => (hB it h).2.1), f0 _ C (fun it h => (hC it h).2.1),
    f0 _ A (fun it h => (hA it h).2.2), f0 _ B (fun it h => (hB it h).2.2), f1 _ C (fun it h => (hC it h).2.2)]
  simp

/-! ## `parse_ent` -/

/-- The code between the header loop and the class name: a helper still waiting for its arguments. -/
def entFinish (st : HdrSt) : Except PErr HdrSt :=
  match st.hc with
  | some cn => .ok { st with helpers := st.helpers ++ [{ name := cn, args := [] }] }
  | none =>
    match st.ht with
    | some t =>
      if t = sAutovis ∨ t = sBase then .error (.unexpected .equals)
      else .ok { st with helpers := st.helpers ++ [{ name := t, args := [] }] }
    | none => .ok st

/-- Everything after the `=`. -/
def entTail (P : ParseCfg) (tab : EntTab) (kind : Nat) (st : HdrSt) (rest0 : List Tk) :
    Except PErr (ParsedEnt × List Tk) :=
  match expectKind .string rest0 with
  | none => .error (.unexpected .string)
  | some (cn, rest1) =>
    match parseDesc (rest1.length + 1) rest1 none with
    | .error e => .error e
    | .ok (desc, rest2) =>
      if kind = tab.extend then .error .snippet
      else
        match parseBodyE P tab (rest2.length + 1) rest2 [] none with
        | .error e => .error e
        | .ok ((items, res), rest3) =>
          .ok ({ kind := kind, classname := strip cn, bases := st.bases, alias := st.alias,
                 helpers := st.helpers, desc := desc, items := items, res := res }, rest3)

theorem parseEnt_eq (P : ParseCfg) (tab : EntTab) (defined : List Str) (kind : Nat) (toks : List Tk) :
    parseEnt P tab defined kind toks =
      match parseHeader P tab defined (2 * toks.length + 2) toks {} with
      | .error e => .error e
      | .ok (st, rest0) =>
        match entFinish st with
        | .error e => .error e
        | .ok st => entTail P tab kind st rest0 := rfl

theorem entFinish_hS {pend : Option Str} (hp : pend = none ∨ pend = some sHalfGridSnap) (B : List Str)
    (A : Bool) (H : List Helper) : entFinish (hS pend B A H) = .ok (hS pend B A (flush pend H)) := by
  rcases hp with rfl | rfl
  · rfl
  · have h1 : ¬ (sHalfGridSnap = sAutovis ∨ sHalfGridSnap = sBase) := by decide
    simp only [entFinish, hS, flush, if_neg h1]

/-- The hypotheses of `parse_ent`. `defined` = the (casefolded) class names already known. -/
def EntParseOK (P : ParseCfg) (c : ExpCfg) (tab : EntTab) (defined : List Str) (e : EntRec) : Prop :=
  e.kind ≠ tab.extend ∧ BasesOK P c tab defined e ∧
  (∀ h ∈ writtenHelpers c tab e, HelperParseOK tab h) ∧
  (e.desc ≠ [] → lsPieces c c.ext e.desc ≠ []) ∧
  (∀ it ∈ entItems P e, ItemParseOK P c it) ∧
  ResBlockOK P c tab e

instance (P : ParseCfg) (c : ExpCfg) (tab : EntTab) (defined : List Str) (e : EntRec) :
    Decidable (EntParseOK P c tab defined e) := by unfold EntParseOK; infer_instance

theorem entToks_append (c : ExpCfg) (tab : EntTab) (P : ParseCfg) (e : EntRec) (rest : List Tk) :
    entToks c tab P e ++ rest = basesToks c e ++ ((writtenHelpers c tab e).flatMap helperToks ++
      ((if e.helpers.isEmpty then [] else [tkNl]) ++ tkEq :: (.string, e.classname) ::
        ((if e.desc.isEmpty then [] else tkColon :: lsToks c c.ext e.desc) ++ tkNl :: tkOpen :: tkNl ::
          (bodyLinesToks c (entItems P e) ++ (resToks c tab e ++ tkClose :: tkNl :: rest))))) := by
  simp [entToks, List.append_assoc]

theorem entTail_toks {P : ParseCfg} {c : ExpCfg} {tab : EntTab} {defined : List Str} {e : EntRec}
    (h : EntParseOK P c tab defined e) (st : HdrSt) (rest : List Tk) :
    entTail P tab e.kind st ((.string, e.classname) ::
        ((if e.desc.isEmpty then [] else tkColon :: lsToks c c.ext e.desc) ++ tkNl :: tkOpen :: tkNl ::
          (bodyLinesToks c (entItems P e) ++ (resToks c tab e ++ tkClose :: tkNl :: rest))))
      = .ok ({ kind := e.kind, classname := strip e.classname, bases := st.bases, alias := st.alias,
               helpers := st.helpers, desc := if e.desc.isEmpty then [] else lsRead c c.ext e.desc,
               items := (entItems P e).map (normItem P c), res := normResOpt c e }, tkNl :: rest) := by
  obtain ⟨hkind, _, _, hdesc, hitems, hres⟩ := h
  have hpd := PD_desc hdesc (tkNl :: (bodyLinesToks c (entItems P e) ++ (resToks c tab e ++ tkClose :: tkNl :: rest)))
  have hpb : PBE P tab (tkNl :: (bodyLinesToks c (entItems P e) ++ (resToks c tab e ++ tkClose :: tkNl :: rest)))
      [] none (((entItems P e).map (normItem P c), normResOpt c e), tkNl :: rest) := by
    apply PBE_nl
    apply PBE_lines hitems _ (resToks_head c tab e _)
    rw [bodyOrder_entItems]
    exact PBE_res hres _ _
  unfold entTail
  simp only [expectKind, if_true, hpd _ (Nat.lt_succ_self _), if_neg hkind, hpb.run]

/-- **The entity parser on the exported definition** (after the `@Kind` keyword) returns the normal form;
the line feed that ends the `]` line is left. -/
theorem parse_ent {P : ParseCfg} {c : ExpCfg} {tab : EntTab} {defined : List Str} {e : EntRec}
    (h : EntParseOK P c tab defined e) (rest : List Tk) :
    parseEnt P tab defined e.kind (entToks c tab P e ++ rest) = .ok (normEnt c tab P e, tkNl :: rest) := by
  have h' := h
  obtain ⟨_, hbases, hhelp, _, _, _⟩ := h'
  rw [parseEnt_eq]
  have hph : PH P tab defined (entToks c tab P e ++ rest) {}
      (hS (hdrAfter none [] (writtenHelpers c tab e)).1 e.bases (!e.bases.isEmpty && e.alias && c.ext)
        (hdrAfter none [] (writtenHelpers c tab e)).2,
        (.string, e.classname) ::
        ((if e.desc.isEmpty then [] else tkColon :: lsToks c c.ext e.desc) ++ tkNl :: tkOpen :: tkNl ::
          (bodyLinesToks c (entItems P e) ++ (resToks c tab e ++ tkClose :: tkNl :: rest)))) := by
    rw [entToks_append]
    apply PH_bases hbases
    apply PH_helpers _ _ _ _ _ _ _ hhelp
    cases e.helpers.isEmpty
    · simp only [Bool.false_eq_true, if_false, List.cons_append, List.nil_append, tkNl]
      exact PH_nl (PH_eq _ _ _)
    · simp only [if_true, List.nil_append]
      exact PH_eq _ _ _
  rw [hph _ (by omega)]
  simp only [entFinish_hS (hdrAfter_pend (writtenHelpers c tab e) none [] (Or.inl rfl)), entTail_toks h]
  have hf := flush_hdrAfter (writtenHelpers c tab e) none []
  have hf' : flush none [] ++ List.map normHelper (writtenHelpers c tab e)
      = List.map normHelper (writtenHelpers c tab e) := rfl
  simp only [hS, hf, hf', normEnt, normResOpt]
  cases e.res <;> rfl

/-! ## `parse_file` -/

/-- With any fuel above the number of tokens the top-level loop on `ts` returns `x`. -/
def PF (P : ParseCfg) (tab : EntTab) (ts : List Tk) (acc : List ParsedEnt) (x : List ParsedEnt) : Prop :=
  ∀ f, ts.length < f → parseFile P tab f ts acc = .ok x

theorem pf_nl (P : ParseCfg) (tab : EntTab) (v : Str) (rest : List Tk) (acc : List ParsedEnt) (f : Nat) :
    parseFile P tab (f + 1) ((.newline, v) :: rest) acc = parseFile P tab f rest acc := rfl

theorem pf_eof (P : ParseCfg) (tab : EntTab) (v : Str) (rest : List Tk) (acc : List ParsedEnt) (f : Nat) :
    parseFile P tab (f + 1) ((.eof, v) :: rest) acc = .ok acc := rfl

theorem pf_string (P : ParseCfg) (tab : EntTab) (v : Str) (rest : List Tk) (acc : List ParsedEnt) (f : Nat) :
    parseFile P tab (f + 1) ((.string, v) :: rest) acc =
      match lookupKind P tab v with
      | none => .error .snippet
      | some kind =>
        match parseEnt P tab (acc.map fun e => P.foldStr e.classname) kind rest with
        | .error e => .error e
        | .ok (e, rest') => parseFile P tab f rest' (acc ++ [e]) := rfl

/-- The hypotheses of `parse_file`, entity by entity: the keyword names the entity's kind, and the entity is
parsable given the classes defined before it (`done`, in file order). -/
def FileParseOKFrom (P : ParseCfg) (c : ExpCfg) (tab : EntTab) : List EntRec → List EntRec → Prop
  | _, [] => True
  | done, e :: es =>
    lookupKind P tab (kindTok tab e).2 = some e.kind ∧
    EntParseOK P c tab (done.map fun d => P.foldStr (strip d.classname)) e ∧
    FileParseOKFrom P c tab (done ++ [e]) es

instance decFileFrom (P : ParseCfg) (c : ExpCfg) (tab : EntTab) :
    ∀ (done ents : List EntRec), Decidable (FileParseOKFrom P c tab done ents)
  | _, [] => isTrue trivial
  | done, e :: es =>
    have := decFileFrom P c tab (done ++ [e]) es
    inferInstanceAs (Decidable (lookupKind P tab (kindTok tab e).2 = some e.kind ∧
      EntParseOK P c tab (done.map fun d => P.foldStr (strip d.classname)) e ∧
      FileParseOKFrom P c tab (done ++ [e]) es))

/-- The hypotheses of `parse_file`: every base class is defined EARLIER in the file. -/
def FileParseOK (P : ParseCfg) (c : ExpCfg) (tab : EntTab) (ents : List EntRec) : Prop :=
  FileParseOKFrom P c tab [] ents

instance (P : ParseCfg) (c : ExpCfg) (tab : EntTab) (ents : List EntRec) : Decidable (FileParseOK P c tab ents) :=
  decFileFrom P c tab [] ents

theorem entToks_length (c : ExpCfg) (tab : EntTab) (P : ParseCfg) (e : EntRec) : 2 ≤ (entToks c tab P e).length := by
  simp only [entToks, List.length_append, List.length_cons, List.length_nil]
  omega

theorem PF_ents {P : ParseCfg} {c : ExpCfg} {tab : EntTab} : ∀ (ents done : List EntRec),
    FileParseOKFrom P c tab done ents →
    PF P tab (fileToks c tab P ents ++ [tkEof]) (done.map (normEnt c tab P))
      (done.map (normEnt c tab P) ++ ents.map (normEnt c tab P)) := by
  intro ents
  induction ents with
  | nil =>
    intro done _ f hf
    cases f with
    | zero => omega
    | succ f => simp only [fileToks, List.flatMap_nil, List.nil_append, tkEof, pf_eof, List.map_nil, List.append_nil]
  | cons e es ih =>
    intro done h f hf
    obtain ⟨hkind, hent, hrest⟩ := h
    have e1 : fileToks c tab P (e :: es) ++ [tkEof]
        = tkNl :: kindTok tab e :: (entToks c tab P e ++ (fileToks c tab P es ++ [tkEof])) := by
      simp [fileToks, List.append_assoc]
    rw [e1] at hf ⊢
    have hlen := entToks_length c tab P e
    simp only [List.length_cons, List.length_append] at hf
    obtain ⟨g, rfl⟩ : ∃ g, f = g + 3 := ⟨f - 3, by omega⟩
    have hdef : ((done.map (normEnt c tab P)).map fun e => P.foldStr e.classname)
        = done.map fun d => P.foldStr (strip d.classname) := by
      rw [List.map_map]; rfl
    have e2 : kindTok tab e = (.string, (kindTok tab e).2) := rfl
    rw [tkNl, pf_nl, e2, pf_string, hkind]
    simp only [hdef, parse_ent hent, tkNl, pf_nl]
    have := ih (done ++ [e]) hrest g
      (by simp only [List.length_append, List.length_cons, List.length_nil] at hf ⊢; omega)
    simpa [List.map_append, List.append_assoc] using this

/-- **The file parser on the exported entity definitions** returns their normal forms, in order. -/
theorem parse_file {P : ParseCfg} {c : ExpCfg} {tab : EntTab} {ents : List EntRec}
    (h : FileParseOK P c tab ents) (fuel : Nat) (hfuel : (fileToks c tab P ents ++ [tkEof]).length < fuel) :
    parseFile P tab fuel (fileToks c tab P ents ++ [tkEof]) [] = .ok (ents.map (normEnt c tab P)) := by
  have := PF_ents ents [] h fuel hfuel
  simpa using this

/-- The form with the fuel the driver uses. -/
theorem parse_file_run {P : ParseCfg} {c : ExpCfg} {tab : EntTab} {ents : List EntRec}
    (h : FileParseOK P c tab ents) :
    parseFile P tab ((fileToks c tab P ents ++ [tkEof]).length + 1) (fileToks c tab P ents ++ [tkEof]) []
      = .ok (ents.map (normEnt c tab P)) :=
  parse_file h _ (Nat.lt_succ_self _)

/-! ## non-vacuity (tiny concrete tables; ASCII lower / upper case as `casefold` / `upper`) -/

/-- Decidable equality of parser results, for the evaluated examples only. -/
local instance exceptDecEqE {ε α : Type} [DecidableEq ε] [DecidableEq α] : DecidableEq (Except ε α) :=
  fun a b =>
    match a, b with
    | .ok x, .ok y => if h : x = y then isTrue (h ▸ rfl) else isFalse (fun e => h (Except.ok.inj e))
    | .error x, .error y => if h : x = y then isTrue (h ▸ rfl) else isFalse (fun e => h (Except.error.inj e))
    | .ok _, .error _ => isFalse (by intro e; cases e)
    | .error _, .ok _ => isFalse (by intro e; cases e)

def pxTab : EntTab :=
  { kinds := [(['P', 'o', 'i', 'n', 't', 'C', 'l', 'a', 's', 's'], ['p', 'o', 'i', 'n', 't', 'c', 'l', 'a', 's', 's']),
              (['E', 'x', 't', 'e', 'n', 'd', 'C', 'l', 'a', 's', 's'], ['e', 'x', 't', 'e', 'n', 'd', 'c', 'l', 'a', 's', 's']),
              (['B', 'a', 's', 'e', 'C', 'l', 'a', 's', 's'], ['b', 'a', 's', 'e', 'c', 'l', 'a', 's', 's'])],
    extend := 1,
    helperTypes := [sBase, sHalfGridSnap, ['s', 'i', 'z', 'e']],
    extHelpers := [['a', 'p', 'p', 'l', 'i', 'e', 's', 't', 'o']],
    resNames := [[], ['m', 'o', 'd', 'e', 'l']],
    resByName := [(['m', 'o', 'd', 'e', 'l'], 1)] }

/-- Case-insensitive parser configuration. -/
def pxPL : ParseCfg := { tt := pxTT, fold := fun ch => [ch.toLower], up := fun ch => [ch.toUpper] }

/-- A base class: `halfgridsnap` directly before the `=`, no description, one keyvalue. -/
def pxBase : EntRec :=
  { kind := 2, classname := ['B', 'a', 's', 'e', '1'], bases := [], alias := false,
    helpers := [{ name := sHalfGridSnap, args := [] }], desc := [],
    groups := [{ key := ['c'], variants := [([], pxCh)] }], kvOrder := [['c']],
    inputs := [], outputs := [], res := none }

/-- A point entity: a base, helpers (a known type with two arguments, `halfgridsnap` followed by another
helper, an extension helper of unknown type), a description long enough to be split, a tagged keyvalue,
an input, an output and a resources block (one line with tags). -/
def pxEnt : EntRec :=
  { kind := 0, classname := ['e', 'n', 't', '_', 'a'], bases := [['B', 'a', 's', 'e', '1']], alias := false,
    helpers := [{ name := ['s', 'i', 'z', 'e'], args := [['-', '8', ' ', '-', '8'], ['8', ' ', '8']] },
                { name := sHalfGridSnap, args := [] },
                { name := ['a', 'p', 'p', 'l', 'i', 'e', 's', 't', 'o'], args := [['P', '2']] }],
    desc := ['A', 'n', ' ', 'e', 'n', 't', 'i', 't', 'y', ' ', 'w', 'i', 't', 'h', ' ', 't', 'e', 'x', 't', '.'],
    groups := [{ key := ['s', 'f'], variants := [([], pxSf)] }, { key := ['k'], variants := [(pxTags, pxKV)] }],
    kvOrder := [['k'], ['s', 'f']],
    inputs := [([], { name := ['I'], typ := 0, desc := ['d'] })],
    outputs := [([['A']], { name := ['O'], typ := 4, desc := [] })],
    res := some [{ file := ['m', '/', 'a', '.', 'm', 'd', 'l'], typ := 1, tags := [] },
                 { file := ['b', '.', 'm', 'd', 'l'], typ := 1, tags := [['A']] }] }

/-- An alias of `pxEnt` (custom syntax: written `aliasof(…)`), nothing else. -/
def pxAlias : EntRec :=
  { kind := 0, classname := ['e', 'n', 't', '_', 'b'], bases := [['E', 'N', 'T', '_', 'A']], alias := true,
    helpers := [], desc := [], groups := [], kvOrder := [], inputs := [], outputs := [], res := none }

/-- The hypotheses are satisfiable and the parser returns the normal form (evaluated); the description is
written in several pieces, and this entity is read back unchanged up to the record layout. -/
example :
    EntParseOK pxPL pxC pxTab [['b', 'a', 's', 'e', '1']] pxEnt ∧
    (lsPieces pxC true pxEnt.desc).length > 1 ∧
    parseEnt pxPL pxTab [['b', 'a', 's', 'e', '1']] pxEnt.kind (entToks pxC pxTab pxPL pxEnt ++ [tkEof])
      = .ok (normEnt pxC pxTab pxPL pxEnt, [tkNl, tkEof]) ∧
    (normEnt pxC pxTab pxPL pxEnt).helpers = pxEnt.helpers ∧
    (normEnt pxC pxTab pxPL pxEnt).desc = pxEnt.desc ∧
    (normEnt pxC pxTab pxPL pxEnt).res = pxEnt.res ∧
    ((normEnt pxC pxTab pxPL pxEnt).items.map fun it => match it with
      | .kv _ k => k.name | .inp _ io => io.name | .out _ io => io.name) = [['k'], ['s', 'f'], ['I'], ['O']] := by
  decide +kernel

/-- A file of three entities: the second names the first as its base, the third is an alias of the second
(base names are matched case-insensitively against the classes defined EARLIER). -/
example :
    FileParseOK pxPL pxC pxTab [pxBase, pxEnt, pxAlias] ∧
    parseFile pxPL pxTab ((fileToks pxC pxTab pxPL [pxBase, pxEnt, pxAlias] ++ [tkEof]).length + 1)
        (fileToks pxC pxTab pxPL [pxBase, pxEnt, pxAlias] ++ [tkEof]) []
      = .ok ([pxBase, pxEnt, pxAlias].map (normEnt pxC pxTab pxPL)) ∧
    (normEnt pxC pxTab pxPL pxAlias).alias = true ∧
    ¬ FileParseOK pxPL pxC pxTab [pxEnt, pxBase] := by
  decide +kernel

end C16.KV
