import Srctools.Model.C20
/-! Helper lemmas for the C20 models. -/
namespace C20

/-! ## integers and reading -/

theorem unle32_le32 (n : Nat) (h : n < 4294967296) : unle32 (le32 n) = n := by
  simp only [le32, unle32, UInt8.toNat_ofNat']
  omega

theorem le32_length (n : Nat) : (le32 n).length = 4 := rfl

theorem takeN_append (n : Nat) (a r : Bytes) (h : a.length = n) :
    takeN n (a ++ r) = some (a, r) := by
  unfold takeN
  have : n ≤ (a ++ r).length := by simp [List.length_append]; omega
  simp [← h]

/-! ## fixed-width fields -/

/-- Representable field content: ASCII, no NUL, at most `n` bytes. -/
def strOK (n : Nat) (s : Bytes) : Prop := s.length ≤ n ∧ ∀ b ∈ s, b ≠ 0 ∧ b < 128

instance (n : Nat) (s : Bytes) : Decidable (strOK n s) := by unfold strOK; infer_instance

theorem all_ascii_of_strOK {n : Nat} {s : Bytes} (h : strOK n s) : s.all isAscii = true := by
  simp only [List.all_eq_true, isAscii, decide_eq_true_eq]
  intro b hb; exact (h.2 b hb).2

theorem pad_of_strOK {n : Nat} {s : Bytes} (h : strOK n s) :
    pad s n = some (s ++ zeros (n - s.length)) := by
  unfold pad
  have h1 : ¬ s.length > n := by have := h.1; omega
  simp [h1, all_ascii_of_strOK h]

theorem pad_length {n : Nat} {s p : Bytes} (h : pad s n = some p) : p.length = n := by
  unfold pad at h
  split at h
  · simp at h
  · split at h
    · simp at h; subst h; simp [zeros]; omega
    · simp at h

theorem takeWhile_nonzero_append_zeros (s : Bytes) (k : Nat) (h : ∀ b ∈ s, b ≠ 0) :
    (s ++ zeros k).takeWhile (· != 0) = s := by
  induction s with
  | nil => cases k <;> simp [zeros, List.replicate]
  | cons a t ih =>
    have ha : a ≠ 0 := h a (by simp)
    simp only [List.cons_append, List.takeWhile_cons]
    simp [ha]
    exact ih (fun b hb => h b (by simp [hb]))

theorem strip_pad_aux {n : Nat} {s : Bytes} (h : strOK n s) (k : Nat) :
    strip (s ++ zeros k) = some s := by
  unfold strip
  have : (s ++ zeros k).takeWhile (· != 0) = s :=
    takeWhile_nonzero_append_zeros s k (fun b hb => (h.2 b hb).1)
  simp [this, all_ascii_of_strOK h]

/-! ## cmdseq: one command record -/

theorem takeN4_cons (a b c d : UInt8) (r : Bytes) :
    takeN 4 (a :: b :: c :: d :: r) = some ([a, b, c, d], r) := by
  simp [takeN]

/-- Reading one command record laid out as `writeCmd` lays it out: all the `read`s succeed. -/
theorem parseCmd_layout (T : CmdTables) (en : UInt8) (sp lng has upw nw : Nat)
    (exeB argsB ensB rest : Bytes)
    (h1 : exeB.length = T.fieldWidth) (h2 : argsB.length = T.fieldWidth)
    (h3 : ensB.length = T.fieldWidth) :
    parseCmd T false (en :: 0 :: 0 :: 0 :: (le32 sp ++ (exeB ++ (argsB ++ (le32 lng ++
      (le32 has ++ (ensB ++ (le32 upw ++ le32 nw))))))) ++ rest)
    = (decodeCmd T [en, 0, 0, 0] (le32 sp) exeB argsB (le32 has) ensB (le32 upw) (le32 nw)).map
        fun c => (c, rest) := by
  unfold parseCmd
  simp only [List.cons_append, List.append_assoc, takeN4_cons, Option.bind_some]
  rw [takeN_append 4 (le32 sp) _ rfl]
  simp only [Option.bind_some]
  rw [takeN_append _ exeB _ h1]
  simp only [Option.bind_some]
  rw [takeN_append _ argsB _ h2]
  simp only [Option.bind_some]
  rw [takeN_append 4 (le32 lng) _ rfl]
  simp only [Option.bind_some]
  rw [takeN_append 4 (le32 has) _ rfl]
  simp only [Option.bind_some]
  rw [takeN_append _ ensB _ h3]
  simp only [Option.bind_some]
  rw [takeN_append 4 (le32 upw) _ rfl]
  simp only [Option.bind_some]
  rw [takeN_append 4 (le32 nw) _ rfl]
  simp

/-- Decidable well-formedness of the cmdseq constants: special codes are non-zero 32-bit values
whose display names fit the field, and the version written is not read as "before 0.2". -/
def cmdTablesOK (T : CmdTables) : Bool :=
  T.specials.all (fun p => p.1 != 0 && decide (p.1 < 4294967296) &&
    decide (p.2.length ≤ T.fieldWidth) && p.2.all isAscii) &&
  !isPreV2 T.versionBits && decide (T.versionBits < 4294967296)

theorem specialName_facts {T : CmdTables} (h : cmdTablesOK T = true) {k : Nat} {nm : Bytes}
    (hk : T.specialName k = some nm) :
    k ≠ 0 ∧ k < 4294967296 ∧ ∃ p, pad nm T.fieldWidth = some p ∧ p.length = T.fieldWidth := by
  unfold cmdTablesOK at h
  simp only [Bool.and_eq_true, List.all_eq_true] at h
  unfold CmdTables.specialName at hk
  cases hf : T.specials.find? (·.1 == k) with
  | none => simp [hf] at hk
  | some p =>
    simp [hf] at hk
    have hm := List.mem_of_find?_eq_some hf
    have hp := List.find?_some hf
    have := h.1.1 p hm
    simp at this hp
    obtain ⟨⟨⟨a1, a2⟩, a3⟩, a4⟩ := this
    subst hk
    refine ⟨by omega, by omega, ?_⟩
    have hpad : pad p.2 T.fieldWidth = some (p.2 ++ zeros (T.fieldWidth - p.2.length)) := by
      unfold pad
      have : ¬ p.2.length > T.fieldWidth := by omega
      have hall : p.2.all isAscii = true := by simpa using a4
      simp [this, hall]
    exact ⟨_, hpad, pad_length hpad⟩

/-- Representable command: fields fit, ASCII without NUL; a special command is a known one. -/
def cmdOK (T : CmdTables) (c : Cmd) : Prop :=
  (match c.exe with
    | .str s => strOK T.fieldWidth s
    | .special k => (T.specialName k).isSome = true) ∧
  strOK T.fieldWidth c.args ∧
  (match c.ensure with
    | some e => strOK T.fieldWidth e
    | none => True)

theorem bit_lt (b : Bool) : bit b < 4294967296 := by cases b <;> simp [bit]
theorem bit_ne (b : Bool) : (bit b != 0) = b := by cases b <;> simp [bit]
theorem u8bit (b : Bool) : (UInt8.ofNat (bit b) != 0) = b := by cases b <;> simp [bit] <;> decide
theorem zeros_length (n : Nat) : (zeros n).length = n := by simp [zeros]

theorem ensureField_ok {T : CmdTables} {ensure : Option Bytes}
    (h : match ensure with | some e => strOK T.fieldWidth e | none => True) :
    ∃ ensB has, ensureField T ensure = some (ensB, has) ∧ ensB.length = T.fieldWidth ∧
      (if unle32 (le32 has) != 0 then (strip ensB).map some else some none) = some ensure := by
  cases ensure with
  | none => exact ⟨_, 0, rfl, zeros_length _, by simp [unle32_le32]⟩
  | some e =>
    have hp := pad_of_strOK h
    exact ⟨_, 1, by simp [ensureField, hp], pad_length hp, by simp [unle32_le32, strip_pad_aux h]⟩

theorem exeField_ok {T : CmdTables} (hT : cmdTablesOK T = true) {exe : Exe}
    (h : match exe with
      | .str s => strOK T.fieldWidth s
      | .special k => (T.specialName k).isSome = true) :
    ∃ sp exeStr exeB, exeField T exe = some (sp, exeStr) ∧ pad exeStr T.fieldWidth = some exeB ∧
      exeB.length = T.fieldWidth ∧
      (if unle32 (le32 sp) != 0 then
          (if (T.specialName (unle32 (le32 sp))).isSome then some (Exe.special (unle32 (le32 sp)))
           else none)
        else (strip exeB).map Exe.str) = some exe := by
  cases exe with
  | str s =>
    have hp := pad_of_strOK h
    exact ⟨0, s, _, rfl, hp, pad_length hp, by simp [unle32_le32, strip_pad_aux h]⟩
  | special k =>
    cases hn : T.specialName k with
    | none => simp [hn] at h
    | some nm =>
      obtain ⟨k0, klt, p, hp, hpl⟩ := specialName_facts hT hn
      exact ⟨k, nm, p, by simp [exeField, hn], hp, hpl, by simp [unle32_le32 k klt, k0, hn]⟩

/-- One command record is read back as the command written, leaving the rest of the file. -/
theorem writeCmd_parseCmd {T : CmdTables} (hT : cmdTablesOK T = true) {c : Cmd} (hc : cmdOK T c) :
    ∃ b, writeCmd T c = some b ∧ ∀ rest, parseCmd T false (b ++ rest) = some (c, rest) := by
  obtain ⟨exe, args, enabled, ensure, upw, nw⟩ := c
  obtain ⟨hexe, hargs, hens⟩ := hc
  simp only at hexe hargs hens
  have hA := pad_of_strOK hargs
  have hAl := pad_length hA
  have hAs : strip (args ++ zeros (T.fieldWidth - args.length)) = some args := strip_pad_aux hargs _
  obtain ⟨ensB, has, hE1, hE2, hE3⟩ := ensureField_ok hens
  obtain ⟨sp, exeStr, exeB, hX1, hX2, hX3, hX4⟩ := exeField_ok hT hexe
  refine ⟨UInt8.ofNat (bit enabled) :: 0 :: 0 :: 0 :: (le32 sp ++ (exeB ++
      ((args ++ zeros (T.fieldWidth - args.length)) ++ (le32 1 ++ (le32 has ++ (ensB ++
        (le32 (bit upw) ++ le32 (bit nw)))))))), ?_, ?_⟩
  · simp only [writeCmd, hX1, hX2, hA, hE1, Option.bind_some]
  · intro rest
    rw [parseCmd_layout T _ _ _ _ _ _ _ _ _ rest hX3 hAl hE2]
    unfold decodeCmd
    rw [hX4, hE3, hAs]
    simp [unle32_le32 _ (bit_lt _), bit_ne, u8bit]

/-! ## cmdseq: lists of commands and sequences -/

theorem writeCmds_parseCmds {T : CmdTables} (hT : cmdTablesOK T = true) (cs : List Cmd)
    (h : ∀ c ∈ cs, cmdOK T c) :
    ∃ b, writeCmds T cs = some b ∧
      ∀ rest, parseCmds T false cs.length (b ++ rest) = some (cs, rest) := by
  induction cs with
  | nil => exact ⟨[], rfl, fun rest => rfl⟩
  | cons c cs ih =>
    obtain ⟨a, ha, hpa⟩ := writeCmd_parseCmd hT (h c (by simp))
    obtain ⟨b, hb, hpb⟩ := ih (fun x hx => h x (by simp [hx]))
    refine ⟨a ++ b, by simp [writeCmds, ha, hb], ?_⟩
    intro rest
    simp only [List.length_cons, parseCmds, List.append_assoc]
    rw [hpa (b ++ rest)]
    simp only [Option.bind_some]
    rw [hpb rest]
    rfl

theorem dictSet_new (d : CmdFile) (k : Bytes) (v : List Cmd) (h : ∀ p ∈ d, p.1 ≠ k) :
    dictSet d k v = d ++ [(k, v)] := by
  unfold dictSet
  have : d.any (·.1 == k) = false := by
    simp only [List.any_eq_false, beq_iff_eq]
    intro p hp; exact h p hp
  simp [this]

/-- Representable sequence: the name fits its field, the command count fits 32 bits. -/
def seqOK (T : CmdTables) (p : Bytes × List Cmd) : Prop :=
  strOK T.nameWidth p.1 ∧ p.2.length < 4294967296 ∧ ∀ c ∈ p.2, cmdOK T c

theorem writeSeqs_parseSeqs {T : CmdTables} (hT : cmdTablesOK T = true) (xs : CmdFile)
    (hok : ∀ p ∈ xs, seqOK T p) (hnd : (xs.map (·.1)).Nodup) :
    ∃ b, writeSeqs T xs = some b ∧
      ∀ (rest : Bytes) (acc : CmdFile), (∀ p ∈ acc, ∀ q ∈ xs, p.1 ≠ q.1) →
        parseSeqs T false xs.length (b ++ rest) acc = some (acc ++ xs) := by
  induction xs with
  | nil => exact ⟨[], rfl, fun rest acc _ => by simp [parseSeqs]⟩
  | cons x xs ih =>
    obtain ⟨name, cmds⟩ := x
    obtain ⟨hname, hlen, hcmds⟩ := hok (name, cmds) (by simp)
    simp only at hname hlen hcmds
    have hnd2 : name ∉ xs.map (·.1) ∧ (xs.map (·.1)).Nodup := by
      have : (name :: xs.map (·.1)).Nodup := hnd
      exact List.nodup_cons.mp this
    have hnd' : (xs.map (·.1)).Nodup := hnd2.2
    have hnotin : ∀ q ∈ xs, name ≠ q.1 := by
      intro q hq heq
      exact hnd2.1 (by rw [heq]; exact List.mem_map_of_mem hq)
    obtain ⟨tail, htail, hptail⟩ := ih (fun p hp => hok p (by simp [hp])) hnd'
    obtain ⟨body, hbody, hpbody⟩ := writeCmds_parseCmds hT cmds hcmds
    have hN := pad_of_strOK hname
    refine ⟨(name ++ zeros (T.nameWidth - name.length)) ++ (le32 cmds.length ++ (body ++ tail)),
      by simp [writeSeqs, hN, hbody, htail], ?_⟩
    intro rest acc hacc
    simp only [List.length_cons, parseSeqs, List.append_assoc]
    rw [← List.append_assoc name, takeN_append _ _ _ (pad_length hN)]
    simp only [Option.bind_some]
    rw [strip_pad_aux hname]
    simp only [Option.bind_some]
    rw [takeN_append 4 (le32 cmds.length) _ rfl]
    simp only [Option.bind_some]
    rw [unle32_le32 _ hlen, hpbody (tail ++ rest)]
    simp only [Option.bind_some]
    rw [dictSet_new acc name cmds (fun p hp => hacc p hp (name, cmds) (by simp))]
    rw [hptail rest (acc ++ [(name, cmds)])]
    · simp
    · intro p hp q hq
      rcases List.mem_append.mp hp with hp | hp
      · exact hacc p hp q (by simp [hq])
      · simp at hp; subst hp; exact hnotin q hq

/-- Representable file: distinct sequence names (it is a dict), counts fit 32 bits. -/
def fileOK (T : CmdTables) (x : CmdFile) : Prop :=
  x.length < 4294967296 ∧ (x.map (·.1)).Nodup ∧ ∀ p ∈ x, seqOK T p

theorem write_parse {T : CmdTables} (hT : cmdTablesOK T = true) (x : CmdFile) (hx : fileOK T x) :
    ∃ b, write T x = some b ∧ ∀ trailing, parse T (b ++ trailing) = some x := by
  obtain ⟨hlen, hnd, hok⟩ := hx
  obtain ⟨body, hbody, hp⟩ := writeSeqs_parseSeqs hT x hok hnd
  refine ⟨T.header ++ (le32 T.versionBits ++ (le32 x.length ++ body)), by simp [write, hbody], ?_⟩
  intro trailing
  unfold cmdTablesOK at hT
  simp only [Bool.and_eq_true, Bool.not_eq_true', decide_eq_true_eq] at hT
  unfold parse
  simp only [List.append_assoc]
  rw [takeN_append _ T.header _ rfl]
  simp only [Option.bind_some, bne_self_eq_false, Bool.false_eq_true, if_false]
  rw [takeN_append 4 (le32 T.versionBits) _ rfl]
  simp only [Option.bind_some]
  rw [takeN_append 4 (le32 x.length) _ rfl]
  simp only [Option.bind_some]
  rw [unle32_le32 _ hT.2, unle32_le32 _ hlen, hT.1.2, hp trailing [] (by simp)]
  simp

/-! ## sorting by CRC -/

def crcSorted (l : List Entry) : Prop := l.Pairwise (fun a b => a.crc ≤ b.crc)

theorem mem_insertByCrc {e x : Entry} {l : List Entry} :
    x ∈ insertByCrc e l ↔ x = e ∨ x ∈ l := by
  induction l with
  | nil => simp [insertByCrc]
  | cons y ys ih =>
    simp only [insertByCrc]
    split
    · simp
    · simp only [List.mem_cons, ih]
      constructor
      · rintro (h | h | h)
        · right; left; exact h
        · left; exact h
        · right; right; exact h
      · rintro (h | h | h)
        · right; left; exact h
        · left; exact h
        · right; right; exact h

theorem insertByCrc_sorted (e : Entry) (l : List Entry) (h : crcSorted l) :
    crcSorted (insertByCrc e l) := by
  unfold crcSorted at *
  induction l with
  | nil => simp [insertByCrc]
  | cons y ys ih =>
    simp only [insertByCrc]
    have hy := List.pairwise_cons.mp h
    split
    · rename_i hlt
      refine List.pairwise_cons.mpr ⟨?_, h⟩
      intro z hz
      rcases List.mem_cons.mp hz with rfl | hz
      · omega
      · have := hy.1 z hz; omega
    · rename_i hge
      refine List.pairwise_cons.mpr ⟨?_, ih hy.2⟩
      intro z hz
      rcases mem_insertByCrc.mp hz with rfl | hz
      · omega
      · exact hy.1 z hz

theorem insertByCrc_perm (e : Entry) (l : List Entry) : (insertByCrc e l).Perm (e :: l) := by
  induction l with
  | nil => simp [insertByCrc]
  | cons y ys ih =>
    simp only [insertByCrc]
    split
    · exact List.Perm.refl _
    · exact (List.Perm.cons y ih).trans (List.Perm.swap e y ys)

theorem foldl_insert_sorted (es acc : List Entry) (h : crcSorted acc) :
    crcSorted (es.foldl (fun acc e => insertByCrc e acc) acc) := by
  induction es generalizing acc with
  | nil => exact h
  | cons e es ih => exact ih _ (insertByCrc_sorted e acc h)

theorem foldl_insert_perm (es acc : List Entry) :
    (es.foldl (fun acc e => insertByCrc e acc) acc).Perm (es ++ acc) := by
  induction es generalizing acc with
  | nil => simp
  | cons e es ih =>
    refine (ih _).trans ?_
    refine (List.Perm.append_left es (insertByCrc_perm e acc)).trans ?_
    simp

/-! ## binary search -/

def natSorted (keys : List Nat) : Prop :=
  ∀ i j, i ≤ j → j < keys.length → keys.getD i 0 ≤ keys.getD j 0

theorem natSorted_of_pairwise {keys : List Nat} (h : keys.Pairwise (· ≤ ·)) : natSorted keys := by
  intro i j hij hj
  rcases Nat.lt_or_eq_of_le hij with hlt | rfl
  · have hi : i < keys.length := by omega
    have := (List.pairwise_iff_getElem.mp h) i j hi hj hlt
    simpa [List.getD_eq_getElem?_getD, List.getElem?_eq_getElem, hi, hj] using this
  · exact Nat.le_refl _

theorem bsearchAux_complete (keys : List Nat) (k : Nat) (hs : natSorted keys) :
    ∀ fuel lo hi i, hi ≤ keys.length → hi - lo < fuel → lo ≤ i → i < hi → keys.getD i 0 = k →
      ∃ j, bsearchAux keys k fuel lo hi = some j ∧ keys.getD j 0 = k ∧ j < keys.length := by
  intro fuel
  induction fuel with
  | zero => intro lo hi i _ h; omega
  | succ f ih =>
    intro lo hi i hhi hf hlo hih hk
    have hlt : lo < hi := by omega
    simp only [bsearchAux, hlt, if_true]
    have hm1 : lo ≤ (lo + hi) / 2 := by omega
    have hm2 : (lo + hi) / 2 < hi := by omega
    by_cases hv : keys.getD ((lo + hi) / 2) 0 = k
    · simp only [hv, if_true]
      exact ⟨_, rfl, hv, by omega⟩
    · simp only [hv, if_false]
      by_cases hvl : keys.getD ((lo + hi) / 2) 0 < k
      · simp only [hvl, if_true]
        have : (lo + hi) / 2 < i := by
          apply Nat.lt_of_not_le
          intro hle
          have := hs i ((lo + hi) / 2) hle (by omega)
          omega
        exact ih _ _ i hhi (by omega) (by omega) hih hk
      · simp only [hvl, if_false]
        have : i < (lo + hi) / 2 := by
          apply Nat.lt_of_not_le
          intro hle
          have := hs ((lo + hi) / 2) i hle (by omega)
          omega
        exact ih _ _ i (by omega) (by omega) hlo this hk

theorem bsearchAux_sound (keys : List Nat) (k : Nat) :
    ∀ fuel lo hi j, hi ≤ keys.length → bsearchAux keys k fuel lo hi = some j →
      keys.getD j 0 = k ∧ j < keys.length := by
  intro fuel
  induction fuel with
  | zero => intro lo hi j _ h; simp [bsearchAux] at h
  | succ f ih =>
    intro lo hi j hhi h
    simp only [bsearchAux] at h
    split at h
    · rename_i hlt
      have hm2 : (lo + hi) / 2 < hi := by omega
      split at h
      · rename_i hv
        simp at h; subst h; exact ⟨hv, by omega⟩
      · split at h
        · exact ih _ _ j hhi h
        · exact ih _ _ j (by omega) h
    · simp at h

/-! ## quantisation -/

theorem roundHE_exact (b : Int) (K : Nat) (hK : 0 < K) : roundHE (b * K) K = b := by
  have hK' : (K : Int) ≠ 0 := by omega
  unfold roundHE
  simp only [Int.mul_ediv_cancel _ hK', Int.mul_emod_left]
  have : (2 : Int) * 0 < K := by omega
  rw [if_pos this]

theorem encQ_le (hi : Nat) (num : Int) (den : Nat) : encQ hi num den ≤ hi := by
  unfold encQ; omega

theorem encQ_exact (hi b K : Nat) (hK : 0 < K) (hb : b ≤ hi) : encQ hi ((b : Int) * K) K = b := by
  unfold encQ
  rw [roundHE_exact _ _ hK]
  omega

end C20
