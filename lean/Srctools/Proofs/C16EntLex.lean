import Srctools.Proofs.C16EntSpec
import Srctools.Gen.Tok
/-!
# C16 (iv, continued) — whole exported entity definitions / files lex to the claimed token sequences

Reuses the compositional framework of Proofs/C16KVLex.lean (`LexesTo`, the primitive fragments, `lex_item`).

Final theorems: `lex_bodyLines`, `lex_resBlock`, `lex_ent`, `lex_file`, `run_ent`, `run_file`.
-/
namespace C16.KV
open Tok C16

/-! ## table facts, hypotheses on the record -/

/-- The keywords of the entity header / resources block are bare strings (so `'@'` may start one). -/
def entTablesOK (T : Tables) : Bool := [sBase, sAliasof, sResources].all (BareStr T)

structure EntTables (T : Tables) : Prop where
  base : BareStr T sBase = true
  alias : BareStr T sAliasof = true
  res : BareStr T sResources = true

theorem entTables {T : Tables} (h : entTablesOK T = true) : EntTables T := by
  unfold entTablesOK at h
  simp only [List.all_cons, List.all_nil, Bool.and_true, Bool.and_eq_true] at h
  exact ⟨h.1, h.2.1, h.2.2⟩

/-- A helper as written: a bare name, and (unless it is `halfgridsnap`, written without parentheses) an
argument text without parentheses. -/
structure HelperOK (T : Tables) (h : Helper) : Prop where
  name : BareStr T h.name = true
  args1 : h.name ≠ sHalfGridSnap → '(' ∉ joinWith commaSp h.args
  args2 : h.name ≠ sHalfGridSnap → ')' ∉ joinWith commaSp h.args

/-- A resource line: the type has a bare name; the tags (written whenever there are any) have the tag shape. -/
structure ResOK (T : Tables) (tab : EntTab) (r : Res) : Prop where
  name : BareStr T (tab.resNames.getD r.typ []) = true
  tags : ∀ t ∈ r.tags, tagOK T t = true

/-- Hypotheses under which `exportEnt c tab P e` lexes to `kindTok tab e :: entToks c tab P e`. -/
structure EntLexOK (T : Tables) (o : Opts) (c : ExpCfg) (tab : EntTab) (P : ParseCfg) (e : EntRec) :
    Prop where
  hT : c.T = T
  tables : kvTablesOK T = true
  entTables : entTablesOK T = true
  opts : optsOK o = true
  /-- `@PointClass` is one bare string -/
  kind : BareStr T ('@' :: (tab.kinds.getD e.kind ([], [])).1) = true
  classname : BareStr T e.classname = true
  bases1 : '(' ∉ joinWith commaSp e.bases
  bases2 : ')' ∉ joinWith commaSp e.bases
  helpers : ∀ h ∈ writtenHelpers c tab e, HelperOK T h
  desc : e.desc ≠ [] → LsOK c c.ext e.desc
  items : ∀ it ∈ entItems P e, ItemLexOK T o c it
  /-- the block is written only with the extended syntax -/
  res : c.ext = true → ∀ l, e.res = some l → ∀ r ∈ l, ResOK T tab r

section
variable {T : Tables} {o : Opts} {fold : Char → List Char}

local macro "lnorm" : tactic =>
  `(tactic| simp only [List.append_assoc, List.cons_append, List.nil_append])

/-! ## framework addition -/

/-- `flatMap` when every piece needs `ok` after it and itself starts in a way that satisfies `ok`. -/
theorem LexesTo.flatMapOk {α : Type} (f : α → Str) (g : α → List Tk) (ok : Str → Prop) :
    ∀ (l : List α), (∀ x ∈ l, LexesTo T o fold (f x) (g x) ok) → (∀ x ∈ l, ∀ tail, ok (f x ++ tail)) →
      LexesTo T o fold (l.flatMap f) (l.flatMap g) ok := by
  intro l
  induction l with
  | nil => intro _ _; exact LexesTo.nil _
  | cons x xs ih =>
    intro h hs
    simp only [List.flatMap_cons]
    refine (h x (by simp)).seq (ih (fun y hy => h y (by simp [hy])) (fun y hy => hs y (by simp [hy]))) ?_
    intro tail ht
    cases xs with
    | nil => simpa using ht
    | cons y ys =>
      simp only [List.flatMap_cons, List.append_assoc]
      exact hs y (by simp) _

/-! ## the body lines -/

theorem lex_bodyLines {c : ExpCfg} {items : List Item} (hT : kvTablesOK T = true) (ho : optsOK o = true)
    (h : ∀ it ∈ items, ItemLexOK T o c it) :
    LexesTo T o fold (bodyLines c items) (bodyLinesToks c items) anyTail := by
  have K := kvTables hT
  have O := optsFacts ho
  have hsub : ∀ (p : Item → Bool), ∀ it ∈ items.filter p, ItemLexOK T o c it :=
    fun p it hit => h it (List.mem_filter.mp hit).1
  have hA := (LexesTo.flatMap (fold := fold) (itemText c) (itemToks c) _
      (fun it hit => lex_item (hsub Item.isKV it hit))).seq'
    ((lex_section inputsHeader (lex_inputsHeader K O) _ (hsub Item.isInp)).seq'
      (lex_section outputsHeader (lex_outputsHeader K O) _ (hsub Item.isOut)))
  refine hA.cast ?_ ?_
  · simp only [bodyLines]
    lnorm
  · simp only [bodyLinesToks]
    lnorm

/-! ## header pieces -/

/-- `@Kind␣` -/
theorem lex_kindWord (K : KvTables T) (O : OptsOK o) (w : Str) (h : BareStr T ('@' :: w) = true) :
    LexesTo T o fold ('@' :: (w ++ [' '])) [(.string, '@' :: w)] anyTail :=
  ((lex_bare O _ h).seq (lex_sp K anyTail) (fun _ _ => K.endSp)).cast rfl rfl

/-- `base(A, B)␣` / `aliasof(A)␣` / nothing. -/
theorem lex_bases (K : KvTables T) (O : OptsOK o) (E : EntTables T) (c : ExpCfg) (e : EntRec)
    (h1 : '(' ∉ joinWith commaSp e.bases) (h2 : ')' ∉ joinWith commaSp e.bases) :
    LexesTo T o fold
      (if e.bases.isEmpty then []
        else (if e.alias && c.ext then sAliasof else sBase) ++ '(' :: (joinWith commaSp e.bases ++ [')', ' ']))
      (basesToks c e) anyTail := by
  unfold basesToks
  by_cases hb : e.bases.isEmpty = true
  · rw [if_pos hb, if_pos hb]
    exact LexesTo.nil _
  · rw [if_neg hb, if_neg hb]
    have hn : BareStr T (if e.alias && c.ext then sAliasof else sBase) = true := by
      split
      · exact E.alias
      · exact E.base
    exact ((lex_bare O _ hn).seq ((lex_paren K O _ h1 h2).seq' (lex_sp K anyTail))
      (fun _ _ => K.endPo)).cast (by simp) (by simp)

/-- `⏎⇥name(args)` / `⏎⇥halfgridsnap`. -/
theorem lex_helper (K : KvTables T) (O : OptsOK o) (h : Helper) (hh : HelperOK T h) :
    LexesTo T o fold (helperText h) (helperToks h) (bareOk T) := by
  unfold helperText helperToks
  by_cases hs : h.name = sHalfGridSnap
  · rw [if_pos hs, if_pos hs]
    exact ((lex_nl K).seq' ((lex_tab K anyTail).seq' (lex_bare O _ hh.name))).cast rfl rfl
  · rw [if_neg hs, if_neg hs]
    exact (((lex_nl K).seq' ((lex_tab K anyTail).seq' ((lex_bare O _ hh.name).seq
      (lex_paren K O _ (hh.args1 hs) (hh.args2 hs)) (fun _ _ => K.endPo)))).cast rfl rfl).mono
        (fun _ _ => trivial)

/-- All written helpers and the line feed that follows them when the entity has helpers at all. -/
theorem lex_helpers (K : KvTables T) (O : OptsOK o) (c : ExpCfg) (tab : EntTab) (e : EntRec)
    (h : ∀ x ∈ writtenHelpers c tab e, HelperOK T x) :
    LexesTo T o fold
      ((writtenHelpers c tab e).flatMap helperText ++ (if e.helpers.isEmpty then [] else ['\n']))
      ((writtenHelpers c tab e).flatMap helperToks ++ (if e.helpers.isEmpty then [] else [tkNl]))
      anyTail := by
  by_cases he : e.helpers.isEmpty = true
  · have : writtenHelpers c tab e = [] := by
      unfold writtenHelpers
      rw [List.isEmpty_iff.mp he]
      rfl
    rw [this, if_pos he, if_pos he]
    exact LexesTo.nil _
  · rw [if_neg he, if_neg he]
    exact (LexesTo.flatMapOk helperText helperToks (bareOk T) _
      (fun x hx => lex_helper K O x (h x hx)) (fun _ _ _ => K.endNl)).seq (lex_nl K)
        (fun _ _ => K.endNl)

/-- `=␣classname` and the description. -/
theorem lex_classDesc (K : KvTables T) (O : OptsOK o) (c : ExpCfg) (hT : c.T = T) (e : EntRec)
    (hc : BareStr T e.classname = true) (hd : e.desc ≠ [] → LsOK c c.ext e.desc) :
    LexesTo T o fold
      ('=' :: ' ' :: e.classname
        ++ ((if e.desc.isEmpty then [] else ':' :: ' ' :: wls c c.ext ['\t', '\t'] e.desc)
        ++ ['\n', '\t', '[', '\n']))
      ([tkEq, (.string, e.classname)]
        ++ ((if e.desc.isEmpty then [] else tkColon :: lsToks c c.ext e.desc) ++ [tkNl, tkOpen, tkNl]))
      anyTail := by
  have hopen : LexesTo T o fold ['\n', '\t', '[', '\n'] [tkNl, tkOpen, tkNl] anyTail :=
    (lex_nl K).seq' ((lex_tab K anyTail).seq' ((lex_bo K O).seq' (lex_nl K)))
  have hdesc : LexesTo T o fold
      (if e.desc.isEmpty then [] else ':' :: ' ' :: wls c c.ext ['\t', '\t'] e.desc)
      (if e.desc.isEmpty then [] else tkColon :: lsToks c c.ext e.desc) anyTail := by
    by_cases h1 : e.desc.isEmpty = true
    · rw [if_pos h1, if_pos h1]
      exact LexesTo.nil _
    · rw [if_neg h1, if_neg h1]
      have hne : e.desc ≠ [] := fun h0 => h1 (by rw [h0]; rfl)
      exact (lex_colon K O).seq' ((lex_sp K anyTail).seq'
        (lex_wls K O c hT c.ext ['\t', '\t'] e.desc (by simp) (hd hne)))
  have hok : ∀ tail, bareOk T (((if e.desc.isEmpty then [] else ':' :: ' ' :: wls c c.ext ['\t', '\t'] e.desc)
      ++ ['\n', '\t', '[', '\n']) ++ tail) := by
    intro tail
    split
    · exact K.endNl
    · exact bareCont_colon T
  exact ((lex_eq K).seq' ((lex_sp K anyTail).seq' ((lex_bare O _ hc).seq (hdesc.seq' hopen)
    (fun tail _ => hok tail)))).cast rfl rfl

/-! ## the `@resources` block -/

theorem lex_resHeader (K : KvTables T) (O : OptsOK o) (E : EntTables T) :
    LexesTo T o fold resHeader [tkNl, (.string, sResources), tkNl, tkOpen, tkNl] anyTail :=
  ((lex_nl K).seq' ((lex_tab K anyTail).seq' ((lex_bare O sResources E.res).seq
    ((lex_nl K).seq' ((LexesTo.blanks K.tok ['\t', '\t'] (by simp) anyTail).seq'
      ((lex_bo K O).seq' (lex_nl K)))) (fun _ _ => K.endNl)))).cast (by decide) rfl

theorem lex_resFooter (K : KvTables T) (O : OptsOK o) :
    LexesTo T o fold resFooter [tkClose, tkNl] anyTail :=
  ((LexesTo.blanks K.tok ['\t', '\t'] (by simp) anyTail).seq' ((lex_bc K O).seq' (lex_nl K))).cast
    (by decide) rfl

/-- `⇥⇥name␣"file"[␣[tags]]⏎` -/
theorem lex_resLine (K : KvTables T) (O : OptsOK o) (c : ExpCfg) (hT : c.T = T) (tab : EntTab) (r : Res)
    (h : ResOK T tab r) : LexesTo T o fold (resLine c tab r) (resLineToks tab r) anyTail := by
  subst hT
  have hq := lex_quoted (fold := fold) K O (escapeText c.T false r.file) r.file
    (reads_escape (escFacts K.tok.esc) false r.file)
  have htags : LexesTo c.T o fold (if !r.tags.isEmpty then ' ' :: tagsText r.tags else [])
      (if !r.tags.isEmpty then tagsToks r.tags else []) anyTail := by
    by_cases h1 : (!r.tags.isEmpty) = true
    · rw [if_pos h1, if_pos h1]
      exact (lex_sp K anyTail).seq' (lex_tagsText K O r.tags (isEmpty_false_ne h1) h.tags)
    · rw [if_neg h1, if_neg h1]
      exact LexesTo.nil _
  have hA := (LexesTo.blanks (fold := fold) K.tok ['\t', '\t'] (by simp) anyTail).seq'
    ((lex_bare O _ h.name).seq ((lex_sp K anyTail).seq' (hq.seq' (htags.seq' (lex_nl K))))
      (fun _ _ => K.endSp))
  refine hA.cast ?_ ?_
  · simp only [resLine]
    lnorm
  · simp only [resLineToks]
    lnorm

theorem lex_resBlock (K : KvTables T) (O : OptsOK o) (E : EntTables T) (c : ExpCfg) (hT : c.T = T)
    (tab : EntTab) (e : EntRec) (h : c.ext = true → ∀ l, e.res = some l → ∀ r ∈ l, ResOK T tab r) :
    LexesTo T o fold (resBlock c tab e) (resToks c tab e) anyTail := by
  unfold resBlock resToks
  cases hr : e.res with
  | none => exact LexesTo.nil _
  | some l =>
    simp only []
    by_cases hx : c.ext = true
    · rw [if_pos hx, if_pos hx]
      exact ((lex_resHeader K O E).seq' ((LexesTo.flatMap _ _ l
        (fun r hr' => lex_resLine K O c hT tab r (h hx l hr r hr'))).seq' (lex_resFooter K O))).cast
          (by lnorm) (by lnorm)
    · rw [if_neg hx, if_neg hx]
      exact LexesTo.nil _

/-! ## the entity, the file -/

theorem exportEnt_eq (c : ExpCfg) (tab : EntTab) (P : ParseCfg) (e : EntRec) :
    exportEnt c tab P e =
      ('@' :: ((tab.kinds.getD e.kind ([], [])).1 ++ [' ']))
      ++ ((if e.bases.isEmpty then []
          else (if e.alias && c.ext then sAliasof else sBase) ++ '(' :: (joinWith commaSp e.bases ++ [')', ' ']))
      ++ (((writtenHelpers c tab e).flatMap helperText ++ (if e.helpers.isEmpty then [] else ['\n']))
      ++ (('=' :: ' ' :: e.classname
        ++ ((if e.desc.isEmpty then [] else ':' :: ' ' :: wls c c.ext ['\t', '\t'] e.desc)
        ++ ['\n', '\t', '[', '\n']))
      ++ (bodyLines c (entItems P e) ++ (resBlock c tab e ++ ['\t', ']', '\n']))))) := by
  simp only [exportEnt, writtenHelpers]
  lnorm

theorem entToks_eq (c : ExpCfg) (tab : EntTab) (P : ParseCfg) (e : EntRec) :
    kindTok tab e :: entToks c tab P e =
      [(.string, '@' :: (tab.kinds.getD e.kind ([], [])).1)]
      ++ (basesToks c e
      ++ (((writtenHelpers c tab e).flatMap helperToks ++ (if e.helpers.isEmpty then [] else [tkNl]))
      ++ (([tkEq, (.string, e.classname)]
        ++ ((if e.desc.isEmpty then [] else tkColon :: lsToks c c.ext e.desc) ++ [tkNl, tkOpen, tkNl]))
      ++ (bodyLinesToks c (entItems P e) ++ (resToks c tab e ++ [tkClose, tkNl]))))) := by
  simp only [entToks, kindTok]
  lnorm

theorem lex_ent {c : ExpCfg} {tab : EntTab} {P : ParseCfg} {e : EntRec} (h : EntLexOK T o c tab P e) :
    LexesTo T o fold (exportEnt c tab P e) (kindTok tab e :: entToks c tab P e) anyTail := by
  have K := kvTables h.tables
  have O := optsFacts h.opts
  have E := entTables h.entTables
  have hclose : LexesTo T o fold ['\t', ']', '\n'] [tkClose, tkNl] anyTail :=
    (lex_tab K anyTail).seq' ((lex_bc K O).seq' (lex_nl K))
  have hA := (lex_kindWord (fold := fold) K O _ h.kind).seq'
    ((lex_bases K O E c e h.bases1 h.bases2).seq'
      ((lex_helpers K O c tab e h.helpers).seq'
        ((lex_classDesc K O c h.hT e h.classname h.desc).seq'
          ((lex_bodyLines h.tables h.opts h.items).seq'
            ((lex_resBlock K O E c h.hT tab e h.res).seq' hclose)))))
  exact hA.cast (exportEnt_eq c tab P e) (entToks_eq c tab P e)

theorem lex_file {c : ExpCfg} {tab : EntTab} {P : ParseCfg} {ents : List EntRec}
    (h : ∀ e ∈ ents, EntLexOK T o c tab P e) :
    LexesTo T o fold (exportFile c tab P ents) (fileToks c tab P ents) anyTail := by
  unfold exportFile fileToks
  exact LexesTo.flatMap _ _ ents (fun e he =>
    ((lex_nl (kvTables (h e he).tables)).seq' (lex_ent (h e he))).cast rfl rfl)

/-! ## whole runs -/

theorem run_ent {c : ExpCfg} {tab : EntTab} {P : ParseCfg} {e : EntRec} (h : EntLexOK T o c tab P e) :
    tksOf (run T o fold (exportEnt c tab P e)) = kindTok tab e :: entToks c tab P e ++ [tkEof] ∧
      (run T o fold (exportEnt c tab P e)).err = none :=
  run_of_lexes (lex_ent h) trivial

theorem run_file {c : ExpCfg} {tab : EntTab} {P : ParseCfg} {ents : List EntRec}
    (h : ∀ e ∈ ents, EntLexOK T o c tab P e) :
    tksOf (run T o fold (exportFile c tab P ents)) = fileToks c tab P ents ++ [tkEof] ∧
      (run T o fold (exportFile c tab P ents)).err = none :=
  run_of_lexes (lex_file h) trivial

end

end C16.KV

namespace C16.KV
open Tok C16

/-! ## non-vacuity -/

example : entTablesOK Gen.Tok.tables = true := by decide

private def exTT : TypeTab where
  values := [['i','n','t','e','g','e','r'], ['f','l','a','g','s'], ['c','h','o','i','c','e','s'], ['b','o','o','l','e','a','n']]
  lookup := []
  ioText := [['v','o','i','d']]
  spawnflags := 1
  choices := 2
  bool := 3
  ehandle := 0

private def exCfg : ExpCfg where
  long := { limit := 10, small := 3, backoff := true, emptyQuotes := true }
  T := Gen.Tok.tables
  tt := exTT
  ext := true
  label := false

private def exP : ParseCfg where
  tt := exTT
  fold := fun x => [x]
  up := fun x => [x]

private def exTab : EntTab where
  kinds := [(['P','o','i','n','t','C','l','a','s','s'], ['p','o','i','n','t','c','l','a','s','s']), (['B','a','s','e','C','l','a','s','s'], ['b','a','s','e','c','l','a','s','s'])]
  extend := 5
  helperTypes := [['b','a','s','e'], ['h','a','l','f','g','r','i','d','s','n','a','p'], ['s','i','z','e']]
  extHelpers := [['a','p','p','l','i','e','s','t','o']]
  resNames := [[], ['m','o','d','e','l'], ['s','o','u','n','d']]
  resByName := [(['m','o','d','e','l'], 1), (['s','o','u','n','d'], 2)]

private def exKV : KVRec where
  name := ['h','p']
  typ := 0
  disp := ['H','P']
  default := ['-','5']
  desc := []
  vals := .none
  readonly := true
  reportable := false

private def exIO : IORec := ⟨['K','i','l','l'], 0, ['d','i','e']⟩

/-- A base list, three helpers (`halfgridsnap` without parentheses, an extension helper), a description that is
cut into sections, one keyvalue, one input, one resource with a tag. -/
private def exEnt : EntRec where
  kind := 0
  classname := ['n','p','c','_','x']
  bases := [['A'], ['B','1']]
  alias := false
  helpers := [⟨['h','a','l','f','g','r','i','d','s','n','a','p'], []⟩, ⟨['s','i','z','e'], [['-','1',' ','0',' ','0'], ['1',' ','2',' ','3']]⟩,
    ⟨['a','p','p','l','i','e','s','t','o'], [['P','2']]⟩]
  desc := ['A',' ','t','h','i','n','g',',',' ','"','x','"','.']
  groups := [⟨['h','p'], [([], exKV)]⟩]
  kvOrder := [['h','p']]
  inputs := [([['X']], exIO)]
  outputs := []
  res := some [⟨['m','o','d','e','l','s','/','a','.','m','d','l'], 1, [['X'], ['+','Y']]⟩]

/-- A minimal entity. -/
private def exEnt2 : EntRec where
  kind := 1
  classname := ['B','1']
  bases := []
  alias := false
  helpers := []
  desc := []
  groups := []
  kvOrder := []
  inputs := []
  outputs := []
  res := none

example : tksOf (run Gen.Tok.tables fgdOpts (fun x => [x]) (exportEnt exCfg exTab exP exEnt))
    = kindTok exTab exEnt :: entToks exCfg exTab exP exEnt ++ [tkEof] := by
  decide +kernel

/-- The same without the custom syntax (the extension helper and the resources are not written). -/
example : tksOf (run Gen.Tok.tables fgdOpts (fun x => [x])
      (exportEnt { exCfg with ext := false } exTab exP exEnt))
    = kindTok exTab exEnt :: entToks { exCfg with ext := false } exTab exP exEnt ++ [tkEof] := by
  decide +kernel

example : tksOf (run Gen.Tok.tables fgdOpts (fun x => [x]) (exportFile exCfg exTab exP [exEnt2, exEnt]))
    = fileToks exCfg exTab exP [exEnt2, exEnt] ++ [tkEof] := by
  decide +kernel

/-- The token sequence is the expected one (spot check of the specification itself). -/
example : kindTok exTab exEnt2 :: entToks exCfg exTab exP exEnt2
    = [(.string, ['@','B','a','s','e','C','l','a','s','s']), tkEq, (.string, ['B','1']), tkNl, tkOpen, tkNl, tkClose, tkNl] := by
  decide +kernel

private theorem exLs (s : Str) : LsOK exCfg exCfg.ext s := by
  have h := ls_ext exCfg.T (by decide) exCfg.long (by decide) rfl s
  exact ⟨h.1, fun sec hs => (h.2.1 sec hs).1⟩

private theorem exKvOK : KvLexOK Gen.Tok.tables fgdOpts exCfg [] exKV where
  hT := rfl
  tables := by decide
  opts := by decide
  name := by decide
  tags := by intro h; exact absurd h (by decide)
  typ1 := by decide
  typ2 := by decide
  disp := fun _ => exLs _
  dflt := by intro h; exact absurd h (by decide)
  desc := fun _ => exLs _
  flags := by intro h; exact absurd h (by decide)
  choices := by intro _ h; exact absurd h (by decide)

private theorem exIoOK : IoLexOK Gen.Tok.tables fgdOpts exCfg sInput [['X']] exIO where
  hT := rfl
  tables := by decide
  opts := by decide
  kw := Or.inl rfl
  name := by decide
  tags := by intro _; decide
  typ1 := by decide
  typ2 := by decide
  desc := fun _ => exLs _

/-- The hypotheses of `lex_ent` are satisfiable (by the entity checked above). -/
example : EntLexOK Gen.Tok.tables fgdOpts exCfg exTab exP exEnt where
  hT := rfl
  tables := by decide
  entTables := by decide
  opts := by decide
  kind := by decide
  classname := by decide
  bases1 := by decide
  bases2 := by decide
  helpers := by
    intro h hh
    have hw : writtenHelpers exCfg exTab exEnt = exEnt.helpers := by decide +kernel
    rw [hw] at hh
    simp only [exEnt, List.mem_cons, List.not_mem_nil, or_false] at hh
    rcases hh with rfl | rfl | rfl
    · exact ⟨by decide, by decide, by decide⟩
    · exact ⟨by decide, by decide, by decide⟩
    · exact ⟨by decide, by decide, by decide⟩
  desc := fun _ => exLs _
  items := by
    intro it hit
    have hi : entItems exP exEnt = [.kv [] exKV, .inp [['X']] exIO] := by decide +kernel
    rw [hi] at hit
    simp only [List.mem_cons, List.not_mem_nil, or_false] at hit
    rcases hit with rfl | rfl
    · exact exKvOK
    · exact exIoOK
  res := by
    intro _ l hl r hr
    cases hl
    simp only [List.mem_cons, List.not_mem_nil, or_false] at hr
    subst hr
    exact ⟨by decide, by decide⟩

end C16.KV
