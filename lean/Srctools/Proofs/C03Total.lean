import Srctools.Proofs.Tok
set_option linter.unusedSimpArgs false
/-! Totality of the abstract tokenizer: the sub-scanners never report `outOfFuel` and return a
remainder no longer than their input; `nextToken` with fuel `> input length` never runs out, and
every token but EOF consumes at least one character. -/
namespace Tok

/-- A scan result is *good* for bound `n`: no fuel error, and the remainder has at most `n` characters. -/
def Scan.Good {α : Type} (n : Nat) : Scan α → Prop
  | .ok _ _ r => r.length ≤ n
  | .err e _ => e ≠ .outOfFuel

theorem Scan.Good.mono {α : Type} {n m : Nat} {r : Scan α} (h : r.Good n) (hnm : n ≤ m) : r.Good m := by
  cases r with
  | ok v l r => exact Nat.le_trans h hnm
  | err e l => exact h

theorem scanBracket_good (cs acc : List Char) (line : Nat) :
    (scanBracket cs acc line).Good cs.length := by
  induction cs generalizing acc with
  | nil => simp [scanBracket, Scan.Good]
  | cons c cs ih =>
    rw [scanBracket]
    split
    · simp [Scan.Good]
    · split
      · simp [Scan.Good]
      · split
        · simp [Scan.Good]
        · exact (ih _).mono (by simp)

theorem scanParen_good (cs acc : List Char) (line : Nat) :
    (scanParen cs acc line).Good cs.length := by
  induction cs generalizing acc line with
  | nil => simp [scanParen, Scan.Good]
  | cons c cs ih =>
    rw [scanParen]
    split
    · simp [Scan.Good]
    · split
      · exact (ih _ _).mono (by simp)
      · split
        · simp [Scan.Good]
        · exact (ih _ _).mono (by simp)

theorem scanBare_len (T : Tables) (o : Opts) (fold : Char → List Char) (cs acc : List Char) :
    (scanBare T o fold cs acc).2.length ≤ cs.length := by
  induction cs generalizing acc with
  | nil => simp [scanBare]
  | cons c cs ih =>
    rw [scanBare]
    split
    · simp
    · exact Nat.le_trans (ih _) (by simp)

theorem scanLineComment_len (cs acc : List Char) :
    (scanLineComment cs acc).2.length ≤ cs.length := by
  induction cs generalizing acc with
  | nil => simp [scanLineComment]
  | cons c cs ih =>
    rw [scanLineComment]
    split
    · simp
    · exact Nat.le_trans (ih _) (by simp)

theorem scanStarComment_cons' (start : Nat) (c : Char) (cs acc : List Char) (line : Nat) :
    scanStarComment start (c :: cs) acc line =
      if c = '\n' then scanStarComment start cs (c :: acc) (line + 1)
      else if c = '*' then
        match cs with
        | [] => .err (.unclosedComment start) line
        | d :: cs' =>
          if d = '/' then .ok acc.reverse line cs'
          else scanStarComment start (d :: cs') acc line
      else scanStarComment start cs (c :: acc) line := by
  rw [scanStarComment.eq_def]
  rfl

theorem scanStarComment_good (start : Nat) (n : Nat) :
    ∀ (cs acc : List Char) (line : Nat), cs.length ≤ n →
      (scanStarComment start cs acc line).Good cs.length := by
  induction n with
  | zero =>
    intro cs acc line h
    have : cs = [] := List.eq_nil_of_length_eq_zero (by omega)
    subst this; simp [scanStarComment, Scan.Good]
  | succ n ih =>
    intro cs acc line h
    cases cs with
    | nil => simp [scanStarComment, Scan.Good]
    | cons c cs =>
      simp only [List.length_cons] at h
      rw [scanStarComment_cons']
      split
      · exact (ih cs _ _ (by omega)).mono (by simp)
      · split
        · cases cs with
          | nil => simp [Scan.Good]
          | cons d cs' =>
            simp only
            split
            · simp [Scan.Good]; omega
            · exact (ih (d :: cs') _ _ (by simpa using h)).mono (by simp)
        · exact (ih cs _ _ (by omega)).mono (by simp)

theorem handleString_good (T : Tables) (a : Bool) (n : Nat) :
    ∀ (cs acc : List Char) (lc : Bool) (line : Nat), cs.length ≤ n →
      (handleString T a cs acc lc line).Good cs.length := by
  induction n with
  | zero =>
    intro cs acc lc line h
    have : cs = [] := List.eq_nil_of_length_eq_zero (by omega)
    subst this; simp [handleString, Scan.Good]
  | succ n ih =>
    intro cs acc lc line h
    cases cs with
    | nil => simp [handleString, Scan.Good]
    | cons c cs =>
      simp only [List.length_cons] at h
      have h' : cs.length ≤ n := by omega
      rw [handleString_cons]
      split
      · simp [Scan.Good]
      · split
        · exact (ih cs _ _ _ h').mono (by simp)
        · split
          · split
            · exact (ih cs _ _ _ h').mono (by simp)
            · exact (ih cs _ _ _ h').mono (by simp)
          · split
            · cases cs with
              | nil => simp [Scan.Good]
              | cons e cs' =>
                simp only [List.length_cons] at h'
                have h'' : cs'.length ≤ n := by omega
                simp only
                split
                · exact (ih cs' _ _ _ h'').mono (by simp; omega)
                · split
                  · exact (ih cs' _ _ _ h'').mono (by simp; omega)
                  · exact (ih cs' _ _ _ h'').mono (by simp; omega)
            · exact (ih cs _ _ _ h').mono (by simp)


/-- `_handle_comment` over the remaining characters (the `/` branch of `nextToken`, factored). -/
def commentA (o : Opts) (cs : List Char) (line : Nat) : Scan (List Char) :=
  match cs with
  | [] => .err (.singleSlash o.allowStarComments) line
  | d :: cs' =>
    if d = '*' then
      if o.allowStarComments then scanStarComment line cs' [] line else .err .starNotAllowed line
    else if d ≠ '/' then .err (.singleSlash o.allowStarComments) line
    else .ok (scanLineComment cs' []).1 line (scanLineComment cs' []).2

theorem nextToken_slash (T : Tables) (o : Opts) (fold : Char → List Char) (fuel : Nat) (st : St)
    (cs : List Char) (hop : T.operator '/' = none) :
    nextToken T o fold (fuel + 1) st ('/' :: cs) =
      match commentA o cs st.line with
      | .err e l => .err e l
      | .ok v l rest =>
        if o.preserveComments then .tok .comment v { line := l, lastCr := false } rest
        else nextToken T o fold fuel { line := l, lastCr := false } rest := by
  rw [nextToken.eq_def]
  simp only [hop]
  have e1 : ('/' : Char) ≠ '\r' := by decide
  have e2 : ('/' : Char) ≠ '\n' := by decide
  have e3 : ¬ (('/' : Char) = ' ' ∨ ('/' : Char) = '\t') := by decide
  simp only [e1, e2, e3, if_false, if_true]
  cases cs with
  | nil => simp [commentA]
  | cons d cs' =>
    by_cases h1 : d = '*'
    · subst h1
      simp only [commentA, if_true]
      cases o.allowStarComments
      · simp
      · simp only [if_true]
        cases scanStarComment st.line cs' [] st.line <;> rfl
    · by_cases h2 : d = '/'
      · subst h2
        simp [commentA]
      · simp only [commentA, h1, h2, if_false, ne_eq, not_false_eq_true, if_true]
        split
        · rename_i heq; simp at heq; exact absurd heq.1 h1
        · rename_i heq; simp at heq; exact absurd heq.1 h2
        · rfl

theorem commentA_good (o : Opts) (cs : List Char) (line : Nat) :
    (commentA o cs line).Good cs.length := by
  cases cs with
  | nil => simp [commentA, Scan.Good]
  | cons d cs' =>
    simp only [commentA]
    split
    · split
      · exact (scanStarComment_good line _ cs' [] line (Nat.le_refl _)).mono (by simp)
      · simp [Scan.Good]
    · split
      · simp [Scan.Good]
      · simp only [Scan.Good, List.length_cons]
        exact Nat.le_trans (scanLineComment_len cs' []) (by omega)

/-- Decidable condition on the extracted operator table: no operator character is mapped to EOF. -/
def opsOK (T : Tables) : Bool := T.operators.all (fun p => Kind.ofCode p.2 != some .eof)

theorem operator_ne_eof {T : Tables} (h : opsOK T = true) {c : Char} {k : Kind}
    (hk : T.operator c = some k) : k ≠ .eof := by
  unfold Tables.operator at hk
  cases hf : T.operators.find? (·.1 == c) with
  | none => simp [hf] at hk
  | some p =>
    simp [hf] at hk
    have hm := List.mem_of_find?_eq_some hf
    unfold opsOK at h
    rw [List.all_eq_true] at h
    have := h p hm
    intro he
    subst he
    simp [hk] at this

/-- A token result is *good* for input `inp`: no fuel error; EOF only with nothing left; every other
token leaves strictly fewer characters than `inp`. -/
def Res.Good (inp : List Char) : Res → Prop
  | .tok k v _ rest => (k = .eof ∧ v = [] ∧ rest = []) ∨ (k ≠ .eof ∧ rest.length < inp.length)
  | .err e _ => e ≠ .outOfFuel

theorem Res.Good.mono {a b : List Char} {r : Res} (h : r.Good a) (hab : a.length ≤ b.length) :
    r.Good b := by
  cases r with
  | tok k v st rest =>
    rcases h with h | ⟨h1, h2⟩
    · exact Or.inl h
    · exact Or.inr ⟨h1, Nat.lt_of_lt_of_le h2 hab⟩
  | err e l => exact h

theorem tok_good {inp : List Char} {k : Kind} {v : List Char} {st : St} {rest : List Char}
    (hk : k ≠ .eof) (hl : rest.length < inp.length) : (Res.tok k v st rest).Good inp :=
  Or.inr ⟨hk, hl⟩

theorem scan_tok_good {k : Kind} (hk : k ≠ .eof) {c : Char} {cs : List Char} :
    ∀ {ra : Scan (List Char)}, ra.Good cs.length →
      Res.Good (c :: cs) (match ra with
        | .err e l => .err e l
        | .ok v l rest => .tok k v { line := l, lastCr := false } rest) := by
  intro ra h
  cases ra with
  | ok v l r => exact tok_good hk (by simp only [Scan.Good] at h; simp; omega)
  | err e l => exact h

theorem nextToken_good (T : Tables) (hT : opsOK T = true) (o : Opts) (fold : Char → List Char)
    (fuel : Nat) : ∀ (st : St) (inp : List Char), inp.length < fuel →
      (nextToken T o fold fuel st inp).Good inp := by
  induction fuel with
  | zero => intro st inp h; omega
  | succ fuel ih =>
    intro st inp hf
    cases inp with
    | nil => rw [nextToken]; exact Or.inl ⟨rfl, rfl, rfl⟩
    | cons c cs =>
      simp only [List.length_cons] at hf
      have hlen : cs.length < fuel := by omega
      have ihc : ∀ st', (nextToken T o fold fuel st' cs).Good (c :: cs) :=
        fun st' => (ih st' cs hlen).mono (by simp)
      cases hop : T.operator c with
      | some k =>
        rw [nextToken.eq_def]; simp only [hop]
        exact tok_good (operator_ne_eof hT hop) (by simp)
      | none =>
      by_cases hs : c = '/'
      · subst hs
        rw [nextToken_slash _ _ _ _ _ _ hop]
        have hg := commentA_good o cs st.line
        generalize commentA o cs st.line = ra at hg ⊢
        cases ra with
        | err e l => exact hg
        | ok v l r =>
          simp only [Scan.Good] at hg
          simp only
          split
          · exact tok_good (by decide) (by simp; omega)
          · exact (ih _ r (by omega)).mono (by simp; omega)
      · rw [nextToken.eq_def]; simp only [hop, hs, if_false]
        by_cases h1 : c = '\r'
        · rw [if_pos h1]; exact tok_good (by decide) (by simp)
        rw [if_neg h1]
        by_cases h2 : c = '\n'
        · rw [if_pos h2]
          cases st.lastCr
          · simp only [Bool.false_eq_true, if_false]; exact tok_good (by decide) (by simp)
          · simp only [if_true]; exact ihc _
        rw [if_neg h2]
        by_cases h3 : c = ' ' ∨ c = '\t'
        · rw [if_pos h3]; exact ihc _
        rw [if_neg h3]
        by_cases h4 : c = '"'
        · rw [if_pos h4]
          exact scan_tok_good (by decide) (handleString_good T _ _ cs [] false st.line (Nat.le_refl _))
        rw [if_neg h4]
        by_cases h5 : c = '['
        · rw [if_pos h5]
          cases o.stringBracket
          · exact tok_good (by decide) (by simp)
          · exact scan_tok_good (by decide) (scanBracket_good cs [] st.line)
        rw [if_neg h5]
        by_cases h6 : c = '('
        · rw [if_pos h6]
          cases o.stringParens
          · exact tok_good (by decide) (by simp)
          · exact scan_tok_good (by decide) (scanParen_good cs [] st.line)
        rw [if_neg h6]
        by_cases h7 : c = Char.ofNat 65279 ∧ st.line = 1
        · rw [if_pos h7]; exact ihc _
        rw [if_neg h7]
        by_cases h8 : c = ':' ∧ o.colonOperator = true
        · rw [if_pos h8]; exact tok_good (by decide) (by simp)
        rw [if_neg h8]
        by_cases h9 : c = '+' ∧ o.plusOperator = true
        · rw [if_pos h9]; exact tok_good (by decide) (by simp)
        rw [if_neg h9]
        by_cases h10 : c = ']'
        · rw [if_pos h10]
          cases o.stringBracket
          · exact tok_good (by decide) (by simp)
          · simp [Res.Good]
        rw [if_neg h10]
        by_cases h11 : c = ')'
        · rw [if_pos h11]
          cases o.stringParens
          · exact tok_good (by decide) (by simp)
          · simp [Res.Good]
        rw [if_neg h11]
        by_cases h12 : c = '#'
        · rw [if_pos h12]
          exact tok_good (by decide) (by have := scanBare_len T o fold cs []; simp; omega)
        rw [if_neg h12]
        cases hb : T.bareDisallowed.contains c
        · simp only [Bool.not_false, if_true]
          exact tok_good (by decide) (by have := scanBare_len T o (fun x => [x]) cs [c]; simp; omega)
        · simp [Res.Good]

end Tok
