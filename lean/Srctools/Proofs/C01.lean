import Srctools.Model.C01
import Srctools.Props.C02
/-! Helper definitions and lemmas for C01: the token stream of a serialised tree (lexing lemmas on
top of `C02_inverse`) and the simulation of the parser machine on that token stream. -/

namespace C01
open Tok

/-- What C01 needs from the extracted tokenizer tables beyond `escOK`: blanks and LF are not
operators, the braces are. -/
def kvOK (T : Tables) : Bool :=
  (T.operator ' ').isNone && (T.operator '\t').isNone && (T.operator '\n').isNone &&
  (T.operator '{' == some Kind.braceOpen) && (T.operator '}' == some Kind.braceClose)

structure KvFacts (T : Tables) : Prop where
  sp : T.operator ' ' = none
  tab : T.operator '\t' = none
  lf : T.operator '\n' = none
  bo : T.operator '{' = some Kind.braceOpen
  bc : T.operator '}' = some Kind.braceClose

theorem kvFacts {T : Tables} (h : kvOK T = true) : KvFacts T := by
  unfold kvOK at h
  simp only [Bool.and_eq_true, Option.isNone_iff_eq_none, beq_iff_eq] at h
  obtain ⟨⟨⟨⟨h1, h2⟩, h3⟩, h4⟩, h5⟩ := h
  exact ⟨h1, h2, h3, h4, h5⟩

/-- A string of blanks and tabs. -/
def isWs (s : List Char) : Prop := ∀ c ∈ s, c = ' ' ∨ c = '\t'

theorem isWs_nil : isWs [] := by intro c hc; cases hc
theorem isWs_append {a b : List Char} (ha : isWs a) (hb : isWs b) : isWs (a ++ b) := by
  intro c hc
  rcases List.mem_append.mp hc with h | h
  · exact ha c h
  · exact hb c h

/-! ## single-token lexing lemmas -/

section lex
variable {T : Tables} (F : KvFacts T) (o : Opts) (fold : Char → List Char)
include F

theorem next_skipWs (ws : List Char) (hws : isWs ws) (f l : Nat) (x : List Char) :
    nextToken T o fold (ws.length + f) ⟨l, false⟩ (ws ++ x) = nextToken T o fold f ⟨l, false⟩ x := by
  induction ws with
  | nil => simp
  | cons c cs ih =>
    have hc := hws c (by simp)
    have hcs : isWs cs := fun d hd => hws d (by simp [hd])
    have hop : T.operator c = none := by rcases hc with rfl | rfl; exact F.sp; exact F.tab
    have h1 : c ≠ '\r' := by rcases hc with rfl | rfl <;> decide
    have h2 : c ≠ '\n' := by rcases hc with rfl | rfl <;> decide
    have hf : (c :: cs).length + f = (cs.length + f) + 1 := by simp; omega
    rw [hf, List.cons_append, nextToken]
    simp only [hop, h1, h2, if_false, hc, if_true]
    exact ih hcs

theorem next_newline (f l : Nat) (rest : List Char) :
    nextToken T o fold (f + 1) ⟨l, false⟩ ('\n' :: rest) = .tok .newline ['\n'] ⟨l + 1, false⟩ rest := by
  rw [nextToken]
  have h1 : ('\n' : Char) ≠ '\r' := by decide
  simp [F.lf, h1]

theorem next_braceOpen (f : Nat) (st : St) (rest : List Char) :
    nextToken T o fold (f + 1) st ('{' :: rest) = .tok .braceOpen ['{'] st rest := by
  rw [nextToken]; simp [F.bo]

theorem next_braceClose (f : Nat) (st : St) (rest : List Char) :
    nextToken T o fold (f + 1) st ('}' :: rest) = .tok .braceClose ['}'] st rest := by
  rw [nextToken]; simp [F.bc]

end lex

/-! ## one token of `runAux` -/

section run
variable {T : Tables} (hE : escOK T = true) (F : KvFacts T) (o : Opts) (ho : o.allowEscapes = true)
  (fold : Char → List Char)
include hE F ho

/-- blanks, then a quoted `escape_text(s)`: one STRING token `s`, same line. -/
theorem run_string (ws : List Char) (hws : isWs ws) (s rest : List Char) (n l : Nat) (acc : List Obs) :
    runAux T o fold (n + 1) ⟨l, false⟩ (ws ++ '"' :: (escapeText T false s ++ '"' :: rest)) acc
      = runAux T o fold n ⟨l, false⟩ rest (⟨1, s, l⟩ :: acc) := by
  rw [runAux, List.length_append, Nat.add_assoc, next_skipWs F o fold ws hws]
  rw [List.length_cons, C02_inverse T hE o ho fold false s rest ⟨l, false⟩]
  simp [C02_single_line_count T hE s, Kind.code]

theorem run_string_sp (s rest : List Char) (n l : Nat) (acc : List Obs) :
    runAux T o fold (n + 1) ⟨l, false⟩ (' ' :: '"' :: (escapeText T false s ++ '"' :: rest)) acc
      = runAux T o fold n ⟨l, false⟩ rest (⟨1, s, l⟩ :: acc) := by
  have h := run_string hE F o ho fold [' '] (by intro c hc; simp at hc; exact Or.inl hc) s rest n l acc
  simpa using h

omit hE ho in
theorem run_newline (rest : List Char) (n l : Nat) (acc : List Obs) :
    runAux T o fold (n + 1) ⟨l, false⟩ ('\n' :: rest) acc
      = runAux T o fold n ⟨l + 1, false⟩ rest (⟨2, ['\n'], l + 1⟩ :: acc) := by
  rw [runAux, List.length_cons, next_newline F o fold]
  simp [Kind.code]

omit hE ho in
theorem run_braceOpen (ws1 ws2 : List Char) (h1 : isWs ws1) (h2 : isWs ws2) (rest : List Char)
    (n l : Nat) (acc : List Obs) :
    runAux T o fold (n + 1) ⟨l, false⟩ (ws1 ++ (ws2 ++ '{' :: rest)) acc
      = runAux T o fold n ⟨l, false⟩ rest (⟨6, ['{'], l⟩ :: acc) := by
  rw [runAux, List.length_append, Nat.add_assoc, next_skipWs F o fold ws1 h1,
    List.length_append, Nat.add_assoc, next_skipWs F o fold ws2 h2,
    List.length_cons, next_braceOpen F o fold]
  simp [Kind.code]

omit hE ho in
theorem run_braceClose (ws1 ws2 : List Char) (h1 : isWs ws1) (h2 : isWs ws2) (rest : List Char)
    (n l : Nat) (acc : List Obs) :
    runAux T o fold (n + 1) ⟨l, false⟩ (ws1 ++ (ws2 ++ '}' :: rest)) acc
      = runAux T o fold n ⟨l, false⟩ rest (⟨7, ['}'], l⟩ :: acc) := by
  rw [runAux, List.length_append, Nat.add_assoc, next_skipWs F o fold ws1 h1,
    List.length_append, Nat.add_assoc, next_skipWs F o fold ws2 h2,
    List.length_cons, next_braceClose F o fold]
  simp [Kind.code]

omit hE F ho in
theorem run_eof (n : Nat) (st : St) (acc : List Obs) :
    runAux T o fold (n + 1) st [] acc = { toks := (⟨0, [], st.line⟩ :: acc).reverse, err := none } := by
  rw [runAux]
  simp [nextToken, Kind.code]

end run

/-! ## the token stream of a serialised tree -/

mutual
/-- Number of lines `_serialise` writes for a node (independent of every option). -/
def linesKV : KV → Nat
  | .leaf _ _ => 1
  | .block _ cs => 3 + linesList cs
def linesList : List KV → Nat
  | [] => 0
  | t :: ts => linesKV t + linesList ts
end

mutual
/-- The tokens (kind code, value, line number after the token) of a serialised node that starts
on line `l`: a function of the tree alone. -/
def toksKV (l : Nat) : KV → List Obs
  | .leaf n v => [⟨1, n, l⟩, ⟨1, v, l⟩, ⟨2, ['\n'], l + 1⟩]
  | .block n cs =>
    ⟨1, n, l⟩ :: ⟨2, ['\n'], l + 1⟩ :: ⟨6, ['{'], l + 1⟩ :: ⟨2, ['\n'], l + 2⟩ ::
      (toksList (l + 2) cs ++ [⟨7, ['}'], l + 2 + linesList cs⟩, ⟨2, ['\n'], l + 3 + linesList cs⟩])
def toksList (l : Nat) : List KV → List Obs
  | [] => []
  | t :: ts => toksKV l t ++ toksList (l + linesKV t) ts
end

/-- the configuration of the fixed source: every name and value goes through `escape_text`. -/
def fullCfg : SerCfg := { escBlockName := true, escLeafName := true, escLeafValue := true }

theorem fullCfg_bn : fullCfg.escBlockName = true := rfl
theorem fullCfg_ln : fullCfg.escLeafName = true := rfl
theorem fullCfg_lv : fullCfg.escLeafValue = true := rfl

/-- the blanks written before a brace -/
def bracePrefix (so : SerOpts) : List Char := if so.indentBraces then so.indent else []

theorem openBrace_eq (so : SerOpts) : openBrace so = bracePrefix so ++ ['{', '\n'] := by
  unfold openBrace bracePrefix; split <;> simp
theorem closeBrace_eq (so : SerOpts) : closeBrace so = bracePrefix so ++ ['}', '\n'] := by
  unfold closeBrace bracePrefix; split <;> simp
theorem isWs_bracePrefix {so : SerOpts} (h : isWs so.indent) : isWs (bracePrefix so) := by
  unfold bracePrefix; split
  · exact h
  · exact isWs_nil

set_option linter.unusedSectionVars false

section lexTree
variable {T : Tables} (hE : escOK T = true) (F : KvFacts T) (o : Opts) (ho : o.allowEscapes = true)
  (fold : Char → List Char) (so : SerOpts) (hind : isWs so.indent)
include hE F ho hind

mutual
/-- Lexing a serialised node consumes exactly its characters and one unit of fuel per token. -/
theorem lex_kv (t : KV) (cur : List Char) (hcur : isWs cur) (l k : Nat) (rest : List Char)
    (acc : List Obs) :
    runAux T o fold (k + (toksKV l t).length) ⟨l, false⟩ (serKV T fullCfg so cur t ++ rest) acc
      = runAux T o fold k ⟨l + linesKV t, false⟩ rest ((toksKV l t).reverse ++ acc) := by
  match t with
  | .leaf n v =>
    simp only [serKV, toksKV, linesKV, fullCfg_ln, fullCfg_lv, field, if_true, List.length_cons, List.length_nil,
      List.append_assoc, List.cons_append, List.nil_append]
    rw [show k + (0 + 1 + 1 + 1) = (k + 2) + 1 from by omega, run_string hE F o ho fold cur hcur,
      show k + 2 = (k + 1) + 1 from rfl, run_string_sp hE F o ho fold,
      run_newline F o fold]
    simp
  | .block n cs =>
    simp only [serKV, toksKV, linesKV, fullCfg_bn, field, if_true, List.length_cons, List.length_append,
      List.length_nil, openBrace_eq, closeBrace_eq, List.append_assoc, List.cons_append, List.nil_append]
    rw [show k + (toksList (l + 2) cs).length.succ.succ.succ.succ.succ.succ =
        (((((k + 2) + (toksList (l + 2) cs).length) + 1) + 1) + 1) + 1 from by omega]
    rw [run_string hE F o ho fold cur hcur, run_newline F o fold,
      run_braceOpen F o fold cur (bracePrefix so) hcur (isWs_bracePrefix hind), run_newline F o fold,
      show l + 1 + 1 = l + 2 from rfl,
      lex_list cs (cur ++ so.indent) (isWs_append hcur hind),
      show k + 2 = (k + 1) + 1 from rfl,
      run_braceClose F o fold cur (bracePrefix so) hcur (isWs_bracePrefix hind), run_newline F o fold]
    rw [show l + 2 + linesList cs + 1 = l + 3 + linesList cs from by omega,
      show l + (3 + linesList cs) = l + 3 + linesList cs from by omega]
    simp
theorem lex_list (ts : List KV) (cur : List Char) (hcur : isWs cur) (l k : Nat) (rest : List Char)
    (acc : List Obs) :
    runAux T o fold (k + (toksList l ts).length) ⟨l, false⟩ (serList T fullCfg so cur ts ++ rest) acc
      = runAux T o fold k ⟨l + linesList ts, false⟩ rest ((toksList l ts).reverse ++ acc) := by
  match ts with
  | [] => simp [serList, toksList, linesList]
  | t :: ts =>
    simp only [serList, toksList, linesList, List.length_append, List.append_assoc]
    rw [show k + ((toksKV l t).length + (toksList (l + linesKV t) ts).length) =
        (k + (toksList (l + linesKV t) ts).length) + (toksKV l t).length from by omega,
      lex_kv t cur hcur, lex_list ts cur hcur]
    simp [Nat.add_assoc]
end


omit hE F ho hind in
mutual
theorem toks_len_kv (c : SerCfg) (t : KV) (cur : List Char) (l : Nat) :
    (toksKV l t).length ≤ (serKV T c so cur t).length := by
  match t with
  | .leaf n v => simp [serKV, toksKV]; omega
  | .block n cs =>
    have := toks_len_list c cs (cur ++ so.indent) (l + 2)
    simp [serKV, toksKV, openBrace_eq, closeBrace_eq]; omega
theorem toks_len_list (c : SerCfg) (ts : List KV) (cur : List Char) (l : Nat) :
    (toksList l ts).length ≤ (serList T c so cur ts).length := by
  match ts with
  | [] => simp [serList, toksList]
  | t :: ts =>
    have h1 := toks_len_kv c t cur l
    have h2 := toks_len_list c ts cur (l + linesKV t)
    simp [serList, toksList]; omega
end

/-- The whole token stream of a serialised list of nodes (what `Keyvalues.root(...)` writes). -/
theorem run_serList (ts : List KV) (cur : List Char) (hcur : isWs cur) :
    run T o fold (serList T fullCfg so cur ts)
      = { toks := toksList 1 ts ++ [⟨0, [], 1 + linesList ts⟩], err := none } := by
  unfold run
  have hlen := toks_len_list (T := T) (so := so) fullCfg ts cur 1
  obtain ⟨k, hk⟩ : ∃ k, (serList T fullCfg so cur ts).length + 2 = (k + 1) + (toksList 1 ts).length :=
    ⟨(serList T fullCfg so cur ts).length + 1 - (toksList 1 ts).length, by omega⟩
  have h := lex_list hE F o ho fold so hind ts cur hcur 1 (k + 1) [] []
  rw [List.append_nil] at h
  rw [hk]
  show runAux T o fold (k + 1 + (toksList 1 ts).length) ⟨1, false⟩ _ [] = _
  rw [h, run_eof]
  simp

/-- The whole token stream of one serialised node. -/
theorem run_serKV (t : KV) (cur : List Char) (hcur : isWs cur) :
    run T o fold (serKV T fullCfg so cur t)
      = { toks := toksKV 1 t ++ [⟨0, [], 1 + linesKV t⟩], err := none } := by
  have h := run_serList hE F o ho fold so hind [t] cur hcur
  simpa [serList, toksList, linesList] using h

end lexTree

/-! ## the parser machine on the token stream of a tree -/

/-- A name the parser accepts: no CR/LF unless `newline_keys`. -/
def keyOk (po : ParseOpts) (n : List Char) : Bool := po.newlineKeys || !hasNl n
/-- A value the parser accepts: anything unless `newline_values=False`. -/
def valOk (po : ParseOpts) (v : List Char) : Bool := po.newlineValues || !hasNl v

mutual
def okKV (po : ParseOpts) : KV → Bool
  | .leaf n v => keyOk po n && valOk po v
  | .block n cs => keyOk po n && okList po cs
def okList (po : ParseOpts) : List KV → Bool
  | [] => true
  | t :: ts => okKV po t && okList po ts
end

theorem keyOk_step {po : ParseOpts} {n : List Char} (h : keyOk po n = true) :
    (!po.newlineKeys && hasNl n) = false := by
  unfold keyOk at h; cases hk : po.newlineKeys <;> cases hn : hasNl n <;> simp_all
theorem valOk_step {po : ParseOpts} {v : List Char} (h : valOk po v = true) :
    (!po.newlineValues && hasNl v) = false := by
  unfold valOk at h; cases hk : po.newlineValues <;> cases hn : hasNl v <;> simp_all

/-- `can_flag_replace` after a list of nodes has been parsed. -/
def cfrAfter (b : Bool) : List KV → Bool
  | [] => b
  | _ :: _ => true

theorem cfrAfter_true (ts : List KV) : cfrAfter true ts = true := by cases ts <;> rfl

section parseTree
variable (po : ParseOpts) (fold : Char → List Char)

mutual
/-- Parsing the tokens of a node appends that node to the block being filled; nothing else of the
parser state changes (`single_block` off, or not at the root level). -/
theorem parse_kv (t : KV) (ht : okKV po t = true) (l : Nat) (fr : Frame) (stk : List Frame)
    (hsb : po.singleBlock = false ∨ fr.kind ≠ .root) (b : Bool)
    (more : List Obs) (err : Option (Err × Nat)) :
    parseToks po fold { stack := fr :: stk, blockLine := .none, canFlagReplace := b, mode := .top }
        (toksKV l t ++ more) err
      = parseToks po fold { stack := { fr with kids := t :: fr.kids } :: stk, blockLine := .none,
                            canFlagReplace := true, mode := .top } more err := by
  match t with
  | .leaf n v =>
    simp only [okKV, Bool.and_eq_true] at ht
    simp only [toksKV, List.cons_append, List.nil_append]
    have hsb' : (po.singleBlock && fr.kind == .root) = false := by
      rcases hsb with h | h <;> simp [h]
    simp [parseToks, step, stepTop, kEof, kBraceOpen, kNewline, kString, kPropFlag,
      keyOk_step ht.1, valOk_step ht.2, addKid, topIsRoot, hsb']
  | .block n cs =>
    simp only [okKV, Bool.and_eq_true] at ht
    simp only [toksKV, List.cons_append, List.nil_append, List.append_assoc]
    have hsb' : (po.singleBlock && fr.kind == .root) = false := by
      rcases hsb with h | h <;> simp [h]
    simp [parseToks, step, stepTop, kEof, kBraceOpen, kNewline, kString, kPropFlag,
      keyOk_step ht.1, addKid]
    rw [parse_list cs ht.2 (l + 2) ⟨.named n, []⟩ (⟨fr.kind, fr.kids⟩ :: stk) (Or.inr (by simp)) false]
    simp [parseToks, step, stepTop, closeInto, kEof, kBraceOpen, kNewline, kString, kBraceClose, hsb']
theorem parse_list (ts : List KV) (ht : okList po ts = true) (l : Nat) (fr : Frame) (stk : List Frame)
    (hsb : po.singleBlock = false ∨ fr.kind ≠ .root) (b : Bool)
    (more : List Obs) (err : Option (Err × Nat)) :
    parseToks po fold { stack := fr :: stk, blockLine := .none, canFlagReplace := b, mode := .top }
        (toksList l ts ++ more) err
      = parseToks po fold { stack := { fr with kids := ts.reverse ++ fr.kids } :: stk, blockLine := .none,
                            canFlagReplace := cfrAfter b ts, mode := .top } more err := by
  match ts with
  | [] => simp [toksList, cfrAfter]
  | t :: ts =>
    simp only [okList, Bool.and_eq_true] at ht
    simp only [toksList, List.append_assoc]
    rw [parse_kv t ht.1 l fr stk hsb b, parse_list ts ht.2 _ _ stk (by simpa using hsb) true]
    simp only [cfrAfter_true]
    simp [cfrAfter]
end

end parseTree

/-! ## the parser machine never reaches its `internal` branches -/

set_option linter.unusedSimpArgs false

/-- Invariant of the parser machine: the block stack is never empty; while a block opening is
required the keyvalue waiting for it is the last child of the current block; and inside the loop
body (any mode but `top`) no block opening is pending. -/
def invB (ps : PState) : Bool :=
  (match ps.stack, ps.blockLine with
    | [], _ => false
    | ⟨_, .block _ _ :: _⟩ :: _, .expect => true
    | _ :: _, .expect => false
    | _ :: _, _ => true) &&
  (match ps.mode with
    | .top => true
    | _ => ps.blockLine == .none)

def okRes : PResult → Bool
  | .err .internal _ => false
  | _ => true

def okOut : Out → Bool
  | .cont ps => invB ps
  | .done r => okRes r

@[simp high] theorem okRes_single_or (x : Option KV) :
    okRes (match x with | some kv => .single kv | none => .err .pyIndexError none) = true := by
  cases x <;> rfl

theorem stepTop_inv (po : ParseOpts) (ps : PState) (t : Obs) (h : invB ps = true) :
    okOut (stepTop po ps t) = true := by
  obtain ⟨stack, bl, cfr, mode⟩ := ps
  unfold stepTop finish
  cases stack with
  | nil => simp [invB] at h
  | cons fr stk =>
    obtain ⟨fk, kids⟩ := fr
    cases bl <;> rcases kids with _ | ⟨(_ | _), tl⟩ <;> simp only [invB] at h <;>
      (repeat' split) <;>
      (first | rfl | (simp_all [okOut, okRes, invB]; done)
             | (cases mode <;> simp_all [okOut, okRes, invB, kString, kNewline]; done))

theorem placeFlagged_head (g : Bool) (ps : PState) (kv : KV) (f : KV → Bool) (stk' : List Frame)
    (h : placeFlagged g ps kv f = some stk') : ∃ fk kids tl, stk' = ⟨fk, kv :: kids⟩ :: tl := by
  unfold placeFlagged at h
  (repeat' split at h) <;> simp_all <;> subst h <;> exact ⟨_, _, _, rfl⟩

theorem step_inv (po : ParseOpts) (fold : Char → List Char) (ps : PState) (t : Obs)
    (h : invB ps = true) : okOut (step po fold ps t) = true := by
  obtain ⟨stack, bl, cfr, mode⟩ := ps
  cases stack with
  | nil => simp [invB] at h
  | cons fr stk =>
    obtain ⟨fk, kids⟩ := fr
    cases mode with
    | top => exact stepTop_inv po _ t h
    | afterName name =>
      have hb : bl = .none := by cases bl <;> simp_all [invB]
      subst hb
      simp only [step]
      split
      · simp_all [okOut, invB]
      · split
        · (repeat' split) <;> simp_all [okOut, okRes, invB]
        · apply stepTop_inv; simp [invB, addKid]
    | flagBlockNl name flag =>
      have hb : bl = .none := by cases bl <;> simp_all [invB]
      subst hb
      simp only [step]
      split
      · rfl
      · split
        · cases hp : placeFlagged _ _ _ _ with
          | none => rfl
          | some stk' =>
            obtain ⟨fk', kids', tl', rfl⟩ := placeFlagged_head _ _ _ _ _ hp
            simp [okOut, invB]
        · simp [okOut, invB]
    | afterValue name value =>
      have hb : bl = .none := by cases bl <;> simp_all [invB]
      subst hb
      simp only [step]
      split
      · simp_all [okOut, invB]
      · split
        · split
          · apply stepTop_inv; simp [invB, addKid]
          · rfl
        · split
          · rfl
          · apply stepTop_inv; simp [invB, addKid]
    | flagLeafNl name value flag =>
      have hb : bl = .none := by cases bl <;> simp_all [invB]
      subst hb
      simp only [step]
      split
      · rfl
      · split
        · cases hp : placeFlagged _ _ _ _ with
          | none => rfl
          | some stk' =>
            obtain ⟨fk', kids', tl', rfl⟩ := placeFlagged_head _ _ _ _ _ hp
            simp only []
            split
            · rfl
            · simp [okOut, invB]
        · simp [okOut, invB]

def isDone : Out → Bool
  | .done _ => true
  | .cont _ => false

theorem step_eof_done (po : ParseOpts) (fold : Char → List Char) (ps : PState) (t : Obs)
    (h : t.kind = 0) : isDone (step po fold ps t) = true := by
  obtain ⟨stack, bl, cfr, mode⟩ := ps
  cases mode with
  | afterValue name value =>
    by_cases hc : (po.singleBlock && topIsRoot stack) = true <;>
      simp [step, hc, isDone, stepTop, h, kEof, kPropFlag, kString]
  | _ =>
    simp only [step, stepTop, h, kEof, kPropFlag, kString, kNewline] <;>
      (repeat' split) <;> (first | rfl | (simp_all [isDone]; done))

theorem runAux_last (T : Tables) (o : Opts) (fold : Char → List Char) :
    ∀ (n : Nat) (st : St) (inp : List Char) (acc : List Obs),
      (runAux T o fold n st inp acc).err = none →
      ∃ pre v l, (runAux T o fold n st inp acc).toks = pre ++ [⟨0, v, l⟩] := by
  intro n
  induction n with
  | zero => intro st inp acc h; simp [runAux] at h
  | succ n ih =>
    intro st inp acc h
    rw [runAux] at h ⊢
    split at h
    · simp at h
    · rename_i k v st' rest heq
      by_cases hk : k = Kind.eof
      · simp only [hk, if_true] at h ⊢
        exact ⟨acc.reverse, v, st'.line, by simp [Kind.code]⟩
      · simp only [hk, if_false] at h ⊢
        exact ih _ _ _ h

theorem parseToks_ok (po : ParseOpts) (fold : Char → List Char) :
    ∀ (toks : List Obs) (ps : PState) (err : Option (Err × Nat)), invB ps = true →
      (err = none → ∃ pre v l, toks = pre ++ [⟨0, v, l⟩]) →
      okRes (parseToks po fold ps toks err) = true := by
  intro toks
  induction toks with
  | nil =>
    intro ps err _ hl
    cases err with
    | none => obtain ⟨pre, v, l, h⟩ := hl rfl; simp at h
    | some e => obtain ⟨e, l⟩ := e; simp [parseToks, okRes]
  | cons t ts ih =>
    intro ps err hinv hl
    rw [parseToks]
    have hs := step_inv po fold ps t hinv
    cases hstep : step po fold ps t with
    | done r => rw [hstep] at hs; simpa [okOut] using hs
    | cont ps' =>
      rw [hstep] at hs
      simp only [okOut] at hs
      simp only
      apply ih ps' err hs
      intro he
      obtain ⟨pre, v, l, h⟩ := hl he
      cases pre with
      | nil =>
        simp at h
        obtain ⟨rfl, rfl⟩ := h
        have hr := step_eof_done po fold ps ⟨0, v, l⟩ rfl
        rw [hstep] at hr; simp [isDone] at hr
      | cons p pre' =>
        simp at h
        exact ⟨pre', v, l, h.2⟩

theorem parse_ok (T : Tables) (po : ParseOpts) (fold : Char → List Char) (text : List Char) :
    okRes (parse T po fold text) = true := by
  unfold parse parseRun run
  apply parseToks_ok
  · simp [initState, invB]
  · exact runAux_last T _ fold _ _ _ _

end C01
