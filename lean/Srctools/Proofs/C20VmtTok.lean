import Srctools.Proofs.C20Vmt
import Srctools.Proofs.C20Tok
import Srctools.Proofs.C01
/-! The tokenizer on the text of `Material.export`: it finds exactly the tokens `toksVmt m`. -/
set_option linter.unusedSimpArgs false
namespace C20.Vmt
open Tok C01 C20

def bom : Char := Char.ofNat 0xFEFF

/-- a string the VMT text can carry on one line: no quote, no CR, no LF, not starting with a BOM. -/
def strOKv (s : List Char) : Prop := '"' ∉ s ∧ '\r' ∉ s ∧ '\n' ∉ s ∧ s.head? ≠ some bom

instance (s : List Char) : Decidable (strOKv s) := by unfold strOKv; infer_instance

/-- line numbers of a token list lexed from line `l` (strings here never span lines). -/
def obsOf (l : Nat) : List Tk → List Obs
  | [] => []
  | (k, v) :: ts => if k = kNl then ⟨k, v, l + 1⟩ :: obsOf (l + 1) ts else ⟨k, v, l⟩ :: obsOf l ts

def nls (ts : List Tk) : Nat := (ts.filter fun t => t.1 = kNl).length

theorem obsOf_append (l : Nat) (a b : List Tk) : obsOf l (a ++ b) = obsOf l a ++ obsOf (l + nls a) b := by
  induction a generalizing l with
  | nil => simp [obsOf, nls]
  | cons t ts ih =>
    obtain ⟨k, v⟩ := t
    by_cases hk : k = kNl
    · subst hk
      have e : nls ((kNl, v) :: ts) = nls ts + 1 := by simp [nls, List.filter_cons]
      simp only [List.cons_append, obsOf, if_true, ih, e, List.cons.injEq, true_and]
      rw [show l + (nls ts + 1) = l + 1 + nls ts from by omega]
    · simp [obsOf, nls, hk, ih, List.filter_cons]

theorem obsOf_proj (l : Nat) (ts : List Tk) : (obsOf l ts).map (fun o => (o.kind, o.value)) = ts := by
  induction ts generalizing l with
  | nil => rfl
  | cons t ts ih =>
    obtain ⟨k, v⟩ := t
    by_cases hk : k = kNl <;> simp [obsOf, hk, ih]

theorem isWs_tab' : isWs tab := by intro c hc; simp [tab] at hc; exact Or.inr hc
theorem isWs_tab1 : isWs ['\t'] := by intro c hc; simp at hc; exact Or.inr hc
theorem isWs_sp1 : isWs [' '] := by intro c hc; simp at hc; exact Or.inl hc

theorem toksParams_nls (ps : List (List Char × List Char)) : nls (toksParams ps) = ps.length := by
  induction ps with
  | nil => rfl
  | cons p ps ih =>
    obtain ⟨n, v⟩ := p
    simp only [toksParams, nls, List.filter_cons, kStr, kNl, tNl] at ih ⊢
    simp [ih]

section lex
variable {T : Tables} (F : KvFacts T) (lead : List Char) (hT : vmtTablesOK T lead = true)
  (fold : Char → List Char)
include F hT

/-- blanks, then a string through `_quote_if_required`, then a delimiter: one STRING token. -/
theorem run_vq (ws : List Char) (hws : isWs ws) (s : List Char) (hs : strOKv s) (d : Char) (rest : List Char)
    (hd : T.bareDisallowed.contains d = true) (n l : Nat) (acc : List Obs) :
    runAux T vmtOpts fold (n + 1) ⟨l, false⟩ (ws ++ (vmtQuote T lead s ++ d :: rest)) acc
      = runAux T vmtOpts fold n ⟨l, false⟩ (d :: rest) (⟨1, s, l⟩ :: acc) := by
  obtain ⟨h1, h2, h3, h4⟩ := hs
  rw [runAux, List.length_append, Nat.add_assoc, next_skipWs F vmtOpts fold ws hws]
  have hb : ¬ (s.head? = some (Char.ofNat 0xFEFF) ∧ (⟨l, false⟩ : St).line = 1) := fun h => h4 h.1
  rw [vmtQuote_read T lead hT fold s d rest ⟨l, false⟩ _ h1 h2 hd hb]
  have hc : List.count '\n' s = 0 := List.count_eq_zero.mpr h3
  simp [hc, Kind.code]

omit F in
theorem next_rawq (s rest : List Char) (st : St) (f : Nat) (h1 : '"' ∉ s) (h2 : '\r' ∉ s) :
    nextToken T vmtOpts fold (f + 1) st ('"' :: (s ++ '"' :: rest))
      = .tok .string s { line := st.line + s.count '\n', lastCr := false } rest := by
  have hT' := hT
  unfold vmtTablesOK at hT'
  simp only [Bool.and_eq_true, List.all_eq_true] at hT'
  have hqop' : T.operator '"' = none := by simpa using hT'.2
  rw [nextToken]
  simp only [hqop']
  have e1 : ('"' : Char) ≠ '\r' := by decide
  have e2 : ('"' : Char) ≠ '\n' := by decide
  have e3 : ¬ (('"' : Char) = ' ' ∨ ('"' : Char) = '\t') := by decide
  have e4 : ('"' : Char) ≠ '/' := by decide
  simp only [e1, e2, e3, e4, if_false, if_true]
  have : vmtOpts.allowEscapes = false := rfl
  rw [this, handleString_raw T s rest [] st.line h1 h2]
  simp

/-- blanks, then a string in plain quotes (`_export_block`): one STRING token. -/
theorem run_rawq (ws : List Char) (hws : isWs ws) (s : List Char) (hs : strOKv s) (rest : List Char)
    (n l : Nat) (acc : List Obs) :
    runAux T vmtOpts fold (n + 1) ⟨l, false⟩ (ws ++ (rawq s ++ rest)) acc
      = runAux T vmtOpts fold n ⟨l, false⟩ rest (⟨1, s, l⟩ :: acc) := by
  obtain ⟨h1, h2, h3, _⟩ := hs
  rw [runAux, List.length_append, Nat.add_assoc, next_skipWs F vmtOpts fold ws hws]
  unfold rawq
  simp only [List.cons_append, List.append_assoc, List.nil_append, List.length_cons]
  rw [next_rawq lead hT fold s rest ⟨l, false⟩ _ h1 h2]
  have hc : List.count '\n' s = 0 := List.count_eq_zero.mpr h3
  simp [hc, Kind.code]

mutual
def okKVv : KV → Prop
  | KV.leaf n v => strOKv n ∧ strOKv v
  | KV.block n cs => strOKv n ∧ okKVsv cs
def okKVsv : List KV → Prop
  | [] => True
  | t :: ts => okKVv t ∧ okKVsv ts
end


mutual
theorem lexB (t : KV) (ht : okKVv t) (ind : List Char) (hind : isWs ind) (l k : Nat) (rest : List Char)
    (acc : List Obs) :
    runAux T vmtOpts fold (k + sz t) ⟨l, false⟩ (expBlock ind t ++ rest) acc
      = runAux T vmtOpts fold k ⟨l + nls (toksBlock t), false⟩ rest ((obsOf l (toksBlock t)).reverse ++ acc) := by
  match t with
  | KV.leaf n v =>
    obtain ⟨h1, h2⟩ := ht
    simp only [expBlock, sz, toksBlock, List.append_assoc, List.cons_append, List.nil_append]
    rw [show k + 3 = (k + 2) + 1 from rfl, run_rawq F lead hT fold ind hind n h1]
    have := run_rawq F lead hT fold [' '] isWs_sp1 v h2 ('\n' :: rest) (k + 1) l (⟨1, n, l⟩ :: acc)
    simp only [List.cons_append, List.nil_append] at this
    rw [show k + 2 = (k + 1) + 1 from rfl, this, run_newline F vmtOpts fold]
    simp [obsOf, nls, tNl, kStr, kNl]
  | KV.block n cs =>
    obtain ⟨h1, h2⟩ := ht
    simp only [expBlock, sz, toksBlock, List.append_assoc, List.cons_append, List.nil_append]
    have hsz : (toksBlocks cs).length = szl cs := toksBlocks_length cs
    rw [show k + (6 + szl cs) = (((((k + 2) + szl cs) + 1) + 1) + 1) + 1 from by omega,
      run_rawq F lead hT fold ind hind n h1, run_newline F vmtOpts fold]
    have hbo := run_braceOpen F vmtOpts fold ind ['\t'] hind isWs_tab1
    simp only [List.cons_append, List.nil_append] at hbo
    rw [hbo, run_newline F vmtOpts fold, show l + 1 + 1 = l + 2 from rfl,
      lexBs cs h2 (ind ++ tab) (isWs_append hind isWs_tab'), show k + 2 = (k + 1) + 1 from rfl]
    have hbc := run_braceClose F vmtOpts fold ind ['\t'] hind isWs_tab1
    simp only [List.cons_append, List.nil_append] at hbc
    rw [hbc, run_newline F vmtOpts fold]
    simp [obsOf, obsOf_append, nls, tNl, tOpen, tClose, kStr, kNl, kOpen, kClose, List.filter_append]
    have e : ∀ X, l + (X + 1 + 1 + 1) = l + 2 + X + 1 := by intro X; omega
    rw [e]
theorem lexBs (ts : List KV) (ht : okKVsv ts) (ind : List Char) (hind : isWs ind) (l k : Nat)
    (rest : List Char) (acc : List Obs) :
    runAux T vmtOpts fold (k + szl ts) ⟨l, false⟩ (expBlocks ind ts ++ rest) acc
      = runAux T vmtOpts fold k ⟨l + nls (toksBlocks ts), false⟩ rest
          ((obsOf l (toksBlocks ts)).reverse ++ acc) := by
  match ts with
  | [] => simp [expBlocks, toksBlocks, szl, obsOf, nls]
  | t :: ts =>
    obtain ⟨h1, h2⟩ := ht
    simp only [expBlocks, toksBlocks, szl, List.append_assoc]
    rw [show k + (sz t + szl ts) = (k + szl ts) + sz t from by omega, lexB t h1 ind hind, lexBs ts h2 ind hind]
    simp [obsOf_append, nls, List.filter_append, Nat.add_assoc]
end

theorem lexP (ps : List (List Char × List Char)) (hok : ∀ p ∈ ps, strOKv p.1 ∧ strOKv p.2) (l k : Nat)
    (rest : List Char) (acc : List Obs) :
    runAux T vmtOpts fold (k + 3 * ps.length) ⟨l, false⟩ (expParams T lead ps ++ rest) acc
      = runAux T vmtOpts fold k ⟨l + ps.length, false⟩ rest ((obsOf l (toksParams ps)).reverse ++ acc) := by
  have hT' := hT
  unfold vmtTablesOK at hT'
  simp only [Bool.and_eq_true, List.all_eq_true] at hT'
  have hsp : T.bareDisallowed.contains ' ' = true := hT'.1.1.1.2 ' ' (by simp)
  have hnl : T.bareDisallowed.contains '\n' = true := hT'.1.1.1.2 '\n' (by simp)
  induction ps generalizing l acc with
  | nil => simp [expParams, toksParams, obsOf]
  | cons p ps ih =>
    obtain ⟨n, v⟩ := p
    obtain ⟨h1, h2⟩ := hok (n, v) (by simp)
    simp only [expParams, toksParams, List.length_cons, List.cons_append, List.append_assoc]
    have s1 := run_vq F lead hT fold ['\t'] isWs_tab1 n h1 ' ' (vmtQuote T lead v ++ '\n' :: (expParams T lead ps ++ rest)) hsp
    have s2 := run_vq F lead hT fold [' '] isWs_sp1 v h2 '\n' (expParams T lead ps ++ rest) hnl
    simp only [List.cons_append, List.nil_append, List.append_assoc] at s1 s2
    rw [show k + 3 * (ps.length + 1) = ((k + 3 * ps.length) + 2) + 1 from by omega, s1,
      show k + 3 * ps.length + 2 = ((k + 3 * ps.length) + 1) + 1 from rfl, s2, run_newline F vmtOpts fold,
      ih (fun q hq => hok q (by simp [hq]))]
    simp [obsOf, kStr, kNl, tNl]
    rw [show l + 1 + ps.length = l + (ps.length + 1) from by omega]

end lex

/-! ## lengths: there are at least as many characters as tokens -/

mutual
theorem expBlock_len (ind : List Char) (t : KV) : sz t ≤ (expBlock ind t).length := by
  match t with
  | KV.leaf n v => simp [expBlock, sz, rawq]; omega
  | KV.block n cs =>
    have := expBlocks_len (ind ++ tab) cs
    simp [expBlock, sz, rawq]; omega
theorem expBlocks_len (ind : List Char) (ts : List KV) : szl ts ≤ (expBlocks ind ts).length := by
  match ts with
  | [] => simp [szl]
  | t :: ts =>
    have h1 := expBlock_len ind t
    have h2 := expBlocks_len ind ts
    simp [expBlocks, szl]; omega
end

theorem expParams_len (T : Tables) (lead : List Char) (ps : List (List Char × List Char)) :
    3 * ps.length ≤ (expParams T lead ps).length := by
  induction ps with
  | nil => simp
  | cons p ps ih => obtain ⟨n, v⟩ := p; simp [expParams]; omega

/-- What the text theorem asks of a material: every string fits on one line without quote / CR
(the reader decodes no escapes) and does not start with a BOM; `Proxies` itself is written bare. -/
structure VmtTextOK (T : Tables) (lead : List Char) (m : Vmt) : Prop where
  shader : strOKv m.shader
  params : ∀ p ∈ m.params, strOKv p.1 ∧ strOKv p.2
  blocks : okKVsv m.blocks
  proxies : okKVsv m.proxies
  kw : vmtQuote T lead kProxies = kProxies

/-- **Lexer.** The tokenizer (options of `Material.parse`) finds in the text of `Material.export`
exactly the tokens `toksVmt m`, without error. -/
theorem run_exportVmt {T : Tables} (hK : kvOK T = true) (lead : List Char) (hT : vmtTablesOK T lead = true)
    (fold : Char → List Char) (m : Vmt) (h : VmtTextOK T lead m) :
    Tok.run T vmtOpts fold (exportVmt T lead m) = { toks := obsOf 1 (toksVmt m), err := none } := by
  have F := kvFacts hK
  obtain ⟨hsh, hps, hbs, hpx, hkw⟩ := h
  obtain ⟨shader, params, blocks, proxies⟩ := m
  simp only at hsh hps hbs hpx
  have hT' := hT
  unfold vmtTablesOK at hT'
  simp only [Bool.and_eq_true, List.all_eq_true] at hT'
  have hnl : T.bareDisallowed.contains '\n' = true := hT'.1.1.1.2 '\n' (by simp)
  have hkp : strOKv kProxies := by unfold strOKv; decide
  have l1 := expParams_len T lead params
  have l2 := expBlocks_len tab blocks
  have l3 := expBlocks_len (tab ++ tab) proxies
  unfold Tok.run exportVmt toksVmt
  by_cases hp : proxies.isEmpty = true
  · simp only [hp, if_true, List.nil_append]
    obtain ⟨a, ha⟩ : ∃ a, (expParams T lead params).length = a + 3 * params.length :=
      ⟨(expParams T lead params).length - 3 * params.length, by omega⟩
    obtain ⟨b, hb⟩ : ∃ b, (expBlocks tab blocks).length = b + szl blocks :=
      ⟨(expBlocks tab blocks).length - szl blocks, by omega⟩
    have hk : (vmtQuote T lead shader ++ '\n' :: '\t' :: '{' :: '\n' ::
        (expParams T lead params ++ (expBlocks tab blocks ++ ['\t', '}', '\n']))).length + 2 =
        ((((((((((vmtQuote T lead shader).length + a + b + 2) + 1) + 1) + 1) + szl blocks) + 3 * params.length) + 1) + 1) + 1) + 1 := by
      simp only [List.length_append, List.length_cons, List.length_nil, ha, hb]; omega
    rw [hk]
    have s1 := run_vq F lead hT fold [] isWs_nil shader hsh '\n'
      ('\t' :: '{' :: '\n' :: (expParams T lead params ++ (expBlocks tab blocks ++ ['\t', '}', '\n']))) hnl
    simp only [List.nil_append] at s1
    rw [s1, run_newline F vmtOpts fold]
    have hbo := run_braceOpen F vmtOpts fold [] ['\t'] isWs_nil isWs_tab1
    simp only [List.nil_append, List.cons_append] at hbo
    rw [hbo, run_newline F vmtOpts fold, lexP F lead hT fold params hps,
      lexBs F lead hT fold blocks hbs tab isWs_tab']
    have hbc := run_braceClose F vmtOpts fold [] ['\t'] isWs_nil isWs_tab1
    simp only [List.nil_append, List.cons_append] at hbc
    rw [hbc, run_newline F vmtOpts fold, run_eof]
    simp [obsOf, obsOf_append, toksParams_nls, kStr, kNl, kOpen, kClose, kEof, tNl, tOpen, tClose,
      Nat.add_assoc, Nat.add_comm, Nat.add_left_comm]
  · have hpf : proxies.isEmpty = false := by simpa using hp
    simp only [hpf, Bool.false_eq_true, if_false, List.cons_append, List.append_assoc, List.nil_append]
    obtain ⟨a, ha⟩ : ∃ a, (expParams T lead params).length = a + 3 * params.length :=
      ⟨(expParams T lead params).length - 3 * params.length, by omega⟩
    obtain ⟨b, hb⟩ : ∃ b, (expBlocks tab blocks).length = b + szl blocks :=
      ⟨(expBlocks tab blocks).length - szl blocks, by omega⟩
    obtain ⟨c, hc⟩ : ∃ c, (expBlocks (tab ++ tab) proxies).length = c + szl proxies :=
      ⟨(expBlocks (tab ++ tab) proxies).length - szl proxies, by omega⟩
    have hk : (vmtQuote T lead shader ++ '\n' :: '\t' :: '{' :: '\n' ::
        (expParams T lead params ++ (expBlocks tab blocks ++ ('\n' :: '\t' :: (kProxies ++ '\n' :: '\t' :: '\t' :: '{' :: '\n' ::
          (expBlocks (tab ++ tab) proxies ++ ['\t', '\t', '}', '\n', '\t', '}', '\n'])))))).length + 2 =
        ((((((((((((((((((vmtQuote T lead shader).length + a + b + c + 13) + 1) + 1) + 1) + 1) + 1) + szl proxies) + 1) + 1) + 1) + 1) + 1) + szl blocks) + 3 * params.length) + 1) + 1) + 1) + 1 := by
      simp only [List.length_append, List.length_cons, List.length_nil, ha, hb, hc, kProxies]; omega
    rw [hk]
    have s1 := run_vq F lead hT fold [] isWs_nil shader hsh '\n'
      ('\t' :: '{' :: '\n' :: (expParams T lead params ++ (expBlocks tab blocks ++ ('\n' :: '\t' :: (kProxies ++ '\n' :: '\t' :: '\t' :: '{' :: '\n' ::
          (expBlocks (tab ++ tab) proxies ++ ['\t', '\t', '}', '\n', '\t', '}', '\n'])))))) hnl
    simp only [List.nil_append] at s1
    rw [s1, run_newline F vmtOpts fold]
    have hbo := run_braceOpen F vmtOpts fold [] ['\t'] isWs_nil isWs_tab1
    simp only [List.nil_append, List.cons_append] at hbo
    rw [hbo, run_newline F vmtOpts fold, lexP F lead hT fold params hps,
      lexBs F lead hT fold blocks hbs tab isWs_tab', run_newline F vmtOpts fold]
    have s2 := run_vq F lead hT fold ['\t'] isWs_tab1 kProxies hkp '\n'
      ('\t' :: '\t' :: '{' :: '\n' :: (expBlocks (tab ++ tab) proxies ++ ['\t', '\t', '}', '\n', '\t', '}', '\n'])) hnl
    rw [hkw] at s2
    simp only [List.cons_append, List.nil_append] at s2
    rw [s2, run_newline F vmtOpts fold]
    have hbo2 := run_braceOpen F vmtOpts fold ['\t'] ['\t'] isWs_tab1 isWs_tab1
    simp only [List.nil_append, List.cons_append] at hbo2
    rw [hbo2, run_newline F vmtOpts fold]
    have := lexBs F lead hT fold proxies hpx (tab ++ tab) (isWs_append isWs_tab' isWs_tab')
    rw [this]
    have hbc2 := run_braceClose F vmtOpts fold ['\t'] ['\t'] isWs_tab1 isWs_tab1
    simp only [List.nil_append, List.cons_append] at hbc2
    rw [hbc2, run_newline F vmtOpts fold]
    have hbc := run_braceClose F vmtOpts fold [] ['\t'] isWs_nil isWs_tab1
    simp only [List.nil_append, List.cons_append] at hbc
    rw [hbc, run_newline F vmtOpts fold, run_eof]
    simp [obsOf, obsOf_append, toksParams_nls, kStr, kNl, kOpen, kClose, kEof, tNl, tOpen, tClose,
      Nat.add_assoc, Nat.add_comm, Nat.add_left_comm]

end C20.Vmt
