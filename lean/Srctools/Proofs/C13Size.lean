import Srctools.Proofs.C13Refine
/-! Helper lemmas for C13, part 6: a size budget on the history implies that `write_dirfile` never hits
`struct.error` (`runFits`). -/
namespace C13

/-! ## weighted sums over association lists -/

def sumB {α} (c : Nat) (h : α → Nat) : AList α → Nat
  | [] => 0
  | x :: xs => x.1.length + c + h x.2 + sumB c h xs

def preloadLen (i : Info) : Nat := i.startData.length
def filesB (fs : Files) : Nat := sumB 20 preloadLen fs
def dirsB (ds : Dirs) : Nat := sumB 3 filesB ds
def treeB (t : Tree) : Nat := sumB 3 dirsB t

theorem sumB_set_some {α} (c : Nat) (h : α → Nat) (k : Str) (v v0 : α) (l : AList α) (hf : AList.find k l = some v0) :
    sumB c h (AList.set k v l) + h v0 = sumB c h l + h v := by
  induction l with
  | nil => simp [AList.find] at hf
  | cons x xs ih =>
    obtain ⟨k1, v1⟩ := x
    by_cases hk : k1 = k
    · simp [AList.find, hk] at hf
      subst hf
      simp only [AList.set, hk, if_true, sumB]; omega
    · simp [AList.find, hk] at hf
      have := ih hf
      simp only [AList.set, hk, if_false, sumB]; omega

theorem sumB_set_none {α} (c : Nat) (h : α → Nat) (k : Str) (v : α) (l : AList α) (hf : AList.find k l = none) :
    sumB c h (AList.set k v l) = sumB c h l + (k.length + c + h v) := by
  induction l with
  | nil => simp [AList.set, sumB]
  | cons x xs ih =>
    obtain ⟨k1, v1⟩ := x
    by_cases hk : k1 = k
    · simp [AList.find, hk] at hf
    · simp [AList.find, hk] at hf
      have := ih hf
      simp only [AList.set, hk, if_false, sumB]; omega

/-- nested update: the new value is at most the old one (or the empty one) plus `X` -/
theorem sumB_set_le {α} (c : Nat) (h : α → Nat) (k : Str) (v : α) (l : AList α) (X : Nat)
    (hle : h v ≤ (match AList.find k l with | some v0 => h v0 | none => 0) + X) :
    sumB c h (AList.set k v l) ≤ sumB c h l + (k.length + c + X) := by
  cases hf : AList.find k l with
  | none =>
    rw [hf] at hle
    simp only at hle
    rw [sumB_set_none c h k v l hf]; omega
  | some v0 =>
    rw [hf] at hle
    have := sumB_set_some c h k v v0 l hf
    simp only at hle
    omega

theorem sumB_erase_le {α} (c : Nat) (h : α → Nat) (k : Str) (l : AList α) : sumB c h (AList.erase k l) ≤ sumB c h l := by
  induction l with
  | nil => simp [AList.erase]
  | cons x xs ih =>
    obtain ⟨k1, v1⟩ := x
    by_cases hk : k1 = k
    · simp only [AList.erase, hk, if_true, sumB]; omega
    · simp only [AList.erase, hk, if_false, sumB]; omega

theorem sumB_insertSorted {α} (c : Nat) (h : α → Nat) (x : Str × α) (l : AList α) :
    sumB c h (insertSorted x l) = x.1.length + c + h x.2 + sumB c h l := by
  induction l with
  | nil => simp [insertSorted, sumB]
  | cons y ys ih =>
    unfold insertSorted
    split
    · simp [sumB]
    · simp only [sumB, ih]; omega

theorem sumB_sortA {α} (c : Nat) (h : α → Nat) (l : AList α) : sumB c h (sortA l) = sumB c h l := by
  induction l with
  | nil => rfl
  | cons x xs ih =>
    show sumB c h (insertSorted x (sortA xs)) = _
    rw [sumB_insertSorted, ih]; rfl

theorem sumB_filter_le {α} (c : Nat) (h : α → Nat) (p : Str × α → Bool) (l : AList α) :
    sumB c h (l.filter p) ≤ sumB c h l := by
  induction l with
  | nil => simp
  | cons x xs ih =>
    by_cases hp : p x = true
    · simp only [List.filter_cons, hp, if_true, sumB]; omega
    · simp only [List.filter_cons, hp, sumB]; simp only [Bool.false_eq_true, if_false]; omega

theorem sumB_map_val_le {α β} (c : Nat) (h : α → Nat) (h' : β → Nat) (g : Str × α → β) (l : AList α)
    (hg : ∀ x ∈ l, h' (g x) ≤ h x.2) :
    sumB c h' (l.map fun x => (x.1, g x)) ≤ sumB c h l := by
  induction l with
  | nil => simp [sumB]
  | cons x xs ih =>
    have h1 := hg x (by simp)
    have h2 := ih (fun y hy => hg y (by simp [hy]))
    simp only [List.map_cons, sumB]; omega

theorem sumB_find_le {α} (c : Nat) (h : α → Nat) (k : Str) (v : α) (l : AList α) (hf : AList.find k l = some v) :
    h v ≤ sumB c h l := by
  induction l with
  | nil => simp [AList.find] at hf
  | cons x xs ih =>
    obtain ⟨k1, v1⟩ := x
    by_cases hk : k1 = k
    · simp [AList.find, hk] at hf; subst hf; simp only [sumB]; omega
    · simp [AList.find, hk] at hf; have := ih hf; simp only [sumB]; omega

/-! ## the canonical form is not larger -/

theorem filesB_sortA (fs : Files) : filesB (sortA fs) = filesB fs := sumB_sortA _ _ _

theorem dirsB_rawDirs (ds : Dirs) : dirsB (rawDirs ds) ≤ dirsB ds := by
  unfold rawDirs dirsB
  calc sumB 3 filesB (((sortA ds).filter _).map fun x => (x.1, sortA x.2))
      ≤ sumB 3 filesB ((sortA ds).filter (fun x => !decide (x.2 = []))) :=
        sumB_map_val_le 3 filesB filesB (fun x => sortA x.2) _ (fun x _ => by rw [filesB_sortA]; exact Nat.le_refl _)
    _ ≤ sumB 3 filesB (sortA ds) := sumB_filter_le _ _ _ _
    _ = sumB 3 filesB ds := sumB_sortA _ _ _

theorem treeB_rawTree (t : Tree) : treeB (rawTree t) ≤ treeB t := by
  unfold rawTree treeB
  calc sumB 3 dirsB (((sortA t).filter _).map fun x => (x.1, rawDirs x.2))
      ≤ sumB 3 dirsB ((sortA t).filter (fun x => !decide (x.2 = []))) :=
        sumB_map_val_le 3 dirsB dirsB (fun x => rawDirs x.2) _ (fun x _ => dirsB_rawDirs x.2)
    _ ≤ sumB 3 dirsB (sortA t) := sumB_filter_le _ _ _ _
    _ = sumB 3 dirsB t := sumB_sortA _ _ _

/-! ## length of the encoded tree -/

theorem encStr_length_le (s : Str) : (encStr s).length ≤ s.length + 2 := by
  unfold encStr; split <;> simp

theorem encEntry_length (i : Info) : (encEntry i).length = 18 + i.startData.length := by
  simp [encEntry, le32, le16]; omega

theorem flatMap_encFile_length (L : RawFiles) : (L.flatMap encFile).length ≤ filesB L := by
  induction L with
  | nil => simp [filesB, sumB]
  | cons x xs ih =>
    have h1 := encStr_length_le x.1
    have h2 := encEntry_length x.2
    simp only [List.flatMap_cons, List.length_append, encFile, filesB, sumB, preloadLen] at ih ⊢
    omega

theorem flatMap_encDirItem_length (D : RawDirs) : (D.flatMap encDirItem).length ≤ dirsB D := by
  induction D with
  | nil => simp [dirsB, sumB]
  | cons x xs ih =>
    have h1 := encStr_length_le x.1
    have h2 := flatMap_encFile_length x.2
    simp only [List.flatMap_cons, List.length_append, encDirItem, dirsB, sumB, List.length_cons, List.length_nil] at ih ⊢
    omega

theorem flatMap_encExtItem_length (E : RawTree) : (E.flatMap encExtItem).length ≤ treeB E := by
  induction E with
  | nil => simp [treeB, sumB]
  | cons x xs ih =>
    have h1 := encStr_length_le x.1
    have h2 := flatMap_encDirItem_length x.2
    simp only [List.flatMap_cons, List.length_append, encExtItem, treeB, sumB, List.length_cons, List.length_nil] at ih ⊢
    omega

theorem encTree_length_le (t : Tree) : (encTree t).length ≤ treeB t + 1 := by
  rw [encTree_eq]
  have h1 := flatMap_encExtItem_length (rawTree t)
  have h2 := treeB_rawTree t
  simp only [List.length_append, List.length_cons, List.length_nil]
  omega

/-! ## put and del -/

theorem treeB_put (t : Tree) (k : Key) (i : Info) : treeB (t.put k i) ≤ treeB t + keyCost k + i.startData.length := by
  unfold Tree.put keyCost treeB
  -- files level
  have hfiles : ∀ files : Files, filesB (AList.set k.name i files) ≤ filesB files + (k.name.length + 20 + i.startData.length) := by
    intro files
    apply sumB_set_le 20 preloadLen
    cases AList.find k.name files <;> simp [preloadLen]
  -- dirs level
  have hdirs : ∀ dirs : Dirs, dirsB (AList.set k.dir (AList.set k.name i ((AList.find k.dir dirs).getD [])) dirs)
      ≤ dirsB dirs + (k.dir.length + 3 + (k.name.length + 20 + i.startData.length)) := by
    intro dirs
    apply sumB_set_le 3 filesB
    cases hf : AList.find k.dir dirs with
    | none => have := hfiles []; simpa [filesB, sumB] using this
    | some fs => simpa using hfiles fs
  have := sumB_set_le 3 dirsB k.ext (AList.set k.dir (AList.set k.name i
      ((AList.find k.dir ((AList.find k.ext t).getD [])).getD [])) ((AList.find k.ext t).getD [])) t
      (k.dir.length + 3 + (k.name.length + 20 + i.startData.length)) (by
        cases hf : AList.find k.ext t with
        | none => have := hdirs []; simpa [dirsB, sumB, AList.find] using this
        | some ds => simpa using hdirs ds)
  simp only at this ⊢
  omega

theorem treeB_del (t : Tree) (k : Key) : treeB (t.del k) ≤ treeB t := by
  cases h1 : AList.find k.ext t with
  | none => rw [del_none1 h1]; exact Nat.le_refl _
  | some ds =>
    cases h2 : AList.find k.dir ds with
    | none => rw [del_none2 h1 h2]; exact Nat.le_refl _
    | some fs =>
      rw [del_some h1 h2]
      unfold treeB
      split
      · split
        · exact sumB_erase_le _ _ _ _
        · have := sumB_set_some 3 dirsB k.ext (AList.erase k.dir ds) ds t h1
          have h3 : dirsB (AList.erase k.dir ds) ≤ dirsB ds := sumB_erase_le _ _ _ _
          omega
      · have h3 : filesB (AList.erase k.name fs) ≤ filesB fs := sumB_erase_le _ _ _ _
        have h4 := sumB_set_some 3 filesB k.dir (AList.erase k.name fs) fs ds h2
        have h5 := sumB_set_some 3 dirsB k.ext (AList.set k.dir (AList.erase k.name fs) ds) ds t h1
        unfold dirsB at h5 ⊢
        omega

/-! ## which worlds a step can produce -/

theorem newFileTree_ok {crc : Bytes → Nat} {t t' : Tree} {k : Key} (h : newFileTree crc t k = .ok t') :
    t' = t.put k (emptyInfo crc) := by
  unfold newFileTree at h
  split at h
  · simp at h
  · split at h
    · simp at h
    · injection h with h; exact h.symm

theorem newFile_world (crc : Bytes → Nat) (w : World) (n : Name) :
    (step crc w (.newFile n)).1 = w ∨ ∃ v, w.vpk = some v ∧
      (step crc w (.newFile n)).1 = { w with vpk := some { v with tree := v.tree.put (getFileParts n) (emptyInfo crc) } } := by
  cases hv : w.vpk with
  | none => left; simp [step, hv]
  | some v =>
    simp only [step, hv]
    by_cases hw : v.mode.writable = true
    · simp only [hw, not_true_eq_false, if_false]
      cases hn : newFileTree crc v.tree (getFileParts n) with
      | error e => left; rfl
      | ok t => right; rw [newFileTree_ok hn]; exact ⟨v, rfl, rfl⟩
    · left; simp [hw]

theorem addFile_world (crc : Bytes → Nat) (w : World) (n : Name) (data : Bytes) (idx : Option Nat) :
    (step crc w (.addFile n data idx)).1 = w
    ∨ (∃ v, w.vpk = some v ∧ (step crc w (.addFile n data idx)).1
        = { w with vpk := some { v with tree := v.tree.put (getFileParts n) (emptyInfo crc) } })
    ∨ ∃ v wr, w.vpk = some v
        ∧ writeInfo crc w.single v.dirLimit w.archs v.footer (emptyInfo crc) data idx = .ok wr
        ∧ (step crc w (.addFile n data idx)).1 = { w with archs := wr.archs, vpk := some { v with
            tree := (v.tree.put (getFileParts n) (emptyInfo crc)).put (getFileParts n) wr.info, footer := wr.footer } } := by
  cases hv : w.vpk with
  | none => left; simp [step, hv]
  | some v =>
    simp only [step, hv]
    by_cases hw : v.mode.writable = true
    · simp only [hw, not_true_eq_false, if_false]
      cases hn : newFileTree crc v.tree (getFileParts n) with
      | error e => left; rfl
      | ok t =>
        rw [newFileTree_ok hn]
        simp only
        cases hwr : writeInfo crc w.single v.dirLimit w.archs v.footer (emptyInfo crc) data idx with
        | error e => right; left; exact ⟨v, rfl, rfl⟩
        | ok wr => right; right; exact ⟨v, wr, rfl, hwr, rfl⟩
    · left; simp [hw]

theorem write_world (crc : Bytes → Nat) (w : World) (n : Name) (data : Bytes) (idx : Option Nat) :
    (step crc w (.write n data idx)).1 = w
    ∨ ∃ v i wr, w.vpk = some v ∧ v.tree.lookup (getFileParts n) = some i
        ∧ writeInfo crc w.single v.dirLimit w.archs v.footer i data idx = .ok wr
        ∧ (step crc w (.write n data idx)).1 = { w with archs := wr.archs, vpk := some { v with
            tree := v.tree.put (getFileParts n) wr.info, footer := wr.footer } } := by
  cases hv : w.vpk with
  | none => left; simp [step, hv]
  | some v =>
    simp only [step, hv]
    cases hl : v.tree.lookup (getFileParts n) with
    | none => left; rfl
    | some i =>
      simp only
      by_cases hw : v.mode.writable = true
      · simp only [hw, not_true_eq_false, if_false]
        cases hwr : writeInfo crc w.single v.dirLimit w.archs v.footer i data idx with
        | error e => left; rfl
        | ok wr => right; exact ⟨v, i, wr, rfl, hl, hwr, rfl⟩
      · left; simp [hw]

theorem del_world (crc : Bytes → Nat) (w : World) (n : Name) :
    (step crc w (.del n)).1 = w ∨ ∃ v, w.vpk = some v ∧
      (step crc w (.del n)).1 = { w with vpk := some { v with tree := v.tree.del (getFileParts n) } } := by
  cases hv : w.vpk with
  | none => left; simp [step, hv]
  | some v =>
    simp only [step, hv]
    by_cases hw : v.mode.writable = true
    · simp only [hw, not_true_eq_false, if_false]
      cases hl : v.tree.lookup (getFileParts n) with
      | none => left; rfl
      | some i => right; exact ⟨v, rfl, rfl⟩
    · left; simp [hw]

theorem flushStep_world (w : World) (v : Vpk) :
    (flushStep w v).1 = w ∨ (v.tree.fits = true ∧
      (flushStep w v).1 = { w with dirFile := some (encodeDir v.version v.tree v.footer) }) := by
  unfold flushStep
  by_cases hver : v.version > 1
  · left; simp [hver]
  · simp only [hver, if_false]
    cases hf : v.tree.fits with
    | false => left; simp
    | true => right; exact ⟨rfl, by simp⟩

theorem flush_world (crc : Bytes → Nat) (w : World) :
    (step crc w .flush).1 = w ∨ ∃ v, w.vpk = some v ∧ v.tree.fits = true ∧
      (step crc w .flush).1 = { w with dirFile := some (encodeDir v.version v.tree v.footer) } := by
  cases hv : w.vpk with
  | none => left; simp [step, hv]
  | some v =>
    simp only [step, hv]
    by_cases hw : v.mode.writable = true
    · simp only [hw, not_true_eq_false, if_false]
      rcases flushStep_world w v with h | ⟨h1, h2⟩
      · left; exact h
      · right; exact ⟨v, rfl, h1, by rw [h2, hv]⟩
    · left; simp [hw]

theorem exit_world (crc : Bytes → Nat) (w : World) (exc : Bool) :
    (step crc w (.exit exc)).1 = w ∨ ∃ v, w.vpk = some v ∧ v.tree.fits = true ∧
      (step crc w (.exit exc)).1 = { w with dirFile := some (encodeDir v.version v.tree v.footer) } := by
  cases hv : w.vpk with
  | none => left; simp [step, hv]
  | some v =>
    simp only [step, hv]
    cases exc with
    | true => left; simp
    | false =>
      simp only [Bool.false_eq_true, if_false]
      by_cases hw : v.mode.writable = true
      · simp only [hw, not_true_eq_false, if_false]
        rcases flushStep_world w v with h | ⟨h1, h2⟩
        · left; exact h
        · right; exact ⟨v, rfl, h1, by rw [h2, hv]⟩
      · left; simp [hw]

theorem has_world (crc : Bytes → Nat) (w : World) (n : Name) : (step crc w (.has n)).1 = w := by
  cases hv : w.vpk with
  | none => simp [step, hv]
  | some v =>
    simp only [step, hv]
    cases v.tree.lookup (getFileParts n) <;> rfl

theorem open_world (w : World) (mode : Mode) (limit : Option Nat) :
    (openStep w mode limit).1 = { w with dirFile := some [], vpk := some (blankVpk mode limit) }
    ∨ (openStep w mode limit).1 = { w with vpk := none }
    ∨ ∃ b l, w.dirFile = some b ∧ decodeDir b = .ok l
        ∧ (openStep w mode limit).1 = { w with vpk := some ⟨l.tree, l.footer, mode, limit, l.version⟩ } := by
  unfold openStep
  cases mode with
  | w => left; rfl
  | r =>
    simp only
    cases hd : w.dirFile with
    | none => simp
    | some b =>
      simp only
      cases hdec : decodeDir b with
      | error e => right; left; rfl
      | ok l => right; right; exact ⟨b, l, rfl, hdec, rfl⟩
  | a =>
    simp only
    cases hd : w.dirFile with
    | none => simp
    | some b =>
      simp only
      cases hdec : decodeDir b with
      | error e => right; left; rfl
      | ok l => right; right; exact ⟨b, l, rfl, hdec, rfl⟩

/-! ## the size invariant -/

def infoSmall (i : Info) : Prop :=
  i.crc < 4294967296 ∧ i.startData.length < 65536 ∧ i.archIndex.getD DIR_ARCH_INDEX < 65536
def smallTree (t : Tree) : Prop := ∀ k i, t.lookup k = some i → infoSmall i

/-- everything that ends up in a 16/32-bit field is bounded by the budget `B` spent so far -/
structure SizeInv (w : World) (B : Nat) : Prop where
  archs : ∀ j b, archGet w.archs j = some b → b.length ≤ B
  cur : ∀ v, w.vpk = some v → treeB v.tree ≤ B ∧ v.footer.length ≤ B ∧ smallTree v.tree
  disk : ∀ b l, w.dirFile = some b → decodeDir b = .ok l → treeB l.tree ≤ B ∧ l.footer.length ≤ B ∧ smallTree l.tree

theorem sizeInv_mono {w : World} {B B' : Nat} (h : SizeInv w B) (hb : B ≤ B') : SizeInv w B' :=
  ⟨fun j b hj => Nat.le_trans (h.archs j b hj) hb,
   fun v hv => let ⟨a, b, c⟩ := h.cur v hv; ⟨Nat.le_trans a hb, Nat.le_trans b hb, c⟩,
   fun b l h1 h2 => let ⟨a, b', c⟩ := h.disk b l h1 h2; ⟨Nat.le_trans a hb, Nat.le_trans b' hb, c⟩⟩

theorem sizeInv_init (single : Bool) : SizeInv (World.init single) 0 :=
  ⟨fun j b h => by simp [World.init, archGet] at h, fun v h => by simp [World.init] at h,
   fun b l h => by simp [World.init] at h⟩

theorem smallTree_nil : smallTree [] := by
  intro k i h; simp [Tree.lookup, AList.find] at h

theorem smallTree_put {t : Tree} (h : smallTree t) (k : Key) {i : Info} (hi : infoSmall i) : smallTree (t.put k i) := by
  intro k' i' hl
  rw [lookup_put] at hl
  by_cases hk : k = k'
  · simp only [hk, if_true] at hl; injection hl with hl; subst hl; exact hi
  · simp only [hk, if_false] at hl; exact h k' i' hl

theorem smallTree_del {t : Tree} (hwf : TreeWF t) (h : smallTree t) (k : Key) : smallTree (t.del k) := by
  intro k' i' hl
  rw [lookup_del hwf] at hl
  by_cases hk : k = k'
  · simp [hk] at hl
  · simp only [hk, if_false] at hl; exact h k' i' hl

theorem smallTree_raw {t : Tree} (hwf : TreeWF t) (h : smallTree t) : smallTree (rawTree t) := by
  intro k i hl
  rw [lookup_rawTree hwf] at hl
  exact h k i hl

theorem infoSmall_empty (crc : Bytes → Nat) (hcrc : ∀ b, crc b < 4294967296) : infoSmall (emptyInfo crc) :=
  ⟨hcrc [], by simp [emptyInfo], by simp [emptyInfo, DIR_ARCH_INDEX]⟩

/-- the budget implies that `struct.pack` accepts every field -/
theorem fits_of {t : Tree} {a : List (Nat × Bytes)} {f : Bytes} {B : Nat} (hwf : TreeWF t) (hs : smallTree t)
    (hv : ∀ k i, t.lookup k = some i → InfoValid a f i) (hf : f.length ≤ B)
    (ha : ∀ j b, archGet a j = some b → b.length ≤ B) (ht : treeB t ≤ B) (hB : B + 1 < 4294967296) :
    t.fits = true := by
  simp only [Tree.fits, Bool.and_eq_true, decide_eq_true_eq, List.all_eq_true]
  refine ⟨?_, by have := encTree_length_le t; omega⟩
  intro x hx
  have hl := lookup_of_mem_entries hwf (k := x.1) (i := x.2) hx
  obtain ⟨h1, h2, h3⟩ := hs _ _ hl
  have hn := infoNorm_of_lookup hwf hl
  have hval := hv _ _ hl
  simp only [infoNorm, Bool.and_eq_true, bne_iff_ne, ne_eq, Bool.or_eq_true, beq_iff_eq] at hn
  simp only [Info.fits, Bool.and_eq_true, decide_eq_true_eq]
  refine ⟨⟨⟨⟨h1, h2⟩, h3⟩, ?_⟩, ?_⟩
  · by_cases hz : x.2.archLen = 0
    · rcases hn.2 with h | h
      · exact absurd hz h
      · omega
    · have := hval hz
      cases hi : x.2.archIndex with
      | none => simp only [hi] at this; omega
      | some j =>
        simp only [hi] at this
        obtain ⟨b, hb, hle⟩ := this
        have := ha j b hb; omega
  · by_cases hz : x.2.archLen = 0
    · omega
    · have := hval hz
      cases hi : x.2.archIndex with
      | none => simp only [hi] at this; omega
      | some j =>
        simp only [hi] at this
        obtain ⟨b, hb, hle⟩ := this
        have := ha j b hb; omega

/-! ## sizes produced by `FileInfo.write` -/

theorem effLimit_le (single : Bool) (lim : Option Nat) : effLimit single lim ≤ 65535 := by
  unfold effLimit MAX_DIR_DATA
  split
  · omega
  · split <;> omega

theorem placeData_size (crc : Bytes → Nat) (hcrc : ∀ b, crc b < 4294967296) (single : Bool) (lim : Option Nat)
    (a : List (Nat × Bytes)) (f : Bytes) (data : Bytes) (idx : Option Nat) (hidx : idx.getD 0 < 65536) (B : Nat)
    (ha : ∀ j b, archGet a j = some b → b.length ≤ B) :
    infoSmall (placeData crc single lim a f data idx).info
    ∧ (placeData crc single lim a f data idx).info.startData.length ≤ data.length
    ∧ (placeData crc single lim a f data idx).footer.length ≤ f.length + data.length
    ∧ ∀ j b, archGet (placeData crc single lim a f data idx).archs j = some b → b.length ≤ B + data.length := by
  have hl := effLimit_le single lim
  unfold placeData
  simp only
  split
  · split
    · refine ⟨⟨hcrc _, by simp; omega, by simp [DIR_ARCH_INDEX]⟩, by simp; omega, by simp, ?_⟩
      intro j b hb; have := ha j b hb; omega
    · rename_i j hj
      have hj' : j < 65536 := by
        by_cases hs : single = true
        · simp [hs] at hj
        · simp only [hs, if_false] at hj; subst hj; simpa using hidx
      refine ⟨⟨hcrc _, by simp; omega, by simpa using hj'⟩, by simp; omega, by simp, ?_⟩
      intro k b hb
      by_cases hk : k = j
      · subst hk
        rw [archGet_archSet_same] at hb
        injection hb with hb; subst hb
        simp only [List.length_append, List.length_drop]
        cases hg : archGet a k with
        | none => simp; omega
        | some b0 => have := ha k b0 hg; simp; omega
      · rw [archGet_archSet_other _ _ _ _ hk] at hb
        have := ha k b hb; omega
  · refine ⟨⟨hcrc _, by simp; omega, by simp [DIR_ARCH_INDEX]⟩, by simp; omega, by simp, ?_⟩
    intro j b hb; have := ha j b hb; omega

theorem writeInfo_size (crc : Bytes → Nat) (hcrc : ∀ b, crc b < 4294967296) (single : Bool) (lim : Option Nat)
    (a : List (Nat × Bytes)) (f : Bytes) (i : Info) (hi : infoSmall i) (data : Bytes) (idx : Option Nat)
    (hidx : idx.getD 0 < 65536) (B : Nat) (ha : ∀ j b, archGet a j = some b → b.length ≤ B) (wr : Written)
    (h : writeInfo crc single lim a f i data idx = .ok wr) :
    infoSmall wr.info ∧ wr.info.startData.length ≤ data.length ∧ wr.footer.length ≤ f.length + data.length
    ∧ ∀ j b, archGet wr.archs j = some b → b.length ≤ B + data.length := by
  unfold writeInfo at h
  split at h
  · simp at h
  · rename_i hs
    injection h with h; subst h
    refine ⟨hi, ?_, by simp, fun j b hb => by have := ha j b hb; omega⟩
    unfold sameData at hs
    split at hs
    · rename_i hc; simp only; omega
    · simp at hs
  · injection h with h; subst h
    exact placeData_size crc hcrc single lim a f data idx hidx B ha

/-! ## one step keeps the invariant and cannot hit `struct.error` -/

theorem R_handle {crc : Bytes → Nat} {w : World} {s : Spec} (hR : R crc w s) (v : Vpk) (hv : w.vpk = some v) :
    v.version = 1 ∧ TreeWF v.tree ∧ ∀ k i, v.tree.lookup k = some i → InfoValid w.archs v.footer i := by
  obtain ⟨_, hc⟩ := hR
  match hs : s.cur, hc with
  | none, hc => simp only [CurRel] at hc; rw [hc] at hv; simp at hv
  | some (mode, m), ⟨v', hv', _, hver, hwf, hA⟩ =>
    rw [hv'] at hv; injection hv with hv; subst hv
    refine ⟨hver, hwf, ?_⟩
    intro k i hl
    have := hA k
    simp only [hl] at this
    exact this.1

theorem size_step (crc : Bytes → Nat) (hcrc : ∀ b, crc b < 4294967296) {w : World} {s : Spec} (hR : R crc w s)
    {B : Nat} (hS : SizeInv w B) (op : Op) (hidx : idxSmall op = true) (hB : B + opCost op + 1 < 4294967296) :
    flushOK w op = true ∧ SizeInv (step crc w op).1 (B + opCost op) := by
  cases op with
  | openVpk mode limit =>
    refine ⟨by simp [flushOK], ?_⟩
    show SizeInv (openStep w mode limit).1 _
    simp only [opCost, Nat.add_zero]
    rcases open_world w mode limit with h | h | ⟨b, l, hb, hdec, h⟩
    · rw [h]
      refine ⟨hS.archs, ?_, ?_⟩
      · intro v hv; simp only [Option.some.injEq] at hv; subst hv
        exact ⟨by simp [blankVpk, treeB, sumB], by simp [blankVpk], by simpa [blankVpk] using smallTree_nil⟩
      · intro b l hb hdec
        simp only [Option.some.injEq] at hb; subst hb
        rw [decodeDir_nil] at hdec; simp at hdec
    · rw [h]
      exact ⟨hS.archs, fun v hv => by simp at hv, hS.disk⟩
    · rw [h]
      refine ⟨hS.archs, ?_, hS.disk⟩
      intro v hv; simp only [Option.some.injEq] at hv; subst hv
      exact hS.disk b l hb hdec
  | has n =>
    refine ⟨by simp [flushOK], ?_⟩
    rw [has_world]; exact sizeInv_mono hS (by omega)
  | newFile n =>
    refine ⟨by simp [flushOK], ?_⟩
    rcases newFile_world crc w n with h | ⟨v, hv, h⟩
    · rw [h]; exact sizeInv_mono hS (by omega)
    · rw [h]
      obtain ⟨c1, c2, c3⟩ := hS.cur v hv
      refine ⟨fun j b hj => by have := hS.archs j b hj; omega, ?_,
        fun b l h1 h2 => by obtain ⟨a1, a2, a3⟩ := hS.disk b l h1 h2; exact ⟨by omega, by omega, a3⟩⟩
      intro v' hv'; simp only [Option.some.injEq] at hv'; subst hv'
      have := treeB_put v.tree (getFileParts n) (emptyInfo crc)
      have he : (emptyInfo crc).startData.length = 0 := rfl
      rw [he] at this
      exact ⟨by simp only [opCost]; omega, by simp only; omega, smallTree_put c3 _ (infoSmall_empty crc hcrc)⟩
  | addFile n data idx =>
    refine ⟨by simp [flushOK], ?_⟩
    simp only [idxSmall, decide_eq_true_eq] at hidx
    rcases addFile_world crc w n data idx with h | ⟨v, hv, h⟩ | ⟨v, wr, hv, hwr, h⟩
    · rw [h]; exact sizeInv_mono hS (by omega)
    · rw [h]
      obtain ⟨c1, c2, c3⟩ := hS.cur v hv
      refine ⟨fun j b hj => by have := hS.archs j b hj; omega, ?_,
        fun b l h1 h2 => by obtain ⟨a1, a2, a3⟩ := hS.disk b l h1 h2; exact ⟨by omega, by omega, a3⟩⟩
      intro v' hv'; simp only [Option.some.injEq] at hv'; subst hv'
      have := treeB_put v.tree (getFileParts n) (emptyInfo crc)
      have he : (emptyInfo crc).startData.length = 0 := rfl
      rw [he] at this
      exact ⟨by simp only [opCost]; omega, by simp only; omega, smallTree_put c3 _ (infoSmall_empty crc hcrc)⟩
    · rw [h]
      obtain ⟨c1, c2, c3⟩ := hS.cur v hv
      obtain ⟨s1, s2, s3, s4⟩ := writeInfo_size crc hcrc w.single v.dirLimit w.archs v.footer (emptyInfo crc)
        (infoSmall_empty crc hcrc) data idx hidx B hS.archs wr hwr
      refine ⟨fun j b hj => by have := s4 j b hj; simp only [opCost]; omega, ?_,
        fun b l h1 h2 => by obtain ⟨a1, a2, a3⟩ := hS.disk b l h1 h2; exact ⟨by omega, by omega, a3⟩⟩
      intro v' hv'; simp only [Option.some.injEq] at hv'; subst hv'
      have t1 := treeB_put v.tree (getFileParts n) (emptyInfo crc)
      have t2 := treeB_put (v.tree.put (getFileParts n) (emptyInfo crc)) (getFileParts n) wr.info
      have he : (emptyInfo crc).startData.length = 0 := rfl
      rw [he] at t1
      exact ⟨by simp only [opCost]; omega, by simp only [opCost]; omega,
        smallTree_put (smallTree_put c3 _ (infoSmall_empty crc hcrc)) _ s1⟩
  | write n data idx =>
    refine ⟨by simp [flushOK], ?_⟩
    simp only [idxSmall, decide_eq_true_eq] at hidx
    rcases write_world crc w n data idx with h | ⟨v, i, wr, hv, hl, hwr, h⟩
    · rw [h]; exact sizeInv_mono hS (by omega)
    · rw [h]
      obtain ⟨c1, c2, c3⟩ := hS.cur v hv
      obtain ⟨s1, s2, s3, s4⟩ := writeInfo_size crc hcrc w.single v.dirLimit w.archs v.footer i
        (c3 _ _ hl) data idx hidx B hS.archs wr hwr
      refine ⟨fun j b hj => by have := s4 j b hj; simp only [opCost]; omega, ?_,
        fun b l h1 h2 => by obtain ⟨a1, a2, a3⟩ := hS.disk b l h1 h2; exact ⟨by omega, by omega, a3⟩⟩
      intro v' hv'; simp only [Option.some.injEq] at hv'; subst hv'
      have t1 := treeB_put v.tree (getFileParts n) wr.info
      exact ⟨by simp only [opCost]; omega, by simp only [opCost]; omega, smallTree_put c3 _ s1⟩
  | del n =>
    refine ⟨by simp [flushOK], ?_⟩
    rcases del_world crc w n with h | ⟨v, hv, h⟩
    · rw [h]; exact sizeInv_mono hS (by omega)
    · rw [h]
      obtain ⟨c1, c2, c3⟩ := hS.cur v hv
      obtain ⟨_, hwf, _⟩ := R_handle hR v hv
      refine ⟨fun j b hj => by have := hS.archs j b hj; omega, ?_,
        fun b l h1 h2 => by obtain ⟨a1, a2, a3⟩ := hS.disk b l h1 h2; exact ⟨by omega, by omega, a3⟩⟩
      intro v' hv'; simp only [Option.some.injEq] at hv'; subst hv'
      have := treeB_del v.tree (getFileParts n)
      exact ⟨by simp only; omega, by simp only; omega, smallTree_del hwf c3 _⟩
  | flush =>
    simp only [opCost, Nat.add_zero] at hB ⊢
    have hfl : flushOK w .flush = true := by
      cases hv : w.vpk with
      | none => simp [flushOK, hv]
      | some v =>
        obtain ⟨c1, c2, c3⟩ := hS.cur v hv
        obtain ⟨hver, hwf, hval⟩ := R_handle hR v hv
        have := fits_of hwf c3 hval c2 hS.archs c1 hB
        simp [flushOK, hv, this]
    refine ⟨hfl, ?_⟩
    rcases flush_world crc w with h | ⟨v, hv, hfit, h⟩
    · rw [h]; exact hS
    · rw [h]
      obtain ⟨c1, c2, c3⟩ := hS.cur v hv
      obtain ⟨hver, hwf, hval⟩ := R_handle hR v hv
      refine ⟨hS.archs, hS.cur, ?_⟩
      intro b l hb hdec
      simp only [Option.some.injEq] at hb; subst hb
      rw [hver, decodeDir_encodeDir v.tree v.footer hwf hfit] at hdec
      injection hdec with hdec; subst hdec
      exact ⟨Nat.le_trans (treeB_rawTree _) c1, c2, smallTree_raw hwf c3⟩
  | exit exc =>
    simp only [opCost, Nat.add_zero] at hB ⊢
    have hfl : flushOK w (.exit exc) = true := by
      cases hv : w.vpk with
      | none => cases exc <;> simp [flushOK, hv]
      | some v =>
        obtain ⟨c1, c2, c3⟩ := hS.cur v hv
        obtain ⟨hver, hwf, hval⟩ := R_handle hR v hv
        have := fits_of hwf c3 hval c2 hS.archs c1 hB
        cases exc <;> simp [flushOK, hv, this]
    refine ⟨hfl, ?_⟩
    rcases exit_world crc w exc with h | ⟨v, hv, hfit, h⟩
    · rw [h]; exact hS
    · rw [h]
      obtain ⟨c1, c2, c3⟩ := hS.cur v hv
      obtain ⟨hver, hwf, hval⟩ := R_handle hR v hv
      refine ⟨hS.archs, hS.cur, ?_⟩
      intro b l hb hdec
      simp only [Option.some.injEq] at hb; subst hb
      rw [hver, decodeDir_encodeDir v.tree v.footer hwf hfit] at hdec
      injection hdec with hdec; subst hdec
      exact ⟨Nat.le_trans (treeB_rawTree _) c1, c2, smallTree_raw hwf c3⟩

/-- **a size budget on the history implies that no `write_dirfile` fails with `struct.error`** -/
theorem runFits_of_cost (crc : Bytes → Nat) (hcrc : ∀ b, crc b < 4294967296) :
    ∀ (ops : List Op) (w : World) (s : Spec) (B : Nat), R crc w s → SizeInv w B →
      (∀ op ∈ ops, opOK op = true ∧ idxSmall op = true) → B + histCost ops + 1 < 4294967296 →
      runFits crc w ops = true := by
  intro ops
  induction ops with
  | nil => intros; rfl
  | cons op ops ih =>
    intro w s B hR hS hok hB
    simp only [histCost, List.map_cons, List.sum_cons] at hB
    have hop := hok op (by simp)
    have h1 := size_step crc hcrc hR hS op hop.2 (by have : 0 ≤ (ops.map opCost).sum := Nat.zero_le _; omega)
    have h2 := step_refines crc hR op hop.1 h1.1
    simp only [runFits, Bool.and_eq_true]
    refine ⟨h1.1, ih _ _ (B + opCost op) h2.2 h1.2 (fun o ho => hok o (by simp [ho])) ?_⟩
    simp only [histCost]; omega

end C13
