import Srctools.Proofs.C14Kv2Emit
/-! # C14 / KeyValues2: the whole file — `parse (emit g)` is the fix-up of the emitted forest. -/
namespace C14.Kv2
open Tok C14

/-! ## well-formedness of the graph for the text format (decidable given `fold`) -/

theorem graphWf_lexWf {T : Tables} {fold : Str → Str} {g : TGraph} {flat : Bool}
    (h : graphWf T fold g flat = true) : lexWf g = true := by
  simp only [graphWf, List.all_eq_true, Bool.and_eq_true] at h
  simp only [lexWf, List.all_eq_true, Bool.and_eq_true]
  intro e he
  refine ⟨(h e he).1, fun a ha => ⟨((h e he).2 a ha).1.2, fun v hv => ?_⟩⟩
  have := ((h e he).2 a ha).2 v hv
  cases v with
  | text s => rfl
  | ref r =>
    cases r with
    | null => rfl
    | stub u => simp only [valWf, Bool.and_eq_true] at this; exact this.2
    | idx j => simp only [valWf, Bool.and_eq_true] at this; exact this.1.2

theorem ptree_type (g : TGraph) (flat cull : Bool) (fuel j : Nat) (hj : j < g.elems.length) :
    (ptree g flat cull (fuel + 1) j).type = typeAt g j := by
  simp [ptree, typeAt, List.getElem?_eq_getElem hj, PElem.type]

theorem wfVals_map (T : Tables) (fold : Str → Str) (t : VT) (f : TVal → PVal) (vals : List TVal)
    (h : ∀ v ∈ vals, valWfP T fold t (f v) = true) : wfVals T fold t (vals.map f) = true := by
  induction vals with
  | nil => exact wfVals_nil T fold t
  | cons v vs ih =>
    rw [List.map_cons, wfVals_cons, h v (List.mem_cons_self ..),
      ih (fun w hw => h w (List.mem_cons_of_mem _ hw))]
    rfl

theorem wfAttrs_map (T : Tables) (fold : Str → Str) (f : TAttr → PAttr) (as : List TAttr)
    (h : ∀ a ∈ as, ∃ n t arr vals, f a = .mk n t arr vals ∧
      (n != nameLit && (arr || vals.length == 1) && wfVals T fold t vals) = true) :
    wfAttrs T fold (as.map f) = true := by
  induction as with
  | nil => exact wfAttrs_nil T fold
  | cons a as ih =>
    obtain ⟨n, t, arr, vals, hf, hw⟩ := h a (List.mem_cons_self ..)
    rw [List.map_cons, hf, wfAttrs_cons, hw, ih (fun w hw => h w (List.mem_cons_of_mem _ hw))]
    rfl

theorem wf_ptree (T : Tables) (fold : Str → Str) (g : TGraph) (flat cull : Bool)
    (hg : graphWf T fold g flat = true) :
    ∀ (fuel i : Nat), nestOK g flat fuel i = true → wfElem T fold (ptree g flat cull fuel i) = true := by
  intro fuel
  induction fuel with
  | zero => intro i h; simp [nestOK] at h
  | succ fuel ih =>
    intro i hn
    cases he : g.elems[i]? with
    | none => simp [nestOK, he] at hn
    | some e =>
      simp only [nestOK, he, List.all_eq_true] at hn
      have hmem : e ∈ g.elems := List.mem_of_getElem? he
      have hgw := hg
      simp only [graphWf, List.all_eq_true, Bool.and_eq_true, Bool.or_eq_true, beq_iff_eq,
        bne_iff_ne, ne_eq] at hgw
      obtain ⟨hu, hattrs⟩ := hgw e hmem
      rw [ptree_succ g flat cull fuel i e he, wfElem_mk]
      simp only [Bool.and_eq_true]
      constructor
      · split
        · rename_i u hu'
          split at hu'
          · simp only [Option.some.injEq] at hu'; subst hu'; exact hu
          · cases hu'
        · rfl
      · apply wfAttrs_map
        intro a ha
        obtain ⟨⟨hname, hshape⟩, hvals⟩ := hattrs a ha
        refine ⟨a.name, a.type, a.isArray, a.vals.map (pval g flat (ptree g flat cull fuel)), rfl, ?_⟩
        simp only [Bool.and_eq_true, bne_iff_ne, ne_eq, Bool.or_eq_true, beq_iff_eq, List.length_map]
        refine ⟨⟨hname, hshape⟩, ?_⟩
        apply wfVals_map
        intro v hv
        have hvw := hvals v hv
        cases v with
        | text s => simpa [pval, valWfP, valWf] using hvw
        | ref r =>
          cases r with
          | null => simpa [pval, valWfP, valWf] using hvw
          | stub u => simpa [pval, valWfP, valWf] using hvw
          | idx j =>
            simp only [valWf, Bool.and_eq_true, beq_iff_eq, decide_eq_true_eq, Bool.or_eq_true] at hvw
            obtain ⟨⟨ht, hj⟩, hk⟩ := hvw
            have hlex := graphWf_lexWf hg
            by_cases hroot : isRoot g flat j = true
            · simp [pval, hroot, valWfP, ht, uuidAt_ok hlex hj]
            · have hkid : nestOK g flat fuel j = true := by
                apply hn j
                simp only [inlineKids, List.mem_flatMap, List.mem_filterMap]
                exact ⟨a, ha, .ref (.idx j), hv, by simp [hroot]⟩
              have hty : inlineTypeOK T fold (typeAt g j) = true := by
                rcases hk with h | h
                · exact absurd h hroot
                · exact h
              cases fuel with
              | zero => simp [nestOK] at hkid
              | succ fuel' =>
                simp [pval, hroot, valWfP, ht, ptree_type g flat cull fuel' j hj, hty, ih j hkid]

/-! ## the top-level loop -/

def topToks (T : Tables) (items : List (Toks × PElem)) : Toks :=
  items.flatMap fun it => it.1 ++ S it.2.type :: (toksBody T it.2 ++ [NL])

theorem parseTop_nls (T : Tables) (fold : Str → Str) (nl : Toks) (hnl : isNls nl) (f : Nat) (x : Toks)
    (acc : List PElem) : parseTop T fold (f + nl.length) (nl ++ x) acc = parseTop T fold f x acc := by
  induction nl with
  | nil => rfl
  | cons t ts ih =>
    obtain ⟨k, v⟩ := t
    have hk : k = kNEWLINE := hnl (k, v) (List.mem_cons_self ..)
    subst hk
    rw [List.length_cons, ← Nat.add_assoc, List.cons_append, parseTop]
    simp only [kNEWLINE, kEOF, if_true]
    have h2 : ((2 : Nat) = 0) = False := by simp
    simp only [h2, if_false]
    exact ih (fun t ht => hnl t (List.mem_cons_of_mem _ ht))

theorem topToks_cons (T : Tables) (nl : Toks) (p : PElem) (rest : List (Toks × PElem)) :
    topToks T ((nl, p) :: rest) = nl ++ S p.type :: (toksBody T p ++ ([NL] ++ topToks T rest)) := by
  simp [topToks]

theorem parseTop_forest (T : Tables) (fold : Str → Str) (N : NameFacts T fold) :
    ∀ (items : List (Toks × PElem)), (∀ it ∈ items, isNls it.1 ∧ wfElem T fold it.2 = true) →
    ∀ (f : Nat), (topToks T items).length + 1 ≤ f → ∀ (acc : List PElem),
    parseTop T fold f (topToks T items ++ [(kEOF, [])]) acc = .ok (acc.reverse ++ items.map (·.2)) := by
  intro items
  induction items with
  | nil =>
    intro _ f hf acc
    obtain ⟨f1, rfl⟩ : ∃ f1, f = f1 + 1 := ⟨f - 1, by omega⟩
    simp [topToks, parseTop, kEOF]
  | cons it rest ih =>
    intro hw f hf acc
    obtain ⟨nl, p⟩ := it
    obtain ⟨hnl, hp⟩ := hw (nl, p) (List.mem_cons_self ..)
    simp only at hnl hp
    have hrest := ih (fun (it : Toks × PElem) h => hw it (List.mem_cons_of_mem _ h))
    rw [topToks_cons] at hf ⊢
    simp only [List.length_append, List.length_cons, List.length_nil] at hf
    obtain ⟨f2, rfl⟩ : ∃ f2, f = ((f2 + 1) + 1) + nl.length := ⟨f - 2 - nl.length, by omega⟩
    simp only [List.append_assoc, List.cons_append]
    rw [parseTop_nls T fold nl hnl, parseTop]
    have hb := parse_body T fold N p hp
      ((toksBody T p ++ ([NL] ++ (topToks T rest ++ [(kEOF, [])]))).length + 2)
      (by simp only [List.length_append]; omega) []
      ([NL] ++ (topToks T rest ++ [(kEOF, [])]))
    simp only [S, kSTRING, kEOF, kNEWLINE]
    have h1 : ((1 : Nat) = 0) = False := by simp
    have h2 : ((1 : Nat) = 2) = False := by simp
    simp only [h1, h2, if_false, ne_eq, not_true_eq_false, List.nil_append]
    simp only [kEOF, List.cons_append, List.nil_append] at hb
    rw [hb]
    simp only
    have := parseTop_nls T fold [NL] isNls_one f2 (topToks T rest ++ [(kEOF, [])]) (p :: acc)
    simp only [List.length_cons, List.length_nil, Nat.zero_add, kEOF, List.cons_append, List.nil_append] at this
    rw [this]
    have h3 := hrest f2 (by omega) (p :: acc)
    simp only [kEOF] at h3
    rw [h3]
    simp

/-! ## the whole file -/

/-- the forest the text denotes. -/
def forest (g : TGraph) (flat cull : Bool) : List PElem :=
  (roots g flat).map (ptree g flat cull (g.elems.length + 1))

theorem flatMap_if_filter {α β : Type} (p : α → Bool) (f : α → List β) (l : List α) :
    l.flatMap (fun a => if p a then f a else []) = (l.filter p).flatMap f := by
  induction l with
  | nil => rfl
  | cons a as ih =>
    by_cases h : p a = true <;> simp [List.filter_cons, h, ih]

theorem emit_eq (E : Tok.Tables) (T : Tables) (flat cull : Bool) (g : TGraph) :
    emit E T flat cull g = (roots g flat).flatMap fun i =>
      (if i = 0 then [] else crlf) ++ emitElem E T g flat cull (g.elems.length + 1) [] i ++ crlf := by
  unfold emit roots
  rw [← flatMap_if_filter]

section file
variable {E : Tok.Tables} (hE : escOK E = true) (hL : lexOK E = true) {T : Tables} (P : PlainFacts E T)
  (cfold : Char → List Char) (N : NameFacts T (fun s => s.flatMap cfold))
  (g : TGraph) (flat cull : Bool) (hg : graphWf T (fun s => s.flatMap cfold) g flat = true)
  (hn : ∀ i ∈ roots g flat, nestOK g flat (g.elems.length + 1) i = true)

include hE hL P hg hn in
/-- the emitted file lexes to the tokens of the emitted forest. -/
theorem lex_file : LexK E {} cfold (emit E T flat cull g)
    (topToks T ((roots g flat).map fun i =>
      (if i = 0 then [] else [NL], ptree g flat cull (g.elems.length + 1) i))) [] := by
  have F := lexFacts hL
  have hlex := graphWf_lexWf hg
  rw [emit_eq]
  simp only [topToks, List.flatMap_map]
  have := flatMap_lexK (E := E) {} cfold (roots g flat)
    (fun i => (if i = 0 then [] else crlf) ++ emitElem E T g flat cull (g.elems.length + 1) [] i ++ crlf)
    (fun i => (if i = 0 then [] else [NL]) ++ S (ptree g flat cull (g.elems.length + 1) i).type ::
      (toksBody T (ptree g flat cull (g.elems.length + 1) i) ++ [NL])) ?_ []
  · simpa using this
  · intro i hi rest
    have he := lex_elem hE F {} rfl rfl cfold P g flat cull hlex (g.elems.length + 1) i (hn i hi)
      [] [] (crlf ++ rest) C01.isWs_nil C01.isWs_nil
    simp only [List.nil_append] at he
    have htail : LexK E {} cfold (crlf ++ rest) [NL] rest := lex_crlf F {} cfold rest
    by_cases h0 : i = 0
    · simp only [h0, if_true, List.nil_append, List.append_assoc]
      simp only [h0] at he
      have := LexK.append {} cfold he htail
      simpa using this
    · simp only [h0, if_false, List.append_assoc]
      have hpre : LexK E {} cfold (crlf ++ (emitElem E T g flat cull (g.elems.length + 1) [] i ++ (crlf ++ rest)))
          [NL] (emitElem E T g flat cull (g.elems.length + 1) [] i ++ (crlf ++ rest)) := lex_crlf F {} cfold _
      have := LexK.append {} cfold hpre (LexK.append {} cfold he htail)
      simpa using this

include hE hL P N hg hn in
/-- **The reader reconstructs the emitted forest.** For both layouts and with or without
`cull_uuid`: tokenizing and parsing the emitted text gives exactly the trees that were written,
and the result of `parse` is their UUID fix-up. -/
theorem parse_emit (hne : g.elems ≠ []) :
    parse E T cfold (emit E T flat cull g) = .ok (resolve (forest g flat cull)) := by
  obtain ⟨r, hr, herr, htoks⟩ := run_of_lexK {} cfold (lex_file hE hL P cfold g flat cull hg hn)
  unfold parse
  simp only [hr, herr]
  have hkv : (r.toks.map fun o => (o.kind, o.value)) = kvOf r.toks := rfl
  rw [hkv, htoks]
  have hitems : ∀ it ∈ (roots g flat).map (fun i =>
      ((if i = 0 then [] else [NL] : Toks), ptree g flat cull (g.elems.length + 1) i)),
      isNls it.1 ∧ wfElem T (fun s => s.flatMap cfold) it.2 = true := by
    intro it hit
    obtain ⟨i, hi, rfl⟩ := List.mem_map.mp hit
    constructor
    · by_cases h0 : i = 0
      · simp only [h0, if_true]; exact isNls_nil
      · simp only [h0, if_false]; exact isNls_one
    · exact wf_ptree T _ g flat cull hg _ i (hn i hi)
  have := parseTop_forest T _ N _ hitems
    ((topToks T ((roots g flat).map fun i =>
      ((if i = 0 then [] else [NL] : Toks), ptree g flat cull (g.elems.length + 1) i)) ++ [(0, [])]).length + 1)
    (by simp) []
  simp only [kEOF] at this
  rw [this]
  simp only [List.reverse_nil, List.nil_append, List.map_map]
  have hf : (roots g flat).map ((fun x => x.2) ∘ fun i =>
      ((if i = 0 then [] else [NL] : Toks), ptree g flat cull (g.elems.length + 1) i)) = forest g flat cull := by
    simp [forest, Function.comp_def]
  rw [hf]
  -- element 0 is always a root, so the forest is not empty
  have h0 : 0 ∈ roots g flat := by
    simp only [roots, List.mem_filter, List.mem_range]
    exact ⟨List.length_pos_iff.mpr hne, by simp [isRoot]⟩
  cases hforest : forest g flat cull with
  | nil =>
    have : (forest g flat cull).length = (roots g flat).length := by simp [forest]
    rw [hforest] at this
    have hr0 : roots g flat = [] := List.length_eq_zero_iff.mp this.symm
    rw [hr0] at h0; cases h0
  | cons p ps => rfl

end file

end C14.Kv2
