import Srctools.Model.C14Kv2Wf
/-! # C14 / KeyValues2: the reader on the token stream of a parsed-element tree.

`toksBody p` is the token stream `export_kv2` produces for an element block (after its type name);
it is a function of the tree `p` alone.  The reader (`parseElement` / `parseBlock` / `parseArray`)
applied to it gives back `p`. -/
namespace C14.Kv2
open C14

def S (s : Str) : Nat × Str := (kSTRING, s)
def NL : Nat × Str := (kNEWLINE, ['\n'])
def BO : Nat × Str := (kBRACE_OPEN, ['{'])
def BC : Nat × Str := (kBRACE_CLOSE, ['}'])
def BKO : Nat × Str := (kBRACK_OPEN, ['['])
def BKC : Nat × Str := (kBRACK_CLOSE, [']'])
def CM : Nat × Str := (kCOMMA, [','])

def PElem.type : PElem → Str
  | .mk t _ _ _ => t

mutual
def toksBody (T : Tables) : PElem → Toks
  | .mk _ nm u attrs =>
    [NL, BO, NL] ++ (match u with | some u => [S idLit, S elementidLit, S u, NL] | none => []) ++
    [S nameLit, S stringLit, S nm, NL] ++ toksAttrs T attrs ++ [BC]
def toksAttrs (T : Tables) : List PAttr → Toks
  | [] => []
  | .mk n t arr vals :: rest =>
    (if arr then [S n, S (typeName T t ++ arrayLit), NL, BKO, NL] ++ toksVals T t true vals ++ [BKC, NL]
     else S n :: toksVals T t false vals) ++ toksAttrs T rest
/-- the values of one attribute: array items with their separators, or the single scalar value
followed by the end of its line. -/
def toksVals (T : Tables) (t : VT) (arr : Bool) : List PVal → Toks
  | [] => []
  | v :: rest =>
    (match v with
     | .null => [S elemLit, S []]
     | .uuid u => [S elemLit, S u]
     | .inline e => S e.type :: toksBody T e
     | .text s => if arr then [S s] else [S (typeName T t), S s]) ++
    (if arr then (if rest.isEmpty then [NL] else [CM, NL]) else [NL]) ++ toksVals T t arr rest
end

/-- What the reader needs from the type-name table and the case folding. -/
structure NameFacts (T : Tables) (fold : Str → Str) : Prop where
  foldName : ∀ t, fold (typeName T t) = typeName T t
  foldArr : ∀ t, fold (typeName T t ++ arrayLit) = typeName T t ++ arrayLit
  foldString : fold stringLit = stringLit
  foldId : fold elementidLit = elementidLit
  notArr : ∀ t, endsWithArray (typeName T t) = none
  isArr : ∀ t, endsWithArray (typeName T t ++ arrayLit) = some (typeName T t)
  vt : ∀ t, vtOfName T (typeName T t) = some t
  notId : ∀ t, typeName T t ≠ elementidLit ∧ typeName T t ++ arrayLit ≠ elementidLit
  elem : typeName T .element = elemLit

mutual
def wfElem (T : Tables) (fold : Str → Str) : PElem → Bool
  | .mk _ _ u attrs => (match u with | some u => uuidOK u | none => true) && wfAttrs T fold attrs
def wfAttrs (T : Tables) (fold : Str → Str) : List PAttr → Bool
  | [] => true
  | .mk n t arr vals :: rest =>
    n != nameLit && (arr || vals.length == 1) && wfVals T fold t vals && wfAttrs T fold rest
def wfVals (T : Tables) (fold : Str → Str) (t : VT) : List PVal → Bool
  | [] => true
  | v :: rest =>
    (match v with
     | .null => t == .element
     | .uuid u => t == .element && uuidOK u
     | .inline e => t == .element && inlineTypeOK T fold e.type && wfElem T fold e
     | .text _ => t != .element) && wfVals T fold t rest
end

/-- one value, in the context of attribute type `t`. -/
def valWfP (T : Tables) (fold : Str → Str) (t : VT) : PVal → Bool
  | .null => t == .element
  | .uuid u => t == .element && uuidOK u
  | .inline e => t == .element && inlineTypeOK T fold e.type && wfElem T fold e
  | .text _ => t != .element

theorem wfVals_nil (T : Tables) (fold : Str → Str) (t : VT) : wfVals T fold t [] = true := by
  rw [wfVals]

theorem wfVals_cons (T : Tables) (fold : Str → Str) (t : VT) (v : PVal) (rest : List PVal) :
    wfVals T fold t (v :: rest) = (valWfP T fold t v && wfVals T fold t rest) := by
  cases v <;> rw [wfVals] <;> rfl

theorem wfAttrs_nil (T : Tables) (fold : Str → Str) : wfAttrs T fold [] = true := by
  rw [wfAttrs]

theorem wfAttrs_cons (T : Tables) (fold : Str → Str) (n : Str) (t : VT) (arr : Bool) (vals : List PVal)
    (rest : List PAttr) :
    wfAttrs T fold (.mk n t arr vals :: rest) =
      (n != nameLit && (arr || vals.length == 1) && wfVals T fold t vals && wfAttrs T fold rest) := by
  rw [wfAttrs]

theorem wfElem_mk (T : Tables) (fold : Str → Str) (ty nm : Str) (u : Option Str) (attrs : List PAttr) :
    wfElem T fold (.mk ty nm u attrs) =
      ((match u with | some u => uuidOK u | none => true) && wfAttrs T fold attrs) := by
  cases u <;> simp only [wfElem]

def isNls (nl : Toks) : Prop := ∀ t ∈ nl, t.1 = kNEWLINE

theorem skipNl_nls (nl : Toks) (h : isNls nl) (k : Nat) (v : Str) (rest : Toks) (hk : k ≠ kNEWLINE) :
    skipNl (nl ++ (k, v) :: rest) = (k, v) :: rest := by
  induction nl with
  | nil => simp [skipNl, hk]
  | cons t ts ih =>
    obtain ⟨k', v'⟩ := t
    have : k' = kNEWLINE := h (k', v') (List.mem_cons_self ..)
    subst this
    simp only [List.cons_append, skipNl, if_true]
    exact ih (fun t ht => h t (List.mem_cons_of_mem _ ht))

theorem isNls_nil : isNls [] := by intro t ht; cases ht
theorem isNls_one : isNls [NL] := by intro t ht; simp at ht; subst ht; rfl

theorem expect_nls (nl : Toks) (h : isNls nl) (kind : Nat) (what : String) (v : Str) (rest : Toks)
    (hk : kind ≠ kNEWLINE) : expect kind what (nl ++ (kind, v) :: rest) = .ok (v, rest) := by
  simp [expect, skipNl_nls nl h kind v rest hk]

theorem expect_cons (kind : Nat) (what : String) (v : Str) (rest : Toks) (hk : kind ≠ kNEWLINE) :
    expect kind what ((kind, v) :: rest) = .ok (v, rest) :=
  expect_nls [] isNls_nil kind what v rest hk

theorem uuidOK_ne_nil {u : Str} (h : uuidOK u = true) : u.isEmpty = false := by
  cases u with
  | nil => simp [uuidOK] at h
  | cons _ _ => rfl

/-! ## one step of the block loop -/

section steps
variable (T : Tables) (fold : Str → Str) (N : NameFacts T fold) (f : Nat) (typ name : Str)
  (uuid : Option Str) (acc : List PAttr) (nl : Toks) (hnl : isNls nl)
include hnl

theorem parseBlock_close (more : Toks) :
    parseBlock T (f + 1) fold typ name uuid acc (nl ++ BC :: more)
      = .ok (.mk typ name uuid acc.reverse, more) := by
  rw [parseBlock]
  simp only [BC, skipNl_nls nl hnl kBRACE_CLOSE _ more (by decide)]
  simp [kBRACE_CLOSE, kEOF]

include N

/-- the `"id" "elementid" "<uuid>"` line. -/
theorem parseBlock_id (u : Str) (hu : uuidOK u = true) (ts : Toks) :
    parseBlock T (f + 1) fold typ name none acc (nl ++ S idLit :: S elementidLit :: S u :: ts)
      = parseBlock T f fold typ name (some u) acc ts := by
  rw [parseBlock]
  have h1 := N.foldId
  simp only [elementidLit] at h1
  simp only [S, skipNl_nls nl hnl kSTRING _ _ (by decide)]
  simp [kSTRING, kEOF, kBRACE_CLOSE, expect, skipNl, kNEWLINE, h1, idLit, elementidLit, hu]

/-- the `"name" "string" "<name>"` line. -/
theorem parseBlock_name (nm : Str) (ts : Toks) :
    parseBlock T (f + 1) fold typ name uuid acc (nl ++ S nameLit :: S stringLit :: S nm :: ts)
      = parseBlock T f fold typ nm uuid acc ts := by
  rw [parseBlock]
  have h1 := N.foldString
  simp only [stringLit] at h1
  simp only [S, skipNl_nls nl hnl kSTRING _ _ (by decide)]
  simp [kSTRING, kEOF, kBRACE_CLOSE, expect, skipNl, kNEWLINE, h1, nameLit, stringLit]

/-- attribute line with a scalar non-element value. -/
theorem parseBlock_text (n : Str) (hn : n ≠ nameLit) (t : VT) (ht : t ≠ .element) (s : Str) (ts : Toks) :
    parseBlock T (f + 1) fold typ name uuid acc (nl ++ S n :: S (typeName T t) :: S s :: ts)
      = parseBlock T f fold typ name uuid (.mk n t false [.text s] :: acc) ts := by
  rw [parseBlock]
  have h1 := (N.notId t).1
  simp only [elementidLit] at h1
  have hn' := hn
  simp only [nameLit] at hn'
  simp only [S, skipNl_nls nl hnl kSTRING _ _ (by decide)]
  simp [kSTRING, kEOF, kBRACE_CLOSE, expect, skipNl, kNEWLINE, N.foldName, h1, hn',
    N.notArr, N.vt, ht]

/-- attribute line `"n" "element" ""`: NULL. -/
theorem parseBlock_null (n : Str) (hn : n ≠ nameLit) (ts : Toks) :
    parseBlock T (f + 1) fold typ name uuid acc (nl ++ S n :: S elemLit :: S [] :: ts)
      = parseBlock T f fold typ name uuid (.mk n .element false [.null] :: acc) ts := by
  rw [← N.elem, parseBlock]
  have h1 := (N.notId .element).1
  simp only [elementidLit] at h1
  have hn' := hn
  simp only [nameLit] at hn'
  simp only [S, skipNl_nls nl hnl kSTRING _ _ (by decide)]
  simp [kSTRING, kEOF, kBRACE_CLOSE, expect, skipNl, kNEWLINE, N.foldName, h1, hn',
    N.notArr, N.vt]

/-- attribute line `"n" "element" "<uuid>"`: reference by UUID. -/
theorem parseBlock_uuid (n : Str) (hn : n ≠ nameLit) (u : Str) (hu : uuidOK u = true) (ts : Toks) :
    parseBlock T (f + 1) fold typ name uuid acc (nl ++ S n :: S elemLit :: S u :: ts)
      = parseBlock T f fold typ name uuid (.mk n .element false [.uuid u] :: acc) ts := by
  rw [← N.elem, parseBlock]
  have h1 := (N.notId .element).1
  simp only [elementidLit] at h1
  have hn' := hn
  simp only [nameLit] at hn'
  have hne := uuidOK_ne_nil hu
  simp only [List.isEmpty_eq_false_iff] at hne
  simp only [S, skipNl_nls nl hnl kSTRING _ _ (by decide)]
  simp [kSTRING, kEOF, kBRACE_CLOSE, expect, skipNl, kNEWLINE, N.foldName, h1, hn',
    N.notArr, N.vt, hu, hne]

omit N in
/-- attribute line with an inline element. -/
theorem parseBlock_inline (n : Str) (hn : n ≠ nameLit) (ty : Str) (hty : inlineTypeOK T fold ty = true)
    (ts ts' : Toks) (e : PElem) (he : parseElement T fold f n ty ts = .ok (e, ts')) :
    parseBlock T (f + 1) fold typ name uuid acc (nl ++ S n :: S ty :: ts)
      = parseBlock T f fold typ name uuid (.mk n .element false [.inline e] :: acc) ts' := by
  rw [parseBlock]
  have hn' := hn
  simp only [nameLit] at hn'
  simp only [inlineTypeOK, Bool.and_eq_true, Option.isNone_iff_eq_none, bne_iff_ne, ne_eq] at hty
  obtain ⟨⟨hvt, hid⟩, _⟩ := hty
  simp only [elementidLit] at hid
  simp only [S, skipNl_nls nl hnl kSTRING _ _ (by decide)]
  cases hea : endsWithArray (fold ty) with
  | none =>
    simp only [hea] at hvt
    simp [kSTRING, kEOF, kBRACE_CLOSE, expect, skipNl, kNEWLINE, hn', hid, hea, hvt, he]
  | some b =>
    simp only [hea] at hvt
    simp [kSTRING, kEOF, kBRACE_CLOSE, expect, skipNl, kNEWLINE, hn', hid, hea, hvt, he]

/-- attribute with an array value. -/
theorem parseBlock_array (n : Str) (hn : n ≠ nameLit) (t : VT) (ts ts' : Toks) (vals : List PVal)
    (hv : parseArray T f fold n t [] ts = .ok (vals, ts')) :
    parseBlock T (f + 1) fold typ name uuid acc
        (nl ++ S n :: S (typeName T t ++ arrayLit) :: NL :: BKO :: ts)
      = parseBlock T f fold typ name uuid (.mk n t true vals :: acc) ts' := by
  rw [parseBlock]
  have h1 := (N.notId t).2
  simp only [elementidLit] at h1
  have hn' := hn
  simp only [nameLit] at hn'
  simp only [S, skipNl_nls nl hnl kSTRING _ _ (by decide)]
  simp [kSTRING, kEOF, kBRACE_CLOSE, expect, skipNl, kNEWLINE, N.foldArr, h1, hn',
    N.isArr, N.vt, NL, BKO, kBRACK_OPEN, hv]

end steps

/-! ## one step of the array loop -/

theorem skipComma_comma (ts : Toks) : skipComma (CM :: ts) = ts := by
  simp [skipComma, skipNl, CM, kCOMMA, kNEWLINE]

theorem skipComma_last (k : Nat) (v : Str) (ts : Toks) (hk : k ≠ kNEWLINE) (hc : k ≠ kCOMMA) :
    skipComma (NL :: (k, v) :: ts) = (k, v) :: ts := by
  simp [skipComma, skipNl, NL, hk, hc]

section asteps
variable (T : Tables) (fold : Str → Str) (f : Nat) (an : Str) (t : VT) (acc : List PVal)
  (nl : Toks) (hnl : isNls nl)
include hnl

theorem parseArray_close (more : Toks) :
    parseArray T (f + 1) fold an t acc (nl ++ BKC :: more) = .ok (acc.reverse, more) := by
  rw [parseArray]
  simp only [BKC, skipNl_nls nl hnl kBRACK_CLOSE _ more (by decide)]
  simp [kBRACK_CLOSE, kEOF]

theorem parseArray_text (ht : t ≠ .element) (s : Str) (ts : Toks) :
    parseArray T (f + 1) fold an t acc (nl ++ S s :: ts)
      = parseArray T f fold an t (.text s :: acc) (skipComma ts) := by
  rw [parseArray]
  simp only [S, skipNl_nls nl hnl kSTRING _ _ (by decide)]
  simp [kSTRING, kEOF, kBRACK_CLOSE, ht]

theorem parseArray_null (ts : Toks) :
    parseArray T (f + 1) fold an .element acc (nl ++ S elemLit :: S [] :: ts)
      = parseArray T f fold an .element (.null :: acc) (skipComma ts) := by
  rw [parseArray]
  simp only [S, skipNl_nls nl hnl kSTRING _ _ (by decide)]
  simp [kSTRING, kEOF, kBRACK_CLOSE, elemLit, expect, skipNl, kNEWLINE]

theorem parseArray_uuid (u : Str) (hu : uuidOK u = true) (ts : Toks) :
    parseArray T (f + 1) fold an .element acc (nl ++ S elemLit :: S u :: ts)
      = parseArray T f fold an .element (.uuid u :: acc) (skipComma ts) := by
  rw [parseArray]
  have hne := uuidOK_ne_nil hu
  simp only [List.isEmpty_eq_false_iff] at hne
  simp only [S, skipNl_nls nl hnl kSTRING _ _ (by decide)]
  simp [kSTRING, kEOF, kBRACK_CLOSE, elemLit, expect, skipNl, kNEWLINE, hu, hne]

theorem parseArray_inline (ty : Str) (hty : ty ≠ elemLit) (ts ts' : Toks) (e : PElem)
    (he : parseElement T fold f an ty ts = .ok (e, ts')) :
    parseArray T (f + 1) fold an .element acc (nl ++ S ty :: ts)
      = parseArray T f fold an .element (.inline e :: acc) (skipComma ts') := by
  rw [parseArray]
  have hty' := hty
  simp only [elemLit] at hty'
  simp only [S, skipNl_nls nl hnl kSTRING _ _ (by decide)]
  simp [kSTRING, kEOF, kBRACK_CLOSE, hty', he]

end asteps

/-! ## the reader on the tokens of a tree -/

theorem isNls_NL_cons_eq (x : Toks) : NL :: x = [NL] ++ x := rfl

/-- what remains after one array item (its separator and the following items) is handed to the next
iteration. -/
theorem items_tail (T : Tables) (t : VT) (rest : List PVal) (more : Toks) :
    ∃ nl, isNls nl ∧
      skipComma ((if rest.isEmpty then [NL] else [CM, NL]) ++ toksVals T t true rest ++ BKC :: more)
        = nl ++ toksVals T t true rest ++ BKC :: more := by
  cases rest with
  | nil =>
    refine ⟨[], isNls_nil, ?_⟩
    simp only [List.isEmpty_nil, if_true, toksVals, List.append_nil, List.nil_append, List.singleton_append]
    exact skipComma_last _ _ _ (by decide) (by decide)
  | cons r rs =>
    refine ⟨[NL], isNls_one, ?_⟩
    simp only [List.isEmpty_cons, Bool.false_eq_true, if_false, List.cons_append, List.nil_append]
    exact skipComma_comma _

mutual
theorem parse_body (T : Tables) (fold : Str → Str) (N : NameFacts T fold) : ∀ (p : PElem), wfElem T fold p = true → ∀ (f : Nat),
    (toksBody T p).length + 1 ≤ f → ∀ (defName : Str) (more : Toks),
    parseElement T fold f defName p.type (toksBody T p ++ more) = .ok (p, more)
  | .mk ty nm u attrs, hw, f, hf, defName, more => by
    simp only [wfElem, Bool.and_eq_true] at hw
    simp only [toksBody, List.length_append, List.length_cons, List.length_nil] at hf
    obtain ⟨f1, rfl⟩ : ∃ f1, f = f1 + 1 := ⟨f - 1, by omega⟩
    rw [parseElement]
    simp only [toksBody, PElem.type, List.append_assoc, List.cons_append, List.nil_append]
    rw [isNls_NL_cons_eq, show BO = (kBRACE_OPEN, ['{']) from rfl,
      expect_nls [NL] isNls_one kBRACE_OPEN "{" _ _ (by decide)]
    simp only
    have hattrs := parse_attrs T fold N attrs hw.2
    cases u with
    | none =>
      simp only [List.nil_append] at hf ⊢
      obtain ⟨f2, rfl⟩ : ∃ f2, f1 = f2 + 1 := ⟨f1 - 1, by omega⟩
      rw [isNls_NL_cons_eq, parseBlock_name T fold N f2 ty defName none [] [NL] isNls_one nm]
      have := hattrs f2 (by simp only [List.length_cons, List.length_nil] at hf; omega) ty nm none [] [NL] isNls_one more
      simpa using this
    | some u =>
      simp only [List.cons_append, List.nil_append, List.length_cons, List.length_nil] at hf ⊢
      obtain ⟨f2, rfl⟩ : ∃ f2, f1 = f2 + 1 := ⟨f1 - 1, by omega⟩
      obtain ⟨f3, rfl⟩ : ∃ f3, f2 = f3 + 1 := ⟨f2 - 1, by omega⟩
      rw [isNls_NL_cons_eq, parseBlock_id T fold N (f3 + 1) ty defName [] [NL] isNls_one u (by simpa using hw.1),
        isNls_NL_cons_eq, parseBlock_name T fold N f3 ty defName (some u) [] [NL] isNls_one nm]
      have := hattrs f3 (by omega) ty nm (some u) [] [NL] isNls_one more
      simpa using this
termination_by p => sizeOf p
decreasing_by all_goals (simp_wf; try omega)
theorem parse_attrs (T : Tables) (fold : Str → Str) (N : NameFacts T fold) : ∀ (as : List PAttr), wfAttrs T fold as = true → ∀ (f : Nat),
    (toksAttrs T as).length + 1 ≤ f → ∀ (typ name : Str) (uuid : Option Str) (acc : List PAttr)
      (nl : Toks), isNls nl → ∀ (more : Toks),
    parseBlock T f fold typ name uuid acc (nl ++ toksAttrs T as ++ BC :: more)
      = .ok (.mk typ name uuid (acc.reverse ++ as), more)
  | [], _, f, hf, typ, name, uuid, acc, nl, hnl, more => by
    obtain ⟨f1, rfl⟩ : ∃ f1, f = f1 + 1 := ⟨f - 1, by omega⟩
    simp only [toksAttrs, List.append_nil]
    rw [parseBlock_close T fold f1 typ name uuid acc nl hnl]
  | .mk n t arr vals :: rest, hw, f, hf, typ, name, uuid, acc, nl, hnl, more => by
    simp only [wfAttrs, Bool.and_eq_true, bne_iff_ne, ne_eq, Bool.or_eq_true, beq_iff_eq] at hw
    obtain ⟨⟨⟨hn, hshape⟩, hvals⟩, hrest⟩ := hw
    obtain ⟨f1, rfl⟩ : ∃ f1, f = f1 + 1 := ⟨f - 1, by omega⟩
    have ihr := parse_attrs T fold N rest hrest
    cases arr with
    | true =>
      simp only [toksAttrs, if_true, List.length_append, List.length_cons, List.length_nil] at hf
      simp only [toksAttrs, if_true, List.append_assoc, List.cons_append, List.nil_append]
      have hitems := parse_items T fold N t vals hvals f1 (by omega) n [] [NL] isNls_one
        (NL :: (toksAttrs T rest ++ BC :: more))
      simp only [List.reverse_nil, List.nil_append, List.cons_append] at hitems
      rw [parseBlock_array T fold N f1 typ name uuid acc nl hnl n hn t _ _ vals hitems]
      have := ihr f1 (by omega) typ name uuid (.mk n t true vals :: acc) [NL] isNls_one more
      simpa using this
    | false =>
      have hone : vals.length = 1 := by
        rcases hshape with h | h
        · exact absurd h (by decide)
        · exact h
      simp only [toksAttrs, Bool.false_eq_true, if_false, List.length_append, List.length_cons] at hf
      simp only [toksAttrs, Bool.false_eq_true, if_false, List.append_assoc, List.cons_append]
      rw [parse_scalar T fold N t vals hone hvals f1 (by omega) typ name uuid acc nl hnl n hn
        (toksAttrs T rest ++ BC :: more)]
      have := ihr f1 (by omega) typ name uuid (.mk n t false vals :: acc) [NL] isNls_one more
      simpa using this
termination_by as => sizeOf as
decreasing_by all_goals (simp_wf; try omega)
/-- a scalar attribute line (`vals` has one element). -/
theorem parse_scalar (T : Tables) (fold : Str → Str) (N : NameFacts T fold) : ∀ (t : VT) (vs : List PVal), vs.length = 1 → wfVals T fold t vs = true →
    ∀ (f : Nat), (toksVals T t false vs).length + 1 ≤ f → ∀ (typ name : Str) (uuid : Option Str)
      (acc : List PAttr) (nl : Toks), isNls nl → ∀ (n : Str), n ≠ nameLit → ∀ (tail : Toks),
    parseBlock T (f + 1) fold typ name uuid acc (nl ++ S n :: (toksVals T t false vs ++ tail))
      = parseBlock T f fold typ name uuid (.mk n t false vs :: acc) (NL :: tail)
  | t, [], h1, _, _, _, _, _, _, _, _, _, _, _, _ => by simp at h1
  | t, .null :: rest, h1, hw, f, hf, typ, name, uuid, acc, nl, hnl, n, hn, tail => by
    have hrest : rest = [] := by
      cases rest with
      | nil => rfl
      | cons _ _ => simp at h1
    subst hrest
    simp only [wfVals, Bool.and_true, beq_iff_eq] at hw
    subst hw
    simp only [toksVals, Bool.false_eq_true, if_false, List.append_nil, List.cons_append, List.nil_append]
    exact parseBlock_null T fold N f typ name uuid acc nl hnl n hn _
  | t, .uuid u :: rest, h1, hw, f, hf, typ, name, uuid, acc, nl, hnl, n, hn, tail => by
    have hrest : rest = [] := by
      cases rest with
      | nil => rfl
      | cons _ _ => simp at h1
    subst hrest
    simp only [wfVals, Bool.and_true, Bool.and_eq_true, beq_iff_eq] at hw
    obtain ⟨rfl, hu⟩ := hw
    simp only [toksVals, Bool.false_eq_true, if_false, List.append_nil, List.cons_append, List.nil_append]
    exact parseBlock_uuid T fold N f typ name uuid acc nl hnl n hn u hu _
  | t, .text s :: rest, h1, hw, f, hf, typ, name, uuid, acc, nl, hnl, n, hn, tail => by
    have hrest : rest = [] := by
      cases rest with
      | nil => rfl
      | cons _ _ => simp at h1
    subst hrest
    simp only [wfVals, Bool.and_true, bne_iff_ne, ne_eq] at hw
    simp only [toksVals, Bool.false_eq_true, if_false, List.append_nil, List.cons_append, List.nil_append]
    exact parseBlock_text T fold N f typ name uuid acc nl hnl n hn t hw s _
  | t, .inline e :: rest, h1, hw, f, hf, typ, name, uuid, acc, nl, hnl, n, hn, tail => by
    have hrest : rest = [] := by
      cases rest with
      | nil => rfl
      | cons _ _ => simp at h1
    subst hrest
    simp only [wfVals, Bool.and_true, Bool.and_eq_true, beq_iff_eq] at hw
    obtain ⟨⟨rfl, hty⟩, hwe⟩ := hw
    simp only [toksVals, Bool.false_eq_true, if_false, List.append_nil, List.cons_append,
      List.length_cons, List.length_append, List.length_nil] at hf ⊢
    have he := parse_body T fold N e hwe f (by omega) n ([NL] ++ tail)
    simp only [List.append_assoc]
    exact parseBlock_inline T fold f typ name uuid acc nl hnl n hn e.type hty _ _ e he
termination_by t vs => sizeOf vs
decreasing_by all_goals (simp_wf; try omega)
/-- the items of an array attribute, up to the closing bracket. -/
theorem parse_items (T : Tables) (fold : Str → Str) (N : NameFacts T fold) : ∀ (t : VT) (vs : List PVal), wfVals T fold t vs = true → ∀ (f : Nat),
    (toksVals T t true vs).length + 1 ≤ f → ∀ (an : Str) (acc : List PVal) (nl : Toks), isNls nl →
    ∀ (more : Toks),
    parseArray T f fold an t acc (nl ++ toksVals T t true vs ++ BKC :: more)
      = .ok (acc.reverse ++ vs, more)
  | t, [], _, f, hf, an, acc, nl, hnl, more => by
    obtain ⟨f1, rfl⟩ : ∃ f1, f = f1 + 1 := ⟨f - 1, by omega⟩
    simp only [toksVals, List.append_nil]
    rw [parseArray_close T fold f1 an t acc nl hnl]
  | t, .null :: rest, hw, f, hf, an, acc, nl, hnl, more => by
    simp only [wfVals, Bool.and_eq_true] at hw
    obtain ⟨hv, hrest⟩ := hw
    obtain ⟨f1, rfl⟩ : ∃ f1, f = f1 + 1 := ⟨f - 1, by omega⟩
    obtain ⟨nl', hnl', htail⟩ := items_tail T t rest more
    have ihr := parse_items T fold N t rest hrest
    simp only [toksVals, if_true, List.length_append] at hf
    simp only [toksVals, if_true, List.append_assoc]
    simp only [beq_iff_eq] at hv
    subst hv
    simp only [List.cons_append, List.nil_append, List.length_cons, List.length_nil] at hf ⊢
    rw [parseArray_null T fold f1 an acc nl hnl]
    rw [show (if rest.isEmpty then [NL] else [CM, NL]) ++ (toksVals T .element true rest ++ BKC :: more)
      = (if rest.isEmpty then [NL] else [CM, NL]) ++ toksVals T .element true rest ++ BKC :: more by simp,
      htail]
    have := ihr f1 (by omega) an (.null :: acc) nl' hnl' more
    simpa using this
  | t, .uuid u :: rest, hw, f, hf, an, acc, nl, hnl, more => by
    simp only [wfVals, Bool.and_eq_true] at hw
    obtain ⟨hv, hrest⟩ := hw
    obtain ⟨f1, rfl⟩ : ∃ f1, f = f1 + 1 := ⟨f - 1, by omega⟩
    obtain ⟨nl', hnl', htail⟩ := items_tail T t rest more
    have ihr := parse_items T fold N t rest hrest
    simp only [toksVals, if_true, List.length_append] at hf
    simp only [toksVals, if_true, List.append_assoc]
    simp only [Bool.and_eq_true, beq_iff_eq] at hv
    obtain ⟨rfl, hu⟩ := hv
    simp only [List.cons_append, List.nil_append, List.length_cons, List.length_nil] at hf ⊢
    rw [parseArray_uuid T fold f1 an acc nl hnl u hu]
    rw [show (if rest.isEmpty then [NL] else [CM, NL]) ++ (toksVals T .element true rest ++ BKC :: more)
      = (if rest.isEmpty then [NL] else [CM, NL]) ++ toksVals T .element true rest ++ BKC :: more by simp,
      htail]
    have := ihr f1 (by omega) an (.uuid u :: acc) nl' hnl' more
    simpa using this
  | t, .text s :: rest, hw, f, hf, an, acc, nl, hnl, more => by
    simp only [wfVals, Bool.and_eq_true] at hw
    obtain ⟨hv, hrest⟩ := hw
    obtain ⟨f1, rfl⟩ : ∃ f1, f = f1 + 1 := ⟨f - 1, by omega⟩
    obtain ⟨nl', hnl', htail⟩ := items_tail T t rest more
    have ihr := parse_items T fold N t rest hrest
    simp only [toksVals, if_true, List.length_append] at hf
    simp only [toksVals, if_true, List.append_assoc]
    simp only [bne_iff_ne, ne_eq] at hv
    simp only [List.cons_append, List.nil_append, List.length_cons, List.length_nil] at hf ⊢
    rw [parseArray_text T fold f1 an t acc nl hnl hv]
    rw [show (if rest.isEmpty then [NL] else [CM, NL]) ++ (toksVals T t true rest ++ BKC :: more)
      = (if rest.isEmpty then [NL] else [CM, NL]) ++ toksVals T t true rest ++ BKC :: more by simp,
      htail]
    have := ihr f1 (by omega) an (.text s :: acc) nl' hnl' more
    simpa using this
  | t, .inline e :: rest, hw, f, hf, an, acc, nl, hnl, more => by
    simp only [wfVals, Bool.and_eq_true] at hw
    obtain ⟨hv, hrest⟩ := hw
    obtain ⟨f1, rfl⟩ : ∃ f1, f = f1 + 1 := ⟨f - 1, by omega⟩
    obtain ⟨nl', hnl', htail⟩ := items_tail T t rest more
    have ihr := parse_items T fold N t rest hrest
    simp only [toksVals, if_true, List.length_append] at hf
    simp only [toksVals, if_true, List.append_assoc]
    simp only [Bool.and_eq_true, beq_iff_eq] at hv
    obtain ⟨⟨rfl, hty⟩, hwe⟩ := hv
    simp only [List.cons_append, List.length_cons] at hf ⊢
    have hne : e.type ≠ elemLit := by
      simp only [inlineTypeOK, Bool.and_eq_true, bne_iff_ne, ne_eq] at hty
      exact hty.2
    have he := parse_body T fold N e hwe f1 (by omega) an
      ((if rest.isEmpty then [NL] else [CM, NL]) ++ (toksVals T .element true rest ++ BKC :: more))
    rw [parseArray_inline T fold f1 an acc nl hnl e.type hne _ _ e he]
    rw [show (if rest.isEmpty then [NL] else [CM, NL]) ++ (toksVals T .element true rest ++ BKC :: more)
      = (if rest.isEmpty then [NL] else [CM, NL]) ++ toksVals T .element true rest ++ BKC :: more by simp,
      htail]
    have := ihr f1 (by omega) an (.inline e :: acc) nl' hnl' more
    simpa using this
termination_by t vs => sizeOf vs
decreasing_by all_goals (simp_wf; try omega)
end

end C14.Kv2
