import Srctools.Model.C14Kv2
import Srctools.Proofs.C01
/-! # C14 / KeyValues2: lexing the emitted text (token-stream simulation on top of `C02_inverse`).

`LexK inp kv rest`: from any token boundary (any line number, `lastCr = false`) the tokenizer reads
`inp` down to `rest`, producing exactly the tokens `kv` (kind code, value), one unit of `runAux`
fuel per token, and ends at a token boundary again.  Line numbers are existentially hidden. -/
namespace C14.Kv2
open Tok

/-- What the KV2 lexing needs from the tokenizer tables beyond `escOK`. -/
def lexOK (E : Tok.Tables) : Bool :=
  C01.kvOK E && (E.operator '\r').isNone && (E.operator '[').isNone && (E.operator ']').isNone &&
  (E.operator ',' == some Kind.comma)

structure LexFacts (E : Tok.Tables) : Prop where
  kv : C01.KvFacts E
  cr : E.operator '\r' = none
  bko : E.operator '[' = none
  bkc : E.operator ']' = none
  comma : E.operator ',' = some Kind.comma

theorem lexFacts {E : Tok.Tables} (h : lexOK E = true) : LexFacts E := by
  unfold lexOK at h
  simp only [Bool.and_eq_true, Option.isNone_iff_eq_none, beq_iff_eq] at h
  obtain ⟨⟨⟨⟨h1, h2⟩, h3⟩, h4⟩, h5⟩ := h
  exact ⟨C01.kvFacts h1, h2, h3, h4, h5⟩

section
variable {E : Tok.Tables} (hE : escOK E = true) (F : LexFacts E) (o : Opts) (ho : o.allowEscapes = true)
  (hb : o.stringBracket = false) (fold : Char → List Char)

def kvOf (toks : List Obs) : Toks := toks.map fun ob => (ob.kind, ob.value)

def LexK (E : Tok.Tables) (o : Opts) (fold : Char → List Char) (inp : List Char) (kv : Toks)
    (rest : List Char) : Prop :=
  kv.length + rest.length ≤ inp.length ∧
  ∀ l : Nat, ∃ (l' : Nat) (toks : List Obs), kvOf toks = kv ∧
    ∀ n acc, runAux E o fold (n + toks.length) ⟨l, false⟩ inp acc
      = runAux E o fold n ⟨l', false⟩ rest (toks.reverse ++ acc)

theorem LexK.nil (a : List Char) : LexK E o fold a [] a := by
  refine ⟨by simp, fun l => ⟨l, [], rfl, fun n acc => by simp⟩⟩

theorem LexK.append {a b c : List Char} {k1 k2 : Toks}
    (h1 : LexK E o fold a k1 b) (h2 : LexK E o fold b k2 c) : LexK E o fold a (k1 ++ k2) c := by
  obtain ⟨hl1, h1⟩ := h1
  obtain ⟨hl2, h2⟩ := h2
  refine ⟨by simp only [List.length_append]; omega, fun l => ?_⟩
  obtain ⟨l1, t1, e1, r1⟩ := h1 l
  obtain ⟨l2, t2, e2, r2⟩ := h2 l1
  refine ⟨l2, t1 ++ t2, by simp [kvOf, ← e1, ← e2], fun n acc => ?_⟩
  rw [List.length_append, show n + (t1.length + t2.length) = (n + t2.length) + t1.length by omega,
    r1, r2]
  simp

/-- one non-EOF token of `runAux`. -/
theorem run_tok {st st' : St} {inp rest : List Char} {k : Kind} {v : List Char}
    (h : nextToken E o fold (inp.length + 1) st inp = .tok k v st' rest) (hk : k ≠ .eof)
    (n : Nat) (acc : List Obs) :
    runAux E o fold (n + 1) st inp acc = runAux E o fold n st' rest (⟨k.code, v, st'.line⟩ :: acc) := by
  rw [runAux, h]; simp [hk]

include F in
/-- LF right after CR is swallowed: the state `lastCr = true` before LF equals a clean boundary after it. -/
theorem runAux_lf (n l : Nat) (x : List Char) (acc : List Obs) :
    runAux E o fold n ⟨l, true⟩ ('\n' :: x) acc = runAux E o fold n ⟨l, false⟩ x acc := by
  cases n with
  | zero => simp [runAux]
  | succ n =>
    rw [runAux, runAux]
    have : nextToken E o fold (('\n' :: x).length + 1) ⟨l, true⟩ ('\n' :: x)
        = nextToken E o fold (x.length + 1) ⟨l, false⟩ x := by
      rw [List.length_cons, nextToken]
      have h1 : ('\n' : Char) ≠ '\r' := by decide
      simp [F.kv.lf, h1]
    rw [this]

include F in
theorem lex_crlf (rest : List Char) : LexK E o fold ('\r' :: '\n' :: rest) [(2, ['\n'])] rest := by
  refine ⟨by simp; omega, fun l => ⟨l + 1, [⟨2, ['\n'], l + 1⟩], rfl, fun n acc => ?_⟩⟩
  have h : nextToken E o fold (('\r' :: '\n' :: rest).length + 1) ⟨l, false⟩ ('\r' :: '\n' :: rest)
      = .tok .newline ['\n'] ⟨l + 1, true⟩ ('\n' :: rest) := by
    rw [List.length_cons, nextToken]; simp [F.cr]
  simp only [List.length_cons, List.length_nil, Nat.zero_add]
  rw [run_tok o fold h (by decide), runAux_lf F o fold]
  simp [Kind.code]

include hE F ho in
/-- blanks, then `"` + escape_text(s) + `"`. -/
theorem lex_quote (ws : List Char) (hws : C01.isWs ws) (s rest : List Char) :
    LexK E o fold (ws ++ (quote E s ++ rest)) [(1, s)] rest := by
  refine ⟨by simp [quote]; omega, fun l => ⟨l, [⟨1, s, l⟩], rfl, fun n acc => ?_⟩⟩
  have h : nextToken E o fold ((ws ++ (quote E s ++ rest)).length + 1) ⟨l, false⟩ (ws ++ (quote E s ++ rest))
      = .tok .string s ⟨l, false⟩ rest := by
    rw [List.length_append, Nat.add_assoc, C01.next_skipWs F.kv o fold ws hws]
    simp only [quote, List.cons_append, List.append_assoc, List.length_cons, List.nil_append]
    rw [C02_inverse E hE o ho fold false s rest ⟨l, false⟩, C02_single_line_count E hE s]
    simp
  simp only [List.length_cons, List.length_nil, Nat.zero_add]
  rw [run_tok o fold h (by decide)]
  simp [Kind.code]

/-- the single-character tokens of the KV2 syntax. -/
inductive Punct | braceOpen | braceClose | brackOpen | brackClose | comma

def Punct.char : Punct → Char
  | .braceOpen => '{' | .braceClose => '}' | .brackOpen => '[' | .brackClose => ']' | .comma => ','

def Punct.code : Punct → Nat
  | .braceOpen => 6 | .braceClose => 7 | .brackOpen => 12 | .brackClose => 13 | .comma => 17

include F hb in
theorem next_punct (p : Punct) (f l : Nat) (rest : List Char) :
    ∃ k, k.code = p.code ∧ k ≠ .eof ∧
      nextToken E o fold (f + 1) ⟨l, false⟩ (p.char :: rest) = .tok k [p.char] ⟨l, false⟩ rest := by
  cases p with
  | braceOpen => exact ⟨.braceOpen, rfl, by decide, by rw [nextToken]; simp [Punct.char, F.kv.bo]⟩
  | braceClose => exact ⟨.braceClose, rfl, by decide, by rw [nextToken]; simp [Punct.char, F.kv.bc]⟩
  | comma => exact ⟨.comma, rfl, by decide, by rw [nextToken]; simp [Punct.char, F.comma]⟩
  | brackOpen =>
    refine ⟨.brackOpen, rfl, by decide, ?_⟩
    rw [nextToken]
    have e1 : ('[' : Char) ≠ '\r' := by decide
    have e2 : ('[' : Char) ≠ '\n' := by decide
    have e3 : ¬ (('[' : Char) = ' ' ∨ ('[' : Char) = '\t') := by decide
    have e4 : ('[' : Char) ≠ '/' := by decide
    have e5 : ('[' : Char) ≠ '"' := by decide
    simp [Punct.char, F.bko, e1, e2, e4, e5, hb]
  | brackClose =>
    refine ⟨.brackClose, rfl, by decide, ?_⟩
    rw [nextToken]
    have e1 : (']' : Char) ≠ '\r' := by decide
    have e2 : (']' : Char) ≠ '\n' := by decide
    have e3 : ¬ ((']' : Char) = ' ' ∨ (']' : Char) = '\t') := by decide
    have e4 : (']' : Char) ≠ '/' := by decide
    have e5 : (']' : Char) ≠ '"' := by decide
    have e6 : (']' : Char) ≠ '[' := by decide
    have e7 : (']' : Char) ≠ '(' := by decide
    have e8 : (']' : Char) ≠ Char.ofNat 0xFEFF := by decide
    have e9 : (']' : Char) ≠ ':' := by decide
    have e10 : (']' : Char) ≠ '+' := by decide
    simp [Punct.char, F.bkc, e1, e2, e4, e5, e6, e7, e8, e9, e10, hb]

include F hb in
theorem lex_punct (ws : List Char) (hws : C01.isWs ws) (p : Punct) (rest : List Char) :
    LexK E o fold (ws ++ p.char :: rest) [(p.code, [p.char])] rest := by
  refine ⟨by simp; omega, fun l => ?_⟩
  obtain ⟨k, hk, hne, hn⟩ := next_punct F o hb fold p (rest.length + 1) l rest
  refine ⟨l, [⟨p.code, [p.char], l⟩], rfl, fun n acc => ?_⟩
  have h : nextToken E o fold ((ws ++ p.char :: rest).length + 1) ⟨l, false⟩ (ws ++ p.char :: rest)
      = .tok k [p.char] ⟨l, false⟩ rest := by
    rw [List.length_append, Nat.add_assoc, C01.next_skipWs F.kv o fold ws hws, List.length_cons, hn]
  simp only [List.length_cons, List.length_nil, Nat.zero_add]
  rw [run_tok o fold h hne, hk]
  simp

/-- From a full lexing of the input to the result of `Tok.run`. -/
theorem run_of_lexK {inp : List Char} {kv : Toks} (h : LexK E o fold inp kv []) :
    ∃ r, Tok.run E o fold inp = r ∧ r.err = none ∧ kvOf r.toks = kv ++ [(0, [])] := by
  obtain ⟨hlen, h⟩ := h
  obtain ⟨l', toks, hk, hr⟩ := h 1
  refine ⟨_, rfl, ?_⟩
  unfold Tok.run
  have hkl : toks.length = kv.length := by rw [← hk]; simp [kvOf]
  simp only [List.length_nil, Nat.add_zero] at hlen
  obtain ⟨m, hm⟩ : ∃ m, inp.length + 2 = (m + 1) + toks.length := ⟨inp.length + 1 - toks.length, by omega⟩
  have := hr (m + 1) []
  rw [hm]
  show (runAux E o fold (m + 1 + toks.length) ⟨1, false⟩ inp []).err = none ∧ _
  rw [this, C01.run_eof]
  simp [kvOf, ← hk]

end

end C14.Kv2
