import Srctools.Proofs.C16Lazy
/-!
# C16 (iii) — histories in which callers edit what earlier lookups returned

In the model a lookup returns a VALUE (`Option Slot`): whatever a caller does to values it holds cannot
reach the database state.  `HOp.edit i f` applies an arbitrary function to the `i`-th value the caller
holds; `seen` records what every query returned at the time it was made.  The theorem says edits are
invisible to later queries, and (with `lazy_eq_loadAll`) that every query of every such history returns
the value of the full load of the pristine database.  For the CODE this independence is exactly the
deep-copy discipline of `engine_def` / `engine_dbase` / `get_fgd`; it rests on the tie (harness: id-walk
of every returned object against all earlier results and the database's cache, after every step).
-/
namespace C16.Lazy

inductive HOp
  | query (n : Name)
  | edit (i : Nat) (f : Option Slot → Option Slot)

structure HState where
  db : State
  held : List (Option Slot)
  seen : List (Option Slot)

def hstep (S : Static) (h : HState) : HOp → HState
  | .query n =>
    let db' := getEnt S h.db n
    { db := db', held := h.held ++ [db'.slot n], seen := h.seen ++ [db'.slot n] }
  | .edit i f => { h with held := h.held.modify i f }

def runHist (S : Static) (s0 : State) (ops : List HOp) : HState := ops.foldl (hstep S) ⟨s0, [], []⟩

def queriesOf : List HOp → List Name
  | [] => []
  | .query n :: ops => n :: queriesOf ops
  | .edit _ _ :: ops => queriesOf ops

/-- What a sequence of queries returns, one after the other. -/
def results (S : Static) : State → List Name → List (Option Slot)
  | _, [] => []
  | s, n :: ns => (getEnt S s n).slot n :: results S (getEnt S s n) ns

theorem foldl_hstep (S : Static) : ∀ (ops : List HOp) (h : HState),
    (ops.foldl (hstep S) h).seen = h.seen ++ results S h.db (queriesOf ops) := by
  intro ops
  induction ops with
  | nil => intro h; simp [queriesOf, results]
  | cons op ops ih =>
    intro h
    cases op with
    | query n => simp [List.foldl_cons, ih, hstep, queriesOf, results]
    | edit i f => simp [List.foldl_cons, ih, hstep, queriesOf]

/-- Edits of held results are invisible: what the queries of a history return is what the same queries
return with all edits removed. -/
theorem hist_independent (S : Static) (s0 : State) (ops : List HOp) :
    (runHist S s0 ops).seen = results S s0 (queriesOf ops) := by
  simpa [runHist] using foldl_hstep S ops ⟨s0, [], []⟩

theorem results_eq_loadAll {S : Static} (wf : WF S) (p : Nat) : ∀ (qs pre : List Name),
    results S (pre.foldl (getEnt S) (initState S p)) qs
      = qs.map fun q => (loadAll S (initState S p)).slot q := by
  intro qs
  induction qs with
  | nil => intro pre; rfl
  | cons q qs ih =>
    intro pre
    have h1 : getEnt S (pre.foldl (getEnt S) (initState S p)) q = (pre ++ [q]).foldl (getEnt S) (initState S p) := by
      simp [List.foldl_append]
    simp only [results, List.map_cons]
    rw [h1, ih (pre ++ [q]), lazy_eq_loadAll wf p (pre ++ [q]) (by simp)]

/-- Every query of every history (lookups interleaved with arbitrary edits of earlier results) on a
fresh database returns the value of the full load. -/
theorem hist_eq_loadAll {S : Static} (wf : WF S) (p : Nat) (ops : List HOp) :
    (runHist S (initState S p) ops).seen
      = (queriesOf ops).map fun q => (loadAll S (initState S p)).slot q := by
  rw [hist_independent]
  exact results_eq_loadAll wf p (queriesOf ops) []

end C16.Lazy
