import Srctools.Model.C16Ent
/-! Three entities of the SHIPPED database (`srctools/fgd.lzma`, via `FGD.engine_dbase()`), written out as `EntRec`
literals by a one-off script (harness/p_c16.py `ent_rec_json`); the harness compares the model text of ALL shipped
entities with `EntityDef.export` on every run, which covers these three. Used as `example`s in Props/C16.lean. -/
namespace C16.KV.Ship
open C16.KV

/-- `entityflame` -/
def aliasEnt : EntRec :=
  { kind := 1, classname := ['e', 'n', 't', 'i', 't', 'y', 'f', 'l', 'a', 'm', 'e'], bases := [['e', 'n', 'v', '_', 'e', 'n', 't', 'i', 't', 'y', '_', 'i', 'g', 'n', 'i', 't', 'e', 'r']], alias := true,
    helpers := [], desc := [],
    groups := [⟨['t', 'a', 'r', 'g', 'e', 't'], [([], { name := ['t', 'a', 'r', 'g', 'e', 't'], typ := 9, disp := ['E', 'n', 't', 'i', 't', 'y', ' ', 't', 'o', ' ', 'i', 'g', 'n', 'i', 't', 'e'], default := [], desc := [], vals := .none, readonly := false, reportable := false })]⟩,
      ⟨['l', 'i', 'f', 'e', 't', 'i', 'm', 'e'], [([], { name := ['l', 'i', 'f', 'e', 't', 'i', 'm', 'e'], typ := 6, disp := ['L', 'i', 'f', 'e', 't', 'i', 'm', 'e', ' ', 'i', 'n', ' ', 's', 'e', 'c', 'o', 'n', 'd', 's'], default := ['1', '0'], desc := [], vals := .none, readonly := false, reportable := false })]⟩],
    kvOrder := [],
    inputs := [([], ⟨['I', 'g', 'n', 'i', 't', 'e'], 0, []⟩)],
    outputs := [],
    res := some [⟨['G', 'e', 'n', 'e', 'r', 'a', 'l', '.', 'S', 't', 'o', 'p', 'B', 'u', 'r', 'n', 'i', 'n', 'g'], 2, []⟩, ⟨['G', 'e', 'n', 'e', 'r', 'a', 'l', '.', 'B', 'u', 'r', 'n', 'i', 'n', 'g', 'F', 'l', 'e', 's', 'h'], 2, []⟩, ⟨['G', 'e', 'n', 'e', 'r', 'a', 'l', '.', 'B', 'u', 'r', 'n', 'i', 'n', 'g', 'O', 'b', 'j', 'e', 'c', 't'], 2, []⟩] }

/-- `grenade` -/
def resEnt : EntRec :=
  { kind := 1, classname := ['g', 'r', 'e', 'n', 'a', 'd', 'e'], bases := [['_', 'C', 'B', 'a', 's', 'e', 'E', 'n', 't', 'i', 't', 'y', '_']], alias := false,
    helpers := [], desc := [],
    groups := [⟨['r', 'a', 'd', 'i', 'u', 's'], [([], { name := ['r', 'a', 'd', 'i', 'u', 's'], typ := 6, disp := ['D', 'a', 'm', 'a', 'g', 'e', ' ', 'R', 'a', 'd', 'i', 'u', 's'], default := [], desc := [], vals := .none, readonly := false, reportable := false })]⟩,
      ⟨['d', 'a', 'm', 'a', 'g', 'e'], [([], { name := ['d', 'a', 'm', 'a', 'g', 'e'], typ := 6, disp := ['D', 'a', 'm', 'a', 'g', 'e'], default := [], desc := [], vals := .none, readonly := false, reportable := false })]⟩],
    kvOrder := [],
    inputs := [([], ⟨['S', 'e', 't', 'D', 'a', 'm', 'a', 'g', 'e'], 6, []⟩),
      ([], ⟨['D', 'e', 't', 'o', 'n', 'a', 't', 'e'], 0, []⟩)],
    outputs := [([], ⟨['O', 'n', 'D', 'e', 't', 'o', 'n', 'a', 't', 'e'], 0, []⟩),
      ([], ⟨['O', 'n', 'D', 'e', 't', 'o', 'n', 'a', 't', 'e', '_', 'O', 'u', 't', 'P', 'o', 's', 'i', 't', 'i', 'o', 'n'], 7, []⟩)],
    res := some [⟨['B', 'a', 's', 'e', 'G', 'r', 'e', 'n', 'a', 'd', 'e', '.', 'E', 'x', 'p', 'l', 'o', 'd', 'e'], 2, []⟩, ⟨['E', 'x', 'p', 'l', 'o', 's', 'i', 'o', 'n', 'C', 'o', 'r', 'e'], 3, [['+', 'E', 'N', 'T', 'R', 'O', 'P', 'Y', 'Z', 'E', 'R', 'O', '2']]⟩, ⟨['E', 'x', 'p', 'l', 'o', 's', 'i', 'o', 'n', 'E', 'm', 'b', 'e', 'r', 's'], 3, [['+', 'E', 'N', 'T', 'R', 'O', 'P', 'Y', 'Z', 'E', 'R', 'O', '2']]⟩, ⟨['E', 'x', 'p', 'l', 'o', 's', 'i', 'o', 'n', 'F', 'l', 'a', 's', 'h'], 3, [['+', 'E', 'N', 'T', 'R', 'O', 'P', 'Y', 'Z', 'E', 'R', 'O', '2']]⟩] }

/-- `env_pinch` -/
def plainEnt : EntRec :=
  { kind := 1, classname := ['e', 'n', 'v', '_', 'p', 'i', 'n', 'c', 'h'], bases := [['_', 'C', 'B', 'a', 's', 'e', 'E', 'n', 't', 'i', 't', 'y', '_']], alias := false,
    helpers := [], desc := [],
    groups := [⟨['t', 'i', 'm', 'e', 'r'], [([], { name := ['t', 'i', 'm', 'e', 'r'], typ := 6, disp := ['L', 'i', 'f', 'e', 't', 'i', 'm', 'e'], default := ['1', '.', '8'], desc := [], vals := .none, readonly := false, reportable := false })]⟩,
      ⟨['s', 't', 'a', 'r', 't', 's', 'i', 'z', 'e'], [([], { name := ['s', 't', 'a', 'r', 't', 's', 'i', 'z', 'e'], typ := 6, disp := ['S', 't', 'a', 'r', 't', ' ', 'S', 'i', 'z', 'e'], default := ['1', '0'], desc := [], vals := .none, readonly := false, reportable := false })]⟩,
      ⟨['e', 'n', 'd', 's', 'i', 'z', 'e'], [([], { name := ['e', 'n', 'd', 's', 'i', 'z', 'e'], typ := 6, disp := ['E', 'n', 'd', ' ', 'S', 'i', 'z', 'e'], default := ['3', '0'], desc := [], vals := .none, readonly := false, reportable := false })]⟩],
    kvOrder := [],
    inputs := [([], ⟨['s', 't', 'a', 'r', 't'], 0, []⟩),
      ([], ⟨['s', 't', 'o', 'p'], 0, []⟩)],
    outputs := [([], ⟨['O', 'n', 'F', 'i', 'n', 'i', 's', 'h'], 0, []⟩)],
    res := none }

end C16.KV.Ship
