import Srctools.Proofs.C20
/-! Helper lemmas for the scenes.image container model: the reader inverts the writer. -/
namespace C20

/-! ## scenes.image: pool -/

theorem indexOf?_of_mem (s : Bytes) (l : List Bytes) (h : s ∈ l) :
    ∃ i, indexOf? s l = some i ∧ l[i]? = some s := by
  induction l with
  | nil => cases h
  | cons x xs ih =>
    simp only [indexOf?]
    by_cases hx : x = s
    · exact ⟨0, by simp [hx], by simp [hx]⟩
    · have hm : s ∈ xs := by
        rcases List.mem_cons.mp h with h | h
        · exact absurd h.symm hx
        · exact h
      obtain ⟨i, hi, hg⟩ := ih hm
      exact ⟨i + 1, by simp [hx, hi], by simpa using hg⟩

theorem mem_findOrInsert (pool : List Bytes) (s x : Bytes) :
    x ∈ (findOrInsert pool s).1 ↔ x ∈ pool ∨ x = s := by
  unfold findOrInsert
  cases h : indexOf? s pool with
  | some i =>
    simp only
    constructor
    · intro hx; exact Or.inl hx
    · rintro (hx | rfl)
      · exact hx
      · -- s is in the pool, since it has an index
        induction pool generalizing i with
        | nil => simp [indexOf?] at h
        | cons y ys ih =>
          simp only [indexOf?] at h
          by_cases hy : y = x
          · simp [hy]
          · simp only [hy, if_false] at h
            cases h2 : indexOf? x ys with
            | none => simp [h2] at h
            | some j => exact List.mem_cons_of_mem _ (ih j h2)
  | none => simp

theorem mem_addAll (pool ss : List Bytes) (x : Bytes) :
    x ∈ addAll pool ss ↔ x ∈ pool ∨ x ∈ ss := by
  unfold addAll
  induction ss generalizing pool with
  | nil => simp
  | cons s ss ih =>
    simp only [List.foldl_cons, ih, mem_findOrInsert, List.mem_cons]
    constructor
    · rintro ((h | h) | h)
      · exact Or.inl h
      · exact Or.inr (Or.inl h)
      · exact Or.inr (Or.inr h)
    · rintro (h | h | h)
      · exact Or.inl (Or.inl h)
      · exact Or.inl (Or.inr h)
      · exact Or.inr h

theorem mem_foldl_pool (es : List Entry) (p : List Bytes) (x : Bytes) :
    x ∈ es.foldl (fun p e => addAll (addAll p e.sounds) e.strs) p ↔
      x ∈ p ∨ ∃ e ∈ es, x ∈ e.sounds ∨ x ∈ e.strs := by
  induction es generalizing p with
  | nil => simp
  | cons e es ih =>
    simp only [List.foldl_cons, ih, mem_addAll, List.mem_cons]
    constructor
    · rintro (((h | h) | h) | ⟨e', he', h⟩)
      · exact Or.inl h
      · exact Or.inr ⟨e, Or.inl rfl, Or.inl h⟩
      · exact Or.inr ⟨e, Or.inl rfl, Or.inr h⟩
      · exact Or.inr ⟨e', Or.inr he', h⟩
    · rintro (h | ⟨e', he' | he', h⟩)
      · exact Or.inl (Or.inl (Or.inl h))
      · subst he'
        rcases h with h | h
        · exact Or.inl (Or.inl (Or.inr h))
        · exact Or.inl (Or.inr h)
      · exact Or.inr ⟨e', he', h⟩

theorem mem_buildPool (es : List Entry) (x : Bytes) :
    x ∈ buildPool es ↔ ∃ e ∈ es, x ∈ e.sounds ∨ x ∈ e.strs := by
  unfold buildPool
  rw [mem_foldl_pool]
  simp


/-- Blob `b` sits in `F` at offset `o`. -/
def At (F : Bytes) (b : Bytes) (o : Nat) : Prop := ∃ p r, F = p ++ (b ++ r) ∧ p.length = o

inductive Located (F : Bytes) : List Bytes → List Nat → Prop
  | nil : Located F [] []
  | cons {b : Bytes} {bs : List Bytes} {o : Nat} {os : List Nat} :
      At F b o → Located F bs os → Located F (b :: bs) (o :: os)

theorem At.drop {F b : Bytes} {o : Nat} (h : At F b o) : ∃ r, F.drop o = b ++ r := by
  obtain ⟨p, r, hF, hp⟩ := h
  exact ⟨r, by rw [hF, ← hp, List.drop_left]⟩

theorem At.le {F b : Bytes} {o : Nat} (h : At F b o) : o + b.length ≤ F.length := by
  obtain ⟨p, r, hF, hp⟩ := h
  rw [hF]; simp [List.length_append]; omega

theorem located_flatten (pre post : Bytes) (blobs : List Bytes) :
    Located (pre ++ (blobs.flatten ++ post)) blobs (offsets pre.length (lens blobs)) := by
  induction blobs generalizing pre with
  | nil => exact Located.nil
  | cons b bs ih =>
    simp only [lens, List.map_cons, offsets, List.flatten_cons, List.append_assoc]
    refine Located.cons ⟨pre, bs.flatten ++ post, rfl, rfl⟩ ?_
    have := ih (pre ++ b)
    simp only [List.length_append, List.append_assoc, lens] at this
    exact this

theorem offsets_length (start : Nat) (l : List Nat) : (offsets start l).length = l.length := by
  induction l generalizing start with
  | nil => rfl
  | cons n ns ih => simp [offsets, ih]

theorem offsets_ge (start : Nat) (l : List Nat) : ∀ o ∈ offsets start l, start ≤ o := by
  induction l generalizing start with
  | nil => intro o h; cases h
  | cons n ns ih =>
    intro o h
    simp only [offsets, List.mem_cons] at h
    rcases h with rfl | h
    · exact Nat.le_refl _
    · have := ih _ o h; omega

theorem length_flatten_le32 (l : List Nat) : ((l.map le32).flatten).length = 4 * l.length := by
  induction l with
  | nil => rfl
  | cons n ns ih => simp [List.length_append, ih, le32_length]; omega

theorem readU32s_flatten (ns : List Nat) (h : ∀ n ∈ ns, n < 4294967296) (rest : Bytes) :
    readU32s ns.length ((ns.map le32).flatten ++ rest) = some (ns, rest) := by
  induction ns with
  | nil => rfl
  | cons n ns ih =>
    simp only [List.map_cons, List.flatten_cons, List.append_assoc, List.length_cons, readU32s]
    rw [takeN_append 4 (le32 n) _ rfl]
    simp only [Option.bind_some]
    rw [ih (fun m hm => h m (by simp [hm]))]
    simp [unle32_le32 n (h n (by simp))]

theorem takeWhile_nonzero_nul (s junk : Bytes) (hs : ∀ b ∈ s, b ≠ 0) :
    (s ++ 0 :: junk).takeWhile (· != 0) = s := by
  induction s with
  | nil => simp
  | cons a t ih =>
    have ha : a ≠ 0 := hs a (by simp)
    simp only [List.cons_append, List.takeWhile_cons]
    simp [ha]
    exact ih (fun b hb => hs b (by simp [hb]))

theorem readNullStr_at {F s : Bytes} {o : Nat} (h : At F (s ++ [0]) o) (ho : o ≠ 0)
    (hs : ∀ b ∈ s, b ≠ 0) : readNullStr F o = some s := by
  obtain ⟨r, hr⟩ := h.drop
  unfold readNullStr
  have : (o == 0) = false := by simpa using ho
  simp only [this, Bool.false_eq_true, if_false, hr]
  have htw : ((s ++ [0]) ++ r).takeWhile (· != 0) = s := by
    simpa using takeWhile_nonzero_nul s r hs
  rw [htw]
  simp

theorem mapOpt_readNullStr {F : Bytes} (pool : List Bytes) (offs : List Nat)
    (hl : Located F (pool.map (· ++ [0])) offs) (hs : ∀ s ∈ pool, ∀ b ∈ s, b ≠ 0)
    (ho : ∀ o ∈ offs, o ≠ 0) : mapOpt (readNullStr F) offs = some pool := by
  induction pool generalizing offs with
  | nil => cases hl; rfl
  | cons s ss ih =>
    cases hl with
    | cons hat htail =>
      rename_i o os
      simp only [mapOpt]
      rw [readNullStr_at hat (ho o (by simp)) (hs s (by simp))]
      simp only [Option.bind_some]
      rw [ih os htail (fun x hx => hs x (by simp [hx])) (fun x hx => ho x (by simp [hx]))]
      rfl


/-! ## scenes.image: summaries, rows -/

/-- What the reader returns for an entry written by `buildImage`. -/
def toParsed (version : Nat) (e : Entry) : ParsedEntry :=
  { crc := e.crc, durMs := e.durMs, lastMs := if version == 3 then e.lastMs else e.durMs,
    sounds := e.sounds, data := stored e }

theorem poolIndex_spec (pool : List Bytes) (s : Bytes) (h : s ∈ pool) :
    pool[poolIndex pool s]? = some s ∧ poolIndex pool s < pool.length := by
  obtain ⟨i, hi, hg⟩ := indexOf?_of_mem s pool h
  unfold poolIndex
  rw [hi]
  simp only [Option.getD_some]
  refine ⟨hg, ?_⟩
  by_cases hlt : i < pool.length
  · exact hlt
  · rw [List.getElem?_eq_none (by omega)] at hg; cases hg

theorem mapOpt_pool (pool : List Bytes) (ss : List Bytes) (h : ∀ s ∈ ss, s ∈ pool) :
    mapOpt (fun i => pool[i]?) (ss.map (poolIndex pool)) = some ss := by
  induction ss with
  | nil => rfl
  | cons s ss ih =>
    simp only [List.map_cons, mapOpt]
    rw [(poolIndex_spec pool s (h s (by simp))).1]
    simp only [Option.bind_some]
    rw [ih (fun x hx => h x (by simp [hx]))]
    rfl

theorem summary_flatten (pool : List Bytes) (ss : List Bytes) :
    (ss.map fun s => le32 (poolIndex pool s)).flatten = ((ss.map (poolIndex pool)).map le32).flatten := by
  simp [List.map_map, Function.comp_def]

theorem parseSummary_summaryBytes (version : Nat) (hv : version = 2 ∨ version = 3)
    (pool : List Bytes) (e : Entry) (rest : Bytes)
    (hd : e.durMs < 4294967296) (hl : e.lastMs < 4294967296) (hc : e.sounds.length < 4294967296)
    (hp : pool.length < 4294967296) (hm : ∀ s ∈ e.sounds, s ∈ pool) :
    parseSummary version pool (summaryBytes version pool e ++ rest)
      = some (e.durMs, (if version == 3 then e.lastMs else e.durMs), e.sounds) := by
  have hidx : ∀ n ∈ e.sounds.map (poolIndex pool), n < 4294967296 := by
    intro n hn
    obtain ⟨s, hs, rfl⟩ := List.mem_map.mp hn
    have := (poolIndex_spec pool s (hm s hs)).2
    omega
  have hlen : (e.sounds.map (poolIndex pool)).length = e.sounds.length := by simp
  unfold parseSummary summaryBytes
  rcases hv with rfl | rfl
  · simp only [show ((2 : Nat) == 3) = false from rfl, Bool.false_eq_true, if_false,
      List.nil_append, List.append_assoc]
    rw [takeN_append 4 (le32 e.durMs) _ rfl]
    simp only [Option.bind_some]
    rw [takeN_append 4 (le32 e.sounds.length) _ rfl]
    simp only [Option.bind_some]
    rw [unle32_le32 _ hc, summary_flatten, ← hlen, readU32s_flatten _ hidx]
    simp only [Option.bind_some]
    rw [mapOpt_pool pool _ hm]
    simp [unle32_le32 _ hd]
  · simp only [show ((3 : Nat) == 3) = true from rfl, if_true, List.append_assoc]
    rw [takeN_append 4 (le32 e.durMs) _ rfl]
    simp only [Option.bind_some]
    rw [takeN_append 4 (le32 e.lastMs) _ rfl]
    simp only [Option.bind_some]
    rw [takeN_append 4 (le32 e.sounds.length) _ rfl]
    simp only [Option.bind_some]
    rw [unle32_le32 _ hc, summary_flatten, ← hlen, readU32s_flatten _ hidx]
    simp only [Option.bind_some]
    rw [mapOpt_pool pool _ hm]
    simp [unle32_le32 _ hd, unle32_le32 _ hl]

theorem rowBytes_length (e : Entry) (d s : Nat) : (rowBytes e d s).length = 16 := by
  simp [rowBytes, List.length_append, le32_length]

theorem parseEntry_row (F : Bytes) (hF : F.length < 4294967296) (version : Nat)
    (hv : version = 2 ∨ version = 3) (pool : List Bytes) (e : Entry) (d s : Nat)
    (hcrc : e.crc < 4294967296) (hd : e.durMs < 4294967296) (hl : e.lastMs < 4294967296)
    (hc : e.sounds.length < 4294967296) (hp : pool.length < 4294967296)
    (hm : ∀ x ∈ e.sounds, x ∈ pool)
    (hdat : At F (stored e) d) (hsum : At F (summaryBytes version pool e) s) :
    parseEntry F version pool (rowBytes e d s) = some (toParsed version e) := by
  have hd32 : d < 4294967296 := by have := hdat.le; omega
  have hs32 : s < 4294967296 := by have := hsum.le; omega
  have hlen32 : (stored e).length < 4294967296 := by have := hdat.le; omega
  obtain ⟨r1, hr1⟩ := hsum.drop
  obtain ⟨r2, hr2⟩ := hdat.drop
  unfold parseEntry rowBytes
  rw [takeN_append 4 (le32 e.crc) _ rfl]
  simp only [Option.bind_some]
  rw [takeN_append 4 (le32 d) _ rfl]
  simp only [Option.bind_some]
  rw [takeN_append 4 (le32 (stored e).length) _ rfl]
  simp only [Option.bind_some]
  have : takeN 4 (le32 s) = some (le32 s, []) := by
    have := takeN_append 4 (le32 s) [] rfl
    simpa using this
  rw [this]
  simp only [Option.bind_some]
  rw [unle32_le32 _ hs32, hr1, parseSummary_summaryBytes version hv pool e r1 hd hl hc hp hm]
  simp only [Option.bind_some]
  rw [unle32_le32 _ hd32, unle32_le32 _ hlen32, unle32_le32 _ hcrc, hr2, List.take_left]
  rfl

theorem parseRows_table (F : Bytes) (hF : F.length < 4294967296) (version : Nat)
    (hv : version = 2 ∨ version = 3) (pool : List Bytes) (hp : pool.length < 4294967296)
    (es : List Entry) (ds ss : List Nat) (rest : Bytes)
    (hok : ∀ e ∈ es, e.crc < 4294967296 ∧ e.durMs < 4294967296 ∧ e.lastMs < 4294967296 ∧
      e.sounds.length < 4294967296 ∧ ∀ x ∈ e.sounds, x ∈ pool)
    (hD : Located F (es.map stored) ds) (hS : Located F (es.map (summaryBytes version pool)) ss) :
    parseRows F version pool es.length ((tableRows es ds ss).flatten ++ rest)
      = some (es.map (toParsed version)) := by
  induction es generalizing ds ss with
  | nil => rfl
  | cons e es ih =>
    cases hD with
    | cons hd hDt =>
      cases hS with
      | cons hs hSt =>
        rename_i d ds' s ss'
        obtain ⟨h1, h2, h3, h4, h5⟩ := hok e (by simp)
        simp only [tableRows, List.flatten_cons, List.append_assoc, List.length_cons, parseRows]
        rw [takeN_append 16 _ _ (rowBytes_length e d s)]
        simp only [Option.bind_some]
        rw [parseEntry_row F hF version hv pool e d s h1 h2 h3 h4 hp h5 hd hs]
        simp only [Option.bind_some]
        rw [ih ds' ss' (fun x hx => hok x (by simp [hx])) hDt hSt]
        rfl

theorem tableRows_length (es : List Entry) (ds ss : List Nat) (h1 : ds.length = es.length)
    (h2 : ss.length = es.length) : (tableRows es ds ss).flatten.length = 16 * es.length := by
  induction es generalizing ds ss with
  | nil => simp [tableRows]
  | cons e es ih =>
    cases ds with
    | nil => simp at h1
    | cons d ds =>
      cases ss with
      | nil => simp at h2
      | cons s ss =>
        simp only [tableRows, List.flatten_cons, List.length_append, rowBytes_length, List.length_cons]
        rw [ih ds ss (by simpa using h1) (by simpa using h2)]
        omega


/-! ## scenes.image: the whole file -/

def imgStrs (es : List Entry) : List Bytes := (buildPool es).map (· ++ [0])
def imgSums (v : Nat) (es : List Entry) : List Bytes := (sortEntries es).map (summaryBytes v (buildPool es))
def imgDatas (es : List Entry) : List Bytes := (sortEntries es).map stored
def imgPoolOff (es : List Entry) : Nat := 20 + 4 * (buildPool es).length
def imgSceneOff (es : List Entry) : Nat := imgPoolOff es + totalLen (imgStrs es)
def imgSumOff (es : List Entry) : Nat := imgSceneOff es + 16 * (sortEntries es).length
def imgDataOff (v : Nat) (es : List Entry) : Nat := imgSumOff es + totalLen (imgSums v es)
def imgHdr (v : Nat) (es : List Entry) : Bytes :=
  imgMagic ++ (le32 v ++ (le32 (sortEntries es).length ++ (le32 (buildPool es).length ++ le32 (imgSceneOff es))))
def imgStrOffs (es : List Entry) : List Nat := offsets (imgPoolOff es) (lens (imgStrs es))
def imgO (es : List Entry) : Bytes := ((imgStrOffs es).map le32).flatten
def imgT (v : Nat) (es : List Entry) : Bytes :=
  (tableRows (sortEntries es) (offsets (imgDataOff v es) (lens (imgDatas es)))
    (offsets (imgSumOff es) (lens (imgSums v es)))).flatten

theorem buildImage_eq (v : Nat) (es : List Entry) :
    buildImage v es = imgHdr v es ++ (imgO es ++ ((imgStrs es).flatten ++ (imgT v es ++
      ((imgSums v es).flatten ++ (imgDatas es).flatten)))) := rfl

theorem imgHdr_length (v : Nat) (es : List Entry) : (imgHdr v es).length = 20 := by
  simp [imgHdr, imgMagic, List.length_append, le32_length]

theorem imgStrOffs_length (es : List Entry) : (imgStrOffs es).length = (buildPool es).length := by
  simp [imgStrOffs, offsets_length, lens, imgStrs]

theorem imgO_length (es : List Entry) : (imgO es).length = 4 * (buildPool es).length := by
  unfold imgO
  rw [length_flatten_le32, imgStrOffs_length]

theorem imgT_length (v : Nat) (es : List Entry) : (imgT v es).length = 16 * (sortEntries es).length := by
  unfold imgT
  apply tableRows_length <;> simp [offsets_length, lens, imgDatas, imgSums]

theorem located_bound {F : Bytes} {bs : List Bytes} {os : List Nat} (h : Located F bs os) :
    ∀ o ∈ os, o ≤ F.length := by
  induction h with
  | nil => intro o ho; cases ho
  | cons hat _ ih =>
    intro o ho
    rcases List.mem_cons.mp ho with rfl | ho
    · have := hat.le; omega
    · exact ih o ho

/-- Representable entries: 32-bit summary fields, NUL-free pool strings. -/
def imgOK (es : List Entry) : Prop :=
  ∀ e ∈ es, e.crc < 4294967296 ∧ e.durMs < 4294967296 ∧ e.lastMs < 4294967296 ∧
    e.sounds.length < 4294967296 ∧ (∀ s ∈ e.sounds, ∀ b ∈ s, b ≠ 0) ∧ (∀ s ∈ e.strs, ∀ b ∈ s, b ≠ 0)

theorem sortEntries_mem (es : List Entry) (e : Entry) : e ∈ sortEntries es ↔ e ∈ es := by
  have := foldl_insert_perm es []
  simp only [List.append_nil] at this
  exact this.mem_iff

theorem sortEntries_length (es : List Entry) : (sortEntries es).length = es.length := by
  have := foldl_insert_perm es []
  simp only [List.append_nil] at this
  exact this.length_eq

theorem parse_build (v : Nat) (hv : v = 2 ∨ v = 3) (es : List Entry) (hok : imgOK es)
    (hF : (buildImage v es).length < 4294967296) :
    parseImage (buildImage v es) = some (v, (sortEntries es).map (toParsed v)) := by
  -- the three located families
  have hFeq := buildImage_eq v es
  generalize buildImage v es = F at hF hFeq ⊢
  have hL1 : Located F (imgStrs es) (imgStrOffs es) := by
    have := located_flatten (imgHdr v es ++ imgO es) (imgT v es ++ ((imgSums v es).flatten ++ (imgDatas es).flatten)) (imgStrs es)
    simp only [List.length_append, imgHdr_length, imgO_length, List.append_assoc] at this
    rw [hFeq]
    exact this
  have hL2 : Located F (imgSums v es) (offsets (imgSumOff es) (lens (imgSums v es))) := by
    have := located_flatten (imgHdr v es ++ (imgO es ++ ((imgStrs es).flatten ++ imgT v es))) ((imgDatas es).flatten) (imgSums v es)
    simp only [List.length_append, imgHdr_length, imgO_length, imgT_length, List.append_assoc] at this
    rw [hFeq]
    have e : 20 + (4 * (buildPool es).length + ((imgStrs es).flatten.length + 16 * (sortEntries es).length)) = imgSumOff es := by
      simp [imgSumOff, imgSceneOff, imgPoolOff, totalLen]; omega
    rw [e] at this
    exact this
  have hL3 : Located F (imgDatas es) (offsets (imgDataOff v es) (lens (imgDatas es))) := by
    have := located_flatten (imgHdr v es ++ (imgO es ++ ((imgStrs es).flatten ++ (imgT v es ++ (imgSums v es).flatten)))) [] (imgDatas es)
    simp only [List.length_append, imgHdr_length, imgO_length, imgT_length, List.append_assoc, List.append_nil] at this
    rw [hFeq]
    have e : 20 + (4 * (buildPool es).length + ((imgStrs es).flatten.length + (16 * (sortEntries es).length + (imgSums v es).flatten.length))) = imgDataOff v es := by
      simp [imgDataOff, imgSumOff, imgSceneOff, imgPoolOff, totalLen]; omega
    rw [e] at this
    exact this
  -- sizes
  have hlenF : F.length = 20 + (4 * (buildPool es).length + ((imgStrs es).flatten.length + (16 * (sortEntries es).length + ((imgSums v es).flatten.length + (imgDatas es).flatten.length)))) := by
    rw [hFeq]; simp only [List.length_append, imgHdr_length, imgO_length, imgT_length]
  have hP : (buildPool es).length < 4294967296 := by omega
  have hn : (sortEntries es).length < 4294967296 := by omega
  have hso : imgSceneOff es < 4294967296 := by
    simp only [imgSceneOff, imgPoolOff, totalLen]; omega
  have hv32 : v < 4294967296 := by rcases hv with rfl | rfl <;> omega
  have hoffs : ∀ o ∈ imgStrOffs es, o < 4294967296 := by
    intro o ho; have := located_bound hL1 o ho; omega
  have hnz : ∀ o ∈ imgStrOffs es, o ≠ 0 := by
    intro o ho
    have := offsets_ge _ _ o ho
    simp only [imgPoolOff] at this
    omega
  have hpoolnul : ∀ s ∈ buildPool es, ∀ b ∈ s, b ≠ 0 := by
    intro s hs
    obtain ⟨e, he, hse⟩ := (mem_buildPool es s).mp hs
    obtain ⟨_, _, _, _, h5, h6⟩ := hok e he
    rcases hse with h | h
    · exact h5 s h
    · exact h6 s h
  have hrows : ∀ e ∈ sortEntries es, e.crc < 4294967296 ∧ e.durMs < 4294967296 ∧
      e.lastMs < 4294967296 ∧ e.sounds.length < 4294967296 ∧ ∀ x ∈ e.sounds, x ∈ buildPool es := by
    intro e he
    have he' := (sortEntries_mem es e).mp he
    obtain ⟨h1, h2, h3, h4, _, _⟩ := hok e he'
    exact ⟨h1, h2, h3, h4, fun x hx => (mem_buildPool es x).mpr ⟨e, he', Or.inl hx⟩⟩
  -- the part of the file after the pool strings
  have hdrop : F.drop (imgSceneOff es) = imgT v es ++ ((imgSums v es).flatten ++ (imgDatas es).flatten) := by
    have hpre : (imgHdr v es ++ (imgO es ++ (imgStrs es).flatten)).length = imgSceneOff es := by
      simp only [List.length_append, imgHdr_length, imgO_length, imgSceneOff, imgPoolOff, totalLen]; omega
    rw [hFeq, ← hpre]
    have : imgHdr v es ++ (imgO es ++ ((imgStrs es).flatten ++ (imgT v es ++ ((imgSums v es).flatten ++ (imgDatas es).flatten))))
        = (imgHdr v es ++ (imgO es ++ (imgStrs es).flatten)) ++ (imgT v es ++ ((imgSums v es).flatten ++ (imgDatas es).flatten)) := by
      simp only [List.append_assoc]
    rw [this, List.drop_left]
  -- now read
  unfold parseImage
  have hstart : F = imgMagic ++ (le32 v ++ (le32 (sortEntries es).length ++ (le32 (buildPool es).length ++
      (le32 (imgSceneOff es) ++ (imgO es ++ ((imgStrs es).flatten ++ (imgT v es ++ ((imgSums v es).flatten ++ (imgDatas es).flatten)))))))) := by
    rw [hFeq]; simp only [imgHdr, List.append_assoc]
  rw [show takeN 4 F = some (imgMagic, _) from by rw [hstart]; exact takeN_append 4 imgMagic _ rfl]
  simp only [Option.bind_some, bne_self_eq_false, Bool.false_eq_true, if_false]
  rw [takeN_append 4 (le32 v) _ rfl]
  simp only [Option.bind_some]
  have hvv : (unle32 (le32 v) != 2 && unle32 (le32 v) != 3) = false := by
    rw [unle32_le32 v hv32]; rcases hv with rfl | rfl <;> rfl
  simp only [hvv, Bool.false_eq_true, if_false]
  rw [takeN_append 4 (le32 (sortEntries es).length) _ rfl]
  simp only [Option.bind_some]
  rw [takeN_append 4 (le32 (buildPool es).length) _ rfl]
  simp only [Option.bind_some]
  rw [takeN_append 4 (le32 (imgSceneOff es)) _ rfl]
  simp only [Option.bind_some]
  rw [unle32_le32 _ hP, ← imgStrOffs_length es]
  unfold imgO
  rw [readU32s_flatten _ hoffs]
  simp only [Option.bind_some]
  rw [mapOpt_readNullStr (buildPool es) (imgStrOffs es) hL1 hpoolnul hnz]
  simp only [Option.bind_some]
  rw [unle32_le32 _ hv32, unle32_le32 _ hn, unle32_le32 _ hso, hdrop]
  unfold imgT
  have := parseRows_table F hF v hv (buildPool es) hP (sortEntries es) _ _
    ((imgSums v es).flatten ++ (imgDatas es).flatten) hrows hL3 hL2
  rw [this]
  rfl

end C20
