import Srctools.Model.C20Snd
/-! Helper lemmas for the soundscript model: the reader on the tree the writer denotes. -/
set_option linter.unusedSimpArgs false
namespace C20.Snd
open C01 (KV)

@[simp] theorem kChannel_ne_kSoundlevel : (kChannel == kSoundlevel) = false := by decide
@[simp] theorem kChannel_ne_kVolume : (kChannel == kVolume) = false := by decide
@[simp] theorem kChannel_ne_kPitch : (kChannel == kPitch) = false := by decide
@[simp] theorem kChannel_ne_kRndwave : (kChannel == kRndwave) = false := by decide
@[simp] theorem kChannel_ne_kWave : (kChannel == kWave) = false := by decide
@[simp] theorem kChannel_ne_kVersion : (kChannel == kVersion) = false := by decide
@[simp] theorem kChannel_ne_kStacks : (kChannel == kStacks) = false := by decide
@[simp] theorem kChannel_ne_kStart : (kChannel == kStart) = false := by decide
@[simp] theorem kChannel_ne_kUpdate : (kChannel == kUpdate) = false := by decide
@[simp] theorem kChannel_ne_kStop : (kChannel == kStop) = false := by decide
@[simp] theorem kChannel_ne_kAttenuation : (kChannel == kAttenuation) = false := by decide
@[simp] theorem kSoundlevel_ne_kChannel : (kSoundlevel == kChannel) = false := by decide
@[simp] theorem kSoundlevel_ne_kVolume : (kSoundlevel == kVolume) = false := by decide
@[simp] theorem kSoundlevel_ne_kPitch : (kSoundlevel == kPitch) = false := by decide
@[simp] theorem kSoundlevel_ne_kRndwave : (kSoundlevel == kRndwave) = false := by decide
@[simp] theorem kSoundlevel_ne_kWave : (kSoundlevel == kWave) = false := by decide
@[simp] theorem kSoundlevel_ne_kVersion : (kSoundlevel == kVersion) = false := by decide
@[simp] theorem kSoundlevel_ne_kStacks : (kSoundlevel == kStacks) = false := by decide
@[simp] theorem kSoundlevel_ne_kStart : (kSoundlevel == kStart) = false := by decide
@[simp] theorem kSoundlevel_ne_kUpdate : (kSoundlevel == kUpdate) = false := by decide
@[simp] theorem kSoundlevel_ne_kStop : (kSoundlevel == kStop) = false := by decide
@[simp] theorem kSoundlevel_ne_kAttenuation : (kSoundlevel == kAttenuation) = false := by decide
@[simp] theorem kVolume_ne_kChannel : (kVolume == kChannel) = false := by decide
@[simp] theorem kVolume_ne_kSoundlevel : (kVolume == kSoundlevel) = false := by decide
@[simp] theorem kVolume_ne_kPitch : (kVolume == kPitch) = false := by decide
@[simp] theorem kVolume_ne_kRndwave : (kVolume == kRndwave) = false := by decide
@[simp] theorem kVolume_ne_kWave : (kVolume == kWave) = false := by decide
@[simp] theorem kVolume_ne_kVersion : (kVolume == kVersion) = false := by decide
@[simp] theorem kVolume_ne_kStacks : (kVolume == kStacks) = false := by decide
@[simp] theorem kVolume_ne_kStart : (kVolume == kStart) = false := by decide
@[simp] theorem kVolume_ne_kUpdate : (kVolume == kUpdate) = false := by decide
@[simp] theorem kVolume_ne_kStop : (kVolume == kStop) = false := by decide
@[simp] theorem kVolume_ne_kAttenuation : (kVolume == kAttenuation) = false := by decide
@[simp] theorem kPitch_ne_kChannel : (kPitch == kChannel) = false := by decide
@[simp] theorem kPitch_ne_kSoundlevel : (kPitch == kSoundlevel) = false := by decide
@[simp] theorem kPitch_ne_kVolume : (kPitch == kVolume) = false := by decide
@[simp] theorem kPitch_ne_kRndwave : (kPitch == kRndwave) = false := by decide
@[simp] theorem kPitch_ne_kWave : (kPitch == kWave) = false := by decide
@[simp] theorem kPitch_ne_kVersion : (kPitch == kVersion) = false := by decide
@[simp] theorem kPitch_ne_kStacks : (kPitch == kStacks) = false := by decide
@[simp] theorem kPitch_ne_kStart : (kPitch == kStart) = false := by decide
@[simp] theorem kPitch_ne_kUpdate : (kPitch == kUpdate) = false := by decide
@[simp] theorem kPitch_ne_kStop : (kPitch == kStop) = false := by decide
@[simp] theorem kPitch_ne_kAttenuation : (kPitch == kAttenuation) = false := by decide
@[simp] theorem kRndwave_ne_kChannel : (kRndwave == kChannel) = false := by decide
@[simp] theorem kRndwave_ne_kSoundlevel : (kRndwave == kSoundlevel) = false := by decide
@[simp] theorem kRndwave_ne_kVolume : (kRndwave == kVolume) = false := by decide
@[simp] theorem kRndwave_ne_kPitch : (kRndwave == kPitch) = false := by decide
@[simp] theorem kRndwave_ne_kWave : (kRndwave == kWave) = false := by decide
@[simp] theorem kRndwave_ne_kVersion : (kRndwave == kVersion) = false := by decide
@[simp] theorem kRndwave_ne_kStacks : (kRndwave == kStacks) = false := by decide
@[simp] theorem kRndwave_ne_kStart : (kRndwave == kStart) = false := by decide
@[simp] theorem kRndwave_ne_kUpdate : (kRndwave == kUpdate) = false := by decide
@[simp] theorem kRndwave_ne_kStop : (kRndwave == kStop) = false := by decide
@[simp] theorem kRndwave_ne_kAttenuation : (kRndwave == kAttenuation) = false := by decide
@[simp] theorem kWave_ne_kChannel : (kWave == kChannel) = false := by decide
@[simp] theorem kWave_ne_kSoundlevel : (kWave == kSoundlevel) = false := by decide
@[simp] theorem kWave_ne_kVolume : (kWave == kVolume) = false := by decide
@[simp] theorem kWave_ne_kPitch : (kWave == kPitch) = false := by decide
@[simp] theorem kWave_ne_kRndwave : (kWave == kRndwave) = false := by decide
@[simp] theorem kWave_ne_kVersion : (kWave == kVersion) = false := by decide
@[simp] theorem kWave_ne_kStacks : (kWave == kStacks) = false := by decide
@[simp] theorem kWave_ne_kStart : (kWave == kStart) = false := by decide
@[simp] theorem kWave_ne_kUpdate : (kWave == kUpdate) = false := by decide
@[simp] theorem kWave_ne_kStop : (kWave == kStop) = false := by decide
@[simp] theorem kWave_ne_kAttenuation : (kWave == kAttenuation) = false := by decide
@[simp] theorem kVersion_ne_kChannel : (kVersion == kChannel) = false := by decide
@[simp] theorem kVersion_ne_kSoundlevel : (kVersion == kSoundlevel) = false := by decide
@[simp] theorem kVersion_ne_kVolume : (kVersion == kVolume) = false := by decide
@[simp] theorem kVersion_ne_kPitch : (kVersion == kPitch) = false := by decide
@[simp] theorem kVersion_ne_kRndwave : (kVersion == kRndwave) = false := by decide
@[simp] theorem kVersion_ne_kWave : (kVersion == kWave) = false := by decide
@[simp] theorem kVersion_ne_kStacks : (kVersion == kStacks) = false := by decide
@[simp] theorem kVersion_ne_kStart : (kVersion == kStart) = false := by decide
@[simp] theorem kVersion_ne_kUpdate : (kVersion == kUpdate) = false := by decide
@[simp] theorem kVersion_ne_kStop : (kVersion == kStop) = false := by decide
@[simp] theorem kVersion_ne_kAttenuation : (kVersion == kAttenuation) = false := by decide
@[simp] theorem kStacks_ne_kChannel : (kStacks == kChannel) = false := by decide
@[simp] theorem kStacks_ne_kSoundlevel : (kStacks == kSoundlevel) = false := by decide
@[simp] theorem kStacks_ne_kVolume : (kStacks == kVolume) = false := by decide
@[simp] theorem kStacks_ne_kPitch : (kStacks == kPitch) = false := by decide
@[simp] theorem kStacks_ne_kRndwave : (kStacks == kRndwave) = false := by decide
@[simp] theorem kStacks_ne_kWave : (kStacks == kWave) = false := by decide
@[simp] theorem kStacks_ne_kVersion : (kStacks == kVersion) = false := by decide
@[simp] theorem kStacks_ne_kStart : (kStacks == kStart) = false := by decide
@[simp] theorem kStacks_ne_kUpdate : (kStacks == kUpdate) = false := by decide
@[simp] theorem kStacks_ne_kStop : (kStacks == kStop) = false := by decide
@[simp] theorem kStacks_ne_kAttenuation : (kStacks == kAttenuation) = false := by decide
@[simp] theorem kStart_ne_kChannel : (kStart == kChannel) = false := by decide
@[simp] theorem kStart_ne_kSoundlevel : (kStart == kSoundlevel) = false := by decide
@[simp] theorem kStart_ne_kVolume : (kStart == kVolume) = false := by decide
@[simp] theorem kStart_ne_kPitch : (kStart == kPitch) = false := by decide
@[simp] theorem kStart_ne_kRndwave : (kStart == kRndwave) = false := by decide
@[simp] theorem kStart_ne_kWave : (kStart == kWave) = false := by decide
@[simp] theorem kStart_ne_kVersion : (kStart == kVersion) = false := by decide
@[simp] theorem kStart_ne_kStacks : (kStart == kStacks) = false := by decide
@[simp] theorem kStart_ne_kUpdate : (kStart == kUpdate) = false := by decide
@[simp] theorem kStart_ne_kStop : (kStart == kStop) = false := by decide
@[simp] theorem kStart_ne_kAttenuation : (kStart == kAttenuation) = false := by decide
@[simp] theorem kUpdate_ne_kChannel : (kUpdate == kChannel) = false := by decide
@[simp] theorem kUpdate_ne_kSoundlevel : (kUpdate == kSoundlevel) = false := by decide
@[simp] theorem kUpdate_ne_kVolume : (kUpdate == kVolume) = false := by decide
@[simp] theorem kUpdate_ne_kPitch : (kUpdate == kPitch) = false := by decide
@[simp] theorem kUpdate_ne_kRndwave : (kUpdate == kRndwave) = false := by decide
@[simp] theorem kUpdate_ne_kWave : (kUpdate == kWave) = false := by decide
@[simp] theorem kUpdate_ne_kVersion : (kUpdate == kVersion) = false := by decide
@[simp] theorem kUpdate_ne_kStacks : (kUpdate == kStacks) = false := by decide
@[simp] theorem kUpdate_ne_kStart : (kUpdate == kStart) = false := by decide
@[simp] theorem kUpdate_ne_kStop : (kUpdate == kStop) = false := by decide
@[simp] theorem kUpdate_ne_kAttenuation : (kUpdate == kAttenuation) = false := by decide
@[simp] theorem kStop_ne_kChannel : (kStop == kChannel) = false := by decide
@[simp] theorem kStop_ne_kSoundlevel : (kStop == kSoundlevel) = false := by decide
@[simp] theorem kStop_ne_kVolume : (kStop == kVolume) = false := by decide
@[simp] theorem kStop_ne_kPitch : (kStop == kPitch) = false := by decide
@[simp] theorem kStop_ne_kRndwave : (kStop == kRndwave) = false := by decide
@[simp] theorem kStop_ne_kWave : (kStop == kWave) = false := by decide
@[simp] theorem kStop_ne_kVersion : (kStop == kVersion) = false := by decide
@[simp] theorem kStop_ne_kStacks : (kStop == kStacks) = false := by decide
@[simp] theorem kStop_ne_kStart : (kStop == kStart) = false := by decide
@[simp] theorem kStop_ne_kUpdate : (kStop == kUpdate) = false := by decide
@[simp] theorem kStop_ne_kAttenuation : (kStop == kAttenuation) = false := by decide
@[simp] theorem kAttenuation_ne_kChannel : (kAttenuation == kChannel) = false := by decide
@[simp] theorem kAttenuation_ne_kSoundlevel : (kAttenuation == kSoundlevel) = false := by decide
@[simp] theorem kAttenuation_ne_kVolume : (kAttenuation == kVolume) = false := by decide
@[simp] theorem kAttenuation_ne_kPitch : (kAttenuation == kPitch) = false := by decide
@[simp] theorem kAttenuation_ne_kRndwave : (kAttenuation == kRndwave) = false := by decide
@[simp] theorem kAttenuation_ne_kWave : (kAttenuation == kWave) = false := by decide
@[simp] theorem kAttenuation_ne_kVersion : (kAttenuation == kVersion) = false := by decide
@[simp] theorem kAttenuation_ne_kStacks : (kAttenuation == kStacks) = false := by decide
@[simp] theorem kAttenuation_ne_kStart : (kAttenuation == kStart) = false := by decide
@[simp] theorem kAttenuation_ne_kUpdate : (kAttenuation == kUpdate) = false := by decide
@[simp] theorem kAttenuation_ne_kStop : (kAttenuation == kStop) = false := by decide

@[simp] theorem kChannel_neq_kSoundlevel : (kChannel = kSoundlevel) = False := by simp; decide
@[simp] theorem kChannel_neq_kVolume : (kChannel = kVolume) = False := by simp; decide
@[simp] theorem kChannel_neq_kPitch : (kChannel = kPitch) = False := by simp; decide
@[simp] theorem kChannel_neq_kRndwave : (kChannel = kRndwave) = False := by simp; decide
@[simp] theorem kChannel_neq_kWave : (kChannel = kWave) = False := by simp; decide
@[simp] theorem kChannel_neq_kVersion : (kChannel = kVersion) = False := by simp; decide
@[simp] theorem kChannel_neq_kStacks : (kChannel = kStacks) = False := by simp; decide
@[simp] theorem kChannel_neq_kStart : (kChannel = kStart) = False := by simp; decide
@[simp] theorem kChannel_neq_kUpdate : (kChannel = kUpdate) = False := by simp; decide
@[simp] theorem kChannel_neq_kStop : (kChannel = kStop) = False := by simp; decide
@[simp] theorem kChannel_neq_kAttenuation : (kChannel = kAttenuation) = False := by simp; decide
@[simp] theorem kSoundlevel_neq_kChannel : (kSoundlevel = kChannel) = False := by simp; decide
@[simp] theorem kSoundlevel_neq_kVolume : (kSoundlevel = kVolume) = False := by simp; decide
@[simp] theorem kSoundlevel_neq_kPitch : (kSoundlevel = kPitch) = False := by simp; decide
@[simp] theorem kSoundlevel_neq_kRndwave : (kSoundlevel = kRndwave) = False := by simp; decide
@[simp] theorem kSoundlevel_neq_kWave : (kSoundlevel = kWave) = False := by simp; decide
@[simp] theorem kSoundlevel_neq_kVersion : (kSoundlevel = kVersion) = False := by simp; decide
@[simp] theorem kSoundlevel_neq_kStacks : (kSoundlevel = kStacks) = False := by simp; decide
@[simp] theorem kSoundlevel_neq_kStart : (kSoundlevel = kStart) = False := by simp; decide
@[simp] theorem kSoundlevel_neq_kUpdate : (kSoundlevel = kUpdate) = False := by simp; decide
@[simp] theorem kSoundlevel_neq_kStop : (kSoundlevel = kStop) = False := by simp; decide
@[simp] theorem kSoundlevel_neq_kAttenuation : (kSoundlevel = kAttenuation) = False := by simp; decide
@[simp] theorem kVolume_neq_kChannel : (kVolume = kChannel) = False := by simp; decide
@[simp] theorem kVolume_neq_kSoundlevel : (kVolume = kSoundlevel) = False := by simp; decide
@[simp] theorem kVolume_neq_kPitch : (kVolume = kPitch) = False := by simp; decide
@[simp] theorem kVolume_neq_kRndwave : (kVolume = kRndwave) = False := by simp; decide
@[simp] theorem kVolume_neq_kWave : (kVolume = kWave) = False := by simp; decide
@[simp] theorem kVolume_neq_kVersion : (kVolume = kVersion) = False := by simp; decide
@[simp] theorem kVolume_neq_kStacks : (kVolume = kStacks) = False := by simp; decide
@[simp] theorem kVolume_neq_kStart : (kVolume = kStart) = False := by simp; decide
@[simp] theorem kVolume_neq_kUpdate : (kVolume = kUpdate) = False := by simp; decide
@[simp] theorem kVolume_neq_kStop : (kVolume = kStop) = False := by simp; decide
@[simp] theorem kVolume_neq_kAttenuation : (kVolume = kAttenuation) = False := by simp; decide
@[simp] theorem kPitch_neq_kChannel : (kPitch = kChannel) = False := by simp; decide
@[simp] theorem kPitch_neq_kSoundlevel : (kPitch = kSoundlevel) = False := by simp; decide
@[simp] theorem kPitch_neq_kVolume : (kPitch = kVolume) = False := by simp; decide
@[simp] theorem kPitch_neq_kRndwave : (kPitch = kRndwave) = False := by simp; decide
@[simp] theorem kPitch_neq_kWave : (kPitch = kWave) = False := by simp; decide
@[simp] theorem kPitch_neq_kVersion : (kPitch = kVersion) = False := by simp; decide
@[simp] theorem kPitch_neq_kStacks : (kPitch = kStacks) = False := by simp; decide
@[simp] theorem kPitch_neq_kStart : (kPitch = kStart) = False := by simp; decide
@[simp] theorem kPitch_neq_kUpdate : (kPitch = kUpdate) = False := by simp; decide
@[simp] theorem kPitch_neq_kStop : (kPitch = kStop) = False := by simp; decide
@[simp] theorem kPitch_neq_kAttenuation : (kPitch = kAttenuation) = False := by simp; decide
@[simp] theorem kRndwave_neq_kChannel : (kRndwave = kChannel) = False := by simp; decide
@[simp] theorem kRndwave_neq_kSoundlevel : (kRndwave = kSoundlevel) = False := by simp; decide
@[simp] theorem kRndwave_neq_kVolume : (kRndwave = kVolume) = False := by simp; decide
@[simp] theorem kRndwave_neq_kPitch : (kRndwave = kPitch) = False := by simp; decide
@[simp] theorem kRndwave_neq_kWave : (kRndwave = kWave) = False := by simp; decide
@[simp] theorem kRndwave_neq_kVersion : (kRndwave = kVersion) = False := by simp; decide
@[simp] theorem kRndwave_neq_kStacks : (kRndwave = kStacks) = False := by simp; decide
@[simp] theorem kRndwave_neq_kStart : (kRndwave = kStart) = False := by simp; decide
@[simp] theorem kRndwave_neq_kUpdate : (kRndwave = kUpdate) = False := by simp; decide
@[simp] theorem kRndwave_neq_kStop : (kRndwave = kStop) = False := by simp; decide
@[simp] theorem kRndwave_neq_kAttenuation : (kRndwave = kAttenuation) = False := by simp; decide
@[simp] theorem kWave_neq_kChannel : (kWave = kChannel) = False := by simp; decide
@[simp] theorem kWave_neq_kSoundlevel : (kWave = kSoundlevel) = False := by simp; decide
@[simp] theorem kWave_neq_kVolume : (kWave = kVolume) = False := by simp; decide
@[simp] theorem kWave_neq_kPitch : (kWave = kPitch) = False := by simp; decide
@[simp] theorem kWave_neq_kRndwave : (kWave = kRndwave) = False := by simp; decide
@[simp] theorem kWave_neq_kVersion : (kWave = kVersion) = False := by simp; decide
@[simp] theorem kWave_neq_kStacks : (kWave = kStacks) = False := by simp; decide
@[simp] theorem kWave_neq_kStart : (kWave = kStart) = False := by simp; decide
@[simp] theorem kWave_neq_kUpdate : (kWave = kUpdate) = False := by simp; decide
@[simp] theorem kWave_neq_kStop : (kWave = kStop) = False := by simp; decide
@[simp] theorem kWave_neq_kAttenuation : (kWave = kAttenuation) = False := by simp; decide
@[simp] theorem kVersion_neq_kChannel : (kVersion = kChannel) = False := by simp; decide
@[simp] theorem kVersion_neq_kSoundlevel : (kVersion = kSoundlevel) = False := by simp; decide
@[simp] theorem kVersion_neq_kVolume : (kVersion = kVolume) = False := by simp; decide
@[simp] theorem kVersion_neq_kPitch : (kVersion = kPitch) = False := by simp; decide
@[simp] theorem kVersion_neq_kRndwave : (kVersion = kRndwave) = False := by simp; decide
@[simp] theorem kVersion_neq_kWave : (kVersion = kWave) = False := by simp; decide
@[simp] theorem kVersion_neq_kStacks : (kVersion = kStacks) = False := by simp; decide
@[simp] theorem kVersion_neq_kStart : (kVersion = kStart) = False := by simp; decide
@[simp] theorem kVersion_neq_kUpdate : (kVersion = kUpdate) = False := by simp; decide
@[simp] theorem kVersion_neq_kStop : (kVersion = kStop) = False := by simp; decide
@[simp] theorem kVersion_neq_kAttenuation : (kVersion = kAttenuation) = False := by simp; decide
@[simp] theorem kStacks_neq_kChannel : (kStacks = kChannel) = False := by simp; decide
@[simp] theorem kStacks_neq_kSoundlevel : (kStacks = kSoundlevel) = False := by simp; decide
@[simp] theorem kStacks_neq_kVolume : (kStacks = kVolume) = False := by simp; decide
@[simp] theorem kStacks_neq_kPitch : (kStacks = kPitch) = False := by simp; decide
@[simp] theorem kStacks_neq_kRndwave : (kStacks = kRndwave) = False := by simp; decide
@[simp] theorem kStacks_neq_kWave : (kStacks = kWave) = False := by simp; decide
@[simp] theorem kStacks_neq_kVersion : (kStacks = kVersion) = False := by simp; decide
@[simp] theorem kStacks_neq_kStart : (kStacks = kStart) = False := by simp; decide
@[simp] theorem kStacks_neq_kUpdate : (kStacks = kUpdate) = False := by simp; decide
@[simp] theorem kStacks_neq_kStop : (kStacks = kStop) = False := by simp; decide
@[simp] theorem kStacks_neq_kAttenuation : (kStacks = kAttenuation) = False := by simp; decide
@[simp] theorem kStart_neq_kChannel : (kStart = kChannel) = False := by simp; decide
@[simp] theorem kStart_neq_kSoundlevel : (kStart = kSoundlevel) = False := by simp; decide
@[simp] theorem kStart_neq_kVolume : (kStart = kVolume) = False := by simp; decide
@[simp] theorem kStart_neq_kPitch : (kStart = kPitch) = False := by simp; decide
@[simp] theorem kStart_neq_kRndwave : (kStart = kRndwave) = False := by simp; decide
@[simp] theorem kStart_neq_kWave : (kStart = kWave) = False := by simp; decide
@[simp] theorem kStart_neq_kVersion : (kStart = kVersion) = False := by simp; decide
@[simp] theorem kStart_neq_kStacks : (kStart = kStacks) = False := by simp; decide
@[simp] theorem kStart_neq_kUpdate : (kStart = kUpdate) = False := by simp; decide
@[simp] theorem kStart_neq_kStop : (kStart = kStop) = False := by simp; decide
@[simp] theorem kStart_neq_kAttenuation : (kStart = kAttenuation) = False := by simp; decide
@[simp] theorem kUpdate_neq_kChannel : (kUpdate = kChannel) = False := by simp; decide
@[simp] theorem kUpdate_neq_kSoundlevel : (kUpdate = kSoundlevel) = False := by simp; decide
@[simp] theorem kUpdate_neq_kVolume : (kUpdate = kVolume) = False := by simp; decide
@[simp] theorem kUpdate_neq_kPitch : (kUpdate = kPitch) = False := by simp; decide
@[simp] theorem kUpdate_neq_kRndwave : (kUpdate = kRndwave) = False := by simp; decide
@[simp] theorem kUpdate_neq_kWave : (kUpdate = kWave) = False := by simp; decide
@[simp] theorem kUpdate_neq_kVersion : (kUpdate = kVersion) = False := by simp; decide
@[simp] theorem kUpdate_neq_kStacks : (kUpdate = kStacks) = False := by simp; decide
@[simp] theorem kUpdate_neq_kStart : (kUpdate = kStart) = False := by simp; decide
@[simp] theorem kUpdate_neq_kStop : (kUpdate = kStop) = False := by simp; decide
@[simp] theorem kUpdate_neq_kAttenuation : (kUpdate = kAttenuation) = False := by simp; decide
@[simp] theorem kStop_neq_kChannel : (kStop = kChannel) = False := by simp; decide
@[simp] theorem kStop_neq_kSoundlevel : (kStop = kSoundlevel) = False := by simp; decide
@[simp] theorem kStop_neq_kVolume : (kStop = kVolume) = False := by simp; decide
@[simp] theorem kStop_neq_kPitch : (kStop = kPitch) = False := by simp; decide
@[simp] theorem kStop_neq_kRndwave : (kStop = kRndwave) = False := by simp; decide
@[simp] theorem kStop_neq_kWave : (kStop = kWave) = False := by simp; decide
@[simp] theorem kStop_neq_kVersion : (kStop = kVersion) = False := by simp; decide
@[simp] theorem kStop_neq_kStacks : (kStop = kStacks) = False := by simp; decide
@[simp] theorem kStop_neq_kStart : (kStop = kStart) = False := by simp; decide
@[simp] theorem kStop_neq_kUpdate : (kStop = kUpdate) = False := by simp; decide
@[simp] theorem kStop_neq_kAttenuation : (kStop = kAttenuation) = False := by simp; decide
@[simp] theorem kAttenuation_neq_kChannel : (kAttenuation = kChannel) = False := by simp; decide
@[simp] theorem kAttenuation_neq_kSoundlevel : (kAttenuation = kSoundlevel) = False := by simp; decide
@[simp] theorem kAttenuation_neq_kVolume : (kAttenuation = kVolume) = False := by simp; decide
@[simp] theorem kAttenuation_neq_kPitch : (kAttenuation = kPitch) = False := by simp; decide
@[simp] theorem kAttenuation_neq_kRndwave : (kAttenuation = kRndwave) = False := by simp; decide
@[simp] theorem kAttenuation_neq_kWave : (kAttenuation = kWave) = False := by simp; decide
@[simp] theorem kAttenuation_neq_kVersion : (kAttenuation = kVersion) = False := by simp; decide
@[simp] theorem kAttenuation_neq_kStacks : (kAttenuation = kStacks) = False := by simp; decide
@[simp] theorem kAttenuation_neq_kStart : (kAttenuation = kStart) = False := by simp; decide
@[simp] theorem kAttenuation_neq_kUpdate : (kAttenuation = kUpdate) = False := by simp; decide
@[simp] theorem kAttenuation_neq_kStop : (kAttenuation = kStop) = False := by simp; decide

/-- the reader's environment folds the keywords to themselves (they are lower-case ASCII). -/
def envOK (E : Env) : Prop :=
  ∀ k ∈ [kChannel, kSoundlevel, kVolume, kPitch, kRndwave, kWave, kVersion, kStacks, kStart, kUpdate, kStop],
    foldStr E k = k

theorem nameIs_leaf {E : Env} {k' : List Char} (h : foldStr E k' = k') (k v : List Char) :
    nameIs E k (KV.leaf k' v) = (k' == k) := by simp [nameIs, kvName, h]

theorem nameIs_block {E : Env} {k' : List Char} (h : foldStr E k' = k') (k : List Char) (cs : List KV) :
    nameIs E k (KV.block k' cs) = (k' == k) := by simp [nameIs, kvName, h]

/-! ## erasing the annotations -/

theorem eraseList_append (a b : List AKV) : eraseList (a ++ b) = eraseList a ++ eraseList b := by
  induction a with
  | nil => rfl
  | cons x xs ih => simp [eraseList, ih]

theorem eraseList_plain (cs : List KV) : eraseList (cs.map AKV.plain) = cs := by
  induction cs with
  | nil => rfl
  | cons x xs ih => simp [eraseList, erase, ih]

theorem eraseList_waves (ws : List (List Char)) :
    eraseList (ws.map fun w => AKV.leaf Q.bare kWave Q.esc w) = ws.map (KV.leaf kWave) := by
  induction ws with
  | nil => rfl
  | cons x xs ih => simp [eraseList, erase, ih]

theorem rndChildren_leaves (ws : List (List Char)) : rndChildren (ws.map (KV.leaf kWave)) = Except.ok ws := by
  induction ws with
  | nil => rfl
  | cons x xs ih => simp [rndChildren, ih, Except.map]

/-! ## ranges -/

theorem splitComma_nocomma (b : List Char) (h : ',' ∉ b) : splitComma b = [b] := by
  induction b with
  | nil => rfl
  | cons c cs ih =>
    have hc : c ≠ ',' := fun e => h (by simp [e])
    have := ih (fun e => h (by simp [e]))
    unfold splitComma at this ⊢
    simp only [List.foldr_cons, this, hc, if_false]

theorem splitComma_pair (a b : List Char) (ha : ',' ∉ a) (hb : ',' ∉ b) :
    splitComma (a ++ ',' :: b) = [a, b] := by
  induction a with
  | nil =>
    have := splitComma_nocomma b hb
    unfold splitComma at this ⊢
    simp [this]
  | cons c cs ih =>
    have hc : c ≠ ',' := fun e => ha (by simp [e])
    have := ih (fun e => ha (by simp [e]))
    unfold splitComma at this ⊢
    simp only [List.cons_append, List.foldr_cons, this, hc, if_false]

/-- The reader's single-value function inverts the writer's text of this value, also after the
blank that follows the comma of a range; the text has no comma. -/
def valOK (E : Env) (tbl : List (List Char × List Char)) (d : Val) (v : Val) : Prop :=
  parseVal E tbl d v.txt = v ∧ parseVal E tbl d (' ' :: v.txt) = v ∧ ',' ∉ v.txt

theorem splitFloat_join (E : Env) (tbl : List (List Char × List Char)) (d : Val) (p : Pair)
    (hlo : valOK E tbl d p.lo) (hhi : valOK E tbl d p.hi) :
    splitFloat E tbl d (join p) = Except.ok (normPair p) := by
  unfold splitFloat join normPair
  cases hs : p.same with
  | true =>
    have hn := hlo.2.2
    simp [hn, hlo.1]
  | false =>
    have hsp := splitComma_pair p.lo.txt (' ' :: p.hi.txt) hlo.2.2
      (by intro h; rcases List.mem_cons.mp h with h | h; exact absurd h (by decide); exact hhi.2.2 h)
    simp [hsp, hlo.1, hhi.2.1]


/-! ## operator stacks -/

def stacksKV (s : SoundIn) : List KV :=
  (if s.start.isEmpty then [] else [KV.block kStart s.start]) ++
  (if s.update.isEmpty then [] else [KV.block kUpdate s.update]) ++
  (if s.stop.isEmpty then [] else [KV.block kStop s.stop])

theorem eraseList_stacks (s : SoundIn) :
    eraseList (stackA kStart s.start ++ stackA kUpdate s.update ++ stackA kStop s.stop) = stacksKV s := by
  unfold stackA stacksKV
  cases h1 : s.start.isEmpty <;> cases h2 : s.update.isEmpty <;> cases h3 : s.stop.isEmpty <;>
    simp [eraseList, erase, eraseList_plain]

theorem stackKids_stacks (E : Env) (hE : envOK E) (s : SoundIn) :
    stackKids E kStart (stacksKV s) = Except.ok s.start ∧
    stackKids E kUpdate (stacksKV s) = Except.ok s.update ∧
    stackKids E kStop (stacksKV s) = Except.ok s.stop := by
  have f1 := hE kStart (by simp)
  have f2 := hE kUpdate (by simp)
  have f3 := hE kStop (by simp)
  unfold stacksKV
  cases h1 : s.start.isEmpty <;> cases h2 : s.update.isEmpty <;> cases h3 : s.stop.isEmpty <;>
    simp [stackKids, f1, f2, f3, Except.map, List.isEmpty_iff.mp, *] <;>
    simp_all [List.isEmpty_iff]


/-! ## the whole sound -/

/-- What the theorem asks of a sound: the reader's single-value functions invert the writer's
texts of its six range ends and of its channel (a statement about the tables `E`, decided per
sound), and the keywords fold to themselves. -/
structure SndOK (E : Env) (s : SoundIn) : Prop where
  env : envOK E
  volLo : valOK E E.volumes volDefault s.volume.lo
  volHi : valOK E E.volumes volDefault s.volume.hi
  pitLo : valOK E E.pitches pitchDefault s.pitch.lo
  pitHi : valOK E E.pitches pitchDefault s.pitch.hi
  lvlLo : valOK E E.levels levelDefault s.level.lo
  lvlHi : valOK E E.levels levelDefault s.level.hi
  chan : parseChanTxt E s.channel.txt = Except.ok s.channel

def wavesKV (s : SoundIn) : List KV :=
  match s.waves with
  | [w] => [KV.leaf kWave w]
  | ws => [KV.block kRndwave (ws.map (KV.leaf kWave))]

def v2KV (s : SoundIn) : List KV :=
  if isV2 s then [KV.leaf kVersion two, KV.block kStacks (stacksKV s)] else []

def childrenKV (s : SoundIn) : List KV :=
  [KV.leaf kChannel s.channel.txt, KV.leaf kSoundlevel (join s.level)] ++
  (if s.volDefault then [] else [KV.leaf kVolume (join s.volume)]) ++
  (if s.pitchDefault then [] else [KV.leaf kPitch (join s.pitch)]) ++
  wavesKV s ++ v2KV s

theorem eraseList_wavesA (s : SoundIn) : eraseList (wavesA s) = wavesKV s := by
  unfold wavesA wavesKV
  cases hw : s.waves with
  | nil => simp [eraseList, erase]
  | cons w ws =>
    cases ws with
    | nil => simp [eraseList, erase]
    | cons w2 ws2 => simp [eraseList, erase, eraseList_waves]

theorem exportSndKV_eq (s : SoundIn) : exportSndKV s = KV.block s.name (childrenKV s) := by
  unfold exportSndKV exportSnd childrenKV v2KV
  simp only [erase, eraseList_append, eraseList_wavesA]
  congr 1
  have hst := eraseList_stacks s
  simp only [List.append_assoc] at hst
  cases s.volDefault <;> cases s.pitchDefault <;> cases isV2 s <;>
    simp [eraseList, erase, hst]


theorem wavesOf_wavesKV (E : Env) (hE : envOK E) (s : SoundIn) (rest : List KV)
    (hr : wavesOf E rest = Except.ok []) : wavesOf E (wavesKV s ++ rest) = Except.ok s.waves := by
  have f1 := hE kWave (by simp)
  have f2 := hE kRndwave (by simp)
  unfold wavesKV
  cases hw : s.waves with
  | nil => simp [wavesOf, waveHere, nameIs_block f2, rndChildren, hr, Except.bind, Except.map]
  | cons w ws =>
    cases ws with
    | nil => simp [wavesOf, waveHere, nameIs_leaf f1, hr, Except.bind, Except.map]
    | cons w2 ws2 =>
      have := rndChildren_leaves (w :: w2 :: ws2)
      simp only [List.map_cons] at this
      simp [wavesOf, waveHere, nameIs_block f2, this, hr, Except.bind, Except.map]

section components
variable (E : Env) (hE : envOK E) (s : SoundIn)
include hE

theorem comp_findKey (k : List Char) (hk : k = kVolume ∨ k = kPitch ∨ k = kSoundlevel) :
    findKey E k (childrenKV s) =
      if k = kVolume then (if s.volDefault then none else some (KV.leaf kVolume (join s.volume)))
      else if k = kPitch then (if s.pitchDefault then none else some (KV.leaf kPitch (join s.pitch)))
      else some (KV.leaf kSoundlevel (join s.level)) := by
  have c1 := hE kChannel (by simp)
  have c2 := hE kSoundlevel (by simp)
  have c3 := hE kVolume (by simp)
  have c4 := hE kPitch (by simp)
  have c5 := hE kRndwave (by simp)
  have c6 := hE kWave (by simp)
  have c7 := hE kVersion (by simp)
  have c8 := hE kStacks (by simp)
  unfold childrenKV wavesKV v2KV findKey
  rcases hk with rfl | rfl | rfl <;>
  cases hvd : s.volDefault <;> cases hpd : s.pitchDefault <;> cases hv2 : isV2 s <;>
    cases hw : s.waves <;> (try (rename_i w ws; cases ws)) <;>
    simp [nameIs_leaf c1, nameIs_leaf c2, nameIs_leaf c3, nameIs_leaf c4, nameIs_leaf c6, nameIs_leaf c7,
      nameIs_block c5, nameIs_block c8]

theorem comp_hasKey :
    hasKey E kSoundlevel (childrenKV s) = true ∧ hasKey E kStacks (childrenKV s) = isV2 s := by
  have c1 := hE kChannel (by simp)
  have c2 := hE kSoundlevel (by simp)
  have c3 := hE kVolume (by simp)
  have c4 := hE kPitch (by simp)
  have c5 := hE kRndwave (by simp)
  have c6 := hE kWave (by simp)
  have c7 := hE kVersion (by simp)
  have c8 := hE kStacks (by simp)
  unfold childrenKV wavesKV v2KV hasKey
  cases hvd : s.volDefault <;> cases hpd : s.pitchDefault <;> cases hv2 : isV2 s <;>
    cases hw : s.waves <;> (try (rename_i w ws; cases ws)) <;>
    simp [nameIs_leaf c1, nameIs_leaf c2, nameIs_leaf c3, nameIs_leaf c4, nameIs_leaf c6, nameIs_leaf c7,
      nameIs_block c5, nameIs_block c8]

theorem comp_getValue :
    getValue E kChannel (childrenKV s) = some s.channel.txt ∧
    getValue E kVersion (childrenKV s) = if isV2 s then some two else none := by
  have c1 := hE kChannel (by simp)
  have c2 := hE kSoundlevel (by simp)
  have c3 := hE kVolume (by simp)
  have c4 := hE kPitch (by simp)
  have c5 := hE kRndwave (by simp)
  have c6 := hE kWave (by simp)
  have c7 := hE kVersion (by simp)
  have c8 := hE kStacks (by simp)
  unfold childrenKV wavesKV v2KV getValue
  cases hvd : s.volDefault <;> cases hpd : s.pitchDefault <;> cases hv2 : isV2 s <;>
    cases hw : s.waves <;> (try (rename_i w ws; cases ws)) <;>
    simp [nameIs_leaf c1, nameIs_leaf c2, nameIs_leaf c3, nameIs_leaf c4, nameIs_leaf c6, nameIs_leaf c7,
      nameIs_block c5, nameIs_block c8]

theorem comp_waves : wavesOf E (childrenKV s) = Except.ok s.waves := by
  have c1 := hE kChannel (by simp)
  have c2 := hE kSoundlevel (by simp)
  have c3 := hE kVolume (by simp)
  have c4 := hE kPitch (by simp)
  have c5 := hE kRndwave (by simp)
  have c6 := hE kWave (by simp)
  have c7 := hE kVersion (by simp)
  have c8 := hE kStacks (by simp)
  unfold childrenKV wavesKV v2KV
  cases hvd : s.volDefault <;> cases hpd : s.pitchDefault <;> cases hv2 : isV2 s <;>
    cases hw : s.waves <;> (try (rename_i w ws; cases ws)) <;>
    simp [wavesOf, waveHere, rndChildren, rndChildren_leaves, Except.bind, Except.map, nameIs_leaf c1, nameIs_leaf c2, nameIs_leaf c3, nameIs_leaf c4, nameIs_leaf c6, nameIs_leaf c7,
      nameIs_block c5, nameIs_block c8]

theorem comp_stacks (k : List Char) (hv2 : isV2 s = true) :
    findChildren2 E kStacks k (childrenKV s) = stackKids E k (stacksKV s) := by
  have c1 := hE kChannel (by simp)
  have c2 := hE kSoundlevel (by simp)
  have c3 := hE kVolume (by simp)
  have c4 := hE kPitch (by simp)
  have c5 := hE kRndwave (by simp)
  have c6 := hE kWave (by simp)
  have c7 := hE kVersion (by simp)
  have c8 := hE kStacks (by simp)
  unfold childrenKV wavesKV v2KV
  cases hvd : s.volDefault <;> cases hpd : s.pitchDefault <;>
    cases hw : s.waves <;> (try (rename_i w ws; cases ws)) <;>
    (simp [hv2, findChildren2, c5, c8, Except.bind, Except.map]
     cases stackKids E k (stacksKV s) <;> rfl)

end components

/-- **Tree level.** `Sound.parse_one` on the tree `Sound.export` denotes gives `normSnd`. -/
theorem parseSnd_export (E : Env) (s : SoundIn) (h : SndOK E s) :
    parseSnd E (exportSndKV s) = Except.ok (normSnd s) := by
  obtain ⟨hE, hv1, hv2, hp1, hp2, hl1, hl2, hch⟩ := h
  have jv := splitFloat_join E E.volumes volDefault s.volume hv1 hv2
  have jp := splitFloat_join E E.pitches pitchDefault s.pitch hp1 hp2
  have jl := splitFloat_join E E.levels levelDefault s.level hl1 hl2
  obtain ⟨k1, k2, k3⟩ := stackKids_stacks E hE s
  obtain ⟨hk1, hk2⟩ := comp_hasKey E hE s
  obtain ⟨g1, g2⟩ := comp_getValue E hE s
  have fv := comp_findKey E hE s kVolume (Or.inl rfl)
  have fp := comp_findKey E hE s kPitch (Or.inr (Or.inl rfl))
  have fl := comp_findKey E hE s kSoundlevel (Or.inr (Or.inr rfl))
  simp only [kPitch_neq_kVolume, kSoundlevel_neq_kVolume, kSoundlevel_neq_kPitch, if_false, if_true] at fv fp fl
  have hvol : parseSplit E E.volumes volDefault kVolume (childrenKV s) = Except.ok (normSnd s).volume := by
    unfold parseSplit normSnd
    rw [fv]
    cases s.volDefault <;> simp [jv]
  have hpit : parseSplit E E.pitches pitchDefault kPitch (childrenKV s) = Except.ok (normSnd s).pitch := by
    unfold parseSplit normSnd
    rw [fp]
    cases s.pitchDefault <;> simp [jp]
  have hlvl : parseLevel E (childrenKV s) = Except.ok (normSnd s).level := by
    unfold parseLevel parseSplit normSnd
    rw [hk1, fl]
    simp [jl]
  have hchan : parseChan E (childrenKV s) = Except.ok s.channel := by
    unfold parseChan
    rw [g1]
    simpa using hch
  have hver : parseVersion E (childrenKV s) = if isV2 s then 2 else 1 := by
    unfold parseVersion
    rw [g2]
    cases isV2 s <;> simp <;> decide
  have hstk : parseStacks E (parseVersion E (childrenKV s)) (childrenKV s) = Except.ok (normSnd s).stacks := by
    unfold parseStacks normSnd
    rw [hk2, hver]
    cases hv : isV2 s with
    | false => simp
    | true =>
      simp only [if_true, show ((2 : Int) = 1) = False by decide, if_false]
      rw [comp_stacks E hE s kStart hv, comp_stacks E hE s kUpdate hv, comp_stacks E hE s kStop hv, k1, k2, k3]
      rfl
  rw [exportSndKV_eq]
  simp only [parseSnd]
  rw [hvol, hpit, hlvl, comp_waves E hE s, hchan, hstk, hver]
  simp only [Except.bind, normSnd]
  cases isV2 s <;> simp

end C20.Snd
