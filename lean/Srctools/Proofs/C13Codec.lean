import Srctools.Proofs.C13
/-! Helper lemmas for C13, part 2: association lists, and `load_dirfile ∘ write_dirfile = id`. -/
namespace C13

/-! ## association lists -/

def keysOf {α} (l : AList α) : List Str := l.map (·.1)
def Distinct {α} (l : AList α) : Prop := (keysOf l).Nodup

@[simp] theorem keysOf_nil {α} : keysOf ([] : AList α) = [] := rfl
@[simp] theorem keysOf_cons {α} (x : Str × α) (l : AList α) : keysOf (x :: l) = x.1 :: keysOf l := rfl

theorem distinct_cons {α} {x : Str × α} {l : AList α} : Distinct (x :: l) ↔ x.1 ∉ keysOf l ∧ Distinct l := by
  unfold Distinct; simp [List.nodup_cons]

theorem mem_keysOf {α} {k : Str} {l : AList α} : k ∈ keysOf l ↔ ∃ v, (k, v) ∈ l := by
  unfold keysOf; simp

theorem find_eq_none_iff {α} (k : Str) (l : AList α) : AList.find k l = none ↔ k ∉ keysOf l := by
  induction l with
  | nil => simp [AList.find]
  | cons x xs ih =>
    obtain ⟨k', v⟩ := x
    by_cases h : k' = k
    · simp [AList.find, h]
    · simp only [AList.find, h, if_false, ih, keysOf_cons, List.mem_cons, not_or]
      exact ⟨fun hx => ⟨fun e => h e.symm, hx⟩, fun hx => hx.2⟩

theorem find_some_mem {α} {k : Str} {v : α} {l : AList α} (h : AList.find k l = some v) : (k, v) ∈ l := by
  induction l with
  | nil => simp [AList.find] at h
  | cons x xs ih =>
    obtain ⟨k', v'⟩ := x
    by_cases hk : k' = k
    · simp [AList.find, hk] at h; simp [hk, h]
    · simp [AList.find, hk] at h; simp [ih h]

theorem find_of_mem {α} {k : Str} {v : α} {l : AList α} (hd : Distinct l) (h : (k, v) ∈ l) : AList.find k l = some v := by
  induction l with
  | nil => simp at h
  | cons x xs ih =>
    obtain ⟨k', v'⟩ := x
    rw [distinct_cons] at hd
    rcases List.mem_cons.mp h with e | e
    · injection e with e1 e2; subst e1; subst e2; simp [AList.find]
    · have : k' ≠ k := by
        intro e'; subst e'; exact hd.1 (mem_keysOf.mpr ⟨v, e⟩)
      simp [AList.find, this, ih hd.2 e]

theorem keysOf_perm {α} {l1 l2 : AList α} (hp : l1.Perm l2) : (keysOf l1).Perm (keysOf l2) := hp.map _

theorem find_perm {α} {l1 l2 : AList α} (hp : l1.Perm l2) (hd : Distinct l2) (k : Str) :
    AList.find k l1 = AList.find k l2 := by
  have hd1 : Distinct l1 := (keysOf_perm hp).nodup_iff.mpr hd
  cases h : AList.find k l2 with
  | none =>
    rw [find_eq_none_iff] at h ⊢
    intro hm; apply h
    exact ((keysOf_perm hp).mem_iff).mp hm
  | some v => exact find_of_mem hd1 (hp.mem_iff.mpr (find_some_mem h))

theorem set_of_not_mem {α} {k : Str} (v : α) {l : AList α} (h : k ∉ keysOf l) : AList.set k v l = l ++ [(k, v)] := by
  induction l with
  | nil => rfl
  | cons x xs ih =>
    obtain ⟨k', v'⟩ := x
    simp at h
    have : k' ≠ k := fun e => h.1 e.symm
    simp [AList.set, this, ih h.2]

theorem keysOf_set {α} (k : Str) (v : α) (l : AList α) :
    keysOf (AList.set k v l) = if k ∈ keysOf l then keysOf l else keysOf l ++ [k] := by
  induction l with
  | nil => simp [AList.set]
  | cons x xs ih =>
    obtain ⟨k', v'⟩ := x
    by_cases h : k' = k
    · simp [AList.set, h]
    · have h' : ¬ k = k' := fun e => h e.symm
      simp only [AList.set, h, if_false, keysOf_cons, ih, List.mem_cons, h', false_or]
      split <;> simp

theorem distinct_set {α} (k : Str) (v : α) (l : AList α) (h : Distinct l) : Distinct (AList.set k v l) := by
  unfold Distinct at *
  rw [keysOf_set]
  split
  · exact h
  · rename_i hk
    rw [List.nodup_append]
    refine ⟨h, by simp, ?_⟩
    intro a ha b hb
    simp at hb; subst hb
    intro e; subst e; exact hk ha

theorem find_set {α} (k k' : Str) (v : α) (l : AList α) :
    AList.find k' (AList.set k v l) = if k = k' then some v else AList.find k' l := by
  induction l with
  | nil => simp [AList.set, AList.find]
  | cons x xs ih =>
    obtain ⟨k1, v1⟩ := x
    by_cases h : k1 = k
    · subst h; by_cases h2 : k1 = k' <;> simp [AList.set, AList.find, h2]
    · by_cases h2 : k1 = k'
      · subst h2; simp [AList.set, AList.find, h]; exact fun e => absurd e.symm h
      · simp [AList.set, AList.find, h, h2, ih]

theorem mem_set {α} {k : Str} {v : α} {l : AList α} {y : Str × α} (h : y ∈ AList.set k v l) : y = (k, v) ∨ y ∈ l := by
  induction l with
  | nil => simp [AList.set] at h; exact Or.inl h
  | cons x xs ih =>
    obtain ⟨k1, v1⟩ := x
    by_cases hk : k1 = k
    · simp [AList.set, hk] at h
      rcases h with h | h
      · exact Or.inl h
      · exact Or.inr (by simp [h])
    · simp [AList.set, hk] at h
      rcases h with h | h
      · exact Or.inr (by simp [h])
      · rcases ih h with h | h
        · exact Or.inl h
        · exact Or.inr (by simp [h])

theorem erase_sublist {α} (k : Str) (l : AList α) : (AList.erase k l).Sublist l := by
  induction l with
  | nil => simp [AList.erase]
  | cons x xs ih =>
    obtain ⟨k1, v1⟩ := x
    by_cases h : k1 = k
    · simp [AList.erase, h]
    · simp [AList.erase, h, ih]

theorem distinct_erase {α} (k : Str) (l : AList α) (h : Distinct l) : Distinct (AList.erase k l) :=
  List.Nodup.sublist ((erase_sublist k l).map _) h

theorem find_erase {α} (k k' : Str) (l : AList α) (hd : Distinct l) :
    AList.find k' (AList.erase k l) = if k = k' then none else AList.find k' l := by
  induction l with
  | nil => simp [AList.erase, AList.find]
  | cons x xs ih =>
    obtain ⟨k1, v1⟩ := x
    rw [distinct_cons] at hd
    by_cases h : k1 = k
    · subst h
      by_cases h2 : k1 = k'
      · subst h2; simp [AList.erase, AList.find]; exact (find_eq_none_iff _ _).mpr hd.1
      · simp [AList.erase, AList.find, h2]
    · by_cases h2 : k1 = k'
      · subst h2; simp [AList.erase, AList.find, h]; exact fun e => absurd e.symm h
      · simp [AList.erase, AList.find, h, h2, ih hd.2]

/-! ## sorting -/

theorem insertSorted_perm {α} (x : Str × α) (l : AList α) : (insertSorted x l).Perm (x :: l) := by
  induction l with
  | nil => simp [insertSorted]
  | cons y ys ih =>
    unfold insertSorted
    split
    · exact List.Perm.refl _
    · exact ((List.Perm.cons y ih).trans (List.Perm.swap x y ys))

theorem sortA_perm {α} (l : AList α) : (sortA l).Perm l := by
  induction l with
  | nil => exact List.Perm.refl _
  | cons x xs ih =>
    show (insertSorted x (sortA xs)).Perm (x :: xs)
    exact (insertSorted_perm x _).trans (List.Perm.cons x ih)

theorem distinct_sortA {α} (l : AList α) (h : Distinct l) : Distinct (sortA l) :=
  (keysOf_perm (sortA_perm l)).nodup_iff.mpr h

theorem mem_sortA {α} {x : Str × α} {l : AList α} : x ∈ sortA l ↔ x ∈ l := (sortA_perm l).mem_iff

theorem find_sortA {α} (l : AList α) (h : Distinct l) (k : Str) : AList.find k (sortA l) = AList.find k l :=
  find_perm (sortA_perm l) h k

theorem flatMap_ite_nil {α β} (p : α → Prop) [DecidablePred p] (f : α → List β) (l : List α) :
    l.flatMap (fun x => if p x then [] else f x) = (l.filter (fun x => !decide (p x))).flatMap f := by
  induction l with
  | nil => rfl
  | cons x xs ih =>
    by_cases h : p x <;> simp [List.flatMap_cons, List.filter_cons, h, ih]

/-! ## strings -/

def charOK (c : Nat) : Bool := c != 0 && (c < 128 || (0xDC80 ≤ c && c ≤ 0xDCFF))
/-- a name part that the directory tree can represent: valid characters, no NUL, not the single space -/
def strOK (s : Str) : Bool := s.all charOK && s != [32]

theorem readCStr_append (l rest : Bytes) (h : ∀ b ∈ l, b ≠ 0) : readCStr (l ++ 0 :: rest) = some (l, rest) := by
  induction l with
  | nil => simp [readCStr]
  | cons b bs ih =>
    have hb : b ≠ 0 := h b (by simp)
    have := ih (fun x hx => h x (by simp [hx]))
    simp [readCStr, hb, this]

theorem encChar_ne_zero {c : Nat} (h : charOK c = true) : encChar c ≠ 0 := by
  simp [charOK] at h
  unfold encChar
  split <;> omega

theorem decChar_encChar {c : Nat} (h : charOK c = true) : decChar (encChar c) = c := by
  simp [charOK] at h
  unfold encChar decChar
  split
  · simp [*]
  · split <;> omega

theorem encChar_eq_32 {c : Nat} (h : charOK c = true) (e : encChar c = 32) : c = 32 := by
  simp [charOK] at h
  unfold encChar at e
  split at e <;> omega

/-- the bytes written for a string, without the terminator -/
def strBytes (s : Str) : Bytes := if s = [] then [32] else s.map encChar

theorem encStr_eq (s : Str) : encStr s = strBytes s ++ [0] := by
  unfold encStr strBytes; split <;> simp

theorem strBytes_ne_zero (s : Str) (h : strOK s = true) : ∀ b ∈ strBytes s, b ≠ 0 := by
  simp [strOK, List.all_eq_true] at h
  unfold strBytes
  split
  · simp
  · intro b hb
    simp at hb
    obtain ⟨c, hc, rfl⟩ := hb
    exact encChar_ne_zero (h.1 c hc)

theorem itemOf_strBytes (s : Str) (h : strOK s = true) : itemOf (strBytes s) = some s := by
  simp [strOK, List.all_eq_true] at h
  unfold strBytes itemOf
  split
  · rename_i hs; simp [hs]
  · rename_i hs
    have h1 : s.map encChar ≠ [] := by simpa using hs
    have h2 : s.map encChar ≠ [32] := by
      intro e
      cases s with
      | nil => exact hs rfl
      | cons c cs =>
        cases cs with
        | nil =>
          simp at e
          have := encChar_eq_32 (h.1 c (by simp)) e
          exact h.2 (by simp [this])
        | cons c2 cs2 => simp at e
    simp only [h1, h2, if_false]
    congr 1
    rw [List.map_map]
    have : ∀ c ∈ s, (decChar ∘ encChar) c = c := fun c hc => decChar_encChar (h.1 c hc)
    calc s.map (decChar ∘ encChar) = s.map id := List.map_congr_left this
      _ = s := by simp

theorem readCStr_encStr (s : Str) (rest : Bytes) (h : strOK s = true) :
    readCStr (encStr s ++ rest) = some (strBytes s, rest) := by
  rw [encStr_eq, List.append_assoc]
  exact readCStr_append _ _ (strBytes_ne_zero s h)

theorem encStr_length_pos (s : Str) : 1 ≤ (encStr s).length := by
  rw [encStr_eq]; simp

/-! ## entries -/

def infoNorm (i : Info) : Bool :=
  i.archIndex != some DIR_ARCH_INDEX && (i.archLen != 0 || i.offset == 0)

theorem decEntry_encEntry (i : Info) (rest : Bytes) (hf : i.fits = true) (hn : infoNorm i = true) :
    decEntry (encEntry i ++ rest) = .ok (i, rest) := by
  obtain ⟨crc, ai, off, al, sd⟩ := i
  simp only [Info.fits, Bool.and_eq_true, decide_eq_true_eq] at hf
  obtain ⟨⟨⟨⟨h1, h2⟩, h3⟩, h4⟩, h5⟩ := hf
  simp only [infoNorm, Bool.and_eq_true, bne_iff_ne, ne_eq, Bool.or_eq_true, beq_iff_eq] at hn
  obtain ⟨hn1, hn2⟩ := hn
  simp only [encEntry, le32, le16, List.append_assoc, List.cons_append, List.nil_append]
  unfold decEntry
  simp only [List.length_cons, List.drop_succ_cons, List.drop_zero, rd32, rd16]
  have e1 : crc % 256 + 256 * (crc / 256 % 256) + 65536 * (crc / 65536 % 256) + 16777216 * (crc / 16777216 % 256) = crc := by omega
  have e2 : sd.length % 256 + 256 * (sd.length / 256 % 256) = sd.length := by omega
  have e4 : off % 256 + 256 * (off / 256 % 256) + 65536 * (off / 65536 % 256) + 16777216 * (off / 16777216 % 256) = off := by omega
  have e5 : al % 256 + 256 * (al / 256 % 256) + 65536 * (al / 65536 % 256) + 16777216 * (al / 16777216 % 256) = al := by omega
  have e3 : ∀ n, n < 65536 → n % 256 + 256 * (n / 256 % 256) = n := by intro n hn; omega
  have hlen : ¬ (sd ++ rest).length + 1 + 1 + 1 + 1 + 1 + 1 + 1 + 1 + 1 + 1 + 1 + 1 + 1 + 1 + 1 + 1 + 1 + 1 < 18 := by omega
  rw [e1, e2, e4, e5, e3 _ h3]
  simp only [hlen, if_false]
  have ht : (65535 % 256 + 256 * (65535 / 256 % 256) ≠ 65535) = False := by simp
  simp only [ht, if_false, List.take_left', List.drop_left']
  congr 2
  refine Info.mk.injEq .. |>.mpr ⟨rfl, ?_, ?_, rfl, ?_⟩
  · cases ai with
    | none => simp [DIR_ARCH_INDEX]
    | some j =>
      have : j ≠ DIR_ARCH_INDEX := fun e => hn1 (by simp [e])
      simp [this]
  · rcases hn2 with h | h
    · simp [h]
    · simp [h]
  · simp

/-! ## the three loops of `load_dirfile` read back what `write_dirfile` wrote -/

def encFile (x : Str × Info) : Bytes := encStr x.1 ++ encEntry x.2
def encDirItem (x : Str × RawFiles) : Bytes := encStr x.1 ++ (x.2.flatMap encFile ++ [0])
def encExtItem (x : Str × RawDirs) : Bytes := encStr x.1 ++ (x.2.flatMap encDirItem ++ [0])

def fileOK (x : Str × Info) : Prop := strOK x.1 = true ∧ x.2.fits = true ∧ infoNorm x.2 = true
def dirOK (x : Str × RawFiles) : Prop := strOK x.1 = true ∧ ∀ y ∈ x.2, fileOK y
def extOK (x : Str × RawDirs) : Prop := strOK x.1 = true ∧ ∀ y ∈ x.2, dirOK y

theorem parseFiles_enc (L : RawFiles) (hL : ∀ x ∈ L, fileOK x) (rest : Bytes) :
    ∀ fuel, (L.flatMap encFile ++ 0 :: rest).length < fuel →
      parseFiles fuel (L.flatMap encFile ++ 0 :: rest) = .ok (L, rest) := by
  induction L with
  | nil =>
    intro fuel hf
    cases fuel with
    | zero => simp at hf
    | succ f => simp [parseFiles, readCStr, itemOf]
  | cons x xs ih =>
    intro fuel hf
    cases fuel with
    | zero => simp at hf
    | succ f =>
      obtain ⟨n, i⟩ := x
      have hx : fileOK (n, i) := hL (n, i) (by simp)
      have hlen : (xs.flatMap encFile ++ 0 :: rest).length < f := by
        simp only [List.flatMap_cons, encFile, List.length_append, List.length_cons] at hf ⊢
        have := encStr_length_pos n
        omega
      simp only [List.flatMap_cons, encFile, List.append_assoc]
      simp only [parseFiles, readCStr_encStr _ _ hx.1, itemOf_strBytes _ hx.1,
        decEntry_encEntry _ _ hx.2.1 hx.2.2, ih (fun y hy => hL y (by simp [hy])) f hlen]

theorem parseDirs_enc (D : RawDirs) (hD : ∀ x ∈ D, dirOK x) (rest : Bytes) :
    ∀ fuel, (D.flatMap encDirItem ++ 0 :: rest).length < fuel →
      parseDirs fuel (D.flatMap encDirItem ++ 0 :: rest) = .ok (D, rest) := by
  induction D with
  | nil =>
    intro fuel hf
    cases fuel with
    | zero => simp at hf
    | succ f => simp [parseDirs, readCStr, itemOf]
  | cons x xs ih =>
    intro fuel hf
    cases fuel with
    | zero => simp at hf
    | succ f =>
      obtain ⟨d, L⟩ := x
      have hx : dirOK (d, L) := hD (d, L) (by simp)
      have hlen2 : (xs.flatMap encDirItem ++ 0 :: rest).length < f := by
        simp only [List.flatMap_cons, encDirItem, List.length_append, List.length_cons] at hf ⊢
        have := encStr_length_pos d
        omega
      have hlen1 : (L.flatMap encFile ++ 0 :: (xs.flatMap encDirItem ++ 0 :: rest)).length < f := by
        simp only [List.flatMap_cons, encDirItem, List.length_append, List.length_cons, List.length_nil] at hf ⊢
        have := encStr_length_pos d
        omega
      simp only [List.flatMap_cons, encDirItem, List.append_assoc, List.cons_append, List.nil_append]
      simp only [parseDirs, readCStr_encStr _ _ hx.1, itemOf_strBytes _ hx.1,
        parseFiles_enc L hx.2 _ f hlen1, ih (fun y hy => hD y (by simp [hy])) f hlen2]

theorem parseExts_enc (hl tot : Nat) (E : RawTree) (hE : ∀ x ∈ E, extOK x) (foot : Bytes)
    (htot : hl + foot.length = tot) :
    ∀ fuel, (E.flatMap encExtItem ++ 0 :: foot).length < fuel →
      parseExts hl tot fuel (E.flatMap encExtItem ++ 0 :: foot) = .ok (E, foot) := by
  induction E with
  | nil =>
    intro fuel hf
    cases fuel with
    | zero => simp at hf
    | succ f => simp [parseExts, readCStr, itemOf]
  | cons x xs ih =>
    intro fuel hf
    cases fuel with
    | zero => simp at hf
    | succ f =>
      obtain ⟨e, D⟩ := x
      have hx : extOK (e, D) := hE (e, D) (by simp)
      have hlen2 : (xs.flatMap encExtItem ++ 0 :: foot).length < f := by
        simp only [List.flatMap_cons, encExtItem, List.length_append, List.length_cons] at hf ⊢
        have := encStr_length_pos e
        omega
      have hlen1 : (D.flatMap encDirItem ++ 0 :: (xs.flatMap encExtItem ++ 0 :: foot)).length < f := by
        simp only [List.flatMap_cons, encExtItem, List.length_append, List.length_cons, List.length_nil] at hf ⊢
        have := encStr_length_pos e
        omega
      simp only [List.flatMap_cons, encExtItem, List.append_assoc, List.cons_append, List.nil_append]
      simp only [parseExts, readCStr_encStr _ _ hx.1, itemOf_strBytes _ hx.1,
        parseDirs_enc D hx.2 _ f hlen1]
      cases xs with
      | nil =>
        have : (([] : RawTree).flatMap encExtItem ++ 0 :: foot).length + hl = tot + 1 := by
          simp; omega
        simp only [this, if_true]
        simp
      | cons y ys =>
        have : ¬ (((y :: ys).flatMap encExtItem ++ 0 :: foot).length + hl = tot + 1) := by
          simp only [List.flatMap_cons, encExtItem, List.length_append, List.length_cons]
          have := encStr_length_pos y.1
          omega
        simp only [this, if_false]
        rw [ih (fun z hz => hE z (by simp [hz])) f hlen2]

/-! ## canonical (file order) form of a tree -/

def rawDirs (ds : Dirs) : RawDirs :=
  ((sortA ds).filter (fun x => !decide (x.2 = []))).map (fun x => (x.1, sortA x.2))
def rawTree (t : Tree) : RawTree :=
  ((sortA t).filter (fun x => !decide (x.2 = []))).map (fun x => (x.1, rawDirs x.2))

theorem encFiles_eq (fs : Files) : encFiles fs = (sortA fs).flatMap encFile := by
  unfold encFiles
  congr 1

theorem encDirs_eq (ds : Dirs) : encDirs ds = (rawDirs ds).flatMap encDirItem := by
  unfold encDirs rawDirs
  have : (fun (x : Str × Files) => match x with
      | (d, fs) => if fs = [] then [] else encStr d ++ encFiles fs ++ [0])
      = fun x => if x.2 = [] then [] else encDirItem (x.1, sortA x.2) := by
    funext ⟨d, fs⟩
    simp [encDirItem, encFiles_eq]
  rw [this, flatMap_ite_nil, List.flatMap_map]

theorem encTree_eq (t : Tree) : encTree t = (rawTree t).flatMap encExtItem ++ [0] := by
  unfold encTree rawTree
  have : (fun (x : Str × Dirs) => match x with
      | (e, ds) => if ds = [] then [] else encStr e ++ encDirs ds ++ [0])
      = fun x => if x.2 = [] then [] else encExtItem (x.1, rawDirs x.2) := by
    funext ⟨e, ds⟩
    simp [encExtItem, encDirs_eq]
  rw [this, flatMap_ite_nil, List.flatMap_map]

/-! ## rebuilding the dicts from the parsed lists -/

theorem not_mem_keys_of_distinct_append {α} {acc : AList α} {x : Str × α} {xs : AList α}
    (h : Distinct (acc ++ x :: xs)) : x.1 ∉ keysOf acc := by
  unfold Distinct keysOf at h
  rw [List.map_append, List.nodup_append] at h
  intro hm
  exact h.2.2 _ hm x.1 (by simp) rfl

theorem buildFiles_append (fs : RawFiles) : ∀ (acc : Files), Distinct (acc ++ fs) → buildFiles fs acc = acc ++ fs := by
  induction fs with
  | nil => intro acc _; simp [buildFiles]
  | cons x xs ih =>
    intro acc h
    have hx := not_mem_keys_of_distinct_append h
    obtain ⟨n, i⟩ := x
    show buildFiles xs (AList.set n i acc) = _
    rw [set_of_not_mem i hx, ih _ (by simpa using h)]
    simp

theorem buildDirs_append (ds : RawDirs) : ∀ (acc : Dirs), Distinct (acc ++ ds) → (∀ x ∈ ds, Distinct x.2) →
    buildDirs ds acc = acc ++ ds := by
  induction ds with
  | nil => intro acc _ _; simp [buildDirs]
  | cons x xs ih =>
    intro acc h hin
    have hx := not_mem_keys_of_distinct_append h
    obtain ⟨d, fs⟩ := x
    show buildDirs xs (AList.set d (buildFiles fs ((AList.find d acc).getD [])) acc) = _
    have hnone : AList.find d acc = none := (find_eq_none_iff _ _).mpr hx
    have hfs : buildFiles fs [] = fs := by
      have := buildFiles_append fs [] (by simpa using hin (d, fs) (by simp))
      simpa using this
    rw [hnone]
    simp only [Option.getD_none, hfs]
    rw [set_of_not_mem fs hx, ih _ (by simpa using h) (fun y hy => hin y (by simp [hy]))]
    simp

theorem buildTree_append (raw : RawTree) : ∀ (acc : Tree), Distinct (acc ++ raw) →
    (∀ x ∈ raw, Distinct x.2 ∧ ∀ y ∈ x.2, Distinct y.2) → buildTree raw acc = acc ++ raw := by
  induction raw with
  | nil => intro acc _ _; simp [buildTree]
  | cons x xs ih =>
    intro acc h hin
    have hx := not_mem_keys_of_distinct_append h
    obtain ⟨e, ds⟩ := x
    show buildTree xs (AList.set e (buildDirs ds ((AList.find e acc).getD [])) acc) = _
    have hnone : AList.find e acc = none := (find_eq_none_iff _ _).mpr hx
    have hds : buildDirs ds [] = ds := by
      have h1 := hin (e, ds) (by simp)
      have := buildDirs_append ds [] (by simpa using h1.1) h1.2
      simpa using this
    rw [hnone]
    simp only [Option.getD_none, hds]
    rw [set_of_not_mem ds hx, ih _ (by simpa using h) (fun y hy => hin y (by simp [hy]))]
    simp

/-! ## well-formed trees and the round trip -/

def FilesWF (fs : Files) : Prop := Distinct fs ∧ ∀ x ∈ fs, strOK x.1 = true ∧ infoNorm x.2 = true
def DirsWF (ds : Dirs) : Prop := Distinct ds ∧ ∀ x ∈ ds, strOK x.1 = true ∧ FilesWF x.2
/-- what the dict-of-dicts of an open archive always satisfies inside the excluded class:
distinct keys on every level (it is a dict), representable name parts, normalised entries -/
def TreeWF (t : Tree) : Prop := Distinct t ∧ ∀ x ∈ t, strOK x.1 = true ∧ DirsWF x.2

theorem mem_entries {t : Tree} {e : Str} {ds : Dirs} {d : Str} {fs : Files} {n : Str} {i : Info}
    (h1 : (e, ds) ∈ t) (h2 : (d, fs) ∈ ds) (h3 : (n, i) ∈ fs) : ((⟨d, n, e⟩ : Key), i) ∈ t.entries :=
  List.mem_flatMap.mpr ⟨(e, ds), h1, List.mem_flatMap.mpr ⟨(d, fs), h2, List.mem_map.mpr ⟨(n, i), h3, rfl⟩⟩⟩

theorem keysOf_map_val {α β} (g : Str × α → β) (l : AList α) : keysOf (l.map (fun x => (x.1, g x))) = keysOf l := by
  unfold keysOf; rw [List.map_map]; rfl

theorem distinct_filter {α} (p : Str × α → Bool) (l : AList α) (h : Distinct l) : Distinct (l.filter p) :=
  List.Nodup.sublist ((List.filter_sublist).map _) h

theorem distinct_rawDirs (ds : Dirs) (h : Distinct ds) : Distinct (rawDirs ds) := by
  unfold rawDirs Distinct
  rw [keysOf_map_val]
  exact distinct_filter _ _ (distinct_sortA _ h)

theorem distinct_rawTree (t : Tree) (h : Distinct t) : Distinct (rawTree t) := by
  unfold rawTree Distinct
  rw [keysOf_map_val]
  exact distinct_filter _ _ (distinct_sortA _ h)

theorem mem_rawDirs {ds : Dirs} {y : Str × RawFiles} (h : y ∈ rawDirs ds) :
    ∃ fs, (y.1, fs) ∈ ds ∧ y.2 = sortA fs ∧ fs ≠ [] := by
  unfold rawDirs at h
  rw [List.mem_map] at h
  obtain ⟨⟨d, fs⟩, hm, rfl⟩ := h
  rw [List.mem_filter, mem_sortA] at hm
  exact ⟨fs, hm.1, rfl, by simpa using hm.2⟩

theorem mem_rawTree {t : Tree} {x : Str × RawDirs} (h : x ∈ rawTree t) :
    ∃ ds, (x.1, ds) ∈ t ∧ x.2 = rawDirs ds ∧ ds ≠ [] := by
  unfold rawTree at h
  rw [List.mem_map] at h
  obtain ⟨⟨e, ds⟩, hm, rfl⟩ := h
  rw [List.mem_filter, mem_sortA] at hm
  exact ⟨ds, hm.1, rfl, by simpa using hm.2⟩

theorem rawTree_extOK (t : Tree) (hwf : TreeWF t) (hfit : t.entries.all (fun e => e.2.fits) = true) :
    ∀ x ∈ rawTree t, extOK x := by
  intro x hx
  obtain ⟨ds, h1, h2, _⟩ := mem_rawTree hx
  have w1 := hwf.2 _ h1
  refine ⟨w1.1, ?_⟩
  intro y hy
  rw [h2] at hy
  obtain ⟨fs, h3, h4, _⟩ := mem_rawDirs hy
  have w2 := w1.2.2 _ h3
  refine ⟨w2.1, ?_⟩
  intro z hz
  rw [h4, mem_sortA] at hz
  have w3 := w2.2.2 _ hz
  refine ⟨w3.1, ?_, w3.2⟩
  rw [List.all_eq_true] at hfit
  exact hfit _ (mem_entries (n := z.1) (i := z.2) h1 h3 hz)

theorem rawTree_inner_distinct (t : Tree) (hwf : TreeWF t) :
    ∀ x ∈ rawTree t, Distinct x.2 ∧ ∀ y ∈ x.2, Distinct y.2 := by
  intro x hx
  obtain ⟨ds, h1, h2, _⟩ := mem_rawTree hx
  have w1 := hwf.2 _ h1
  rw [h2]
  refine ⟨distinct_rawDirs _ w1.2.1, ?_⟩
  intro y hy
  obtain ⟨fs, h3, h4, _⟩ := mem_rawDirs hy
  rw [h4]
  exact distinct_sortA _ (w1.2.2 _ h3).2.1

theorem rd32_le32 (n : Nat) (h : n < 4294967296) (rest : Bytes) : rd32 (le32 n ++ rest) = n := by
  simp only [le32, rd32, List.cons_append, List.nil_append]; omega

theorem drop4_le32 (n : Nat) (rest : Bytes) : List.drop 4 (le32 n ++ rest) = rest := by
  simp [le32]

theorem length_le32 (n : Nat) : (le32 n).length = 4 := rfl

theorem decodeDir_v1 (tl : Nat) (htl : tl < 4294967296) (body : Bytes) :
    decodeDir (le32 VPK_SIG ++ (le32 1 ++ (le32 tl ++ body))) =
      match parseExts (12 + tl) (12 + body.length) (12 + body.length + 1) body with
      | .error e => .error e
      | .ok (raw, foot) => .ok ⟨buildTree raw [], foot, 1⟩ := by
  have hlen : (le32 VPK_SIG ++ (le32 1 ++ (le32 tl ++ body))).length = 12 + body.length := by
    simp [length_le32]; omega
  have hd4 : List.drop 4 (le32 VPK_SIG ++ (le32 1 ++ (le32 tl ++ body))) = le32 1 ++ (le32 tl ++ body) := drop4_le32 _ _
  have hd8 : List.drop 8 (le32 VPK_SIG ++ (le32 1 ++ (le32 tl ++ body))) = le32 tl ++ body := by
    have : (8 : Nat) = 4 + 4 := rfl
    rw [this, ← List.drop_drop, hd4, drop4_le32]
  have hd12 : List.drop 12 (le32 VPK_SIG ++ (le32 1 ++ (le32 tl ++ body))) = body := by
    simp [le32]
  unfold decodeDir
  simp only [hlen, hd4, hd8]
  rw [rd32_le32 VPK_SIG (by decide), rd32_le32 1 (by decide), rd32_le32 tl htl]
  have c1 : ¬ (12 + body.length < 12) := by omega
  simp only [c1, if_false, ne_eq, not_true_eq_false, false_and, Nat.reduceEqDiff, hd12]
  rfl

/-- **`load_dirfile ∘ write_dirfile`**: the tree comes back in file order (sorted, empty dicts dropped),
the footer and the version unchanged. -/
theorem decodeDir_encodeDir (t : Tree) (f : Bytes) (hwf : TreeWF t) (hfit : t.fits = true) :
    decodeDir (encodeDir 1 t f) = .ok ⟨rawTree t, f, 1⟩ := by
  simp only [Tree.fits, Bool.and_eq_true, decide_eq_true_eq] at hfit
  have hE := rawTree_extOK t hwf hfit.1
  have hb : encodeDir 1 t f = le32 VPK_SIG ++ (le32 1 ++ (le32 (encTree t).length ++ (encTree t ++ f))) := by
    simp [encodeDir]
  rw [hb, decodeDir_v1 _ hfit.2]
  have hbody : encTree t ++ f = (rawTree t).flatMap encExtItem ++ 0 :: f := by
    rw [encTree_eq]; simp
  have hfuel : ((rawTree t).flatMap encExtItem ++ 0 :: f).length < 12 + (encTree t ++ f).length + 1 := by
    rw [← hbody]; omega
  rw [hbody] at hfuel ⊢
  rw [parseExts_enc _ _ (rawTree t) hE f ?_ _ hfuel]
  · have := buildTree_append (rawTree t) [] (by simpa using distinct_rawTree t hwf.1) (rawTree_inner_distinct t hwf)
    simp only [this, List.nil_append]
  · rw [encTree_eq]; simp; omega

end C13
