import Srctools.Proofs.C14Iso
import Srctools.Proofs.C14Kv2Order
/-! # C14: the numbering traversal on heap graphs with text values; canonical numbering of its result. -/
namespace C14.Kv2
open C14 List

theorem refsAtT_lt {h : TGraph} (hc : theapClosed h = true) {l k : Nat} (hk : k ∈ refsAtT h l) :
    k < h.elems.length := by
  unfold refsAtT at hk
  cases he : h.elems[l]? with
  | none => simp [he] at hk
  | some e =>
    simp only [he] at hk
    simp only [theapClosed, List.all_eq_true, decide_eq_true_eq] at hc
    exact hc e (List.mem_of_getElem? he) k hk

theorem tnumber_numbering (h : TGraph) (hc : theapClosed h = true) (root : Nat)
    (hr : root < h.elems.length) : NumberingOn (refsAtT h) root (tnumber h root) :=
  numberOn_numbering (refsAtT h) h.elems.length (fun _ _ hk => refsAtT_lt hc hk) root hr

theorem trelabel_refs (ord : List Nat) (e : TElem) :
    (trelabelElem ord e).refs = e.refs.map (posOf ord) := by
  unfold TElem.refs trelabelElem
  simp only [List.flatMap_map, List.map_flatMap]
  congr 1
  funext a
  induction a.vals with
  | nil => rfl
  | cons v vs ih =>
    cases v with
    | text s => simpa [trelabelVal, TVal.idx?, List.filterMap_cons] using ih
    | ref r => cases r <;> simpa [trelabelVal, TVal.idx?, List.filterMap_cons] using ih

/-- the text-valued analogue of `Iso`. -/
def TIso (h : TGraph) (root : Nat) (g : TGraph) : Prop :=
  ∃ ord : List Nat, NumberingOn (refsAtT h) root ord ∧ g.elems.length = ord.length ∧
    ∀ (i loc : Nat), ord[i]? = some loc → ∃ e, h.elems[loc]? = some e ∧
      g.elems[i]? = some (trelabelElem ord e) ∧
      ∀ k ∈ e.refs, posOf ord k < ord.length ∧ ord[posOf ord k]? = some k

section
variable (h : TGraph) (hc : theapClosed h = true) (root : Nat) (hr : root < h.elems.length)
include hc hr

theorem tnumber_lt {loc : Nat} (hl : loc ∈ tnumber h root) : loc < h.elems.length :=
  reachOn_lt (fun _ _ hk => refsAtT_lt hc hk) hr (((tnumber_numbering h hc root hr).mem_iff loc).mp hl)

theorem tindexed_length : (tindexed h root).elems.length = (tnumber h root).length := by
  unfold tindexed
  simp only
  apply filterMap_length
  intro loc hl
  simp [List.getElem?_eq_getElem (tnumber_lt h hc root hr hl)]

theorem tindexed_getElem? {i loc : Nat} (hi : (tnumber h root)[i]? = some loc) :
    (tindexed h root).elems[i]? = some (trelabelElem (tnumber h root) (h.elems[loc]'(tnumber_lt h hc root hr (List.mem_of_getElem? hi)))) := by
  have hlt := tnumber_lt h hc root hr (List.mem_of_getElem? hi)
  unfold tindexed
  simp only
  rw [filterMap_getElem?]
  · simp [hi, List.getElem?_eq_getElem hlt]
  · intro x hx
    simp [List.getElem?_eq_getElem (tnumber_lt h hc root hr hx)]

/-- **Isomorphism (text values).** -/
theorem tindexed_iso : TIso h root (tindexed h root) := by
  have hN := tnumber_numbering h hc root hr
  refine ⟨tnumber h root, hN, tindexed_length h hc root hr, ?_⟩
  intro i loc hi
  have hl : loc ∈ tnumber h root := List.mem_of_getElem? hi
  have hlt := tnumber_lt h hc root hr hl
  refine ⟨h.elems[loc], List.getElem?_eq_getElem hlt, tindexed_getElem? h hc root hr hi, ?_⟩
  intro k hk
  apply posOf_spec
  apply (hN.mem_iff k).mpr
  apply ((hN.mem_iff loc).mp hl).tail
  simp [refsAtT, List.getElem?_eq_getElem hlt, hk]

/-- **The written graph is canonically numbered**: every element but the first is referenced by
an element with a smaller index. -/
theorem tindexed_bfsOrdered : bfsOrdered (tindexed h root) = true := by
  have hN := tnumber_numbering h hc root hr
  simp only [bfsOrdered, List.all_eq_true, List.mem_range, Bool.or_eq_true, beq_iff_eq,
    List.any_eq_true, List.contains_eq_mem, decide_eq_true_eq]
  intro j hj
  rw [tindexed_length h hc root hr] at hj
  by_cases h0 : j = 0
  · exact .inl h0
  · right
    have hjx : (tnumber h root)[j]? = some (tnumber h root)[j] := List.getElem?_eq_getElem hj
    obtain ⟨q, y, hq, hqy, hxy⟩ := hN.parent j _ (by omega) hjx
    refine ⟨q, hq, ?_⟩
    have hyl := tnumber_lt h hc root hr (List.mem_of_getElem? hqy)
    unfold refsAtT
    rw [tindexed_getElem? h hc root hr hqy]
    simp only [trelabel_refs, List.mem_map]
    refine ⟨(tnumber h root)[j], ?_, ?_⟩
    · simpa [refsAtT, List.getElem?_eq_getElem hyl] using hxy
    · exact List.Nodup.idxOf_getElem hN.nodup j hj

end

end C14.Kv2
