import Srctools.Proofs.C03Src
import Srctools.Proofs.Tok
/-! Refinement TokC → TokA, loop by loop: run on a cursor `s` satisfying the invariant, with fuel
larger than the number of characters left, every loop of the concrete tokenizer computes what the
abstract one computes on `s.view`, and leaves a cursor whose view is the abstract remainder. -/

set_option linter.unusedSimpArgs false

namespace TokC
open Tok

theorem scanStarComment_cons (start : Nat) (c : Char) (cs acc : List Char) (line : Nat) :
    Tok.scanStarComment start (c :: cs) acc line =
      if c = '\n' then Tok.scanStarComment start cs (c :: acc) (line + 1)
      else if c = '*' then
        match cs with
        | [] => .err (.unclosedComment start) line
        | d :: cs' =>
          if d = '/' then .ok acc.reverse line cs'
          else Tok.scanStarComment start (d :: cs') acc line
      else Tok.scanStarComment start cs (c :: acc) line := by
  rw [Tok.scanStarComment.eq_def]
  rfl

/-- Concrete scan result vs abstract scan result. -/
def ScanRel {α : Type} : CScan α → Scan α → Prop
  | .ok v l s, .ok v' l' r => v = v' ∧ l = l' ∧ s.view = r ∧ s.Inv
  | .err e l _, .err e' l' => e = e' ∧ l = l'
  | _, _ => False

theorem ScanRel.ok_iff {α : Type} (v v' : α) (l l' : Nat) (s : Src) (r : List Char) :
    ScanRel (.ok v l s) (.ok v' l' r) ↔ (v = v' ∧ l = l' ∧ s.view = r ∧ s.Inv) := Iff.rfl

theorem ScanRel.err_iff {α : Type} (e e' : Err) (l l' : Nat) (s : Src) :
    ScanRel (α := α) (.err e l s) (.err e' l') ↔ (e = e' ∧ l = l') := Iff.rfl

theorem scanBracket_refine (f : Nat) (s : Src) (acc : List Char) (line : Nat) (h : s.Inv)
    (hf : s.view.length < f) :
    ScanRel (scanBracket f s acc line) (Tok.scanBracket s.view acc line) := by
  induction f generalizing s acc with
  | zero => omega
  | succ f ih =>
    rcases next_spec s h with ⟨hv, s1, hn, -, -, -, -⟩ | ⟨c, s1, hn, hv, hi, -, -⟩
    · rw [scanBracket, hn, hv, Tok.scanBracket]
      exact ⟨rfl, rfl⟩
    · rw [scanBracket, hn, hv, Tok.scanBracket]
      simp only
      have hlen : s1.view.length < f := by rw [hv] at hf; simp at hf; omega
      by_cases h1 : c = ']'
      · simp only [h1, if_true]; exact ⟨rfl, rfl, rfl, hi⟩
      · by_cases h2 : c = '\n'
        · simp only [h1, h2, if_true, if_false]; exact ⟨rfl, rfl⟩
        · by_cases h3 : c = '['
          · simp only [h1, h2, h3, if_true, if_false]; exact ⟨rfl, rfl⟩
          · simp only [h1, h2, h3, if_false]; exact ih s1 _ hi hlen

theorem scanParen_refine (f : Nat) (s : Src) (acc : List Char) (line : Nat) (h : s.Inv)
    (hf : s.view.length < f) :
    ScanRel (scanParen f s acc line) (Tok.scanParen s.view acc line) := by
  induction f generalizing s acc line with
  | zero => omega
  | succ f ih =>
    rcases next_spec s h with ⟨hv, s1, hn, -, -, -, -⟩ | ⟨c, s1, hn, hv, hi, -, -⟩
    · rw [scanParen, hn, hv, Tok.scanParen]
      exact ⟨rfl, rfl⟩
    · rw [scanParen, hn, hv, Tok.scanParen]
      simp only
      have hlen : s1.view.length < f := by rw [hv] at hf; simp at hf; omega
      by_cases h1 : c = ')'
      · simp only [h1, if_true]; exact ⟨rfl, rfl, rfl, hi⟩
      · by_cases h2 : c = '\n'
        · simp only [h1, h2, if_true, if_false]; exact ih s1 _ _ hi hlen
        · by_cases h3 : c = '('
          · simp only [h1, h2, h3, if_true, if_false]; exact ⟨rfl, rfl⟩
          · simp only [h1, h2, h3, if_false]; exact ih s1 _ _ hi hlen

theorem scanBare_refine (T : Tables) (o : Opts) (fold : Char → List Char) (f : Nat) (s : Src)
    (acc : List Char) (line : Nat) (h : s.Inv) (hf : s.view.length < f) :
    ScanRel (scanBare T o fold f s acc line)
      (.ok (Tok.scanBare T o fold s.view acc).1 line (Tok.scanBare T o fold s.view acc).2) := by
  induction f generalizing s acc with
  | zero => omega
  | succ f ih =>
    rcases next_spec s h with ⟨hv, s1, hn, hv1, hi1, -, -⟩ | ⟨c, s1, hn, hv, hi, hb, hbi⟩
    · rw [scanBare, hn, hv, Tok.scanBare]
      exact ⟨rfl, rfl, hv1, hi1⟩
    · rw [scanBare, hn, hv, Tok.scanBare]
      simp only
      have hlen : s1.view.length < f := by rw [hv] at hf; simp at hf; omega
      by_cases h1 : isBareEnd T o c = true
      · simp only [h1, if_true]; exact ⟨rfl, rfl, hb, hbi⟩
      · simp only [h1]; exact ih s1 _ hi hlen

theorem scanLineComment_refine (f : Nat) (s : Src) (acc : List Char) (line : Nat) (h : s.Inv)
    (hf : s.view.length < f) :
    ScanRel (scanLineComment f s acc line)
      (.ok (Tok.scanLineComment s.view acc).1 line (Tok.scanLineComment s.view acc).2) := by
  induction f generalizing s acc with
  | zero => omega
  | succ f ih =>
    rcases next_spec s h with ⟨hv, s1, hn, -, -, hb, hbi⟩ | ⟨c, s1, hn, hv, hi, hb, hbi⟩
    · rw [scanLineComment, hn, hv, Tok.scanLineComment]
      exact ⟨rfl, rfl, hb, hbi⟩
    · rw [scanLineComment, hn, hv, Tok.scanLineComment]
      simp only
      have hlen : s1.view.length < f := by rw [hv] at hf; simp at hf; omega
      by_cases h1 : c = '\n'
      · simp only [h1, if_true]; exact ⟨rfl, rfl, by rw [hb, h1], hbi⟩
      · simp only [h1, if_false]; exact ih s1 _ hi hlen

theorem scanStarComment_refine (start : Nat) (f : Nat) (s : Src) (acc : List Char) (line : Nat)
    (h : s.Inv) (hf : s.view.length < f) :
    ScanRel (scanStarComment start f s acc line) (Tok.scanStarComment start s.view acc line) := by
  induction f generalizing s acc line with
  | zero => omega
  | succ f ih =>
    rcases next_spec s h with ⟨hv, s1, hn, -, -, -, -⟩ | ⟨c, s1, hn, hv, hi, -, -⟩
    · rw [scanStarComment, hn, hv, Tok.scanStarComment.eq_def]
      exact ⟨rfl, rfl⟩
    · rw [scanStarComment, hn, hv]
      simp only
      have hlen : s1.view.length < f := by rw [hv] at hf; simp at hf; omega
      by_cases h1 : c = '\n'
      · rw [scanStarComment_cons]
        simp only [h1, if_true]; exact ih s1 _ _ hi hlen
      · by_cases h2 : c = '*'
        · rcases next_spec s1 hi with ⟨hv1, s2, hn2, -, -, -, -⟩ | ⟨d, s2, hn2, hv2, hi2, hb2, hbi2⟩
          · rw [hn2, hv1, scanStarComment_cons]
            simp only [h1, h2, if_true, if_false]
            exact ⟨rfl, rfl⟩
          · rw [hn2, hv2, scanStarComment_cons]
            simp only [h1, h2, if_true, if_false]
            by_cases h3 : d = '/'
            · simp only [h3, if_true]; exact ⟨rfl, rfl, rfl, hi2⟩
            · simp only [h3, if_false]
              rw [← hb2]
              exact ih s2.back _ _ hbi2 (by rw [hb2]; rw [hv2] at hlen; simpa using hlen)
        · rw [scanStarComment_cons]
          simp only [h1, h2, if_false]; exact ih s1 _ _ hi hlen

theorem handleString_refine (T : Tables) (a : Bool) (f : Nat) (s : Src) (acc : List Char)
    (lc : Bool) (line : Nat) (h : s.Inv) (hf : s.view.length < f) :
    ScanRel (handleString T a f s acc lc line) (Tok.handleString T a s.view acc lc line) := by
  induction f generalizing s acc lc line with
  | zero => omega
  | succ f ih =>
    rcases next_spec s h with ⟨hv, s1, hn, -, -, -, -⟩ | ⟨c, s1, hn, hv, hi, -, -⟩
    · rw [handleString, hn, hv, Tok.handleString.eq_def]
      exact ⟨rfl, rfl⟩
    · rw [handleString, hn, hv]
      simp only
      have hlen : s1.view.length < f := by rw [hv] at hf; simp at hf; omega
      by_cases h1 : c = '"'
      · rw [handleString_cons]
        simp only [h1, if_true]; exact ⟨rfl, rfl, rfl, hi⟩
      · by_cases h2 : c = '\r'
        · rw [handleString_cons]
          simp only [h1, h2, if_true, if_false]; exact ih s1 _ _ _ hi hlen
        · by_cases h3 : c = '\n'
          · rw [handleString_cons]
            simp only [h1, h2, h3, if_true, if_false]
            cases lc
            · simp only [Bool.false_eq_true, if_false]; exact ih s1 _ _ _ hi hlen
            · simp only [if_true]; exact ih s1 _ _ _ hi hlen
          · by_cases h4 : c = '\\' ∧ a = true
            · rcases next_spec s1 hi with ⟨hv1, s2, hn2, -, -, -, -⟩ | ⟨e, s2, hn2, hv2, hi2, -, -⟩
              · rw [hn2, hv1, handleString_cons]
                simp only [h1, h2, h3, if_false]
                rw [if_pos h4, if_pos h4]
                exact ⟨rfl, rfl⟩
              · rw [hn2, hv2, handleString_cons]
                simp only [h1, h2, h3, if_false]
                rw [if_pos h4, if_pos h4]
                have hlen2 : s2.view.length < f := by rw [hv2] at hlen; simp at hlen; omega
                by_cases h5 : e = '\n'
                · simp only [h5, if_true]; exact ih s2 _ _ _ hi2 hlen2
                · simp only [h5, if_false]
                  cases T.unescape e with
                  | some r => exact ih s2 _ _ _ hi2 hlen2
                  | none => exact ih s2 _ _ _ hi2 hlen2
            · rw [handleString_cons]
              simp only [h1, h2, h3, h4, if_false]; exact ih s1 _ _ _ hi hlen

end TokC
