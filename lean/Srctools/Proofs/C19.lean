import Srctools.Model.C19
import Srctools.Proofs.C18
/-!
# Lemmas for C19: Python-dict model, case folding vs. slash replacement, de-duplication
-/
namespace C19
open Path

/-! ## dict -/

theorem dictSet_keys {ν : Type} (d : List (Str × ν)) (k : Str) (v : ν) :
    (dictSet d k v).map (·.1) = if k ∈ d.map (·.1) then d.map (·.1) else d.map (·.1) ++ [k] := by
  induction d with
  | nil => simp [dictSet]
  | cons x r ih =>
    obtain ⟨k', v'⟩ := x
    rw [dictSet]
    by_cases h : k' = k
    · subst h; simp
    · have h' : ¬ k = k' := fun e => h e.symm
      simp only [h, if_false, List.map_cons, ih, List.mem_cons, h', false_or]
      split <;> simp

theorem dictSet_nodup {ν : Type} (d : List (Str × ν)) (k : Str) (v : ν)
    (h : (d.map (·.1)).Nodup) : ((dictSet d k v).map (·.1)).Nodup := by
  rw [dictSet_keys]
  split
  · exact h
  · rename_i hk
    exact List.nodup_append.mpr ⟨h, by simp, by
      intro a ha b hb
      simp only [List.mem_singleton] at hb
      subst hb
      exact fun e => hk (e ▸ ha)⟩

theorem dictOf_aux_nodup {ν : Type} (l : List (Str × ν)) (d : List (Str × ν))
    (h : (d.map (·.1)).Nodup) :
    ((l.foldl (fun d kv => dictSet d kv.1 kv.2) d).map (·.1)).Nodup := by
  induction l generalizing d with
  | nil => exact h
  | cons x r ih => exact ih _ (dictSet_nodup d x.1 x.2 h)

/-- dict keys are pairwise distinct. -/
theorem dictOf_nodup {ν : Type} (l : List (Str × ν)) : ((dictOf l).map (·.1)).Nodup :=
  dictOf_aux_nodup l [] (by simp)

theorem mem_dictSet {ν : Type} (d : List (Str × ν)) (k : Str) (v : ν) (x : Str × ν)
    (h : x ∈ dictSet d k v) : x ∈ d ∨ x = (k, v) := by
  induction d with
  | nil => simp [dictSet] at h; exact Or.inr h
  | cons y r ih =>
    obtain ⟨k', v'⟩ := y
    rw [dictSet] at h
    split at h
    · rename_i hk
      rcases List.mem_cons.mp h with h | h
      · right; rw [h, hk]
      · left; exact List.mem_cons_of_mem _ h
    · rcases List.mem_cons.mp h with h | h
      · left; rw [h]; exact List.mem_cons_self
      · rcases ih h with h | h
        · left; exact List.mem_cons_of_mem _ h
        · right; exact h

theorem mem_dictOf_aux {ν : Type} (l d : List (Str × ν)) (x : Str × ν)
    (h : x ∈ l.foldl (fun d kv => dictSet d kv.1 kv.2) d) : x ∈ d ∨ x ∈ l := by
  induction l generalizing d with
  | nil => exact Or.inl h
  | cons y r ih =>
    rcases ih _ h with h | h
    · rcases mem_dictSet d y.1 y.2 x h with h | h
      · exact Or.inl h
      · right; rw [h]; exact List.mem_cons_self
    · exact Or.inr (List.mem_cons_of_mem _ h)

/-- every dict item is one of the inserted pairs. -/
theorem mem_dictOf {ν : Type} (l : List (Str × ν)) (x : Str × ν) (h : x ∈ dictOf l) : x ∈ l := by
  rcases mem_dictOf_aux l [] x h with h | h
  · cases h
  · exact h

/-- looking up the key of an item of a dict (distinct keys) gives that item's value. -/
theorem dictGet_of_mem {ν : Type} (d : List (Str × ν)) (hd : (d.map (·.1)).Nodup) (k : Str) (v : ν)
    (h : (k, v) ∈ d) : dictGet d k = some v := by
  induction d with
  | nil => cases h
  | cons x r ih =>
    obtain ⟨k', v'⟩ := x
    simp only [List.map_cons, List.nodup_cons] at hd
    unfold dictGet
    rcases List.mem_cons.mp h with h | h
    · cases h; simp
    · have hne : k' ≠ k := by
        intro e; subst e
        exact hd.1 (List.mem_map.mpr ⟨(k', v), h, rfl⟩)
      simp only [List.find?_cons, hne, decide_false]
      exact ih hd.2 h

theorem dictGet_some {ν : Type} (d : List (Str × ν)) (k : Str) (v : ν) (h : dictGet d k = some v) :
    (k, v) ∈ d := by
  unfold dictGet at h
  cases hf : d.find? (fun kv => kv.1 = k) with
  | none => rw [hf] at h; cases h
  | some x =>
    rw [hf] at h
    simp only [Option.map_some, Option.some.injEq] at h
    have h1 := List.mem_of_find?_eq_some hf
    have h2 := List.find?_some hf
    simp only [decide_eq_true_eq] at h2
    obtain ⟨a, b⟩ := x
    simp only at h h2
    subst h h2
    exact h1

/-! ## case folding and slash replacement -/

/-- What is assumed of `str.casefold`: the two slashes and the dot are fixed, and no other
character folds to something containing a slash or backslash. -/
structure FoldOK (fold : Char → List Char) : Prop where
  bs : fold '\\' = ['\\']
  sl : fold '/' = ['/']
  noBs : ∀ c, c ≠ '\\' → '\\' ∉ fold c
  noSl : ∀ c, c ≠ '/' → '/' ∉ fold c

theorem replaceBS_of_not_mem (s : Str) (h : '\\' ∉ s) : replaceBS s = s := by
  induction s with
  | nil => rfl
  | cons c cs ih =>
    have hc : c ≠ '\\' := fun e => h (e ▸ List.mem_cons_self)
    have := ih (fun e => h (List.mem_cons_of_mem _ e))
    simp only [replaceBS, List.map_cons, hc, if_false] at this ⊢
    rw [this]

theorem replaceBS_append (a b : Str) : replaceBS (a ++ b) = replaceBS a ++ replaceBS b := by
  simp [replaceBS]

theorem foldStr_cons (fold : Char → List Char) (c : Char) (s : Str) :
    foldStr fold (c :: s) = fold c ++ foldStr fold s := by
  simp [foldStr]

theorem foldStr_append (fold : Char → List Char) (a b : Str) :
    foldStr fold (a ++ b) = foldStr fold a ++ foldStr fold b := by
  simp [foldStr]

/-- `casefold` and `replace('\\','/')` commute. -/
theorem fold_replaceBS_comm {fold : Char → List Char} (F : FoldOK fold) (s : Str) :
    foldStr fold (replaceBS s) = replaceBS (foldStr fold s) := by
  induction s with
  | nil => rfl
  | cons c cs ih =>
    by_cases hc : c = '\\'
    · subst hc
      have : replaceBS ('\\' :: cs) = '/' :: replaceBS cs := by simp [replaceBS]
      rw [this, foldStr_cons, foldStr_cons, F.sl, F.bs, replaceBS_append, ih]
      simp [replaceBS]
    · have : replaceBS (c :: cs) = c :: replaceBS cs := by simp [replaceBS, hc]
      rw [this, foldStr_cons, foldStr_cons, replaceBS_append, ih,
        replaceBS_of_not_mem (fold c) (F.noBs c hc)]

theorem keyP_eq_keyZ {fold : Char → List Char} (F : FoldOK fold) (q : Str) :
    keyP fold q = keyZ fold q := (fold_replaceBS_comm F q).symm

/-! ## folder prefix vs. directory part (VPK matches on `FileInfo.dir`) -/

theorem prefix_dir_iff (f0 A B : Str) (hB : '/' ∉ B) :
    (f0 ++ ['/']) <+: (A ++ '/' :: B) ↔ (f0 ++ ['/']) <+: (A ++ ['/']) := by
  have e : A ++ '/' :: B = (A ++ ['/']) ++ B := by simp
  constructor
  · intro h1
    rw [e] at h1
    have h2 : (A ++ ['/']) <+: (A ++ ['/']) ++ B := List.prefix_append _ _
    rcases List.prefix_or_prefix_of_prefix h1 h2 with h | h
    · exact h
    · obtain ⟨t, ht⟩ := h
      cases t with
      | nil => simp at ht; rw [← ht]; exact List.prefix_refl _
      | cons x xs =>
        exfalso
        obtain ⟨u, hu⟩ := h1
        rw [← ht] at hu
        have hB' : (x :: xs) ++ u = B := by
          have : (A ++ ['/']) ++ ((x :: xs) ++ u) = (A ++ ['/']) ++ B := by
            rw [← hu]; simp
          exact List.append_cancel_left this
        -- the last character of x :: xs is '/'
        have hl : (x :: xs) = (x :: xs).dropLast ++ [(x :: xs).getLast (by simp)] :=
          (List.dropLast_concat_getLast (by simp)).symm
        have ht' : (A ++ ['/'] ++ (x :: xs).dropLast) ++ [(x :: xs).getLast (by simp)] = f0 ++ ['/'] := by
          rw [List.append_assoc, ← hl]; exact ht
        have := List.append_inj_right' ht' rfl
        simp only [List.cons.injEq, and_true] at this
        apply hB
        rw [← hB']
        apply List.mem_append_left
        rw [← this]
        exact List.getLast_mem _
  · intro h
    rw [e]
    exact List.IsPrefix.trans h (List.prefix_append _ _)

theorem foldStr_no_sep {fold : Char → List Char} (F : FoldOK fold) (s : Str) (h : '/' ∉ s) :
    '/' ∉ foldStr fold s := by
  induction s with
  | nil => simp [foldStr]
  | cons c cs ih =>
    rw [foldStr_cons]
    intro hm
    rcases List.mem_append.mp hm with hm | hm
    · exact F.noSl c (fun e => h (e ▸ List.mem_cons_self)) hm
    · exact ih (fun e => h (List.mem_cons_of_mem _ e)) hm

/-- A name is its directory part, a slash and a slash-free base name (or just the base name). -/
theorem name_dir_base (n : Str) :
    ∃ base, '/' ∉ base ∧
      (((splitOn '/' n).dropLast = [] ∧ n = base) ∨
       ((splitOn '/' n).dropLast ≠ [] ∧ n = dirOf n ++ '/' :: base)) := by
  have hne := splitOn_ne_nil '/' n
  have hs : splitOn '/' n = (splitOn '/' n).dropLast ++ [(splitOn '/' n).getLast hne] :=
    (List.dropLast_concat_getLast hne).symm
  refine ⟨(splitOn '/' n).getLast hne, mem_splitOn_no_sep '/' n _ (List.getLast_mem hne), ?_⟩
  have hj := joinWith_splitOn '/' n
  by_cases hi : (splitOn '/' n).dropLast = []
  · left
    refine ⟨hi, ?_⟩
    rw [hs, hi] at hj
    simpa [joinWith] using hj.symm
  · right
    refine ⟨hi, ?_⟩
    rw [hs, joinWith_append _ _ _ _ hi] at hj
    simpa [joinWith, dirOf] using hj.symm

/-! ## de-duplication -/

theorem dedupFold_sublist {α : Type} (fold : Char → List Char) (seen : List Str) (l : List (Str × α)) :
    (C18.dedupFold fold seen l).Sublist l := by
  induction l generalizing seen with
  | nil => simp [C18.dedupFold]
  | cons x r ih =>
    obtain ⟨p, a⟩ := x
    rw [C18.dedupFold]
    split
    · exact List.Sublist.cons _ (ih seen)
    · exact List.Sublist.cons_cons _ (ih _)

theorem dedupFold_not_seen {α : Type} (fold : Char → List Char) (seen : List Str) (l : List (Str × α)) :
    ∀ x ∈ C18.dedupFold fold seen l, foldStr fold x.1 ∉ seen := by
  induction l generalizing seen with
  | nil => simp [C18.dedupFold]
  | cons y r ih =>
    obtain ⟨p, a⟩ := y
    rw [C18.dedupFold]
    split
    · exact ih seen
    · rename_i hs
      intro x hx
      rcases List.mem_cons.mp hx with rfl | hx
      · simpa using hs
      · exact fun hm => ih _ x hx (List.mem_cons_of_mem _ hm)

theorem dedupFold_nodup {α : Type} (fold : Char → List Char) (seen : List Str) (l : List (Str × α)) :
    ((C18.dedupFold fold seen l).map fun x => foldStr fold x.1).Nodup := by
  induction l generalizing seen with
  | nil => simp [C18.dedupFold]
  | cons y r ih =>
    obtain ⟨p, a⟩ := y
    rw [C18.dedupFold]
    split
    · exact ih seen
    · simp only [List.map_cons, List.nodup_cons]
      refine ⟨?_, ih _⟩
      intro hm
      obtain ⟨x, hx, he⟩ := List.mem_map.mp hm
      exact dedupFold_not_seen fold _ r x hx (he ▸ List.mem_cons_self)

theorem dedupFold_cover {α : Type} (fold : Char → List Char) (seen : List Str) (l : List (Str × α)) :
    ∀ x ∈ l, foldStr fold x.1 ∈ seen ∨ ∃ y ∈ C18.dedupFold fold seen l, foldStr fold y.1 = foldStr fold x.1 := by
  induction l generalizing seen with
  | nil => intro x hx; cases hx
  | cons y r ih =>
    obtain ⟨p, a⟩ := y
    intro x hx
    rw [C18.dedupFold]
    split
    · rename_i hs
      rcases List.mem_cons.mp hx with rfl | hx
      · left; simpa using hs
      · exact ih seen x hx
    · rcases List.mem_cons.mp hx with rfl | hx
      · right; exact ⟨_, List.mem_cons_self, rfl⟩
      · rcases ih (foldStr fold p :: seen) x hx with h | ⟨y, hy, he⟩
        · rcases List.mem_cons.mp h with h | h
          · right; exact ⟨(p, a), List.mem_cons_self, h.symm⟩
          · left; exact h
        · right; exact ⟨y, List.mem_cons_of_mem _ hy, he⟩

/-! ## distinct keys; the directory backend over a file set -/

theorem dictSet_of_not_mem {ν : Type} (d : List (Str × ν)) (k : Str) (v : ν)
    (h : k ∉ d.map (·.1)) : dictSet d k v = d ++ [(k, v)] := by
  induction d with
  | nil => rfl
  | cons x r ih =>
    obtain ⟨k', v'⟩ := x
    simp only [List.map_cons, List.mem_cons, not_or] at h
    rw [dictSet]
    have : ¬ k' = k := fun e => h.1 e.symm
    simp only [this, if_false, ih h.2, List.cons_append]

theorem dictOf_aux_of_nodup {ν : Type} (l d : List (Str × ν))
    (h : ((d ++ l).map (·.1)).Nodup) :
    l.foldl (fun d kv => dictSet d kv.1 kv.2) d = d ++ l := by
  induction l generalizing d with
  | nil => simp
  | cons x r ih =>
    simp only [List.foldl_cons]
    have hx : x.1 ∉ d.map (·.1) := by
      simp only [List.map_append, List.map_cons] at h
      have := (List.nodup_append.mp h).2.2
      intro hm
      exact this _ hm _ List.mem_cons_self rfl
    rw [dictSet_of_not_mem d x.1 x.2 hx]
    have : d ++ [(x.1, x.2)] ++ r = d ++ x :: r := by simp
    rw [ih _ (by rw [this]; exact h), this]

/-- with pairwise distinct keys the dict is the list itself. -/
theorem dictOf_of_nodup {ν : Type} (l : List (Str × ν)) (h : (l.map (·.1)).Nodup) : dictOf l = l := by
  unfold dictOf
  rw [dictOf_aux_of_nodup l [] (by simpa using h)]
  simp



theorem inj_of_nodup_map {α β : Type} (f : α → β) (l : List α) (h : (l.map f).Nodup) {a b : α}
    (ha : a ∈ l) (hb : b ∈ l) (hab : f a = f b) : a = b := by
  induction l with
  | nil => cases ha
  | cons x r ih =>
    simp only [List.map_cons, List.nodup_cons] at h
    rcases List.mem_cons.mp ha with rfl | ha' <;> rcases List.mem_cons.mp hb with rfl | hb'
    · rfl
    · have : f a ∈ r.map f := List.mem_map.mpr ⟨b, hb', hab.symm⟩
      exact absurd this h.1
    · have : f b ∈ r.map f := List.mem_map.mpr ⟨a, ha', hab⟩
      exact absurd this h.1
    · exact ih h.2 ha' hb'

theorem fileAt_rawTree (F : FileSet) (root : Str) (q : Str) (e : FEnt) (he : e ∈ F)
    (hdist : (F.map fun e => comps e.name).Nodup)
    (hq : comps q = comps root ++ comps e.name) :
    C18.fileAt (rawTree ⟨.raw, F, root⟩) q = some ⟨comps root ++ comps e.name, e.id⟩ := by
  unfold C18.fileAt rawTree
  simp only
  cases hf : List.find? (fun x : C18.Ent => x.comps == comps q)
      (F.map fun e => (⟨comps root ++ comps e.name, e.id⟩ : C18.Ent)) with
  | none =>
    exfalso
    have := List.find?_eq_none.mp hf ⟨comps root ++ comps e.name, e.id⟩
      (List.mem_map.mpr ⟨e, he, rfl⟩)
    simp [hq] at this
  | some x =>
    have hm := List.mem_of_find?_eq_some hf
    have hp := List.find?_some hf
    obtain ⟨e', he', rfl⟩ := List.mem_map.mp hm
    simp only [beq_iff_eq, hq, List.append_cancel_left_eq] at hp
    have : e' = e := by
      exact inj_of_nodup_map (fun e => comps e.name) F hdist he' he hp
    rw [this]

end C19
