import Srctools.Model.C20
import Srctools.Proofs.Tok
/-! Helper lemmas for the quoting layers of C20 over the tokenizer model. -/
namespace C20
open Tok

/-- Quoted text read with escapes disabled: no `"` and no CR inside → read back unchanged. -/
theorem handleString_raw (T : Tables) (s rest acc : List Char) (line : Nat)
    (h1 : '"' ∉ s) (h2 : '\r' ∉ s) :
    handleString T false (s ++ '"' :: rest) acc false line
      = .ok (acc.reverse ++ s) (line + s.count '\n') rest := by
  induction s generalizing acc line with
  | nil => simp [handleString_cons]
  | cons c cs ih =>
    have hc1 : c ≠ '"' := fun h => h1 (by simp [h])
    have hc2 : c ≠ '\r' := fun h => h2 (by simp [h])
    have h1' : '"' ∉ cs := fun h => h1 (by simp [h])
    have h2' : '\r' ∉ cs := fun h => h2 (by simp [h])
    simp only [List.cons_append]
    rw [handleString_cons]
    by_cases hn : c = '\n'
    · subst hn
      simp only [hc1, hc2, if_false, if_true, Bool.false_eq_true]
      rw [ih _ _ h1' h2']
      simp; omega
    · simp only [hc1, hc2, hn, if_false, Bool.false_eq_true, and_false]
      rw [ih _ _ h1' h2']
      have : (c == '\n') = false := by simpa using hn
      simp [List.count_cons, this]

theorem scanBare_cons (T : Tables) (o : Opts) (fold : Char → List Char) (c : Char)
    (cs acc : List Char) :
    scanBare T o fold (c :: cs) acc =
      if isBareEnd T o c then (acc.reverse, c :: cs)
      else scanBare T o fold cs ((fold c).reverse ++ acc) := by
  rw [scanBare.eq_def]

theorem scanBare_run (T : Tables) (o : Opts) (s : List Char) (d : Char) (rest acc : List Char)
    (hs : ∀ c ∈ s, isBareEnd T o c = false) (hd : isBareEnd T o d = true) :
    scanBare T o (fun x => [x]) (s ++ d :: rest) acc = (acc.reverse ++ s, d :: rest) := by
  induction s generalizing acc with
  | nil => simp [scanBare_cons, hd]
  | cons c cs ih =>
    simp only [List.cons_append]
    rw [scanBare_cons]
    simp only [hs c (by simp), Bool.false_eq_true, if_false]
    rw [show ([c].reverse ++ acc) = c :: acc from rfl, ih _ (fun x hx => hs x (by simp [hx]))]
    simp

/-- Decidable facts about the tokenizer tables that the VMT quoting rule relies on. -/
def vmtTablesOK (T : Tables) (lead : List Char) : Bool :=
  T.operators.all (fun p => T.bareDisallowed.contains p.1) &&
  ['\r', '\n', ' ', '\t', '"', '[', '(', ']', ')'].all T.bareDisallowed.contains &&
  lead.contains '/' && lead.contains '#' && (T.operator '"').isNone

theorem operator_none_of_not_bare {T : Tables} {lead : List Char} (h : vmtTablesOK T lead = true)
    {c : Char} (hc : T.bareDisallowed.contains c = false) : T.operator c = none := by
  unfold vmtTablesOK at h
  simp only [Bool.and_eq_true, List.all_eq_true] at h
  unfold Tables.operator
  cases hf : T.operators.find? (·.1 == c) with
  | none => rfl
  | some p =>
    have hm := List.mem_of_find?_eq_some hf
    have hp := List.find?_some hf
    simp at hp
    have := h.1.1.1.1 p hm
    rw [hp] at this
    rw [this] at hc
    cases hc


theorem ne_of_bare {T : Tables} {x c : Char} (hx : T.bareDisallowed.contains x = true)
    (hc : T.bareDisallowed.contains c = false) : c ≠ x := by
  intro h; subst h; rw [hx] at hc; cases hc

theorem isBareEnd_vmt (T : Tables) (c : Char) : isBareEnd T vmtOpts c = T.bareDisallowed.contains c := by
  simp [isBareEnd, vmtOpts]

theorem vmtQuote_read (T : Tables) (lead : List Char) (hT : vmtTablesOK T lead = true)
    (fold : Char → List Char) (s : List Char) (d : Char) (rest : List Char) (st : St) (fuel : Nat)
    (hq : '"' ∉ s) (hr : '\r' ∉ s) (hd : T.bareDisallowed.contains d = true)
    (hbom : ¬ (s.head? = some (Char.ofNat 0xFEFF) ∧ st.line = 1)) :
    nextToken T vmtOpts fold (fuel + 1) st (vmtQuote T lead s ++ d :: rest)
      = .tok .string s { line := st.line + s.count '\n', lastCr := false } (d :: rest) := by
  have hT' := hT
  unfold vmtTablesOK at hT'
  simp only [Bool.and_eq_true, List.all_eq_true] at hT'
  obtain ⟨⟨⟨⟨hops, hbd⟩, hl1⟩, hl2⟩, hqop⟩ := hT'
  have hqop' : T.operator '"' = none := by simpa using hqop
  unfold vmtQuote
  by_cases hneed : vmtNeedsQuote T lead s = true
  · simp only [hneed, if_true, List.cons_append, List.append_assoc, List.nil_append]
    rw [nextToken]
    simp only [hqop']
    have e1 : ('"' : Char) ≠ '\r' := by decide
    have e2 : ('"' : Char) ≠ '\n' := by decide
    have e3 : ¬ (('"' : Char) = ' ' ∨ ('"' : Char) = '\t') := by decide
    have e4 : ('"' : Char) ≠ '/' := by decide
    simp only [e1, e2, e3, e4, if_false, if_true]
    have : vmtOpts.allowEscapes = false := rfl
    rw [this, handleString_raw T s (d :: rest) [] st.line hq hr]
    simp
  · have hneed' : vmtNeedsQuote T lead s = false := by simpa using hneed
    cases s with
    | nil => simp [vmtNeedsQuote] at hneed'
    | cons c cs =>
      simp only [vmtNeedsQuote, Bool.or_eq_false_iff, List.any_eq_false] at hneed'
      obtain ⟨hlead, hall⟩ := hneed'
      have hbare : ∀ x ∈ c :: cs, T.bareDisallowed.contains x = false := by
        intro x hx; simpa using hall x hx
      have hc := hbare c (by simp)
      have B := fun x (hx : x ∈ ['\r', '\n', ' ', '\t', '"', '[', '(', ']', ')']) => ne_of_bare (hbd x hx) hc
      have n1 := B '\r' (by simp)
      have n2 := B '\n' (by simp)
      have n3 := B ' ' (by simp)
      have n4 := B '\t' (by simp)
      have n5 := B '"' (by simp)
      have n6 := B '[' (by simp)
      have n7 := B '(' (by simp)
      have n8 := B ']' (by simp)
      have n9 := B ')' (by simp)
      have n10 : c ≠ '/' := by intro h; subst h; rw [hl1] at hlead; cases hlead
      have n11 : c ≠ '#' := by intro h; subst h; rw [hl2] at hlead; cases hlead
      have nbom : ¬ (c = Char.ofNat 0xFEFF ∧ st.line = 1) := by
        intro h; exact hbom ⟨by simp [h.1], h.2⟩
      simp only [hneed, Bool.false_eq_true, if_false, List.cons_append]
      rw [nextToken]
      simp only [operator_none_of_not_bare hT hc]
      have n34 : ¬ (c = ' ' ∨ c = '\t') := by intro h; rcases h with h | h <;> contradiction
      have nc : ¬ (c = ':' ∧ vmtOpts.colonOperator = true) := by simp [vmtOpts]
      have np : ¬ (c = '+' ∧ vmtOpts.plusOperator = true) := by simp [vmtOpts]
      simp only [n1, n2, n34, n5, n6, n7, n8, n9, n10, n11, nbom, nc, np, if_false, hc,
        Bool.not_false, if_true]
      rw [scanBare_run T vmtOpts cs d rest [c]
        (fun x hx => by rw [isBareEnd_vmt]; exact hbare x (by simp [hx]))
        (by rw [isBareEnd_vmt]; exact hd)]
      have hcnt : List.count '\n' (c :: cs) = 0 := by
        apply List.count_eq_zero.mpr
        intro hmem
        have := hbare '\n' hmem
        rw [hbd '\n' (by simp)] at this
        cases this
      simp [hcnt]

end C20
