import Srctools.Model.TokC
/-! Foundation lemmas for the chunk cursor `TokC.Src`: what `_next_char` and the push-back do to the
abstract view "characters still to be read". -/

namespace TokC

theorem firstNonEmpty_flatten : ∀ (r : List (List Char)),
    match firstNonEmpty r with
    | none => r.flatten = []
    | some (ch, r') => ch ≠ [] ∧ r.flatten = ch ++ r'.flatten
  | [] => by simp [firstNonEmpty]
  | [] :: r => by simpa [firstNonEmpty] using firstNonEmpty_flatten r
  | (c :: cs) :: r => by simp [firstNonEmpty]

/-- The cursor invariant: the index is never below -1 (so Python's negative wrap-around of
`_cur_chunk[_char_index]` cannot happen on the next read). -/
def Src.Inv (s : Src) : Prop := -1 ≤ s.idx

theorem view_ofChunks (cs : List (List Char)) : (Src.ofChunks cs).view = cs.flatten := by
  simp [Src.ofChunks, Src.view]

theorem view_ofString (t : List Char) : (Src.ofString t).view = t := by
  simp [Src.ofString, Src.view]

theorem inv_ofChunks (cs : List (List Char)) : (Src.ofChunks cs).Inv := by
  simp [Src.ofChunks, Src.Inv]

theorem inv_ofString (t : List Char) : (Src.ofString t).Inv := by
  simp [Src.ofString, Src.Inv]

/-- `_next_char` reads the head of the view and the view advances; the invariant is kept. -/
theorem next_view (s : Src) (h : -1 ≤ s.idx) :
    (s.next.1 = s.view.head?) ∧ (s.next.2.view = s.view.tail) ∧ (-1 ≤ s.next.2.idx) := by
  obtain ⟨cur, idx, rest, calls⟩ := s
  simp only at h
  obtain ⟨n, hn⟩ : ∃ n : Nat, idx + 1 = n := ⟨(idx+1).toNat, by omega⟩
  have hpy : pyIndex cur (idx + 1) = cur[n]? := by
    simp [pyIndex, hn]
  unfold Src.next Src.view
  simp only [hpy]
  cases hc : cur[n]? with
  | some c =>
    have hlt : n < cur.length := by
      rcases List.getElem?_eq_some_iff.mp hc with ⟨h1, _⟩; exact h1
    have hdrop : cur.drop n = c :: cur.drop (n+1) := by
      rw [List.drop_eq_getElem_cons hlt]
      congr 1
      rcases List.getElem?_eq_some_iff.mp hc with ⟨_, h2⟩; exact h2
    have e1 : (↑n + 1 : Int).toNat = n + 1 := by omega
    simp [hn, hdrop, e1]
  | none =>
    have hge : cur.length ≤ n := List.getElem?_eq_none_iff.mp hc
    have hdrop : cur.drop n = [] := List.drop_eq_nil_of_le hge
    have := firstNonEmpty_flatten rest
    cases hf : firstNonEmpty rest with
    | none =>
      simp [hf] at this
      have e1 : (↑n + 1 : Int).toNat = n + 1 := by omega
      have hd2 : cur.drop (n+1) = [] := List.drop_eq_nil_of_le (by omega)
      have hfl : rest.flatten = [] := by
        simpa [List.flatten_eq_nil_iff] using this
      simp [hn, hdrop, hfl, e1, hd2, List.flatten]
    | some p =>
      obtain ⟨ch, r'⟩ := p
      simp [hf] at this
      obtain ⟨hne, hfl⟩ := this
      cases ch with
      | nil => exact absurd rfl hne
      | cons a as =>
        simp [hn, hdrop, hfl]

/-- After a successful `_next_char` the index points at the character just read. -/
theorem next_points (s : Src) (h : -1 ≤ s.idx) (c : Char) (hc : s.next.1 = some c) :
    0 ≤ s.next.2.idx ∧ s.next.2.cur[s.next.2.idx.toNat]? = some c := by
  obtain ⟨cur, idx, rest, calls⟩ := s
  simp only at h
  obtain ⟨n, hn⟩ : ∃ n : Nat, idx + 1 = n := ⟨(idx+1).toNat, by omega⟩
  have hpy : pyIndex cur (idx + 1) = cur[n]? := by simp [pyIndex, hn]
  unfold Src.next at hc ⊢
  simp only [hpy] at hc ⊢
  cases hcn : cur[n]? with
  | some d =>
    simp [hcn] at hc ⊢
    subst hc
    simp [hn, hcn]
  | none =>
    simp [hcn] at hc ⊢
    cases hf : firstNonEmpty rest with
    | none => simp [hf] at hc
    | some p =>
      obtain ⟨ch, r'⟩ := p
      simp [hf] at hc ⊢
      cases ch with
      | nil => simp at hc
      | cons a as => simp at hc; simp [hc]

/-- Push-back after a successful read puts the character back in front of the view. -/
theorem back_view (s : Src) (c : Char) (h0 : 0 ≤ s.idx) (hc : s.cur[s.idx.toNat]? = some c) :
    s.back.view = c :: s.view ∧ -1 ≤ s.back.idx := by
  obtain ⟨cur, idx, rest, calls⟩ := s
  simp only at h0 hc
  obtain ⟨n, hn⟩ : ∃ n : Nat, idx = n := ⟨idx.toNat, by omega⟩
  subst hn
  simp at hc
  have hlt : n < cur.length := by
    rcases List.getElem?_eq_some_iff.mp hc with ⟨h1, _⟩; exact h1
  have hdrop : cur.drop n = c :: cur.drop (n+1) := by
    rw [List.drop_eq_getElem_cons hlt]
    congr 1
    rcases List.getElem?_eq_some_iff.mp hc with ⟨_, h2⟩; exact h2
  have e1 : ((n:Int) + 1).toNat = n + 1 := by omega
  simp [Src.back, Src.view, hdrop, e1]
  omega

/-- After a *failed* read (end of input) the index is past the end of the current chunk and the
iterator is exhausted, so a push-back leaves the view empty and keeps the invariant. -/
theorem next_none_back (s : Src) (h : -1 ≤ s.idx) (hn : s.next.1 = none) :
    s.next.2.back.view = [] ∧ -1 ≤ s.next.2.back.idx := by
  obtain ⟨cur, idx, rest, calls⟩ := s
  simp only at h
  obtain ⟨n, hn'⟩ : ∃ n : Nat, idx + 1 = n := ⟨(idx+1).toNat, by omega⟩
  have hpy : pyIndex cur (idx + 1) = cur[n]? := by simp [pyIndex, hn']
  unfold Src.next at hn ⊢
  simp only [hpy] at hn ⊢
  cases hcn : cur[n]? with
  | some d => simp [hcn] at hn
  | none =>
    have hge : cur.length ≤ n := List.getElem?_eq_none_iff.mp hcn
    simp only [hcn] at hn ⊢
    cases hf : firstNonEmpty rest with
    | some p =>
      obtain ⟨ch, r'⟩ := p
      have := firstNonEmpty_flatten rest
      simp [hf] at this hn
      exact absurd hn this.1
    | none =>
      simp only [Src.back, Src.view]
      have e1 : (idx + 1 - 1 + 1).toNat = n := by omega
      rw [e1, List.drop_eq_nil_of_le hge]
      simp
      omega

/-- Everything the loop proofs need about one `_next_char`, in one statement. -/
theorem next_spec (s : Src) (h : s.Inv) :
    (s.view = [] ∧ ∃ s1, s.next = (none, s1) ∧ s1.view = [] ∧ s1.Inv ∧ s1.back.view = [] ∧ s1.back.Inv) ∨
    (∃ c s1, s.next = (some c, s1) ∧ s.view = c :: s1.view ∧ s1.Inv ∧
      s1.back.view = c :: s1.view ∧ s1.back.Inv) := by
  obtain ⟨h1, h2, h3⟩ := next_view s h
  cases hn : s.next with
  | mk co s1 =>
    rw [hn] at h1 h2 h3
    simp only at h1 h2 h3
    cases co with
    | none =>
      left
      have hv : s.view = [] := by
        cases hvv : s.view with
        | nil => rfl
        | cons a as => rw [hvv] at h1; simp at h1
      have hb := next_none_back s h (by rw [hn])
      rw [hn] at hb
      refine ⟨hv, s1, rfl, ?_, h3, hb.1, hb.2⟩
      rw [h2, hv]; rfl
    | some c =>
      right
      have hv : s.view = c :: s1.view := by
        cases hvv : s.view with
        | nil => rw [hvv] at h1; simp at h1
        | cons a as =>
          rw [hvv] at h1 h2; simp at h1 h2; subst h1; rw [h2]
      have hp := next_points s h c (by rw [hn])
      rw [hn] at hp
      simp only at hp
      obtain ⟨b1, b2⟩ := back_view s1 c hp.1 hp.2
      exact ⟨c, s1, rfl, hv, h3, b1, b2⟩

/-- Each `_next_char` is counted once. -/
theorem next_calls (s : Src) : s.next.2.calls = s.calls + 1 := by
  simp only [Src.next]
  split
  · rfl
  · split <;> rfl

theorem back_calls (s : Src) : s.back.calls = s.calls := rfl

end TokC
