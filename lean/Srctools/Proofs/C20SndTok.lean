import Srctools.Proofs.C20Snd
import Srctools.Proofs.C20Tok
import Srctools.Proofs.C01
/-! Text level of the hand-written KeyValues writers: the tokens of an annotated layout are the
tokens of `Keyvalues.serialise` of the tree it denotes; hence `Keyvalues.parse` reads that tree. -/
set_option linter.unusedSimpArgs false
namespace C20.Snd
open Tok C01

def bom : Char := Char.ofNat 0xFEFF

/-- a string the tokenizer reads back as one bare STRING token, under any options. -/
def bareWord (T : Tables) (w : List Char) : Bool :=
  match w with
  | [] => false
  | c :: _ =>
    w.all (fun x => !T.bareDisallowed.contains x && x != ':' && x != '+') &&
    (T.operator c).isNone &&
    !(['\r', '\n', ' ', '\t', '/', '"', '[', '(', ']', ')', '#', bom].contains c)

theorem next_bare {T : Tables} (o : Opts) (fold : Char → List Char) (w : List Char) (d : Char)
    (rest : List Char) (hb : bareWord T w = true) (hd : T.bareDisallowed.contains d = true)
    (f l : Nat) :
    nextToken T o fold (f + 1) ⟨l, false⟩ (w ++ d :: rest) = .tok .string w ⟨l, false⟩ (d :: rest) := by
  cases w with
  | nil => simp [bareWord] at hb
  | cons c cs =>
    simp only [bareWord, Bool.and_eq_true, List.all_eq_true, Bool.not_eq_true', bne_iff_ne, ne_eq,
      Option.isNone_iff_eq_none] at hb
    obtain ⟨⟨hall, hop⟩, hfirst⟩ := hb
    have hc := hall c (by simp)
    have hne : ∀ x ∈ ['\r', '\n', ' ', '\t', '/', '"', '[', '(', ']', ')', '#', bom], c ≠ x := by
      intro x hx h; subst h
      have : (['\r', '\n', ' ', '\t', '/', '"', '[', '(', ']', ')', '#', bom].contains c) = true := by
        simpa using hx
      rw [this] at hfirst; cases hfirst
    have n1 := hne '\r' (by simp)
    have n2 := hne '\n' (by simp)
    have n3 := hne ' ' (by simp)
    have n4 := hne '\t' (by simp)
    have n5 := hne '/' (by simp)
    have n6 := hne '"' (by simp)
    have n7 := hne '[' (by simp)
    have n8 := hne '(' (by simp)
    have n9 := hne ']' (by simp)
    have n10 := hne ')' (by simp)
    have n11 := hne '#' (by simp)
    have n12 : c ≠ Char.ofNat 0xFEFF := hne bom (by simp)
    have n34 : ¬ (c = ' ' ∨ c = '\t') := by intro h; rcases h with h | h <;> contradiction
    have nbom : ¬ (c = Char.ofNat 0xFEFF ∧ l = 1) := fun h => n12 h.1
    have nc : ¬ (c = ':' ∧ o.colonOperator = true) := fun h => hc.1.2 h.1
    have np : ¬ (c = '+' ∧ o.plusOperator = true) := fun h => hc.2 h.1
    have hbd : T.bareDisallowed.contains c = false := hc.1.1
    simp only [List.cons_append]
    rw [nextToken]
    simp only [hop, n1, n2, n34, n5, n6, n7, n8, n9, n10, n11, nbom, nc, np, if_false, hbd,
      Bool.not_false, if_true]
    have hend : ∀ x ∈ cs, isBareEnd T o x = false := by
      intro x hx
      have := hall x (by simp [hx])
      unfold isBareEnd
      rw [this.1.1]
      simp [this.1.2, this.2]
    have hdend : isBareEnd T o d = true := by unfold isBareEnd; rw [hd]; rfl
    rw [scanBare_run T o cs d rest [c] hend hdend]
    simp


theorem isWs_tab : isWs ['\t'] := by intro c hc; simp at hc; exact Or.inr hc
theorem isWs_sp : isWs [' '] := by intro c hc; simp at hc; exact Or.inl hc

section lexA
variable {T : Tables} (hE : escOK T = true) (F : KvFacts T) (o : Opts) (ho : o.allowEscapes = true)
  (fold : Char → List Char)
include hE F ho

omit hE ho in
theorem run_bare (ws : List Char) (hws : isWs ws) (w : List Char) (d : Char) (rest : List Char)
    (hb : bareWord T w = true) (hd : T.bareDisallowed.contains d = true) (n l : Nat) (acc : List Obs) :
    runAux T o fold (n + 1) ⟨l, false⟩ (ws ++ (w ++ d :: rest)) acc
      = runAux T o fold n ⟨l, false⟩ (d :: rest) (⟨1, w, l⟩ :: acc) := by
  rw [runAux, List.length_append, Nat.add_assoc, next_skipWs F o fold ws hws]
  have : (w ++ d :: rest).length + 1 = ((w ++ d :: rest).length) + 1 := rfl
  rw [next_bare o fold w d rest hb hd]
  simp [Kind.code]

/-- how each kind of field must look for the tokenizer to read it back. -/
def fieldOK (T : Tables) : Q → List Char → Prop
  | .bare, s => bareWord T s = true
  | .raw, s => escapeText T false s = s
  | .esc, _ => True

/-- one field followed by a delimiter from BARE_DISALLOWED: one STRING token. -/
theorem run_field (q : Q) (ws : List Char) (hws : isWs ws) (s : List Char) (d : Char) (rest : List Char)
    (hq : fieldOK T q s) (hd : T.bareDisallowed.contains d = true) (n l : Nat) (acc : List Obs) :
    runAux T o fold (n + 1) ⟨l, false⟩ (ws ++ (wr T q s ++ d :: rest)) acc
      = runAux T o fold n ⟨l, false⟩ (d :: rest) (⟨1, s, l⟩ :: acc) := by
  cases q with
  | bare => exact run_bare F o fold ws hws s d rest hq hd n l acc
  | raw =>
    have := run_string hE F o ho fold ws hws s (d :: rest) n l acc
    simp only [fieldOK] at hq
    rw [hq] at this
    simpa [wr] using this
  | esc =>
    have := run_string hE F o ho fold ws hws s (d :: rest) n l acc
    simpa [wr] using this

mutual
def okA (T : Tables) : AKV → Prop
  | .leaf nq n vq v => fieldOK T nq n ∧ fieldOK T vq v
  | .block nq n cs => fieldOK T nq n ∧ okAList T cs
  | .plain _ => True
def okAList (T : Tables) : List AKV → Prop
  | [] => True
  | a :: as => okA T a ∧ okAList T as
end

/-- blank and line feed end a bare string. -/
def sndTablesOK (T : Tables) : Bool := T.bareDisallowed.contains ' ' && T.bareDisallowed.contains '\n'


variable (hT : sndTablesOK T = true)
include hT

mutual
/-- Lexing the text of an annotated node gives the tokens of the tree it denotes. -/
theorem lexA (a : AKV) (ha : okA T a) (cur : List Char) (hcur : isWs cur) (l k : Nat) (rest : List Char)
    (acc : List Obs) :
    runAux T o fold (k + (toksKV l (erase a)).length) ⟨l, false⟩ (serA T fullCfg cur a ++ rest) acc
      = runAux T o fold k ⟨l + linesKV (erase a), false⟩ rest ((toksKV l (erase a)).reverse ++ acc) := by
  have hsp : T.bareDisallowed.contains ' ' = true := by
    unfold sndTablesOK at hT; simp only [Bool.and_eq_true] at hT; exact hT.1
  have hnl : T.bareDisallowed.contains '\n' = true := by
    unfold sndTablesOK at hT; simp only [Bool.and_eq_true] at hT; exact hT.2
  match a with
  | .leaf nq n vq v =>
    obtain ⟨h1, h2⟩ := ha
    simp only [serA, erase, toksKV, linesKV, List.length_cons, List.length_nil, List.append_assoc,
      List.cons_append, List.nil_append]
    rw [show k + (0 + 1 + 1 + 1) = (k + 2) + 1 from by omega,
      run_field hE F o ho fold nq cur hcur n ' ' _ h1 hsp,
      show k + 2 = (k + 1) + 1 from rfl]
    have := run_field hE F o ho fold vq [' '] isWs_sp v '\n' rest h2 hnl (k + 1) l (⟨1, n, l⟩ :: acc)
    simp only [List.cons_append, List.nil_append] at this
    rw [this, run_newline F o fold]
    simp
  | .block nq n cs =>
    obtain ⟨h1, h2⟩ := ha
    simp only [serA, erase, toksKV, linesKV, List.length_cons, List.length_append, List.length_nil,
      List.append_assoc, List.cons_append, List.nil_append]
    rw [show k + (toksList (l + 2) (eraseList cs)).length.succ.succ.succ.succ.succ.succ =
        (((((k + 2) + (toksList (l + 2) (eraseList cs)).length) + 1) + 1) + 1) + 1 from by omega]
    rw [run_field hE F o ho fold nq cur hcur n '\n' _ h1 hnl, run_newline F o fold]
    have hbo := run_braceOpen F o fold cur ['\t'] hcur isWs_tab
    simp only [List.cons_append, List.nil_append] at hbo
    rw [hbo, run_newline F o fold, show l + 1 + 1 = l + 2 from rfl,
      lexAList cs h2 (cur ++ ['\t']) (isWs_append hcur isWs_tab),
      show k + 2 = (k + 1) + 1 from rfl]
    have hbc := run_braceClose F o fold cur ['\t'] hcur isWs_tab
    simp only [List.cons_append, List.nil_append] at hbc
    rw [hbc, run_newline F o fold]
    rw [show l + 2 + linesList (eraseList cs) + 1 = l + 3 + linesList (eraseList cs) from by omega,
      show l + (3 + linesList (eraseList cs)) = l + 3 + linesList (eraseList cs) from by omega]
    simp
  | .plain t =>
    simp only [serA, erase]
    exact lex_kv hE F o ho fold serOpts isWs_tab t cur hcur l k rest acc
theorem lexAList (as : List AKV) (ha : okAList T as) (cur : List Char) (hcur : isWs cur) (l k : Nat)
    (rest : List Char) (acc : List Obs) :
    runAux T o fold (k + (toksList l (eraseList as)).length) ⟨l, false⟩ (serAList T fullCfg cur as ++ rest) acc
      = runAux T o fold k ⟨l + linesList (eraseList as), false⟩ rest
          ((toksList l (eraseList as)).reverse ++ acc) := by
  match as with
  | [] => simp [serAList, eraseList, toksList, linesList]
  | a :: as =>
    obtain ⟨h1, h2⟩ := ha
    simp only [serAList, eraseList, toksList, linesList, List.length_append, List.append_assoc]
    rw [show k + ((toksKV l (erase a)).length + (toksList (l + linesKV (erase a)) (eraseList as)).length) =
        (k + (toksList (l + linesKV (erase a)) (eraseList as)).length) + (toksKV l (erase a)).length from by omega,
      lexA a h1 cur hcur, lexAList as h2 cur hcur]
    simp [Nat.add_assoc]
end

end lexA


theorem wr_length_pos {T : Tables} (q : Q) (s : List Char) (h : fieldOK T q s) : 1 ≤ (wr T q s).length := by
  cases q with
  | bare =>
    simp only [fieldOK] at h
    cases s with
    | nil => simp [bareWord] at h
    | cons c cs => simp [wr]
  | raw => simp [wr]
  | esc => simp [wr]

mutual
theorem toks_lenA {T : Tables} (a : AKV) (ha : okA T a) (cur : List Char) (l : Nat) :
    (toksKV l (erase a)).length ≤ (serA T fullCfg cur a).length := by
  match a with
  | .leaf nq n vq v =>
    have h1 := wr_length_pos nq n ha.1
    have h2 := wr_length_pos vq v ha.2
    simp [serA, erase, toksKV]; omega
  | .block nq n cs =>
    have h1 := wr_length_pos nq n ha.1
    have := toks_lenAList cs ha.2 (cur ++ ['\t']) (l + 2)
    simp [serA, erase, toksKV]; omega
  | .plain t =>
    simp only [serA, erase]
    exact toks_len_kv (so := serOpts) fullCfg t cur l
theorem toks_lenAList {T : Tables} (as : List AKV) (ha : okAList T as) (cur : List Char) (l : Nat) :
    (toksList l (eraseList as)).length ≤ (serAList T fullCfg cur as).length := by
  match as with
  | [] => simp [serAList, eraseList, toksList]
  | a :: as =>
    have h1 := toks_lenA a ha.1 cur l
    have h2 := toks_lenAList as ha.2 cur (l + linesKV (erase a))
    simp [serAList, eraseList, toksList]; omega
end

/-- The whole token stream of the text of an annotated node = that of `Keyvalues.serialise` of
the tree it denotes. -/
theorem run_serA {T : Tables} (hE : escOK T = true) (hK : kvOK T = true) (hT : sndTablesOK T = true)
    (o : Opts) (ho : o.allowEscapes = true) (fold : Char → List Char) (a : AKV) (ha : okA T a) :
    run T o fold (serA T fullCfg [] a)
      = { toks := toksKV 1 (erase a) ++ [⟨0, [], 1 + linesKV (erase a)⟩], err := none } := by
  unfold run
  have hlen := toks_lenA a ha [] 1
  obtain ⟨k, hk⟩ : ∃ k, (serA T fullCfg [] a).length + 2 = (k + 1) + (toksKV 1 (erase a)).length :=
    ⟨(serA T fullCfg [] a).length + 1 - (toksKV 1 (erase a)).length, by omega⟩
  have h := lexA hE (kvFacts hK) o ho fold hT a ha [] isWs_nil 1 (k + 1) [] []
  rw [List.append_nil] at h
  rw [hk]
  show runAux T o fold (k + 1 + (toksKV 1 (erase a)).length) ⟨1, false⟩ _ [] = _
  rw [h, run_eof]
  simp

/-- **Text level.** `Keyvalues.parse` of the text of an annotated node is a root holding exactly
the tree it denotes (composition with the parser machine of C01). -/
theorem parse_serA {T : Tables} (hE : escOK T = true) (hK : kvOK T = true) (hT : sndTablesOK T = true)
    (po : ParseOpts) (hesc : po.allowEscapes = true) (hsb : po.singleBlock = false)
    (fold : Char → List Char) (a : AKV) (ha : okA T a) (ht : okKV po (erase a) = true) :
    C01.parse T po fold (serA T fullCfg [] a) = .root [erase a] := by
  unfold C01.parse parseRun
  rw [run_serA hE hK hT (tokOpts po) (by simpa [tokOpts] using hesc) fold a ha]
  show parseToks po fold initState (toksKV 1 (erase a) ++ [⟨0, [], 1 + linesKV (erase a)⟩]) none = _
  unfold initState
  rw [parse_kv po fold (erase a) ht 1 _ [] (Or.inl hsb) false]
  simp [parseToks, step, stepTop, kEof, finish]


/-! ## the soundscript writer -/

/-- the keywords `Sound.export` writes bare are bare words of the tokenizer. -/
def sndKwOK (T : Tables) : Bool :=
  [kChannel, kSoundlevel, kVolume, kPitch, kRndwave, kWave, kVersion, kStacks, kStart, kUpdate, kStop, two].all
    (bareWord T)

/-- what the text theorem asks of a sound: its channel text is a bare word, its three range texts
need no escaping (they are written between plain quotes). -/
structure SndTextOK (T : Tables) (s : SoundIn) : Prop where
  chan : bareWord T s.channel.txt = true
  level : escapeText T false (join s.level) = join s.level
  volume : escapeText T false (join s.volume) = join s.volume
  pitch : escapeText T false (join s.pitch) = join s.pitch

theorem okAList_append {T : Tables} (a b : List AKV) (ha : okAList T a) (hb : okAList T b) :
    okAList T (a ++ b) := by
  induction a with
  | nil => exact hb
  | cons x xs ih => exact ⟨ha.1, ih ha.2⟩

theorem okAList_plain {T : Tables} (cs : List KV) : okAList T (cs.map AKV.plain) := by
  induction cs with
  | nil => trivial
  | cons x xs ih => exact ⟨trivial, ih⟩

theorem okAList_waves {T : Tables} (hw : bareWord T kWave = true) (ws : List (List Char)) :
    okAList T (ws.map fun w => AKV.leaf Q.bare kWave Q.esc w) := by
  induction ws with
  | nil => trivial
  | cons x xs ih => exact ⟨⟨hw, trivial⟩, ih⟩

theorem okA_exportSnd {T : Tables} (hk : sndKwOK T = true) (s : SoundIn) (h : SndTextOK T s) :
    okA T (exportSnd s) := by
  unfold sndKwOK at hk
  simp only [List.all_eq_true] at hk
  have b1 := hk kChannel (by simp)
  have b2 := hk kSoundlevel (by simp)
  have b3 := hk kVolume (by simp)
  have b4 := hk kPitch (by simp)
  have b5 := hk kRndwave (by simp)
  have b6 := hk kWave (by simp)
  have b7 := hk kVersion (by simp)
  have b8 := hk kStacks (by simp)
  have b9 := hk kStart (by simp)
  have b10 := hk kUpdate (by simp)
  have b11 := hk kStop (by simp)
  have b12 := hk two (by simp)
  unfold exportSnd
  refine ⟨trivial, ?_⟩
  refine okAList_append _ _ (okAList_append _ _ (okAList_append _ _ (okAList_append _ _ ?_ ?_) ?_) ?_) ?_
  · exact ⟨⟨b1, h.chan⟩, ⟨b2, h.level⟩, trivial⟩
  · cases s.volDefault
    · exact ⟨⟨b3, h.volume⟩, trivial⟩
    · trivial
  · cases s.pitchDefault
    · exact ⟨⟨b4, h.pitch⟩, trivial⟩
    · trivial
  · unfold wavesA
    split
    · exact ⟨⟨b6, trivial⟩, trivial⟩
    · exact ⟨⟨b5, okAList_waves b6 _⟩, trivial⟩
  · cases isV2 s
    · trivial
    · refine ⟨⟨b7, b12⟩, ⟨b8, ?_⟩, trivial⟩
      refine okAList_append _ _ (okAList_append _ _ ?_ ?_) ?_ <;>
      · unfold stackA
        split
        · trivial
        · exact ⟨⟨by assumption, okAList_plain _⟩, trivial⟩

/-- **Soundscript, text level.** `Keyvalues.parse(text written by Sound.export)` is a root with
exactly the tree `exportSndKV s`. -/
theorem parse_exportSndText {T : Tables} (hE : escOK T = true) (hK : kvOK T = true)
    (hT : sndTablesOK T = true) (hk : sndKwOK T = true) (po : ParseOpts) (hesc : po.allowEscapes = true)
    (hsb : po.singleBlock = false) (fold : Char → List Char) (s : SoundIn) (h : SndTextOK T s)
    (ht : okKV po (exportSndKV s) = true) :
    C01.parse T po fold (exportSndText T fullCfg s) = .root [exportSndKV s] :=
  parse_serA hE hK hT po hesc hsb fold (exportSnd s) (okA_exportSnd hk s h) ht

end C20.Snd
