import Srctools.Model.C10
/-!
# Lemmas for C10 (lazily parsed lump views and `BSP.save`)

Part 1: what the decidable table predicates say; part 2: `access`; part 3: positions in the rebuild
order and the flush invariants; part 4: contents (codec laws, the environment invariant).
-/
namespace C10
variable {B V : Type} (T : Tables) (C : Codec B V)

/-! ## 1. the table predicates, as propositions -/

theorem wf_spec (h : WF T = true) :
    T.order.Nodup ∧ ∀ v, v < T.n →
      (T.view v).clears.head? = some (T.view v).main ∧
      (∀ w ∈ (T.view v).rdeps ++ (T.view v).wdeps ++ (T.view v).borrows ++ (T.view v).restores, w < T.n) ∧
      (T.view v).main ∈ T.order ∧
      (∀ w, w < T.n → (T.view w).main = (T.view v).main → w = v) := by
  unfold WF at h
  simp only [Bool.and_eq_true, List.all_eq_true, List.mem_range, decide_eq_true_eq, Bool.or_eq_true,
    beq_iff_eq, bne_iff_ne, ne_eq, List.contains_iff_mem, List.mem_append] at h
  refine ⟨h.2, fun v hv => ?_⟩
  obtain ⟨⟨⟨h1, h2⟩, h3⟩, h4⟩ := h.1 v hv
  refine ⟨h1, ?_, h3, ?_⟩
  · intro w hw; simp only [List.mem_append] at hw; exact h2 w hw
  · intro w hw he
    rcases h4 w hw with h | h
    · exact h
    · exact absurd he h


theorem writesAll_spec (h : WritesAll T = true) (v : Nat) (hv : v < T.n) :
    ∀ l ∈ (T.view v).clears, l ∈ (T.view v).main :: (T.view v).wraw := by
  unfold WritesAll at h
  simp only [List.all_eq_true, List.mem_range, Bool.or_eq_true, beq_iff_eq, List.contains_iff_mem] at h
  intro l hl
  rcases h v hv l hl with h | h
  · simp [h]
  · simp [h]

theorem topo_spec (h : Topo T = true) (v : Nat) (hv : v < T.n) :
    ∃ S : List Nat, (∀ w ∈ (T.view v).wdeps, w ∈ S) ∧ (∀ a ∈ S, ∀ w ∈ (T.view a).rdeps, w ∈ S) ∧
      (∀ u ∈ S, u < T.n ∧ T.pos v < T.pos u) := by
  unfold Topo at h
  simp only [List.all_eq_true, List.mem_range, Bool.and_eq_true, List.contains_iff_mem, decide_eq_true_eq] at h
  obtain ⟨⟨h1, h2⟩, h3⟩ := h v hv
  exact ⟨reachAtSave T v, h1, h2, h3⟩

theorem racyclic_spec (h : RAcyclic T = true) (u : Nat) (hu : u < T.n) :
    rrank T u ≤ T.n ∧ ∀ w ∈ (T.view u).rdeps, rrank T w < rrank T u := by
  unfold RAcyclic at h
  simp only [List.all_eq_true, List.mem_range, Bool.and_eq_true, decide_eq_true_eq] at h
  exact h u hu

theorem frame_spec (h : Frame T = true) (v : Nat) (hv : v < T.n) :
    (∀ w, w < T.n → w ≠ v → ∀ l ∈ (T.view v).clears, l ∉ (T.view w).clears) ∧
    (∀ l ∈ (T.view v).rraw ++ (T.view v).wraw, l ∈ (T.view v).clears ∨ T.owned l = false) := by
  unfold Frame at h
  simp only [List.all_eq_true, List.mem_range, Bool.and_eq_true, Bool.or_eq_true, beq_iff_eq,
    List.contains_iff_mem, Bool.not_eq_eq_eq_not, Bool.not_true] at h
  obtain ⟨h1, h2⟩ := h v hv
  refine ⟨fun w hw hne l hl => ?_, h2⟩
  rcases h1 w hw with h | h
  · exact absurd h hne
  · have := h l hl
    simpa using this

theorem borrow_spec (h : BorrowOK T = true) (b : Nat) (hb : b < T.n) :
    ∀ e ∈ (T.view b).borrows, e ∈ (T.view b).restores ∧ T.pos b < T.pos e := by
  unfold BorrowOK at h
  simp only [List.all_eq_true, List.mem_range, Bool.and_eq_true, List.contains_iff_mem, decide_eq_true_eq] at h
  exact h b hb

theorem owned_of_mem (v : Nat) (hv : v < T.n) (l : Nat) (hl : l ∈ (T.view v).clears) : T.owned l = true := by
  unfold Tables.owned
  simp only [List.any_eq_true, List.mem_range, List.contains_iff_mem]
  exact ⟨v, hv, hl⟩

theorem viewOfMain_some (l v : Nat) (h : T.viewOfMain l = some v) : v < T.n ∧ (T.view v).main = l := by
  unfold Tables.viewOfMain at h
  have h1 := List.find?_some h
  have h2 := List.mem_of_find?_eq_some h
  simp only [beq_iff_eq] at h1
  exact ⟨List.mem_range.mp h2, h1⟩

theorem viewOfMain_none (l : Nat) (h : T.viewOfMain l = none) (v : Nat) (hv : v < T.n) : (T.view v).main ≠ l := by
  unfold Tables.viewOfMain at h
  rw [List.find?_eq_none] at h
  have := h v (List.mem_range.mpr hv)
  simpa using this

/-! ## 2. `access` -/

theorem foldl_inv {α β : Type} (P : α → Prop) (f : α → β → α) (l : List β) (a : α)
    (h0 : P a) (hs : ∀ a b, b ∈ l → P a → P (f a b)) : P (l.foldl f a) := by
  induction l generalizing a with
  | nil => simpa
  | cons x xs ih =>
    simp only [List.foldl_cons]
    exact ih _ (hs a x (by simp) h0) (fun a b hb => hs a b (by simp [hb]))

/-- the state after the reader of `u` has evaluated the views it uses. -/
def readDeps (f u : Nat) (s : St B V) : St B V :=
  (T.view u).rdeps.foldl (fun s w => access T C f w s) s

theorem access_zero (u : Nat) (s : St B V) : access T C 0 u s = { s with stuck := true } := by
  simp [access]

theorem access_hit (f u : Nat) (s : St B V) (y : V) (h : s.parsed u = some y) :
    access T C (f+1) u s = s := by
  simp [access, h]

theorem access_miss (f u : Nat) (s : St B V) (h : s.parsed u = none) :
    access T C (f+1) u s =
      { raw := fun l => if l ∈ (T.view u).clears then C.empty else (readDeps T C f u s).raw l
        clr := fun l => if l ∈ (T.view u).clears then true else (readDeps T C f u s).clr l
        parsed := fun w => if w = u then
            some (C.rd u (readDeps T C f u s).raw ((readDeps T C f u s).env C))
          else (readDeps T C f u s).parsed w
        pending := (readDeps T C f u s).pending ++ (T.view u).borrows.map fun e => (u, e)
        lost := (readDeps T C f u s).lost
        stuck := (readDeps T C f u s).stuck
        touched := fun w => if w = u then true else (readDeps T C f u s).touched w } := by
  simp [access, h, readDeps]

/-- A: cached values are never dropped or changed by reading a view. -/
theorem access_keeps (f u : Nat) (s : St B V) (x : Nat) (y : V) (h : s.parsed x = some y) :
    (access T C f u s).parsed x = some y := by
  induction f generalizing u s with
  | zero => simpa [access_zero] using h
  | succ f ih =>
    cases hu : s.parsed u with
    | some z => rw [access_hit T C f u s z hu]; exact h
    | none =>
      rw [access_miss T C f u s hu]
      have hne : x ≠ u := by intro e; rw [e, hu] at h; cases h
      simp only [hne, if_false]
      exact foldl_inv (fun s' => s'.parsed x = some y) _ _ _ h (fun a b _ ha => ih b a ha)

theorem readDeps_keeps (f u : Nat) (s : St B V) (x : Nat) (y : V) (h : s.parsed x = some y) :
    (readDeps T C f u s).parsed x = some y :=
  foldl_inv (fun s' => s'.parsed x = some y) _ _ _ h (fun a b _ ha => access_keeps T C f b a x y ha)

/-- reading a view (with fuel) leaves it cached. -/
theorem access_parsed_self (f u : Nat) (s : St B V) : (access T C (f+1) u s).parsed u ≠ none := by
  cases hu : s.parsed u with
  | some z => rw [access_hit T C f u s z hu, hu]; simp
  | none => rw [access_miss T C f u s hu]; simp

/-- B: reading `u` caches only views inside any set that contains `u` and is closed under reader uses. -/
theorem access_within (S : Nat → Prop) (hS : ∀ a, S a → ∀ w ∈ (T.view a).rdeps, S w)
    (f u : Nat) (s : St B V) (hu : S u) (x : Nat) (hx : (access T C f u s).parsed x ≠ none) :
    s.parsed x ≠ none ∨ S x := by
  induction f generalizing u s with
  | zero => left; simpa [access_zero] using hx
  | succ f ih =>
    cases hp : s.parsed u with
    | some z => rw [access_hit T C f u s z hp] at hx; exact Or.inl hx
    | none =>
      rw [access_miss T C f u s hp] at hx
      by_cases hxu : x = u
      · right; rw [hxu]; exact hu
      · simp only [hxu, if_false] at hx
        have := foldl_inv (fun s' => s'.parsed x ≠ none → s.parsed x ≠ none ∨ S x)
          (fun s w => access T C f w s) (T.view u).rdeps s (fun h => Or.inl h)
          (fun a b hb ha hab => by
            rcases ih b a (hS u hu b hb) hab with h | h
            · exact ha h
            · exact Or.inr h)
        exact this hx

theorem foldAccess_within (S : Nat → Prop) (hS : ∀ a, S a → ∀ w ∈ (T.view a).rdeps, S w)
    (f : Nat) (ws : List Nat) (hws : ∀ w ∈ ws, S w) (s : St B V) (x : Nat)
    (hx : (ws.foldl (fun s w => access T C f w s) s).parsed x ≠ none) : s.parsed x ≠ none ∨ S x := by
  have := foldl_inv (fun s' => s'.parsed x ≠ none → s.parsed x ≠ none ∨ S x)
    (fun s w => access T C f w s) ws s (fun h => Or.inl h)
    (fun a b hb ha hab => by
      rcases access_within T C S hS f b a (hws b hb) x hab with h | h
      · exact ha h
      · exact Or.inr h)
  exact this hx

/-- C: a lump is flagged "emptied" only if a cached view owns it (or it is in the exception set X). -/
def InvC (X : List Nat) (s : St B V) : Prop :=
  ∀ l, s.clr l = true → l ∈ X ∨ ∃ x, s.parsed x ≠ none ∧ l ∈ (T.view x).clears

theorem access_invC (X : List Nat) (f u : Nat) (s : St B V) (h : InvC T X s) : InvC T X (access T C f u s) := by
  induction f generalizing u s with
  | zero => simpa [access_zero, InvC] using h
  | succ f ih =>
    cases hp : s.parsed u with
    | some z => rw [access_hit T C f u s z hp]; exact h
    | none =>
      rw [access_miss T C f u s hp]
      have h1 : InvC T X (readDeps T C f u s) :=
        foldl_inv (InvC T X) _ _ _ h (fun a b _ ha => ih b a ha)
      intro l hl
      simp only at hl
      by_cases hc : l ∈ (T.view u).clears
      · right; exact ⟨u, by simp, hc⟩
      · simp only [hc, if_false] at hl
        rcases h1 l hl with h | ⟨x, hx, hxl⟩
        · exact Or.inl h
        · right; refine ⟨x, ?_, hxl⟩
          by_cases hxu : x = u <;> simp [hxu, hx]

/-! ## 3. positions in the rebuild order -/

theorem idxOf_mid (pre rest : List Nat) (l : Nat) (h : l ∉ pre) : (pre ++ l :: rest).idxOf l = pre.length := by
  induction pre with
  | nil => simp
  | cons p ps ih =>
    have hp : (p == l) = false := by
      simp only [beq_eq_false_iff_ne, ne_eq]; intro e; apply h; simp [e]
    have hl : l ∉ ps := by intro e; apply h; simp [e]
    simp [List.idxOf_cons, hp, ih hl]

theorem idxOf_eq_mid (pre rest : List Nat) (l a : Nat) (h : (pre ++ l :: rest).idxOf a = pre.length) : a = l := by
  induction pre with
  | nil =>
    simp only [List.nil_append, List.length_nil, List.idxOf_cons] at h
    by_cases e : l = a
    · exact e.symm
    · have hb : (l == a) = false := by simp [e]
      simp [hb] at h
  | cons p ps ih =>
    simp only [List.cons_append, List.length_cons, List.idxOf_cons] at h
    by_cases e : p = a
    · have hb : (p == a) = true := by simp [e]
      simp [hb] at h
    · have hb : (p == a) = false := by simp [e]
      simp only [hb, cond_false] at h
      exact ih (by omega)

theorem idxOf_lt (L : List Nat) (a : Nat) (h : a ∈ L) : L.idxOf a < L.length := by
  exact List.idxOf_lt_length_of_mem h

/-! ## 3b. one iteration of the rebuild loop keeps the flush invariants -/

theorem no_borrow_at_n (e : Nat) : e ∉ (T.view T.n).borrows := by
  have h : T.view T.n = default := by simp [Tables.view, Tables.n]
  rw [h]
  show e ∉ ([] : List Nat)
  simp

/-- `_parsed_lumps.pop(main v)` (and the ghost bookkeeping of keys still removed from `v`). -/
def popSt (s : St B V) (v : Nat) : St B V :=
  { s with parsed := fun w => if w = v then none else s.parsed w
           lost := s.lost ++ s.pending.filter fun p => p.2 == v }

/-- the state after the writer of `v` has evaluated the views it uses. -/
def writeDeps (v : Nat) (s : St B V) : St B V :=
  (T.view v).wdeps.foldl (fun s w => access T C T.fuel w s) s

theorem saveStep_none (s : St B V) (l : Nat) (h : T.viewOfMain l = none) : saveStep T C s l = s := by
  simp [saveStep, h]

theorem saveStep_skip (s : St B V) (l v : Nat) (h : T.viewOfMain l = some v) (hp : s.parsed v = none) :
    saveStep T C s l = s := by
  simp [saveStep, h, hp]

theorem saveStep_hit (s : St B V) (l v : Nat) (x : V) (h : T.viewOfMain l = some v) (hp : s.parsed v = some x) :
    saveStep T C s l =
      { writeDeps T C v (popSt s v) with
        raw := applyWr T C v x ((writeDeps T C v (popSt s v)).env C) (writeDeps T C v (popSt s v)).raw
        clr := fun l => if l ∈ (T.view v).main :: (T.view v).wraw then false else (writeDeps T C v (popSt s v)).clr l
        pending := (writeDeps T C v (popSt s v)).pending.filter
          fun p => !(p.1 == v && (T.view v).restores.contains p.2) } := by
  simp [saveStep, h, hp, writeDeps, popSt]

theorem save_live (hl : LiveLoop T = true) (s : St B V) : save T C s = T.order.foldl (saveStep T C) s := by
  have : T.snapshot = false := by simpa [LiveLoop] using hl
  simp [save, this]

/-- cached views are valid and not before position `i` of the rebuild order. -/
def InvP (i : Nat) (s : St B V) : Prop := ∀ x, s.parsed x ≠ none → x < T.n ∧ i ≤ T.pos x

/-- nothing was written out with keys missing; every pending borrow belongs to a cached borrower (or to `ex`). -/
def InvB (ex : Nat) (s : St B V) : Prop :=
  s.lost = [] ∧ ∀ p ∈ s.pending, (p.1 = ex ∨ s.parsed p.1 ≠ none) ∧ p.2 ∈ (T.view p.1).borrows

theorem access_invB (ex f u : Nat) (s : St B V) (h : InvB T ex s) : InvB T ex (access T C f u s) := by
  induction f generalizing u s with
  | zero => simpa [access_zero, InvB] using h
  | succ f ih =>
    cases hp : s.parsed u with
    | some z => rw [access_hit T C f u s z hp]; exact h
    | none =>
      rw [access_miss T C f u s hp]
      have h1 : InvB T ex (readDeps T C f u s) :=
        foldl_inv (InvB T ex) _ _ _ h (fun a b _ ha => ih b a ha)
      refine ⟨h1.1, ?_⟩
      intro p hp
      simp only [List.mem_append, List.mem_map] at hp
      rcases hp with hp | ⟨e, he, rfl⟩
      · obtain ⟨ha, hb⟩ := h1.2 p hp
        refine ⟨?_, hb⟩
        rcases ha with ha | ha
        · exact Or.inl ha
        · right
          by_cases hxu : p.1 = u <;> simp [hxu, ha]
      · exact ⟨Or.inr (by simp), he⟩

theorem pos_eq_mid (pre rest : List Nat) (l : Nat) (ho : T.order = pre ++ l :: rest) (x : Nat)
    (h : T.pos x = pre.length) : (T.view x).main = l := by
  unfold Tables.pos at h
  rw [ho] at h
  exact idxOf_eq_mid pre rest l _ h

theorem pos_of_main (hn : T.order.Nodup) (pre rest : List Nat) (l : Nat) (ho : T.order = pre ++ l :: rest) (v : Nat)
    (h : (T.view v).main = l) : T.pos v = pre.length := by
  unfold Tables.pos
  rw [h, ho]
  apply idxOf_mid
  rw [ho] at hn
  have := (List.nodup_append.mp hn).2.2
  intro hl
  exact this l hl l (by simp) rfl

theorem saveStep_inv (hwf : WF T = true) (hw : WritesAll T = true) (ht : Topo T = true) (hb : BorrowOK T = true)
    (pre rest : List Nat) (l : Nat) (ho : T.order = pre ++ l :: rest) (s : St B V)
    (hP : InvP T pre.length s) (hC : InvC T [] s) (hB : InvB T T.n s) :
    InvP T (pre.length + 1) (saveStep T C s l) ∧ InvC T [] (saveStep T C s l) ∧ InvB T T.n (saveStep T C s l) := by
  obtain ⟨hnd, hwf'⟩ := wf_spec T hwf
  -- a cached view other than the one whose main lump is `l` is strictly later
  have later : ∀ x, x < T.n → pre.length ≤ T.pos x → (T.view x).main ≠ l → pre.length + 1 ≤ T.pos x := by
    intro x _ hle hne
    have : T.pos x ≠ pre.length := fun e => hne (pos_eq_mid T pre rest l ho x e)
    omega
  cases hv : T.viewOfMain l with
  | none =>
    rw [saveStep_none T C s l hv]
    refine ⟨fun x hx => ?_, hC, hB⟩
    obtain ⟨hxn, hle⟩ := hP x hx
    exact ⟨hxn, later x hxn hle (viewOfMain_none T l hv x hxn)⟩
  | some v =>
    obtain ⟨hvn, hvm⟩ := viewOfMain_some T l v hv
    have hposv : T.pos v = pre.length := pos_of_main T hnd pre rest l ho v hvm
    have uniq : ∀ x, x < T.n → (T.view x).main = l → x = v := fun x hx he =>
      (hwf' v hvn).2.2.2 x hx (by rw [he, hvm])
    cases hp : s.parsed v with
    | none =>
      rw [saveStep_skip T C s l v hv hp]
      refine ⟨fun x hx => ?_, hC, hB⟩
      obtain ⟨hxn, hle⟩ := hP x hx
      refine ⟨hxn, later x hxn hle (fun he => ?_)⟩
      rw [uniq x hxn he] at hx
      exact hx hp
    | some x0 =>
      rw [saveStep_hit T C s l v x0 hv hp]
      obtain ⟨S, hS1, hS2, hS3⟩ := topo_spec T ht v hvn
      -- facts about the state after the writer's reads
      have hsub : ∀ x, (writeDeps T C v (popSt s v)).parsed x ≠ none → (popSt s v).parsed x ≠ none ∨ x ∈ S :=
        fun x hx => foldAccess_within T C (· ∈ S) hS2 T.fuel _ hS1 _ x hx
      have hP1 : InvP T (pre.length + 1) (writeDeps T C v (popSt s v)) := by
        intro x hx
        rcases hsub x hx with h | h
        · have hxv : x ≠ v := by intro e; simp [popSt, e] at h
          have h' : s.parsed x ≠ none := by simpa [popSt, hxv] using h
          obtain ⟨hxn, hle⟩ := hP x h'
          exact ⟨hxn, later x hxn hle (fun he => hxv (uniq x hxn he))⟩
        · obtain ⟨hxn, hlt⟩ := hS3 x h
          exact ⟨hxn, by omega⟩
      have hC0 : InvC T (T.view v).clears (popSt s v) := by
        intro l' hl'
        rcases hC l' (by simpa [popSt] using hl') with h | ⟨x, hx, hxl⟩
        · simp at h
        · by_cases hxv : x = v
          · left; rw [← hxv]; exact hxl
          · right; exact ⟨x, by simpa [popSt, hxv] using hx, hxl⟩
      have hC1 : InvC T (T.view v).clears (writeDeps T C v (popSt s v)) :=
        foldl_inv (InvC T (T.view v).clears) _ _ _ hC0 (fun a b _ ha => access_invC T C _ T.fuel b a ha)
      -- no borrow on `v` is pending when `v` is written
      have hnolost : s.pending.filter (fun p => p.2 == v) = [] := by
        rw [List.filter_eq_nil_iff]
        intro p hp' hpv
        simp only [beq_iff_eq] at hpv
        obtain ⟨ha, hbor⟩ := hB.2 p hp'
        rcases ha with ha | ha
        · rw [ha] at hbor
          exact absurd hbor (no_borrow_at_n T _)
        · obtain ⟨hbn, hle⟩ := hP p.1 ha
          have := (borrow_spec T hb p.1 hbn p.2 hbor).2
          rw [hpv, hposv] at this
          omega
      have hB0 : InvB T v (popSt s v) := by
        refine ⟨by simp [popSt, hB.1, hnolost], fun p hp' => ?_⟩
        obtain ⟨ha, hbor⟩ := hB.2 p (by simpa [popSt] using hp')
        refine ⟨?_, hbor⟩
        by_cases hpv : p.1 = v
        · exact Or.inl hpv
        · right
          rcases ha with ha | ha
          · rw [ha] at hbor
            exact absurd hbor (no_borrow_at_n T _)
          · simpa [popSt, hpv] using ha
      have hB1 : InvB T v (writeDeps T C v (popSt s v)) :=
        foldl_inv (InvB T v) _ _ _ hB0 (fun a b _ ha => access_invB T C v T.fuel b a ha)
      refine ⟨hP1, ?_, ?_⟩
      · intro l' hl'
        simp only at hl'
        by_cases hws : l' ∈ (T.view v).main :: (T.view v).wraw
        · simp [hws] at hl'
        · simp only [hws, if_false] at hl'
          rcases hC1 l' hl' with h | h
          · exact absurd (writesAll_spec T hw v hvn l' h) hws
          · exact Or.inr h
      · refine ⟨hB1.1, fun p hp' => ?_⟩
        simp only [List.mem_filter, Bool.not_eq_true', Bool.and_eq_false_iff, beq_eq_false_iff_ne, ne_eq] at hp'
        obtain ⟨hmem, hcond⟩ := hp'
        obtain ⟨ha, hbor⟩ := hB1.2 p hmem
        refine ⟨?_, hbor⟩
        rcases ha with ha | ha
        · exfalso
          rcases hcond with h | h
          · exact h ha
          · rw [ha] at hbor
            have := (borrow_spec T hb v hvn p.2 hbor).1
            simp [this] at h
        · exact Or.inr ha

/-! ## 3c. the whole loop -/

theorem save_inv_aux (hwf : WF T = true) (hw : WritesAll T = true) (ht : Topo T = true) (hb : BorrowOK T = true)
    (rest pre : List Nat) (s : St B V) (ho : T.order = pre ++ rest)
    (hP : InvP T pre.length s) (hC : InvC T [] s) (hB : InvB T T.n s) :
    InvP T T.order.length (rest.foldl (saveStep T C) s) ∧ InvC T [] (rest.foldl (saveStep T C) s)
      ∧ InvB T T.n (rest.foldl (saveStep T C) s) := by
  induction rest generalizing pre s with
  | nil =>
    simp only [List.append_nil] at ho
    simp only [List.foldl_nil]
    rw [ho]
    exact ⟨hP, hC, hB⟩
  | cons l rest ih =>
    simp only [List.foldl_cons]
    obtain ⟨h1, h2, h3⟩ := saveStep_inv T C hwf hw ht hb pre rest l ho s hP hC hB
    apply ih (pre ++ [l]) _ (by simp [ho])
    · simpa using h1
    · exact h2
    · exact h3

theorem accesses_inv (hwf : WF T = true) (xs : List Nat) (hxs : ∀ u ∈ xs, u < T.n) (s : St B V)
    (hP : InvP T 0 s) (hC : InvC T [] s) (hB : InvB T T.n s) :
    InvP T 0 (accesses T C xs s) ∧ InvC T [] (accesses T C xs s) ∧ InvB T T.n (accesses T C xs s) := by
  unfold accesses
  have closed : ∀ a, a < T.n → ∀ w ∈ (T.view a).rdeps, w < T.n := by
    intro a ha w hw'
    exact (wf_spec T hwf).2 a ha |>.2.1 w (by simp [hw'])
  refine foldl_inv (fun s' => InvP T 0 s' ∧ InvC T [] s' ∧ InvB T T.n s') _ xs s ⟨hP, hC, hB⟩ ?_
  intro a u hu ⟨h1, h2, h3⟩
  refine ⟨?_, access_invC T C [] _ u a h2, access_invB T C _ _ u a h3⟩
  intro x hx
  rcases access_within T C (· < T.n) closed T.fuel u a (hxs u hu) x hx with h | h
  · exact h1 x h
  · exact ⟨h, Nat.zero_le _⟩

theorem init_inv (raw₀ : Nat → B) :
    InvP T 0 (init raw₀ : St B V) ∧ InvC T [] (init raw₀ : St B V) ∧ InvB T T.n (init raw₀ : St B V) := by
  refine ⟨fun x hx => ?_, fun l hl => ?_, rfl, fun p hp => ?_⟩
  · simp [init] at hx
  · simp [init] at hl
  · simp [init] at hp

/-- all three flush invariants hold after `save` of any sequence of reads. -/
theorem flush_all (hwf : WF T = true) (hw : WritesAll T = true) (ht : Topo T = true) (hb : BorrowOK T = true)
    (hl : LiveLoop T = true) (raw₀ : Nat → B) (xs : List Nat) (hxs : ∀ u ∈ xs, u < T.n) :
    (∀ v, (save T C (accesses T C xs (init raw₀))).parsed v = none) ∧
    (∀ l, (save T C (accesses T C xs (init raw₀))).clr l = false) ∧
    (save T C (accesses T C xs (init raw₀))).lost = [] ∧
    (save T C (accesses T C xs (init raw₀))).pending = [] := by
  obtain ⟨a1, a2, a3⟩ := init_inv (V := V) T raw₀
  obtain ⟨b1, b2, b3⟩ := accesses_inv T C hwf xs hxs _ a1 a2 a3
  obtain ⟨c1, c2, c3⟩ := save_inv_aux T C hwf hw ht hb T.order [] _ (by simp) (by simpa using b1) b2 b3
  rw [← save_live T C hl] at c1 c2 c3
  have hnone : ∀ v, (save T C (accesses T C xs (init raw₀))).parsed v = none := by
    intro v
    cases hpv : (save T C (accesses T C xs (init raw₀))).parsed v with
    | none => rfl
    | some y =>
      exfalso
      obtain ⟨hvn, hle⟩ := c1 v (by rw [hpv]; simp)
      have := idxOf_lt T.order (T.view v).main ((wf_spec T hwf).2 v hvn).2.2.1
      unfold Tables.pos at hle
      omega
  refine ⟨hnone, fun l => ?_, c3.1, ?_⟩
  · cases hcl : (save T C (accesses T C xs (init raw₀))).clr l with
    | false => rfl
    | true =>
      rcases c2 l hcl with h | ⟨x, hx, _⟩
      · simp at h
      · exact absurd (hnone x) hx
  · apply List.eq_nil_iff_forall_not_mem.mpr
    intro p hp
    obtain ⟨ha, hbor⟩ := c3.2 p hp
    rcases ha with ha | ha
    · rw [ha] at hbor; exact no_borrow_at_n T _ hbor
    · exact ha (hnone _)

/-! ## 4. contents -/

/-- What the content theorems assume about the (abstract) lump codecs. -/
structure Laws (T : Tables) (C : Codec B V) : Prop where
  /-- a reader looks only at its own lumps, the raw lumps it loads, and the views it evaluates. -/
  rd_frame : ∀ v, v < T.n → ∀ raw raw' env env',
    (∀ l, l ∈ (T.view v).clears ++ (T.view v).rraw → raw l = raw' l) →
    (∀ w, w ∈ (T.view v).rdeps → env w = env' w) → C.rd v raw env = C.rd v raw' env'
  /-- a writer looks only at the views it evaluates. -/
  wr_frame : ∀ v, v < T.n → ∀ x env env' raw,
    (∀ w, w ∈ (T.view v).wdeps → env w = env' w) → C.wr v x env raw = C.wr v x env' raw
  /-- writing a value that came out of the reader and reading it again gives the same value. -/
  roundtrip : ∀ v, v < T.n → ∀ raw env raw₁,
    (∀ l, l ∈ (T.view v).rraw → l ∉ (T.view v).clears → raw₁ l = raw l) →
    C.rd v (applyWr T C v (C.rd v raw env) env raw₁) env = C.rd v raw env
  /-- … and leaves the lumps it shares with nobody's `to_clear` (FACEIDS) as they were. -/
  aux_stable : ∀ v, v < T.n → ∀ raw env raw₁,
    (∀ l, l ∈ (T.view v).rraw → l ∉ (T.view v).clears → raw₁ l = raw l) →
    ∀ l, l ∈ (T.view v).wraw → l ∉ (T.view v).clears → C.wr v (C.rd v raw env) env raw₁ l = raw₁ l

/-- the frame half of `Laws`. -/
structure FrameLaws (T : Tables) (C : Codec B V) : Prop where
  rd_frame : ∀ v, v < T.n → ∀ raw raw' env env',
    (∀ l, l ∈ (T.view v).clears ++ (T.view v).rraw → raw l = raw' l) →
    (∀ w, w ∈ (T.view v).rdeps → env w = env' w) → C.rd v raw env = C.rd v raw' env'
  wr_frame : ∀ v, v < T.n → ∀ x env env' raw,
    (∀ w, w ∈ (T.view v).wdeps → env w = env' w) → C.wr v x env raw = C.wr v x env' raw

/-- the round-trip half of `Laws`, only at ONE parse `E` (of a file whose shared, un-owned lumps are `aux`):
writing the true value of a view and reading it again gives the true value, and the writer leaves the
lumps it shares with nobody's `to_clear` as they are.  (Nothing is asked about lumps that do not parse.) -/
structure RoundTripAt (T : Tables) (C : Codec B V) (aux : Nat → B) (E : Nat → V) : Prop where
  roundtrip : ∀ v, v < T.n → ∀ raw₁,
    (∀ l, l ∈ (T.view v).rraw → l ∉ (T.view v).clears → raw₁ l = aux l) →
    C.rd v (applyWr T C v (E v) E raw₁) E = E v
  aux_stable : ∀ v, v < T.n → ∀ raw₁,
    (∀ l, l ∈ (T.view v).rraw → l ∉ (T.view v).clears → raw₁ l = aux l) →
    ∀ l, l ∈ (T.view v).wraw → l ∉ (T.view v).clears → C.wr v (E v) E raw₁ l = raw₁ l

theorem Laws.frame {T : Tables} {C : Codec B V} (L : Laws T C) : FrameLaws T C := ⟨L.rd_frame, L.wr_frame⟩

/-- `E` is the parse of the raw lumps: every view reads as `E v` when its dependencies read as `E`. -/
def IsEnv (raw : Nat → B) (E : Nat → V) : Prop := ∀ v, v < T.n → C.rd v raw E = E v

theorem Laws.at {T : Tables} {C : Codec B V} (L : Laws T C) {raw₀ : Nat → B} {E : Nat → V} (hE : IsEnv T C raw₀ E) :
    RoundTripAt T C raw₀ E where
  roundtrip := fun v hv raw₁ h => by
    have := L.roundtrip v hv raw₀ E raw₁ h
    rw [hE v hv] at this; exact this
  aux_stable := fun v hv raw₁ h l hl hnc => by
    have := L.aux_stable v hv raw₀ E raw₁ h l hl hnc
    rw [hE v hv] at this; exact this

/-- content invariant: cached values are the true ones; every uncached view (except `ex`, the one
being written) still reads as the true one; lumps owned by no view are untouched. -/
def InvE (raw₀ : Nat → B) (E : Nat → V) (ex : Nat) (s : St B V) : Prop :=
  (∀ v x, s.parsed v = some x → x = E v) ∧
  (∀ v, v < T.n → v ≠ ex → s.parsed v = none → C.rd v s.raw E = E v) ∧
  (∀ l, T.owned l = false → s.raw l = raw₀ l)

theorem foldAccess_parsed (f : Nat) (ws : List Nat) (s : St B V) (w : Nat) (hw : w ∈ ws) :
    (ws.foldl (fun s w => access T C (f+1) w s) s).parsed w ≠ none := by
  induction ws generalizing s with
  | nil => simp at hw
  | cons a as ih =>
    simp only [List.foldl_cons]
    by_cases hwa : w ∈ as
    · exact ih _ hwa
    · have : w = a := by simpa [hwa] using hw
      subst this
      have h1 := access_parsed_self T C f w s
      cases hp : (access T C (f+1) w s).parsed w with
      | none => exact absurd hp h1
      | some y =>
        have := foldl_inv (fun s' => s'.parsed w = some y) (fun s w => access T C (f+1) w s) as _ hp
          (fun a b _ ha => access_keeps T C (f+1) b a w y ha)
        rw [this]; simp

theorem view_ge (v : Nat) (h : T.n ≤ v) : T.view v = default := by
  unfold Tables.n at h
  simp [Tables.view, List.getD, List.getElem?_eq_none h]

theorem rdeps_ge (v : Nat) (h : T.n ≤ v) : (T.view v).rdeps = [] := by
  rw [view_ge T v h]; rfl

theorem access_invE (hfr : Frame T = true) (hra : RAcyclic T = true) (L : FrameLaws T C)
    (raw₀ : Nat → B) (E : Nat → V) (ex : Nat)
    (S : Nat → Prop) (hS : ∀ a, S a → ∀ w ∈ (T.view a).rdeps, S w) (hSn : ∀ a, S a → a < T.n) (hex : ¬ S ex)
    (f u : Nat) (s : St B V) (hu : S u) (hf : rrank T u < f) (h : InvE T C raw₀ E ex s) :
    InvE T C raw₀ E ex (access T C f u s) := by
  induction f generalizing u s with
  | zero => omega
  | succ f ih =>
    cases hp : s.parsed u with
    | some z => rw [access_hit T C f u s z hp]; exact h
    | none =>
      have hun := hSn u hu
      obtain ⟨_, hrank⟩ := racyclic_spec T hra u hun
      rw [access_miss T C f u s hp]
      -- (i) the invariant holds after the reader's own reads
      have h1 : InvE T C raw₀ E ex (readDeps T C f u s) :=
        foldl_inv (InvE T C raw₀ E ex) _ _ _ h
          (fun a b hb ha => ih b a (hS u hu b hb) (by have := hrank b hb; omega) ha)
      -- (ii) every view the reader uses is cached afterwards, with its true value
      have h2 : ∀ w ∈ (T.view u).rdeps, (readDeps T C f u s).env C w = E w := by
        intro w hw
        have hf1 : f = (f - 1) + 1 := by have := hrank w hw; omega
        have hne : (readDeps T C f u s).parsed w ≠ none := by
          unfold readDeps; rw [hf1]; exact foldAccess_parsed T C _ _ _ w hw
        cases hpw : (readDeps T C f u s).parsed w with
        | none => exact absurd hpw hne
        | some y => simp [St.env, hpw, h1.1 w y hpw]
      -- (iii) the reader's own view is not cached by its reads (the readers are acyclic)
      have h3 : (readDeps T C f u s).parsed u = none := by
        cases hpu : (readDeps T C f u s).parsed u with
        | none => rfl
        | some y =>
          exfalso
          have closed : ∀ a, rrank T a < rrank T u → ∀ w ∈ (T.view a).rdeps, rrank T w < rrank T u := by
            intro a ha w hw
            by_cases han : a < T.n
            · have := (racyclic_spec T hra a han).2 w hw; omega
            · rw [rdeps_ge T a (by omega)] at hw; simp at hw
          rcases foldAccess_within T C (fun x => rrank T x < rrank T u) closed f _ hrank s u
              (by unfold readDeps at hpu; rw [hpu]; simp) with h' | h'
          · exact h' hp
          · omega
      have hx : C.rd u (readDeps T C f u s).raw ((readDeps T C f u s).env C) = E u := by
        rw [L.rd_frame u hun _ (readDeps T C f u s).raw _ E (fun _ _ => rfl) h2]
        exact h1.2.1 u hun (fun e => hex (e ▸ hu)) h3
      obtain ⟨hown, hraw⟩ := frame_spec T hfr u hun
      refine ⟨?_, ?_, ?_⟩
      · intro v x hv
        simp only at hv
        by_cases hvu : v = u
        · simp only [hvu, if_true, Option.some.injEq] at hv
          rw [← hv, hvu]; exact hx
        · simp only [hvu, if_false] at hv
          exact h1.1 v x hv
      · intro v hvn hvex hv
        simp only at hv
        have hvu : v ≠ u := by intro e; simp [e] at hv
        simp only [hvu, if_false] at hv
        rw [← h1.2.1 v hvn hvex hv]
        apply L.rd_frame v hvn _ _ _ _ _ (fun _ _ => rfl)
        intro l hl
        simp only
        have : l ∉ (T.view u).clears := by
          intro hlu
          rcases List.mem_append.mp hl with hl | hl
          · exact hown v hvn hvu l hlu hl
          · rcases (frame_spec T hfr v hvn).2 l (by simp [hl]) with h' | h'
            · exact hown v hvn hvu l hlu h'
            · rw [owned_of_mem T u hun l hlu] at h'; cases h'
        simp [this]
      · intro l hl
        simp only
        have : l ∉ (T.view u).clears := fun hlu => by rw [owned_of_mem T u hun l hlu] at hl; cases hl
        simp only [this, if_false]
        exact h1.2.2 l hl

theorem main_mem_clears (hwf : WF T = true) (v : Nat) (hv : v < T.n) : (T.view v).main ∈ (T.view v).clears := by
  have h := ((wf_spec T hwf).2 v hv).1
  cases hc : (T.view v).clears with
  | nil => rw [hc] at h; simp at h
  | cons a as => rw [hc] at h; simp at h; simp [h]

theorem saveStep_invE (hwf : WF T = true) (ht : Topo T = true) (hfr : Frame T = true) (hra : RAcyclic T = true)
    (L : FrameLaws T C) (raw₀ : Nat → B) (E : Nat → V) (R : RoundTripAt T C raw₀ E) (l : Nat) (s : St B V)
    (h : InvE T C raw₀ E T.n s) : InvE T C raw₀ E T.n (saveStep T C s l) := by
  cases hv : T.viewOfMain l with
  | none => rw [saveStep_none T C s l hv]; exact h
  | some v =>
    obtain ⟨hvn, hvm⟩ := viewOfMain_some T l v hv
    cases hp : s.parsed v with
    | none => rw [saveStep_skip T C s l v hv hp]; exact h
    | some x0 =>
      rw [saveStep_hit T C s l v x0 hv hp]
      obtain ⟨S, hS1, hS2, hS3⟩ := topo_spec T ht v hvn
      have hx0 : x0 = E v := h.1 v x0 hp
      have hvS : v ∉ S := fun hm => by have := (hS3 v hm).2; omega
      have h0 : InvE T C raw₀ E v (popSt s v) := by
        refine ⟨fun w x hw => ?_, fun w hwn hwv hw => ?_, h.2.2⟩
        · by_cases hwv : w = v
          · simp [popSt, hwv] at hw
          · exact h.1 w x (by simpa [popSt, hwv] using hw)
        · exact h.2.1 w hwn (by omega) (by simpa [popSt, hwv] using hw)
      have h1 : InvE T C raw₀ E v (writeDeps T C v (popSt s v)) :=
        foldl_inv (InvE T C raw₀ E v) _ _ _ h0 (fun a b hb ha =>
          access_invE T C hfr hra L raw₀ E v (· ∈ S) hS2 (fun a ha => (hS3 a ha).1) hvS T.fuel b a (hS1 b hb)
            (by have := (racyclic_spec T hra b (hS3 b (hS1 b hb)).1).1; unfold Tables.fuel; omega) ha)
      have henv : ∀ w, w ∈ (T.view v).wdeps → (writeDeps T C v (popSt s v)).env C w = E w := by
        intro w hw
        have hne : (writeDeps T C v (popSt s v)).parsed w ≠ none := by
          unfold writeDeps Tables.fuel; exact foldAccess_parsed T C _ _ _ w hw
        cases hpw : (writeDeps T C v (popSt s v)).parsed w with
        | none => exact absurd hpw hne
        | some y => simp [St.env, hpw, h1.1 w y hpw]
      have hwr : applyWr T C v x0 ((writeDeps T C v (popSt s v)).env C) (writeDeps T C v (popSt s v)).raw
          = applyWr T C v (E v) E (writeDeps T C v (popSt s v)).raw := by
        unfold applyWr
        rw [L.wr_frame v hvn x0 _ E _ henv, hx0]
      rw [hwr]
      obtain ⟨hown, hraw⟩ := frame_spec T hfr v hvn
      have haux : ∀ l, l ∈ (T.view v).rraw → l ∉ (T.view v).clears → (writeDeps T C v (popSt s v)).raw l = raw₀ l := by
        intro l' hl' hnc
        rcases hraw l' (by simp [hl']) with h' | h'
        · exact absurd h' hnc
        · exact h1.2.2 l' h'
      -- a lump outside `to_clear` of `v` is left as it was
      have hkeep : ∀ l', l' ∉ (T.view v).clears →
          applyWr T C v (E v) E (writeDeps T C v (popSt s v)).raw l' = (writeDeps T C v (popSt s v)).raw l' := by
        intro l' hnc
        unfold applyWr
        by_cases hws : l' ∈ (T.view v).main :: (T.view v).wraw
        · simp only [hws, if_true]
          have : l' ∈ (T.view v).wraw := by
            rcases List.mem_cons.mp hws with e | e
            · exact absurd (e ▸ main_mem_clears T hwf v hvn) hnc
            · exact e
          exact R.aux_stable v hvn _ haux l' this hnc
        · simp [hws]
      refine ⟨h1.1, fun w hwn _ hw => ?_, fun l' hl' => ?_⟩
      · simp only at hw
        by_cases hwv : w = v
        · rw [hwv]
          simp only
          exact R.roundtrip v hvn _ haux
        · simp only
          rw [← h1.2.1 w hwn hwv hw]
          apply L.rd_frame w hwn _ _ _ _ _ (fun _ _ => rfl)
          intro l' hl'
          apply hkeep
          intro hlv
          rcases List.mem_append.mp hl' with hl' | hl'
          · exact hown w hwn hwv l' hlv hl'
          · rcases (frame_spec T hfr w hwn).2 l' (by simp [hl']) with h' | h'
            · exact hown w hwn hwv l' hlv h'
            · rw [owned_of_mem T v hvn l' hlv] at h'; cases h'
      · simp only
        rw [hkeep l' (fun hlv => by rw [owned_of_mem T v hvn l' hlv] at hl'; cases hl')]
        exact h1.2.2 l' hl'

/-- **content**: after reading any views and saving, `E` is still the parse of the raw lumps, and lumps
owned by no view are byte-identical. -/
theorem content_all (hwf : WF T = true) (ht : Topo T = true) (hfr : Frame T = true) (hra : RAcyclic T = true)
    (hl : LiveLoop T = true) (L : FrameLaws T C) (raw₀ : Nat → B) (E : Nat → V) (hE : IsEnv T C raw₀ E)
    (R : RoundTripAt T C raw₀ E) (xs : List Nat) (hxs : ∀ u ∈ xs, u < T.n) :
    InvE T C raw₀ E T.n (save T C (accesses T C xs (init raw₀))) := by
  have h0 : InvE T C raw₀ E T.n (init raw₀ : St B V) :=
    ⟨fun v x hv => by simp [init] at hv, fun v hvn _ _ => hE v hvn, fun _ _ => rfl⟩
  have closed : ∀ a, a < T.n → ∀ w ∈ (T.view a).rdeps, w < T.n := by
    intro a ha w hw'
    exact (wf_spec T hwf).2 a ha |>.2.1 w (by simp [hw'])
  have h1 : InvE T C raw₀ E T.n (accesses T C xs (init raw₀)) := by
    unfold accesses
    refine foldl_inv (InvE T C raw₀ E T.n) _ xs _ h0 (fun a u hu ha => ?_)
    exact access_invE T C hfr hra L raw₀ E T.n (· < T.n) closed (fun _ h => h) (by omega) T.fuel u a (hxs u hu)
      (by have := (racyclic_spec T hra u (hxs u hu)).1; unfold Tables.fuel; omega) ha
  rw [save_live T C hl]
  exact foldl_inv (InvE T C raw₀ E T.n) _ T.order _ h1
    (fun a l _ ha => saveStep_invE T C hwf ht hfr hra L raw₀ E R l a ha)

/-! ## 5. a second save is byte-identical -/

/-- a writer builds its own lumps from scratch: what it stores there does not depend on the old bytes. -/
def Canon (T : Tables) (C : Codec B V) : Prop :=
  ∀ v, v < T.n → ∀ x env raw raw' l, l ∈ (T.view v).clears → C.wr v x env raw l = C.wr v x env raw' l

theorem foldl_rel {α β γ : Type} (R : α → γ → Prop) (f : α → β → α) (g : γ → β → γ) (l : List β) (a : α) (c : γ)
    (h0 : R a c) (hs : ∀ a c b, b ∈ l → R a c → R (f a b) (g c b)) : R (l.foldl f a) (l.foldl g c) := by
  induction l generalizing a c with
  | nil => simpa
  | cons x xs ih =>
    simp only [List.foldl_cons]
    exact ih _ _ (hs a c x (by simp) h0) (fun a c b hb => hs a c b (by simp [hb]))

/-- two states have the same shape: the same views cached, the same views ever parsed. -/
def Sh (s s' : St B V) : Prop :=
  (∀ v, (s.parsed v).isSome = (s'.parsed v).isSome) ∧ (∀ v, s.touched v = s'.touched v)

theorem access_sh (f u : Nat) (s s' : St B V) (h : Sh s s') : Sh (access T C f u s) (access T C f u s') := by
  induction f generalizing u s s' with
  | zero => simpa [access_zero, Sh] using h
  | succ f ih =>
    have hu := h.1 u
    cases hp : s.parsed u with
    | some z =>
      cases hp' : s'.parsed u with
      | none => rw [hp, hp'] at hu; simp at hu
      | some z' => rw [access_hit T C f u s z hp, access_hit T C f u s' z' hp']; exact h
    | none =>
      cases hp' : s'.parsed u with
      | some z' => rw [hp, hp'] at hu; simp at hu
      | none =>
        rw [access_miss T C f u s hp, access_miss T C f u s' hp']
        have h1 : Sh (readDeps T C f u s) (readDeps T C f u s') :=
          foldl_rel Sh _ _ _ _ _ h (fun a c b _ hac => ih b a c hac)
        refine ⟨fun v => ?_, fun v => ?_⟩
        · simp only
          by_cases hv : v = u
          · simp [hv]
          · simp only [hv, if_false]; exact h1.1 v
        · simp only
          by_cases hv : v = u
          · simp [hv]
          · simp only [hv, if_false]; exact h1.2 v

theorem saveStep_sh (s s' : St B V) (l : Nat) (h : Sh s s') : Sh (saveStep T C s l) (saveStep T C s' l) := by
  cases hv : T.viewOfMain l with
  | none => rw [saveStep_none T C s l hv, saveStep_none T C s' l hv]; exact h
  | some v =>
    have hu := h.1 v
    cases hp : s.parsed v with
    | none =>
      cases hp' : s'.parsed v with
      | some z' => rw [hp, hp'] at hu; simp at hu
      | none => rw [saveStep_skip T C s l v hv hp, saveStep_skip T C s' l v hv hp']; exact h
    | some z =>
      cases hp' : s'.parsed v with
      | none => rw [hp, hp'] at hu; simp at hu
      | some z' =>
        rw [saveStep_hit T C s l v z hv hp, saveStep_hit T C s' l v z' hv hp']
        have h0 : Sh (popSt s v) (popSt s' v) := by
          refine ⟨fun w => ?_, fun w => h.2 w⟩
          by_cases hw : w = v
          · simp [popSt, hw]
          · simp only [popSt, hw, if_false]; exact h.1 w
        have h1 : Sh (writeDeps T C v (popSt s v)) (writeDeps T C v (popSt s' v)) :=
          foldl_rel Sh _ _ _ _ _ h0 (fun a c b _ hac => access_sh T C T.fuel b a c hac)
        exact ⟨fun w => h1.1 w, fun w => h1.2 w⟩

theorem run_sh (hl : LiveLoop T = true) (xs : List Nat) (r r' : Nat → B) :
    Sh (save T C (accesses T C xs (init r))) (save T C (accesses T C xs (init (V := V) r'))) := by
  rw [save_live T C hl, save_live T C hl]
  unfold accesses
  apply foldl_rel Sh _ _ _ _ _ _ (fun a c l _ hac => saveStep_sh T C a c l hac)
  apply foldl_rel Sh _ _ _ _ _ _ (fun a c u _ hac => access_sh T C T.fuel u a c hac)
  exact ⟨fun _ => rfl, fun _ => rfl⟩

/-- canonical-bytes invariant: a cached view has been parsed; the lumps of a view never parsed are the
original bytes; the lumps of a view parsed at some time are emptied or hold what its writer produces
from the true value. -/
def InvK (raw₀ : Nat → B) (E : Nat → V) (s : St B V) : Prop :=
  (∀ v, s.parsed v ≠ none → s.touched v = true) ∧
  ∀ v, v < T.n → ∀ l, l ∈ (T.view v).clears →
    (s.touched v = false → s.raw l = raw₀ l ∧ s.clr l = false) ∧
    (s.touched v = true → s.clr l = true ∨ s.raw l = C.wr v (E v) E raw₀ l)

theorem access_touched (f u : Nat) (s : St B V) (v : Nat) (h : s.touched v = true) :
    (access T C f u s).touched v = true := by
  induction f generalizing u s with
  | zero => simpa [access_zero] using h
  | succ f ih =>
    cases hp : s.parsed u with
    | some z => rw [access_hit T C f u s z hp]; exact h
    | none =>
      rw [access_miss T C f u s hp]
      simp only
      by_cases hv : v = u
      · simp [hv]
      · simp only [hv, if_false]
        exact foldl_inv (fun s' => s'.touched v = true) _ _ _ h (fun a b _ ha => ih b a ha)

theorem access_invK (hfr : Frame T = true) (raw₀ : Nat → B) (E : Nat → V)
    (S : Nat → Prop) (hS : ∀ a, S a → ∀ w ∈ (T.view a).rdeps, S w) (hSn : ∀ a, S a → a < T.n)
    (f u : Nat) (s : St B V) (hu : S u) (h : InvK T C raw₀ E s) : InvK T C raw₀ E (access T C f u s) := by
  induction f generalizing u s with
  | zero => simpa [access_zero, InvK] using h
  | succ f ih =>
    cases hp : s.parsed u with
    | some z => rw [access_hit T C f u s z hp]; exact h
    | none =>
      rw [access_miss T C f u s hp]
      have hun := hSn u hu
      have h1 : InvK T C raw₀ E (readDeps T C f u s) :=
        foldl_inv (InvK T C raw₀ E) _ _ _ h (fun a b hb ha => ih b a (hS u hu b hb) ha)
      obtain ⟨hown, _⟩ := frame_spec T hfr u hun
      refine ⟨fun v hv => ?_, fun v hvn l hl => ?_⟩
      · simp only at hv ⊢
        by_cases hvu : v = u
        · simp [hvu]
        · simp only [hvu, if_false] at hv ⊢; exact h1.1 v hv
      · simp only
        by_cases hvu : v = u
        · subst hvu
          simp [hl]
        · have hlu : l ∉ (T.view u).clears := fun hlu => hown v hvn hvu l hlu hl
          simp only [hvu, hlu, if_false]
          exact h1.2 v hvn l hl

theorem saveStep_facts (ht : Topo T = true) (hfr : Frame T = true) (hra : RAcyclic T = true)
    (L : FrameLaws T C) (raw₀ : Nat → B) (E : Nat → V) (l v : Nat) (x0 : V) (s : St B V)
    (h : InvE T C raw₀ E T.n s) (hv : T.viewOfMain l = some v) (hp : s.parsed v = some x0) :
    x0 = E v ∧ InvE T C raw₀ E v (writeDeps T C v (popSt s v)) ∧
    (∀ w, w ∈ (T.view v).wdeps → (writeDeps T C v (popSt s v)).env C w = E w) ∧
    ∃ S : List Nat, (∀ w ∈ (T.view v).wdeps, w ∈ S) ∧ (∀ a ∈ S, ∀ w ∈ (T.view a).rdeps, w ∈ S) ∧
      (∀ u ∈ S, u < T.n ∧ T.pos v < T.pos u) := by
  obtain ⟨hvn, hvm⟩ := viewOfMain_some T l v hv
  obtain ⟨S, hS1, hS2, hS3⟩ := topo_spec T ht v hvn
  have hx0 : x0 = E v := h.1 v x0 hp
  have hvS : v ∉ S := fun hm => by have := (hS3 v hm).2; omega
  have h0 : InvE T C raw₀ E v (popSt s v) := by
    refine ⟨fun w x hw => ?_, fun w hwn hwv hw => ?_, h.2.2⟩
    · by_cases hwv : w = v
      · simp [popSt, hwv] at hw
      · exact h.1 w x (by simpa [popSt, hwv] using hw)
    · exact h.2.1 w hwn (by omega) (by simpa [popSt, hwv] using hw)
  have h1 : InvE T C raw₀ E v (writeDeps T C v (popSt s v)) :=
    foldl_inv (InvE T C raw₀ E v) _ _ _ h0 (fun a b hb ha =>
      access_invE T C hfr hra L raw₀ E v (· ∈ S) hS2 (fun a ha => (hS3 a ha).1) hvS T.fuel b a (hS1 b hb)
        (by have := (racyclic_spec T hra b (hS3 b (hS1 b hb)).1).1; unfold Tables.fuel; omega) ha)
  have henv : ∀ w, w ∈ (T.view v).wdeps → (writeDeps T C v (popSt s v)).env C w = E w := by
    intro w hw
    have hne : (writeDeps T C v (popSt s v)).parsed w ≠ none := by
      unfold writeDeps Tables.fuel; exact foldAccess_parsed T C _ _ _ w hw
    cases hpw : (writeDeps T C v (popSt s v)).parsed w with
    | none => exact absurd hpw hne
    | some y => simp [St.env, hpw, h1.1 w y hpw]
  exact ⟨hx0, h1, henv, S, hS1, hS2, hS3⟩

theorem saveStep_invK (hwf : WF T = true) (hw : WritesAll T = true) (ht : Topo T = true) (hfr : Frame T = true)
    (hra : RAcyclic T = true) (L : FrameLaws T C) (hcan : Canon T C) (raw₀ : Nat → B) (E : Nat → V) (l : Nat) (s : St B V)
    (hE : InvE T C raw₀ E T.n s) (h : InvK T C raw₀ E s) : InvK T C raw₀ E (saveStep T C s l) := by
  cases hv : T.viewOfMain l with
  | none => rw [saveStep_none T C s l hv]; exact h
  | some v =>
    obtain ⟨hvn, hvm⟩ := viewOfMain_some T l v hv
    cases hp : s.parsed v with
    | none => rw [saveStep_skip T C s l v hv hp]; exact h
    | some x0 =>
      obtain ⟨hx0, _, henv, S, hS1, hS2, hS3⟩ := saveStep_facts T C ht hfr hra L raw₀ E l v x0 s hE hv hp
      rw [saveStep_hit T C s l v x0 hv hp]
      have h0 : InvK T C raw₀ E (popSt s v) := by
        refine ⟨fun w hw => ?_, fun w hwn l' hl' => h.2 w hwn l' hl'⟩
        by_cases hwv : w = v
        · simp [popSt, hwv] at hw
        · exact h.1 w (by simpa [popSt, hwv] using hw)
      have h1 : InvK T C raw₀ E (writeDeps T C v (popSt s v)) :=
        foldl_inv (InvK T C raw₀ E) _ _ _ h0 (fun a b hb ha =>
          access_invK T C hfr raw₀ E (· ∈ S) hS2 (fun a ha => (hS3 a ha).1) T.fuel b a (hS1 b hb) ha)
      have htv : (writeDeps T C v (popSt s v)).touched v = true :=
        foldl_inv (fun s' => s'.touched v = true) _ _ _ (by simpa [popSt] using h.1 v (by rw [hp]; simp))
          (fun a b _ ha => access_touched T C T.fuel b a v ha)
      obtain ⟨hown, hraw⟩ := frame_spec T hfr v hvn
      refine ⟨h1.1, fun w hwn l' hl' => ?_⟩
      simp only
      by_cases hwv : w = v
      · subst hwv
        have hws : l' ∈ (T.view w).main :: (T.view w).wraw := writesAll_spec T hw w hwn l' hl'
        refine ⟨fun hf => (by rw [htv] at hf; cases hf), fun _ => Or.inr ?_⟩
        simp only [applyWr, hws, if_true]
        rw [L.wr_frame w hwn x0 _ E _ henv, hx0]
        exact hcan w hwn _ _ _ _ l' hl'
      · have hnws : l' ∉ (T.view v).main :: (T.view v).wraw := by
          intro hm
          rcases List.mem_cons.mp hm with e | e
          · exact hown w hwn hwv l' (e ▸ main_mem_clears T hwf v hvn) hl'
          · rcases hraw l' (by simp [e]) with h' | h'
            · exact hown w hwn hwv l' h' hl'
            · rw [owned_of_mem T w hwn l' hl'] at h'; cases h'
        simp only [applyWr, hnws, if_false]
        exact h1.2 w hwn l' hl'

/-- both invariants after a whole run. -/
theorem run_invK (hwf : WF T = true) (hw : WritesAll T = true) (ht : Topo T = true) (hfr : Frame T = true)
    (hra : RAcyclic T = true) (hl : LiveLoop T = true) (L : FrameLaws T C) (hcan : Canon T C) (raw₀ : Nat → B) (E : Nat → V)
    (hE : IsEnv T C raw₀ E) (R : RoundTripAt T C raw₀ E) (xs : List Nat) (hxs : ∀ u ∈ xs, u < T.n) :
    InvK T C raw₀ E (save T C (accesses T C xs (init raw₀))) := by
  have e0 : InvE T C raw₀ E T.n (init raw₀ : St B V) :=
    ⟨fun v x hv => by simp [init] at hv, fun v hvn _ _ => hE v hvn, fun _ _ => rfl⟩
  have k0 : InvK T C raw₀ E (init raw₀ : St B V) :=
    ⟨fun v hv => by simp [init] at hv, fun v _ l _ => ⟨fun _ => ⟨rfl, rfl⟩, fun ht => by simp [init] at ht⟩⟩
  have closed : ∀ a, a < T.n → ∀ w ∈ (T.view a).rdeps, w < T.n := by
    intro a ha w hw'
    exact (wf_spec T hwf).2 a ha |>.2.1 w (by simp [hw'])
  have h1 : InvE T C raw₀ E T.n (accesses T C xs (init raw₀)) ∧ InvK T C raw₀ E (accesses T C xs (init raw₀)) := by
    unfold accesses
    refine foldl_inv (fun s' => InvE T C raw₀ E T.n s' ∧ InvK T C raw₀ E s') _ xs _ ⟨e0, k0⟩ (fun a u hu ha => ?_)
    exact ⟨access_invE T C hfr hra L raw₀ E T.n (· < T.n) closed (fun _ h => h) (by omega) T.fuel u a (hxs u hu)
        (by have := (racyclic_spec T hra u (hxs u hu)).1; unfold Tables.fuel; omega) ha.1,
      access_invK T C hfr raw₀ E (· < T.n) closed (fun _ h => h) T.fuel u a (hxs u hu) ha.2⟩
  rw [save_live T C hl]
  exact (foldl_inv (fun s' => InvE T C raw₀ E T.n s' ∧ InvK T C raw₀ E s') _ T.order _ h1
    (fun a l _ ha => ⟨saveStep_invE T C hwf ht hfr hra L raw₀ E R l a ha.1,
      saveStep_invK T C hwf hw ht hfr hra L hcan raw₀ E l a ha.1 ha.2⟩)).2

theorem owned_spec (l : Nat) (h : T.owned l = true) : ∃ v, v < T.n ∧ l ∈ (T.view v).clears := by
  unfold Tables.owned at h
  simp only [List.any_eq_true, List.mem_range, List.contains_iff_mem] at h
  exact h

/-- **a second save is byte-identical**: re-open the saved lumps, read the same views, save again. -/
theorem idem_bytes (hwf : WF T = true) (hw : WritesAll T = true) (ht : Topo T = true) (hfr : Frame T = true)
    (hra : RAcyclic T = true) (hb : BorrowOK T = true) (hl : LiveLoop T = true) (L : Laws T C) (hcan : Canon T C)
    (raw₀ : Nat → B) (E : Nat → V) (hE : IsEnv T C raw₀ E) (xs : List Nat) (hxs : ∀ u ∈ xs, u < T.n) (l : Nat) :
    (save T C (accesses T C xs (init (V := V) (save T C (accesses T C xs (init raw₀))).raw))).raw l
      = (save T C (accesses T C xs (init raw₀))).raw l := by
  -- first run
  obtain ⟨_, e1b, e1c⟩ := content_all T C hwf ht hfr hra hl L.frame raw₀ E hE (L.at hE) xs hxs
  obtain ⟨n1, c1, _, _⟩ := flush_all T C hwf hw ht hb hl raw₀ xs hxs
  have hE1 : IsEnv T C (save T C (accesses T C xs (init raw₀))).raw E :=
    fun v hv => e1b v hv (by omega) (n1 v)
  have k1 := run_invK T C hwf hw ht hfr hra hl L.frame hcan raw₀ E hE (L.at hE) xs hxs
  -- second run
  obtain ⟨_, _, e2c⟩ := content_all T C hwf ht hfr hra hl L.frame _ E hE1 (L.at hE1) xs hxs
  obtain ⟨_, c2, _, _⟩ := flush_all T C hwf hw ht hb hl (save T C (accesses T C xs (init (V := V) raw₀))).raw xs hxs
  have k2 := run_invK T C hwf hw ht hfr hra hl L.frame hcan _ E hE1 (L.at hE1) xs hxs
  have hsh := run_sh T C hl xs raw₀ (save T C (accesses T C xs (init (V := V) raw₀))).raw
  cases ho : T.owned l with
  | false => exact e2c l ho
  | true =>
    obtain ⟨v, hvn, hl⟩ := owned_spec T l ho
    obtain ⟨k2a, k2b⟩ := k2.2 v hvn l hl
    cases ht2 : (save T C (accesses T C xs (init (V := V) (save T C (accesses T C xs (init raw₀))).raw))).touched v with
    | false => exact (k2a ht2).1
    | true =>
      have ht1 : (save T C (accesses T C xs (init (V := V) raw₀))).touched v = true := by
        rw [hsh.2 v]; exact ht2
      rcases k2b ht2 with hc | hr
      · rw [c2 l] at hc; cases hc
      · rcases (k1.2 v hvn l hl).2 ht1 with hc | hr1
        · rw [c1 l] at hc; cases hc
        · rw [hr, hr1]
          exact hcan v hvn _ _ _ _ l hl

end C10
