import Srctools.Proofs.C17
/-! # C17 — the collapse as a whole factors through the placement (over a field) -/
namespace C17
variable {K : Type} [Field K] [CharFold]

/-- The same instance placed somewhere else. -/
def Inst.at (I : Inst K) (P : Placement K) : Inst K := { I with P := P }

omit [CharFold] in
theorem Placement.id_R : (Placement.id : Placement K).R = M3.one := rfl

theorem fixupKey_factor (I : Inst K) (v : KVal K) :
    fixupKey I v = KVal.mapGeom I.P (fixupKey (I.at Placement.id) v) := by
  cases v <;>
    simp [fixupKey, KVal.mapGeom, Inst.at, place_id, rot_one, mul_one', Placement.id_R]

omit [CharFold] in
theorem KVal.mapGeom_comp (P Q : Placement K) (v : KVal K) :
    KVal.mapGeom Q (KVal.mapGeom P v) = KVal.mapGeom (P.comp Q) v := by
  cases v <;> simp [KVal.mapGeom, place_comp, rot_mul, mul_assoc', Placement.comp]

theorem collapseEnt_factor (I : Inst K) (e : Ent K) :
    collapseEnt I e = Ent.mapGeom I.P (collapseEnt (I.at Placement.id) e) := by
  simp only [collapseEnt, Ent.mapGeom, List.map_map, Inst.at]
  congr 1
  · apply List.map_congr_left
    intro kv _
    simp only [Function.comp]
    rw [fixupKey_factor I kv.2]; rfl
  · apply List.map_congr_left
    intro b _
    simp only [Function.comp, Solid.localise_id]

/-- `collapse T P = mapGeometry (place P) (collapse T id)`: the collapse at any placement is the
collapse at the identity placement moved by the placement — names, substituted values, output
targets and nested fixups do not depend on the placement at all. -/
theorem collapse_factor (T : Template K) (I : Inst K) :
    collapse T I = mapGeometry I.P (collapse T (I.at Placement.id)) := by
  simp only [collapse, mapGeometry, List.map_map, Inst.at]
  congr 1
  · apply List.map_congr_left
    intro b _
    simp only [Function.comp, Solid.localise_id]
  · apply List.map_congr_left
    intro e _
    exact collapseEnt_factor I e

omit [CharFold] in
theorem Ent.mapGeom_comp {P Q : Placement K} (h : Orth Q.R) (e : Ent K) :
    Ent.mapGeom Q (Ent.mapGeom P e) = Ent.mapGeom (P.comp Q) e := by
  simp only [Ent.mapGeom, List.map_map]
  congr 1
  · apply List.map_congr_left
    intro kv _
    simp only [Function.comp, KVal.mapGeom_comp]
  · apply List.map_congr_left
    intro b _
    simp only [Function.comp, Solid.localise_comp h]

omit [CharFold] in
theorem mapGeometry_comp {P Q : Placement K} (h : Orth Q.R) (T : Template K) :
    mapGeometry Q (mapGeometry P T) = mapGeometry (P.comp Q) T := by
  simp only [mapGeometry, List.map_map]
  congr 1
  · apply List.map_congr_left
    intro b _
    simp only [Function.comp, Solid.localise_comp h]
  · apply List.map_congr_left
    intro e _
    simp only [Function.comp, Ent.mapGeom_comp h]

/-- Inverse of a placement with orthogonal matrix: `q ↦ (q − o)·Rᵀ`. -/
def Placement.inv (P : Placement K) : Placement K :=
  ⟨P.R.transpose, rot P.R.transpose ⟨-P.o.x, -P.o.y, -P.o.z⟩⟩

omit [CharFold] in
theorem Placement.comp_inv_comp (P₁ P₂ : Placement K) (h : Orth P₁.R) :
    P₁.comp (P₁.inv.comp P₂) = P₂ := by
  have hR : P₁.R.mul (P₁.R.transpose.mul P₂.R) = P₂.R := by
    rw [← mul_assoc', h, one_mul']
  cases P₂ with | mk R₂ o₂ =>
  simp only [Placement.comp, Placement.inv, Placement.mk.injEq] at hR ⊢
  refine ⟨hR, ?_⟩
  -- o₁·(R₁ᵀR₂) + ((−o₁)R₁ᵀ)R₂ + o₂ = o₂ : a ring identity
  cases o₂
  simp only [place, rot, M3.mul, M3.transpose, V3.add, V3.mk.injEq]
  refine ⟨?_, ?_, ?_⟩ <;> ring

omit [CharFold] in
theorem orth_inv_comp {P₁ P₂ : Placement K} (h₁ : Orth P₁.R.transpose) (h₂ : Orth P₂.R) :
    Orth (P₁.inv.comp P₂).R := by
  simp only [Placement.comp, Placement.inv]
  exact h₁.mul h₂

/-- Two collapses of the same template with the same instance parameters differ only by the
relative placement `P₁⁻¹ ≫ P₂`. -/
theorem collapse_two_placements (T : Template K) (I : Inst K) (P₁ P₂ : Placement K)
    (h₁ : Orth P₁.R) (h₂ : Orth P₂.R) :
    collapse T (I.at P₂) = mapGeometry (P₁.inv.comp P₂) (collapse T (I.at P₁)) := by
  have e1 := collapse_factor T (I.at P₁)
  have e2 := collapse_factor T (I.at P₂)
  have hid : (I.at P₁).at Placement.id = (I.at P₂).at Placement.id := rfl
  rw [e1, mapGeometry_comp (orth_inv_comp h₁.transpose h₂), e2, ← hid]
  show mapGeometry P₂ _ = mapGeometry (P₁.comp (P₁.inv.comp P₂)) _
  rw [Placement.comp_inv_comp P₁ P₂ h₁]

end C17
