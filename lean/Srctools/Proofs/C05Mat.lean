import Srctools.Model.C05Mat
import Srctools.Proofs.C05
/-! C05, fourth proofs file: frame, frozen and range theorems of the state machine extended with
Matrix / FrozenMatrix objects (`Model/C05Mat.lean`). -/
namespace C05

variable {α : Type} (N : NumSys α) (sites : List AngleSite)

theorem mget_append_left {l : List (MObj α)} {j : Nat} {o x : MObj α} (hj : l[j]? = some o) : (l ++ [x])[j]? = some o := by
  have hlt : j < l.length := by
    by_contra hc
    rw [List.getElem?_eq_none (Nat.le_of_not_lt hc)] at hj; cases hj
  rw [List.getElem?_append_left hlt]; exact hj

/-- **frame property for matrices**: a matrix that exists before a call is unchanged by it, unless it is the reported
target of the call — and then it is a mutable `Matrix`. -/
theorem mstep_frame_mat (st : MState α) (op : MOp α) (j : Nat) (o : MObj α) (hj : st.mats[j]? = some o) :
    (mstep N sites st op).1.mats[j]? = some o ∨ ((mstep N sites st op).2 = .mat j ∧ o.frozen = false) := by
  have app : ∀ x : MObj α, (st.mats ++ [x])[j]? = some o := fun x => mget_append_left hj
  cases op with
  | base op => left; simp only [mstep]; exact hj
  | mctor frozen m => left; simp only [mstep]; exact app _
  | mcopy frozen i =>
    left; simp only [mstep]
    split
    · exact app _
    · exact hj
  | mtranspose i =>
    left; simp only [mstep]
    split
    · exact app _
    · exact hj
  | mset i r c v =>
    simp only [mstep]
    split
    · rename_i p hp
      split
      · rename_i hk
        by_cases hij : i = j
        · right; subst hij
          rw [hj] at hp; cases hp
          refine ⟨rfl, ?_⟩
          simp only [Bool.and_eq_true, Bool.not_eq_true', decide_eq_true_eq] at hk
          exact hk.1.1
        · left
          show (st.mats.set i _)[j]? = some o
          rw [List.getElem?_set_ne hij]; exact hj
      · exact Or.inl hj
    · exact Or.inl hj
  | mmul i k inplace =>
    simp only [mstep]
    split
    · rename_i p q hp hq
      cases inplace with
      | true =>
        simp only [if_true]
        split
        · rename_i hk
          by_cases hij : i = j
          · right; subst hij
            rw [hj] at hp; cases hp
            exact ⟨rfl, by simpa using hk⟩
          · left
            show (st.mats.set i _)[j]? = some o
            rw [List.getElem?_set_ne hij]; exact hj
        · exact Or.inl hj
      | false =>
        simp only [Bool.false_eq_true, if_false]
        exact Or.inl (app _)
    · exact Or.inl hj
  | mrow i row mag =>
    left; simp only [mstep]
    split
    · exact hj
    · exact hj
  | vrot v i inplace =>
    left; simp only [mstep]
    split
    · split
      · exact hj
      · split
        · split <;> exact hj
        · exact hj
    · exact hj

/-- frame property for the Angle/Vec objects under the extended operation set -/
theorem mstep_frame_obj (st : MState α) (op : MOp α) (j : Nat) (o : Obj α) (hj : st.objs[j]? = some o) :
    (mstep N sites st op).1.objs[j]? = some o ∨ ((mstep N sites st op).2 = .obj j ∧ o.kind.frozen = false) := by
  have app : ∀ x : Obj α, (st.objs ++ [x])[j]? = some o := fun x => get_append_left hj
  cases op with
  | base op =>
    simp only [mstep]
    rcases step_frame N sites st.objs op j o hj with h | ⟨h1, h2⟩
    · exact Or.inl h
    · right; rw [h1]; exact ⟨rfl, h2⟩
  | mctor frozen m => left; simp only [mstep]; exact hj
  | mcopy frozen i =>
    left; simp only [mstep]
    split <;> exact hj
  | mtranspose i =>
    left; simp only [mstep]
    split <;> exact hj
  | mset i r c v =>
    left; simp only [mstep]
    split
    · split <;> exact hj
    · exact hj
  | mmul i k inplace =>
    left; simp only [mstep]
    split
    · split
      · split <;> exact hj
      · exact hj
    · exact hj
  | mrow i row mag =>
    left; simp only [mstep]
    split
    · exact app _
    · exact hj
  | vrot v i inplace =>
    simp only [mstep]
    split
    · rename_i p q hp hq
      split
      · exact Or.inl hj
      · cases inplace with
        | true =>
          simp only [if_true]
          split
          · rename_i hk
            rcases get_set (i := v) (x := vecRot N p q.m) hj with h | h
            · exact Or.inl h
            · right; subst h
              rw [hj] at hp; cases hp
              have : o.kind = .vec := by simpa using hk
              exact ⟨rfl, by rw [this]; rfl⟩
          · exact Or.inl hj
        | false =>
          simp only [Bool.false_eq_true, if_false]
          exact Or.inl (app _)
    · exact Or.inl hj

/-- no API call changes a frozen object of any of the three frozen classes -/
theorem mstep_frozen (st : MState α) (op : MOp α) :
    (∀ (j : Nat) (o : Obj α), st.objs[j]? = some o → o.kind.frozen = true → (mstep N sites st op).1.objs[j]? = some o) ∧
    (∀ (j : Nat) (o : MObj α), st.mats[j]? = some o → o.frozen = true → (mstep N sites st op).1.mats[j]? = some o) := by
  constructor
  · intro j o hj hf
    rcases mstep_frame_obj N sites st op j o hj with h | ⟨_, h⟩
    · exact h
    · rw [hf] at h; cases h
  · intro j o hj hf
    rcases mstep_frame_mat N sites st op j o hj with h | ⟨_, h⟩
    · exact h
    · rw [hf] at h; cases h

/-- … nor does any history -/
theorem mrun_frozen (ops : List (MOp α)) : ∀ (st : MState α),
    (∀ (j : Nat) (o : Obj α), st.objs[j]? = some o → o.kind.frozen = true → (mrun N sites st ops).objs[j]? = some o) ∧
    (∀ (j : Nat) (o : MObj α), st.mats[j]? = some o → o.frozen = true → (mrun N sites st ops).mats[j]? = some o) := by
  induction ops with
  | nil => intro st; exact ⟨fun _ _ h _ => h, fun _ _ h _ => h⟩
  | cons op r ih =>
    intro st
    obtain ⟨s1, s2⟩ := mstep_frozen N sites st op
    obtain ⟨i1, i2⟩ := ih (mstep N sites st op).1
    constructor
    · intro j o hj hf
      have := i1 j o (s1 j o hj hf) hf
      simpa [mrun] using this
    · intro j o hj hf
      have := i2 j o (s2 j o hj hf) hf
      simpa [mrun] using this


/-! the range invariant of the Angle/Vec objects carries over to the extended machine -/

variable {N} (L : NumLaws N)

def WfMOp (st : MState α) : MOp α → Prop
  | .base op => WfOp L st.objs op
  | _ => True

def WfMRun (sites : List AngleSite) : MState α → List (MOp α) → Prop
  | _, [] => True
  | st, op :: r => WfMOp L st op ∧ WfMRun sites (mstep N sites st op).1 r

theorem vecRot_ok (o : Obj α) (m : Mat9 α) (h : o.kind.isAngle = false) : ObjOK L (vecRot N o m) := by
  intro hk
  have : (vecRot N o m).kind = o.kind := rfl
  rw [this, h] at hk; cases hk

theorem mstep_inv {sites : List AngleSite} (hs : modelSitesOK sites = true) {st : MState α} (h : Inv L st.objs)
    (op : MOp α) (hw : WfMOp L st op) : Inv L (mstep N sites st op).1.objs := by
  cases op with
  | base op => simp only [mstep]; exact step_inv L hs h op hw
  | mctor frozen m => simp only [mstep]; exact h
  | mcopy frozen i => simp only [mstep]; split <;> exact h
  | mtranspose i => simp only [mstep]; split <;> exact h
  | mset i r c v =>
    simp only [mstep]
    split
    · split <;> exact h
    · exact h
  | mmul i k inplace =>
    simp only [mstep]
    split
    · split
      · split <;> exact h
      · exact h
    · exact h
  | mrow i row mag =>
    simp only [mstep]
    split
    · apply inv_append L h
      intro hk; cases hk
    · exact h
  | vrot v i inplace =>
    simp only [mstep]
    split
    · rename_i p q hp hq
      split
      · exact h
      · rename_i hk
        have hna : p.kind.isAngle = false := by simpa using hk
        split
        · split
          · exact inv_set L v h (vecRot_ok L p q.m hna)
          · exact h
        · exact inv_append L h (vecRot_ok L p q.m hna)
    · exact h

theorem mrun_inv {sites : List AngleSite} (hs : modelSitesOK sites = true) (ops : List (MOp α)) :
    ∀ (st : MState α), Inv L st.objs → WfMRun L sites st ops → Inv L (mrun N sites st ops).objs := by
  induction ops with
  | nil => intro st h _; exact h
  | cons op r ih =>
    intro st h hw
    obtain ⟨h1, h2⟩ := hw
    have := ih (mstep N sites st op).1 (mstep_inv L hs h op h1) h2
    simpa [mrun] using this

end C05
