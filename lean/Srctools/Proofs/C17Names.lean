import Srctools.Model.C17
/-! # C17 — names, `$variable` substitution, the `collapse_all` counter machine, fixup cells (core only) -/
namespace C17

/-! ## fixupName -/

theorem fixupName_pass (st : Style) (inst name : List Char) (h : passThrough name = true) :
    fixupName st inst name = name := by simp [fixupName, h]

theorem fixupName_none (inst name : List Char) : fixupName .none inst name = name := by
  simp [fixupName]

theorem fixupName_pre (inst name : List Char) (h : passThrough name = false) :
    fixupName .pre inst name = inst ++ '-' :: name := by simp [fixupName, h]

theorem fixupName_suf (inst name : List Char) (h : passThrough name = false) :
    fixupName .suf inst name = name ++ '-' :: inst := by simp [fixupName, h]

theorem passThrough_append_of_ne_nil {a : List Char} (b : List Char) (h : a ≠ []) :
    passThrough (a ++ b) = passThrough a := by
  cases a with
  | nil => exact absurd rfl h
  | cons c cs => rfl

theorem passThrough_suf (inst name : List Char) (h : passThrough name = false) :
    passThrough (name ++ '-' :: inst) = false := by
  cases name with
  | nil => simp [passThrough] at h
  | cons c cs => simpa [passThrough] using h

theorem passThrough_pre (inst name : List Char) (h : passThrough inst = false) :
    passThrough (inst ++ '-' :: name) = false := by
  cases inst with
  | nil => simp [passThrough] at h
  | cons c cs => simpa [passThrough] using h

/-- Per style, renaming is injective on plain (non pass-through) names. -/
theorem fixupName_inj_plain (st : Style) (inst a b : List Char)
    (ha : passThrough a = false) (hb : passThrough b = false)
    (h : fixupName st inst a = fixupName st inst b) : a = b := by
  cases st with
  | none => simpa [fixupName_none] using h
  | pre =>
    rw [fixupName_pre _ _ ha, fixupName_pre _ _ hb] at h
    have := List.append_cancel_left h
    simpa using this
  | suf =>
    rw [fixupName_suf _ _ ha, fixupName_suf _ _ hb] at h
    exact List.append_cancel_right h

/-- SUFFIX renaming is injective on all names, whatever the instance is called. -/
theorem fixupName_suf_inj (inst a b : List Char)
    (h : fixupName .suf inst a = fixupName .suf inst b) : a = b := by
  cases ha : passThrough a <;> cases hb : passThrough b
  · exact fixupName_inj_plain .suf inst a b ha hb h
  · rw [fixupName_suf _ _ ha, fixupName_pass _ _ _ hb] at h
    have := passThrough_suf inst a ha
    rw [h, hb] at this; cases this
  · rw [fixupName_pass _ _ _ ha, fixupName_suf _ _ hb] at h
    have := passThrough_suf inst b hb
    rw [← h, ha] at this; cases this
  · rw [fixupName_pass _ _ _ ha, fixupName_pass _ _ _ hb] at h; exact h

/-- PREFIX renaming is injective on all names when the instance name is itself plain. -/
theorem fixupName_pre_inj (inst a b : List Char) (hi : passThrough inst = false)
    (h : fixupName .pre inst a = fixupName .pre inst b) : a = b := by
  cases ha : passThrough a <;> cases hb : passThrough b
  · exact fixupName_inj_plain .pre inst a b ha hb h
  · rw [fixupName_pre _ _ ha, fixupName_pass _ _ _ hb] at h
    have := passThrough_pre inst a hi
    rw [h, hb] at this; cases this
  · rw [fixupName_pass _ _ _ ha, fixupName_pre _ _ hb] at h
    have := passThrough_pre inst b hi
    rw [← h, ha] at this; cases this
  · rw [fixupName_pass _ _ _ ha, fixupName_pass _ _ _ hb] at h; exact h

/-- Renaming a renamed plain name prefixes again: this is why a collapse that writes into the
template is observable (second collapse gives `I-I-name`). -/
theorem fixupName_pre_twice (inst name : List Char) (hi : passThrough inst = false)
    (hn : passThrough name = false) :
    fixupName .pre inst (fixupName .pre inst name) = inst ++ '-' :: (inst ++ '-' :: name) := by
  rw [fixupName_pre _ _ hn, fixupName_pre _ _ (passThrough_pre inst name hi)]

theorem fixupName_pre_twice_ne (inst name : List Char) (hi : passThrough inst = false)
    (hn : passThrough name = false) :
    fixupName .pre inst (fixupName .pre inst name) ≠ fixupName .pre inst name := by
  rw [fixupName_pre_twice _ _ hi hn, fixupName_pre _ _ hn]
  intro h
  have h1 := congrArg List.length h
  simp at h1
  omega

/-! ## substitute -/

section Subst
variable [CharFold]

theorem substGo_drop (t : FixTable) (d : List Char) :
    ∀ (n : Nat) (cs : List Char), substGo t d n cs = substGo t d 0 (cs.drop n)
  | 0, cs => by simp
  | n + 1, [] => by simp [substGo]
  | n + 1, c :: cs => by
    rw [substGo, substGo_drop t d n cs]; simp

theorem substitute_nil (t : FixTable) (d : List Char) : substitute t d [] = [] := by
  simp [substitute, substGo]

theorem substitute_cons_ne (t : FixTable) (d : List Char) (c : Char) (cs : List Char) (h : c ≠ '$') :
    substitute t d (c :: cs) = c :: substitute t d cs := by
  simp [substitute, substGo, h]

theorem substitute_var (t : FixTable) (d rest val : List Char) (n : Nat)
    (h : matchVar t d rest = some (n, val)) :
    substitute t d ('$' :: rest) = val ++ substitute t d (rest.drop n) := by
  simp only [substitute, substGo, if_true, h]
  rw [substGo_drop]

theorem substitute_dollar_nomatch (t : FixTable) (d rest : List Char)
    (h : matchVar t d rest = none) :
    substitute t d ('$' :: rest) = '$' :: substitute t d rest := by
  simp only [substitute, substGo, if_true, h]

theorem substitute_append_left (t : FixTable) (d : List Char) :
    ∀ (a b : List Char), '$' ∉ a → substitute t d (a ++ b) = a ++ substitute t d b
  | [], b, _ => by simp
  | c :: a, b, h => by
    have hc : c ≠ '$' := fun e => h (by simp [e])
    have ha : '$' ∉ a := fun e => h (by simp [e])
    rw [List.cons_append, substitute_cons_ne t d c _ hc, substitute_append_left t d a b ha]
    rfl

theorem substitute_no_dollar (t : FixTable) (d text : List Char) (h : '$' ∉ text) :
    substitute t d text = text := by
  have := substitute_append_left t d text [] h
  simpa [substitute_nil] using this

/-- `matchesCI` characterised: the key is the lower-cased prefix of the text. -/
theorem matchesCI_iff : ∀ (k rest : List Char),
    matchesCI k rest = true ↔ k.length ≤ rest.length ∧ k = (rest.take k.length).map CharFold.lw
  | [], rest => by simp [matchesCI]
  | a :: k, [] => by simp [matchesCI]
  | a :: k, b :: rest => by
    simp only [matchesCI, Bool.and_eq_true, beq_iff_eq, matchesCI_iff k rest, List.length_cons,
      List.take_succ_cons, List.map_cons, List.cons.injEq]
    constructor
    · rintro ⟨h1, h2, h3⟩; exact ⟨by omega, h1, h3⟩
    · rintro ⟨h1, h2, h3⟩; exact ⟨h2, by omega, h3⟩

/-- Two keys of the same length that both match are the same key. -/
theorem matchesCI_unique (k k' rest : List Char) (h : matchesCI k rest = true)
    (h' : matchesCI k' rest = true) (hl : k.length = k'.length) : k = k' := by
  rw [matchesCI_iff] at h h'
  rw [h.2, h'.2, hl]

theorem firstMatch_some {ks : List (List Char)} {rest k : List Char}
    (h : firstMatch ks rest = some k) : k ∈ ks ∧ matchesCI k rest = true := by
  induction ks with
  | nil => simp [firstMatch] at h
  | cons a as ih =>
    simp only [firstMatch] at h
    split at h
    · cases h; simp [*]
    · have := ih h; exact ⟨List.mem_cons_of_mem _ this.1, this.2⟩

theorem firstMatch_none {ks : List (List Char)} {rest : List Char}
    (h : firstMatch ks rest = none) : ∀ k ∈ ks, matchesCI k rest = false := by
  induction ks with
  | nil => simp
  | cons a as ih =>
    simp only [firstMatch] at h
    split at h
    · cases h
    · intro k hk
      rcases List.mem_cons.mp hk with rfl | hk
      · rename_i hna; exact Bool.eq_false_iff.mpr hna
      · exact ih h k hk

/-- In a list sorted longest-first, the first match is a longest match. -/
theorem firstMatch_longest {ks : List (List Char)} {rest k : List Char}
    (hs : ks.Pairwise (fun a b => b.length ≤ a.length))
    (h : firstMatch ks rest = some k) :
    ∀ k' ∈ ks, matchesCI k' rest = true → k'.length ≤ k.length := by
  induction ks with
  | nil => simp
  | cons a as ih =>
    rw [List.pairwise_cons] at hs
    simp only [firstMatch] at h
    split at h
    · cases h
      intro k' hk' _
      rcases List.mem_cons.mp hk' with rfl | hk'
      · exact Nat.le_refl _
      · exact hs.1 k' hk'
    · rename_i hna
      intro k' hk' hm
      rcases List.mem_cons.mp hk' with rfl | hk'
      · exact absurd hm hna
      · exact ih hs.2 h k' hk' hm

omit [CharFold] in
theorem mem_insKey (k x : List Char) : ∀ l : List (List Char), x ∈ insKey k l ↔ x = k ∨ x ∈ l
  | [] => by simp [insKey]
  | e :: l => by
    simp only [insKey]
    split
    · simp
    · simp only [List.mem_cons, mem_insKey k x l]
      constructor
      · rintro (h | h | h) <;> simp [h]
      · rintro (h | h | h) <;> simp [h]

omit [CharFold] in
theorem pairwise_insKey (k : List Char) : ∀ l : List (List Char),
    l.Pairwise (fun a b => b.length ≤ a.length) → (insKey k l).Pairwise (fun a b => b.length ≤ a.length)
  | [], _ => by simp [insKey]
  | e :: l, h => by
    rw [List.pairwise_cons] at h
    simp only [insKey]
    split
    · rename_i hle
      refine List.pairwise_cons.mpr ⟨?_, List.pairwise_cons.mpr h⟩
      intro x hx
      rcases List.mem_cons.mp hx with rfl | hx
      · exact hle
      · exact Nat.le_trans (h.1 x hx) hle
    · rename_i hgt
      refine List.pairwise_cons.mpr ⟨?_, pairwise_insKey k l h.2⟩
      intro x hx
      rcases (mem_insKey k x l).mp hx with rfl | hx
      · omega
      · exact h.1 x hx

omit [CharFold] in
theorem mem_sortByLen (x : List Char) : ∀ l : List (List Char), x ∈ sortByLen l ↔ x ∈ l
  | [] => by simp [sortByLen]
  | k :: rest => by simp [sortByLen, mem_insKey, mem_sortByLen x rest]

omit [CharFold] in
theorem pairwise_sortByLen : ∀ l : List (List Char),
    (sortByLen l).Pairwise (fun a b => b.length ≤ a.length)
  | [] => by simp [sortByLen]
  | k :: rest => pairwise_insKey k _ (pairwise_sortByLen rest)

omit [CharFold] in
theorem sortKeys_pairwise (t : FixTable) :
    (sortKeys t).Pairwise (fun a b => b.length ≤ a.length) := pairwise_sortByLen _

omit [CharFold] in
theorem mem_sortKeys (t : FixTable) (k : List Char) : k ∈ sortKeys t ↔ k ∈ t.map (·.1) :=
  mem_sortByLen k _

/-! ### the result does not depend on the order of the table -/

omit [CharFold] in
theorem lookupFix_some_iff : ∀ (t : FixTable) (k v : List Char), (t.map (·.1)).Nodup →
    (lookupFix t k = some v ↔ (k, v) ∈ t)
  | [], k, v, _ => by simp [lookupFix]
  | (a, b) :: t, k, v, hnd => by
    simp only [List.map_cons, List.nodup_cons] at hnd
    have ih := lookupFix_some_iff t k v hnd.2
    by_cases h : a = k
    · subst h
      simp only [lookupFix, List.find?_cons, beq_self_eq_true, Option.map_some, Option.some.injEq,
        List.mem_cons, Prod.mk.injEq, true_and]
      constructor
      · intro e; exact Or.inl e.symm
      · rintro (e | e)
        · exact e.symm
        · exact absurd (List.mem_map_of_mem (f := (·.1)) e) hnd.1
    · have hb : ((a, b).1 == k) = false := by simpa using h
      simp only [lookupFix, List.find?_cons, hb, List.mem_cons, Prod.mk.injEq]
      simp only [lookupFix] at ih
      rw [ih]
      constructor
      · intro e; exact Or.inr e
      · rintro (⟨e, _⟩ | e)
        · exact absurd e.symm h
        · exact e

omit [CharFold] in
theorem lookupFix_none_iff : ∀ (t : FixTable) (k : List Char),
    (lookupFix t k = none ↔ k ∉ t.map (·.1))
  | [], k => by simp [lookupFix]
  | (a, b) :: t, k => by
    have ih := lookupFix_none_iff t k
    by_cases h : a = k
    · subst h; simp [lookupFix]
    · have hb : ((a, b).1 == k) = false := by simpa using h
      simp only [lookupFix, List.find?_cons, hb, List.map_cons, List.mem_cons, not_or]
      simp only [lookupFix] at ih
      rw [ih]
      constructor
      · intro e; exact ⟨fun e' => h e'.symm, e⟩
      · intro e; exact e.2

omit [CharFold] in
theorem lookupFix_perm {t₁ t₂ : FixTable} (hp : t₁.Perm t₂) (hnd : (t₁.map (·.1)).Nodup)
    (k : List Char) : lookupFix t₁ k = lookupFix t₂ k := by
  have hnd2 : (t₂.map (·.1)).Nodup := (hp.map _).nodup_iff.mp hnd
  cases h : lookupFix t₁ k with
  | none =>
    have := (lookupFix_none_iff t₁ k).mp h
    have h2 : k ∉ t₂.map (·.1) := fun e => this ((hp.map _).mem_iff.mpr e)
    exact ((lookupFix_none_iff t₂ k).mpr h2).symm
  | some v =>
    have := (lookupFix_some_iff t₁ k v hnd).mp h
    exact ((lookupFix_some_iff t₂ k v hnd2).mpr (hp.mem_iff.mp this)).symm

theorem firstMatch_perm {t₁ t₂ : FixTable} (hp : t₁.Perm t₂) (rest : List Char) :
    firstMatch (alternatives t₁) rest = firstMatch (alternatives t₂) rest := by
  have hk : ∀ k, k ∈ t₁.map (·.1) ↔ k ∈ t₂.map (·.1) := fun k => (hp.map _).mem_iff
  cases t₁ with
  | nil => rw [List.nil_perm.mp hp]
  | cons a t₁' =>
    cases t₂ with
    | nil => exact absurd hp.symm (by simp)
    | cons b t₂' =>
      simp only [alternatives, List.isEmpty_cons, Bool.false_eq_true, if_false]
      cases h1 : firstMatch (sortKeys (a :: t₁')) rest with
      | none =>
        cases h2 : firstMatch (sortKeys (b :: t₂')) rest with
        | none => rfl
        | some k' =>
          have m := firstMatch_some h2
          have := firstMatch_none h1 k' ((mem_sortKeys _ k').mpr ((hk k').mpr ((mem_sortKeys _ k').mp m.1)))
          rw [m.2] at this; cases this
      | some k =>
        have m1 := firstMatch_some h1
        cases h2 : firstMatch (sortKeys (b :: t₂')) rest with
        | none =>
          have := firstMatch_none h2 k ((mem_sortKeys _ k).mpr ((hk k).mp ((mem_sortKeys _ k).mp m1.1)))
          rw [m1.2] at this; cases this
        | some k' =>
          have m2 := firstMatch_some h2
          have l1 := firstMatch_longest (sortKeys_pairwise _) h1 k'
            ((mem_sortKeys _ k').mpr ((hk k').mpr ((mem_sortKeys _ k').mp m2.1))) m2.2
          have l2 := firstMatch_longest (sortKeys_pairwise _) h2 k
            ((mem_sortKeys _ k).mpr ((hk k).mp ((mem_sortKeys _ k).mp m1.1))) m1.2
          rw [matchesCI_unique k k' rest m1.2 m2.2 (by omega)]

theorem matchVar_perm {t₁ t₂ : FixTable} (hp : t₁.Perm t₂) (hnd : (t₁.map (·.1)).Nodup)
    (d rest : List Char) : matchVar t₁ d rest = matchVar t₂ d rest := by
  simp only [matchVar, firstMatch_perm hp rest, lookupFix_perm hp hnd]

theorem substGo_perm {t₁ t₂ : FixTable} (hp : t₁.Perm t₂) (hnd : (t₁.map (·.1)).Nodup)
    (d : List Char) : ∀ (cs : List Char) (n : Nat), substGo t₁ d n cs = substGo t₂ d n cs
  | [], n => by simp [substGo]
  | c :: cs, n + 1 => by simp only [substGo]; exact substGo_perm hp hnd d cs n
  | c :: cs, 0 => by
    simp only [substGo, matchVar_perm hp hnd]
    split
    · split
      · rw [substGo_perm hp hnd d cs]
      · rw [substGo_perm hp hnd d cs]
    · rw [substGo_perm hp hnd d cs]

end Subst

/-! ## collapse_all -/

theorem children_length_le (files : List (List Nat)) (b : Nat) (hb : ∀ f ∈ files, f.length ≤ b)
    (i : Nat) : (children files i).length ≤ b := by
  unfold children
  rw [List.getD_eq_getElem?_getD]
  cases h : files[i]? with
  | none => simp
  | some f => simpa using hb f (List.mem_of_getElem? h)

theorem flatMap_children_length (files : List (List Nat)) (b : Nat)
    (hb : ∀ f ∈ files, f.length ≤ b) (insts : List Nat) :
    (insts.flatMap (children files)).length ≤ b * insts.length := by
  induction insts with
  | nil => simp
  | cons i is ih =>
    simp only [List.flatMap_cons, List.length_append, List.length_cons]
    have := children_length_le files b hb i
    rw [Nat.mul_succ]; omega

/-- The number of collapses is bounded by `n₀ · Σ_{k<limit} b^k`. -/
theorem collapseAll_bound (files : List (List Nat)) (b : Nat) (hb : ∀ f ∈ files, f.length ≤ b) :
    ∀ (limit : Nat) (insts : List Nat),
      (collapseAll files limit insts).collapses ≤ insts.length * geomSum b limit
  | 0, insts => by simp [collapseAll]
  | limit + 1, insts => by
    rw [collapseAll]
    split
    · simp
    · simp only
      split
      · rename_i hlt
        simp only [geomSum]
        calc (insts.takeWhile (· < files.length)).length ≤ insts.length := Nat.le_of_lt hlt
          _ = insts.length * 1 := (Nat.mul_one _).symm
          _ ≤ insts.length * (1 + b * geomSum b limit) := Nat.mul_le_mul_left _ (by omega)
      · simp only [geomSum]
        have ih := collapseAll_bound files b hb limit (insts.flatMap (children files))
        have hl := flatMap_children_length files b hb insts
        have h2 : (insts.flatMap (children files)).length * geomSum b limit
            ≤ (b * insts.length) * geomSum b limit := Nat.mul_le_mul_right _ hl
        have h3 : insts.length * (1 + b * geomSum b limit)
            = insts.length + (b * insts.length) * geomSum b limit := by
          rw [Nat.mul_add, Nat.mul_one, Nat.mul_comm b insts.length, Nat.mul_assoc]
        omega

/-- When `collapse_all` returns normally no instance is left. -/
theorem collapseAll_done_left (files : List (List Nat)) :
    ∀ (limit : Nat) (insts : List Nat),
      (collapseAll files limit insts).outcome = .done → (collapseAll files limit insts).left = 0
  | 0, insts => by simp [collapseAll]
  | limit + 1, insts => by
    rw [collapseAll]
    split
    · simp
    · simp only
      split
      · simp
      · exact collapseAll_done_left files limit _

/-- A file that includes itself twice: `n·(2^limit − 1)` collapses, then RecursionError with
`n·2^limit` instances left — the bound of `collapseAll_bound` is attained. -/
theorem collapseAll_self2 : ∀ (limit n : Nat), 0 < n →
    collapseAll [[0, 0]] limit (List.replicate n 0) = ⟨n * (2 ^ limit - 1), .recursion, n * 2 ^ limit⟩
  | 0, n, _ => by simp [collapseAll]
  | limit + 1, n, hn => by
    have hne : (List.replicate n 0).isEmpty = false := by
      cases n with
      | zero => omega
      | succ m => simp [List.replicate]
    have htw : (List.replicate n 0).takeWhile (· < [[0, 0]].length) = List.replicate n 0 := by
      simp
    have hfm : (List.replicate n 0).flatMap (children [[0, 0]]) = List.replicate (2 * n) 0 := by
      clear hne htw hn
      induction n with
      | zero => simp
      | succ m ih =>
        rw [List.replicate_succ, List.flatMap_cons, ih]
        simp [children, Nat.mul_succ, List.replicate_succ]
    rw [collapseAll]
    simp only [hne, htw, Nat.lt_irrefl, if_false, hfm, Bool.false_eq_true]
    rw [collapseAll_self2 limit (2 * n) (by omega)]
    have hp : 1 ≤ 2 ^ limit := Nat.one_le_two_pow
    simp only [List.length_replicate, Run.mk.injEq, true_and]
    constructor
    · rw [Nat.pow_succ, Nat.mul_sub, Nat.mul_sub, Nat.mul_one, Nat.mul_one]
      have : 2 * n * 2 ^ limit = n * (2 ^ limit * 2) := by
        rw [Nat.mul_comm 2 n, Nat.mul_assoc, Nat.mul_comm 2]
      have h4 : n ≤ n * 2 ^ limit := Nat.le_mul_of_pos_right _ (by omega)
      have h5 : n * (2 ^ limit * 2) = 2 * (n * 2 ^ limit) := by
        rw [← Nat.mul_assoc, Nat.mul_comm]
      omega
    · rw [Nat.pow_succ, Nat.mul_comm 2 n, Nat.mul_assoc, Nat.mul_comm 2]

theorem geomSum_two (n : Nat) : geomSum 2 n = 2 ^ n - 1 := by
  induction n with
  | zero => simp [geomSum]
  | succ k ih =>
    have : 1 ≤ 2 ^ k := Nat.one_le_two_pow
    simp only [geomSum, ih, Nat.pow_succ]; omega

/-! ## fixup cells -/

theorem writeCells_length (f : List Char → List Char) :
    ∀ (locs : List Nat) (st : Store), (writeCells f st locs).length = st.length
  | [], st => rfl
  | a :: rest, st => by
    simp only [writeCells, List.foldl_cons]
    have := writeCells_length f rest (st.set a (f (st.getD a [])))
    simpa [writeCells] using this

theorem writeCells_cons (f : List Char → List Char) (st : Store) (a : Nat) (rest : List Nat) :
    writeCells f st (a :: rest) = writeCells f (st.set a (f (st.getD a []))) rest := rfl

theorem getD_set_ne (st : Store) (a l : Nat) (v : List Char) (h : l ≠ a) :
    (st.set a v).getD l [] = st.getD l [] := by
  simp [List.getD_eq_getElem?_getD, Ne.symm h]

theorem getD_set_eq (st : Store) (a : Nat) (v : List Char) (h : a < st.length) :
    (st.set a v).getD a [] = v := by
  simp [List.getD_eq_getElem?_getD, h]

/-- Frame: cells that are not written keep their value. -/
theorem writeCells_frame (f : List Char → List Char) :
    ∀ (locs : List Nat) (st : Store) (l : Nat), l ∉ locs →
      (writeCells f st locs).getD l [] = st.getD l []
  | [], st, l, _ => rfl
  | a :: rest, st, l, h => by
    rw [writeCells_cons, writeCells_frame f rest _ l (fun e => h (List.mem_cons_of_mem _ e))]
    exact getD_set_ne st a l _ (fun e => h (by simp [e]))

/-- Cells that are written (each once) hold `f` of their previous value. -/
theorem writeCells_written (f : List Char → List Char) :
    ∀ (locs : List Nat) (st : Store), locs.Nodup → (∀ l ∈ locs, l < st.length) →
      ∀ l ∈ locs, (writeCells f st locs).getD l [] = f (st.getD l [])
  | [], st, _, _, l, hl => by simp at hl
  | a :: rest, st, hnd, hlt, l, hl => by
    rw [List.nodup_cons] at hnd
    rw [writeCells_cons]
    rcases List.mem_cons.mp hl with rfl | hl'
    · rw [writeCells_frame f rest _ l hnd.1]
      exact getD_set_eq st l _ (hlt l (by simp))
    · have hne : l ≠ a := fun e => hnd.1 (e ▸ hl')
      rw [writeCells_written f rest _ hnd.2 (by
        intro x hx; rw [List.length_set]; exact hlt x (List.mem_cons_of_mem _ hx)) l hl']
      rw [getD_set_ne st a l _ hne]

theorem collapseCells_store_length (m : CopyMode) (f : List Char → List Char) (st : Store)
    (locs : List Nat) : st.length ≤ (collapseCells m f st locs).2.length := by
  cases m <;> simp [collapseCells, copyCells, writeCells_length]

/-- **Frame theorem (fresh copy).** With a copy that allocates new cells, a collapse leaves every
existing cell — in particular all cells of the template and of earlier copies — unchanged. -/
theorem collapseCells_fresh_frame (f : List Char → List Char) (st : Store) (locs : List Nat)
    (l : Nat) (hl : l < st.length) :
    (collapseCells .fresh f st locs).2.getD l [] = st.getD l [] := by
  simp only [collapseCells, copyCells]
  rw [writeCells_frame]
  · simp [List.getD_eq_getElem?_getD, List.getElem?_append_left hl]
  · simp only [List.mem_range'_1, not_and]
    intro h; omega

/-- With a fresh copy the new entity's fixups are `f` of the template's values (whatever happened
before: they are read from the template's current cells). -/
theorem collapseCells_fresh_result (f : List Char → List Char) (st : Store) (locs : List Nat) :
    (collapseCells .fresh f st locs).1 = (readCells st locs).map f := by
  simp only [collapseCells, copyCells, readCells]
  have hlt : ∀ l ∈ List.range' st.length locs.length,
      l < (st ++ locs.map (fun l => st.getD l [])).length := by
    intro l hl
    rw [List.mem_range'_1] at hl
    simp; omega
  rw [List.map_congr_left (fun l hl => writeCells_written f _ _ (List.nodup_range' 1) hlt l hl)]
  apply List.ext_getElem
  · simp
  · intro i h1 h2
    simp only [List.length_map, List.length_range'] at h1
    simp [List.getD_eq_getElem?_getD, h1]

/-- With the shared copy (2.5.0 as coded) the template's own cells are rewritten. -/
theorem collapseCells_shared_rewrites (f : List Char → List Char) (st : Store) (locs : List Nat)
    (hnd : locs.Nodup) (hlt : ∀ l ∈ locs, l < st.length) :
    readCells (collapseCells .shared f st locs).2 locs = (readCells st locs).map f := by
  simp only [collapseCells, copyCells, readCells, List.map_map]
  apply List.map_congr_left
  intro l hl
  exact writeCells_written f locs st hnd hlt l hl

end C17
