import Srctools.Proofs.C06
import Srctools.Model.C06Hist
/-! # C06 — histories: exports depend on the current value only; exporting again changes nothing -/
set_option linter.unusedSimpArgs false
set_option linter.unusedVariables false
namespace C06

theorem runHist_trees (m : VMap) (h : List HOp) :
    (runHist m h).2 = (histPoints m h).map (fun p => exportTree p.1 p.2) := by
  induction h generalizing m with
  | nil => rfl
  | cons op r ih =>
    cases op with
    | edit f => simp only [runHist, histPoints]; exact ih (f m)
    | exp o => simp only [runHist, histPoints, List.map_cons, ih (afterExport o m)]

theorem runHist_value (m : VMap) (h : List HOp) : (runHist m h).1 = valueAfter m h := by
  induction h generalizing m with
  | nil => rfl
  | cons op r ih =>
    cases op with
    | edit f => simp only [runHist, valueAfter]; exact ih (f m)
    | exp o => simp only [runHist, valueAfter]; exact ih (afterExport o m)

theorem runHist_append (m : VMap) (h1 h2 : List HOp) :
    runHist m (h1 ++ h2) = ((runHist (runHist m h1).1 h2).1, (runHist m h1).2 ++ (runHist (runHist m h1).1 h2).2) := by
  induction h1 generalizing m with
  | nil => simp [runHist]
  | cons op r ih =>
    cases op with
    | edit f => simp only [List.cons_append, runHist]; exact ih (f m)
    | exp o => simp only [List.cons_append, runHist, ih (afterExport o m), List.cons_append]

/-! ### exporting again -/

theorem go_append (k v : Str) (l r : List (Str × Str)) (h : l.any (fun kv => lower kv.1 == lower k) = true) :
    entSetKey.go k v (l ++ r) = entSetKey.go k v l ++ r := by
  induction l with
  | nil => simp at h
  | cons a t ih =>
    simp only [List.cons_append, entSetKey.go]
    split
    · rfl
    · rename_i hne
      simp only [List.any_cons, Bool.or_eq_true] at h
      rcases h with h | h
      · exact absurd h hne
      · rw [ih h]; rfl

theorem go_keys (k v : Str) (l : List (Str × Str)) : (entSetKey.go k v l).map (·.1) = l.map (·.1) := by
  induction l with
  | nil => rfl
  | cons a t ih =>
    simp only [entSetKey.go]
    split
    · rfl
    · simp only [List.map_cons, ih]

theorem keysDistinct_of_keys (a b : List (Str × Str)) (h : a.map (·.1) = b.map (·.1)) (hb : KeysDistinct b) :
    KeysDistinct a := by
  have e : ∀ l : List (Str × Str), KeysDistinct l ↔ (l.map (·.1)).Pairwise (fun x y => lower x ≠ lower y) := by
    intro l; simp only [KeysDistinct, List.pairwise_map]
  rw [e, h, ← e]; exact hb

theorem mem_keys_of_keys (a b : List (Str × Str)) (h : a.map (·.1) = b.map (·.1)) (kv : Str × Str) (hm : kv ∈ a) :
    ∃ kv' ∈ b, kv'.1 = kv.1 := by
  have : kv.1 ∈ a.map (·.1) := List.mem_map.mpr ⟨kv, hm, rfl⟩
  rw [h] at this
  obtain ⟨kv', hm', e⟩ := List.mem_map.mp this
  exact ⟨kv', hm', e⟩

/-- The keys of worldspawn during and after an export, for a worldspawn that has a `classname` and no
`mapversion` key — the state every export leaves behind. -/
theorem spawn_keys_export (o : ExportOpts) (m : VMap)
    (hnm : ∀ kv ∈ m.spawn.keys, lower kv.1 ≠ lower (lit "mapversion"))
    (hcn : m.spawn.keys.any (fun kv => lower kv.1 == lower (lit "classname")) = true) :
    (spawnForExport o m).keys =
      entSetKey.go (lit "classname") (lit "worldspawn") m.spawn.keys ++ [(lit "mapversion", showInt (exportedVer o m))] ∧
    spawnKeysAfter o m = entSetKey.go (lit "classname") (lit "worldspawn") m.spawn.keys := by
  have h1 : (spawnForExport o m).keys =
      entSetKey.go (lit "classname") (lit "worldspawn") m.spawn.keys ++ [(lit "mapversion", showInt (exportedVer o m))] := by
    simp only [spawnForExport]
    rw [entSetKey_new _ _ _ hnm]
    have hany : (m.spawn.keys ++ [(lit "mapversion", showInt (exportedVer o m))]).any
        (fun kv => lower kv.1 == lower (lit "classname")) = true := by
      rw [List.any_append, hcn]; rfl
    unfold entSetKey
    rw [hany]
    simp only [if_true]
    exact go_append _ _ _ _ hcn
  refine ⟨h1, ?_⟩
  simp only [spawnKeysAfter, h1, entDelKey, List.filter_append]
  have hk := go_keys (lit "classname") (lit "worldspawn") m.spawn.keys
  have hf : (entSetKey.go (lit "classname") (lit "worldspawn") m.spawn.keys).filter
      (fun kv => !(lower kv.1 == lower (lit "mapversion"))) =
      entSetKey.go (lit "classname") (lit "worldspawn") m.spawn.keys := by
    rw [List.filter_eq_self]
    intro kv hkv
    obtain ⟨kv', hm', e⟩ := mem_keys_of_keys _ _ hk kv hkv
    have := hnm kv' hm'
    rw [e] at this
    simp [this]
  rw [hf]
  simp

/-- Exporting the same live object again (without a version increment) writes the same tree: what
`export` leaves on the object (`afterExport`) does not show in the next export. -/
theorem exportTree_afterExport (o : ExportOpts) (m : VMap)
    (hd : KeysDistinct m.spawn.keys)
    (hnm : ∀ kv ∈ m.spawn.keys, lower kv.1 ≠ lower (lit "mapversion"))
    (hcn : m.spawn.keys.any (fun kv => lower kv.1 == lower (lit "classname")) = true) :
    exportTree { o with incVersion := false } (afterExport o m) = exportTree o m := by
  obtain ⟨h1, h2⟩ := spawn_keys_export o m hnm hcn
  have hver : exportedVer { o with incVersion := false } (afterExport o m) = exportedVer o m := by
    simp [exportedVer, afterExport]
  -- the state after the export again satisfies the hypotheses
  have hk := go_keys (lit "classname") (lit "worldspawn") m.spawn.keys
  have hnm' : ∀ kv ∈ (afterExport o m).spawn.keys, lower kv.1 ≠ lower (lit "mapversion") := by
    intro kv hkv
    simp only [afterExport, h2] at hkv
    obtain ⟨kv', hm', e⟩ := mem_keys_of_keys _ _ hk kv hkv
    rw [← e]; exact hnm kv' hm'
  have hcn' : (afterExport o m).spawn.keys.any (fun kv => lower kv.1 == lower (lit "classname")) = true := by
    simp only [afterExport, h2]
    obtain ⟨kv, hm, hk1, _⟩ := go_has (lit "classname") (lit "worldspawn") m.spawn.keys hcn
    simp only [List.any_eq_true, beq_iff_eq]
    exact ⟨kv, hm, hk1⟩
  obtain ⟨h1', _⟩ := spawn_keys_export { o with incVersion := false } (afterExport o m) hnm' hcn'
  have hgo : entSetKey.go (lit "classname") (lit "worldspawn") (afterExport o m).spawn.keys =
      entSetKey.go (lit "classname") (lit "worldspawn") m.spawn.keys := by
    simp only [afterExport, h2]
    exact go_idem _ _ _ (keysDistinct_of_keys _ _ hk hd) (go_has _ _ _ hcn)
  have hsp : spawnForExport { o with incVersion := false } (afterExport o m) = spawnForExport o m := by
    have e1 : spawnForExport { o with incVersion := false } (afterExport o m) =
        { m.spawn with keys := (spawnForExport { o with incVersion := false } (afterExport o m)).keys } := by
      simp only [spawnForExport, afterExport]
    have e2 : spawnForExport o m = { m.spawn with keys := (spawnForExport o m).keys } := by
      simp only [spawnForExport]
    rw [e1, e2, h1', h1, hgo, hver]
  simp only [exportTree, hsp]
  simp only [verKids, hver]
  simp only [afterExport, viewKids, camKids, cordonKids]
  by_cases hc : m.cams.isEmpty = true
  · simp [hc]
  · have hc' : m.cams.isEmpty = false := by simpa using hc
    simp [hc']

/-- `afterExport` re-establishes the hypotheses of `exportTree_afterExport`. -/
theorem afterExport_spawn (o : ExportOpts) (m : VMap) :
    ∀ kv ∈ (afterExport o m).spawn.keys, lower kv.1 ≠ lower (lit "mapversion") := by
  intro kv hkv
  simp only [afterExport, spawnKeysAfter, entDelKey, List.mem_filter] at hkv
  simpa using hkv.2

theorem parseMany_spec (t : List KV) (ps : List Bool) :
    (parseMany t ps).1 = ps.map (fun p => parseTree p t) ∧ (parseMany t ps).2 = t := by
  induction ps with
  | nil => exact ⟨rfl, rfl⟩
  | cons p r ih => simp only [parseMany, parseCall, List.map_cons, ih.1, ih.2, and_self]

end C06
