import Srctools.Proofs.C04Inv
/-! C04: `inverse()` does not raise on a rotation matrix (helper lemmas).

Idea: `|det L| = 1` is preserved by every row operation of the elimination; partial pivoting keeps
every multiplier at most 1 in absolute value, so the rows of `L` stay bounded by 1, 2, 4; with the
triangular zero pattern `det L = L₀₀ L₁₁ L₂₂`, hence every diagonal entry is at least 1/8 in
absolute value — above the `0.00001` of the final test. -/
set_option linter.unusedSimpArgs false
set_option linter.unusedSectionVars false
set_option linter.unusedVariables false

namespace C04
variable {K : Type} [Field K] [LinearOrder K] [IsStrictOrderedRing K]

theorem absv_eq_abs (x : K) : absv x = |x| := by
  unfold absv
  split_ifs with h
  · exact (abs_of_neg h).symm
  · exact (abs_of_nonneg (not_lt.mp h)).symm

/-! ### the pivot search -/

theorem pivotSearch_none (l : Rows K) (n : Fin 3) :
    ∀ (rows : List (Fin 3)) (la : K) (piv : Option (Fin 3)),
      pivotSearch l n rows la piv = none → piv = none ∧ ∀ m ∈ rows, |(l m).get n| ≤ la := by
  intro rows
  induction rows with
  | nil =>
    intro la piv h
    simp only [pivotSearch] at h
    exact ⟨h, by simp⟩
  | cons m ms ih =>
    intro la piv h
    simp only [pivotSearch, absv_eq_abs] at h
    split_ifs at h with hlt
    · have := (ih _ _ h).1
      simp at this
    · obtain ⟨h1, h2⟩ := ih _ _ h
      refine ⟨h1, ?_⟩
      intro m' hm'
      rcases List.mem_cons.mp hm' with hm' | hm'
      · rw [hm']; exact not_lt.mp hlt
      · exact h2 _ hm'

theorem pivotSearch_max (l : Rows K) (n : Fin 3) :
    ∀ (rows : List (Fin 3)) (la : K) (piv : Option (Fin 3)) (p : Fin 3),
      pivotSearch l n rows la piv = some p → (∀ q, piv = some q → |(l q).get n| = la) →
      (∀ m ∈ rows, |(l m).get n| ≤ |(l p).get n|) ∧ la ≤ |(l p).get n| := by
  intro rows
  induction rows with
  | nil =>
    intro la piv p h hp
    simp only [pivotSearch] at h
    exact ⟨by simp, le_of_eq (hp p h).symm⟩
  | cons m ms ih =>
    intro la piv p h hp
    simp only [pivotSearch, absv_eq_abs] at h
    split_ifs at h with hlt
    · obtain ⟨h1, h2⟩ := ih _ _ p h (by
        intro q hq
        simp only [Option.some.injEq] at hq
        rw [← hq])
      refine ⟨?_, le_trans (le_of_lt hlt) h2⟩
      intro m' hm'
      rcases List.mem_cons.mp hm' with hm' | hm'
      · rw [hm']; exact h2
      · exact h1 _ hm'
    · obtain ⟨h1, h2⟩ := ih _ _ p h hp
      refine ⟨?_, h2⟩
      intro m' hm'
      rcases List.mem_cons.mp hm' with hm' | hm'
      · rw [hm']; exact le_trans (not_lt.mp hlt) h2
      · exact h1 _ hm'

/-! ### determinant of the left block -/

def detR (l : Rows K) : K := det (matOfRows l)

theorem detR_swap (l : Rows K) (i j : Fin 3) (h : i ≠ j) : detR (l.swap i j) = -detR l := by
  fin_cases i <;> fin_cases j <;> first | exact absurd rfl h | (simp [detR, det, matOfRows, Rows.swap]; ring)

theorem detR_set (l : Rows K) (m p : Fin 3) (v : K) (h : m ≠ p) :
    detR (l.set m ((l m).sub ((l p).smul v))) = detR l := by
  fin_cases m <;> fin_cases p <;> first | exact absurd rfl h |
    (simp [detR, det, matOfRows, Rows.set, V3.sub, V3.smul]; ring)

theorem elim_l_eq {s s' : Aug K} {m p n : Fin 3} (h : elim s m p n = some s') :
    s'.l = s.l.set m ((s.l m).sub ((s.l p).smul ((s.l m).get n / (s.l p).get n))) := by
  unfold elim at h
  split_ifs at h
  simp only [Option.some.injEq] at h
  rw [← h]

theorem elim_det {s s' : Aug K} {m p n : Fin 3} (h : elim s m p n = some s') (hmp : m ≠ p) :
    detR s'.l = detR s.l := by
  rw [elim_l_eq h, detR_set _ _ _ _ hmp]

theorem elim_ok (s : Aug K) (m p n : Fin 3) (h : (s.l p).get n ≠ 0) :
    ∃ s', elim s m p n = some s' := by
  unfold elim
  simp [h]

/-- With a multiplier of absolute value at most one, an eliminated row grows by at most the pivot row. -/
theorem elim_bound {s s' : Aug K} {m p n : Fin 3} (h : elim s m p n = some s')
    (hr : |(s.l m).get n| ≤ |(s.l p).get n|) (j : Fin 3) :
    |(s'.l m).get j| ≤ |(s.l m).get j| + |(s.l p).get j| := by
  obtain ⟨-, -, h3, h4⟩ := elim_spec (M := Mat.one) h
  rw [h3 j]
  have hv : |(s.l m).get n / (s.l p).get n| ≤ 1 := by
    rw [abs_div]
    exact div_le_one_of_le₀ hr (abs_nonneg _)
  calc |(s.l m).get j - (s.l p).get j * ((s.l m).get n / (s.l p).get n)|
      ≤ |(s.l m).get j| + |(s.l p).get j * ((s.l m).get n / (s.l p).get n)| := abs_sub _ _
    _ ≤ |(s.l m).get j| + |(s.l p).get j| := by
        rw [abs_mul]
        have := mul_le_of_le_one_right (abs_nonneg ((s.l p).get j)) hv
        linarith

/-! ### the optional row swap -/

def swapIf (s : Aug K) (n p : Fin 3) : Aug K := if p = n then s else ⟨s.l.swap n p, s.r.swap n p⟩

theorem swapIf_n (s : Aug K) (n p : Fin 3) : (swapIf s n p).l n = s.l p := by
  unfold swapIf
  split_ifs with h
  · rw [h]
  · simp [Rows.swap]

theorem swapIf_p (s : Aug K) (n p : Fin 3) : (swapIf s n p).l p = s.l n := by
  unfold swapIf
  split_ifs with h
  · rw [h]
  · simp [Rows.swap, h]

theorem swapIf_other (s : Aug K) (n p k : Fin 3) (h1 : k ≠ n) (h2 : k ≠ p) :
    (swapIf s n p).l k = s.l k := by
  unfold swapIf
  split_ifs with h
  · rfl
  · simp [Rows.swap, h1, h2]

theorem swapIf_all (s : Aug K) (n p : Fin 3) (P : V3 K → Prop) (h : ∀ m, P (s.l m)) :
    ∀ m, P ((swapIf s n p).l m) := by
  intro m
  by_cases h1 : m = n
  · rw [h1, swapIf_n]; exact h p
  · by_cases h2 : m = p
    · rw [h2, swapIf_p]; exact h n
    · rw [swapIf_other _ _ _ _ h1 h2]; exact h m

theorem swapIf_det (s : Aug K) (n p : Fin 3) : |detR (swapIf s n p).l| = |detR s.l| := by
  unfold swapIf
  split_ifs with h
  · rfl
  · rw [detR_swap _ _ _ (Ne.symm h), abs_neg]

theorem fwdStep_eq (s : Aug K) (n p : Fin 3) (rows below : List (Fin 3))
    (hp : pivotSearch s.l n rows 0 none = some p) :
    fwdStep s n rows below = elimAll (swapIf s n p) n n below := by
  unfold fwdStep swapIf
  simp only [hp]

theorem elimAll_two_ok {s s1 s2 : Aug K} {p n a b : Fin 3} (h1 : elim s a p n = some s1)
    (h2 : elim s1 b p n = some s2) : elimAll s p n [a, b] = some s2 := by
  simp only [elimAll, h1, h2]

theorem elimAll_one_ok {s s1 : Aug K} {p n a : Fin 3} (h1 : elim s a p n = some s1) :
    elimAll s p n [a] = some s1 := by
  simp only [elimAll, h1]

theorem E_def (s : Aug K) (i j : Fin 3) : E s i j = (s.l i).get j := rfl

/-! ### the stages succeed -/

/-- First forward step: succeeds when column 0 is not zero; rows stay bounded. -/
theorem fwd0_ok {s : Aug K} {B : K} (hB : ∀ i j, |E s i j| ≤ B) (hnz : ∃ m, E s m 0 ≠ 0) :
    ∃ s', fwdStep s 0 [0, 1, 2] [1, 2] = some s' ∧ |detR s'.l| = |detR s.l| ∧
      (∀ j, |E s' 0 j| ≤ B) ∧ (∀ j, |E s' 1 j| ≤ 2 * B) ∧ (∀ j, |E s' 2 j| ≤ 2 * B) := by
  obtain ⟨m0, hm0⟩ := hnz
  have hall : ∀ m : Fin 3, m ∈ [(0 : Fin 3), 1, 2] := by intro m; fin_cases m <;> simp
  cases hp : pivotSearch s.l 0 [0, 1, 2] 0 none with
  | none =>
    exfalso
    have := (pivotSearch_none _ _ _ _ _ hp).2 m0 (hall m0)
    exact hm0 (abs_eq_zero.mp (le_antisymm this (abs_nonneg _)))
  | some p =>
    have hmax := (pivotSearch_max _ _ _ _ _ _ hp (by simp)).1
    have hpiv : (s.l p).get 0 ≠ 0 := by
      intro hz
      have := hmax m0 (hall m0)
      rw [hz, abs_zero] at this
      exact hm0 (abs_eq_zero.mp (le_antisymm this (abs_nonneg _)))
    -- the state after the optional swap
    have b0 : ∀ m, ∀ j, |((swapIf s 0 p).l m).get j| ≤ B :=
      swapIf_all s 0 p (fun v => ∀ j, |v.get j| ≤ B) (fun m j => hB m j)
    have mx : ∀ m, |((swapIf s 0 p).l m).get 0| ≤ |(s.l p).get 0| :=
      swapIf_all s 0 p (fun v => |v.get 0| ≤ |(s.l p).get 0|) (fun m => hmax m (hall m))
    have r0 : (swapIf s 0 p).l 0 = s.l p := swapIf_n s 0 p
    obtain ⟨s1, h1⟩ := elim_ok (swapIf s 0 p) 1 0 0 (by rw [r0]; exact hpiv)
    have k0 : s1.l 0 = (swapIf s 0 p).l 0 := elim_other h1 (by decide)
    have k2 : s1.l 2 = (swapIf s 0 p).l 2 := elim_other h1 (by decide)
    obtain ⟨s2, h2⟩ := elim_ok s1 2 0 0 (by rw [k0, r0]; exact hpiv)
    have q0 : s2.l 0 = s1.l 0 := elim_other h2 (by decide)
    have q1 : s2.l 1 = s1.l 1 := elim_other h2 (by decide)
    refine ⟨s2, ?_, ?_, ?_, ?_, ?_⟩
    · rw [fwdStep_eq s 0 p _ _ hp]; exact elimAll_two_ok h1 h2
    · rw [elim_det h2 (by decide), elim_det h1 (by decide), swapIf_det]
    · intro j; rw [E_def, q0, k0]; exact b0 0 j
    · intro j
      rw [E_def, q1]
      have := elim_bound h1 (by rw [r0]; exact mx 1) j
      have a1 := b0 1 j
      have a0 := b0 0 j
      linarith
    · intro j
      rw [E_def]
      have := elim_bound h2 (by rw [k2, k0, r0]; exact mx 2) j
      rw [k2, k0] at this
      have a2 := b0 2 j
      have a0 := b0 0 j
      linarith

/-- Second forward step: succeeds when the remaining 2×2 block of column 1 is not zero. -/
theorem fwd1_ok {s : Aug K} {B0 B : K} (h0 : ∀ j, |E s 0 j| ≤ B0) (h1 : ∀ j, |E s 1 j| ≤ B)
    (h2 : ∀ j, |E s 2 j| ≤ B) (hnz : E s 1 1 ≠ 0 ∨ E s 2 1 ≠ 0) :
    ∃ s', fwdStep s 1 [1, 2] [2] = some s' ∧ |detR s'.l| = |detR s.l| ∧
      (∀ j, |E s' 0 j| ≤ B0) ∧ (∀ j, |E s' 1 j| ≤ B) ∧ (∀ j, |E s' 2 j| ≤ 2 * B) := by
  cases hp : pivotSearch s.l 1 [1, 2] 0 none with
  | none =>
    exfalso
    have hn := (pivotSearch_none _ _ _ _ _ hp).2
    have e1 := abs_eq_zero.mp (le_antisymm (hn 1 (by simp)) (abs_nonneg _))
    have e2 := abs_eq_zero.mp (le_antisymm (hn 2 (by simp)) (abs_nonneg _))
    rcases hnz with h | h
    · exact h e1
    · exact h e2
  | some p =>
    have hmax := (pivotSearch_max _ _ _ _ _ _ hp (by simp)).1
    have hmem : p = 1 ∨ p = 2 := by
      rcases pivotSearch_mem _ _ _ _ _ _ hp with h' | h'
      · simpa using h'
      · simp at h'
    have hpiv : (s.l p).get 1 ≠ 0 := by
      intro hz
      have m1 := hmax 1 (by simp)
      have m2 := hmax 2 (by simp)
      rw [hz, abs_zero] at m1 m2
      rcases hnz with h | h
      · exact h (abs_eq_zero.mp (le_antisymm m1 (abs_nonneg _)))
      · exact h (abs_eq_zero.mp (le_antisymm m2 (abs_nonneg _)))
    have r1 : (swapIf s 1 p).l 1 = s.l p := swapIf_n s 1 p
    have r0 : (swapIf s 1 p).l 0 = s.l 0 := by
      rcases hmem with rfl | rfl <;> exact swapIf_other _ _ _ _ (by decide) (by decide)
    have b1 : ∀ j, |((swapIf s 1 p).l 1).get j| ≤ B := by
      intro j; rw [r1]; rcases hmem with rfl | rfl
      · exact h1 j
      · exact h2 j
    have b2 : ∀ j, |((swapIf s 1 p).l 2).get j| ≤ B := by
      intro j
      rcases hmem with rfl | rfl
      · rw [swapIf_other _ _ _ _ (by decide) (by decide)]; exact h2 j
      · rw [swapIf_p]; exact h1 j
    have mx : |((swapIf s 1 p).l 2).get 1| ≤ |(s.l p).get 1| := by
      rcases hmem with rfl | rfl
      · rw [swapIf_other _ _ _ _ (by decide) (by decide)]; exact hmax 2 (by simp)
      · rw [swapIf_p]; exact hmax 1 (by simp)
    obtain ⟨s1, e1⟩ := elim_ok (swapIf s 1 p) 2 1 1 (by rw [r1]; exact hpiv)
    have k0 : s1.l 0 = (swapIf s 1 p).l 0 := elim_other e1 (by decide)
    have k1 : s1.l 1 = (swapIf s 1 p).l 1 := elim_other e1 (by decide)
    refine ⟨s1, ?_, ?_, ?_, ?_, ?_⟩
    · rw [fwdStep_eq s 1 p _ _ hp]; exact elimAll_one_ok e1
    · rw [elim_det e1 (by decide), swapIf_det]
    · intro j; rw [E_def, k0, r0]; exact h0 j
    · intro j; rw [E_def, k1]; exact b1 j
    · intro j
      rw [E_def]
      have := elim_bound e1 (by rw [r1]; exact mx) j
      have a2 := b2 j
      have a1 := b1 j
      linarith

theorem diag_ok {eps : K} {s : Aug K} {n : Fin 3} (h : eps < |E s n n|) :
    ∃ s', diagStep eps s n = some s' := by
  unfold diagStep
  simp only [absv_eq_abs]
  rw [E_def] at h
  simp [h]

theorem diag_other {eps : K} {s s' : Aug K} {n : Fin 3} (h : diagStep eps s n = some s')
    {k : Fin 3} (hk : k ≠ n) : s'.l k = s.l k := by
  unfold diagStep at h
  simp only at h
  split_ifs at h
  simp only [Option.some.injEq] at h
  rw [← h]
  simp only [Rows.set_other _ _ hk]

/-- **`inverse()` does not raise on a rotation** (any `eps` below 1/8; the code's is 0.00001). -/
theorem gaussJordan_ok {M : Mat K} (hM : IsRotation M) {eps : K} (he0 : 0 ≤ eps) (he : eps < 1 / 8) :
    ∃ s, gaussJordan eps M = some s := by
  have f := hM.facts
  have one_le (x y z : K) (h : x * x + y * y + z * z = 1) : |x| ≤ 1 ∧ |y| ≤ 1 ∧ |z| ≤ 1 :=
    ⟨abs_le_of_mul_self_le (by nlinarith [mul_self_nonneg y, mul_self_nonneg z]) zero_le_one,
     abs_le_of_mul_self_le (by nlinarith [mul_self_nonneg x, mul_self_nonneg z]) zero_le_one,
     abs_le_of_mul_self_le (by nlinarith [mul_self_nonneg x, mul_self_nonneg y]) zero_le_one⟩
  let s0 : Aug K := ⟨rowsOf M, rowsOf Mat.one⟩
  have hB : ∀ i j, |E s0 i j| ≤ 1 := by
    obtain ⟨a1, a2, a3⟩ := one_le _ _ _ f.r11
    obtain ⟨b1, b2, b3⟩ := one_le _ _ _ f.r22
    obtain ⟨c1, c2, c3⟩ := one_le _ _ _ f.r33
    intro i j
    fin_cases i <;> fin_cases j <;> simp [E, s0, rowsOf, V3.get] <;> assumption
  have hdet0 : detR s0.l = 1 := by
    have : detR s0.l = det M := by simp [detR, s0, matOfRows, rowsOf, det]
    rw [this, hM.2]
  have hnz0 : ∃ m, E s0 m 0 ≠ 0 := by
    by_contra hcon
    simp only [not_exists, not_not] at hcon
    have e0 := hcon 0
    have e1 := hcon 1
    have e2 := hcon 2
    simp [E, s0, rowsOf, V3.get] at e0 e1 e2
    have := f.c11
    rw [e0, e1, e2] at this
    simp at this
  -- forward phase
  obtain ⟨s1, g1, d1, p0, p1, p2⟩ := fwd0_ok hB hnz0
  obtain ⟨i1, a10, a20⟩ := fwd0_spec (M := M) g1 (inv_init M)
  have hd1 : |detR s1.l| = 1 := by rw [d1, hdet0, abs_one]
  have det1 : detR s1.l = E s1 0 0 * (E s1 1 1 * E s1 2 2 - E s1 1 2 * E s1 2 1) := by
    simp only [E] at a10 a20
    simp only [detR, det, matOfRows, E]
    have x1 : (s1.l 1).x = 0 := a10
    have x2 : (s1.l 2).x = 0 := a20
    simp only [V3.get, x1, x2]
    ring
  have hnz1 : E s1 1 1 ≠ 0 ∨ E s1 2 1 ≠ 0 := by
    by_contra hcon
    simp only [not_or, not_not] at hcon
    rw [det1, hcon.1, hcon.2] at hd1
    simp at hd1
  obtain ⟨s2, g2, d2, q0, q1, q2⟩ := fwd1_ok p0 p1 p2 hnz1
  obtain ⟨i2, b10, b20, b21⟩ := fwd1_spec (M := M) g2 i1 a10 a20
  have hd2 : |detR s2.l| = 1 := by rw [d2, hd1]
  have det2 : detR s2.l = E s2 0 0 * E s2 1 1 * E s2 2 2 := by
    simp only [E] at b10 b20 b21
    simp only [detR, det, matOfRows, E]
    have x1 : (s2.l 1).x = 0 := b10
    have x2 : (s2.l 2).x = 0 := b20
    have y2 : (s2.l 2).y = 0 := b21
    simp only [V3.get, x1, x2, y2]
    ring
  have hprod : |E s2 0 0| * |E s2 1 1| * |E s2 2 2| = 1 := by
    rw [← abs_mul, ← abs_mul, ← det2, hd2]
  have u0 := q0 0
  have u1 := q1 1
  have u2 := q2 2
  have n0 := abs_nonneg (E s2 0 0)
  have n1 := abs_nonneg (E s2 1 1)
  have n2 := abs_nonneg (E s2 2 2)
  have l0 : eps < |E s2 0 0| := by nlinarith [mul_nonneg n0 n1, mul_nonneg (mul_nonneg n0 n1) n2]
  have l1 : eps < |E s2 1 1| := by nlinarith [mul_nonneg n0 n1, mul_nonneg (mul_nonneg n0 n1) n2]
  have l2 : eps < |E s2 2 2| := by nlinarith [mul_nonneg n0 n1, mul_nonneg (mul_nonneg n0 n1) n2]
  have ne0 : E s2 0 0 ≠ 0 := by intro h; rw [h, abs_zero] at l0; linarith
  have ne1 : E s2 1 1 ≠ 0 := by intro h; rw [h, abs_zero] at l1; linarith
  have ne2 : E s2 2 2 ≠ 0 := by intro h; rw [h, abs_zero] at l2; linarith
  -- back substitution with row 2
  obtain ⟨t1, e1⟩ := elim_ok s2 1 2 2 ne2
  have t1r2 : t1.l 2 = s2.l 2 := elim_other e1 (by decide)
  have t1r0 : t1.l 0 = s2.l 0 := elim_other e1 (by decide)
  obtain ⟨t2, e2⟩ := elim_ok t1 0 2 2 (by rw [t1r2]; exact ne2)
  have g3 : elimAll s2 2 2 [1, 0] = some t2 := elimAll_two_ok e1 e2
  obtain ⟨i3, c10, c20, c21, c12, c02⟩ := back2_spec (M := M) g3 i2 b10 b20 b21
  have t2r1 : t2.l 1 = t1.l 1 := elim_other e2 (by decide)
  have t2r2 : t2.l 2 = t1.l 2 := elim_other e2 (by decide)
  have d11 : E t2 1 1 = E s2 1 1 := by
    rw [E_def, t2r1, (elim_spec (M := M) e1).2.2.1 1]
    have : (s2.l 2).get 1 = 0 := b21
    rw [this]; simp [E]
  have d00 : E t2 0 0 = E s2 0 0 := by
    rw [E_def, (elim_spec (M := M) e2).2.2.1 0, t1r2, t1r0]
    have : (s2.l 2).get 0 = 0 := b20
    rw [this]; simp [E]
  have d22 : E t2 2 2 = E s2 2 2 := by rw [E_def, t2r2, t1r2]; rfl
  -- back substitution with row 1
  obtain ⟨t3, e3⟩ := elim_ok t2 0 1 1 (by rw [← E_def, d11]; exact ne1)
  have g4 : elimAll t2 1 1 [0] = some t3 := elimAll_one_ok e3
  have t3r1 : t3.l 1 = t2.l 1 := elim_other e3 (by decide)
  have t3r2 : t3.l 2 = t2.l 2 := elim_other e3 (by decide)
  have f00 : E t3 0 0 = E s2 0 0 := by
    rw [E_def, (elim_spec (M := M) e3).2.2.1 0]
    have : (t2.l 1).get 0 = 0 := c10
    rw [this, ← d00]; simp [E]
  have f11 : E t3 1 1 = E s2 1 1 := by rw [E_def, t3r1, ← E_def, d11]
  have f22 : E t3 2 2 = E s2 2 2 := by rw [E_def, t3r2, ← E_def, d22]
  -- the diagonal
  obtain ⟨w1, x1⟩ := diag_ok (eps := eps) (s := t3) (n := 0) (by rw [f00]; exact l0)
  obtain ⟨w2, x2⟩ := diag_ok (eps := eps) (s := w1) (n := 1) (by
    rw [E_def, diag_other x1 (by decide), ← E_def, f11]; exact l1)
  obtain ⟨w3, x3⟩ := diag_ok (eps := eps) (s := w2) (n := 2) (by
    rw [E_def, diag_other x2 (by decide), diag_other x1 (by decide), ← E_def, f22]; exact l2)
  refine ⟨w3, ?_⟩
  simp only [gaussJordan, Option.bind_eq_bind, Option.bind_eq_some_iff]
  exact ⟨s1, g1, s2, g2, t2, g3, t3, g4, w1, x1, w2, x2, x3⟩

end C04
