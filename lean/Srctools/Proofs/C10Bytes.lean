import Srctools.Model.C10Bytes
/-! # Lemmas for the C10 byte layer (file layout round trip): integers, slices, the lump table, lump bodies, the game-lump section -/
namespace C10.Bytes


@[simp] theorem le_length (k n : Nat) : (le k n).length = k := by
  induction k generalizing n with
  | zero => rfl
  | succ k ih => simp [le, ih]

theorem de_le (k n : Nat) (h : n < 256 ^ k) : de (le k n) = n := by
  induction k generalizing n with
  | zero => simp [le, de] at *; omega
  | succ k ih =>
    simp only [le, de]
    have : n / 256 < 256 ^ k := by
      rw [Nat.pow_succ] at h
      exact Nat.div_lt_of_lt_mul (by rw [Nat.mul_comm]; exact h)
    rw [ih _ this]
    omega

theorem slice_mid (a b c : Bytes) : slice (a ++ b ++ c) a.length b.length = b := by
  simp [slice, List.append_assoc]

theorem slice_mid' (a b c : Bytes) (off len : Nat) (ho : off = a.length) (hl : len = b.length) :
    slice (a ++ (b ++ c)) off len = b := by
  subst ho hl; simp [slice]

theorem rd32_at (a c : Bytes) (n off : Nat) (ho : off = a.length) (hn : n < 256 ^ 4) :
    rd32 (a ++ (le 4 n ++ c)) off = n := by
  unfold rd32
  rw [slice_mid' a (le 4 n) c off 4 ho (by simp), de_le 4 n hn]

theorem rd16_at (a c : Bytes) (n off : Nat) (ho : off = a.length) (hn : n < 256 ^ 2) :
    rd16 (a ++ (le 2 n ++ c)) off = n := by
  unfold rd16
  rw [slice_mid' a (le 2 n) c off 2 ho (by simp), de_le 2 n hn]

/-- splitting a flattened list of chunks around chunk `i`. -/
theorem flatten_split {α : Type} (L : List (List α)) (i : Nat) (h : i < L.length) :
    L.flatten = (L.take i).flatten ++ (L[i] ++ (L.drop (i + 1)).flatten) := by
  conv => lhs; rw [← List.take_append_drop i L]
  rw [List.flatten_append, List.drop_eq_getElem_cons h, List.flatten_cons]

theorem flatten_take_length {α : Type} (L : List (List α)) (k i : Nat) (hk : ∀ c ∈ L, c.length = k) :
    (L.take i).flatten.length = k * min i L.length := by
  induction L generalizing i with
  | nil => simp
  | cons c cs ih =>
    cases i with
    | zero => simp
    | succ i =>
      simp only [List.take_succ_cons, List.flatten_cons, List.length_append, List.length_cons]
      rw [ih i (fun c hc => hk c (by simp [hc])), hk c (by simp)]
      rw [Nat.succ_min_succ, Nat.mul_succ]; omega

@[simp] theorem enc4_length (p : Nat × Nat × Nat × Nat) : (enc4 p).length = 16 := by simp [enc4]

theorem enc4_fields (P Q : Bytes) (p : Nat × Nat × Nat × Nat) (off : Nat) (hP : P.length = off)
    (h1 : p.1 < 256 ^ 4) (h2 : p.2.1 < 256 ^ 4) (h3 : p.2.2.1 < 256 ^ 4) (h4 : p.2.2.2 < 256 ^ 4) :
    rd32 (P ++ (enc4 p ++ Q)) off = p.1 ∧ rd32 (P ++ (enc4 p ++ Q)) (off + 4) = p.2.1 ∧
    rd32 (P ++ (enc4 p ++ Q)) (off + 8) = p.2.2.1 ∧ rd32 (P ++ (enc4 p ++ Q)) (off + 12) = p.2.2.2 := by
  unfold enc4
  refine ⟨?_, ?_, ?_, ?_⟩
  · simp only [List.append_assoc]
    exact rd32_at _ _ _ _ hP.symm h1
  · have : ∀ (P a b c d Q : Bytes), P ++ (a ++ (b ++ (c ++ d)) ++ Q) = (P ++ a) ++ (b ++ (c ++ d ++ Q)) := by
      intros; simp [List.append_assoc]
    rw [this]
    exact rd32_at _ _ _ _ (by simp [hP]) h2
  · have : ∀ (P a b c d Q : Bytes), P ++ (a ++ (b ++ (c ++ d)) ++ Q) = (P ++ a ++ b) ++ (c ++ (d ++ Q)) := by
      intros; simp [List.append_assoc]
    rw [this]
    exact rd32_at _ _ _ _ (by simp [hP]) h3
  · have : ∀ (P a b c d Q : Bytes), P ++ (a ++ (b ++ (c ++ d)) ++ Q) = (P ++ a ++ b ++ c) ++ (d ++ Q) := by
      intros; simp [List.append_assoc]
    rw [this]
    exact rd32_at _ _ _ _ (by simp [hP]) h4

/-- The table region: 64 entries of 16 bytes after an 8-byte prefix. Field `j` of entry `i`. -/
theorem table_field (A R : Bytes) (hA : A.length = 8) (g : Nat → Nat × Nat × Nat × Nat) (i : Nat) (hi : i < 64)
    (hb : (g i).1 < 256 ^ 4 ∧ (g i).2.1 < 256 ^ 4 ∧ (g i).2.2.1 < 256 ^ 4 ∧ (g i).2.2.2 < 256 ^ 4) :
    let f := A ++ (((List.range 64).map fun i => enc4 (g i)).flatten ++ R)
    rd32 f (8 + 16 * i) = (g i).1 ∧ rd32 f (8 + 16 * i + 4) = (g i).2.1 ∧
    rd32 f (8 + 16 * i + 8) = (g i).2.2.1 ∧ rd32 f (8 + 16 * i + 12) = (g i).2.2.2 := by
  intro f
  have hlen : ((List.range 64).map fun i => enc4 (g i)).length = 64 := by simp
  have hsplit := flatten_split ((List.range 64).map fun i => enc4 (g i)) i (by rw [hlen]; exact hi)
  have hpre : (((List.range 64).map fun i => enc4 (g i)).take i).flatten.length = 16 * i := by
    rw [flatten_take_length _ 16 i (by intro c hc; simp only [List.mem_map] at hc; obtain ⟨_, _, rfl⟩ := hc; simp)]
    rw [hlen]; congr 1; omega
  have hget : ((List.range 64).map fun i => enc4 (g i))[i]'(by rw [hlen]; exact hi) = enc4 (g i) := by simp
  rw [hget] at hsplit
  have hf : f = (A ++ (((List.range 64).map fun i => enc4 (g i)).take i).flatten) ++
      (enc4 (g i) ++ ((((List.range 64).map fun i => enc4 (g i)).drop (i + 1)).flatten ++ R)) := by
    show A ++ (_ ++ R) = _
    rw [hsplit]; simp [List.append_assoc]
  obtain ⟨h1, h2, h3, h4⟩ := hb
  rw [hf]
  exact enc4_fields _ _ (g i) (8 + 16 * i) (by rw [List.length_append, hA, hpre]) h1 h2 h3 h4

/-! ### lump bodies -/

def bodiesOf (placed : List (Nat × Nat × Bytes)) : Bytes := (placed.map fun p => p.2.2).flatten

theorem placeAll_slice (Z : Lzma) (x : Bsp) (ids : List Nat) (start : Nat) (pre : Bytes) (hpre : pre.length = start)
    (p : Nat × Nat × Bytes) (hp : p ∈ placeAll Z x ids start) :
    slice (pre ++ bodiesOf (placeAll Z x ids start)) p.2.1 p.2.2.length = p.2.2 ∧
    start ≤ p.2.1 ∧ p.2.1 + p.2.2.length ≤ start + (bodiesOf (placeAll Z x ids start)).length ∧
    p.2.2 = body Z x p.1 p.2.1 ∧ p.1 ∈ ids := by
  induction ids generalizing start pre with
  | nil => simp [placeAll] at hp
  | cons id ids ih =>
    simp only [placeAll, List.mem_cons] at hp
    simp only [placeAll, bodiesOf, List.map_cons, List.flatten_cons]
    rcases hp with rfl | hp
    · refine ⟨?_, Nat.le_refl _, ?_, rfl, by simp⟩
      · exact slice_mid' pre _ _ _ _ hpre.symm rfl
      · simp
    · have := ih (start + (body Z x id start).length) (pre ++ body Z x id start) (by simp [hpre]) hp
      obtain ⟨h1, h2, h3, h4, h5⟩ := this
      refine ⟨?_, by omega, ?_, h4, by simp [h5]⟩
      · rw [← List.append_assoc]; exact h1
      · simp only [bodiesOf] at h3; simp only [List.length_append]; omega

theorem find_placed (Z : Lzma) (x : Bsp) (ids : List Nat) (start id : Nat) (hid : id ∈ ids) :
    ∃ off b, (placeAll Z x ids start).find? (fun p => p.1 == id) = some (id, off, b) ∧
      (id, off, b) ∈ placeAll Z x ids start := by
  induction ids generalizing start with
  | nil => simp at hid
  | cons a as ih =>
    simp only [placeAll, List.find?_cons]
    by_cases ha : a = id
    · subst ha; exact ⟨start, body Z x a start, by simp, by simp⟩
    · have hid' : id ∈ as := by simpa [Ne.symm ha] using hid
      obtain ⟨off, b, h1, h2⟩ := ih (start + (body Z x a start).length) hid'
      have : (a == id) = false := by simp [ha]
      exact ⟨off, b, by simp [this, h1], by simp [h2]⟩

/-! ### the whole file -/

/-- what `C10_layout` assumes about the BSP being written. -/
structure Fits (Z : Lzma) (order : List Nat) (l4d2 : Bool) (x : Bsp) : Prop where
  /-- every offset and length fits a positive int32 -/
  file : (writeFile Z order l4d2 x).length < 2 ^ 31
  magic : x.magic < 2 ^ 32
  version : x.version < 2 ^ 32
  revision : x.revision < 2 ^ 32
  lumps : x.lumps.length = 64
  lump : ∀ l ∈ x.lumps, l.version < 2 ^ 32 ∧ l.data.length < 2 ^ 31 ∧ (l.compressed = true → l.data ≠ [])
  /-- `BSP.read` leaves GAME_LUMP empty, version 0 is what `save` writes -/
  gameLump : x.lumps.getD GAME default = ⟨0, [], false⟩
  /-- PAKFILE is never written compressed -/
  pak : (x.lumps.getD PAK default).compressed = false
  game : ∀ g ∈ x.game, g.id ≠ 0 ∧ g.id < 2 ^ 32 ∧ g.flags < 2 ^ 16 ∧ g.version < 2 ^ 16 ∧ g.data.length < 2 ^ 31
  /-- every lump is written exactly once -/
  order : order.Nodup ∧ ∀ id, id < 64 → id ∈ order

theorem flatten_length_const {α : Type} (L : List (List α)) (k : Nat) (hk : ∀ c ∈ L, c.length = k) :
    L.flatten.length = k * L.length := by
  have := flatten_take_length L k L.length hk
  simpa using this

/-- the fixed-size part of the file. -/
def headPart (Z : Lzma) (order : List Nat) (l4d2 : Bool) (x : Bsp) : Bytes :=
  le 4 x.magic ++ (le 4 x.version
    ++ (((List.range 64).map (entryOf Z x l4d2 (placeAll Z x order HDR))).flatten ++ le 4 x.revision))

theorem writeFile_eq (Z : Lzma) (order : List Nat) (l4d2 : Bool) (x : Bsp) :
    writeFile Z order l4d2 x = headPart Z order l4d2 x ++ bodiesOf (placeAll Z x order HDR) := by
  simp [writeFile, headPart, bodiesOf, List.append_assoc]

theorem table_length (Z : Lzma) (order : List Nat) (l4d2 : Bool) (x : Bsp) :
    (((List.range 64).map (entryOf Z x l4d2 (placeAll Z x order HDR))).flatten).length = 1024 := by
  rw [flatten_length_const _ 16 (by
    intro c hc; simp only [List.mem_map] at hc; obtain ⟨_, _, rfl⟩ := hc; simp [entryOf])]
  simp

theorem headPart_length (Z : Lzma) (order : List Nat) (l4d2 : Bool) (x : Bsp) :
    (headPart Z order l4d2 x).length = HDR := by
  simp only [headPart, List.length_append, le_length, table_length]
  rfl

theorem lump_mem (x : Bsp) (h : x.lumps.length = 64) (id : Nat) (hid : id < 64) :
    x.lumps.getD id default ∈ x.lumps := by
  have : id < x.lumps.length := by omega
  simp [List.getD, List.getElem?_eq_getElem this]

/-- the header fields of every lump are in range. -/
theorem metaOf_bounds (Z : Lzma) (order : List Nat) (l4d2 : Bool) (x : Bsp) (F : Fits Z order l4d2 x)
    (id : Nat) (hid : id < 64) :
    let m := metaOf Z x (placeAll Z x order HDR) id
    m.1 < 256 ^ 4 ∧ m.2.1 < 256 ^ 4 ∧ m.2.2.1 < 256 ^ 4 ∧ m.2.2.2 < 256 ^ 4 := by
  intro m
  obtain ⟨off, b, hf, hm⟩ := find_placed Z x order HDR id (F.order.2 id hid)
  obtain ⟨_, _, h3, _, _⟩ := placeAll_slice Z x order HDR (headPart Z order l4d2 x) (headPart_length ..) _ hm
  have hlen := F.file
  rw [writeFile_eq, List.length_append, headPart_length] at hlen
  obtain ⟨hv, hd, _⟩ := F.lump _ (lump_mem x F.lumps id hid)
  generalize hl : x.lumps.getD id default = l at hv hd
  have hm' : m = (off, b.length, (if id = GAME then 0 else l.version),
      (if id = GAME then 0 else (stored Z id l).2)) := by
    simp only [m, metaOf, hf, hl]
  rw [hm']
  simp only at h3 ⊢
  have hs : (stored Z id l).2 < 2 ^ 31 := by
    unfold stored; split
    · exact hd
    · show 0 < 2 ^ 31; omega
  refine ⟨by omega, by omega, ?_, ?_⟩
  · split <;> omega
  · split <;> omega

theorem permute_bounds (l4d2 : Bool) (m : Nat × Nat × Nat × Nat) (k : Nat)
    (h : m.1 < k ∧ m.2.1 < k ∧ m.2.2.1 < k ∧ m.2.2.2 < k) :
    (permute l4d2 m).1 < k ∧ (permute l4d2 m).2.1 < k ∧ (permute l4d2 m).2.2.1 < k ∧ (permute l4d2 m).2.2.2 < k := by
  unfold permute; cases l4d2 <;> simp <;> omega

theorem readEntry_writeFile (Z : Lzma) (order : List Nat) (l4d2 : Bool) (x : Bsp) (F : Fits Z order l4d2 x)
    (id : Nat) (hid : id < 64) :
    readEntry (writeFile Z order l4d2 x) l4d2 id = metaOf Z x (placeAll Z x order HDR) id := by
  have hb := permute_bounds l4d2 _ _ (metaOf_bounds Z order l4d2 x F id hid)
  have hw : writeFile Z order l4d2 x = (le 4 x.magic ++ le 4 x.version) ++
      (((List.range 64).map fun i => enc4 (permute l4d2 (metaOf Z x (placeAll Z x order HDR) i))).flatten
        ++ (le 4 x.revision ++ bodiesOf (placeAll Z x order HDR))) := by
    have he : entryOf Z x l4d2 (placeAll Z x order HDR)
        = fun i => enc4 (permute l4d2 (metaOf Z x (placeAll Z x order HDR) i)) := by funext i; rfl
    simp [writeFile, bodiesOf, he, List.append_assoc]
  obtain ⟨h1, h2, h3, h4⟩ := table_field (le 4 x.magic ++ le 4 x.version) _ (by simp)
    (fun i => permute l4d2 (metaOf Z x (placeAll Z x order HDR) i)) id hid hb
  unfold readEntry
  rw [hw]
  rw [h1, h2, h3, h4]
  unfold permute
  cases l4d2 <;> simp

theorem header_writeFile (Z : Lzma) (order : List Nat) (l4d2 : Bool) (x : Bsp) (F : Fits Z order l4d2 x) :
    rd32 (writeFile Z order l4d2 x) 0 = x.magic ∧ rd32 (writeFile Z order l4d2 x) 4 = x.version ∧
    rd32 (writeFile Z order l4d2 x) (8 + 16 * 64) = x.revision := by
  refine ⟨?_, ?_, ?_⟩
  · have := rd32_at [] (le 4 x.version ++ (((List.range 64).map (entryOf Z x l4d2 (placeAll Z x order HDR))).flatten
        ++ (le 4 x.revision ++ bodiesOf (placeAll Z x order HDR)))) x.magic 0 rfl F.magic
    simpa [writeFile, bodiesOf] using this
  · have := rd32_at (le 4 x.magic) ((((List.range 64).map (entryOf Z x l4d2 (placeAll Z x order HDR))).flatten
        ++ (le 4 x.revision ++ bodiesOf (placeAll Z x order HDR)))) x.version 4 (by simp) F.version
    simpa [writeFile, bodiesOf] using this
  · have := rd32_at (le 4 x.magic ++ le 4 x.version ++ ((List.range 64).map (entryOf Z x l4d2 (placeAll Z x order HDR))).flatten)
        (bodiesOf (placeAll Z x order HDR)) x.revision (8 + 16 * 64) (by simp only [List.length_append, le_length, table_length]) F.revision
    simpa [writeFile, bodiesOf, List.append_assoc] using this

theorem readLump_writeFile (Z : Lzma) (hZ : Z.Inverse) (order : List Nat) (l4d2 : Bool) (x : Bsp) (F : Fits Z order l4d2 x)
    (id : Nat) (hid : id < 64) :
    readLump Z (writeFile Z order l4d2 x) l4d2 id = x.lumps.getD id default := by
  obtain ⟨off, b, hf, hm⟩ := find_placed Z x order HDR id (F.order.2 id hid)
  obtain ⟨h1, _, _, h4, _⟩ := placeAll_slice Z x order HDR (headPart Z order l4d2 x) (headPart_length ..) _ hm
  rw [← writeFile_eq] at h1
  simp only at h1 h4
  unfold readLump
  rw [readEntry_writeFile Z order l4d2 x F id hid]
  simp only [metaOf, hf]
  by_cases hg : id = GAME
  · simp only [hg, if_true]
    rw [← hg, hg, F.gameLump]
  · simp only [hg, if_false]
    rw [h1, h4]
    simp only [body, hg, if_false]
    obtain ⟨_, _, hne⟩ := F.lump _ (lump_mem x F.lumps id hid)
    generalize hl : x.lumps.getD id default = l at hne ⊢
    unfold stored
    by_cases hc : (l.compressed && id != PAK) = true
    · simp only [hc, if_true]
      simp only [Bool.and_eq_true] at hc
      have : l.data.length > 0 := List.length_pos_iff.mpr (hne hc.1)
      simp only [this, if_true, hZ _]
      cases l; simp_all
    · simp only [hc]
      have hcomp : l.compressed = false := by
        cases hlc : l.compressed with
        | false => rfl
        | true =>
          have hp : id = PAK := by simpa [hlc] using hc
          have hpk := F.pak
          rw [← hp, hl, hlc] at hpk
          cases hpk
      cases l with
      | mk v d c => simp at hcomp; subst hcomp; simp



/-- reading inside a window that is known. -/
theorem slice_window (f b : Bytes) (off a n : Nat) (h : slice f off b.length = b) (hn : a + n ≤ b.length) :
    slice f (off + a) n = slice b a n := by
  unfold slice at *
  rw [← List.drop_drop]
  conv => rhs; rw [← h]
  rw [List.drop_take, List.take_take]
  congr 1
  omega

theorem rd32_window (f b : Bytes) (off a : Nat) (h : slice f off b.length = b) (hn : a + 4 ≤ b.length) :
    rd32 f (off + a) = rd32 b a := by
  unfold rd32; rw [slice_window f b off a 4 h hn]

theorem rd16_window (f b : Bytes) (off a : Nat) (h : slice f off b.length = b) (hn : a + 2 ≤ b.length) :
    rd16 f (off + a) = rd16 b a := by
  unfold rd16; rw [slice_window f b off a 2 h hn]

@[simp] theorem dirEntry_length (g : GLump) (off : Nat) : (dirEntry g off).length = 16 := by simp [dirEntry]

/-- the five fields of a directory entry placed at offset `o`. -/
theorem dirEntry_fields (P Q : Bytes) (g : GLump) (off o : Nat) (hP : P.length = o)
    (h1 : g.id < 256 ^ 4) (h2 : g.flags < 256 ^ 2) (h3 : g.version < 256 ^ 2) (h4 : off < 256 ^ 4)
    (h5 : g.data.length < 256 ^ 4) :
    rd32 (P ++ (dirEntry g off ++ Q)) o = g.id ∧ rd16 (P ++ (dirEntry g off ++ Q)) (o + 4) = g.flags ∧
    rd16 (P ++ (dirEntry g off ++ Q)) (o + 6) = g.version ∧ rd32 (P ++ (dirEntry g off ++ Q)) (o + 8) = off ∧
    rd32 (P ++ (dirEntry g off ++ Q)) (o + 12) = g.data.length := by
  unfold dirEntry
  refine ⟨?_, ?_, ?_, ?_, ?_⟩
  · simp only [List.append_assoc]
    exact rd32_at _ _ _ _ hP.symm h1
  · have : ∀ (P a b c d e Q : Bytes), P ++ (a ++ b ++ c ++ d ++ e ++ Q) = (P ++ a) ++ (b ++ (c ++ d ++ e ++ Q)) := by
      intros; simp [List.append_assoc]
    rw [this]
    exact rd16_at _ _ _ _ (by simp [hP]) h2
  · have : ∀ (P a b c d e Q : Bytes), P ++ (a ++ b ++ c ++ d ++ e ++ Q) = (P ++ a ++ b) ++ (c ++ (d ++ e ++ Q)) := by
      intros; simp [List.append_assoc]
    rw [this]
    exact rd16_at _ _ _ _ (by simp [hP]) h3
  · have : ∀ (P a b c d e Q : Bytes), P ++ (a ++ b ++ c ++ d ++ e ++ Q) = (P ++ a ++ b ++ c) ++ (d ++ (e ++ Q)) := by
      intros; simp [List.append_assoc]
    rw [this]
    exact rd32_at _ _ _ _ (by simp [hP]) h4
  · have : ∀ (P a b c d e Q : Bytes), P ++ (a ++ b ++ c ++ d ++ e ++ Q) = (P ++ a ++ b ++ c ++ d) ++ (e ++ Q) := by
      intros; simp [List.append_assoc]
    rw [this]
    exact rd32_at _ _ _ _ (by simp [hP]) h5

/-! ### the game lump section -/

/-- what the reader extracts from the directory for the real entries. -/
def gEntries (gs : List GLump) (offs : List Nat) : List (Nat × Nat × Nat × Nat × Nat) :=
  List.zipWith (fun g off => (g.id, g.flags, g.version, off, g.data.length)) gs offs

theorem gBodies_cons2 (Z : Lzma) (g g2 : GLump) (rest : List GLump) :
    gBodies Z (g :: g2 :: rest) = gStored Z g ++ 0 :: gBodies Z (g2 :: rest) := rfl

theorem glump_eta (g : GLump) (d : Bytes) (h : d = g.data) :
    ({ id := g.id, flags := g.flags, version := g.version, data := d } : GLump) = g := by
  subst h; cases g; rfl

theorem gRaw (Z : Lzma) (hZ : Z.Inverse) (f : Bytes) (g : GLump) (D n : Nat) (hs : slice f D (gStored Z g).length = gStored Z g)
    (hn : n = (gStored Z g).length) :
    (if g.flags % 2 == 1 then Z.decomp (slice f D n) else slice f D g.data.length) = g.data := by
  subst hn
  unfold gStored GLump.compressed at *
  by_cases hc : (g.flags % 2 == 1) = true
  · simp only [hc, if_true] at hs ⊢
    rw [hs, hZ]
  · simp only [hc] at hs ⊢
    exact hs

theorem game_aux (Z : Lzma) (hZ : Z.Inverse) (gs : List GLump) (D : Nat) (f : Bytes)
    (hb : slice f D (gBodies Z gs).length = gBodies Z gs) :
    readGameAux Z f (D + (gBodies Z gs).length) (gEntries gs (gOffsets Z D gs)) = gs := by
  induction gs generalizing D with
  | nil => rfl
  | cons g gs ih =>
    cases gs with
    | nil =>
      simp only [gEntries, gOffsets, List.zipWith_cons_cons, List.zipWith_nil_right, readGameAux, gBodies] at hb ⊢
      rw [glump_eta g _ (gRaw Z hZ f g D (D + (gStored Z g).length - D) hb (by omega))]
    | cons g2 rest =>
      rw [gBodies_cons2] at hb ⊢
      have hlen : (gStored Z g ++ 0 :: gBodies Z (g2 :: rest)).length
          = (gStored Z g).length + 1 + (gBodies Z (g2 :: rest)).length := by
        simp only [List.length_append, List.length_cons]; omega
      have h1 : slice f D (gStored Z g).length = gStored Z g := by
        have := slice_window f _ D 0 (gStored Z g).length hb (by rw [hlen]; omega)
        simpa [slice] using this
      have h2 : slice f (D + (gStored Z g).length + 1) (gBodies Z (g2 :: rest)).length = gBodies Z (g2 :: rest) := by
        have := slice_window f _ D ((gStored Z g).length + 1) (gBodies Z (g2 :: rest)).length hb (by rw [hlen]; omega)
        rw [Nat.add_assoc]
        rw [this]
        simp [slice]
      have ih' := ih (D + (gStored Z g).length + 1) h2
      have hend : D + (gStored Z g ++ 0 :: gBodies Z (g2 :: rest)).length
          = D + (gStored Z g).length + 1 + (gBodies Z (g2 :: rest)).length := by rw [hlen]; omega
      rw [hend]
      simp only [gEntries, gOffsets, List.zipWith_cons_cons, readGameAux] at ih' ⊢
      rw [ih']
      congr 1
      exact glump_eta g _ (gRaw Z hZ f g D (D + (gStored Z g).length + 1 - D - 1) h1 (by omega))

@[simp] theorem gOffsets_length (Z : Lzma) (D : Nat) (gs : List GLump) : (gOffsets Z D gs).length = gs.length := by
  induction gs generalizing D with
  | nil => rfl
  | cons g gs ih => simp [gOffsets, ih]

theorem gOffsets_bound (Z : Lzma) (D : Nat) (gs : List GLump) (o : Nat) (ho : o ∈ gOffsets Z D gs) :
    D ≤ o ∧ o ≤ D + (gBodies Z gs).length := by
  induction gs generalizing D with
  | nil => simp [gOffsets] at ho
  | cons g gs ih =>
    simp only [gOffsets, List.mem_cons] at ho
    rcases ho with rfl | ho
    · exact ⟨Nat.le_refl _, Nat.le_add_right _ _⟩
    · cases gs with
      | nil => simp [gOffsets] at ho
      | cons g2 rest =>
        have := ih _ ho
        rw [gBodies_cons2]
        simp only [List.length_append, List.length_cons]
        omega

/-- the section with its parts named. -/
theorem gameSection_eq (Z : Lzma) (start : Nat) (gs : List GLump) :
    gameSection Z start gs =
      le 4 (gs.length + (if needDummy gs then 1 else 0)) ++
      ((List.zipWith dirEntry gs (gOffsets Z (start + 4 + 16 * (gs.length + (if needDummy gs then 1 else 0))) gs)).flatten ++
      ((if needDummy gs then le 4 0 ++ le 2 0 ++ le 2 0 ++
          le 4 (start + 4 + 16 * (gs.length + (if needDummy gs then 1 else 0)) + (gBodies Z gs).length) ++ le 4 0 else []) ++
       gBodies Z gs)) := by
  simp [gameSection, List.append_assoc]

theorem dir_length (gs : List GLump) (offs : List Nat) (h : offs.length = gs.length) :
    (List.zipWith dirEntry gs offs).flatten.length = 16 * gs.length := by
  rw [flatten_length_const _ 16 (by
    intro c hc
    obtain ⟨i, hi, rfl⟩ := List.getElem_of_mem hc
    simp [List.getElem_zipWith])]
  simp [h]

theorem gameSection_length (Z : Lzma) (start : Nat) (gs : List GLump) :
    (gameSection Z start gs).length =
      4 + 16 * (gs.length + (if needDummy gs then 1 else 0)) + (gBodies Z gs).length := by
  rw [gameSection_eq]
  simp only [List.length_append, le_length, dir_length gs _ (gOffsets_length Z _ gs)]
  split <;> simp <;> omega

/-- reading directory entry `j` of a section that lies at `goff` in the file. -/
theorem readDir_real (Z : Lzma) (f : Bytes) (goff : Nat) (gs : List GLump)
    (hs : slice f goff (gameSection Z goff gs).length = gameSection Z goff gs)
    (hg : ∀ g ∈ gs, g.id ≠ 0 ∧ g.id < 2 ^ 32 ∧ g.flags < 2 ^ 16 ∧ g.version < 2 ^ 16 ∧ g.data.length < 2 ^ 31)
    (hsz : goff + (gameSection Z goff gs).length < 2 ^ 31)
    (j : Nat) (hj : j < gs.length) :
    readDir f goff j = (gs[j].id, gs[j].flags, gs[j].version,
      (gOffsets Z (goff + 4 + 16 * (gs.length + (if needDummy gs then 1 else 0))) gs).getD j 0,
      gs[j].data.length) := by
  have hlen := gameSection_length Z goff gs
  -- all five reads are inside the section
  have hin : 4 + 16 * j + 16 ≤ (gameSection Z goff gs).length := by rw [hlen]; omega
  unfold readDir
  simp only
  rw [show goff + 4 + 16 * j = goff + (4 + 16 * j) by omega,
      show goff + (4 + 16 * j) + 4 = goff + (4 + 16 * j + 4) by omega,
      show goff + (4 + 16 * j) + 6 = goff + (4 + 16 * j + 6) by omega,
      show goff + (4 + 16 * j) + 8 = goff + (4 + 16 * j + 8) by omega,
      show goff + (4 + 16 * j) + 12 = goff + (4 + 16 * j + 12) by omega]
  rw [rd32_window f _ goff _ hs (by omega), rd16_window f _ goff _ hs (by omega),
      rd16_window f _ goff _ hs (by omega), rd32_window f _ goff _ hs (by omega),
      rd32_window f _ goff _ hs (by omega)]
  -- split the section around entry j
  generalize hoffs : gOffsets Z (goff + 4 + 16 * (gs.length + (if needDummy gs then 1 else 0))) gs = offs
  have hol : offs.length = gs.length := by rw [← hoffs]; simp
  have hzl : (List.zipWith dirEntry gs offs).length = gs.length := by simp [hol]
  have hsplit := flatten_split (List.zipWith dirEntry gs offs) j (by rw [hzl]; exact hj)
  have hget : (List.zipWith dirEntry gs offs)[j]'(by rw [hzl]; exact hj) = dirEntry gs[j] (offs[j]'(by omega)) := by
    simp [List.getElem_zipWith]
  rw [hget] at hsplit
  have hpre : ((List.zipWith dirEntry gs offs).take j).flatten.length = 16 * j := by
    rw [flatten_take_length _ 16 j (by
      intro c hc
      obtain ⟨i, hi, rfl⟩ := List.getElem_of_mem hc
      simp [List.getElem_zipWith])]
    rw [hzl]; congr 1; omega
  rw [gameSection_eq, hoffs, hsplit]
  have hoj : offs[j]'(by omega) < 256 ^ 4 := by
    have hm : offs[j]'(by omega) ∈ gOffsets Z (goff + 4 + 16 * (gs.length + (if needDummy gs then 1 else 0))) gs := by
      rw [hoffs]; exact List.getElem_mem _
    have := (gOffsets_bound Z _ gs _ hm).2
    rw [hlen] at hsz
    omega
  obtain ⟨_, g1, g2, g3, g4⟩ := hg gs[j] (List.getElem_mem _)
  have key := dirEntry_fields
    (le 4 (gs.length + (if needDummy gs then 1 else 0)) ++ ((List.zipWith dirEntry gs offs).take j).flatten)
    (((List.zipWith dirEntry gs offs).drop (j + 1)).flatten ++
      ((if needDummy gs then le 4 0 ++ le 2 0 ++ le 2 0 ++
          le 4 (goff + 4 + 16 * (gs.length + (if needDummy gs then 1 else 0)) + (gBodies Z gs).length) ++ le 4 0 else []) ++
       gBodies Z gs))
    gs[j] (offs[j]'(by omega)) (4 + 16 * j) (by simp [hpre]) (by omega) (by omega) (by omega) hoj (by omega)
  simp only [List.append_assoc] at key ⊢
  obtain ⟨k1, k2, k3, k4, k5⟩ := key
  rw [k1, k2, k3, k4, k5]
  simp [List.getD, List.getElem?_eq_getElem (show j < offs.length by omega)]

theorem readDirs_real (Z : Lzma) (f : Bytes) (goff : Nat) (gs : List GLump)
    (hs : slice f goff (gameSection Z goff gs).length = gameSection Z goff gs)
    (hg : ∀ g ∈ gs, g.id ≠ 0 ∧ g.id < 2 ^ 32 ∧ g.flags < 2 ^ 16 ∧ g.version < 2 ^ 16 ∧ g.data.length < 2 ^ 31)
    (hsz : goff + (gameSection Z goff gs).length < 2 ^ 31) :
    (List.range gs.length).map (readDir f goff) =
      gEntries gs (gOffsets Z (goff + 4 + 16 * (gs.length + (if needDummy gs then 1 else 0))) gs) := by
  apply List.ext_getElem
  · simp [gEntries]
  · intro j h1 h2
    have hj : j < gs.length := by simpa using h1
    simp only [List.getElem_map, List.getElem_range, gEntries, List.getElem_zipWith]
    rw [readDir_real Z f goff gs hs hg hsz j hj]
    simp [List.getD, List.getElem?_eq_getElem (show j < (gOffsets Z _ gs).length by simp [hj])]

theorem gEntries_ids (gs : List GLump) (offs : List Nat) (hg : ∀ g ∈ gs, g.id ≠ 0) :
    (gEntries gs offs).filter (fun e => e.1 != 0) = gEntries gs offs := by
  rw [List.filter_eq_self]
  intro e he
  obtain ⟨i, hi, rfl⟩ := List.getElem_of_mem he
  simp only [gEntries, List.getElem_zipWith, bne_iff_ne, ne_eq]
  exact hg _ (List.getElem_mem _)

theorem readDir_dummy (Z : Lzma) (f : Bytes) (goff : Nat) (gs : List GLump)
    (hs : slice f goff (gameSection Z goff gs).length = gameSection Z goff gs) (hd : needDummy gs = true) :
    (readDir f goff gs.length).1 = 0 := by
  have hlen := gameSection_length Z goff gs
  simp only [hd, if_true] at hlen
  unfold readDir
  simp only
  rw [show goff + 4 + 16 * gs.length = goff + (4 + 16 * gs.length) by omega,
      rd32_window f _ goff _ hs (by rw [hlen]; omega)]
  rw [gameSection_eq]
  simp only [hd, if_true]
  have := rd32_at (le 4 (gs.length + 1) ++ (List.zipWith dirEntry gs (gOffsets Z (goff + 4 + 16 * (gs.length + 1)) gs)).flatten)
    (le 2 0 ++ le 2 0 ++ le 4 (goff + 4 + 16 * (gs.length + 1) + (gBodies Z gs).length) ++ le 4 0 ++ gBodies Z gs)
    0 (4 + 16 * gs.length) (by simp [dir_length gs _ (gOffsets_length Z _ gs)]) (by omega)
  simpa [List.append_assoc] using this

theorem ents_eq (Z : Lzma) (f : Bytes) (goff : Nat) (gs : List GLump)
    (hs : slice f goff (gameSection Z goff gs).length = gameSection Z goff gs)
    (hg : ∀ g ∈ gs, g.id ≠ 0 ∧ g.id < 2 ^ 32 ∧ g.flags < 2 ^ 16 ∧ g.version < 2 ^ 16 ∧ g.data.length < 2 ^ 31)
    (hsz : goff + (gameSection Z goff gs).length < 2 ^ 31) :
    ((List.range (gs.length + (if needDummy gs then 1 else 0))).map (readDir f goff)).filter (fun e => e.1 != 0) =
      gEntries gs (gOffsets Z (goff + 4 + 16 * (gs.length + (if needDummy gs then 1 else 0))) gs) := by
  have hreal := readDirs_real Z f goff gs hs hg hsz
  have hids := gEntries_ids gs (gOffsets Z (goff + 4 + 16 * (gs.length + (if needDummy gs then 1 else 0))) gs)
    (fun g h => (hg g h).1)
  by_cases hd : needDummy gs = true
  · simp only [hd, if_true] at hreal hids ⊢
    rw [List.range_succ, List.map_append, List.filter_append, hreal, hids]
    have := readDir_dummy Z f goff gs hs hd
    simp [this]
  · simp only [hd] at hreal hids ⊢
    simp only [Bool.false_eq_true, if_false, Nat.add_zero] at hreal hids ⊢
    rw [hreal, hids]

theorem readGame_writeFile (Z : Lzma) (hZ : Z.Inverse) (order : List Nat) (l4d2 : Bool) (x : Bsp) (F : Fits Z order l4d2 x) :
    readGame Z (writeFile Z order l4d2 x) l4d2 = x.game := by
  obtain ⟨off, b, hf, hm⟩ := find_placed Z x order HDR GAME (F.order.2 GAME (by decide))
  obtain ⟨h1, _, h3, h4, _⟩ := placeAll_slice Z x order HDR (headPart Z order l4d2 x) (headPart_length ..) _ hm
  rw [← writeFile_eq] at h1
  simp only at h1 h3 h4
  have hb : b = gameSection Z off x.game := by rw [h4]; simp [body]
  subst hb
  have hfile := F.file
  rw [writeFile_eq, List.length_append, headPart_length] at hfile
  have hsz : off + (gameSection Z off x.game).length < 2 ^ 31 := by omega
  have hlen := gameSection_length Z off x.game
  unfold readGame
  rw [readEntry_writeFile Z order l4d2 x F GAME (by decide)]
  simp only [metaOf, hf]
  -- the count
  have hcount : rd32 (writeFile Z order l4d2 x) off = x.game.length + (if needDummy x.game then 1 else 0) := by
    have := rd32_window (writeFile Z order l4d2 x) _ off 0 h1 (by rw [hlen]; omega)
    rw [Nat.add_zero] at this
    rw [this, gameSection_eq]
    exact rd32_at [] _ _ 0 rfl (by rw [hlen] at hsz; omega)
  rw [hcount, ents_eq Z _ off x.game h1 F.game hsz]
  -- the bodies
  have hbod : slice (writeFile Z order l4d2 x)
      (off + 4 + 16 * (x.game.length + (if needDummy x.game then 1 else 0))) (gBodies Z x.game).length
      = gBodies Z x.game := by
    have := slice_window (writeFile Z order l4d2 x) _ off
      (4 + 16 * (x.game.length + (if needDummy x.game then 1 else 0))) (gBodies Z x.game).length h1
      (by rw [hlen]; omega)
    rw [show off + 4 + 16 * (x.game.length + (if needDummy x.game then 1 else 0))
        = off + (4 + 16 * (x.game.length + (if needDummy x.game then 1 else 0))) by omega, this, gameSection_eq]
    have hpre : (le 4 (x.game.length + (if needDummy x.game then 1 else 0)) ++
        ((List.zipWith dirEntry x.game (gOffsets Z (off + 4 + 16 * (x.game.length + (if needDummy x.game then 1 else 0))) x.game)).flatten ++
        (if needDummy x.game then le 4 0 ++ le 2 0 ++ le 2 0 ++
          le 4 (off + 4 + 16 * (x.game.length + (if needDummy x.game then 1 else 0)) + (gBodies Z x.game).length) ++ le 4 0 else []))).length
        = 4 + 16 * (x.game.length + (if needDummy x.game then 1 else 0)) := by
      simp only [List.length_append, le_length, dir_length x.game _ (gOffsets_length Z _ x.game)]
      split <;> simp <;> omega
    have := slice_mid' _ (gBodies Z x.game) [] _ _ hpre.symm rfl
    simpa [List.append_assoc] using this
  have := game_aux Z hZ x.game _ _ hbod
  rw [show off + (gameSection Z off x.game).length
      = off + 4 + 16 * (x.game.length + (if needDummy x.game then 1 else 0)) + (gBodies Z x.game).length by
        rw [hlen]; omega]
  exact this

/-- **layout**: reading back what `save` lays out gives the same BSP. -/
theorem layout_roundtrip (Z : Lzma) (hZ : Z.Inverse) (order : List Nat) (l4d2 : Bool) (x : Bsp) (F : Fits Z order l4d2 x) :
    readFile Z (writeFile Z order l4d2 x) l4d2 = x := by
  obtain ⟨h1, h2, h3⟩ := header_writeFile Z order l4d2 x F
  unfold readFile
  rw [h1, h2, h3, readGame_writeFile Z hZ order l4d2 x F]
  have hl : (List.range 64).map (readLump Z (writeFile Z order l4d2 x) l4d2) = x.lumps := by
    apply List.ext_getElem
    · simp [F.lumps]
    · intro i hi1 hi2
      have hi : i < 64 := by simpa using hi1
      simp only [List.getElem_map, List.getElem_range]
      rw [readLump_writeFile Z hZ order l4d2 x F i hi]
      simp [List.getD, List.getElem?_eq_getElem hi2]
  rw [hl]

/-- the first stored field of lump entry 0 (what the L4D2 detection of `BSP.read` looks at). -/
theorem first_field (Z : Lzma) (order : List Nat) (l4d2 : Bool) (x : Bsp) (F : Fits Z order l4d2 x) :
    rd32 (writeFile Z order l4d2 x) 8 = (permute l4d2 (metaOf Z x (placeAll Z x order HDR) 0)).1 := by
  have hb := permute_bounds l4d2 _ _ (metaOf_bounds Z order l4d2 x F 0 (by decide))
  have hw : writeFile Z order l4d2 x = (le 4 x.magic ++ le 4 x.version) ++
      (((List.range 64).map fun i => enc4 (permute l4d2 (metaOf Z x (placeAll Z x order HDR) i))).flatten
        ++ (le 4 x.revision ++ bodiesOf (placeAll Z x order HDR))) := by
    have he : entryOf Z x l4d2 (placeAll Z x order HDR)
        = fun i => enc4 (permute l4d2 (metaOf Z x (placeAll Z x order HDR) i)) := by funext i; rfl
    simp [writeFile, bodiesOf, he, List.append_assoc]
  obtain ⟨h1, _⟩ := table_field (le 4 x.magic ++ le 4 x.version) _ (by simp)
    (fun i => permute l4d2 (metaOf Z x (placeAll Z x order HDR) i)) 0 (by decide) hb
  rw [hw]
  exact h1

theorem detect_l4d2 (Z : Lzma) (order : List Nat) (x : Bsp) (F : Fits Z order true x) :
    looksL4D2 (writeFile Z order true x) = ((x.lumps.getD 0 default).version == 0) := by
  unfold looksL4D2
  rw [first_field Z order true x F]
  obtain ⟨off, b, hf, _⟩ := find_placed Z x order HDR 0 (F.order.2 0 (by decide))
  simp [permute, metaOf, hf, GAME]

theorem detect_normal (Z : Lzma) (order : List Nat) (x : Bsp) (F : Fits Z order false x) :
    looksL4D2 (writeFile Z order false x) = false := by
  unfold looksL4D2
  rw [first_field Z order false x F]
  obtain ⟨off, b, hf, hm⟩ := find_placed Z x order HDR 0 (F.order.2 0 (by decide))
  obtain ⟨_, h2, _⟩ := placeAll_slice Z x order HDR (headPart Z order false x) (headPart_length ..) _ hm
  simp only at h2
  have : off ≠ 0 := by unfold HDR at h2; omega
  simp [permute, metaOf, hf, this]

end C10.Bytes
