import Srctools.Model.C05
import Mathlib.Tactic.Linarith
set_option exponentiation.threshold 3000
/-! Lemmas for C05. Part 1: the exact binary64 model (`B64`): `x % 360.0 % 360.0` is a finite value in `[0, 360)`
for every finite `x`. -/

namespace B64

/-- 360.0 in units -/
def M360 : Nat := 360 * U

theorem M360_pos : 0 < M360 := by decide +kernel
theorem M360_lt_pow : M360 < 2 ^ 1083 := by decide +kernel
theorem M360_lt_maxMag : M360 < maxMag := by decide +kernel
theorem M360_eq : M360 = 45 * 2 ^ 1077 := by decide +kernel

theorem c360_eq : c360 = .fin false M360 := rfl

theorem roundHE_le (n d : Nat) : roundHE n d ≤ n / d + 1 := by
  unfold roundHE
  simp only
  split
  · omega
  · split
    · omega
    · split <;> omega

/-- rounding a magnitude strictly between 0 and 360.0 never exceeds 360.0 (360.0 is a multiple of every quantum
below it). -/
theorem roundMag_le_M360 (v : Nat) (h0 : 0 < v) (h : v < M360) : roundMag v 1 ≤ M360 := by
  unfold roundMag
  simp only [Nat.div_one, Nat.one_mul]
  have hv : v ≠ 0 := by omega
  have hk : quantExp v ≤ 1077 := by
    unfold quantExp
    have : v.log2 < 1083 := (Nat.log2_lt hv).2 (Nat.lt_trans h M360_lt_pow)
    omega
  generalize quantExp v = k at hk
  -- M360 = Q * 2^k
  obtain ⟨j, hj⟩ : ∃ j, 1077 = k + j := ⟨1077 - k, by omega⟩
  have hM : M360 = (45 * 2 ^ j) * 2 ^ k := by
    rw [M360_eq, hj, Nat.pow_add]; ac_rfl
  have hpos : 0 < 2 ^ k := Nat.pow_pos (by decide)
  have hdiv : v / 2 ^ k < 45 * 2 ^ j := by
    rw [Nat.div_lt_iff_lt_mul hpos]
    omega
  have := roundHE_le v (2 ^ k)
  rw [hM]
  exact Nat.mul_le_mul_right _ (by omega)

theorem ofInt_natCast_pos (n : Nat) (h : 0 < n) (z : Bool) : ofInt (n : Int) z = rnd false n 1 := by
  unfold ofInt
  have h1 : ((n : Int) == 0) = false := by simp; omega
  have h2 : decide ((n : Int) < 0) = false := by simp
  simp [h1, h2]

theorem add_neg_pos (a b : Nat) (h : a < b) : add (.fin true a) (.fin false b) = rnd false (b - a) 1 := by
  have hv : (Val.fin true a).toInt + (Val.fin false b).toInt = ((b - a : Nat) : Int) := by
    simp only [Val.toInt]; omega
  show ofInt ((Val.fin true a).toInt + (Val.fin false b).toInt) (true && false) = _
  rw [hv]
  exact ofInt_natCast_pos _ (by omega) _

/-- first `% 360.0`: a finite value with magnitude at most 360.0 and positive sign -/
theorem mod360_fin (s : Bool) (m : Nat) : ∃ a, mod360 (.fin s m) = .fin false a ∧ a ≤ M360 := by
  have hM := M360_pos
  have hlt : m % M360 < M360 := Nat.mod_lt _ hM
  unfold mod360 pyMod
  simp only [c360_eq, fmod]
  have hne : (M360 == 0) = false := by simp; omega
  simp only [hne, Bool.false_eq_true, if_false]
  by_cases hz : m % M360 = 0
  · refine ⟨0, ?_, Nat.zero_le _⟩
    simp [Val.isZero, hz, Val.signBit]
  · have hz' : (Val.fin s (m % M360)).isZero = false := by
      cases hmm : m % M360 with
      | zero => exact absurd hmm hz
      | succ n => rfl
    simp only [hz', Bool.false_eq_true, if_false]
    cases s with
    | false =>
      refine ⟨m % M360, ?_, Nat.le_of_lt hlt⟩
      simp [Val.ltZero]
    | true =>
      have hlz : (Val.fin true (m % M360)).ltZero = true := by
        simp [Val.ltZero]; exact hz
      have hl0 : (Val.fin false M360).ltZero = false := by simp [Val.ltZero]
      simp only [hlz, hl0]
      simp only [bne_iff_ne, ne_eq, Bool.false_eq_true, not_false_eq_true, if_true]
      rw [add_neg_pos _ _ hlt]
      have hpos : 0 < M360 - m % M360 := by omega
      unfold rnd
      have hle := roundMag_le_M360 (M360 - m % M360) hpos (by omega)
      have : roundMag (M360 - m % M360) 1 < maxMag := Nat.lt_of_le_of_lt hle M360_lt_maxMag
      simp only [this, if_true]
      exact ⟨_, rfl, hle⟩

/-- second `% 360.0` of a value in `[0, 360]` -/
theorem mod360_of_le (a : Nat) (_h : a ≤ M360) : ∃ b, mod360 (.fin false a) = .fin false b ∧ b < M360 := by
  have hM := M360_pos
  unfold mod360 pyMod
  simp only [c360_eq, fmod]
  have hne : (M360 == 0) = false := by simp; omega
  simp only [hne, Bool.false_eq_true, if_false]
  by_cases hz : a % M360 = 0
  · refine ⟨0, ?_, hM⟩
    simp [Val.isZero, hz, Val.signBit]
  · have hz' : (Val.fin false (a % M360)).isZero = false := by
      cases hmm : a % M360 with
      | zero => exact absurd hmm hz
      | succ n => rfl
    simp only [hz', Bool.false_eq_true, if_false]
    refine ⟨a % M360, ?_, Nat.mod_lt _ hM⟩
    simp [Val.ltZero]

/-- **`x % 360.0 % 360.0` of any finite double is a finite, non-negative double strictly below 360.0.** -/
theorem norm360_fin (s : Bool) (m : Nat) : ∃ b, norm360 (.fin s m) = .fin false b ∧ b < M360 := by
  obtain ⟨a, ha, hle⟩ := mod360_fin s m
  obtain ⟨b, hb, hlt⟩ := mod360_of_le a hle
  exact ⟨b, by show pyMod (pyMod _ c360) c360 = _; exact (by
    have : pyMod (Val.fin s m) c360 = .fin false a := ha
    rw [this]; exact hb), hlt⟩

end B64

/-! Part 2: the same fact for *every* rounding system — any precision, any rounding mode that is monotone and
leaves representable numbers alone, provided 0 and 360 are representable. Numbers are rationals; `rnd` is the
rounding applied to the one inexact operation of CPython's `float_rem` (`mod += wx`); C's `fmod` is exact. -/
namespace C05

structure RoundingSystem where
  rnd : Rat → Rat
  Rep : Rat → Prop
  /-- rounding is the identity on representable numbers -/
  rnd_rep : ∀ q, Rep q → rnd q = q
  /-- rounding is monotone -/
  mono : ∀ a b, a ≤ b → rnd a ≤ rnd b
  rep_zero : Rep 0
  rep_360 : Rep 360

/-- C `fmod(x, y)` for `y > 0`: exact, sign of `x`. -/
def fmodQ (x y : Rat) : Rat :=
  if 0 ≤ x then x - y * ((x / y).floor : Int) else -((-x) - y * (((-x) / y).floor : Int))

/-- CPython `float_rem` for a positive divisor. -/
def pyModQ (RS : RoundingSystem) (x y : Rat) : Rat :=
  let r := fmodQ x y
  if r = 0 then 0 else if r < 0 then RS.rnd (r + y) else r

def norm2Q (RS : RoundingSystem) (x : Rat) : Rat := pyModQ RS (pyModQ RS x 360) 360

theorem fmod_nonneg_range (a y : Rat) (hy : 0 < y) (_ha : 0 ≤ a) :
    0 ≤ a - y * ((a / y).floor : Int) ∧ a - y * ((a / y).floor : Int) < y := by
  have h1 := Rat.floor_le (a / y)
  have h2 := Rat.lt_floor_add_one (a / y)
  have hc : y * (a / y) = a := mul_div_cancel₀ a (ne_of_gt hy)
  have h3 : y * ((a / y).floor : Int) ≤ y * (a / y) := mul_le_mul_of_nonneg_left h1 (le_of_lt hy)
  have h4 : y * (a / y) < y * (((a / y).floor + 1 : Int) : Rat) := mul_lt_mul_of_pos_left h2 hy
  rw [hc] at h3 h4
  push_cast at h4
  constructor <;> nlinarith

theorem fmodQ_range (x y : Rat) (hy : 0 < y) : -y < fmodQ x y ∧ fmodQ x y < y ∧ (0 ≤ x → 0 ≤ fmodQ x y) := by
  unfold fmodQ
  split
  · rename_i h
    obtain ⟨a, b⟩ := fmod_nonneg_range x y hy h
    exact ⟨by linarith, b, fun _ => a⟩
  · rename_i h
    have h' : 0 ≤ -x := by linarith
    obtain ⟨a, b⟩ := fmod_nonneg_range (-x) y hy h'
    exact ⟨by linarith, by linarith, fun h0 => absurd h0 h⟩

theorem fmodQ_of_lt (x y : Rat) (h0 : 0 ≤ x) (h : x < y) : fmodQ x y = x := by
  unfold fmodQ
  have hy : 0 < y := lt_of_le_of_lt h0 h
  have hf : (x / y).floor = 0 := by
    apply le_antisymm
    · have : (x / y).floor < 1 := Rat.floor_lt_iff.2 (by
        rw [div_lt_iff₀ hy]; simpa using h)
      omega
    · exact Rat.le_floor_iff.2 (by simpa using div_nonneg h0 (le_of_lt hy))
  simp [h0, hf]

theorem fmodQ_self (y : Rat) (hy : 0 < y) : fmodQ y y = 0 := by
  unfold fmodQ
  have : y / y = 1 := div_self (ne_of_gt hy)
  have hf : (y / y).floor = 1 := by rw [this]; exact Rat.floor_intCast 1
  simp [le_of_lt hy, hf]

/-- one modulo lands in the *closed* interval [0, 360] -/
theorem pyModQ_range (RS : RoundingSystem) (x : Rat) : 0 ≤ pyModQ RS x 360 ∧ pyModQ RS x 360 ≤ 360 := by
  obtain ⟨h1, h2, _⟩ := fmodQ_range x 360 (by norm_num)
  unfold pyModQ
  simp only
  split
  · exact ⟨le_refl _, by norm_num⟩
  · split
    · rename_i hlt
      have a := RS.mono 0 (fmodQ x 360 + 360) (by linarith)
      have b := RS.mono (fmodQ x 360 + 360) 360 (by linarith)
      rw [RS.rnd_rep 0 RS.rep_zero] at a
      rw [RS.rnd_rep 360 RS.rep_360] at b
      exact ⟨a, b⟩
    · rename_i hge
      exact ⟨by linarith, by linarith⟩

/-- a second modulo of a value in [0, 360] lands in [0, 360) -/
theorem pyModQ_of_range (RS : RoundingSystem) (m : Rat) (h0 : 0 ≤ m) (h : m ≤ 360) :
    0 ≤ pyModQ RS m 360 ∧ pyModQ RS m 360 < 360 := by
  rcases lt_or_eq_of_le h with hlt | heq
  · have := fmodQ_of_lt m 360 h0 hlt
    unfold pyModQ
    simp only [this]
    split
    · exact ⟨le_refl _, by norm_num⟩
    · have : ¬ m < 0 := by linarith
      simp only [this, if_false]
      exact ⟨h0, hlt⟩
  · subst heq
    unfold pyModQ
    simp [fmodQ_self 360 (by norm_num)]

theorem norm2Q_range (RS : RoundingSystem) (x : Rat) : 0 ≤ norm2Q RS x ∧ norm2Q RS x < 360 := by
  obtain ⟨a, b⟩ := pyModQ_range RS x
  exact pyModQ_of_range RS _ a b

end C05

/-! Part 3: the state machine keeps every angle field in range, for any number system with the range law. -/
namespace C05

/-- what the invariant proof needs to know about the numbers -/
structure NumLaws {α : Type} (N : NumSys α) where
  /-- finite value -/
  Fin : α → Prop
  /-- value in [0, 360) -/
  R : α → Prop
  r_zero : R N.zero
  r_norm2 : ∀ x, Fin x → R (N.norm2 x)
  fin_of_r : ∀ x, R x → Fin x

variable {α : Type} {N : NumSys α} (L : NumLaws N)

def ObjOK (o : Obj α) : Prop := o.kind.isAngle = true → L.R o.a ∧ L.R o.b ∧ L.R o.c

/-- every live Angle / FrozenAngle has all three fields in [0, 360) -/
def Inv (st : State α) : Prop := ∀ o ∈ st, ObjOK L o

/-- domain of an operation: the numbers it feeds into normalising writes are finite -/
def WfOp (st : State α) : Op α → Prop
  | .ctor _ _ a b c => L.Fin a ∧ L.Fin b ∧ L.Fin c
  | .setProp _ _ v => L.Fin v
  | .setItem _ _ v => L.Fin v
  | .imul i v => ∀ o, st[i]? = some o → L.Fin (N.mul o.a v) ∧ L.Fin (N.mul o.b v) ∧ L.Fin (N.mul o.c v)
  | .mulNew i v => ∀ o, st[i]? = some o → L.Fin (N.mul o.a v) ∧ L.Fin (N.mul o.b v) ∧ L.Fin (N.mul o.c v)
  | .toAngle _ _ raw => ∀ x ∈ raw, L.Fin x
  | .transform _ raw => ∀ x ∈ raw, L.Fin x
  | _ => True

def WfRun (sites : List AngleSite) : State α → List (Op α) → Prop
  | _, [] => True
  | st, op :: r => WfOp L st op ∧ WfRun sites (step N sites st op).1 r

theorem inv_nil : Inv L ([] : State α) := by
  intro o h; cases h

theorem inv_append {st : State α} {o : Obj α} (h : Inv L st) (ho : ObjOK L o) : Inv L (st ++ [o]) := by
  intro p hp
  rcases List.mem_append.1 hp with hp | hp
  · exact h p hp
  · rw [List.mem_singleton.1 hp]; exact ho

theorem inv_set {st : State α} {o : Obj α} (i : Nat) (h : Inv L st) (ho : ObjOK L o) : Inv L (st.setObj i o) := by
  intro p hp
  rcases List.mem_or_eq_of_mem_set hp with hp | hp
  · exact h p hp
  · rw [hp]; exact ho

theorem inv_get {st : State α} {o : Obj α} {i : Nat} (h : Inv L st) (hi : st[i]? = some o) : ObjOK L o :=
  h o (List.mem_of_getElem? hi)

theorem apply_ok {c : RhsCls} {inp : Bool} {x : α} (hc : posOK inp c = true)
    (hx : if inp then L.Fin x else L.R x) : L.R (applyCls N c x) := by
  cases c <;> cases inp <;> simp [posOK] at hc <;> simp only [applyCls]
  · exact L.r_norm2 x (L.fin_of_r x (by simpa using hx))
  · exact L.r_norm2 x (by simpa using hx)
  · simpa using hx
  · exact L.r_zero
  · exact L.r_zero

theorem site_ok {sites : List AngleSite} (h : modelSitesOK sites = true) {f : String} {n : Nat} {slots : List Nat}
    {inp : Bool} (hm : (f, n, slots, inp) ∈ usedSites) {s : Nat} (hs : s ∈ slots) :
    posOK inp (siteCls sites f s n) = true := by
  unfold modelSitesOK at h
  rw [List.all_eq_true] at h
  have := h _ hm
  simp only [List.all_eq_true] at this
  exact this s hs


theorem site_in3 {sites : List AngleSite} (h : modelSitesOK sites = true) (f : String) (n : Nat)
    (hm : (f, n, [0, 1, 2], true) ∈ usedSites) {x y z : α} (hx : L.Fin x) (hy : L.Fin y) (hz : L.Fin z) :
    L.R (applyCls N (siteCls sites f 0 n) x) ∧ L.R (applyCls N (siteCls sites f 1 n) y) ∧
    L.R (applyCls N (siteCls sites f 2 n) z) :=
  ⟨apply_ok L (site_ok h hm (by decide)) (by simpa using hx), apply_ok L (site_ok h hm (by decide)) (by simpa using hy),
   apply_ok L (site_ok h hm (by decide)) (by simpa using hz)⟩

theorem site_rd3 {sites : List AngleSite} (h : modelSitesOK sites = true) (f : String) (n : Nat)
    (hm : (f, n, [0, 1, 2], false) ∈ usedSites) {x y z : α} (hx : L.R x) (hy : L.R y) (hz : L.R z) :
    L.R (applyCls N (siteCls sites f 0 n) x) ∧ L.R (applyCls N (siteCls sites f 1 n) y) ∧
    L.R (applyCls N (siteCls sites f 2 n) z) :=
  ⟨apply_ok L (site_ok h hm (by decide)) (by simpa using hx), apply_ok L (site_ok h hm (by decide)) (by simpa using hy),
   apply_ok L (site_ok h hm (by decide)) (by simpa using hz)⟩

theorem objOK_set {o : Obj α} (ho : ObjOK L o) (slot : Nat) {v : α} (hv : L.R v) : ObjOK L (o.set slot v) := by
  intro hk
  have hk' : o.kind.isAngle = true := by
    unfold Obj.set at hk; split at hk <;> exact hk
  obtain ⟨a, b, c⟩ := ho hk'
  unfold Obj.set
  split <;> exact ⟨by first | exact hv | exact a, by first | exact hv | exact b, by first | exact hv | exact c⟩

theorem toAngle_ok {sites : List AngleSite} (h : modelSitesOK sites = true) {raw : List α} (hr : ∀ x ∈ raw, L.Fin x)
    {p y r : α} (he : toAngleFields N sites raw = some (p, y, r)) : L.R p ∧ L.R y ∧ L.R r := by
  unfold toAngleFields at he
  split at he
  · rename_i ry rp rr
    simp only [Option.some.injEq, Prod.mk.injEq] at he
    obtain ⟨h1, h2, h3⟩ := he
    have := site_in3 L h "MatrixBase._to_angle" 0 (by decide) (hr rp (by simp)) (hr ry (by simp)) (hr rr (by simp))
    rw [← h1, ← h2, ← h3]; exact this
  · rename_i ry rp
    simp only [Option.some.injEq, Prod.mk.injEq] at he
    obtain ⟨h1, h2, h3⟩ := he
    have := site_in3 L h "MatrixBase._to_angle" 1 (by decide) (hr rp (by simp)) (hr ry (by simp)) (L.fin_of_r _ L.r_zero)
    rw [← h1, ← h2, ← h3]; exact this
  · cases he

/-- **one API call preserves the invariant** -/
theorem step_inv {sites : List AngleSite} (hs : modelSitesOK sites = true) {st : State α} (h : Inv L st)
    (op : Op α) (hw : WfOp L st op) : Inv L (step N sites st op).1 := by
  cases op with
  | ctor frozen iter a b c =>
    obtain ⟨ha, hb, hc⟩ := hw
    simp only [step]
    apply inv_append L h
    intro _
    cases frozen <;> cases iter
    · exact site_in3 L hs "Angle.__init__" 0 (by decide) ha hb hc
    · exact site_in3 L hs "Angle.__init__" 2 (by decide) ha hb hc
    · exact site_in3 L hs "FrozenAngle.__new__" 0 (by decide) ha hb hc
    · exact site_in3 L hs "FrozenAngle.__new__" 2 (by decide) ha hb hc
  | ctorCopy frozen i =>
    simp only [step]
    split
    · rename_i o ho
      split
      · rename_i hk
        obtain ⟨a, b, c⟩ := inv_get L h ho hk
        apply inv_append L h
        intro _
        cases frozen
        · exact site_rd3 L hs "Angle.__init__" 1 (by decide) a b c
        · exact site_rd3 L hs "FrozenAngle.__new__" 1 (by decide) a b c
      · exact h
    · exact h
  | freeze i =>
    simp only [step]
    split
    · rename_i o ho
      split
      · rename_i hk
        have hk' : o.kind.isAngle = true := by
          have : o.kind = .ang := by simpa using hk
          rw [this]; rfl
        obtain ⟨a, b, c⟩ := inv_get L h ho hk'
        apply inv_append L h
        intro _
        exact site_rd3 L hs "Angle.freeze" 0 (by decide) a b c
      · split
        · apply inv_append L h
          intro hk; cases hk
        · exact h
    · exact h
  | thaw i =>
    simp only [step]
    split
    · rename_i o ho
      split
      · rename_i hk
        have hk' : o.kind.isAngle = true := by
          have : o.kind = .fang := by simpa using hk
          rw [this]; rfl
        obtain ⟨a, b, c⟩ := inv_get L h ho hk'
        apply inv_append L h
        intro _
        exact site_rd3 L hs "FrozenAngle.thaw" 0 (by decide) a b c
      · split
        · apply inv_append L h
          intro hk; cases hk
        · exact h
    · exact h
  | setProp i slot v =>
    simp only [step]
    split
    · rename_i o ho
      split
      · rename_i hk
        apply inv_set L i h
        apply objOK_set L (inv_get L h ho)
        have hlt : slot < 3 := by simp at hk; exact hk.2
        have hv : L.Fin v := hw
        match slot, hlt with
        | 0, _ => exact apply_ok L (site_ok hs (f := "Angle.pitch") (n := 0) (slots := [0]) (inp := true) (by decide) (by decide)) (by simpa using hv)
        | 1, _ => exact apply_ok L (site_ok hs (f := "Angle.yaw") (n := 0) (slots := [1]) (inp := true) (by decide) (by decide)) (by simpa using hv)
        | 2, _ => exact apply_ok L (site_ok hs (f := "Angle.roll") (n := 0) (slots := [2]) (inp := true) (by decide) (by decide)) (by simpa using hv)
      · exact h
    · exact h
  | setItem i slot v =>
    simp only [step]
    split
    · rename_i o ho
      split
      · rename_i hk
        apply inv_set L i h
        apply objOK_set L (inv_get L h ho)
        have hlt : slot < 3 := by simp at hk; exact hk.2
        have hv : L.Fin v := hw
        have hm : ("Angle.__setitem__", 0, [0, 1, 2], true) ∈ usedSites := by decide
        match slot, hlt with
        | 0, _ => exact apply_ok L (site_ok hs hm (by decide)) (by simpa using hv)
        | 1, _ => exact apply_ok L (site_ok hs hm (by decide)) (by simpa using hv)
        | 2, _ => exact apply_ok L (site_ok hs hm (by decide)) (by simpa using hv)
      · exact h
    · exact h
  | imul i v =>
    simp only [step]
    split
    · rename_i o ho
      split
      · obtain ⟨a, b, c⟩ := hw o ho
        apply inv_set L i h
        intro _
        exact site_in3 L hs "Angle.__imul__" 0 (by decide) a b c
      · exact h
    · exact h
  | mulNew i v =>
    simp only [step]
    split
    · rename_i o ho
      split
      · obtain ⟨a, b, c⟩ := hw o ho
        apply inv_append L h
        intro _
        cases hf : o.kind.frozen
        · exact site_in3 L hs "Angle.__init__" 0 (by decide) a b c
        · exact site_in3 L hs "FrozenAngle.__new__" 0 (by decide) a b c
      · exact h
    · exact h
  | toAngle tgt frozen raw =>
    simp only [step]
    split
    · exact h
    · rename_i p y r he
      have hr := toAngle_ok L hs hw he
      cases tgt with
      | none => exact inv_append L h (fun _ => hr)
      | some i =>
        simp only
        split
        · split
          · exact inv_set L i h (fun _ => hr)
          · exact h
        · exact h
  | transform i raw =>
    simp only [step]
    split
    · rename_i o p y r ho he
      obtain ⟨a, b, c⟩ := toAngle_ok L hs hw he
      split
      · apply inv_set L i h
        intro _
        exact site_rd3 L hs "Angle.transform" 0 (by decide) a b c
      · exact h
    · exact h
  | vctor frozen x y z =>
    simp only [step]
    apply inv_append L h
    intro hk
    cases frozen <;> cases hk
  | vset i slot v =>
    simp only [step]
    split
    · rename_i o ho
      split
      · rename_i hk
        apply inv_set L i h
        intro hk2
        have : o.kind = .vec := by simp at hk; exact hk.1
        have hk3 : (o.set slot v).kind = o.kind := by unfold Obj.set; split <;> rfl
        rw [hk3, this] at hk2; cases hk2
      · exact h
    · exact h
  | vscale i v inplace =>
    simp only [step]
    split
    · rename_i o ho
      split
      · exact h
      · rename_i hk
        have hna : ObjOK L (⟨o.kind, N.mul o.a v, N.mul o.b v, N.mul o.c v⟩ : Obj α) := by
          intro hk2; exact absurd hk2 hk
        split
        · split
          · exact inv_set L i h hna
          · exact h
        · exact inv_append L h hna
    · exact h
  | vadd i j subtract inplace =>
    simp only [step]
    split
    · rename_i o p ho hp
      split
      · exact h
      · rename_i hk
        have hk1 : ¬ o.kind.isAngle = true := by
          intro hc; apply hk; simp [hc]
        have hna : ∀ (x y z : α), ObjOK L (⟨o.kind, x, y, z⟩ : Obj α) := by
          intro x y z hk2; exact absurd hk2 hk1
        split
        · split
          · exact inv_set L i h (hna _ _ _)
          · exact h
        · exact inv_append L h (hna _ _ _)
    · exact h

theorem run_inv {sites : List AngleSite} (hs : modelSitesOK sites = true) (ops : List (Op α)) :
    ∀ (st : State α), Inv L st → WfRun L sites st ops → Inv L (run N sites st ops) := by
  induction ops with
  | nil => intro st h _; exact h
  | cons op r ih =>
    intro st h hw
    obtain ⟨h1, h2⟩ := hw
    have := ih (step N sites st op).1 (step_inv L hs h op h1) h2
    simpa [run] using this

end C05

/-! Part 3b: law instances; frame property of the state machine. -/
namespace C05
open B64

/-- the laws hold for the exact binary64 model -/
def b64Laws : NumLaws b64 where
  Fin x := x.isFinite = true
  R x := ∃ b, x = .fin false b ∧ b < M360
  r_zero := by
    refine ⟨0, ?_, M360_pos⟩
    rfl
  r_norm2 := by
    intro x hx
    cases x with
    | fin s m => exact norm360_fin s m
    | inf s => cases hx
    | nan => cases hx
  fin_of_r := by
    rintro x ⟨b, rfl, _⟩; rfl

/-- the number system of an arbitrary rounding system (every arithmetic result is rounded) -/
def absSys (RS : RoundingSystem) : NumSys Rat where
  zero := 0
  norm2 := norm2Q RS
  mod1 := fun x => pyModQ RS x 360
  mul := fun a b => RS.rnd (a * b)
  add := fun a b => RS.rnd (a + b)
  sub := fun a b => RS.rnd (a - b)

def absLaws (RS : RoundingSystem) : NumLaws (absSys RS) where
  Fin _ := True
  R x := 0 ≤ x ∧ x < 360
  r_zero := by
    show (0 : Rat) ≤ 0 ∧ (0 : Rat) < 360
    exact ⟨le_refl _, by norm_num⟩
  r_norm2 := fun x _ => norm2Q_range RS x
  fin_of_r := fun _ _ => trivial

variable {α : Type} (N : NumSys α) (sites : List AngleSite)

theorem get_append_left {st : State α} {j : Nat} {o x : Obj α} (hj : st[j]? = some o) : (st ++ [x])[j]? = some o := by
  have hlt : j < st.length := by
    by_contra hc
    have := List.getElem?_eq_none (Nat.le_of_not_lt hc)
    rw [this] at hj; cases hj
  rw [List.getElem?_append_left hlt]; exact hj

theorem get_set {st : State α} {i j : Nat} {o x : Obj α} (hj : st[j]? = some o) :
    (st.setObj i x)[j]? = some o ∨ i = j := by
  by_cases h : i = j
  · exact Or.inr h
  · left
    unfold State.setObj
    rw [List.getElem?_set_ne h]; exact hj

/-- **frame property of one API call**: an object that exists before the call is unchanged by it, unless it is the
reported target of the call — and then it is a mutable object (`Angle` or `Vec`). -/
theorem step_frame (st : State α) (op : Op α) (j : Nat) (o : Obj α) (hj : st[j]? = some o) :
    (step N sites st op).1[j]? = some o ∨ ((step N sites st op).2 = some j ∧ o.kind.frozen = false) := by
  have app : ∀ x : Obj α, (st ++ [x])[j]? = some o := fun x => get_append_left hj
  have hang : ∀ p : Obj α, st[j]? = some p → (p.kind == Kind.ang) = true → o.kind.frozen = false := by
    intro p hp hk
    rw [hj] at hp; cases hp
    have : o.kind = .ang := by simpa using hk
    rw [this]; rfl
  have hvec : ∀ p : Obj α, st[j]? = some p → (p.kind == Kind.vec) = true → o.kind.frozen = false := by
    intro p hp hk
    rw [hj] at hp; cases hp
    have : o.kind = .vec := by simpa using hk
    rw [this]; rfl
  cases op with
  | ctor frozen iter a b c => left; simp only [step]; exact app _
  | ctorCopy frozen i =>
    left; simp only [step]
    split
    · split
      · exact app _
      · exact hj
    · exact hj
  | freeze i =>
    left; simp only [step]
    split
    · split
      · exact app _
      · split
        · exact app _
        · exact hj
    · exact hj
  | thaw i =>
    left; simp only [step]
    split
    · split
      · exact app _
      · split
        · exact app _
        · exact hj
    · exact hj
  | setProp i slot v =>
    simp only [step]
    split
    · rename_i p hp
      split
      · rename_i hk
        rcases get_set (i := i) (x := p.set slot (applyCls N (siteCls sites (propName slot) slot 0) v)) hj with h | h
        · exact Or.inl h
        · right; subst h
          exact ⟨rfl, hang p hp (by simp at hk; simp [hk.1])⟩
      · exact Or.inl hj
    · exact Or.inl hj
  | setItem i slot v =>
    simp only [step]
    split
    · rename_i p hp
      split
      · rename_i hk
        rcases get_set (i := i) (x := p.set slot (applyCls N (siteCls sites "Angle.__setitem__" slot 0) v)) hj with h | h
        · exact Or.inl h
        · right; subst h
          exact ⟨rfl, hang p hp (by simp at hk; simp [hk.1])⟩
      · exact Or.inl hj
    · exact Or.inl hj
  | imul i v =>
    simp only [step]
    split
    · rename_i p hp
      split
      · rename_i hk
        rcases get_set (i := i) hj with h | h
        · exact Or.inl h
        · right; subst h
          exact ⟨rfl, hang p hp hk⟩
      · exact Or.inl hj
    · exact Or.inl hj
  | mulNew i v =>
    left; simp only [step]
    split
    · split
      · exact app _
      · exact hj
    · exact hj
  | toAngle tgt frozen raw =>
    simp only [step]
    split
    · exact Or.inl hj
    · cases tgt with
      | none => exact Or.inl (app _)
      | some i =>
        simp only
        split
        · rename_i p hp
          split
          · rename_i hk
            rcases get_set (i := i) hj with h | h
            · exact Or.inl h
            · right; subst h
              exact ⟨rfl, hang p hp hk⟩
          · exact Or.inl hj
        · exact Or.inl hj
  | transform i raw =>
    simp only [step]
    split
    · rename_i p _ _ _ hp _
      split
      · rename_i hk
        rcases get_set (i := i) hj with h | h
        · exact Or.inl h
        · right; subst h
          exact ⟨rfl, hang p hp hk⟩
      · exact Or.inl hj
    · exact Or.inl hj
  | vctor frozen x y z => left; simp only [step]; exact app _
  | vset i slot v =>
    simp only [step]
    split
    · rename_i p hp
      split
      · rename_i hk
        rcases get_set (i := i) (x := p.set slot v) hj with h | h
        · exact Or.inl h
        · right; subst h
          exact ⟨rfl, hvec p hp (by simp at hk; simp [hk.1])⟩
      · exact Or.inl hj
    · exact Or.inl hj
  | vscale i v inplace =>
    simp only [step]
    split
    · rename_i p hp
      split
      · exact Or.inl hj
      · split
        · split
          · rename_i hk
            rcases get_set (i := i) hj with h | h
            · exact Or.inl h
            · right; subst h
              exact ⟨rfl, hvec p hp hk⟩
          · exact Or.inl hj
        · exact Or.inl (app _)
    · exact Or.inl hj
  | vadd i k subtract inplace =>
    simp only [step]
    split
    · rename_i p q hp hq
      split
      · exact Or.inl hj
      · split
        · split
          · rename_i hk
            rcases get_set (i := i) hj with h | h
            · exact Or.inl h
            · right; subst h
              exact ⟨rfl, hvec p hp hk⟩
          · exact Or.inl hj
        · exact Or.inl (app _)
    · exact Or.inl hj

/-- a frozen object is never changed by an API call -/
theorem step_frozen (st : State α) (op : Op α) (j : Nat) (o : Obj α) (hj : st[j]? = some o)
    (hf : o.kind.frozen = true) : (step N sites st op).1[j]? = some o := by
  rcases step_frame N sites st op j o hj with h | ⟨_, h⟩
  · exact h
  · rw [hf] at h; cases h

/-- … nor by any history -/
theorem run_frozen (ops : List (Op α)) : ∀ (st : State α) (j : Nat) (o : Obj α), st[j]? = some o →
    o.kind.frozen = true → (run N sites st ops)[j]? = some o := by
  induction ops with
  | nil => intro st j o hj _; exact hj
  | cons op r ih =>
    intro st j o hj hf
    have := ih (step N sites st op).1 j o (step_frozen N sites st op j o hj hf) hf
    simpa [run] using this

end C05

namespace C05

/-! Part 4: heap frame theorem behind `Gen.Frozen`. Objects are heap cells with a role and slot values; one
top-level API call is a trace of allocations and slot stores, each store tagged with the source site it executes. -/

structure Cell (α : Type) where
  role : Role
  vals : List α

abbrev Heap (α : Type) := List (Cell α)

inductive Ev (α : Type)
  | alloc (role : Role) (vals : List α)
  | store (site : Store) (loc slot : Nat) (v : α)

def exec {α} (h : Heap α) : Ev α → Heap α
  | .alloc r vs => h ++ [⟨r, vs⟩]
  | .store _ loc slot v =>
    match h[loc]? with
    | some c => h.set loc { c with vals := c.vals.set slot v }
    | none => h

def roleAt {α} (h : Heap α) (l : Nat) : Option Role := (h[l]?).map (·.role)

/-- The translator's reading of its own classification (trusted, checked dynamically by the program fuzz): a store
executes a site of `G.stores`, and if `storeOK` accepts the site then the object written is one allocated by the
running call (`base ≤ loc`) or an instance of a mutable class. -/
def Reading {α} (G : FrozenFacts) (base : Nat) (h : Heap α) : Ev α → Prop
  | .alloc _ _ => True
  | .store site loc _ _ => site ∈ G.stores ∧ (G.storeOK site = true → base ≤ loc ∨ roleAt h loc = some .mutable)

def CallOK {α} (G : FrozenFacts) (base : Nat) : Heap α → List (Ev α) → Prop
  | _, [] => True
  | h, e :: r => Reading G base h e ∧ CallOK G base (exec h e) r

def execAll {α} (h : Heap α) (tr : List (Ev α)) : Heap α := tr.foldl exec h

theorem stores_ok {G : FrozenFacts} (hG : G.frozenOK = true) {s : Store} (hs : s ∈ G.stores) : G.storeOK s = true := by
  unfold FrozenFacts.frozenOK at hG
  simp only [Bool.and_eq_true] at hG
  exact List.all_eq_true.1 hG.2 s hs

theorem exec_keeps {α} {G : FrozenFacts} (hG : G.frozenOK = true) (base : Nat) (h : Heap α) (e : Ev α)
    (hr : Reading G base h e) (l : Nat) (c : Cell α) (hl : l < base) (hc : h[l]? = some c) (hm : c.role ≠ .mutable) :
    (exec h e)[l]? = some c := by
  cases e with
  | alloc r vs =>
    simp only [exec]
    have hlt : l < h.length := by
      by_contra hcon
      rw [List.getElem?_eq_none (Nat.le_of_not_lt hcon)] at hc; cases hc
    rw [List.getElem?_append_left hlt]; exact hc
  | store site loc slot v =>
    obtain ⟨hs, hrd⟩ := hr
    simp only [exec]
    split
    · rename_i c' hc'
      by_cases heq : loc = l
      · subst heq
        rcases hrd (stores_ok hG hs) with hb | hb
        · omega
        · exfalso
          simp only [roleAt, hc, Option.map_some, Option.some.injEq] at hb
          exact hm hb
      · rw [List.getElem?_set_ne heq]; exact hc
    · exact hc

/-- **frame theorem**: if every store site is accepted by the `Gen.Frozen` obligation, one API call leaves every
frozen (and base-class) object that existed before the call exactly as it was. -/
theorem call_frame {α} {G : FrozenFacts} (hG : G.frozenOK = true) (base : Nat) (tr : List (Ev α)) :
    ∀ (h : Heap α), CallOK G base h tr → ∀ (l : Nat) (c : Cell α), l < base → h[l]? = some c → c.role ≠ .mutable →
      (execAll h tr)[l]? = some c := by
  induction tr with
  | nil => intro h _ l c _ hc _; exact hc
  | cons e r ih =>
    intro h hok l c hl hc hm
    obtain ⟨h1, h2⟩ := hok
    have := ih (exec h e) h2 l c hl (exec_keeps hG base h e h1 l c hl hc hm) hm
    simpa [execAll] using this

/-- a history: each call starts from the heap the previous one left -/
def HistoryOK {α} (G : FrozenFacts) : Heap α → List (List (Ev α)) → Prop
  | _, [] => True
  | h, tr :: r => CallOK G h.length h tr ∧ HistoryOK G (execAll h tr) r

def execHistory {α} (h : Heap α) (calls : List (List (Ev α))) : Heap α := calls.foldl execAll h

theorem history_frame {α} {G : FrozenFacts} (hG : G.frozenOK = true) (calls : List (List (Ev α))) :
    ∀ (h : Heap α), HistoryOK G h calls → ∀ (l : Nat) (c : Cell α), h[l]? = some c → c.role ≠ .mutable →
      (execHistory h calls)[l]? = some c := by
  induction calls with
  | nil => intro h _ l c hc _; exact hc
  | cons tr r ih =>
    intro h hok l c hc hm
    obtain ⟨h1, h2⟩ := hok
    have hl : l < h.length := by
      by_contra hcon
      rw [List.getElem?_eq_none (Nat.le_of_not_lt hcon)] at hc; cases hc
    have := ih (execAll h tr) h2 l c (call_frame hG h.length tr h h1 l c hl hc hm) hm
    simpa [execHistory] using this

end C05

/-! Part 5: the text form (`format_float`). -/
namespace B64

/-- `-?[0-9]+(\.[0-9]{1,6})?` -/
def shapeOK (l : List Char) : Bool :=
  let l := match l with
    | '-' :: r => r
    | r => r
  let ip := l.takeWhile isDigit
  let r := l.dropWhile isDigit
  !ip.isEmpty && (match r with
    | [] => true
    | '.' :: fp => !fp.isEmpty && decide (fp.length ≤ 6) && fp.all isDigit
    | _ => false)

theorem isDigit_digitChar (d : Nat) : isDigit (digitChar d) = true := by
  unfold digitChar
  have h : d % 10 < 10 := Nat.mod_lt _ (by decide)
  generalize d % 10 = k at h
  have : ∀ k : Fin 10, isDigit (Char.ofNat (48 + k.val)) = true := by decide
  exact this ⟨k, h⟩

theorem digitChar_ne_dot (d : Nat) : digitChar d ≠ '.' := by
  intro h
  have := isDigit_digitChar d
  rw [h] at this
  exact absurd this (by decide)

theorem digitChar_ne_minus (d : Nat) : digitChar d ≠ '-' := by
  intro h
  have := isDigit_digitChar d
  rw [h] at this
  exact absurd this (by decide)

theorem natDigitsAux_spec : ∀ (fuel n : Nat) (acc : List Char), 0 < fuel →
    ∃ pre, natDigitsAux fuel n acc = pre ++ acc ∧ pre ≠ [] ∧ ∀ c ∈ pre, isDigit c = true := by
  intro fuel
  induction fuel with
  | zero => intro n acc h; cases h
  | succ k ih =>
    intro n acc _
    unfold natDigitsAux
    split
    · exact ⟨[digitChar n], rfl, by simp, by intro c hc; simp at hc; rw [hc]; exact isDigit_digitChar n⟩
    · cases k with
      | zero =>
        refine ⟨[digitChar (n % 10)], ?_, by simp, by intro c hc; simp at hc; rw [hc]; exact isDigit_digitChar _⟩
        simp [natDigitsAux]
      | succ j =>
        obtain ⟨pre, h1, h2, h3⟩ := ih (n / 10) (digitChar (n % 10) :: acc) (Nat.succ_pos j)
        refine ⟨pre ++ [digitChar (n % 10)], ?_, by simp, ?_⟩
        · rw [h1]; simp
        · intro c hc
          rcases List.mem_append.1 hc with hc | hc
          · exact h3 c hc
          · simp at hc; rw [hc]; exact isDigit_digitChar _

theorem natDigits_spec (n : Nat) : natDigits n ≠ [] ∧ ∀ c ∈ natDigits n, isDigit c = true := by
  obtain ⟨pre, h1, h2, h3⟩ := natDigitsAux_spec (Nat.log2 n + 1) n [] (Nat.succ_pos _)
  unfold natDigits
  rw [h1, List.append_nil]
  exact ⟨h2, h3⟩

theorem pad6_all (f : Nat) : ∀ c ∈ pad6 f, isDigit c = true := by
  intro c hc
  simp only [pad6, List.mem_cons, List.mem_nil_iff, or_false] at hc
  rcases hc with h | h | h | h | h | h <;> rw [h] <;> exact isDigit_digitChar _

theorem pad6_length (f : Nat) : (pad6 f).length = 6 := rfl

/-! `rstrip` on structured text -/

theorem rstrip_all_digits_noop_dot (l : List Char) (hne : l ≠ []) (h : ∀ c ∈ l, isDigit c = true) :
    rstrip '.' l = l := by
  unfold rstrip
  have hr : l.reverse ≠ [] := by simpa using hne
  cases hrev : l.reverse with
  | nil => exact absurd hrev hr
  | cons a t =>
    have ha : a ∈ l := by
      have : a ∈ l.reverse := by rw [hrev]; simp
      simpa using this
    have hd : isDigit a = true := h a ha
    have hne' : (a == '.') = false := by
      cases hq : (a == '.')
      · rfl
      · have : a = '.' := by simpa using hq
        rw [this] at hd; exact absurd hd (by decide)
    simp only [List.dropWhile_cons, hne']
    rw [← hrev]; simp

theorem rstrip_subset (c : Char) (l : List Char) : ∀ x ∈ rstrip c l, x ∈ l := by
  intro x hx
  unfold rstrip at hx
  have : x ∈ l.reverse.dropWhile (· == c) := by simpa using hx
  have := (List.dropWhile_sublist _).subset this
  simpa using this

theorem rstrip_length_le (c : Char) (l : List Char) : (rstrip c l).length ≤ l.length := by
  unfold rstrip
  have := (List.dropWhile_sublist (fun x => x == c) (l := l.reverse)).length_le
  simpa using this

/-- stripping `c` from `A ++ B`: only `B` is affected unless all of `B` goes -/
theorem rstrip_append (c : Char) (A B : List Char) :
    rstrip c (A ++ B) = if rstrip c B = [] then rstrip c A else A ++ rstrip c B := by
  unfold rstrip
  rw [List.reverse_append, List.dropWhile_append]
  by_cases h : (B.reverse.dropWhile (· == c)).isEmpty = true
  · have h' : B.reverse.dropWhile (· == c) = [] := by simpa using h
    simp [h']
  · have h' : B.reverse.dropWhile (· == c) ≠ [] := by simpa using h
    simp [h']

theorem rstrip_last_ne (c : Char) (l : List Char) (h : rstrip c l ≠ []) :
    ∃ t a, rstrip c l = t ++ [a] ∧ a ≠ c := by
  unfold rstrip at *
  cases hd : l.reverse.dropWhile (· == c) with
  | nil => rw [hd] at h; simp at h
  | cons a t =>
    refine ⟨t.reverse, a, by simp, ?_⟩
    have hw : List.dropWhile (fun x => x == c) l.reverse ≠ [] := by rw [hd]; simp
    have := List.head_dropWhile_not (fun x => x == c) hw
    simp only [hd, List.head_cons] at this
    simpa using this


theorem tw_all (p : Char → Bool) (D r : List Char) (h : ∀ c ∈ D, p c = true) :
    (D ++ r).takeWhile p = D ++ r.takeWhile p := by
  induction D with
  | nil => rfl
  | cons d t ih =>
    have hd : p d = true := h d (by simp)
    simp only [List.cons_append, List.takeWhile_cons, hd, if_true]
    rw [ih (fun c hc => h c (by simp [hc]))]

theorem dw_all (p : Char → Bool) (D r : List Char) (h : ∀ c ∈ D, p c = true) :
    (D ++ r).dropWhile p = r.dropWhile p := by
  induction D with
  | nil => rfl
  | cons d t ih =>
    have hd : p d = true := h d (by simp)
    simp only [List.cons_append, List.dropWhile_cons, hd, if_true]
    exact ih (fun c hc => h c (by simp [hc]))

/-- the two possible outcomes of the stripping are of the required shape -/
theorem shape_of_parts (s : Bool) (D F : List Char) (hD : D ≠ []) (hDd : ∀ c ∈ D, isDigit c = true)
    (hF : F = [] ∨ (F.length ≤ 6 ∧ ∀ c ∈ F, isDigit c = true)) :
    shapeOK ((if s then ['-'] else []) ++ D ++ (if F = [] then [] else '.' :: F)) = true := by
  obtain ⟨d, t, rfl⟩ : ∃ d t, D = d :: t := by
    cases D with
    | nil => exact absurd rfl hD
    | cons d t => exact ⟨d, t, rfl⟩
  have hd : isDigit d = true := hDd d (by simp)
  have hdm : d ≠ '-' := by
    intro h; rw [h] at hd; exact absurd hd (by decide)
  -- what remains after the optional sign
  have key : ∀ rest : List Char, (rest = [] ∨ ∃ F', rest = '.' :: F' ∧ F' ≠ [] ∧ F'.length ≤ 6 ∧ ∀ c ∈ F', isDigit c = true) →
      (!((d :: t ++ rest).takeWhile isDigit).isEmpty && (match (d :: t ++ rest).dropWhile isDigit with
        | [] => true
        | '.' :: fp => !fp.isEmpty && decide (fp.length ≤ 6) && fp.all isDigit
        | _ => false)) = true := by
    intro rest hrest
    rw [tw_all isDigit (d :: t) rest hDd, dw_all isDigit (d :: t) rest hDd]
    rcases hrest with rfl | ⟨F', rfl, hne, hlen, hall⟩
    · simp
    · have hdot : isDigit '.' = false := by decide
      simp only [List.dropWhile_cons, hdot, Bool.false_eq_true, if_false]
      simp only [List.cons_append, List.isEmpty_cons, Bool.not_false, Bool.true_and]
      have h1 : F'.isEmpty = false := by
        cases F' with
        | nil => exact absurd rfl hne
        | cons _ _ => rfl
      have h3 : F'.all isDigit = true := List.all_eq_true.2 hall
      simp [h1, hlen, h3]
  have hrest : (if F = [] then ([] : List Char) else '.' :: F) = [] ∨
      ∃ F', (if F = [] then ([] : List Char) else '.' :: F) = '.' :: F' ∧ F' ≠ [] ∧ F'.length ≤ 6 ∧ ∀ c ∈ F', isDigit c = true := by
    by_cases hF0 : F = []
    · left; simp [hF0]
    · right
      rcases hF with h | ⟨h1, h2⟩
      · exact absurd h hF0
      · exact ⟨F, by simp [hF0], hF0, h1, h2⟩
  have := key _ hrest
  unfold shapeOK
  cases s with
  | true =>
    simp only [if_true, List.cons_append, List.nil_append]
    exact this
  | false =>
    simp only [Bool.false_eq_true, if_false, List.nil_append, List.cons_append]
    split
    · rename_i r heq
      have : d = '-' := by
        simp only [List.cons.injEq] at heq; exact heq.1
      exact absurd this hdm
    · rename_i r hnot
      exact this

/-- `'%.6f'` text of a finite value, stripped as `format_float` strips it: sign, digits, and either nothing or a
point followed by 1–6 digits. -/
theorem strip_fmt6 (s : Bool) (m : Nat) :
    ∃ D F, D ≠ [] ∧ (∀ c ∈ D, isDigit c = true) ∧ (F = [] ∨ (F.length ≤ 6 ∧ ∀ c ∈ F, isDigit c = true)) ∧
      rstrip '.' (rstrip '0' (fmt6 (.fin s m))) =
        (if s then ['-'] else []) ++ D ++ (if F = [] then [] else '.' :: F) ∧
      (fmt6 (.fin s m)).contains '.' = true := by
  let n := roundHE (m * 1000000) U
  let sg : List Char := if s then ['-'] else []
  let D := natDigits (n / 1000000)
  let F0 := pad6 (n % 1000000)
  obtain ⟨hD1, hD2⟩ := natDigits_spec (n / 1000000)
  have hT : fmt6 (.fin s m) = (sg ++ D ++ ['.']) ++ F0 := by
    show sg ++ D ++ '.' :: F0 = _
    simp
  have hF0 : ∀ c ∈ F0, isDigit c = true := pad6_all _
  let F := rstrip '0' F0
  have hFsub : ∀ c ∈ F, isDigit c = true := fun c hc => hF0 c (rstrip_subset _ _ c hc)
  have hFlen : F.length ≤ 6 := by
    have := rstrip_length_le '0' F0
    simpa [F0, pad6_length] using this
  have hdot0 : rstrip '0' ['.'] = ['.'] := by decide
  have hdotd : rstrip '.' ['.'] = [] := by decide
  have hsgD : rstrip '.' (sg ++ D) = sg ++ D := by
    have hD1' : D ≠ [] := hD1
    rw [rstrip_append, rstrip_all_digits_noop_dot D hD1 hD2, if_neg hD1']
  refine ⟨D, F, hD1, hD2, ?_, ?_, ?_⟩
  · by_cases h : F = []
    · exact Or.inl h
    · exact Or.inr ⟨hFlen, hFsub⟩
  · rw [hT, rstrip_append '0']
    by_cases h : F = []
    · have h' : rstrip '0' F0 = [] := h
      simp only [h', if_true]
      have : rstrip '0' (sg ++ D ++ ['.']) = sg ++ D ++ ['.'] := by
        rw [rstrip_append, hdot0]; simp
      rw [this, rstrip_append '.', hdotd]
      simp only [if_true]
      rw [hsgD]
      simp only [h, if_true, List.append_nil]
      rfl
    · have h' : rstrip '0' F0 ≠ [] := h
      simp only [h', if_false]
      rw [rstrip_append '.', rstrip_all_digits_noop_dot F h hFsub]
      simp only [h, if_false]
      simp only [List.append_assoc, List.singleton_append]
      rfl
  · rw [hT]
    simp


/-- characters of plain decimal notation -/
def plainChar (c : Char) : Bool := c == '-' || c == '.' || isDigit c

theorem formatFloat_shape (x : Val) (hy : (add x zero).isFinite = true) :
    shapeOK (formatFloat x) = true ∧ formatFloat x ≠ ['-', '0'] ∧ ∀ c ∈ formatFloat x, plainChar c = true := by
  cases hadd : add x zero with
  | inf s => rw [hadd] at hy; cases hy
  | nan => rw [hadd] at hy; cases hy
  | fin s m =>
    obtain ⟨D, F, hD1, hD2, hF, hstrip, hcont⟩ := strip_fmt6 s m
    have hold : formatFloatOld x = (if s then ['-'] else []) ++ D ++ (if F = [] then [] else '.' :: F) := by
      unfold formatFloatOld
      simp only [hadd, hcont, if_true]
      exact hstrip
    have hshape := shape_of_parts s D F hD1 hD2 hF
    have hchars : ∀ c ∈ formatFloatOld x, plainChar c = true := by
      rw [hold]
      intro c hc
      simp only [List.mem_append] at hc
      rcases hc with (hc | hc) | hc
      · cases s <;> simp at hc
        rw [hc]; decide
      · simp [plainChar, hD2 c hc]
      · by_cases hF0 : F = []
        · simp [hF0] at hc
        · simp only [hF0, if_false, List.mem_cons] at hc
          rcases hc with hc | hc
          · rw [hc]; decide
          · rcases hF with h | ⟨_, h⟩
            · exact absurd h hF0
            · simp [plainChar, h c hc]
    unfold formatFloat
    simp only
    by_cases hz : (formatFloatOld x == ['-', '0']) = true
    · simp only [hz, if_true]
      exact ⟨by decide, by decide, by decide⟩
    · have hz' : (formatFloatOld x == ['-', '0']) = false := by simpa using hz
      simp only [hz', Bool.false_eq_true, if_false]
      refine ⟨by rw [hold]; exact hshape, ?_, hchars⟩
      intro h
      rw [h] at hz'
      exact absurd hz' (by decide)

end B64
